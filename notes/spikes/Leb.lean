namespace Leb
abbrev Bytes := List UInt8

def uleb (n : Nat) : Bytes :=
  if h : n < 128 then [n.toUInt8]
  else (n % 128 + 128).toUInt8 :: uleb (n / 128)
termination_by n
decreasing_by omega

def readUleb : Bytes → Option (Nat × Bytes)
  | [] => none
  | b :: rest =>
    if b < 128 then some (b.toNat, rest)
    else match readUleb rest with
      | none => none
      | some (v, r) => some ((b.toNat - 128) + 128 * v, r)

theorem toUInt8_toNat (n : Nat) : (n.toUInt8).toNat = n % 256 := by simp

theorem readUleb_uleb (n : Nat) (r : Bytes) : readUleb (uleb n ++ r) = some (n, r) := by
  induction n using Nat.strongRecOn with
  | _ n ih =>
    rw [uleb]
    split
    · rename_i h
      have h1 := toUInt8_toNat n
      have : (n.toUInt8 : UInt8) < 128 := by
        rw [UInt8.lt_iff_toNat_lt, h1]; simp; omega
      simp only [List.cons_append, List.nil_append, readUleb, this, if_true, h1]
      congr 2; omega
    · rename_i h
      have h1 := toUInt8_toNat (n % 128 + 128)
      have hlt : ¬ ((n % 128 + 128).toUInt8 : UInt8) < 128 := by
        rw [UInt8.lt_iff_toNat_lt, h1]; simp; omega
      simp only [List.cons_append, readUleb, hlt, if_false]
      rw [ih (n / 128) (by omega), h1]
      simp only [Option.some.injEq, Prod.mk.injEq, and_true]
      omega
end Leb
