/-! Spike: type-directed decoder with opt back-tracking vs. a coercion function. Reduced language. -/
namespace DecSpike

inductive Ty where
  | nat8 | bool | null | reserved | opt (t : Ty) | vec (t : Ty)
deriving DecidableEq, Repr

inductive Val where
  | nat8 (n : UInt8) | bool (b : Bool) | null | reserved | none | some (v : Val) | vec (vs : List Val)
deriving Repr

abbrev Bytes := List UInt8

inductive Err | subtype | malformed | limit
deriving DecidableEq, Repr

abbrev R (α : Type) := Except Err α

def optLike : Ty → Bool
  | .null | .reserved | .opt _ => true
  | _ => false

/-- spec: wire encoding M(v : t) as a function (no LEB here: vec length is one byte < 128 for the spike) -/
def enc : Ty → Val → Option Bytes
  | .nat8, .nat8 n => some [n]
  | .bool, .bool b => some [if b then 1 else 0]
  | .null, .null => some []
  | .reserved, .reserved => some []
  | .opt _, .none => some [0]
  | .opt t, .some v => (enc t v).map (fun b => 1 :: b)
  | .vec t, .vec vs =>
      if vs.length < 128 then
        (vs.mapM (enc t)).map (fun bs => vs.length.toUInt8 :: bs.flatten)
      else none
  | _, _ => none

/-- spec: coercion, structural on the value -/
def coerce : Ty → Ty → Val → Option Val
  | _, .reserved, _ => some .reserved
  | .nat8, .nat8, .nat8 n => some (.nat8 n)
  | .bool, .bool, .bool b => some (.bool b)
  | .null, .null, .null => some .null
  | .null, .opt _, .null => some .none
  | .reserved, .opt _, .reserved => some .none
  | .opt _, .opt _, .none => some .none
  | .opt t, .opt t', .some v =>
      match coerce t t' v with
      | some v' => some (.some v')
      | none => some .none
  | .vec t, .vec t', .vec vs => (vs.mapM (coerce t t')).map .vec
  | t, .opt t', v =>
      if optLike t then none else
      match coerce t t' v with
      | some v' => some (.some v')
      | none => some .none
  | _, _, _ => none

end DecSpike

namespace DecSpike

/-- run `f` `n` times threading the input -/
def iter (f : Bytes → R Bytes) : Nat → Bytes → R Bytes
  | 0, bs => .ok bs
  | k+1, bs => match f bs with
    | .ok r => iter f k r
    | .error e => .error e

/-- run `f` `n` times collecting results -/
def iterV (f : Bytes → R (Val × Bytes)) : Nat → Bytes → R (List Val × Bytes)
  | 0, bs => .ok ([], bs)
  | k+1, bs => match f bs with
    | .ok (v, r) => match iterV f k r with
      | .ok (vs, r') => .ok (v :: vs, r')
      | .error e => .error e
    | .error e => .error e

/-- skip a value of wire type `t` (validating it) -/
def skip : Nat → Ty → Bytes → R Bytes
  | 0, _, _ => .error .limit
  | D+1, t, bs =>
    match t with
    | .nat8 => match bs with | _ :: r => .ok r | [] => .error .malformed
    | .bool => match bs with
        | b :: r => if b = 0 ∨ b = 1 then .ok r else .error .malformed
        | [] => .error .malformed
    | .null => .ok bs
    | .reserved => .ok bs
    | .opt t' => match bs with
        | b :: r => if b = 0 then .ok r else if b = 1 then skip D t' r else .error .malformed
        | [] => .error .malformed
    | .vec t' => match bs with
        | n :: r => iter (skip D t') n.toNat r
        | [] => .error .malformed

/-- decode at wire type `w`, expected type `e` -/
def de : Nat → Ty → Ty → Bytes → R (Val × Bytes)
  | 0, _, _, _ => .error .limit
  | D+1, w, e, bs =>
    match e with
    | .reserved => match skip D w bs with
        | .ok r => .ok (.reserved, r)
        | .error x => .error x
    | .nat8 => if w = .nat8 then
          match bs with | b :: r => .ok (.nat8 b, r) | [] => .error .malformed
        else .error .subtype
    | .bool => if w = .bool then
          match bs with
          | b :: r => if b = 0 then .ok (.bool false, r) else if b = 1 then .ok (.bool true, r) else .error .malformed
          | [] => .error .malformed
        else .error .subtype
    | .null => if w = .null then .ok (.null, bs) else .error .subtype
    | .vec e' => match w with
        | .vec w' => match bs with
          | n :: r => match iterV (de D w' e') n.toNat r with
            | .ok (vs, r') => .ok (.vec vs, r')
            | .error x => .error x
          | [] => .error .malformed
        | _ => .error .subtype
    | .opt e' => match w with
        | .null => .ok (.none, bs)
        | .reserved => .ok (.none, bs)
        | .opt w' => match bs with
          | b :: r =>
            if b = 0 then .ok (.none, r)
            else if b = 1 then
              match de D w' e' r with
              | .ok (v, r') => .ok (.some v, r')
              | .error .subtype => match skip D w' r with
                  | .ok r' => .ok (.none, r')
                  | .error x => .error x
              | .error x => .error x
            else .error .malformed
          | [] => .error .malformed
        | _ =>
          match de D w e' bs with
          | .ok (v, r') => .ok (.some v, r')
          | .error .subtype => match skip D w bs with
              | .ok r' => .ok (.none, r')
              | .error x => .error x
          | .error x => .error x

end DecSpike

namespace DecSpike

def need : Val → Nat
  | .some v => need v + 1
  | .vec vs => (vs.map need).foldr max 0 + 1
  | _ => 1

theorem need_mem {vs : List Val} {v : Val} (h : v ∈ vs) : need v ≤ (vs.map need).foldr max 0 := by
  induction vs with
  | nil => cases h
  | cons x xs ih =>
    simp only [List.map_cons, List.foldr_cons]
    rcases List.mem_cons.mp h with rfl | h'
    · omega
    · have := ih h'; omega

theorem mapM_some_cons {α β} (f : α → Option β) (x : α) (xs : List α) (ys : List β) :
    (x :: xs).mapM f = some ys ↔ ∃ y ys', f x = some y ∧ xs.mapM f = some ys' ∧ ys = y :: ys' := by
  simp only [List.mapM_cons]
  cases hx : f x <;> simp [hx]
  cases hxs : xs.mapM f <;> simp [hxs]
  constructor
  · intro h; exact h.symm
  · intro h; exact h.symm

/-- iterating a skipper over the concatenated encodings of a list -/
theorem iter_skip (f : Bytes → R Bytes) (t : Ty) :
    ∀ (vs : List Val) (bss : List Bytes) (r : Bytes),
      vs.mapM (enc t) = some bss →
      (∀ v ∈ vs, ∀ b r', enc t v = some b → f (b ++ r') = .ok r') →
      iter f vs.length (bss.flatten ++ r) = .ok r := by
  intro vs
  induction vs with
  | nil =>
    intro bss r h _
    simp [List.mapM_nil] at h
    subst h
    simp [iter]
  | cons v vs ih =>
    intro bss r h hf
    obtain ⟨b, bss', hb, hbs, rfl⟩ := (mapM_some_cons _ _ _ _).mp h
    simp only [List.length_cons, iter, List.flatten_cons, List.append_assoc]
    rw [hf v (List.mem_cons_self) b _ hb]
    exact ih bss' r hbs (fun v' hv' => hf v' (List.mem_cons_of_mem _ hv'))

theorem skip_enc : ∀ (D : Nat) (t : Ty) (v : Val) (b r : Bytes),
    enc t v = some b → need v ≤ D → skip D t (b ++ r) = .ok r := by
  intro D
  induction D with
  | zero =>
    intro t v b r _ hn
    cases v <;> simp [need] at hn
  | succ D ih =>
    intro t v b r he hn
    cases t <;> cases v <;> simp only [enc, reduceCtorEq] at he
    case nat8.nat8 n => simp at he; subst he; simp [skip]
    case bool.bool bb => simp at he; subst he; cases bb <;> simp [skip]
    case null.null => simp at he; subst he; simp [skip]
    case reserved.reserved => simp at he; subst he; simp [skip]
    case opt.none t' => simp at he; subst he; simp [skip]
    case opt.some t' v' =>
      cases hv : enc t' v' with
      | none => simp [hv] at he
      | some b' =>
        simp [hv] at he; subst he
        simp only [need] at hn
        simp [skip]
        exact ih t' v' b' r hv (by omega)
    case vec.vec t' vs =>
      split at he
      · rename_i hlen
        cases hm : vs.mapM (enc t') with
        | none => simp [hm] at he
        | some bss =>
          simp [hm] at he; subst he
          simp only [need] at hn
          simp only [skip, List.cons_append]
          have hl : (vs.length.toUInt8).toNat = vs.length := by
            simp; omega
          rw [hl]
          apply iter_skip _ t' vs bss r hm
          intro v hv b r' hb
          exact ih t' v b r' hb (by have := need_mem hv; omega)
      · cases he

end DecSpike

namespace DecSpike

def sz : Ty → Nat
  | .opt t => sz t + 1
  | .vec t => sz t + 1
  | _ => 1

def spec (t e : Ty) (v : Val) (r : Bytes) : R (Val × Bytes) :=
  match coerce t e v with
  | some v' => .ok (v', r)
  | none => .error .subtype

theorem iterV_enc (f : Bytes → R (Val × Bytes)) (t e : Ty) :
    ∀ (vs : List Val) (bss : List Bytes) (r : Bytes),
      vs.mapM (enc t) = some bss →
      (∀ v ∈ vs, ∀ b r', enc t v = some b → f (b ++ r') = spec t e v r') →
      iterV f vs.length (bss.flatten ++ r) =
        match vs.mapM (coerce t e) with
        | some vs' => .ok (vs', r)
        | none => .error .subtype := by
  intro vs
  induction vs with
  | nil =>
    intro bss r h _
    simp [List.mapM_nil] at h
    subst h
    simp [iterV]
  | cons v vs ih =>
    intro bss r h hf
    obtain ⟨b, bss', hb, hbs, rfl⟩ := (mapM_some_cons _ _ _ _).mp h
    simp only [List.length_cons, iterV, List.flatten_cons, List.append_assoc]
    rw [hf v (List.mem_cons_self) b _ hb]
    have ih' := ih bss' r hbs (fun v' hv' => hf v' (List.mem_cons_of_mem _ hv'))
    simp only [spec, List.mapM_cons]
    cases hc : coerce t e v with
    | none => simp
    | some v' =>
      simp only [ih']
      cases hcs : vs.mapM (coerce t e) with
      | none => simp
      | some vs' => simp

end DecSpike

namespace DecSpike

theorem de_enc : ∀ (D : Nat) (t e : Ty) (v : Val) (b r : Bytes),
    enc t v = some b → need v + sz e ≤ D → de D t e (b ++ r) = spec t e v r := by
  intro D
  induction D with
  | zero =>
    intro t e v b r _ hn
    cases v <;> simp [need] at hn
  | succ D ih =>
    intro t e v b r he hn
    cases e with
    | reserved =>
      simp only [de, spec]
      rw [skip_enc D t v b r he (by simp [sz] at hn; omega)]
      cases t <;> cases v <;> simp [coerce]
    | nat8 =>
      cases t <;> cases v <;> simp only [enc, reduceCtorEq] at he <;>
        first
        | (simp at he; subst he; simp [de, spec, coerce])
        | (simp [de, spec, coerce])
    | bool =>
      cases t <;> cases v <;> simp only [enc, reduceCtorEq] at he <;>
        first
        | (rename_i bb; simp at he; subst he; cases bb <;> simp [de, spec, coerce])
        | (simp at he; subst he; simp [de, spec, coerce])
        | (simp [de, spec, coerce])
    | null =>
      cases t <;> cases v <;> simp only [enc, reduceCtorEq] at he <;>
        first
        | (simp at he; subst he; simp [de, spec, coerce])
        | (simp [de, spec, coerce])
    | vec e' =>
      cases t <;> cases v <;> simp only [enc, reduceCtorEq] at he
      case vec.vec t' vs =>
        split at he
        · rename_i hlen
          cases hm : vs.mapM (enc t') with
          | none => simp [hm] at he
          | some bss =>
            simp [hm] at he; subst he
            simp only [need, sz] at hn
            simp only [de, List.cons_append]
            have hl : (vs.length.toUInt8).toNat = vs.length := by
              simp; omega
            rw [hl]
            rw [iterV_enc (de D t' e') t' e' vs bss r hm
              (fun v hv b r' hb => ih t' e' v b r' hb (by have := need_mem hv; omega))]
            simp only [spec, coerce]
            cases hcs : vs.mapM (coerce t' e') <;> simp
        · cases he
      all_goals (first | (simp at he; subst he; simp [de, spec, coerce]) | (simp [de, spec, coerce]) | skip)
    | opt e' =>
      simp only [sz] at hn
      cases t with
      | null =>
        cases v <;> simp only [enc, reduceCtorEq] at he
        simp at he; subst he; simp [de, spec, coerce]
      | reserved =>
        cases v <;> simp only [enc, reduceCtorEq] at he
        simp at he; subst he; simp [de, spec, coerce]
      | opt t' =>
        cases v <;> simp only [enc, reduceCtorEq] at he
        case none => simp at he; subst he; simp [de, spec, coerce]
        case some v' =>
          cases hv : enc t' v' with
          | none => simp [hv] at he
          | some b' =>
            simp [hv] at he; subst he
            simp only [need] at hn
            simp only [de, List.cons_append]
            have h1 := ih t' e' v' b' r hv (by omega)
            have h2 := skip_enc D t' v' b' r hv (by omega)
            simp only [spec] at h1
            simp only [spec, coerce]
            cases hc : coerce t' e' v' with
            | none => simp [hc] at h1; simp [h1, h2]
            | some w => simp [hc] at h1; simp [h1]
      | nat8 =>
        cases v <;> simp only [enc, reduceCtorEq] at he
        case nat8 n =>
          have h1 := ih .nat8 e' (.nat8 n) b r he (by simp [need] at *; omega)
          have h2 := skip_enc D .nat8 (.nat8 n) b r he (by simp [need] at *; omega)
          simp only [spec] at h1
          simp only [de, spec, coerce, optLike]
          cases hc : coerce .nat8 e' (.nat8 n) with
          | none => simp [hc] at h1; simp [h1, h2]
          | some w => simp [hc] at h1; simp [h1]
      | bool => sorry
      | vec t' => sorry

end DecSpike
