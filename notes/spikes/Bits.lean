namespace Bits

theorem or_shift_toNat (small low : UInt64) (s : Nat) (hs : s < 64)
    (h1 : small.toNat < 2 ^ s) (h2 : low.toNat < 2 ^ (64 - s)) :
    (small ||| (low <<< s.toUInt64)).toNat = small.toNat + low.toNat * 2 ^ s := by
  have hs' : (s.toUInt64).toNat = s := by
    simp; omega
  rw [UInt64.toNat_or, UInt64.toNat_shiftLeft, hs']
  have : s % 64 = s := Nat.mod_eq_of_lt hs
  rw [this, Nat.shiftLeft_eq]
  have hlt : low.toNat * 2 ^ s < 2 ^ 64 := by
    calc low.toNat * 2 ^ s < 2 ^ (64 - s) * 2 ^ s := Nat.mul_lt_mul_of_pos_right h2 (Nat.two_pow_pos s)
      _ = 2 ^ 64 := by rw [← Nat.pow_add]; congr 1; omega
  rw [Nat.mod_eq_of_lt hlt]
  rw [Nat.or_comm, ← Nat.shiftLeft_eq, ← Nat.shiftLeft_add_eq_or_of_lt h1, Nat.shiftLeft_eq]
  omega

end Bits
