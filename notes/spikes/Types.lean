namespace TySpike

inductive Prim where
  | null | bool | nat | int | nat8 | nat16 | nat32 | nat64 | int8 | int16 | int32 | int64
  | float32 | float64 | text | reserved | empty | principal
deriving DecidableEq, Repr, Inhabited

inductive Mode where | oneway | query | compositeQuery
deriving DecidableEq, Repr

mutual
inductive Ty where
  | prim (p : Prim)
  | var (x : String)
  | opt (t : Ty)
  | vec (t : Ty)
  | record (fs : Fields)
  | variant (fs : Fields)
  | func (args rets : Tys) (modes : List Mode)
  | service (ms : Meths)
  | cls (args : Tys) (t : Ty)
  | future
inductive Fields where
  | nil | cons (id : Nat) (t : Ty) (rest : Fields)
inductive Tys where
  | nil | cons (t : Ty) (rest : Tys)
inductive Meths where
  | nil | cons (name : String) (t : Ty) (rest : Meths)
end

-- does deriving work for mutual types?
deriving instance DecidableEq for Ty, Fields, Tys, Meths
deriving instance Repr for Ty, Fields, Tys, Meths

def Fields.toList : Fields → List (Nat × Ty)
  | .nil => []
  | .cons i t r => (i, t) :: r.toList

mutual
def Ty.size : Ty → Nat
  | .opt t | .vec t => t.size + 1
  | .record fs | .variant fs => fs.size + 1
  | .func a r _ => a.size + r.size + 1
  | .service ms => ms.size + 1
  | .cls a t => a.size + t.size + 1
  | _ => 1
def Fields.size : Fields → Nat
  | .nil => 0
  | .cons _ t r => t.size + r.size
def Tys.size : Tys → Nat
  | .nil => 0
  | .cons t r => t.size + r.size
def Meths.size : Meths → Nat
  | .nil => 0
  | .cons _ t r => t.size + r.size
end

example : (Ty.record (.cons 0 (.prim .nat) (.cons 1 (.opt (.var "A")) .nil))) ≠ Ty.record .nil := by decide
#eval (Ty.record (.cons 0 (.prim .nat) (.cons 1 (.opt (.var "A")) .nil))).size

end TySpike
