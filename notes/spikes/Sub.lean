/-! Spike: assumption-set subtyping algorithm, soundness against a greatest fixed point. Reduced language. -/
namespace SubSpike

inductive Ty where
  | nat | int | null | reserved | empty
  | opt (t : Ty) | vec (t : Ty) | var (x : Nat)
deriving DecidableEq, Repr

abbrev Env := Nat → Option Ty
abbrev Rel := Ty → Ty → Prop

/-- one step of the spec rules, premises in `R` -/
def F (env : Env) (R : Rel) (a b : Ty) : Prop :=
  a = b ∨ (a = .nat ∧ b = .int) ∨ b = .reserved ∨ a = .empty ∨ (∃ b', b = .opt b') ∨
  (∃ a' b', a = .vec a' ∧ b = .vec b' ∧ R a' b') ∨
  (∃ x d, a = .var x ∧ env x = some d ∧ R d b) ∨
  (∃ x d, b = .var x ∧ env x = some d ∧ R a d)

theorem F_mono {env : Env} {R S : Rel} (h : ∀ a b, R a b → S a b) : ∀ a b, F env R a b → F env S a b := by
  intro a b hF
  unfold F at *
  rcases hF with h1 | h1 | h1 | h1 | h1 | ⟨a', b', e1, e2, r⟩ | ⟨x, d, e1, e2, r⟩ | ⟨x, d, e1, e2, r⟩
  · exact Or.inl h1
  · exact Or.inr (Or.inl h1)
  · exact Or.inr (Or.inr (Or.inl h1))
  · exact Or.inr (Or.inr (Or.inr (Or.inl h1)))
  · exact Or.inr (Or.inr (Or.inr (Or.inr (Or.inl h1))))
  · exact Or.inr (Or.inr (Or.inr (Or.inr (Or.inr (Or.inl ⟨a', b', e1, e2, h _ _ r⟩)))))
  · exact Or.inr (Or.inr (Or.inr (Or.inr (Or.inr (Or.inr (Or.inl ⟨x, d, e1, e2, h _ _ r⟩))))))
  · exact Or.inr (Or.inr (Or.inr (Or.inr (Or.inr (Or.inr (Or.inr ⟨x, d, e1, e2, h _ _ r⟩))))))

/-- greatest fixed point -/
def Sub (env : Env) (a b : Ty) : Prop := ∃ R : Rel, (∀ a b, R a b → F env R a b) ∧ R a b

theorem Sub_unfold {env a b} (h : Sub env a b) : F env (Sub env) a b := by
  obtain ⟨R, hR, hab⟩ := h
  exact F_mono (fun a b r => ⟨R, hR, r⟩) a b (hR a b hab)

theorem Sub_coind {env} (R : Rel) (hR : ∀ a b, R a b → F env R a b) : ∀ a b, R a b → Sub env a b :=
  fun _ _ r => ⟨R, hR, r⟩

abbrev Gamma := List (Ty × Ty)

inductive Res where
  | yes (g : Gamma) | no | out
deriving Repr

/-- the (repaired) algorithm: failure leaves the caller's memo untouched -/
def subAlg (env : Env) : Nat → Gamma → Ty → Ty → Res
  | 0, _, _, _ => .out
  | n+1, g, a, b =>
    if a = b then .yes g else
    match a, b with
    | .var x, _ =>
      if (a, b) ∈ g then .yes g else
      match env x with
      | none => .no
      | some d => subAlg env n ((a, b) :: g) d b
    | _, .var x =>
      if (a, b) ∈ g then .yes g else
      match env x with
      | none => .no
      | some d => subAlg env n ((a, b) :: g) a d
    | _, .reserved => .yes g
    | .empty, _ => .yes g
    | .nat, .int => .yes g
    | .vec a', .vec b' => subAlg env n g a' b'
    | .opt a', .opt b' =>
      match subAlg env n g a' b' with
      | .yes g' => .yes g'
      | .out => .out
      | .no => .yes g          -- special opt rule, probe discarded
    | _, .opt _ => .yes g
    | _, _ => .no

/-- iterated closure of X under F -/
def CloN (env : Env) (X : Rel) : Nat → Rel
  | 0 => X
  | k+1 => fun a b => CloN env X k a b ∨ F env (CloN env X k) a b

def Clo (env : Env) (X : Rel) : Rel := fun a b => ∃ k, CloN env X k a b

theorem CloN_mono_k {env X} : ∀ k a b, CloN env X k a b → CloN env X (k+1) a b := by
  intro k a b h; exact Or.inl h

theorem CloN_le {env X} {k m} (h : k ≤ m) : ∀ a b, CloN env X k a b → CloN env X m a b := by
  induction h with
  | refl => intro a b h; exact h
  | step _ ih => intro a b h; exact Or.inl (ih a b h)

theorem Clo_base {env X a b} (h : X a b) : Clo env X a b := ⟨0, h⟩

theorem Clo_step {env X a b} (h : F env (Clo env X) a b) : Clo env X a b := by
  -- F has finitely many premises (at most one), so a single level suffices
  unfold F at h
  rcases h with h1 | h1 | h1 | h1 | h1 | ⟨a', b', e1, e2, ⟨k, r⟩⟩ | ⟨x, d, e1, e2, ⟨k, r⟩⟩ | ⟨x, d, e1, e2, ⟨k, r⟩⟩
  · exact ⟨1, Or.inr (Or.inl h1)⟩
  · exact ⟨1, Or.inr (Or.inr (Or.inl h1))⟩
  · exact ⟨1, Or.inr (Or.inr (Or.inr (Or.inl h1)))⟩
  · exact ⟨1, Or.inr (Or.inr (Or.inr (Or.inr (Or.inl h1))))⟩
  · exact ⟨1, Or.inr (Or.inr (Or.inr (Or.inr (Or.inr (Or.inl h1)))))⟩
  · exact ⟨k+1, Or.inr (Or.inr (Or.inr (Or.inr (Or.inr (Or.inr (Or.inl ⟨a', b', e1, e2, r⟩))))))⟩
  · exact ⟨k+1, Or.inr (Or.inr (Or.inr (Or.inr (Or.inr (Or.inr (Or.inr (Or.inl ⟨x, d, e1, e2, r⟩)))))))⟩
  · exact ⟨k+1, Or.inr (Or.inr (Or.inr (Or.inr (Or.inr (Or.inr (Or.inr (Or.inr ⟨x, d, e1, e2, r⟩)))))))⟩

theorem Clo_mono {env} {X Y : Rel} (h : ∀ a b, X a b → Y a b) : ∀ a b, Clo env X a b → Clo env Y a b := by
  intro a b ⟨k, hk⟩
  refine ⟨k, ?_⟩
  induction k generalizing a b with
  | zero => exact h _ _ hk
  | succ k ih =>
    rcases hk with hk | hk
    · exact Or.inl (ih _ _ hk)
    · exact Or.inr (F_mono (fun a b r => ih a b r) _ _ hk)

def InG (g : Gamma) : Rel := fun a b => (a, b) ∈ g
def X (env : Env) (g : Gamma) : Rel := fun a b => InG g a b ∨ Sub env a b

/-- Main invariant of a successful run. -/
theorem subAlg_inv (env : Env) : ∀ n g a b g',
    subAlg env n g a b = .yes g' →
      (∀ p, p ∈ g → p ∈ g') ∧
      (∀ p, p ∈ g' → p ∈ g ∨ F env (Clo env (X env g')) p.1 p.2) ∧
      Clo env (X env g') a b := by
  intro n
  induction n with
  | zero => intro g a b g' h; simp [subAlg] at h
  | succ n ih =>
    intro g a b g' h
    unfold subAlg at h
    split at h
    · -- a = b
      rename_i hab
      cases h
      subst hab
      refine ⟨fun p hp => hp, fun p hp => Or.inl hp, Clo_step (Or.inl rfl)⟩
    · rename_i hab
      have triv : ∀ g0 : Gamma, Res.yes g0 = Res.yes g' → F env (Clo env (X env g')) a b →
          (∀ p, p ∈ g0 → p ∈ g') ∧ (∀ p, p ∈ g' → p ∈ g0 ∨ F env (Clo env (X env g')) p.1 p.2) ∧
          Clo env (X env g') a b := by
        intro g0 h0 hF; cases h0
        exact ⟨fun p hp => hp, fun p hp => Or.inl hp, Clo_step hF⟩
      split at h
      · -- var x, _
        rename_i b0 x
        split at h
        · rename_i hin
          cases h
          exact ⟨fun p hp => hp, fun p hp => Or.inl hp, Clo_base (Or.inl hin)⟩
        · rename_i hin
          split at h
          · cases h
          · rename_i d hd
            obtain ⟨h1, h2, h3⟩ := ih _ _ _ _ h
            refine ⟨fun p hp => h1 p (List.mem_cons_of_mem _ hp), ?_, Clo_base (Or.inl (h1 _ (List.mem_cons_self)))⟩
            intro p hp
            rcases h2 p hp with hp' | hp'
            · rcases List.mem_cons.mp hp' with rfl | hp''
              · right
                exact Or.inr (Or.inr (Or.inr (Or.inr (Or.inr (Or.inr (Or.inl ⟨x, d, rfl, hd, h3⟩))))))
              · exact Or.inl hp''
            · exact Or.inr hp'
      · -- _, var x
        rename_i a0 x hnv
        split at h
        · rename_i hin
          cases h
          exact ⟨fun p hp => hp, fun p hp => Or.inl hp, Clo_base (Or.inl hin)⟩
        · rename_i hin
          split at h
          · cases h
          · rename_i d hd
            obtain ⟨h1, h2, h3⟩ := ih _ _ _ _ h
            refine ⟨fun p hp => h1 p (List.mem_cons_of_mem _ hp), ?_, Clo_base (Or.inl (h1 _ (List.mem_cons_self)))⟩
            intro p hp
            rcases h2 p hp with hp' | hp'
            · rcases List.mem_cons.mp hp' with rfl | hp''
              · right
                exact Or.inr (Or.inr (Or.inr (Or.inr (Or.inr (Or.inr (Or.inr ⟨x, d, rfl, hd, h3⟩))))))
              · exact Or.inl hp''
            · exact Or.inr hp'
      · exact triv _ h (by unfold F; simp)
      · exact triv _ h (by unfold F; simp)
      · exact triv _ h (by unfold F; simp)
      · -- vec
        rename_i a' b'
        obtain ⟨h1, h2, h3⟩ := ih _ _ _ _ h
        exact ⟨h1, h2, Clo_step (Or.inr (Or.inr (Or.inr (Or.inr (Or.inr (Or.inl ⟨a', b', rfl, rfl, h3⟩))))))⟩
      · -- opt opt
        rename_i a' b'
        split at h
        · rename_i g'' hrec
          cases h
          obtain ⟨h1, h2, _⟩ := ih _ _ _ _ hrec
          exact ⟨h1, h2, Clo_step (by unfold F; simp)⟩
        · cases h
        · exact triv _ h (by unfold F; simp)
      · exact triv _ h (by unfold F; simp)
      · cases h

def GammaOK (env : Env) (g : Gamma) : Prop := ∀ p, p ∈ g → Sub env p.1 p.2

theorem subAlg_sound (env : Env) (n g a b g') (hg : GammaOK env g)
    (h : subAlg env n g a b = .yes g') : Sub env a b ∧ GammaOK env g' ∧ (∀ p, p ∈ g → p ∈ g') := by
  obtain ⟨h1, h2, h3⟩ := subAlg_inv env n g a b g' h
  have post : ∀ a b, Clo env (X env g') a b → F env (Clo env (X env g')) a b := by
    intro a b ⟨k, hk⟩
    induction k generalizing a b with
    | zero =>
      rcases hk with hin | hs
      · rcases h2 (a, b) hin with hp | hp
        · exact F_mono (fun a b r => Clo_base (Or.inr r)) _ _ (Sub_unfold (hg _ hp))
        · exact hp
      · exact F_mono (fun a b r => Clo_base (Or.inr r)) _ _ (Sub_unfold hs)
    | succ k ih =>
      rcases hk with hk | hk
      · exact ih _ _ hk
      · exact F_mono (fun a b r => ⟨k, r⟩) _ _ hk
  refine ⟨Sub_coind _ post _ _ h3, ?_, h1⟩
  intro p hp
  exact Sub_coind _ post _ _ (Clo_base (Or.inl hp))

/-- completeness: a true subtyping is never answered `no` -/
theorem subAlg_complete (env : Env) : ∀ n g a b, Sub env a b → subAlg env n g a b ≠ .no := by
  intro n
  induction n with
  | zero => intro g a b _; simp [subAlg]
  | succ n ih =>
    intro g a b hs
    have hF := Sub_unfold hs
    unfold subAlg
    split
    · simp
    · rename_i hab
      split
      · rename_i b0 x
        split
        · simp
        · unfold F at hF
          rcases hF with h1 | h1 | h1 | h1 | h1 | ⟨a', b', e1, e2, r⟩ | ⟨y, d, e1, e2, r⟩ | ⟨y, d, e1, e2, r⟩
          all_goals sorry
      all_goals sorry

end SubSpike
