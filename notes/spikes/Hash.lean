namespace HashSpike

def idlHash (bs : List UInt8) : UInt32 :=
  bs.foldl (fun s c => s * 223 + c.toUInt32) 0

/-- spec: Σ b_i * 223^(k-i) mod 2^32, computed on Nat -/
def specSum : List UInt8 → Nat
  | [] => 0
  | b :: rest => b.toNat * 223 ^ rest.length + specSum rest

def foldNat (bs : List UInt8) (s : Nat) : Nat := bs.foldl (fun s c => s * 223 + c.toNat) s

theorem foldNat_eq (bs : List UInt8) (s : Nat) : foldNat bs s = s * 223 ^ bs.length + specSum bs := by
  induction bs generalizing s with
  | nil => simp [foldNat, specSum]
  | cons b rest ih =>
    simp only [foldNat, List.foldl_cons] at *
    rw [ih]
    simp only [specSum, List.length_cons, Nat.pow_succ]
    rw [Nat.add_mul, Nat.mul_assoc, Nat.mul_comm 223, Nat.add_assoc]

theorem fold_toNat (bs : List UInt8) (s : UInt32) :
    (bs.foldl (fun s c => s * 223 + c.toUInt32) s).toNat = foldNat bs s.toNat % 2 ^ 32 := by
  induction bs generalizing s with
  | nil => simp [foldNat]
  | cons b rest ih =>
    simp only [List.foldl_cons, foldNat] at *
    rw [ih]
    have h : (s * 223 + b.toUInt32).toNat = (s.toNat * 223 + b.toNat) % 2 ^ 32 := by
      simp [UInt32.toNat_add, UInt32.toNat_mul]
    rw [h]
    -- foldl over Nat is a polynomial in the start value: congruent starts give congruent results
    have key : ∀ (l : List UInt8) (a b : Nat), a % 2 ^ 32 = b % 2 ^ 32 →
        (l.foldl (fun s c => s * 223 + c.toNat) a) % 2 ^ 32 = (l.foldl (fun s c => s * 223 + c.toNat) b) % 2 ^ 32 := by
      intro l
      induction l with
      | nil => intro a b h; simpa using h
      | cons c l ihl =>
        intro a b h
        simp only [List.foldl_cons]
        apply ihl
        rw [Nat.add_mod, Nat.mul_mod, h, ← Nat.mul_mod, ← Nat.add_mod]
    exact key rest _ _ (by simp)

theorem hash_spec (bs : List UInt8) : (idlHash bs).toNat = specSum bs % 2 ^ 32 := by
  unfold idlHash
  rw [fold_toNat, foldNat_eq]
  simp

end HashSpike
