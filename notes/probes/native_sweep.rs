use candid::{CandidType, Deserialize, Encode, Int, Nat, Principal, TypeEnv, Reserved};
use candid::types::value::IDLArgs;
use serde_bytes::ByteBuf;
use std::collections::{BTreeMap, BTreeSet};
use std::panic::{catch_unwind, AssertUnwindSafe};

struct Rng(u64);
impl Rng { fn next(&mut self) -> u64 { self.0 = self.0.wrapping_add(0x9E3779B97F4A7C15); let mut z = self.0; z = (z ^ (z >> 30)).wrapping_mul(0xBF58476D1CE4E5B9); z = (z ^ (z >> 27)).wrapping_mul(0x94D049BB133111EB); z ^ (z >> 31) }
  fn below(&mut self, n: u64) -> u64 { self.next() % n } }
trait Gen: Sized { fn gen(r: &mut Rng) -> Self; }
impl Gen for bool { fn gen(r: &mut Rng) -> Self { r.below(2) == 0 } }
impl Gen for u8 { fn gen(r: &mut Rng) -> Self { r.next() as u8 } }
impl Gen for u16 { fn gen(r: &mut Rng) -> Self { r.next() as u16 } }
impl Gen for u64 { fn gen(r: &mut Rng) -> Self { r.next() >> r.below(64) } }
impl Gen for i32 { fn gen(r: &mut Rng) -> Self { r.next() as i32 } }
impl Gen for i64 { fn gen(r: &mut Rng) -> Self { (r.next() as i64) >> r.below(64) } }
impl Gen for f64 { fn gen(r: &mut Rng) -> Self { (r.below(2000) as f64 - 1000.0) / 8.0 } }
impl Gen for u128 { fn gen(r: &mut Rng) -> Self { (((r.next() as u128) << 64) | r.next() as u128) >> r.below(128) } }
impl Gen for i128 { fn gen(r: &mut Rng) -> Self { (u128::gen(r) as i128) >> r.below(100) } }
impl Gen for Nat { fn gen(r: &mut Rng) -> Self { match r.below(3) { 0 => Nat::from(r.below(300)), 1 => Nat::from(u64::gen(r)), _ => Nat::from(u128::gen(r)) * Nat::from(u64::gen(r)) } } }
impl Gen for Int { fn gen(r: &mut Rng) -> Self { let n: Int = Nat::gen(r).into(); if r.below(2) == 0 { n } else { Int::from(0) - n } } }
impl Gen for String { fn gen(r: &mut Rng) -> Self { (0..r.below(4)).map(|_| ['a', 'é', '\0', '字'][r.below(4) as usize]).collect() } }
impl Gen for () { fn gen(_: &mut Rng) -> Self {} }
impl Gen for Reserved { fn gen(_: &mut Rng) -> Self { Reserved } }
impl Gen for Principal { fn gen(r: &mut Rng) -> Self { let n = r.below(30) as usize; Principal::from_slice(&(0..n).map(|_| r.next() as u8).collect::<Vec<_>>()) } }
impl Gen for ByteBuf { fn gen(r: &mut Rng) -> Self { ByteBuf::from((0..r.below(4)).map(|_| r.next() as u8).collect::<Vec<_>>()) } }
impl<T: Gen> Gen for Option<T> { fn gen(r: &mut Rng) -> Self { if r.below(3) == 0 { None } else { Some(T::gen(r)) } } }
impl<T: Gen> Gen for Box<T> { fn gen(r: &mut Rng) -> Self { Box::new(T::gen(r)) } }
impl<T: Gen> Gen for Vec<T> { fn gen(r: &mut Rng) -> Self { (0..r.below(4)).map(|_| T::gen(r)).collect() } }
impl<T: Gen + Ord> Gen for BTreeSet<T> { fn gen(r: &mut Rng) -> Self { (0..r.below(4)).map(|_| T::gen(r)).collect() } }
impl<K: Gen + Ord, V: Gen> Gen for BTreeMap<K, V> { fn gen(r: &mut Rng) -> Self { (0..r.below(4)).map(|_| (K::gen(r), V::gen(r))).collect() } }
impl<A: Gen, B: Gen> Gen for Result<A, B> { fn gen(r: &mut Rng) -> Self { if r.below(2) == 0 { Ok(A::gen(r)) } else { Err(B::gen(r)) } } }
impl<A: Gen, B: Gen> Gen for (A, B) { fn gen(r: &mut Rng) -> Self { (A::gen(r), B::gen(r)) } }
impl<A: Gen, B: Gen, C: Gen> Gen for (A, B, C) { fn gen(r: &mut Rng) -> Self { (A::gen(r), B::gen(r), C::gen(r)) } }

#[derive(CandidType, Deserialize, Debug, PartialEq, Clone)] struct S1 { a: u8, b: Option<String>, c: Vec<Nat> }
#[derive(CandidType, Deserialize, Debug, PartialEq, Clone)] struct S2 { a: u8, b: Option<String>, c: Vec<Nat>, d: Option<Int>, e: u16 }
#[derive(CandidType, Deserialize, Debug, PartialEq, Clone)] struct S0 { a: u8 }
#[derive(CandidType, Deserialize, Debug, PartialEq, Clone)] enum E1 { A, B(Int), C { x: u8, y: String } }
#[derive(CandidType, Deserialize, Debug, PartialEq, Clone)] enum E2 { A, B(Int), C { x: u8, y: String }, D(Vec<u8>) }
#[derive(CandidType, Deserialize, Debug, PartialEq, Clone)] struct L { head: Int, tail: Option<Box<L>> }
#[derive(CandidType, Deserialize, Debug, PartialEq, Clone)] struct N(Nat);
#[derive(CandidType, Deserialize, Debug, PartialEq, Clone)] struct T2(u8, String);
impl Gen for S1 { fn gen(r: &mut Rng) -> Self { S1 { a: Gen::gen(r), b: Gen::gen(r), c: Gen::gen(r) } } }
impl Gen for S2 { fn gen(r: &mut Rng) -> Self { S2 { a: Gen::gen(r), b: Gen::gen(r), c: Gen::gen(r), d: Gen::gen(r), e: Gen::gen(r) } } }
impl Gen for S0 { fn gen(r: &mut Rng) -> Self { S0 { a: Gen::gen(r) } } }
impl Gen for E1 { fn gen(r: &mut Rng) -> Self { match r.below(3) { 0 => E1::A, 1 => E1::B(Gen::gen(r)), _ => E1::C { x: Gen::gen(r), y: Gen::gen(r) } } } }
impl Gen for E2 { fn gen(r: &mut Rng) -> Self { match r.below(4) { 0 => E2::A, 1 => E2::B(Gen::gen(r)), 2 => E2::C { x: Gen::gen(r), y: Gen::gen(r) }, _ => E2::D(Gen::gen(r)) } } }
impl Gen for L { fn gen(r: &mut Rng) -> Self { L { head: Gen::gen(r), tail: if r.below(2) == 0 { None } else { Some(Box::new(L::gen(r))) } } } }
impl Gen for N { fn gen(r: &mut Rng) -> Self { N(Gen::gen(r)) } }
impl Gen for T2 { fn gen(r: &mut Rng) -> Self { T2(Gen::gen(r), Gen::gen(r)) } }

type Msg = (&'static str, Vec<u8>);
fn enc<T: CandidType + Gen>(name: &'static str, r: &mut Rng, out: &mut Vec<Msg>) { for _ in 0..6 { let v = T::gen(r); if let Ok(b) = Encode!(&v) { out.push((name, b)); } } }
fn roundtrip<T: CandidType + Gen + PartialEq + std::fmt::Debug + for<'a> Deserialize<'a>>(name: &str, r: &mut Rng, res: &mut BTreeMap<String, u64>) {
    for _ in 0..40 { let v = T::gen(r); let b = Encode!(&v).unwrap();
        let d = catch_unwind(AssertUnwindSafe(|| candid::decode_one::<T>(&b)));
        let k = match d { Ok(Ok(x)) if x == v => continue, Ok(Ok(_)) => "C01 differs", Ok(Err(_)) => "C01 error", Err(_) => "C01 panic" };
        *res.entry(format!("{k} {name}")).or_default() += 1; }
}
fn cross<T: CandidType + for<'a> Deserialize<'a>>(name: &str, msgs: &[Msg], res: &mut BTreeMap<String, u64>, shown: &mut BTreeSet<String>) {
    let ty = T::ty();
    for (src, b) in msgs {
        let native = catch_unwind(AssertUnwindSafe(|| candid::decode_one::<T>(b)));
        let untyped = catch_unwind(AssertUnwindSafe(|| IDLArgs::from_bytes_with_types(b, &TypeEnv::new(), &[ty.clone()])));
        let (n_ok, n_val) = match native { Ok(Ok(v)) => (true, Encode!(&v).ok().and_then(|bb| IDLArgs::from_bytes_with_types(&bb, &TypeEnv::new(), &[ty.clone()]).ok()).map(|a| format!("{a:?}"))), Ok(Err(_)) => (false, None), Err(_) => { *res.entry(format!("native PANIC at {name}")).or_default() += 1; continue } };
        let (u_ok, u_val) = match untyped { Ok(Ok(a)) => (true, Some(format!("{a:?}"))), Ok(Err(_)) => (false, None), Err(_) => { *res.entry(format!("untyped PANIC at {name}")).or_default() += 1; continue } };
        let key = if n_ok && !u_ok { format!("native accepts, untyped rejects: {src} at {name}") } else if !n_ok && u_ok { format!("untyped accepts, native rejects: {src} at {name}") } else if n_ok && n_val != u_val { format!("values differ: {src} at {name}") } else { if n_ok { *res.entry("~both accept".into()).or_default() += 1; } else { *res.entry("~both reject".into()).or_default() += 1; } continue };
        *res.entry(key.clone()).or_default() += 1;
        if shown.insert(key.clone()) { println!("{key}\n   {}\n   native={:?}\n   untyped={:?}", b.iter().map(|x| format!("{x:02x}")).collect::<String>(), n_val, u_val); }
    }
}
macro_rules! corpus { ($($name:literal => $t:ty),* $(,)?) => {
    fn run(r: &mut Rng) {
        let mut msgs: Vec<Msg> = Vec::new();
        $( enc::<$t>($name, r, &mut msgs); )*
        let mut res = BTreeMap::new(); let mut shown = BTreeSet::new();
        $( roundtrip::<$t>($name, r, &mut res); )*
        $( cross::<$t>($name, &msgs, &mut res, &mut shown); )*
        println!("{res:#?}");
    } } }
corpus! {
    "bool" => bool, "u8" => u8, "u16" => u16, "u64" => u64, "i32" => i32, "i64" => i64, "f64" => f64, "u128" => u128, "i128" => i128, "Nat" => Nat, "Int" => Int,
    "String" => String, "unit" => (), "Reserved" => Reserved, "Principal" => Principal, "ByteBuf" => ByteBuf,
    "Option<u8>" => Option<u8>, "Option<Nat>" => Option<Nat>, "Option<Option<u8>>" => Option<Option<u8>>, "Option<String>" => Option<String>,
    "Vec<u8>" => Vec<u8>, "Vec<u16>" => Vec<u16>, "Vec<i64>" => Vec<i64>, "Vec<bool>" => Vec<bool>, "Vec<Nat>" => Vec<Nat>, "Vec<Int>" => Vec<Int>, "Vec<String>" => Vec<String>, "Vec<unit>" => Vec<()>, "Vec<Option<Nat>>" => Vec<Option<Nat>>, "Vec<Vec<u8>>" => Vec<Vec<u8>>, "Vec<ByteBuf>" => Vec<ByteBuf>, "Vec<N>" => Vec<N>,
    "BTreeSet<Int>" => BTreeSet<Int>,
    "Map<String,String>" => BTreeMap<String, String>, "Map<String,Nat>" => BTreeMap<String, Nat>, "Map<String,Int>" => BTreeMap<String, Int>, "Map<u8,Int>" => BTreeMap<u8, Int>, "Map<Int,Nat>" => BTreeMap<Int, Nat>, "Map<Nat,Int>" => BTreeMap<Nat, Int>, "Map<Principal,Int>" => BTreeMap<Principal, Int>, "Map<String,ByteBuf>" => BTreeMap<String, ByteBuf>, "Map<String,Vec<Nat>>" => BTreeMap<String, Vec<Nat>>, "Map<String,Map<u8,Int>>" => BTreeMap<String, BTreeMap<u8, Int>>, "Map<Vec<u8>,Nat>" => BTreeMap<Vec<u8>, Nat>, "Map<String,Option<String>>" => BTreeMap<String, Option<String>>, "Map<String,S1>" => BTreeMap<String, S1>,
    "(u8,String)" => (u8, String), "(u8,String,Nat)" => (u8, String, Nat), "(Nat,Int)" => (Nat, Int), "Vec<(u8,u8)>" => Vec<(u8, u8)>, "Vec<(u8,u8,u8)>" => Vec<(u8, u8, u8)>, "Vec<(String,String,u8)>" => Vec<(String, String, u8)>,
    "S0" => S0, "S1" => S1, "S2" => S2, "E1" => E1, "E2" => E2, "L" => L, "N" => N, "T2" => T2, "Option<S1>" => Option<S1>, "Option<E1>" => Option<E1>, "Vec<E2>" => Vec<E2>, "Result<Nat,String>" => Result<Nat, String>,
}
fn main() { std::panic::set_hook(Box::new(|_| {})); let seed: u64 = std::env::args().nth(1).map(|s| s.parse().unwrap()).unwrap_or(1); run(&mut Rng(seed)); }
