use candid::types::value::{IDLArgs, IDLValue};
use candid::types::{Type, TypeInner, Field, Label, Function, FuncMode};
use candid::TypeEnv;
use std::str::FromStr;
use std::panic::{catch_unwind, AssertUnwindSafe};

struct Rng(u64);
impl Rng { fn next(&mut self) -> u64 { self.0 = self.0.wrapping_add(0x9E3779B97F4A7C15); let mut z = self.0; z = (z ^ (z >> 30)).wrapping_mul(0xBF58476D1CE4E5B9); z = (z ^ (z >> 27)).wrapping_mul(0x94D049BB133111EB); z ^ (z >> 31) }
  fn below(&mut self, n: u64) -> u64 { self.next() % n } }

const NAMES: [&str; 14] = ["a", "b", "foo", "_", "true", "opt", "a b", "a,b", "\0", "x\0f", "字", "\u{301}e", "A_b", "\"q\\"];

fn label(r: &mut Rng) -> Label { match r.below(3) { 0 => Label::Id(r.below(6) as u32 + if r.below(4)==0 {4294967290} else {0}), _ => Label::Named(NAMES[r.below(NAMES.len() as u64) as usize].to_string()) } }
fn fields(r: &mut Rng, d: u32, env_n: usize) -> Vec<Field> {
    let n = r.below(4);
    let mut fs: Vec<Field> = Vec::new();
    for _ in 0..n { let l = label(r); if fs.iter().any(|f| f.id.get_id() == l.get_id()) { continue; } fs.push(Field { id: l.into(), ty: gen_ty(r, d, env_n) }); }
    fs.sort_by_key(|f| f.id.get_id());
    fs
}
fn gen_ty(r: &mut Rng, d: u32, env_n: usize) -> Type {
    use TypeInner::*;
    let k = if d == 0 { r.below(18) } else { r.below(26) };
    match k {
        0 => Null, 1 => Bool, 2 => Nat, 3 => Int, 4 => Nat8, 5 => Nat16, 6 => Nat32, 7 => Nat64, 8 => Int8, 9 => Int16, 10 => Int32, 11 => Int64,
        12 => Float32, 13 => Float64, 14 => Text, 15 => Reserved, 16 => Principal,
        17 => if env_n > 0 { Var(format!("T{}", r.below(env_n as u64))) } else { Nat },
        18 | 19 => Opt(gen_ty(r, d - 1, env_n)),
        20 | 21 => Vec(gen_ty(r, d - 1, env_n)),
        22 => Record(fields(r, d - 1, env_n)),
        23 => { let mut fs = fields(r, d - 1, env_n); if fs.is_empty() { fs.push(Field { id: Label::Named("x".into()).into(), ty: Null.into() }); } Variant(fs) },
        24 => Func(Function { modes: if r.below(2)==0 { vec![] } else { vec![FuncMode::Query] }, args: (0..r.below(3)).map(|_| gen_ty(r, d - 1, env_n)).collect(), rets: (0..r.below(2)).map(|_| gen_ty(r, d - 1, env_n)).collect() }),
        _ => Service(vec![]),
    }.into()
}
fn tricky(r: &mut Rng) -> String {
    const CH: [char; 28] = ['\0', '\u{1}', '\t', '\n', '\r', '\u{7f}', '"', '\'', '\\', 'a', 'f', '0', '9', ' ', '\u{80}', '\u{301}', '\u{20e3}', '\u{fe0f}', '\u{d7ff}', '\u{e000}', '\u{ffff}', '\u{10000}', '\u{10ffff}', '字', '🦀', '{', '}', 'u'];
    let n = r.below(6);
    (0..n).map(|_| if r.below(8) == 0 { char::from_u32(r.below(0x110000) as u32).unwrap_or('x') } else { CH[r.below(28) as usize] }).collect()
}
fn retext(r: &mut Rng, v: &IDLValue) -> IDLValue {
    use IDLValue::*;
    match v {
        Text(_) => Text(tricky(r)),
        Opt(x) => Opt(Box::new(retext(r, x))),
        Vec(xs) => Vec(xs.iter().map(|x| retext(r, x)).collect()),
        Record(fs) => Record(fs.iter().map(|f| candid::types::value::IDLField { id: f.id.clone(), val: retext(r, &f.val) }).collect()),
        Variant(x) => Variant(candid::types::value::VariantValue(Box::new(candid::types::value::IDLField { id: x.0.id.clone(), val: retext(r, &x.0.val) }), x.1)),
        Func(p, _) => Func(*p, tricky(r)),
        other => other.clone(),
    }
}
fn same(a: &IDLArgs, b: &IDLArgs) -> bool { a == b || format!("{a:?}") == format!("{b:?}") }
fn upgrade(r: &mut Rng, t: &Type, env_n: usize, d: u32) -> Type {
    // produce a (likely) supertype of t
    use TypeInner::*;
    let k = r.below(10);
    match t.as_ref() {
        _ if k == 0 => Reserved.into(),
        _ if k == 1 => Opt(t.clone()).into(),
        Nat if k < 5 => Int.into(),
        Opt(x) => Opt(upgrade(r, x, env_n, d)).into(),
        Vec(x) => Vec(upgrade(r, x, env_n, d)).into(),
        Record(fs) => {
            let mut out: std::vec::Vec<Field> = std::vec::Vec::new();
            for f in fs { if r.below(4) == 0 { continue; } out.push(Field { id: f.id.clone(), ty: upgrade(r, &f.ty, env_n, d) }); }
            if r.below(3) == 0 { let l = label(r); if !out.iter().any(|f| f.id.get_id() == l.get_id()) && !fs.iter().any(|f| f.id.get_id() == l.get_id()) { out.push(Field { id: l.into(), ty: Opt(gen_ty(r, 1, env_n)).into() }); } }
            out.sort_by_key(|f| f.id.get_id());
            Record(out).into()
        }
        Variant(fs) => {
            let mut out: std::vec::Vec<Field> = fs.iter().map(|f| Field { id: f.id.clone(), ty: upgrade(r, &f.ty, env_n, d) }).collect();
            if r.below(3) == 0 { let l = label(r); if !out.iter().any(|f| f.id.get_id() == l.get_id()) { out.push(Field { id: l.into(), ty: gen_ty(r, 1, env_n) }); } }
            out.sort_by_key(|f| f.id.get_id());
            Variant(out).into()
        }
        _ => t.clone(),
    }
}
fn sub_mode(seed: u64, iters: u64) {
    let mut r = Rng(seed);
    let mut stats = std::collections::BTreeMap::<String, u64>::new();
    let mut shown = std::collections::BTreeSet::<String>::new();
    for it in 0..iters {
        let n = r.below(3) as usize;
        let mut env = TypeEnv::new();
        for i in 0..n { let mut t = gen_ty(&mut r, 2, n); if matches!(t.as_ref(), TypeInner::Var(_)) { t = TypeInner::Opt(t).into(); } env.0.insert(format!("T{i}"), t); }
        let t1 = gen_ty(&mut r, 3, n);
        let t2 = upgrade(&mut r, &t1, n, 3);
        let t3 = upgrade(&mut r, &t2, n, 3);
        let sub = |a: &Type, b: &Type| { let mut g = std::collections::HashSet::new(); candid::types::subtype::subtype_with_config(candid::types::subtype::OptReport::Silence, &mut g, &env, a, b).is_ok() };
        let all = |a: &Type, b: &Type| { let mut g = std::collections::HashSet::new(); candid::types::subtype::subtype_check_all(&mut g, &env, a, b).is_empty() };
        let mut report = |k: &str, detail: String| { *stats.entry(k.to_string()).or_default() += 1; if shown.insert(k.to_string()) { println!("{k} [it={it}] env={}\n  {detail}", env.to_string().replace('\n', " ")); } };
        if !sub(&t1, &t1) { report("not reflexive", format!("{t1}")); }
        let (s12, s23, s13) = (sub(&t1, &t2), sub(&t2, &t3), sub(&t1, &t3));
        if s12 { report("~accepted pairs", String::new()); }
        if s12 && s23 && !s13 { report("not transitive", format!("{t1}\n  <: {t2}\n  <: {t3}")); }
        if s12 != all(&t1, &t2) { report("check_all disagrees", format!("{t1} <: {t2}: {s12}")); }
        let mut g = std::collections::HashSet::new();
        if candid::types::subtype::equal(&mut g, &env, &t1, &t2).is_ok() && !(s12 && sub(&t2, &t1)) { report("equal but not mutual subtype", format!("{t1} {t2}")); }
        if !s12 { continue; }
        let seedbytes: std::vec::Vec<u8> = (0..128).map(|_| r.next() as u8).collect();
        let cfg = candid_parser::configs::Configs::from_str("").unwrap();
        let Ok(Ok(args)) = catch_unwind(AssertUnwindSafe(|| candid_parser::random::any(&seedbytes, cfg, &env, &[t1.clone()], &None))) else { continue };
        let Ok(bytes) = args.to_bytes_with_types(&env, &[t1.clone()]) else { continue };
        match catch_unwind(AssertUnwindSafe(|| IDLArgs::from_bytes_with_types(&bytes, &env, &[t2.clone()]))) {
            Ok(Ok(v2)) => {
                report("~decoded at supertype", String::new());
                if let Err(e) = v2.clone().annotate_types(false, &env, &[t2.clone()]) { report("result not of supertype", format!("{args} : {t1} at {t2} -> {v2}: {e}")); }
            }
            Ok(Err(e)) => report("subtype accepted but decode fails", format!("{args}\n  : {t1}\n  at {t2}\n  {}", e.to_string().lines().last().unwrap_or(""))),
            Err(_) => report("decode panic", format!("{args} : {t1} at {t2}")),
        }
    }
    println!("{stats:#?}");
}
fn main() {
    if std::env::args().nth(3).as_deref() == Some("sub") { let seed: u64 = std::env::args().nth(1).unwrap().parse().unwrap(); let iters: u64 = std::env::args().nth(2).unwrap().parse().unwrap(); std::panic::set_hook(Box::new(|_| {})); return sub_mode(seed, iters); }
    std::panic::set_hook(Box::new(|_| {}));
    let seed: u64 = std::env::args().nth(1).map(|s| s.parse().unwrap()).unwrap_or(1);
    let iters: u64 = std::env::args().nth(2).map(|s| s.parse().unwrap()).unwrap_or(2000);
    let mut r = Rng(seed);
    let mut stats = std::collections::BTreeMap::<String, u64>::new();
    let mut shown = std::collections::BTreeSet::<String>::new();
    for it in 0..iters {
        // env of 0..3 productive definitions
        let n = r.below(4) as usize;
        let mut env = TypeEnv::new();
        for i in 0..n { let mut t = gen_ty(&mut r, 2, n); if matches!(t.as_ref(), TypeInner::Var(_)) { t = TypeInner::Opt(t).into(); } env.0.insert(format!("T{i}"), t); }
        let ty = gen_ty(&mut r, 3, n);
        let seedbytes: Vec<u8> = (0..256).map(|_| r.next() as u8).collect();
        let cfgs = ["", "text = \"\"\n"]; // second: full unicode text kind None? keep default
        let cfg = candid_parser::configs::Configs::from_str(cfgs[0]).unwrap();
        let res = catch_unwind(AssertUnwindSafe(|| candid_parser::random::any(&seedbytes, cfg, &env, &[ty.clone()], &None)));
        let args = match res { Err(_) => { *stats.entry("gen panic".into()).or_default() += 1; if shown.insert("gen panic".into()) { println!("GEN PANIC ty={ty} env={env}"); } continue }, Ok(Err(_)) => { *stats.entry("gen err".into()).or_default() += 1; continue }, Ok(Ok(a)) => a };
        let dbg = format!("{args:?}");
        if dbg.contains("NaN") || dbg.contains("inf") { *stats.entry("skipped nonfinite".into()).or_default() += 1; continue; }
        let args = IDLArgs { args: args.args.iter().map(|v| retext(&mut r, v)).collect() };
        let raw = args.clone();
        let args = match args.clone().annotate_types(false, &env, &[ty.clone()]) { Ok(a) => a, Err(_) => args };
        if !same(&raw, &args) { *stats.entry("generator value not canonical (annotate changes it)".into()).or_default() += 1; }
        let mut report = |k: &str, detail: String| { *stats.entry(k.to_string()).or_default() += 1; if shown.insert(k.to_string()) { println!("{k} [it={it}] ty={ty}\n  env={}\n  {detail}", env.to_string().replace('\n', " ")); } };
        // annotate unchanged
        match catch_unwind(AssertUnwindSafe(|| args.clone().annotate_types(false, &env, &[ty.clone()]))) {
            Ok(Ok(a)) => if !same(&a, &args) { report("annotate changed", format!("{args} -> {a}")); },
            Ok(Err(e)) => report("annotate err", format!("{args}: {e}")),
            Err(_) => report("annotate panic", format!("{args:?}")),
        }
        // binary round trip
        match catch_unwind(AssertUnwindSafe(|| args.to_bytes_with_types(&env, &[ty.clone()]))) {
            Ok(Ok(bytes)) => {
                match catch_unwind(AssertUnwindSafe(|| IDLArgs::from_bytes_with_types(&bytes, &env, &[ty.clone()]))) {
                    Ok(Ok(back)) => if !same(&back, &args) { report("bin roundtrip differs", format!("{args}\n  -> {back}")); },
                    Ok(Err(e)) => report("bin decode err", format!("{args}: {}", e.to_string().lines().last().unwrap_or(""))),
                    Err(_) => report("bin decode panic", format!("{args}")),
                }
                match catch_unwind(AssertUnwindSafe(|| IDLArgs::from_bytes(&bytes))) {
                    Ok(Ok(back)) => { match back.clone().annotate_types(false, &env, &[ty.clone()]) { Ok(b2) => if !same(&b2, &args) { report("untyped decode+annotate differs", format!("{args}\n  -> {back}\n  -> {b2}")) }, Err(e) => report("untyped decode annotate err", format!("{args} -> {back}: {e}")) } }
                    Ok(Err(e)) => report("untyped decode err", format!("{args}: {}", e.to_string().lines().last().unwrap_or(""))),
                    Err(_) => report("untyped decode panic", format!("{args}")),
                }
            }
            Ok(Err(e)) => report("encode err", format!("{args}: {e}")),
            Err(_) => report("encode panic", format!("{args}")),
        }
        // text round trip (Display and Debug)
        for (k, s) in [("display", catch_unwind(AssertUnwindSafe(|| args.to_string()))), ("debug", catch_unwind(AssertUnwindSafe(|| format!("{args:?}"))))] {
            let Ok(s) = s else { report(&format!("{k} panic"), String::new()); continue };
            match catch_unwind(AssertUnwindSafe(|| candid_parser::parse_idl_args(&s))) {
                Ok(Ok(p)) => match p.annotate_types(true, &env, &[ty.clone()]) {
                    Ok(p2) => if !same(&p2, &args) { report(&format!("{k} text roundtrip differs"), format!("{s}\n  -> {p2}")) },
                    Err(e) => report(&format!("{k} text annotate err"), format!("{s}: {e}")),
                },
                Ok(Err(e)) => report(&format!("{k} text parse err"), format!("{s}: {e}")),
                Err(_) => report(&format!("{k} text parse panic"), s.clone()),
            }
        }
        // type print round trip
        let tys = format!("{}({ty})", env.0.iter().map(|(k,v)| format!("type {k} = {v};\n")).collect::<String>());
        match catch_unwind(AssertUnwindSafe(|| tys.parse::<candid_parser::syntax::IDLInitArgs>())) {
            Ok(Ok(ia)) => { let mut e2 = TypeEnv::new(); match candid_parser::typing::check_init_args(&mut e2, &TypeEnv::new(), &ia) {
                Ok(ts) => { let mut e3 = env.clone(); let t2 = e3.merge_type(e2, ts[0].clone()); let mut g = std::collections::HashSet::new(); if let Err(e) = candid::types::subtype::equal(&mut g, &e3, &ty, &t2) { report("type text roundtrip not equal", format!("{tys}: {e}")); } }
                Err(e) => report("type text check err", format!("{tys}: {e}")) } }
            Ok(Err(e)) => report("type text parse err", format!("{tys}: {e}")),
            Err(_) => report("type text parse panic", tys.clone()),
        }
        *stats.entry("cases".into()).or_default() += 1;
    }
    println!("{stats:#?}");
}
