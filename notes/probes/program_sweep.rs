use candid::types::{Type, TypeInner, Field, Label, Function, FuncMode};
use candid::TypeEnv;
use candid_parser::{check_prog, IDLProg};
use std::panic::{catch_unwind, AssertUnwindSafe};
use std::str::FromStr;
use std::collections::{BTreeMap, BTreeSet};

struct Rng(u64);
impl Rng { fn next(&mut self) -> u64 { self.0 = self.0.wrapping_add(0x9E3779B97F4A7C15); let mut z = self.0; z = (z ^ (z >> 30)).wrapping_mul(0xBF58476D1CE4E5B9); z = (z ^ (z >> 27)).wrapping_mul(0x94D049BB133111EB); z ^ (z >> 31) }
  fn below(&mut self, n: u64) -> u64 { self.next() % n } }
const NAMES: [&str; 16] = ["a", "b", "foo", "_", "class", "opt", "a b", "a,b", "x'y", "字", "A_b", "aB", "type", "self", "query", "\"q\\"];
const TNAMES: [&str; 10] = ["T0", "T1", "T2", "T3", "class", "List", "a_b", "a", "b_c", "Self"];
fn label(r: &mut Rng) -> Label { match r.below(3) { 0 => Label::Id(r.below(6) as u32), _ => Label::Named(NAMES[r.below(NAMES.len() as u64) as usize].to_string()) } }
fn fields(r: &mut Rng, d: u32, names: &[&str]) -> Vec<Field> {
    let n = r.below(4); let mut fs: Vec<Field> = Vec::new();
    for _ in 0..n { let l = label(r); if fs.iter().any(|f| f.id.get_id() == l.get_id()) { continue; } fs.push(Field { id: l.into(), ty: gen_ty(r, d, names) }); }
    fs.sort_by_key(|f| f.id.get_id()); fs
}
fn gen_func(r: &mut Rng, d: u32, names: &[&str]) -> Function {
    let modes = match r.below(4) { 0 => vec![FuncMode::Query], 1 => vec![FuncMode::CompositeQuery], 2 => vec![FuncMode::Oneway], _ => vec![] };
    let rets = if modes == vec![FuncMode::Oneway] { vec![] } else { (0..r.below(3)).map(|_| gen_ty(r, d, names)).collect() };
    Function { modes, args: (0..r.below(3)).map(|_| gen_ty(r, d, names)).collect(), rets }
}
fn gen_service(r: &mut Rng, d: u32, names: &[&str]) -> Vec<(String, Type)> {
    let mut ms: BTreeMap<String, Type> = BTreeMap::new();
    for _ in 0..r.below(4) { ms.insert(NAMES[r.below(NAMES.len() as u64) as usize].to_string(), TypeInner::Func(gen_func(r, d, names)).into()); }
    ms.into_iter().collect()
}
fn gen_ty(r: &mut Rng, d: u32, names: &[&str]) -> Type {
    use TypeInner::*;
    let k = if d == 0 { r.below(10) } else { r.below(18) };
    match k {
        0 => Null, 1 => Bool, 2 => Nat, 3 => Int, 4 => Nat8, 5 => Text, 6 => Reserved, 7 => Principal, 8 => Float64,
        9 => if !names.is_empty() { Var(names[r.below(names.len() as u64) as usize].to_string()) } else { Nat },
        10 | 11 => Opt(gen_ty(r, d - 1, names)), 12 => Vec(gen_ty(r, d - 1, names)),
        13 | 14 => Record(fields(r, d - 1, names)),
        15 => { let mut fs = fields(r, d - 1, names); if fs.is_empty() { fs.push(Field { id: Label::Named("x".into()).into(), ty: Null.into() }); } Variant(fs) },
        16 => Func(gen_func(r, d - 1, names)),
        _ => Service(gen_service(r, d - 1, names)),
    }.into()
}
fn main() {
    std::panic::set_hook(Box::new(|_| {}));
    let seed: u64 = std::env::args().nth(1).map(|s| s.parse().unwrap()).unwrap_or(1);
    let iters: u64 = std::env::args().nth(2).map(|s| s.parse().unwrap()).unwrap_or(2000);
    let mut r = Rng(seed);
    let mut stats = BTreeMap::<String, u64>::new();
    let mut shown = BTreeSet::<String>::new();
    for it in 0..iters {
        let n = r.below(5) as usize;
        let mut names: Vec<&str> = Vec::new();
        while names.len() < n { let c = TNAMES[r.below(TNAMES.len() as u64) as usize]; if !names.contains(&c) { names.push(c); } }
        let mut env = TypeEnv::new();
        for nm in names.iter() { let mut t = gen_ty(&mut r, 2, &names); if matches!(t.as_ref(), TypeInner::Var(_)) { t = TypeInner::Opt(t).into(); } env.0.insert(nm.to_string(), t); }
        let serv: Type = TypeInner::Service(gen_service(&mut r, 2, &names)).into();
        let actor: Type = match r.below(3) { 0 => TypeInner::Class((0..r.below(3)).map(|_| gen_ty(&mut r, 2, &names)).collect(), serv).into(), _ => serv };
        let src = candid::pretty::candid::compile(&env, &Some(actor.clone()));
        let mut report = |k: &str, detail: String| { *stats.entry(k.to_string()).or_default() += 1; if shown.insert(k.to_string()) { println!("{k} [it={it}]\n{src}\n  {detail}\n"); } };
        // C12/C14: must parse + check
        let parsed = catch_unwind(AssertUnwindSafe(|| src.parse::<IDLProg>()));
        let ast = match parsed { Ok(Ok(a)) => a, Ok(Err(e)) => { report("reparse err", e.to_string()); continue }, Err(_) => { report("reparse panic", String::new()); continue } };
        let mut env2 = TypeEnv::new();
        let actor2 = match catch_unwind(AssertUnwindSafe(|| check_prog(&mut env2, &ast))) { Ok(Ok(a)) => a, Ok(Err(e)) => { report("check err on generated program", e.to_string()); continue }, Err(_) => { report("check panic", String::new()); continue } };
        let prog = candid_parser::syntax::IDLMergedProg::new(ast);
        // generators
        let js = catch_unwind(AssertUnwindSafe(|| candid_parser::bindings::javascript::compile(&env2, &actor2)));
        match &js { Err(_) => report("js panic", String::new()), Ok(js) => {
            // declared-before-use scan for the idlFactory body
            let body = js.split("export const init").next().unwrap_or("");
            let mut declared: BTreeSet<String> = BTreeSet::new(); let mut dup = false;
            for line in body.lines() { let l = line.trim_start(); if let Some(rest) = l.strip_prefix("const ") { if let Some(name) = rest.split(" = ").next() { if rest.contains(" = ") && !name.contains('{') { if !declared.insert(name.trim().to_string()) { dup = true; } } } } }
            if dup { report("js duplicate const", js.clone()); }
            if let Some(ret) = body.lines().find(|l| l.trim_start().starts_with("return ")) { let id = ret.trim().trim_start_matches("return ").trim_end_matches(';').trim_end_matches(".getType()"); if !id.starts_with("IDL.") && !declared.contains(id) { report("js returns undeclared identifier", js.clone()); } }
        } }
        if catch_unwind(AssertUnwindSafe(|| candid_parser::bindings::typescript::compile(&env2, &actor2, &prog))).is_err() { report("ts panic", String::new()); }
        if catch_unwind(AssertUnwindSafe(|| candid_parser::bindings::motoko::compile(&env2, &actor2, &prog))).is_err() { report("motoko panic (may be the documented non-identifier method precondition)", String::new()); }
        let cfg = candid_parser::bindings::rust::Config::new(candid_parser::configs::Configs::from_str("").unwrap());
        match catch_unwind(AssertUnwindSafe(|| candid_parser::bindings::rust::compile(&cfg, &env2, &actor2, &prog, Default::default()))) {
            Err(_) => report("rust binding panic", String::new()),
            Ok((out, _)) => {
                let mut seen = BTreeSet::new(); let mut dup = None;
                for l in out.lines() { for kw in ["pub struct ", "pub enum ", "pub type "] { if let Some(rest) = l.strip_prefix(kw) { let name: String = rest.chars().take_while(|c| c.is_alphanumeric() || *c == '_' || *c == '#').collect(); if !seen.insert(name.clone()) { dup = Some(name); } } } }
                if let Some(d) = dup { report("rust binding duplicate item", format!("{d}\n{out}")); }
            }
        }
        // determinism
        if let Ok(js1) = &js { if let Ok(js2) = catch_unwind(AssertUnwindSafe(|| candid_parser::bindings::javascript::compile(&env2, &actor2))) { if *js1 != js2 { report("js nondeterministic", String::new()); } } }
        // C14 single-fault mutants (text level)
        let muts: Vec<(&str, String)> = vec![
            ("undefined name", format!("{src}\ntype Zz9 = record {{ q : Undefined9 }};").replacen("service :", "type Qq = opt Undefined9;\nservice :", 1)),
            ("duplicate definition", format!("type Dup = nat;\ntype Dup = text;\n{src}")),
            ("alias cycle", format!("type Cy1 = Cy2;\ntype Cy2 = Cy3;\ntype Cy3 = Cy1;\n{src}")),
            ("duplicate field id", format!("type Df = record {{ 7 : nat; 7 : text }};\n{src}")),
            ("non-function method", format!("type Nf = service {{ m : Nfa }};\ntype Nfa = Nfb;\ntype Nfb = nat;\n{src}")),
            ("oneway with result", format!("type Ow = func () -> (nat) oneway;\n{src}")),
            ("two annotations", format!("type Ta = func () -> () query oneway;\n{src}")),
            ("duplicate method", format!("type Dm = service {{ m : () -> (); m : () -> () }};\n{src}")),
            ("duplicate arg name", format!("type Da = func (x : nat, x : text) -> ();\n{src}")),
        ];
        for (k, m) in muts {
            let verdict = catch_unwind(AssertUnwindSafe(|| { match m.parse::<IDLProg>() { Err(_) => false, Ok(ast) => { let mut e = TypeEnv::new(); check_prog(&mut e, &ast).is_ok() } } }));
            match verdict { Ok(false) => {}, Ok(true) => report(&format!("mutant accepted: {k}"), m.clone()), Err(_) => report(&format!("mutant panic: {k}"), m.clone()) }
        }
        *stats.entry("~programs".into()).or_default() += 1;
    }
    println!("{stats:#?}");
}
