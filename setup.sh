#!/bin/sh
# MANIFEST.setup_cmd: build the framework from files on disk only (offline).
set -e
cd "$(dirname "$0")"
export RUSTUP_TOOLCHAIN=stable-x86_64-unknown-linux-gnu CARGO_NET_OFFLINE=true
python3 tools/extract.py
(cd lean && lake build)
cp -n /repo/Cargo.lock harness/Cargo.lock 2>/dev/null || true
(cd harness && RUSTFLAGS="--cfg candid_verif" cargo build --offline && RUSTFLAGS="--cfg candid_verif" cargo build --offline --release)
