#!/bin/bash
# usage: seeds_detect_some.sh <prefix>...   like seeds_detect.sh, for the saved seeds whose name starts with one of the prefixes
cd /verif
out=work/seeds-detect-some.log; : > $out
for pre in "$@"; do
for d in seeded/$pre*/; do
  name=$(basename $d); id=${name%%-*}
  git -C /repo checkout -q -- .
  if ! git -C /repo apply /verif/$d/patch.diff 2>>$out; then echo "$name PATCH-FAILS" >> $out; continue; fi
  res=$(./check $id --tier quick 2>&1 | grep -E "^VIOLATION|^$id \[" | tr '\n' ' ')
  git -C /repo checkout -q -- .
  if echo "$res" | grep -q VIOLATION; then echo "$name DETECTED $res" | cut -c1-260 >> $out; else echo "$name MISSED $res" | cut -c1-260 >> $out; fi
done
done
git -C /repo status --short >> $out
echo ALLDONE >> $out
