#!/bin/bash
# usage: verify_seed3.sh <id> <crate> [feature-flags]   (worktree /tmp/seed6-<id>, files in its out/)
id=$1; crate=$2; feat=${3:-}
wt=/tmp/seed6-$id; src=$wt/out
export RUSTUP_TOOLCHAIN=stable-x86_64-unknown-linux-gnu CARGO_TARGET_DIR=$wt/target CARGO_NET_OFFLINE=true
cd $wt || exit 2
git checkout -q -- rust
rm -f rust/*/tests/zz_demo.rs
git apply $src/patch.diff || { echo "PATCH-DOES-NOT-APPLY"; exit 1; }
echo "== full suite with change"; cargo test --workspace --no-fail-fast --offline 2>&1 | grep -E "^test result|FAILED|failed|^error" | sort | uniq -c | head -20
cp $src/demo.rs rust/$crate/tests/zz_demo.rs
echo "== demo with change"; cargo test -p $crate $feat --test zz_demo --offline 2>&1 | grep -E "^test result|^error" | head -5
git checkout -q -- rust
echo "== demo without change"; cargo test -p $crate $feat --test zz_demo --offline 2>&1 | grep -E "^test result|^error" | head -5
rm -f rust/$crate/tests/zz_demo.rs
