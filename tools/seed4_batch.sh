#!/bin/bash
cd /verif/tools
for x in "C16 candid" "C11 candid_parser" "C04 candid --features=value" "C03 candid_parser" "C06 candid" "C07 candid" "C10 candid_parser" "C02 candid_parser" "C13 candid_parser"; do set -- $x; echo "#### $1"; ./verify_seed4.sh $1 $2 $3 2>&1 | tee /tmp/seed4-$1/out/verify.log; done
echo ALLDONE
