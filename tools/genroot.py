#!/usr/bin/env python3
"""regenerate lean/CandidModel.lean so that the default `lake build` target covers every module"""
import glob, os
root = "/verif/lean"
mods = sorted(p[len(root) + 1:-5].replace("/", ".") for p in glob.glob(root + "/CandidModel/**/*.lean", recursive=True))
open(root + "/CandidModel.lean", "w").write("".join(f"import {m}\n" for m in mods))
