#!/bin/bash
# usage: verify_seed.sh <id> <crate> <dir-with-patch.diff-and-demo.rs>
# In the scratch worktree /tmp/seed-<id>: (1) full suite passes with the change, (2) demo fails with it, (3) demo passes without it.
id=$1; crate=$2; src=$3; feat=${4:-}
wt=/tmp/seed-$id
export RUSTUP_TOOLCHAIN=stable-x86_64-unknown-linux-gnu CARGO_TARGET_DIR=$wt/target CARGO_NET_OFFLINE=true
cd $wt || exit 2
git checkout -q -- rust; git checkout -q $(git -C /repo rev-parse HEAD) 2>/dev/null
rm -f rust/*/tests/zz_demo.rs
git apply $src/patch.diff || { echo "PATCH-DOES-NOT-APPLY"; exit 1; }
echo "== full suite with change"; cargo test --workspace --no-fail-fast --offline 2>&1 | grep -E "^test result|FAILED|failed|error" | sort | uniq -c | head -20
cp $src/demo.rs rust/$crate/tests/zz_demo.rs
echo "== demo with change"; cargo test -p $crate $feat --test zz_demo --offline 2>&1 | grep -E "^test result|error" | head -5
git checkout -q -- rust
echo "== demo without change"; cargo test -p $crate $feat --test zz_demo --offline 2>&1 | grep -E "^test result|error" | head -5
rm -f rust/$crate/tests/zz_demo.rs
