#!/bin/bash
while kill -0 24688 2>/dev/null; do sleep 15; done
cd /verif/tools
for x in "C17 candid_parser" "C19 candid_parser" "C01 candid" "C12 candid_parser" "C09 candid" "C08 candid"; do set -- $x; echo "#### $1"; ./verify_seed3.sh $1 $2; done
