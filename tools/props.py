"""Per-property configuration of ./check (what is built, what is assumed, what counts as non-trivial)."""

TRUSTED_BASE_COMMON = [
    "Lean 4.33 kernel; leanchecker replay of the compiled theorem module",
    "axioms: subset of {propext, Classical.choice, Quot.sound}; no native_decide, no bv_decide, no own axioms (checked by #print axioms on every theorem)",
    "the model (lean/CandidModel/*.lean) is written by hand; it is tied to /repo by the correspondence harness (harness/, differential, bounded by what its generators reach) and by the table translator (tools/extract.py)",
    "rustc, serde, and the external crates named in the per-property assumptions are modelled, not verified",
]

PROPS = {
    "C09": {
        "profiles": ["debug", "release"],
        "rule": "requests are (op, byte string) or (op, integer); exhaustive over all byte strings of length <= 2 (thorough: <= 3) at the four standalone decoders, "
                "boundary families of length 7-12/17-22/25/37/40 with every sign/padding pattern, random strings <= 40 bytes, vectors inside messages, "
                "integers +-2^k+{-2..2} for k <= 200 and random magnitudes through every encoder; a decode request is non-trivial when the string has a terminated prefix "
                "(an unterminated string only reaches EOF); encode requests are all non-trivial; distinct = distinct request lines",
        "trusted": [
            "leb128 crate write::{unsigned,signed}, num-bigint to_radix_le/from_radix_le/to_signed_bytes_le are modelled by their arithmetic meaning (validated by the correspondence on every run)",
            "machine words are modelled as Nat bit patterns with explicit mod 2^w; a debug-mode shift-amount overflow is an explicit panic branch",
        ],
        "assumptions": [
            "Lean model of leb128.rs / number.rs / de.rs fast paths is hand-written; equality with the Rust is established only on the generated inputs",
            "release/debug: both profiles are run and compared with the same model",
        ],
        "partial": ["signed *decoders* (Int::decode, leb128::decode_int, the i64 fast path of de.rs) and the big-number path of Int::encode are established by correspondence only; theorems now cover: unsigned round trip / minimality / exact + total decode for Nat and u128, signed minimal encoding round trip (spec level), Nat::encode = minimal encoding on both paths, the signed encoder loop = minimal encoding"],
    },
    "C16": {
        "profiles": ["debug"],
        "rule": "ids: exhaustive over all byte strings of length <= 2, every length 0..40 at random; each id is printed, re-parsed, upper-cased, put on the wire; "
                "texts: canonical texts with random single edits (substitution incl. non-alphabet / non-ASCII characters, case change, deletion, insertion, dash move, truncation, dash removal), "
                "hand-built over-long payloads, random alphabet strings of length <= 14; every request is non-trivial except to_text of an over-long id; distinct = distinct request lines",
        "trusted": [
            "crc32fast::hash modelled bit-serially (reflected 0xEDB88320); data_encoding::BASE32_NOPAD modelled arithmetically (big-endian number left-aligned into 5-bit digits, canonical trailing bits, lengths 1/3/6 mod 8 rejected); both validated by the correspondence on every run",
            "the theorems treat crc32 as an arbitrary function into four bytes; only its length is used",
        ],
        "assumptions": [
            "strings cross the protocol as UTF-8 hex; the model works on Unicode scalar lists, the Rust on bytes (non-ASCII input is rejected as invalid base32 on both sides)",
            "serde impls of Principal are not modelled; the Candid wire form is (op pr.wire)",
        ],
        "partial": [],
    },
    "C05": {
        "profiles": ["debug"],
        "rule": "pairs of types in an environment: (1) every ordered pair of the 32 types of depth <= 1 over {nat,int,null,reserved,empty,bool,A,B} x {opt,vec,record,variant} in sampled two-definition environments "
                "(thorough: all pairs in 400 environments; quick: a third of the pairs in 12), (2) random recursive environments of 0-6 definitions with pairs related by 0-3 random upgrade steps in either direction, "
                "(3) histories of 2-5 queries sharing one memo, including records that probe a pair under opt before using it directly, (4) services through the text-level upgrade check; "
                "a request is non-trivial when the two types differ syntactically; distinct = distinct request lines",
        "trusted": [
            "the algorithm model (Sub.subAlg / Sub.eqAlg) is hand-written from subtype.rs; HashMap/HashSet iteration order is assumed irrelevant (lookups only)",
            "the spec answer in the correspondence is the executable greatest fixed point Sub.gfpCheck over the reachable pair set (search oracle, not itself proved equal to Sub)",
            "depth budget 4000 stands in for the stack guard; `out` never occurs on the generated inputs",
        ],
        "assumptions": [
            "Knot types (Rust-derived recursive types) do not cross the protocol; they are covered through TypeContainer environments in C01/C12",
            "service_compatible is exercised on sources printed by candid::pretty::candid::compile; its parser/checker are the subject of C12-C14",
        ],
        "partial": ["transitivity, which the property claims, is FALSE for the relation of the specification at a record field of type null (theorem subtyping_is_not_transitive_at_a_null_field; known finding KF-C05-transitivity-null-field, replayed on the implementation by sub.trans); away from that shape it IS a theorem for first-order types (subtyping_is_transitive_away_from_null_fields) and checked on all triples of the small types for the rest. That a successful equal() implies subtyping both ways is a theorem, reference types included, over environments where every name resolves and field ids / method names are distinct (TyEq, the greatest fixed point of the congruence rules, is an equivalence; the mirror of equal_impl is sound for it after any history and never rejects an equal pair; equal_types_are_subtypes_both_ways; equal_check_implies_subtyping_both_ways); class types are excluded. Completeness (every subtyping of the specification is accepted, given enough depth budget) and the upgrade check service_compatible / merge_type are established by correspondence with the executable greatest-fixed-point oracle only; theorems now cover soundness of the algorithm for all environments whose names resolve: accepted from an empty memo, accepted after any history of successful checks, and for whole sequences sharing one memo"],
    },
    "C02": {
        "profiles": ["debug"],
        "rule": "messages: (1) ~55 hand-written hostile headers/values (bad magic, index out of range, unsorted/duplicate ids, non-function methods, future types, uninhabited mu-records, opaque references, "
                "over-long principals, padded and over-long LEB128, huge counts, trailing bytes) at five expected type sequences, (2) valid messages of random possibly-recursive environments and argument lists, "
                "encoded by the real encoder, decoded at their own types, with no expected types, at 0-2 random upgrade steps per argument, with a missing / extra optional / extra required argument, at an unrelated type, "
                "(3) three random byte-level mutations per message (truncate, flip, replace, insert, delete, append, pad a LEB, increment) decoded at the original and at the opt-wrapped types; "
                "non-trivial = every case except an unchanged mutation; distinct = distinct request lines",
        "trusted": [
            "the model answering this property's requests is the specification-level decoder Wire.decodeArgs (decode M^-1 at the wire types, then the coercion relation as a function); the mirror of de.rs (De.lean, which interleaves the two as the Rust does) is tied to the implementation by the de.* requests of C06/C07 and to Wire.decodeArgs by the theorems of Props/C02",
            "limits of the implementation that are part of both sides: type table <= 10000, header/index numbers <= 10 LEB bytes, value lengths <= 9 LEB bytes, principals <= 29 bytes; nesting depth is bounded by a fuel of 600 in the model and by the stack guard in Rust (the generators stay far below both)",
            "reference types are compared with Sub.subAlg (see C05); binread's derive combinators are modelled by hand",
            "String.fromUTF8? (Lean core) is the UTF-8 validity oracle",
        ],
        "assumptions": [
            "vector lengths in generated messages are small; a huge vec of zero-sized elements is really iterated by the Rust decoder without a quota (C06/C07 run those metered)",
            "expected environments never define names of the form table<i> except in the targeted corpus case",
        ],
        "partial": [
            "de.rs itself is tied to its mirror De.lean by the correspondence only. Proved about the mirror, for all inputs: (only if) what it accepts is a well-formed message; (if; expected types first order - no function/service reference within reach -, wire types arbitrary, fields in ascending id order) decoding any value the specification's reader M^-1 accepts - padded LEB128 included - at any expected type returns exactly the specification's coercion and leaves what the reader leaves, or both report a subtype failure, unless a depth budget runs out; argument sequences and whole messages against Wire.decodeArgs. Both halves are combined under any quotas (what decodeWithConfig returns is a well-formed message's coerced values). Not a theorem: the same with reference types in the expected type (the decoder turns an exhausted checker budget into a subtype failure; needs the checker's termination bound), and metered runs directly (C07's theorems relate them to unmetered runs)",
        ],
    },
    "C03": {
        "harness": "C03",
        "profiles": ["debug"],
        "rule": "native half: for every Rust type of the corpus (~420 types, derived structs and enums with renamed and raw-identifier fields, recursive types, type tables of more than 64 entries) the bytes the native encoder writes for generated values are read by the specification reader at the derived type (2 / 40 values per type); untyped half: (environment, argument types, values) triples: hand-written recursive lists with aliases of primitives (alias chains, an alias of principal), undefined names, more types than values; "
                "random possibly-recursive environments with 0-3 arguments and generated inhabitants (named and numeric labels, references), near-miss values (wrong width, missing field, unknown tag, wrong reference kind) and the three allowances; "
                "each is encoded by to_bytes_with_types (twice: determinism), read back by from_bytes_with_types and from_bytes, and compared byte-for-byte with the encoder model and value-for-value with the spec reader; "
                "every request is non-trivial; distinct = distinct request lines",
        "trusted": [
            "Wire.encodeArgs / Wire.buildType / Wire.serVal mirror ser.rs TypeSerialize and IDLValue::idl_serialize by hand; BTreeMap<Type,i32> is modelled as an association list (only lookups and length are used)",
            "the reader is the specification-level decoder of C02",
            "f64 -> f32 narrowing in annotate_type(from_parser) is not modelled (generators avoid it)",
        ],
        "assumptions": ["native (Rust-typed) encoding goes through the same TypeSerialize/ValueSerializer; its type derivation is covered by C01"],
        "partial": [
            "proved: the reader inverts the writer on every leaf of the value grammar except nat/int (C09), on lengths and principals; the composite round trip decVal (serVal v) = v for all well-typed v and the table well-formedness invariant of buildType are not yet theorems (correspondence only)",
        ],
    },
    "C10": {
        "harness": "C03",
        "profiles": ["debug"],
        "rule": "same generated triples as C03, every value annotated at its type in both modes (from_parser true/false), one near-miss per value, the three allowances, Number literals at every numeric type; every request non-trivial",
        "trusted": ["Wire.annotate mirrors IDLValue::annotate_type by hand (HashMap of record fields: last binding wins)"],
        "assumptions": ["shares the harness run of C03 (wire.annotate and wire.roundtrip ops)"],
        "partial": ["proved for all inputs: what annotation returns is a canonical value of the type; annotate, encode, decode returns the annotated value; annotating a canonical value of the type succeeds and returns it (blob spelling aside). Not a theorem: that annotating an arbitrary accepted input (numbers from the parser, fields out of order, the three allowances) keeps its meaning - stated only through the canonical-value theorems; rejection is proved for the named near-miss kinds only"],
    },
    "C14": {
        "profiles": ["debug"],
        "rule": "programs well-formed by construction (0..6 definitions of kinds data / function / service / alias of an earlier one, recursive through opt, vec, fields, arguments and methods; methods written as function types or as names denoting functions; hostile method names; source order reversed half the time; "
                "actor absent / service literal / name of a service definition / constructor with 0..2 init args) and, for each, one single-fault mutant with a known verdict: undefined name, duplicate definition, alias cycle of length 1..6 (optionally entered from outside), duplicate id / name vs id collision / duplicate name in a record or variant, "
                "method denoting a non-function through an alias chain of length 0..5 (alias optionally used as an ordinary type by an earlier method or an earlier definition), oneway with a result, two annotations, non-service actor (directly or as a constructor result), duplicate method, undefined actor; faults are planted at depth 0..2 inside a data definition, the actor's methods or the init args; "
                "plus not-a-fault programs where a function is reached through its own name; argument-name lists; every request is non-trivial; distinct = distinct request lines",
        "trusted": [
            "the .did text handed to /repo is printed by the harness (explicit labels, hex-escaped quoted names), so the parser and its grammar actions are exercised together with check_prog",
            "error messages of /repo are mapped to eight classes by substring; the model returns the class of the first failing phase",
            "uniqueness of labels and method names is modelled as `Nodup` (sorting + adjacent comparison is C15's subject)",
        ],
        "assumptions": ["imports (check_file, IDLMergedProg) and check_init_args are not modelled; service constructors occur only as the main actor (the grammar admits them nowhere else)",
                        "the depth guard of as_func/as_service (stack based) is not modelled: alias chains are far below it"],
        "partial": [],
    },
    "C17": {
        "profiles": ["debug"],
        "rule": "well-typed programs with a main service from the C14 generator (0..6 definitions: data / function / service / alias, recursion through every constructor, services given by name, constructors with 0..2 init args whose types reach recursive definitions), a quarter of the definitions renamed to JavaScript reserved words, "
                "reserved words followed by underscores, `IDL`, `arguments`; hostile method names; rarely a field named like the builder's spelling of a numeric id (`_5_`); every program is compiled by /repo, the emitted module is parsed and evaluated by the harness's JavaScript-subset evaluator (temporal dead zone, redeclaration, reserved words, strict-mode escapes, `_n_` keys) "
                "and the service and init types it builds are compared with the program's by the structural equality of subtype.rs; the definition order and recursion set read off the text are compared with the model; every request is non-trivial; distinct = distinct request lines",
        "trusted": [
            "harness/src/jsmini.rs evaluates the JavaScript subset the generator emits; it stands for a JavaScript engine plus the IDL builder of agent-js (record keys `_<n>_` are numeric ids)",
            "the keyword table and the shape of `ident` (stem lookup, IDL) are re-extracted from javascript.rs on every run",
            "the type printer (pp_ty) is exercised through evaluation, not modelled: the model covers which definitions are emitted, in which order, which through IDL.Rec()",
        ],
        "assumptions": ["structural equality is decided by /repo's own `equal` (C05)"],
        "partial": ["that the evaluated factory denotes the source service is established by the implementation-level oracle on generated programs only; theorems: scoping of the emitted statements for every program, closure and totality of the analysis, ident never yields a reserved word and is injective"],
    },
    "C18": {
        "profiles": ["debug"],
        "rule": "names: keywords, words that cannot be raw identifiers, every case shape (camel, snake, leading / trailing / doubled underscores, digits), non-identifiers, as record fields (snake case) and variant tags (upper camel case): the identifier and the serde rename are read off the emitted item with syn; "
                "whole field lists (op rs.fields): 2-6 labels drawn from pools that meet after case conversion (fooBar / foo_bar / FooBar / foo_bar_, type / Type / type_ / TYPE, self / Self / self_ / crate, a / A / a_ / aB / a_b / AB) or random over a small alphabet, as the fields of one record or the tags of one variant: identifier and rename of every member against the model of the uniquifying loop; "
                "programs from the C14 generator (anonymous nested records / variants / functions / services at several paths, recursion needing Box, services given by name, constructors), every third one with definition and field names that collide after case conversion, prelude names and keywords: the binding (canister_call template) is parsed with syn, every item is read back as the Candid type the derive macro computes "
                "(label = serde rename else identifier without r#; newtype and unit rules; define_function! / define_service!), every definition the service uses must have a structurally equal item and every method the same argument and result types; "
                "compile stage (op rs.derive, crate harness/bindcheck): five hand-written programs (every Rust keyword as a field next to ordinary fields, keyword variant tags, renames, recursive and anonymous nested types) and a share of the generated programs whose binding reads back right (quick 40, thorough 400) have their emitted items — every derive'd struct / enum, type alias, define_function! / define_service! — compiled by rustc with the real candid_derive, and `T::ty()` of the items is compared with the source definitions by /repo's `equal`; a compile error is a violation naming the program; "
                "every request is non-trivial; distinct = distinct request lines",
        "trusted": [
            "the harness reads the emitted Rust with syn 2 and applies the derive macro's rules as read from candid_derive/src/derive.rs (rename / unraw, newtype inlining, unit = null, tuple fields by position); the compile stage runs the real derive macro on the items (re-printed from the syn tree; the service struct, its impl — which needs ic_cdk, not available offline — and its constants are left out)",
            "Rust keyword tables and the renamed flag of the cannot-be-raw branch are re-extracted from identifier.rs on every run",
            "two readings are compared: the one the binding intends (`_5_` = id 5, `(T,)` struct = one-field record) and the derive macro's; a difference between them is one of the recorded findings",
        ],
        "assumptions": ["binding configuration files (rename, use_type, attributes) are not exercised", "structural equality is decided by /repo's own `equal` (C05)"],
        "partial": ["equality of the emitted types with the source is established by the implementation-level oracles (syn reading on every generated program, rustc + the real derive macro on a share of them) only; the methods of the service (impl block, which needs ic_cdk) are read with syn but not compiled; theorems: the derive label of every emitted field / variant is the source label, for all names and all field lists; the identifiers of the members of one record / variant are pairwise distinct as rustc compares them, for all field lists (the type-name half of that clause is the recorded finding KF-C18-name-collision)"],
    },
    "C19": {
        "profiles": ["debug"],
        "rule": "programs from the C14 generator printed as .did text with doc comments (plain text, comment terminators and openers, quotes, backticks, template and handlebars syntax, attribute-like text, non-ASCII) before definitions and the actor; a quarter of the definitions renamed to keywords and prelude names of the target languages; hostile method names in any service; with and without a main service, with and without init args; "
                "each program goes through the JavaScript, TypeScript, Motoko and Rust (canister_call, agent, stub templates) generators twice (no panic, same output); every output is scanned with the target's comment / string / bracket rules, every Rust output is parsed by syn and its static byte string compared with its declared length, JavaScript output is lexed strictly; doc text must sit inside a comment, every method of the service is mentioned; "
                "Motoko is skipped when some method name is not an identifier (documented limit); plus the spelling of every Motoko keyword and of hostile names as field labels, and doc lines over {*, /, backslash, a, space}; every request is non-trivial; distinct = distinct request lines",
        "trusted": [
            "harness-side scanners for comments / strings / brackets of JavaScript, Motoko and Rust; syn 2 as the Rust parser; no TypeScript or Motoko compiler is available: closure of those outputs rests on the analysis theorems (all definitions of the environment are emitted) and the scanners",
            "Motoko keyword table and the order of tests in `escape` are re-extracted on every run",
        ],
        "assumptions": ["custom Rust templates and binding configuration files are not exercised", "doc comments on fields and methods are not generated (definitions and actor only)"],
        "partial": ["totality, determinism and lexical integrity of the printers are established by correspondence on generated programs only; theorems: totality and closure of the shared analysis, Motoko names are identifiers / not keywords / stay distinct, a TypeScript doc line cannot end its comment"],
    },
    "C15": {
        "profiles": ["debug"],
        "rule": "hash: every ASCII string of length <= 2 (exhaustive), two-byte UTF-8 scalars, random strings <= 64 scalars over the full Unicode range; labels: lists of 0-5 labels mixing names (identifiers, keywords, arbitrary Unicode, "
                "numeric-looking names), ids (small, 2^31, 2^32-1), the numeric spelling of a name already present, repeated labels and pairs of distinct names with equal hash found by enumeration; "
                "each list goes through the sort-and-check step of four entry points (check_unique as expanded by record!/variant!, the type parser for record and variant, the value parser) and pairs through Label eq/cmp/hash; "
                "lists of >= 2 labels are non-trivial; distinct = distinct request lines",
        "trusted": [
            "both copies of idl_hash are shape-checked and their multiplier extracted by the translator; the derive macro itself runs at compile time and is exercised through the harness' derived corpus types (C01) rather than here",
            "the sort is modelled as an insertion sort (only the sorted keys are observable by check_unique)",
            "the binary header's duplicate/unsorted-id rejection is exercised in C02 (hostile headers); its predicate is Labels.strictlyAscending, proved equivalent to sorted-and-duplicate-free here",
        ],
        "assumptions": ["names reach the text parsers as fully hex-escaped quoted strings, so the escape handling of C11 is not involved"],
        "partial": [],
    },
    "C04": {
        "profiles": ["debug"],
        "rule": "random possibly-recursive environments, a type t with up to three generated inhabitants, and an upgrade chain t, t1, t2, t3 built from random upgrade steps (add/remove optional field, add variant case, nat->int, widen to opt/reserved, "
                "generalise function arguments, specialise results, replace by a name); for every (t, t_k): the subtype verdict and the decoding of every inhabitant encoded at t and decoded at t_k; "
                "oracles on the implementation: the decoded value inhabits t_k (re-encodes and reads back unchanged), two-step decoding through t1/t2 differs from direct decoding only by opt/null; "
                "non-trivial = the two types differ; distinct = distinct request lines",
        "trusted": [
            "checker model Sub.subAlg and greatest-fixed-point oracle (C05), specification decoder and coercion (C02), encoder model (C03)",
            "the specification column flags `!unsound` when its own relation accepts a pair and its own coercion fails on a generated inhabitant, so an unsound rule is reported even if implementation and model agree on it",
        ],
        "assumptions": [
            "native decoding at Rust types is covered by C08 (native = untyped) rather than here",
            "chains whose environment contains an options-all-the-way-down type are excluded from the coherence oracle (known finding KF-C04-mu-opt); the pair op still reports them under that finding",
        ],
        "partial": [
            "proved for all inputs: on the specification side a canonical value of a subtype always coerces (never a subtype failure, malformed value or panic), and the result inhabits the supertype; on the decoder mirror, for first-order types, decoding a value of a subtype returns exactly that coercion or is stopped by the depth budget. Not theorems: the decoder-side statement with reference types, and that some coercion budget always suffices (the statements are conditional on the budget not running out)",
            "coherence is checked on the implementation only",
        ],
    },
    "C06": {
        "profiles": ["debug", "release"],
        "rule": "hostile inputs: vectors of every primitive element size, zero-sized elements, text and blob with declared lengths at every arithmetic boundary (0, 1, 1000, 2^20, 2^32+-1, 2^k+{-3..2} for k in 31,32,59..63, usize::MAX/11, usize::MAX/8, usize::MAX) always metered; "
                "type tables that nest 100 and 1500 levels of opt / vec, recursive types (type O = opt O, type V = vec V) with values 400000 levels deep; 1-3 rounds of structure-aware mutation of valid messages and pure noise after the magic, "
                "decoded untyped at the original, at upgraded and at no expected types with quotas drawn from {none, 0, 1, 10, 1000, 100000, random}; both build profiles; the outcome class (value / error / quota error / panic) and, on success, value and cost are compared; "
                "every request is non-trivial; distinct = distinct request lines",
        "trusted": [
            "decoder mirror De.* (with cost accounting) and specification decoder Wire.*; the stack guard (stacker::remaining_stack) is modelled by a depth budget of 100000: between the two limits the answer depends on the real stack, so generated nesting depths stay at <= 1500 or at 400000",
            "allocation is not measured directly: the harness runs under a process memory limit and an allocation failure aborts the run (reported as a harness failure)",
        ],
        "assumptions": [
            "native (Rust-typed) expected types are exercised on the hostile stream in C08's corpus run",
            "real stack exhaustion on small thread stacks, allocator failure and wasm targets are outside what a model can exhibit (runtime-dependent part, see DESIGN.md section 7)",
        ],
        "partial": ["the resource bounds (memory proportional to input, time proportional to charged cost) are argued from the cost lemmas, not proved end to end; theorems now cover totality of the whole decoder mirror: untyped decoding of every byte string under every quota never reaches the panic outcome (header parser, subtype checker, the four mutually recursive entry points, back-tracking, argument loop); typed decoding under a safe caller environment; a parsed header always yields a safe table"],
    },
    "C07": {
        "profiles": ["debug"],
        "rule": "valid messages of random possibly-recursive types (plus hand-written zero-sized-element vectors, surplus arguments/fields, mismatched options, references) decoded untyped at their own, upgraded, truncated, extended and empty expected type lists; "
                "for each: measured cost under huge quotas, then quotas (c, c), (c-1, c), (c, c-1), (c+1, none), (none, c), (c/2, c/2), (0, none), (none, 0) and no quotas; byte-level mutants likewise; "
                "the implementation's (value, decoding cost, skipping cost) or quota error must equal the model's; metamorphic oracles on the implementation: value unchanged by quotas, larger quotas never fail, cost independent of quotas, exact quota succeeds, one less fails with a quota error, cost >= number of values; "
                "every request non-trivial; distinct = distinct request lines",
        "trusted": [
            "De.* mirrors de.rs line by line for the IDLValue / IgnoredAny visitors including every add_cost argument, the x50 penalty, back-tracking (+10, skip) and the lazily merged type table size charged by check_subtype",
        ],
        "assumptions": ["native visitors (derive-generated) have their own call pattern and cost; C08's corpus run checks quota neutrality for them on the implementation only"],
        "partial": ["that the charged cost bounds the work (time, allocation) of the real decoder is argued from the per-step cost lemmas, not proved; monotonicity in the other direction (a larger quota never turns success into failure) is established by the metamorphic oracle on the implementation; theorems now cover neutrality for whole messages: a metered success is reproduced, value for value, by the unmetered run, and two succeeding quota configurations agree"],
    },
    "C01": {
        "profiles": ["debug"],
        "rule": "a corpus of ~300 Rust types built by macros: 12 element types (bool, u8, u64, i16, f64, String, Nat, Int, Principal, a derived struct, u128, unit) under Option, Vec, Vec<Option>, Option<Vec>, [T;2], pairs, a newtype, Box, "
                "maps keyed by String/u8/Int/Principal, Result; maps/sets/hash maps for 6 key types x 6 value shapes (nested maps included); derived structs and enums with renames, raw identifiers, unit/tuple/struct/newtype variants, generics, "
                "recursive and mutually recursive types through Box and maps, define_function!/define_service! references; for each type 12 (thorough: 400) generated values, each under a random call history of 0-4 earlier "
                "type derivations / round trips of other corpus types / decodes / memo resets on both the encoding and the decoding side; non-trivial = every case; distinct = distinct request lines",
        "trusted": [
            "the abstract value of a Rust value is computed by hand-written conversions in harness/src/corpus.rs (independent of the encoder); the Candid type of a Rust type is taken from TypeContainer (Knot nodes it leaves behind are read as names)",
            "the reader is the specification decoder of C02; equality of floats is bit-for-bit through the abstract value",
        ],
        "assumptions": ["hash-map iteration order is not deterministic: for HashMap types vectors are compared as multisets"],
        "partial": [
            "the memo-history invariance of T::ty() up to type equality is not a theorem (the memo is a thread-local of the Rust library); it is exercised through random call histories. Proved on the native decoder mirror, for every Rust type of the grammar (primitives, 128-bit integers in range, big numbers, text, principals, function and service references, options, vectors through all element paths, arrays, bounded vectors, tuples, maps, derived structs and enums, named recursive types) and every value: native decoding of what the writer produced returns exactly the value and leaves exactly what followed",
        ],
    },
    "C08": {
        "profiles": ["debug"],
        "rule": "every corpus type T of C01 against: messages of its own type, messages of 4 (thorough: 12) random other corpus types (the cross product supplies the layout-alikes: text vs blob, nat vs nat8, principal vs blob, vec nat8 vs vec int8), "
                "byte-level mutants, messages of random sub/supertypes of T's Candid type with generated inhabitants, and hand-written layout-alike messages; native decoding at T is compared with the specification decoder at T's Candid type "
                "and with the implementation's own untyped decoding (acceptance and value; element order ignored for maps and sets), and with the native decoder mirror of the model (nat.mirror: acceptance and value on every message, also outside the host limits and at other array lengths; nat.mirrorQ: at the smallest decoding / skipping quota under which the implementation decodes, found by bisection, and one below); messages outside the host limits (128-bit range, array length, duplicate keys) are counted, not compared; "
                "successful native decodes are repeated under huge quotas; non-trivial = compared cases",
        "trusted": ["as C01; the Deserialize implementations of the corpus types (serde std / derive, serde_bytes, candid's own) are modelled in lean/CandidModel/Native.lean as which Deserializer method each calls with which visitor; the RTy descriptions of the corpus types are hand-written (harness/src/corpus.rs) and checked against T::ty() by `agree` on every mirror request",
                    "the cost of skipping a reference value on the native path is not compared when the Rust type has named definitions (the shared skipping function charges the merged environment's size)"],
        "assumptions": ["host-limit predicates per corpus type are hand-written in harness/src/corpus.rs"],
        "partial": ["native = untyped IS a theorem on the mirrors (native_decoding_agrees_with_untyped_decoding: every wire type, every input, every pair of depth budgets, unless a run stops at a host limit) for Rust types without tuples, arrays, bounded vectors and 128-bit integers - options, vectors through all paths, Vec<u8>, ByteBuf, maps with their shortcuts, derived structs and enums, named recursive types are covered; for the excluded types (tuples: known finding about positional pairing; the others: host limits) and for de.rs against its mirrors the agreement is established per message by the correspondence. Also proved about the native mirror: bulk primitive reader sound and complete against the element-wise path, shortcuts taken only at their literal type pairs, bounded vectors accept exactly within limits, no visitor out of step with its expected type (under agree, evaluated by the driver on every request)"],
    },
    "C11": {
        "profiles": ["debug"],
        "rule": "texts: every scalar below U+0300 alone and after another character (thorough: every Unicode scalar value, both positions), random hostile texts (NUL, DEL, controls, quotes, backslash, surrogate-adjacent, combining, astral) printed by Display and Debug and read back; "
                "literal bodies assembled from an alphabet of valid, malformed and truncated escapes through the sub-lexer; every single-byte blob and random blobs through the Debug printer; 10^k+{-1,0,1} for k <= 40 and random number tokens (decimal, 0x, 0X, underscores); "
                "positional/explicit field mixes through both grammars; whole values of generated types (hostile texts, hostile and keyword labels, vectors of 9..12 elements around the abbreviation threshold) through Display(args), Debug(args), Display(value) + parse + annotate; "
                "every request is non-trivial; distinct = distinct request lines",
        "trusted": [
            "Rust's str::escape_debug is modelled by escChar with the Unicode tables (is_printable, is_grapheme_extended) as parameters: theorems hold for every table; the shape check of the correspondence accepts any table",
            "logos (the lexer generator) is modelled by the longest-match reading of the three escape regexes of `enum Text`; the LALRPOP grammar above the token level is exercised through the implementation-level round trip (op txt.value), not modelled",
            "float printing/parsing is not modelled (finite floats are exercised by txt.value)",
        ],
        "assumptions": ["pretty printer layout (line breaks, indentation) is not modelled: it only inserts white space between tokens"],
        "partial": ["whole-value round trip (printer + grammar + annotate_types) is established by the implementation-level oracle on generated values only; theorems cover the token level: text, blob, number, positional fields"],
    },
    "C12": {
        "profiles": ["debug"],
        "rule": "names: keywords of every table, identifier-like, empty, digits-first, spaces, dashes, hostile Unicode — printed by pp_text and parsed back as a record field; interfaces: generated environments (0..5 definitions, recursive, func/service references, "
                "hostile field names in half of the definitions, hostile method names, methods given by a name that denotes a function type, service constructors) printed by compile, parsed, checked, compared definition by definition with the structural equality of subtype.rs, "
                "then printed again by the syntax-tree printer and compared; every request is non-trivial; distinct = distinct request lines",
        "trusted": [
            "the keyword table of pretty/candid.rs and the reserved words of token.rs are re-extracted on every run (tools/extract.py): theorem lexer_words_are_printer_keywords is about the tables as they are now",
            "structural equality of interfaces is decided by the implementation's own `equal` (property C05's subject), after merging the two environments",
        ],
        "assumptions": ["Rust-type export (export_service!, TypeContainer) is not exercised here; it is exercised by C01's corpus types through candid_type"],
        "partial": ["whole-interface round trip is established by the implementation-level oracle on generated interfaces only; theorems cover name spelling and positional shorthand"],
    },
    "C13": {
        "profiles": ["debug", "release"],
        "rule": "token soups over the lexer's alphabet incl. boundary numerals, malformed escapes, unterminated strings and comments, and known past crashers; grammar-directed sentences with one token deleted, duplicated or replaced; nesting 1/64/127/128; 400-digit numerals; "
                "each through the eight entry points in rotation (program, type, types, init args, test script, args, value, program + check_prog); every request is non-trivial; distinct = distinct request lines",
        "trusted": [
            "a panic is observed through catch_unwind; a non-unwinding abort (e.g. a UB check in a debug build) kills the harness and is reported as a violation without an input",
            "stack exhaustion beyond the nesting bound of the property is not explored",
        ],
        "assumptions": ["the LALRPOP-generated parser tables and logos-generated automata are exercised, not modelled"],
        "partial": ["totality of the grammar actions and of check_prog is established by correspondence only; theorems: totality of the string sub-lexer model, range of positional numbering, digit sets of normalised number tokens"],
    },
    "C20": {
        "profiles": ["debug"],
        "rule": "environments of 0..4 generated definitions (recursive, possibly uninhabited, with empty / reserved / function / service types), 0..3 requested types, seeds of 0..4096 bytes (all zero, all 0xff, random), configurations drawn from depth in {-1..30}, size in {-1..1000}, width in {0..40}, a depth of their own in {0..5} for some of the named types ([random.<name>] sections, one time in three), ranges incl. empty and out-of-type ones, every text kind and an unknown one, values supplied by configuration (well and ill typed, unparsable); "
                "each call goes through random::any under catch_unwind; a returned value must annotate unchanged at the requested types, encode at them, and nest no deeper than the configured depth plus one pass through the type structure; returned values are re-checked against the model's typing relation; "
                "the size estimate of every requested type and every definition is compared with the model through a cfg(candid_verif) hook; every number type with ranges around all type bounds (error exactly when the clamped range is empty; returned numbers within the clamped range); every request is non-trivial; distinct = distinct request lines",
        "trusted": [
            "the entropy source (arbitrary::Unstructured), fake text generation and the configuration tree are exercised, not modelled: the model covers the size estimate, the weights, the selection from weights, number bounds and the typing relation",
            "hook random::verif_size (cfg candid_verif) returns size() unchanged",
        ],
        "assumptions": ["an error is an admissible answer (the property allows it); which inhabited types get an error (e.g. recursion limit on variants whose every alternative is recursive) is counted in the evidence, not judged"],
        "partial": ["that returned values inhabit the requested types is established on the generated calls (implementation oracle + model typing relation); theorems: selection never returns a zero-weight alternative and succeeds when a weight is positive, inhabited alternatives keep weight, spent budget keeps only the smallest inhabited alternatives and makes opt null, number bounds, size 0 only for empty, selected alternative is typed. Termination within the configured depth is an oracle on the generated calls; it fails for variants all of whose alternatives are recursive (known finding KF-C20-recursive-alternatives; on the mirror: theorem spent_budget_keeps_recursive_alternatives)"],
    },
}
