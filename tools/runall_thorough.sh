#!/bin/bash
# run every registered thorough check, one line each (long: tens of minutes)
cd /verif
for id in $(python3 -c "import json; print(' '.join(c['property_id'] for c in json.load(open('MANIFEST.json'))['checks']))"); do
  out=$(./check $id --tier thorough 2>&1 | grep -E "^C[0-9]+ \[|VIOLATION" | tr '\n' ' ')
  echo "$out"
done
