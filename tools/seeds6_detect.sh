#!/bin/bash
# usage: seeds2_detect.sh <id>...   apply /tmp/seed6-<id>/out/patch.diff to /repo, run the quick check, revert
cd /verif
for id in "$@"; do
  git -C /repo checkout -q -- .
  if ! git -C /repo apply /tmp/seed6-$id/out/patch.diff 2>>work/seeds6-detect.log; then echo "$id PATCH-FAILS" >> work/seeds6-detect.log; continue; fi
  res=$(./check $id --tier quick 2>&1 | grep -E "^VIOLATION|^$id \[" | tr '\n' ' ')
  git -C /repo checkout -q -- .
  if echo "$res" | grep -q VIOLATION; then echo "$id DETECTED $res" | cut -c1-260 >> work/seeds6-detect.log; else echo "$id MISSED $res" | cut -c1-260 >> work/seeds6-detect.log; fi
done
echo BATCHDONE >> work/seeds6-detect.log
