#!/usr/bin/env python3
"""dev helper: run harness + driver for a property and summarise agreement.  usage: cmp.py <prop> [seed] [tier]"""
import sys, subprocess, collections, json, os
prop = sys.argv[1]; seed = sys.argv[2] if len(sys.argv) > 2 else "1"; tier = sys.argv[3] if len(sys.argv) > 3 else "quick"
d = f"/verif/work/dev-{prop}"
os.makedirs(d, exist_ok=True)
subprocess.run(["python3", "/verif/tools/extract.py"], check=True, stdout=subprocess.DEVNULL)
subprocess.run(["lake", "build", "driver"], cwd="/verif/lean", check=True, stdout=subprocess.DEVNULL)
r = subprocess.run(["cargo","build","--offline"], cwd="/verif/harness", env=dict(os.environ, RUSTFLAGS="--cfg candid_verif", RUSTUP_TOOLCHAIN="stable-x86_64-unknown-linux-gnu"), capture_output=True, text=True)
if r.returncode != 0:
    print(r.stderr[-3000:]); sys.exit(1)
subprocess.run(["/verif/harness/target/debug/harness", prop, d, seed, tier], check=True, stderr=subprocess.DEVNULL)
with open(f"{d}/req.txt") as fin, open(f"{d}/model.txt", "w") as fout:
    subprocess.run(["/verif/lean/.lake/build/bin/driver"], stdin=fin, stdout=fout, check=True)
req = open(f"{d}/req.txt").read().split("\n"); imp = open(f"{d}/impl.txt").read().split("\n"); mod = open(f"{d}/model.txt").read().split("\n")
c = collections.Counter(); ex = {}
norm = lambda x: "panic" if x.startswith("panic") else x
for r, i, m in zip(req, imp, mod):
    if not r: continue
    ms = m.split("\t"); model = ms[0]; spec = ms[1] if len(ms) > 1 else "-"
    k = (r.split("\t")[0], "model=" + ("Y" if norm(i) == norm(model) else "N"), "spec=" + ("-" if spec == "-" else ("Y" if norm(i) == norm(spec) else "N")))
    c[k] += 1
    if "N" in k[1] or "N" in k[2]: ex.setdefault(k, []).append((r, i, m))
for k, v in sorted(c.items()):
    print(k, v)
    for e in ex.get(k, [])[:3]: print("    ", e)
meta = json.load(open(f"{d}/meta.json"))
print("evaluations", meta["evaluations"], "distinct", meta["distinct_nontrivial"])
print("oracle failures:", len(meta["oracle_failures"]))
for f in meta["oracle_failures"][:5]: print("   ", f)
