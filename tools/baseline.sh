#!/bin/bash
# run /repo's own test suite (the pinned 194 tests) on the current working tree; prints the summary line
cd /repo && RUSTUP_TOOLCHAIN=stable-x86_64-unknown-linux-gnu CARGO_NET_OFFLINE=true cargo nextest run --workspace --no-fail-fast --test-threads 8 --offline 2>&1 | grep -E "^\s*(Summary|FAIL|SIGABRT|error)" | sort | uniq | head -40
