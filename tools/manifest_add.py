#!/usr/bin/env python3
"""add (or replace) a check entry in MANIFEST.json.  usage: manifest_add.py <id> <level text> <level note> <technique>"""
import json, sys
pid, text, note, tech = sys.argv[1:5]
p = "/verif/MANIFEST.json"
m = json.load(open(p))
entry = {
    "property_id": pid,
    "quick_cmd": f"./check {pid} --tier quick",
    "thorough_cmd": f"./check {pid} --tier thorough",
    "evidence_file": f"evidence/{pid}.json",
    "replay_cmd_template": f"./check {pid} --replay {{path}}",
    "engine": "lean-model",
    "level_claimed": {"category": "proof", "text": text, "design_ref": f"DESIGN.md §4 {pid}"},
    "level_note": note,
    "technique": tech,
}
m["checks"] = [c for c in m["checks"] if c["property_id"] != pid] + [entry]
for e in m["engines"]:
    if pid not in e["serves_properties"]:
        e["serves_properties"] = sorted(e["serves_properties"] + [pid])
json.dump(m, open(p, "w"), indent=1)
