#!/usr/bin/env python3
"""save_seed.py <name> <property> <srcdir> <crate> <needs> <caught-by>  -> /verif/seeded/<name>/{patch.diff,demo.rs,NOTES.md,meta.json}"""
import sys, os, shutil, json, subprocess
name, prop, src, crate, needs, caught = sys.argv[1:7]
d = f"/verif/seeded/{name}"
os.makedirs(d, exist_ok=True)
for f in ["patch.diff", "demo.rs", "NOTES.md", "verify.log"]:
    if os.path.exists(os.path.join(src, f)):
        shutil.copy(os.path.join(src, f), os.path.join(d, f))
head = subprocess.run(["git", "-C", "/repo", "rev-parse", "--short", "HEAD"], capture_output=True, text=True).stdout.strip()
meta = {
    "property": prop, "base_commit": head,
    "needs_to_manifest": needs,
    "demo": {"copy_to": f"rust/{crate}/tests/zz_demo.rs", "run": f"cargo test -p {crate} --test zz_demo --offline"},
    "confirmed": "tools/verify_seed.sh in a scratch worktree: workspace suite passes with the change, demo fails with it, demo passes without it (verify.log)",
    "check_result": caught,
}
json.dump(meta, open(os.path.join(d, "meta.json"), "w"), indent=1)
print("saved", d)
