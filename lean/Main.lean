import CandidModel.Driver.Leb
import CandidModel.Driver.Principal
import CandidModel.Driver.Subtype
import CandidModel.Driver.Wire
import CandidModel.Driver.Labels
import CandidModel.Driver.De
import CandidModel.Driver.Text
import CandidModel.Driver.Check
import CandidModel.Driver.Bindgen
import CandidModel.Driver.Rand
import CandidModel.Driver.RustId
import CandidModel.Driver.Native
/-
  Line-protocol driver.  One request per line: `<op>\t<arg>\t<arg>…`; one answer per line:
  `<model answer>\t<spec answer>` (or `bad-op` for what no handler accepts — never a default).
-/
open Candid Candid.Driver

def handlers : List (String → List String → Option String) :=
  [handleLeb, handlePrincipal, handleSubtype, handleWire, handleLabels, handleDe, handleText, handleCheck, handleBindgen, handleRand, handleRust, handleNative]

def answer (line : String) : String :=
  match line.splitOn "\t" with
  | op :: args =>
    match handlers.findSome? (fun h => h op args) with
    | some out => out
    | none => "bad-op"
  | [] => "bad-op"

/-- the answer loop: iterative (a recursive formulation overflowed the stack after about a million requests) -/
def main : IO Unit := do
  let inp ← IO.getStdin
  let out ← IO.getStdout
  let mut go := true
  while go do
    let line ← inp.getLine
    if line.isEmpty then
      go := false
    else
      let l := if line.endsWith "\n" then (line.dropEnd 1).toString else line
      out.putStrLn (answer l)
  out.flush
