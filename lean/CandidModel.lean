import CandidModel.Basic
import CandidModel.Leb
