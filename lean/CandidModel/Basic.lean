/-
  Basic vocabulary shared by every model slice: byte strings, the three-way outcome
  (value / error kind / panic site) and small helpers.  Core Lean only (no Std/Mathlib import)
  so that the line-protocol driver links as a `lean_exe`.
-/
namespace Candid

abbrev Bytes := List UInt8

/-- The small error enum the correspondence compares.  `subtype` is the only kind that the
decoder's opt back-tracking catches. -/
inductive ErrKind where
  | subtype | malformed | quota | limit | unsupported | eof | overflow | other
  deriving DecidableEq, Repr, Inhabited

def ErrKind.name : ErrKind → String
  | .subtype => "subtype" | .malformed => "malformed" | .quota => "quota" | .limit => "limit"
  | .unsupported => "unsupported" | .eof => "eof" | .overflow => "overflow" | .other => "other"

/-- Every model function that mirrors Rust returns an `Outcome`: a Rust `unwrap`, `unreachable!`,
out-of-range index or debug-mode arithmetic overflow is `panic site`, never a default value. -/
inductive Outcome (α : Type) where
  | ok (a : α)
  | err (k : ErrKind)
  | panic (site : String)
  deriving Repr, DecidableEq

namespace Outcome
variable {α β : Type}

@[inline] def bind (x : Outcome α) (f : α → Outcome β) : Outcome β :=
  match x with
  | ok a => f a
  | err k => err k
  | panic s => panic s

@[inline] def map (f : α → β) (x : Outcome α) : Outcome β :=
  match x with
  | ok a => ok (f a)
  | err k => err k
  | panic s => panic s

instance : Monad Outcome where
  pure := ok
  bind := bind

def isOk : Outcome α → Bool | ok _ => true | _ => false
def isPanic : Outcome α → Bool | panic _ => true | _ => false

/-- Class of an outcome, used where the correspondence compares only acceptance. -/
def cls : Outcome α → String
  | ok _ => "ok" | err _ => "err" | panic _ => "panic"

@[simp] theorem bind_ok (a : α) (f : α → Outcome β) : bind (ok a) f = f a := rfl
@[simp] theorem bind_err (k : ErrKind) (f : α → Outcome β) : bind (err k : Outcome α) f = err k := rfl
@[simp] theorem bind_panic (s : String) (f : α → Outcome β) : bind (panic s : Outcome α) f = panic s := rfl
@[simp] theorem pure_eq (a : α) : (pure a : Outcome α) = ok a := rfl
@[simp] theorem bind_eq (x : Outcome α) (f : α → Outcome β) : (x >>= f) = bind x f := rfl

def ofOption (k : ErrKind) : Option α → Outcome α
  | some a => ok a
  | none => err k
end Outcome

/-! ### hex helpers (driver side only) -/

def hexDigit (n : Nat) : Char :=
  if n < 10 then Char.ofNat (48 + n) else Char.ofNat (87 + n)

def hexOfBytes (bs : Bytes) : String :=
  String.ofList (bs.flatMap fun b => [hexDigit (b.toNat / 16), hexDigit (b.toNat % 16)])

def hexVal (c : Char) : Option Nat :=
  if '0' ≤ c ∧ c ≤ '9' then some (c.toNat - 48)
  else if 'a' ≤ c ∧ c ≤ 'f' then some (c.toNat - 87)
  else if 'A' ≤ c ∧ c ≤ 'F' then some (c.toNat - 55)
  else none

def bytesOfHexAux : List Char → Option Bytes
  | [] => some []
  | [_] => none
  | a :: b :: rest =>
    match hexVal a, hexVal b, bytesOfHexAux rest with
    | some x, some y, some r => some ((x * 16 + y).toUInt8 :: r)
    | _, _, _ => none

def bytesOfHex (s : String) : Option Bytes :=
  if s = "-" then some [] else bytesOfHexAux s.toList

def hexOrDash (bs : Bytes) : String := if bs.isEmpty then "-" else hexOfBytes bs

end Candid
