import CandidModel.Types
import CandidModel.Gen.Keywords
/-
  Binding generators, the part shared by the JavaScript / TypeScript / Motoko / Rust back ends
  (`candid_parser/src/bindings/analysis.rs`): which definitions are emitted, in which order, and which
  are declared recursive first; and the JavaScript factory seen as a list of statements
  (`bindings/javascript.rs`: `pp_defs`, `pp_actor`, `compile`).
-/
namespace Candid.Bindgen
open Candid

inductive Err where
  | unbound | limit | unwrap
  deriving DecidableEq, Repr

abbrev R := Except Err

/-- traversal state of `chase_type`: names entered, names finished (in order of completion) -/
structure St where
  seen : List String
  res : List String
  deriving Repr

/-! ## `chase_type`: post-order list of the definitions reachable from a type -/

mutual
def chaseType (env : Env) : Nat → St → Ty → R St
  | fuel, st, .var x =>
    if st.seen.contains x then .ok st
    else match fuel with
      | 0 => .error .limit
      | fuel + 1 =>
        match env.find x with
        | none => .error .unbound
        | some t =>
          (chaseType env fuel { st with seen := x :: st.seen } t).map fun st' => { st' with res := st'.res ++ [x] }
  | fuel, st, .opt t | fuel, st, .vec t => chaseType env fuel st t
  | fuel, st, .record fs | fuel, st, .variant fs => chaseFields env fuel st fs
  | fuel, st, .func a r _ => (chaseTys env fuel st a).bind fun s => chaseTys env fuel s r
  | fuel, st, .service ms => chaseMeths env fuel st ms
  | fuel, st, .cls a t => (chaseTys env fuel st a).bind fun s => chaseType env fuel s t
  | _, st, _ => .ok st
termination_by fuel _ t => (fuel, sizeOf t)
def chaseFields (env : Env) : Nat → St → Fields → R St
  | _, st, .nil => .ok st
  | fuel, st, .cons _ t r => (chaseType env fuel st t).bind fun s => chaseFields env fuel s r
termination_by fuel _ fs => (fuel, sizeOf fs)
def chaseTys (env : Env) : Nat → St → Tys → R St
  | _, st, .nil => .ok st
  | fuel, st, .cons t r => (chaseType env fuel st t).bind fun s => chaseTys env fuel s r
termination_by fuel _ ts => (fuel, sizeOf ts)
def chaseMeths (env : Env) : Nat → St → Meths → R St
  | _, st, .nil => .ok st
  | fuel, st, .cons _ t r => (chaseType env fuel st t).bind fun s => chaseMeths env fuel s r
termination_by fuel _ ms => (fuel, sizeOf ms)
end

def chaseActor (env : Env) (actor : Ty) : R (List String) :=
  (chaseType env (env.length + 1) ⟨[], []⟩ actor).map (·.res)

def chaseTypes (env : Env) (tys : Tys) : R (List String) :=
  (chaseTys env (env.length + 1) ⟨[], []⟩ tys).map (·.res)

/-! ## `infer_rec`: a name first met by reference (before its own definition is passed) is recursive -/

mutual
def recGo : St → Ty → St
  | st, .var x => if st.seen.contains x then st else { seen := x :: st.seen, res := x :: st.res }
  | st, .opt t | st, .vec t => recGo st t
  | st, .record fs | st, .variant fs => recGoFields st fs
  | st, .func a r _ => recGoTys (recGoTys st a) r
  | st, .service ms => recGoMeths st ms
  | st, .cls a t => recGo (recGoTys st a) t
  | st, _ => st
def recGoFields : St → Fields → St
  | st, .nil => st
  | st, .cons _ t r => recGoFields (recGo st t) r
def recGoTys : St → Tys → St
  | st, .nil => st
  | st, .cons t r => recGoTys (recGo st t) r
def recGoMeths : St → Meths → St
  | st, .nil => st
  | st, .cons _ t r => recGoMeths (recGo st t) r
end

/-- `infer_rec`; `env.0.get(var).unwrap()` is a panic when a listed name is not bound -/
def inferRecFrom (env : Env) : St → List String → R St
  | st, [] => .ok st
  | st, x :: rest =>
    match env.find x with
    | none => .error .unwrap
    | some t =>
      let st' := recGo st t
      inferRecFrom env { st' with seen := x :: st'.seen } rest

def inferRec (env : Env) (defs : List String) : R (List String) :=
  (inferRecFrom env ⟨[], []⟩ defs).map (·.res)

/-! ## the JavaScript factory as statements -/

inductive Stmt where
  | cell (x : String)               -- const x = IDL.Rec();
  | fill (x : String) (t : Ty)      -- x.fill(<t>);
  | const (x : String) (t : Ty)     -- const x = <t>;
  | ret (ts : List Ty)              -- return <t>;   /  return [<ts>];
  deriving Repr

def ppBody (env : Env) (recs : List String) : List String → R (List Stmt)
  | [] => .ok []
  | x :: rest =>
    match env.find x with
    | none => .error .unwrap          -- `env.find_type(id).unwrap()`
    | some t => (ppBody env recs rest).map fun r => (if recs.contains x then Stmt.fill x t else Stmt.const x t) :: r

def ppDefs (env : Env) (defs recs : List String) : R (List Stmt) :=
  (ppBody env recs defs).map fun body => recs.map Stmt.cell ++ body

/-- init args and service of a main actor -/
def splitActor : Ty → Tys × Ty
  | .cls args t => (args, t)
  | t => (Tys.nil, t)

/-- `compile` with a main actor: statements of `idlFactory` and of `init` -/
def jsFactory (env : Env) (actor : Ty) : R (List Stmt × List Stmt) :=
  (chaseActor env actor).bind fun defs =>
  (inferRec env defs).bind fun recs =>
  (ppDefs env defs recs).bind fun body =>
  (chaseTypes env (splitActor actor).1).bind fun idefs =>
  (inferRec env idefs).bind fun irecs =>
  (ppDefs env idefs irecs).map fun ibody =>
  (body ++ [.ret [(splitActor actor).2]], ibody ++ [.ret (splitActor actor).1.toList])

/-! ## scoping of the emitted statements (what the JavaScript engine checks: temporal dead zone, redeclaration) -/

mutual
def varsOf : Ty → List String
  | .var x => [x]
  | .opt t | .vec t => varsOf t
  | .record fs | .variant fs => varsOfFields fs
  | .func a r _ => varsOfTys a ++ varsOfTys r
  | .service ms => varsOfMeths ms
  | .cls a t => varsOfTys a ++ varsOf t
  | _ => []
def varsOfFields : Fields → List String
  | .nil => []
  | .cons _ t r => varsOf t ++ varsOfFields r
def varsOfTys : Tys → List String
  | .nil => []
  | .cons t r => varsOf t ++ varsOfTys r
def varsOfMeths : Meths → List String
  | .nil => []
  | .cons _ t r => varsOf t ++ varsOfMeths r
end

/-- run the statements against the set of declared names: every name is declared once, every use comes
after the declaration, `fill` only on a `Rec` -/
def wellScoped : List String → List String → List Stmt → Bool
  | _, _, [] => true
  | declared, recs, .cell x :: rest => !declared.contains x && wellScoped (x :: declared) (x :: recs) rest
  | declared, recs, .fill x t :: rest =>
    recs.contains x && (varsOf t).all declared.contains && wellScoped declared recs rest
  | declared, recs, .const x t :: rest =>
    !declared.contains x && (varsOf t).all declared.contains && wellScoped (x :: declared) recs rest
  | declared, recs, .ret ts :: rest => ts.all (fun t => (varsOf t).all declared.contains) && wellScoped declared recs rest

def trimUnderscores (s : String) : String := String.ofList (s.toList.reverse.dropWhile (· = '_')).reverse

/-- `ident`: a reserved word (table extracted from /repo), also when followed by underscores, and the
factory parameter `IDL` get one more trailing underscore.  The two flags are read off the source by the
translator, so the model follows what `ident` does now. -/
def jsIdent (s : String) : String :=
  let stem := if Gen.jsIdentTrims then trimUnderscores s else s
  if Gen.jsKeywords.contains stem || (Gen.jsIdentEscapesIDL && stem == "IDL") then s ++ "_" else s

/-! ## Motoko: spelling of names (`bindings/motoko.rs`, `escape`) -/

def isIdStart (c : Char) : Bool := ('a' ≤ c ∧ c ≤ 'z') ∨ ('A' ≤ c ∧ c ≤ 'Z') ∨ c = '_'
def isIdChar (c : Char) : Bool := isIdStart c ∨ ('0' ≤ c ∧ c ≤ '9')
def isValidAsId : List Char → Bool
  | [] => false
  | c :: r => isIdStart c && r.all isIdChar

/-- `escape(id, false)`: keywords and identifiers ending in `_` get one more `_`; anything that is not an
identifier is replaced by its hash between underscores.  Whether the identifier test comes before the
keyword lookup is read off the source by the translator (`async*` is in the table but is no identifier). -/
def decDigits (n : Nat) : List Char :=
  if n < 10 then [Char.ofNat (48 + n)] else decDigits (n / 10) ++ [Char.ofNat (48 + n % 10)]
termination_by n
decreasing_by omega

def moEscape (s : String) : String :=
  let hashed := "_" ++ String.ofList (decDigits (idlHash s)) ++ "_"
  if Gen.moEscapeIdFirst then
    if isValidAsId s.toList then
      (if Gen.motokoKeywords.contains s || s.toList.getLast? = some '_' then s ++ "_" else s)
    else hashed
  else if Gen.motokoKeywords.contains s then s ++ "_"
  else if isValidAsId s.toList then (if s.toList.getLast? = some '_' then s ++ "_" else s)
  else hashed

/-! ## TypeScript: doc comment lines (`escape_doc_comment`: `line.replace("*/", "*\\/")`) -/

def escapeDocLine : List Char → List Char
  | '*' :: '/' :: r => '*' :: '\\' :: '/' :: escapeDocLine r
  | c :: r => c :: escapeDocLine r
  | [] => []

/-- does the text contain the two characters that end a block comment? -/
def hasCommentEnd : List Char → Bool
  | '*' :: '/' :: _ => true
  | _ :: r => hasCommentEnd r
  | [] => false

end Candid.Bindgen
