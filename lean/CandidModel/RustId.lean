import CandidModel.Types
import CandidModel.Gen.Keywords
/-
  Rust binding, identifiers (`bindings/rust/identifier.rs`): case conversion, keyword handling, and when a
  `#[serde(rename = …)]` is emitted (`bindings/rust.rs`, `pp_label`); and the label the derive macro computes
  for an emitted field (`candid_derive/src/derive.rs`: the rename if present, else the identifier without `r#`).
-/
namespace Candid.RustId
open Candid

inductive Case where
  | snake | upperCamel
  deriving DecidableEq, Repr

def isAsciiUpper (c : Char) : Bool := 'A' ≤ c ∧ c ≤ 'Z'
def isAsciiLower (c : Char) : Bool := 'a' ≤ c ∧ c ≤ 'z'
def isAsciiAlpha (c : Char) : Bool := isAsciiUpper c || isAsciiLower c
def isAsciiDigit (c : Char) : Bool := '0' ≤ c ∧ c ≤ '9'
def isAsciiAlnum (c : Char) : Bool := isAsciiAlpha c || isAsciiDigit c
def toLower (c : Char) : Char := if isAsciiUpper c then Char.ofNat (c.toNat + 32) else c
def toUpper (c : Char) : Char := if isAsciiLower c then Char.ofNat (c.toNat - 32) else c

/-- `to_snake_case`: an underscore before an upper-case letter unless at the start or after an underscore -/
def snakeGo : List Char → Bool → Bool → List Char
  | [], _, _ => []
  | c :: r, first, prevUnderscore =>
    if isAsciiUpper c then
      (if !first && !prevUnderscore then ['_'] else []) ++ toLower c :: snakeGo r false false
    else c :: snakeGo r false (c = '_')

def toSnake (s : List Char) : List Char := snakeGo s true true

/-- `to_upper_camel_case`.  `i == s.len() - 1` in the Rust is "this is the last character". -/
def camelGo : List Char → Bool → Nat → List Char
  | [], _, _ => []
  | c :: r, leading, pending =>
    if c = '_' then
      if r.isEmpty then List.replicate (pending + 1) '_'
      else camelGo r leading (pending + 1)
    else if leading then List.replicate pending '_' ++ toUpper c :: camelGo r false 0
    else if pending > 0 then toUpper c :: camelGo r false 0
    else c :: camelGo r false 0

def toUpperCamel (s : List Char) : List Char := camelGo s true 0

def isPlainId (s : List Char) : Bool :=
  match s with
  | [] => false
  | c :: _ => (isAsciiAlpha c || c = '_') && s.all fun c => isAsciiAlnum c || c = '_'

def decDigits (n : Nat) : List Char :=
  if n < 10 then [Char.ofNat (48 + n)] else decDigits (n / 10) ++ [Char.ofNat (48 + n % 10)]
termination_by n
decreasing_by omega

/-- `to_identifier_case`: the identifier as written in the Rust source, and whether it counts as renamed -/
def toIdentifierCase (id : String) (case : Case) : String × Bool :=
  if !isPlainId id.toList then ("_" ++ String.ofList (decDigits (idlHash id)) ++ "_", true)
  else
    let processed := String.ofList (match case with | .snake => toSnake id.toList | .upperCamel => toUpperCamel id.toList)
    let modified := processed != id
    if Gen.rustKeywords.contains processed then ("r#" ++ processed, modified)
    else if Gen.rustUnusableRaw.contains processed then (processed ++ "_", Gen.rustUnusableRawRenamed || modified)
    else (processed, modified)

/-- the label the derive macro gives a field: the serde rename if there is one, else the identifier without `r#` -/
def deriveLabel (ident : String) (rename : Option String) : String :=
  match rename with
  | some r => r
  | none => match ident.toList with
    | 'r' :: '#' :: rest => String.ofList rest
    | _ => ident

/-- what `pp_label` emits for a named label: the identifier and the rename attribute -/
def emitField (id : String) (case : Case) : String × Option String :=
  let (ident, renamed) := toIdentifierCase id case
  (ident, if renamed then some id else none)

/-- the identifier as rustc sees it: a raw identifier is the same identifier as the word after `r#` -/
def unraw (ident : String) : String :=
  match ident.toList with
  | 'r' :: '#' :: rest => String.ofList rest
  | _ => ident

/-- `while !scope.insert(unraw name) { name.push('_') }` (`pp_label`): an identifier already given to an earlier field
of the same record / variant gets trailing underscores until it is new; the loop ends within `taken.length + 1` rounds -/
def freshen : Nat → List String → String → String
  | 0, _, n => n
  | k + 1, taken, n => if unraw n ∈ taken then freshen k taken (n ++ "_") else n

/-- the named fields of one record / the tags of one variant, in the order they are printed: identifier and rename.
A field whose identifier had to be changed carries a rename with its label. -/
def emitFields (case : Case) : List String → List String → List (String × Option String)
  | [], _ => []
  | id :: rest, taken =>
    let ident := (emitField id case).1
    let ident' := freshen (taken.length + 1) taken ident
    let rename' := if ident' = ident then (emitField id case).2 else some id
    (ident', rename') :: emitFields case rest (unraw ident' :: taken)

end Candid.RustId
