import CandidModel.Basic
import CandidModel.Gen.Consts
/-
  Candid types, labels, environments and untyped values (mirror of `types/internal.rs` `TypeInner`,
  `Label`, `TypeEnv`, `types/value.rs` `IDLValue`), plus the spec's field hash.
-/
namespace Candid

inductive Prim where
  | null | bool | nat | int | nat8 | nat16 | nat32 | nat64 | int8 | int16 | int32 | int64
  | float32 | float64 | text | reserved | empty
  deriving DecidableEq, Repr, Inhabited

inductive FuncMode where
  | oneway | query | compositeQuery
  deriving DecidableEq, Repr

/-- `idl_hash` (`candid/src/lib.rs:310`, copy in `candid_derive/src/lib.rs:40`): u32 wrapping fold. -/
def idlHashBytes (bs : Bytes) : UInt32 :=
  bs.foldl (fun s c => s * Gen.idlHashMul32 + c.toUInt32) 0

def idlHash (s : String) : Nat := (idlHashBytes s.toUTF8.toList).toNat

inductive Label where
  | id (n : Nat)
  | named (s : String)
  | unnamed (n : Nat)
  deriving DecidableEq, Repr, Inhabited

/-- `Label::get_id`; every comparison of labels in the Rust goes through it. -/
def Label.getId : Label → Nat
  | .id n => n
  | .named s => idlHash s
  | .unnamed n => n

mutual
inductive Ty where
  | prim (p : Prim)
  | principal
  | var (x : String)
  | knot (k : Nat)
  | unknown
  | future
  | opt (t : Ty)
  | vec (t : Ty)
  | record (fs : Fields)
  | variant (fs : Fields)
  | func (args : Tys) (rets : Tys) (modes : List FuncMode)
  | service (ms : Meths)
  | cls (args : Tys) (ret : Ty)
inductive Fields where
  | nil
  | cons (l : Label) (t : Ty) (rest : Fields)
inductive Tys where
  | nil
  | cons (t : Ty) (rest : Tys)
inductive Meths where
  | nil
  | cons (name : String) (t : Ty) (rest : Meths)
end

deriving instance DecidableEq for Ty, Fields, Tys, Meths
deriving instance Repr for Ty, Fields, Tys, Meths
instance : Inhabited Ty := ⟨.prim .null⟩

def Fields.toList : Fields → List (Label × Ty)
  | .nil => []
  | .cons l t r => (l, t) :: r.toList
def Fields.ofList : List (Label × Ty) → Fields
  | [] => .nil
  | (l, t) :: r => .cons l t (Fields.ofList r)
def Tys.toList : Tys → List Ty
  | .nil => []
  | .cons t r => t :: r.toList
def Tys.ofList : List Ty → Tys
  | [] => .nil
  | t :: r => .cons t (Tys.ofList r)
def Meths.toList : Meths → List (String × Ty)
  | .nil => []
  | .cons n t r => (n, t) :: r.toList
def Meths.ofList : List (String × Ty) → Meths
  | [] => .nil
  | (n, t) :: r => .cons n t (Meths.ofList r)

def Fields.length : Fields → Nat
  | .nil => 0
  | .cons _ _ r => r.length + 1
def Tys.length : Tys → Nat
  | .nil => 0
  | .cons _ r => r.length + 1

mutual
def Ty.size : Ty → Nat
  | .opt t | .vec t => t.size + 1
  | .record fs | .variant fs => fs.size + 1
  | .func a r _ => a.size + r.size + 1
  | .service ms => ms.size + 1
  | .cls a t => a.size + t.size + 1
  | _ => 1
def Fields.size : Fields → Nat
  | .nil => 0
  | .cons _ t r => t.size + r.size + 1
def Tys.size : Tys → Nat
  | .nil => 0
  | .cons t r => t.size + r.size + 1
def Meths.size : Meths → Nat
  | .nil => 0
  | .cons _ t r => t.size + r.size + 1
end

/-- `TypeEnv`: an association list; the Rust uses a `BTreeMap<String, Type>` (first binding wins here,
and environments built by the protocol never repeat a key). -/
abbrev Env := List (String × Ty)

def Env.find (env : Env) (x : String) : Option Ty :=
  match env with
  | [] => none
  | (k, t) :: r => if k = x then some t else Env.find r x

/-- `TypeEnv::trace_type` with an explicit step budget (the Rust recursion is stopped by the stack
guard). `none` = unbound name or budget exhausted. -/
def Env.trace (env : Env) : Nat → Ty → Option Ty
  | 0, _ => none
  | n + 1, .var x => match env.find x with
    | none => none
    | some t => Env.trace env n t
  | _, t => some t

/-! ### untyped values (`IDLValue`) -/

inductive Val where
  | null | none | reserved
  | bool (b : Bool)
  | nat (n : Nat) | int (i : Int)
  | nat8 (n : Nat) | nat16 (n : Nat) | nat32 (n : Nat) | nat64 (n : Nat)
  | int8 (i : Int) | int16 (i : Int) | int32 (i : Int) | int64 (i : Int)
  | float32 (bits : Nat) | float64 (bits : Nat)
  | text (s : String)
  | number (s : String)
  | principal (b : Bytes) | service (b : Bytes) | func (b : Bytes) (meth : String)
  | blob (b : Bytes)
  | opt (v : Val)
  | vec (vs : List Val)
  | record (fs : List (Label × Val))
  | variant (l : Label) (v : Val) (idx : Nat)
  deriving Repr, Inhabited

end Candid
