import CandidModel.Bindgen
import CandidModel.Proofs.Check
/- helper lemmas about the binding-generator analysis: `infer_rec` and `chase_type` against the scoping of the emitted statements -/
namespace Candid.Bindgen
open Candid

/-- what one `go` step of `infer_rec` does to the state -/
structure GoSpec (st st' : St) (vars : List String) : Prop where
  seen_mono : ∀ v ∈ st.seen, v ∈ st'.seen
  res_mono : ∀ v ∈ st.res, v ∈ st'.res
  vars_seen : ∀ v ∈ vars, v ∈ st'.seen
  new_seen : ∀ v ∈ st'.seen, v ∈ st.seen ∨ v ∈ st'.res
  new_res : ∀ v ∈ st'.res, v ∈ st.res ∨ (v ∉ st.seen ∧ v ∈ st'.seen)
  nodup : st.res.Nodup → (∀ v ∈ st.res, v ∈ st.seen) → st'.res.Nodup

theorem GoSpec.refl (st : St) : GoSpec st st [] :=
  ⟨fun _ h => h, fun _ h => h, fun _ h => by simp at h, fun _ h => Or.inl h, fun _ h => Or.inl h, fun h _ => h⟩

theorem GoSpec.trans {a b c : St} {v1 v2 : List String} (h1 : GoSpec a b v1) (h2 : GoSpec b c v2) :
    GoSpec a c (v1 ++ v2) where
  seen_mono := fun v h => h2.seen_mono v (h1.seen_mono v h)
  res_mono := fun v h => h2.res_mono v (h1.res_mono v h)
  vars_seen := fun v h => by
    rcases List.mem_append.mp h with h | h
    · exact h2.seen_mono v (h1.vars_seen v h)
    · exact h2.vars_seen v h
  new_seen := fun v h => by
    rcases h2.new_seen v h with h' | h'
    · rcases h1.new_seen v h' with h'' | h''
      · exact Or.inl h''
      · exact Or.inr (h2.res_mono v h'')
    · exact Or.inr h'
  new_res := fun v h => by
    rcases h2.new_res v h with h' | ⟨h', h''⟩
    · rcases h1.new_res v h' with h3 | ⟨h3, h4⟩
      · exact Or.inl h3
      · exact Or.inr ⟨h3, h2.seen_mono v h4⟩
    · exact Or.inr ⟨fun hs => h' (h1.seen_mono v hs), h''⟩
  nodup := fun hn hs => h2.nodup (h1.nodup hn hs) (fun v hv => by
    rcases h1.new_res v hv with h | ⟨_, h⟩
    · exact h1.seen_mono v (hs v h)
    · exact h)

mutual
theorem recGo_spec : ∀ (t : Ty) (st : St), GoSpec st (recGo st t) (varsOf t)
  | .var x, st => by
    simp only [recGo, varsOf]
    split
    · rename_i h
      have hx : x ∈ st.seen := by simpa using h
      exact ⟨fun _ h => h, fun _ h => h, fun v hv => by simp at hv; subst hv; exact hx, fun _ h => Or.inl h,
        fun _ h => Or.inl h, fun h _ => h⟩
    · rename_i h
      have hx : x ∉ st.seen := by simpa using h
      refine ⟨fun v hv => by simp [hv], fun v hv => by simp [hv], fun v hv => by simp at hv; simp [hv], ?_, ?_, ?_⟩
      · intro v hv; simp only [List.mem_cons] at hv ⊢
        rcases hv with rfl | hv
        · exact Or.inr (Or.inl rfl)
        · exact Or.inl hv
      · intro v hv; simp only [List.mem_cons] at hv ⊢
        rcases hv with rfl | hv
        · exact Or.inr ⟨hx, Or.inl rfl⟩
        · exact Or.inl hv
      · intro hn hs
        exact List.nodup_cons.mpr ⟨fun h => hx (hs x h), hn⟩
  | .opt t, st => by simp only [recGo, varsOf]; exact recGo_spec t st
  | .vec t, st => by simp only [recGo, varsOf]; exact recGo_spec t st
  | .record fs, st => by simp only [recGo, varsOf]; exact recGoFields_spec fs st
  | .variant fs, st => by simp only [recGo, varsOf]; exact recGoFields_spec fs st
  | .func a r _, st => by
    simp only [recGo, varsOf]; exact (recGoTys_spec a st).trans (recGoTys_spec r _)
  | .service ms, st => by simp only [recGo, varsOf]; exact recGoMeths_spec ms st
  | .cls a t, st => by
    simp only [recGo, varsOf]; exact (recGoTys_spec a st).trans (recGo_spec t _)
  | .prim _, st => by simp only [recGo, varsOf]; exact GoSpec.refl st
  | .principal, st => by simp only [recGo, varsOf]; exact GoSpec.refl st
  | .knot _, st => by simp only [recGo, varsOf]; exact GoSpec.refl st
  | .unknown, st => by simp only [recGo, varsOf]; exact GoSpec.refl st
  | .future, st => by simp only [recGo, varsOf]; exact GoSpec.refl st
theorem recGoFields_spec : ∀ (fs : Fields) (st : St), GoSpec st (recGoFields st fs) (varsOfFields fs)
  | .nil, st => by simp only [recGoFields, varsOfFields]; exact GoSpec.refl st
  | .cons _ t r, st => by
    simp only [recGoFields, varsOfFields]; exact (recGo_spec t st).trans (recGoFields_spec r _)
theorem recGoTys_spec : ∀ (ts : Tys) (st : St), GoSpec st (recGoTys st ts) (varsOfTys ts)
  | .nil, st => by simp only [recGoTys, varsOfTys]; exact GoSpec.refl st
  | .cons t r, st => by
    simp only [recGoTys, varsOfTys]; exact (recGo_spec t st).trans (recGoTys_spec r _)
theorem recGoMeths_spec : ∀ (ms : Meths) (st : St), GoSpec st (recGoMeths st ms) (varsOfMeths ms)
  | .nil, st => by simp only [recGoMeths, varsOfMeths]; exact GoSpec.refl st
  | .cons _ t r, st => by
    simp only [recGoMeths, varsOfMeths]; exact (recGo_spec t st).trans (recGoMeths_spec r _)
end


/-- between two definitions: every name met so far is a definition already passed or is recursive -/
structure J (st : St) (pre : List String) : Prop where
  seen : ∀ v ∈ st.seen, v ∈ pre ∨ v ∈ st.res
  nodup : st.res.Nodup
  sub : ∀ v ∈ st.res, v ∈ st.seen

theorem inferRecFrom_spec (env : Env) : ∀ (defs : List String) (st st' : St) (pre : List String),
    inferRecFrom env st defs = .ok st' → J st pre →
      J st' (pre ++ defs) ∧ (∀ v ∈ st.res, v ∈ st'.res) ∧
      ∀ a x b, defs = a ++ x :: b → ∃ t, env.find x = some t ∧ ∀ v ∈ varsOf t, v ∈ pre ++ a ∨ v ∈ st'.res := by
  intro defs
  induction defs with
  | nil =>
    intro st st' pre h hj
    simp only [inferRecFrom, Except.ok.injEq] at h; subst h
    refine ⟨by simpa using hj, fun _ h => h, ?_⟩
    intro a x b hab; cases a <;> simp at hab
  | cons d rest ih =>
    intro st st' pre h hj
    simp only [inferRecFrom] at h
    cases hf : env.find d with
    | none => simp [hf] at h
    | some t =>
      simp only [hf] at h
      have hg := recGo_spec t st
      let st1 := recGo st t
      have hj1 : J { st1 with seen := d :: st1.seen } (pre ++ [d]) := by
        refine ⟨?_, hg.nodup hj.nodup hj.sub, ?_⟩
        · intro v hv
          simp only [List.mem_cons] at hv
          rcases hv with rfl | hv
          · exact Or.inl (by simp)
          · rcases hg.new_seen v hv with h' | h'
            · rcases hj.seen v h' with h'' | h''
              · exact Or.inl (by simp [h''])
              · exact Or.inr (hg.res_mono v h'')
            · exact Or.inr h'
        · intro v hv
          simp only [List.mem_cons]
          rcases hg.new_res v hv with h' | ⟨_, h'⟩
          · exact Or.inr (hg.seen_mono v (hj.sub v h'))
          · exact Or.inr h'
      obtain ⟨hj', hmono, hrest⟩ := ih _ st' (pre ++ [d]) h hj1
      refine ⟨by simpa using hj', fun v hv => hmono v (hg.res_mono v hv), ?_⟩
      intro a x b hab
      cases a with
      | nil =>
        simp only [List.nil_append, List.cons.injEq] at hab
        obtain ⟨rfl, rfl⟩ := hab
        refine ⟨t, hf, ?_⟩
        intro v hv
        have hvs := hg.vars_seen v hv
        rcases hg.new_seen v hvs with h' | h'
        · rcases hj.seen v h' with h'' | h''
          · exact Or.inl (by simp [h''])
          · exact Or.inr (hmono v (hg.res_mono v h''))
        · exact Or.inr (hmono v h')
      | cons a0 a' =>
        simp only [List.cons_append, List.cons.injEq] at hab
        obtain ⟨rfl, rfl⟩ := hab
        obtain ⟨t', hf', hv'⟩ := hrest a' x b rfl
        exact ⟨t', hf', fun v hv => by
          rcases hv' v hv with h' | h'
          · exact Or.inl (by simpa using h')
          · exact Or.inr h'⟩

theorem all_contains_iff (l declared : List String) : l.all declared.contains = true ↔ ∀ v ∈ l, v ∈ declared := by
  simp [List.all_eq_true]

/-- the body of `pp_defs` is well scoped, given where the names used by each definition come from -/
theorem ws_body (env : Env) (recs recsSet : List String) (hrs : ∀ v ∈ recs, v ∈ recsSet) :
    ∀ (defs pre declared : List String) (stmts tail : List Stmt),
      (∀ v, v ∈ declared ↔ (v ∈ recs ∨ v ∈ pre)) → defs.Nodup → (∀ x ∈ defs, x ∉ pre) →
      (∀ a x b, defs = a ++ x :: b → ∃ t, env.find x = some t ∧ ∀ v ∈ varsOf t, v ∈ pre ++ a ∨ v ∈ recs) →
      ppBody env recs defs = .ok stmts →
      (∀ declared', (∀ v, v ∈ declared' ↔ (v ∈ recs ∨ v ∈ pre ++ defs)) → wellScoped declared' recsSet tail = true) →
      wellScoped declared recsSet (stmts ++ tail) = true := by
  intro defs
  induction defs with
  | nil =>
    intro pre declared stmts tail hd _ _ _ hb ht
    simp only [ppBody, Except.ok.injEq] at hb; subst hb
    simpa using ht declared (by simpa using hd)
  | cons x rest ih =>
    intro pre declared stmts tail hd hnd hpre hvars hb ht
    simp only [ppBody] at hb
    obtain ⟨t, hf, hv⟩ := hvars [] x rest rfl
    simp only [hf] at hb
    cases hr : ppBody env recs rest with
    | error e => rw [hr] at hb; simp [Except.map] at hb
    | ok r =>
      rw [hr] at hb; simp only [Except.map, Except.ok.injEq] at hb; subst hb
      rw [List.nodup_cons] at hnd
      have hvdecl : ∀ v ∈ varsOf t, v ∈ declared := by
        intro v hvv
        rcases hv v hvv with h | h
        · exact (hd v).mpr (Or.inr (by simpa using h))
        · exact (hd v).mpr (Or.inl h)
      have hvars' : ∀ a y b, rest = a ++ y :: b → ∃ t, env.find y = some t ∧ ∀ v ∈ varsOf t, v ∈ (pre ++ [x]) ++ a ∨ v ∈ recs := by
        intro a y b hab
        obtain ⟨t', hf', hv'⟩ := hvars (x :: a) y b (by simp [hab])
        exact ⟨t', hf', fun v hvv => by simpa using hv' v hvv⟩
      have hpre' : ∀ y ∈ rest, y ∉ pre ++ [x] := by
        intro y hy hc
        simp only [List.mem_append, List.mem_singleton] at hc
        rcases hc with hc | hc
        · exact hpre y (by simp [hy]) hc
        · subst hc; exact hnd.1 hy
      have ht' : ∀ declared', (∀ v, v ∈ declared' ↔ (v ∈ recs ∨ v ∈ (pre ++ [x]) ++ rest)) → wellScoped declared' recsSet tail = true := by
        intro d' hd'; exact ht d' (by intro v; rw [hd' v]; simp)
      by_cases hx : recs.contains x = true
      · have hxr : x ∈ recs := by simpa using hx
        simp only [hx, if_true, List.cons_append, wellScoped, Bool.and_eq_true]
        refine ⟨⟨by simpa using hrs x hxr, (all_contains_iff _ _).mpr hvdecl⟩, ?_⟩
        apply ih (pre ++ [x]) declared r tail _ hnd.2 hpre' hvars' hr ht'
        intro v; rw [hd v]
        constructor
        · rintro (h | h)
          · exact Or.inl h
          · exact Or.inr (by simp [h])
        · rintro (h | h)
          · exact Or.inl h
          · simp only [List.mem_append, List.mem_singleton] at h
            rcases h with h | h
            · exact Or.inr h
            · subst h; exact Or.inl hxr
      · have hxr : x ∉ recs := by simpa using hx
        have hx' : recs.contains x = false := by simpa using hx
        simp only [hx', Bool.false_eq_true, if_false, List.cons_append, wellScoped, Bool.and_eq_true]
        have hxd : x ∉ declared := by
          intro hc
          rcases (hd x).mp hc with h | h
          · exact hxr h
          · exact hpre x (by simp) h
        refine ⟨⟨by simpa using hxd, (all_contains_iff _ _).mpr hvdecl⟩, ?_⟩
        apply ih (pre ++ [x]) (x :: declared) r tail _ hnd.2 hpre' hvars' hr ht'
        intro v
        simp only [List.mem_cons, List.mem_append, List.mem_singleton, List.not_mem_nil, or_false, hd v]
        constructor
        · rintro (h | h | h)
          · exact Or.inr (Or.inr h)
          · exact Or.inl h
          · exact Or.inr (Or.inl h)
        · rintro (h | h | h)
          · exact Or.inr (Or.inl h)
          · exact Or.inr (Or.inr h)
          · exact Or.inl h


theorem bind_ok {α β : Type} (x : R α) (f : α → R β) (b : β) :
    x.bind f = .ok b ↔ ∃ a, x = .ok a ∧ f a = .ok b := by
  cases x <;> simp [Except.bind]

theorem map_ok {α β : Type} (x : R α) (f : α → β) (b : β) : x.map f = .ok b ↔ ∃ a, x = .ok a ∧ f a = b := by
  cases x <;> simp [Except.map]

/-- what a call of `chase_type` does to the state -/
structure ChaseSpec (env : Env) (st st' : St) (vars : List String) : Prop where
  seen_mono : ∀ v ∈ st.seen, v ∈ st'.seen
  res_mono : ∀ v ∈ st.res, v ∈ st'.res
  vars_seen : ∀ v ∈ vars, v ∈ st'.seen
  new_done : ∀ v ∈ st'.seen, v ∈ st.seen ∨ v ∈ st'.res
  new_res : ∀ x ∈ st'.res, x ∈ st.res ∨
    (x ∉ st.seen ∧ x ∈ st'.seen ∧ ∃ u, env.find x = some u ∧ ∀ v ∈ varsOf u, v ∈ st'.seen)
  nodup : st.res.Nodup → (∀ v ∈ st.res, v ∈ st.seen) → st'.res.Nodup

theorem ChaseSpec.refl (env : Env) (st : St) : ChaseSpec env st st [] :=
  ⟨fun _ h => h, fun _ h => h, fun _ h => by simp at h, fun _ h => Or.inl h, fun _ h => Or.inl h, fun h _ => h⟩

theorem ChaseSpec.trans {env : Env} {a b c : St} {v1 v2 : List String} (h1 : ChaseSpec env a b v1)
    (h2 : ChaseSpec env b c v2) : ChaseSpec env a c (v1 ++ v2) where
  seen_mono := fun v h => h2.seen_mono v (h1.seen_mono v h)
  res_mono := fun v h => h2.res_mono v (h1.res_mono v h)
  vars_seen := fun v h => by
    rcases List.mem_append.mp h with h | h
    · exact h2.seen_mono v (h1.vars_seen v h)
    · exact h2.vars_seen v h
  new_done := fun v h => by
    rcases h2.new_done v h with h' | h'
    · rcases h1.new_done v h' with h'' | h''
      · exact Or.inl h''
      · exact Or.inr (h2.res_mono v h'')
    · exact Or.inr h'
  new_res := fun x h => by
    rcases h2.new_res x h with h' | ⟨h', h'', u, hu, hv⟩
    · rcases h1.new_res x h' with h3 | ⟨h3, h4, u, hu, hv⟩
      · exact Or.inl h3
      · exact Or.inr ⟨h3, h2.seen_mono x h4, u, hu, fun v hvv => h2.seen_mono v (hv v hvv)⟩
    · exact Or.inr ⟨fun hs => h' (h1.seen_mono x hs), h'', u, hu, hv⟩
  nodup := fun hn hs => h2.nodup (h1.nodup hn hs) (fun v hv => by
    rcases h1.new_res v hv with h | ⟨_, h, _⟩
    · exact h1.seen_mono v (hs v h)
    · exact h)

mutual
theorem chaseType_spec (env : Env) : ∀ (fuel : Nat) (t : Ty) (st st' : St),
    chaseType env fuel st t = .ok st' → ChaseSpec env st st' (varsOf t)
  | fuel, .var x, st, st', h => by
    unfold chaseType at h
    simp only [varsOf]
    split at h
    · rename_i hx
      have hx : x ∈ st.seen := by simpa using hx
      simp only [Except.ok.injEq] at h; subst h
      exact ⟨fun _ h => h, fun _ h => h, fun v hv => by simp at hv; subst hv; exact hx, fun _ h => Or.inl h,
        fun _ h => Or.inl h, fun h _ => h⟩
    · rename_i hx
      have hx : x ∉ st.seen := by simpa using hx
      cases fuel with
      | zero => simp at h
      | succ f =>
        simp only at h
        cases hf : env.find x with
        | none => simp [hf] at h
        | some t =>
          simp only [hf] at h
          obtain ⟨st1, h1, h2⟩ := (map_ok _ _ _).mp h
          subst h2
          have ih := chaseType_spec env f t _ st1 h1
          refine ⟨?_, ?_, ?_, ?_, ?_, ?_⟩
          · intro v hv; exact ih.seen_mono v (by simp [hv])
          · intro v hv; simp only [List.mem_append]; exact Or.inl (ih.res_mono v hv)
          · intro v hv; simp at hv; subst hv; exact ih.seen_mono v (by simp)
          · intro v hv
            simp only [List.mem_append, List.mem_singleton]
            rcases ih.new_done v hv with h' | h'
            · simp only [List.mem_cons] at h'
              rcases h' with rfl | h'
              · exact Or.inr (Or.inr rfl)
              · exact Or.inl h'
            · exact Or.inr (Or.inl h')
          · intro y hy
            simp only [List.mem_append, List.mem_singleton] at hy
            rcases hy with hy | rfl
            · rcases ih.new_res y hy with h' | ⟨h', h'', u, hu, hv⟩
              · exact Or.inl h'
              · exact Or.inr ⟨fun hs => h' (by simp [hs]), h'', u, hu, hv⟩
            · exact Or.inr ⟨hx, ih.seen_mono y (by simp), t, hf, ih.vars_seen⟩
          · intro hn hs
            have hn1 := ih.nodup hn (fun v hv => by simp [hs v hv])
            rw [List.nodup_append]
            refine ⟨hn1, by simp, ?_⟩
            intro a ha b hb
            simp only [List.mem_singleton] at hb; subst hb
            intro hab; subst hab
            rcases ih.new_res a ha with h' | ⟨h', _⟩
            · exact hx (hs a h')
            · exact h' (by simp)
  | fuel, .opt t, st, st', h => by
    rw [chaseType] at h; simp only [varsOf]; exact chaseType_spec env fuel t st st' h
  | fuel, .vec t, st, st', h => by
    rw [chaseType] at h; simp only [varsOf]; exact chaseType_spec env fuel t st st' h
  | fuel, .record fs, st, st', h => by
    rw [chaseType] at h; simp only [varsOf]; exact chaseFields_spec env fuel fs st st' h
  | fuel, .variant fs, st, st', h => by
    rw [chaseType] at h; simp only [varsOf]; exact chaseFields_spec env fuel fs st st' h
  | fuel, .func a r _, st, st', h => by
    rw [chaseType] at h; simp only [varsOf]
    obtain ⟨s1, h1, h2⟩ := (bind_ok _ _ _).mp h
    exact (chaseTys_spec env fuel a st s1 h1).trans (chaseTys_spec env fuel r s1 st' h2)
  | fuel, .service ms, st, st', h => by
    rw [chaseType] at h; simp only [varsOf]; exact chaseMeths_spec env fuel ms st st' h
  | fuel, .cls a t, st, st', h => by
    rw [chaseType] at h; simp only [varsOf]
    obtain ⟨s1, h1, h2⟩ := (bind_ok _ _ _).mp h
    exact (chaseTys_spec env fuel a st s1 h1).trans (chaseType_spec env fuel t s1 st' h2)
  | _, .prim _, st, st', h => by
    simp only [chaseType, Except.ok.injEq] at h; subst h; simp only [varsOf]; exact ChaseSpec.refl env st
  | _, .principal, st, st', h => by
    simp only [chaseType, Except.ok.injEq] at h; subst h; simp only [varsOf]; exact ChaseSpec.refl env st
  | _, .knot _, st, st', h => by
    simp only [chaseType, Except.ok.injEq] at h; subst h; simp only [varsOf]; exact ChaseSpec.refl env st
  | _, .unknown, st, st', h => by
    simp only [chaseType, Except.ok.injEq] at h; subst h; simp only [varsOf]; exact ChaseSpec.refl env st
  | _, .future, st, st', h => by
    simp only [chaseType, Except.ok.injEq] at h; subst h; simp only [varsOf]; exact ChaseSpec.refl env st
termination_by fuel t => (fuel, sizeOf t)
theorem chaseFields_spec (env : Env) : ∀ (fuel : Nat) (fs : Fields) (st st' : St),
    chaseFields env fuel st fs = .ok st' → ChaseSpec env st st' (varsOfFields fs)
  | _, .nil, st, st', h => by
    simp only [chaseFields, Except.ok.injEq] at h; subst h; simp only [varsOfFields]; exact ChaseSpec.refl env st
  | fuel, .cons _ t r, st, st', h => by
    rw [chaseFields] at h; simp only [varsOfFields]
    obtain ⟨s1, h1, h2⟩ := (bind_ok _ _ _).mp h
    exact (chaseType_spec env fuel t st s1 h1).trans (chaseFields_spec env fuel r s1 st' h2)
termination_by fuel fs => (fuel, sizeOf fs)
theorem chaseTys_spec (env : Env) : ∀ (fuel : Nat) (ts : Tys) (st st' : St),
    chaseTys env fuel st ts = .ok st' → ChaseSpec env st st' (varsOfTys ts)
  | _, .nil, st, st', h => by
    simp only [chaseTys, Except.ok.injEq] at h; subst h; simp only [varsOfTys]; exact ChaseSpec.refl env st
  | fuel, .cons t r, st, st', h => by
    rw [chaseTys] at h; simp only [varsOfTys]
    obtain ⟨s1, h1, h2⟩ := (bind_ok _ _ _).mp h
    exact (chaseType_spec env fuel t st s1 h1).trans (chaseTys_spec env fuel r s1 st' h2)
termination_by fuel ts => (fuel, sizeOf ts)
theorem chaseMeths_spec (env : Env) : ∀ (fuel : Nat) (ms : Meths) (st st' : St),
    chaseMeths env fuel st ms = .ok st' → ChaseSpec env st st' (varsOfMeths ms)
  | _, .nil, st, st', h => by
    simp only [chaseMeths, Except.ok.injEq] at h; subst h; simp only [varsOfMeths]; exact ChaseSpec.refl env st
  | fuel, .cons _ t r, st, st', h => by
    rw [chaseMeths] at h; simp only [varsOfMeths]
    obtain ⟨s1, h1, h2⟩ := (bind_ok _ _ _).mp h
    exact (chaseType_spec env fuel t st s1 h1).trans (chaseMeths_spec env fuel r s1 st' h2)
termination_by fuel ms => (fuel, sizeOf ms)
end


/-- the list a chase returns, started from nothing: duplicate free, closed under the names its definitions
use, and containing every name of the root -/
structure Closed (env : Env) (defs vars : List String) : Prop where
  nodup : defs.Nodup
  root : ∀ v ∈ vars, v ∈ defs
  closed : ∀ x ∈ defs, ∃ u, env.find x = some u ∧ ∀ v ∈ varsOf u, v ∈ defs

theorem closed_of_spec (env : Env) (st' : St) (vars : List String) (h : ChaseSpec env ⟨[], []⟩ st' vars) :
    Closed env st'.res vars := by
  have hsr : ∀ v ∈ st'.seen, v ∈ st'.res := fun v hv => by
    rcases h.new_done v hv with h' | h'
    · simp at h'
    · exact h'
  refine ⟨h.nodup (by simp) (by simp), fun v hv => hsr v (h.vars_seen v hv), ?_⟩
  intro x hx
  rcases h.new_res x hx with h' | ⟨_, _, u, hu, hv⟩
  · simp at h'
  · exact ⟨u, hu, fun v hvv => hsr v (hv v hvv)⟩

theorem ws_cells : ∀ (recs declared rs : List String) (tail : List Stmt),
    recs.Nodup → (∀ x ∈ recs, x ∉ declared) →
    (∀ d' r', (∀ v, v ∈ d' ↔ (v ∈ declared ∨ v ∈ recs)) → (∀ v, v ∈ recs ∨ v ∈ rs → v ∈ r') →
      wellScoped d' r' tail = true) →
    wellScoped declared rs (recs.map Stmt.cell ++ tail) = true := by
  intro recs
  induction recs with
  | nil =>
    intro declared rs tail _ _ ht
    simpa using ht declared rs (by simp) (by simp)
  | cons x rest ih =>
    intro declared rs tail hnd hdis ht
    rw [List.nodup_cons] at hnd
    simp only [List.map_cons, List.cons_append, wellScoped, Bool.and_eq_true]
    refine ⟨by simpa using hdis x (by simp), ?_⟩
    apply ih (x :: declared) (x :: rs) tail hnd.2
    · intro y hy hc
      simp only [List.mem_cons] at hc
      rcases hc with rfl | hc
      · exact hnd.1 hy
      · exact hdis y (by simp [hy]) hc
    · intro d' r' hd' hr'
      apply ht d' r'
      · intro v; rw [hd' v]; simp only [List.mem_cons]
        constructor
        · rintro ((h | h) | h)
          · exact Or.inr (Or.inl h)
          · exact Or.inl h
          · exact Or.inr (Or.inr h)
        · rintro (h | h | h)
          · exact Or.inl (Or.inr h)
          · exact Or.inl (Or.inl h)
          · exact Or.inr h
      · intro v hv
        apply hr'
        simp only [List.mem_cons] at hv ⊢
        rcases hv with (rfl | h) | h
        · exact Or.inr (Or.inl rfl)
        · exact Or.inl h
        · exact Or.inr (Or.inr h)

/-- one factory: definitions chased from a root, recursion inferred, statements emitted, a final `return`
whose names all belong to the root -/
theorem ws_factory (env : Env) (defs recs : List String) (vars : List String) (stmts : List Stmt) (ret : List Ty)
    (hc : Closed env defs vars) (hr : inferRec env defs = .ok recs) (hp : ppDefs env defs recs = .ok stmts)
    (hret : ∀ t ∈ ret, ∀ v ∈ varsOf t, v ∈ vars) :
    wellScoped [] [] (stmts ++ [.ret ret]) = true := by
  obtain ⟨st', hst, hres⟩ := (map_ok _ _ _).mp hr
  subst hres
  obtain ⟨hj, _, hvars⟩ := inferRecFrom_spec env defs ⟨[], []⟩ st' [] hst ⟨by simp, by simp, by simp⟩
  obtain ⟨body, hb, hs⟩ := (map_ok _ _ _).mp hp
  subst hs
  rw [List.append_assoc]
  apply ws_cells st'.res [] [] _ hj.nodup (by simp)
  intro d' r' hd' hr'
  apply ws_body env st'.res r' (fun v hv => hr' v (Or.inl hv)) defs [] d' body [.ret ret]
    (by intro v; rw [hd' v]; simp) hc.nodup (by simp)
    (by intro a x b hab; obtain ⟨t, hf, hv⟩ := hvars a x b hab; exact ⟨t, hf, by simpa using hv⟩) hb
  intro d'' hd''
  simp only [wellScoped, Bool.and_true, List.all_eq_true]
  intro t ht v hv
  have : v ∈ d'' := (hd'' v).mpr (Or.inr (by simpa using hc.root v (hret t ht v hv)))
  simpa using this

theorem mem_toList_varsOf : ∀ (ts : Tys) (t : Ty), t ∈ ts.toList → ∀ v ∈ varsOf t, v ∈ varsOfTys ts
  | .nil, t, h, _, _ => by simp [Tys.toList] at h
  | .cons a r, t, h, v, hv => by
    simp only [Tys.toList, List.mem_cons] at h
    simp only [varsOfTys, List.mem_append]
    rcases h with rfl | h
    · exact Or.inl hv
    · exact Or.inr (mem_toList_varsOf r t h v hv)

theorem splitActor_vars (actor : Ty) :
    (∀ v ∈ varsOfTys (splitActor actor).1, v ∈ varsOf actor) ∧ (∀ v ∈ varsOf (splitActor actor).2, v ∈ varsOf actor) := by
  cases actor <;> simp [splitActor, varsOf, varsOfTys]
  all_goals (constructor <;> intro v hv <;> simp [hv])

/-- **Every definition is declared before it is used, or declared recursive first** — for the service
factory and for the init-args factory, whenever the generator returns. -/
theorem jsFactory_wellScoped (env : Env) (actor : Ty) (f i : List Stmt) (h : jsFactory env actor = .ok (f, i)) :
    wellScoped [] [] f = true ∧ wellScoped [] [] i = true := by
  unfold jsFactory at h
  obtain ⟨defs, hdefs, h⟩ := (bind_ok _ _ _).mp h
  obtain ⟨recs, hrecs, h⟩ := (bind_ok _ _ _).mp h
  obtain ⟨body, hbody, h⟩ := (bind_ok _ _ _).mp h
  obtain ⟨idefs, hidefs, h⟩ := (bind_ok _ _ _).mp h
  obtain ⟨irecs, hirecs, h⟩ := (bind_ok _ _ _).mp h
  obtain ⟨ibody, hibody, h⟩ := (map_ok _ _ _).mp h
  simp only [Prod.mk.injEq] at h
  obtain ⟨rfl, rfl⟩ := h
  obtain ⟨st', hst, hres⟩ := (map_ok _ _ _).mp hdefs
  subst hres
  have hclosed := closed_of_spec env st' _ (chaseType_spec env _ actor _ st' hst)
  obtain ⟨ist, hist, hires⟩ := (map_ok _ _ _).mp hidefs
  subst hires
  have hiclosed := closed_of_spec env ist _ (chaseTys_spec env _ _ _ ist hist)
  refine ⟨ws_factory env _ recs _ body [_] hclosed hrecs hbody ?_, ws_factory env _ irecs _ ibody _ hiclosed hirecs hibody ?_⟩
  · intro u hu v hv
    simp only [List.mem_singleton] at hu; subst hu
    exact (splitActor_vars actor).2 v hv
  · intro u hu v hv; exact mem_toList_varsOf _ u hu v hv


/-- every name used by a definition of the environment is itself defined -/
def ClosedEnv (env : Env) : Prop := ∀ x t, env.find x = some t → ∀ v ∈ varsOf t, (env.find v).isSome

structure InvC (env : Env) (fuel : Nat) (st : St) : Prop where
  nodup : st.seen.Nodup
  bound : ∀ v ∈ st.seen, (env.find v).isSome
  room : env.length < st.seen.length + fuel

mutual
theorem chaseType_total (env : Env) (hce : ClosedEnv env) : ∀ (fuel : Nat) (t : Ty) (st : St),
    (∀ v ∈ varsOf t, (env.find v).isSome) → InvC env fuel st →
      ∃ st', chaseType env fuel st t = .ok st' ∧ InvC env fuel st' ∧ st.seen.length ≤ st'.seen.length
  | fuel, .var x, st, hv, hi => by
    unfold chaseType
    split
    · exact ⟨st, rfl, hi, Nat.le_refl _⟩
    · rename_i hx
      have hx : x ∉ st.seen := by simpa using hx
      cases fuel with
      | zero =>
        have := Check.nodup_subset_length st.seen (env.map (·.1)) hi.nodup
          (fun a ha => Check.find_isSome_mem env a (hi.bound a ha))
        have := hi.room
        simp at *; omega
      | succ f =>
        have hsome := hv x (by simp [varsOf])
        cases hf : env.find x with
        | none => simp [hf] at hsome
        | some t' =>
          have hi' : InvC env f { st with seen := x :: st.seen } := ⟨List.nodup_cons.mpr ⟨hx, hi.nodup⟩, by
            intro v hv
            simp only [List.mem_cons] at hv
            rcases hv with rfl | hv
            · simp [hf]
            · exact hi.bound v hv, by have := hi.room; simp only [List.length_cons]; omega⟩
          obtain ⟨s, h1, h2, h3⟩ := chaseType_total env hce f t' _ (hce x t' hf) hi'
          refine ⟨{ s with res := s.res ++ [x] }, ?_, ⟨h2.nodup, h2.bound, by have := h2.room; simp only; omega⟩, by
            simp only [List.length_cons] at h3; simp only; omega⟩
          simp only [h1, Except.map]
  | fuel, .opt t, st, hv, hi => by
    rw [chaseType]; exact chaseType_total env hce fuel t st (by simpa [varsOf] using hv) hi
  | fuel, .vec t, st, hv, hi => by
    rw [chaseType]; exact chaseType_total env hce fuel t st (by simpa [varsOf] using hv) hi
  | fuel, .record fs, st, hv, hi => by
    rw [chaseType]; exact chaseFields_total env hce fuel fs st (by simpa [varsOf] using hv) hi
  | fuel, .variant fs, st, hv, hi => by
    rw [chaseType]; exact chaseFields_total env hce fuel fs st (by simpa [varsOf] using hv) hi
  | fuel, .func a r m, st, hv, hi => by
    rw [chaseType]
    simp only [varsOf, List.mem_append] at hv
    obtain ⟨s1, h1, h2, h3⟩ := chaseTys_total env hce fuel a st (fun v h => hv v (Or.inl h)) hi
    obtain ⟨s2, h4, h5, h6⟩ := chaseTys_total env hce fuel r s1 (fun v h => hv v (Or.inr h)) h2
    exact ⟨s2, by rw [h1]; simp only [Except.bind]; exact h4, h5, by omega⟩
  | fuel, .service ms, st, hv, hi => by
    rw [chaseType]; exact chaseMeths_total env hce fuel ms st (by simpa [varsOf] using hv) hi
  | fuel, .cls a t, st, hv, hi => by
    rw [chaseType]
    simp only [varsOf, List.mem_append] at hv
    obtain ⟨s1, h1, h2, h3⟩ := chaseTys_total env hce fuel a st (fun v h => hv v (Or.inl h)) hi
    obtain ⟨s2, h4, h5, h6⟩ := chaseType_total env hce fuel t s1 (fun v h => hv v (Or.inr h)) h2
    exact ⟨s2, by rw [h1]; simp only [Except.bind]; exact h4, h5, by omega⟩
  | _, .prim _, st, _, hi => by simp only [chaseType]; exact ⟨st, rfl, hi, Nat.le_refl _⟩
  | _, .principal, st, _, hi => by simp only [chaseType]; exact ⟨st, rfl, hi, Nat.le_refl _⟩
  | _, .knot _, st, _, hi => by simp only [chaseType]; exact ⟨st, rfl, hi, Nat.le_refl _⟩
  | _, .unknown, st, _, hi => by simp only [chaseType]; exact ⟨st, rfl, hi, Nat.le_refl _⟩
  | _, .future, st, _, hi => by simp only [chaseType]; exact ⟨st, rfl, hi, Nat.le_refl _⟩
termination_by fuel t => (fuel, sizeOf t)
theorem chaseFields_total (env : Env) (hce : ClosedEnv env) : ∀ (fuel : Nat) (fs : Fields) (st : St),
    (∀ v ∈ varsOfFields fs, (env.find v).isSome) → InvC env fuel st →
      ∃ st', chaseFields env fuel st fs = .ok st' ∧ InvC env fuel st' ∧ st.seen.length ≤ st'.seen.length
  | _, .nil, st, _, hi => by rw [chaseFields]; exact ⟨st, rfl, hi, Nat.le_refl _⟩
  | fuel, .cons _ t r, st, hv, hi => by
    rw [chaseFields]
    simp only [varsOfFields, List.mem_append] at hv
    obtain ⟨s1, h1, h2, h3⟩ := chaseType_total env hce fuel t st (fun v h => hv v (Or.inl h)) hi
    obtain ⟨s2, h4, h5, h6⟩ := chaseFields_total env hce fuel r s1 (fun v h => hv v (Or.inr h)) h2
    exact ⟨s2, by rw [h1]; simp only [Except.bind]; exact h4, h5, by omega⟩
termination_by fuel fs => (fuel, sizeOf fs)
theorem chaseTys_total (env : Env) (hce : ClosedEnv env) : ∀ (fuel : Nat) (ts : Tys) (st : St),
    (∀ v ∈ varsOfTys ts, (env.find v).isSome) → InvC env fuel st →
      ∃ st', chaseTys env fuel st ts = .ok st' ∧ InvC env fuel st' ∧ st.seen.length ≤ st'.seen.length
  | _, .nil, st, _, hi => by rw [chaseTys]; exact ⟨st, rfl, hi, Nat.le_refl _⟩
  | fuel, .cons t r, st, hv, hi => by
    rw [chaseTys]
    simp only [varsOfTys, List.mem_append] at hv
    obtain ⟨s1, h1, h2, h3⟩ := chaseType_total env hce fuel t st (fun v h => hv v (Or.inl h)) hi
    obtain ⟨s2, h4, h5, h6⟩ := chaseTys_total env hce fuel r s1 (fun v h => hv v (Or.inr h)) h2
    exact ⟨s2, by rw [h1]; simp only [Except.bind]; exact h4, h5, by omega⟩
termination_by fuel ts => (fuel, sizeOf ts)
theorem chaseMeths_total (env : Env) (hce : ClosedEnv env) : ∀ (fuel : Nat) (ms : Meths) (st : St),
    (∀ v ∈ varsOfMeths ms, (env.find v).isSome) → InvC env fuel st →
      ∃ st', chaseMeths env fuel st ms = .ok st' ∧ InvC env fuel st' ∧ st.seen.length ≤ st'.seen.length
  | _, .nil, st, _, hi => by rw [chaseMeths]; exact ⟨st, rfl, hi, Nat.le_refl _⟩
  | fuel, .cons _ t r, st, hv, hi => by
    rw [chaseMeths]
    simp only [varsOfMeths, List.mem_append] at hv
    obtain ⟨s1, h1, h2, h3⟩ := chaseType_total env hce fuel t st (fun v h => hv v (Or.inl h)) hi
    obtain ⟨s2, h4, h5, h6⟩ := chaseMeths_total env hce fuel r s1 (fun v h => hv v (Or.inr h)) h2
    exact ⟨s2, by rw [h1]; simp only [Except.bind]; exact h4, h5, by omega⟩
termination_by fuel ms => (fuel, sizeOf ms)
end

theorem inferRecFrom_total (env : Env) : ∀ (defs : List String) (st : St),
    (∀ x ∈ defs, (env.find x).isSome) → ∃ st', inferRecFrom env st defs = .ok st' := by
  intro defs
  induction defs with
  | nil => intro st _; exact ⟨st, rfl⟩
  | cons x r ih =>
    intro st h
    have hx := h x (by simp)
    cases hf : env.find x with
    | none => simp [hf] at hx
    | some t =>
      simp only [inferRecFrom, hf]
      exact ih _ (fun y hy => h y (by simp [hy]))

theorem ppBody_total (env : Env) (recs : List String) : ∀ (defs : List String),
    (∀ x ∈ defs, (env.find x).isSome) → ∃ b, ppBody env recs defs = .ok b := by
  intro defs
  induction defs with
  | nil => intro _; exact ⟨[], rfl⟩
  | cons x r ih =>
    intro h
    have hx := h x (by simp)
    cases hf : env.find x with
    | none => simp [hf] at hx
    | some t =>
      obtain ⟨b, hb⟩ := ih (fun y hy => h y (by simp [hy]))
      simp only [ppBody, hf, hb, Except.map]
      exact ⟨_, rfl⟩

/-- on a closed environment with a closed main actor the generator's analysis returns: no unbound name,
no `unwrap` on a missing definition, the traversal ends within its budget -/
theorem jsFactory_total (env : Env) (actor : Ty) (hce : ClosedEnv env)
    (ha : ∀ v ∈ varsOf actor, (env.find v).isSome) : ∃ f i, jsFactory env actor = .ok (f, i) := by
  have hfound : ∀ (st' : St) (vars : List String), ChaseSpec env ⟨[], []⟩ st' vars → ∀ x ∈ st'.res, (env.find x).isSome := by
    intro st' vars h x hx
    obtain ⟨u, hu, _⟩ := (closed_of_spec env st' vars h).closed x hx
    simp [hu]
  obtain ⟨st1, h1, _, _⟩ := chaseType_total env hce (env.length + 1) actor ⟨[], []⟩ ha ⟨by simp, by simp, by simp⟩
  have hf1 := hfound st1 _ (chaseType_spec env _ actor _ st1 h1)
  obtain ⟨r1, hr1⟩ := inferRecFrom_total env st1.res ⟨[], []⟩ hf1
  obtain ⟨b1, hb1⟩ := ppBody_total env r1.res st1.res hf1
  have hai : ∀ v ∈ varsOfTys (splitActor actor).1, (env.find v).isSome :=
    fun v hv => ha v ((splitActor_vars actor).1 v hv)
  obtain ⟨st2, h2, _, _⟩ := chaseTys_total env hce (env.length + 1) (splitActor actor).1 ⟨[], []⟩ hai ⟨by simp, by simp, by simp⟩
  have hf2 := hfound st2 _ (chaseTys_spec env _ _ _ st2 h2)
  obtain ⟨r2, hr2⟩ := inferRecFrom_total env st2.res ⟨[], []⟩ hf2
  obtain ⟨b2, hb2⟩ := ppBody_total env r2.res st2.res hf2
  exact ⟨r1.res.map Stmt.cell ++ b1 ++ [.ret [(splitActor actor).2]],
    r2.res.map Stmt.cell ++ b2 ++ [.ret (splitActor actor).1.toList], by
    simp only [jsFactory, chaseActor, chaseTypes, inferRec, ppDefs, h1, h2, hr1, hr2, hb1, hb2, Except.map, Except.bind]⟩


theorem keywords_no_trailing_underscore : ∀ k ∈ Gen.jsKeywords, k.toList.getLast? ≠ some '_' := by decide

theorem trim_of_no_trailing (s : String) (h : s.toList.getLast? ≠ some '_') : trimUnderscores s = s := by
  unfold trimUnderscores
  have : s.toList.reverse.dropWhile (· = '_') = s.toList.reverse := by
    cases hr : s.toList.reverse with
    | nil => rfl
    | cons c r =>
      have hl : s.toList.getLast? = some c := by
        rw [← List.head?_reverse, hr]; rfl
      have hc : c ≠ '_' := fun hc => h (by rw [hl, hc])
      simp [List.dropWhile, hc]
  rw [this, List.reverse_reverse]
  simp

theorem trim_append_underscore (s : String) : trimUnderscores (s ++ "_") = trimUnderscores s := by
  unfold trimUnderscores
  have : (s ++ "_").toList = s.toList ++ ['_'] := by simp
  rw [this, List.reverse_append]
  simp [List.dropWhile]

theorem append_underscore_last (s : String) : (s ++ "_").toList.getLast? = some '_' := by
  have : (s ++ "_").toList = s.toList ++ ['_'] := by simp
  rw [this]; simp


end Candid.Bindgen
