import CandidModel.Proofs.De
import CandidModel.Proofs.Check
/- helper lemmas for C05: the checking algorithm (memo table, probes, depth budget) is sound for the specification
relation — every accepted pair, and every pair left in the memo, is in the greatest fixed point of the rules -/
namespace Candid.Sub
open Candid

/-- the rule functional is monotone, so its greatest fixed point exists -/
theorem F_mono {env : Env} {R S : Rel} (h : ∀ a b, R a b → S a b) : ∀ a b, F env R a b → F env S a b := by
  intro a b hF
  unfold F at *
  rcases hF with h1 | h1 | h1 | h1 | h1 | h1 | ⟨a', b', e1, e2, r⟩ | ⟨fs1, fs2, e1, e2, r⟩ | ⟨fs1, fs2, e1, e2, r⟩ |
    ⟨a1, r1, m1, a2, r2, m2, e1, e2, e3, ra, rr⟩ | ⟨ms1, ms2, e1, e2, r⟩ | ⟨x, d, e1, e2, r⟩ | ⟨x, d, e1, e2, e3, r⟩ |
    ⟨args, t, e1, e2, r⟩ | ⟨args, t, e1, e2, e3, r⟩
  · exact Or.inl h1
  · exact Or.inr (Or.inl h1)
  · exact Or.inr (Or.inr (Or.inl h1))
  · exact Or.inr (Or.inr (Or.inr (Or.inl h1)))
  · exact Or.inr (Or.inr (Or.inr (Or.inr (Or.inl h1))))
  · exact Or.inr (Or.inr (Or.inr (Or.inr (Or.inr (Or.inl h1)))))
  · exact Or.inr (Or.inr (Or.inr (Or.inr (Or.inr (Or.inr (Or.inl ⟨a', b', e1, e2, h _ _ r⟩))))))
  · refine Or.inr (Or.inr (Or.inr (Or.inr (Or.inr (Or.inr (Or.inr (Or.inl ⟨fs1, fs2, e1, e2, ?_⟩)))))))
    intro p hp
    have := r p hp
    split at this <;> simp_all
  · refine Or.inr (Or.inr (Or.inr (Or.inr (Or.inr (Or.inr (Or.inr (Or.inr (Or.inl ⟨fs1, fs2, e1, e2, ?_⟩))))))))
    intro p hp
    have := r p hp
    split at this <;> simp_all
  · exact Or.inr (Or.inr (Or.inr (Or.inr (Or.inr (Or.inr (Or.inr (Or.inr (Or.inr (Or.inl
      ⟨a1, r1, m1, a2, r2, m2, e1, e2, e3, h _ _ ra, h _ _ rr⟩)))))))))
  · refine Or.inr (Or.inr (Or.inr (Or.inr (Or.inr (Or.inr (Or.inr (Or.inr (Or.inr (Or.inr (Or.inl
      ⟨ms1, ms2, e1, e2, ?_⟩))))))))))
    intro p hp
    have := r p hp
    split at this <;> simp_all
  · exact Or.inr (Or.inr (Or.inr (Or.inr (Or.inr (Or.inr (Or.inr (Or.inr (Or.inr (Or.inr (Or.inr (Or.inl
      ⟨x, d, e1, e2, h _ _ r⟩)))))))))))
  · exact Or.inr (Or.inr (Or.inr (Or.inr (Or.inr (Or.inr (Or.inr (Or.inr (Or.inr (Or.inr (Or.inr (Or.inr (Or.inl
      ⟨x, d, e1, e2, e3, h _ _ r⟩))))))))))))
  · exact Or.inr (Or.inr (Or.inr (Or.inr (Or.inr (Or.inr (Or.inr (Or.inr (Or.inr (Or.inr (Or.inr (Or.inr (Or.inr
      (Or.inl ⟨args, t, e1, e2, h _ _ r⟩)))))))))))))
  · exact Or.inr (Or.inr (Or.inr (Or.inr (Or.inr (Or.inr (Or.inr (Or.inr (Or.inr (Or.inr (Or.inr (Or.inr (Or.inr
      (Or.inr ⟨args, t, e1, e2, e3, h _ _ r⟩)))))))))))))

/-- `Sub` is a fixed point: it can be unfolded one rule at a time -/
theorem sub_unfold {env : Env} {a b : Ty} (h : Sub env a b) : F env (Sub env) a b := by
  obtain ⟨R, hR, hab⟩ := h
  exact F_mono (fun a b r => ⟨R, hR, r⟩) a b (hR a b hab)

/-- coinduction principle: any relation closed under the rules is included in `Sub` -/
theorem sub_coind {env : Env} (R : Rel) (hR : ∀ a b, R a b → F env R a b) : ∀ a b, R a b → Sub env a b :=
  fun _ _ r => ⟨R, hR, r⟩


/-! ### constructors of the rule functional -/
section
variable {env : Env} {R : Rel}
theorem F.refl (a : Ty) : F env R a a := Or.inl rfl
theorem F.reserved (a : Ty) : F env R a (.prim .reserved) := Or.inr (Or.inl rfl)
theorem F.empty (b : Ty) : F env R (.prim .empty) b := Or.inr (Or.inr (Or.inl rfl))
theorem F.natInt : F env R (.prim .nat) (.prim .int) := Or.inr (Or.inr (Or.inr (Or.inl ⟨rfl, rfl⟩)))
theorem F.servPrincipal (ms : Meths) : F env R (.service ms) .principal :=
  Or.inr (Or.inr (Or.inr (Or.inr (Or.inl ⟨ms, rfl, rfl⟩))))
theorem F.opt (a b' : Ty) (h : isName a = false) : F env R a (.opt b') :=
  Or.inr (Or.inr (Or.inr (Or.inr (Or.inr (Or.inl ⟨b', rfl, h⟩)))))
theorem F.vec (a' b' : Ty) (h : R a' b') : F env R (.vec a') (.vec b') :=
  Or.inr (Or.inr (Or.inr (Or.inr (Or.inr (Or.inr (Or.inl ⟨a', b', rfl, rfl, h⟩))))))
theorem F.record (fs1 fs2 : Fields)
    (h : ∀ p ∈ fs2.toList, match lookupF fs1 p.1.getId with | some t1 => R t1 p.2 | none => optLike env p.2 = true) :
    F env R (.record fs1) (.record fs2) :=
  Or.inr (Or.inr (Or.inr (Or.inr (Or.inr (Or.inr (Or.inr (Or.inl ⟨fs1, fs2, rfl, rfl, h⟩)))))))
theorem F.variant (fs1 fs2 : Fields)
    (h : ∀ p ∈ fs1.toList, match lookupF fs2 p.1.getId with | some t2 => R p.2 t2 | none => False) :
    F env R (.variant fs1) (.variant fs2) :=
  Or.inr (Or.inr (Or.inr (Or.inr (Or.inr (Or.inr (Or.inr (Or.inr (Or.inl ⟨fs1, fs2, rfl, rfl, h⟩))))))))
theorem F.func (a1 r1 : Tys) (m : List FuncMode) (a2 r2 : Tys) (ha : R (tupleTy a2) (tupleTy a1)) (hr : R (tupleTy r1) (tupleTy r2)) :
    F env R (.func a1 r1 m) (.func a2 r2 m) :=
  Or.inr (Or.inr (Or.inr (Or.inr (Or.inr (Or.inr (Or.inr (Or.inr (Or.inr (Or.inl
    ⟨a1, r1, m, a2, r2, m, rfl, rfl, rfl, ha, hr⟩)))))))))
theorem F.service (ms1 ms2 : Meths)
    (h : ∀ p ∈ ms2.toList, match lookupM ms1 p.1 with | some t1 => R t1 p.2 | none => False) :
    F env R (.service ms1) (.service ms2) :=
  Or.inr (Or.inr (Or.inr (Or.inr (Or.inr (Or.inr (Or.inr (Or.inr (Or.inr (Or.inr (Or.inl ⟨ms1, ms2, rfl, rfl, h⟩))))))))))
theorem F.varL (x : String) (d b : Ty) (hf : recFindFull env x = some d) (h : R d b) : F env R (.var x) b :=
  Or.inr (Or.inr (Or.inr (Or.inr (Or.inr (Or.inr (Or.inr (Or.inr (Or.inr (Or.inr (Or.inr (Or.inl ⟨x, d, rfl, hf, h⟩)))))))))))
theorem F.varR (a : Ty) (x : String) (d : Ty) (hn : isName a = false) (hf : recFindFull env x = some d) (h : R a d) :
    F env R a (.var x) :=
  Or.inr (Or.inr (Or.inr (Or.inr (Or.inr (Or.inr (Or.inr (Or.inr (Or.inr (Or.inr (Or.inr (Or.inr (Or.inl
    ⟨x, d, rfl, hn, hf, h⟩))))))))))))
theorem F.clsL (args : Tys) (t b : Ty) (hn : isName b = false) (h : R t b) : F env R (.cls args t) b :=
  Or.inr (Or.inr (Or.inr (Or.inr (Or.inr (Or.inr (Or.inr (Or.inr (Or.inr (Or.inr (Or.inr (Or.inr (Or.inr
    (Or.inl ⟨args, t, rfl, hn, h⟩)))))))))))))
theorem F.clsR (a : Ty) (args : Tys) (t : Ty) (hn : isName a = false) (hc : ∀ args' t', a ≠ .cls args' t') (h : R a t) :
    F env R a (.cls args t) :=
  Or.inr (Or.inr (Or.inr (Or.inr (Or.inr (Or.inr (Or.inr (Or.inr (Or.inr (Or.inr (Or.inr (Or.inr (Or.inr
    (Or.inr ⟨args, t, rfl, hn, hc, h⟩)))))))))))))
end

/-! ### derivations from a set of assumed pairs -/

/-- derivable in at most `k` rule applications from the pairs in `G` -/
def Dk (env : Env) (G : Gamma) : Nat → Rel
  | 0 => fun a b => (a, b) ∈ G
  | k + 1 => fun a b => (a, b) ∈ G ∨ F env (Dk env G k) a b

theorem Dk_succ (env : Env) (G : Gamma) : ∀ (k : Nat) (a b : Ty), Dk env G k a b → Dk env G (k + 1) a b := by
  intro k
  induction k with
  | zero => intro a b h; exact Or.inl h
  | succ k ih =>
    intro a b h
    rcases h with h | h
    · exact Or.inl h
    · exact Or.inr (F_mono (fun x y hxy => ih x y hxy) a b h)

theorem Dk_le (env : Env) (G : Gamma) (k m : Nat) (h : k ≤ m) (a b : Ty) (hd : Dk env G k a b) : Dk env G m a b := by
  induction m with
  | zero => have : k = 0 := by omega
            subst this; exact hd
  | succ m ih =>
    by_cases hk : k = m + 1
    · subst hk; exact hd
    · exact Dk_succ env G m a b (ih (by omega))

theorem Dk_mono (env : Env) (G G' : Gamma) (hG : ∀ p ∈ G, p ∈ G') : ∀ (k : Nat) (a b : Ty), Dk env G k a b → Dk env G' k a b := by
  intro k
  induction k with
  | zero => intro a b h; exact hG _ h
  | succ k ih =>
    intro a b h
    rcases h with h | h
    · exact Or.inl (hG _ h)
    · exact Or.inr (F_mono (fun x y hxy => ih x y hxy) a b h)

theorem Dk_step (env : Env) (G : Gamma) (k : Nat) (a b : Ty) (h : F env (Dk env G k) a b) : Dk env G (k + 1) a b := Or.inr h

/-- every pair of the memo is justified by a rule whose premises are derivable from the memo -/
def Justified (env : Env) (G : Gamma) : Prop := ∀ p ∈ G, ∃ k, F env (Dk env G k) p.1 p.2

/-- a justified memo only derives subtypings of the specification -/
theorem sub_of_Dk (env : Env) (G : Gamma) (hj : Justified env G) (k : Nat) (a b : Ty) (h : Dk env G k a b) : Sub env a b := by
  apply sub_coind (fun x y => ∃ k, Dk env G k x y) _ a b ⟨k, h⟩
  intro x y ⟨k, hk⟩
  have lift : ∀ j, ∀ u v, Dk env G j u v → ∃ k, Dk env G k u v := fun j u v h => ⟨j, h⟩
  cases k with
  | zero =>
    obtain ⟨j, hj'⟩ := hj (x, y) hk
    exact F_mono (lift j) x y hj'
  | succ k =>
    rcases hk with hk | hk
    · obtain ⟨j, hj'⟩ := hj (x, y) hk
      exact F_mono (lift j) x y hj'
    · exact F_mono (lift k) x y hk


/-- the memo only grows, and every new pair is justified from the new memo -/
structure MJ (env : Env) (g g' : Gamma) : Prop where
  mono : ∀ p ∈ g, p ∈ g'
  just : ∀ p ∈ g', p ∈ g ∨ ∃ k, F env (Dk env g' k) p.1 p.2

theorem MJ.refl (env : Env) (g : Gamma) : MJ env g g := ⟨fun _ h => h, fun _ h => Or.inl h⟩

theorem MJ.trans {env : Env} {g g1 g2 : Gamma} (h1 : MJ env g g1) (h2 : MJ env g1 g2) : MJ env g g2 where
  mono := fun p hp => h2.mono p (h1.mono p hp)
  just := fun p hp => by
    rcases h2.just p hp with h | h
    · rcases h1.just p h with h' | ⟨k, hk⟩
      · exact Or.inl h'
      · exact Or.inr ⟨k, F_mono (fun x y hxy => Dk_mono env g1 g2 h2.mono k x y hxy) _ _ hk⟩
    · exact Or.inr h

theorem probe_MJ (env : Env) (r : Res) (g : Gamma) (h : ∀ g1, r = .yes g1 → MJ env g g1) : MJ env g (probe r g).2 := by
  unfold probe
  cases r with
  | yes g1 => exact h g1 rfl
  | no => exact MJ.refl env g
  | out => exact MJ.refl env g
  | panic s => exact MJ.refl env g

/-- a finite family of "derivable within some bound" facts has a common bound -/
theorem uniform_bound {α : Type} (env : Env) (G : Gamma) (P : Nat → α → Prop)
    (hmono : ∀ k m x, k ≤ m → P k x → P m x) : ∀ l : List α, (∀ x ∈ l, ∃ k, P k x) → ∃ K, ∀ x ∈ l, P K x := by
  intro l
  induction l with
  | nil => intro _; exact ⟨0, fun _ h => by simp at h⟩
  | cons x xs ih =>
    intro h
    obtain ⟨k1, h1⟩ := h x (by simp)
    obtain ⟨K, hK⟩ := ih (fun y hy => h y (by simp [hy]))
    refine ⟨max k1 K, ?_⟩
    intro y hy
    simp only [List.mem_cons] at hy
    rcases hy with rfl | hy
    · exact hmono k1 _ _ (Nat.le_max_left _ _) h1
    · exact hmono K _ _ (Nat.le_max_right _ _) (hK y hy)

/-- threading the memo through a list of checks -/
theorem allM_spec {α : Type} (env : Env) (f : Gamma → α → Res) (Q : Gamma → α → Prop)
    (hQ : ∀ G G' x, (∀ p ∈ G, p ∈ G') → Q G x → Q G' x) :
    ∀ (l : List α) (g g' : Gamma), (∀ g0 x g1, x ∈ l → f g0 x = .yes g1 → MJ env g0 g1 ∧ Q g1 x) →
      allM f g l = .yes g' → MJ env g g' ∧ ∀ x ∈ l, Q g' x := by
  intro l
  induction l with
  | nil => intro g g' _ h; simp [allM] at h; subst h; exact ⟨MJ.refl env g, fun _ hx => by simp at hx⟩
  | cons x xs ih =>
    intro g g' hf h
    simp only [allM] at h
    cases hx : f g x with
    | yes g1 =>
      rw [hx] at h
      simp only [] at h
      obtain ⟨hmj1, hq1⟩ := hf g x g1 (by simp) hx
      obtain ⟨hmj2, hq2⟩ := ih g1 g' (fun g0 y g2 hy => hf g0 y g2 (by simp [hy])) h
      refine ⟨hmj1.trans hmj2, ?_⟩
      intro y hy
      simp only [List.mem_cons] at hy
      rcases hy with rfl | hy
      · exact hQ g1 g' _ hmj2.mono hq1
      · exact hq2 y hy
    | no => rw [hx] at h; simp at h
    | out => rw [hx] at h; simp at h
    | panic s => rw [hx] at h; simp at h


theorem trace_det (env : Env) : ∀ (n m : Nat) (t u v : Ty), env.trace n t = some u → env.trace m t = some v → u = v := by
  intro n
  induction n with
  | zero => intro m t u v h; simp [Env.trace] at h
  | succ n ih =>
    intro m t u v h1 h2
    cases m with
    | zero => simp [Env.trace] at h2
    | succ m =>
      cases t with
      | var x =>
        simp only [Env.trace] at h1 h2
        cases hf : env.find x with
        | none => simp [hf] at h1
        | some d => rw [hf] at h1 h2; exact ih m d u v h1 h2
      | _ => simp [Env.trace] at h1 h2; rw [← h1, ← h2]

/-- a trace that succeeds at some depth succeeds, with the same answer, within the environment's size -/
theorem traceFull_of_trace (env : Env) (n : Nat) (t t' : Ty) (h : env.trace n t = some t') : traceFull env t = some t' := by
  have hp : Check.Productive env t := ⟨n, by simp [h]⟩
  have hc := (Check.hasCycle_iff_productive env t).mpr hp
  have hs := Check.hasCycle_false_trace env _ _ _ hc
  unfold traceFull
  cases hx : env.trace (env.length + 2) t with
  | none => simp [hx] at hs
  | some v => rw [trace_det env n _ t t' v h hx]

theorem optLike_of_trace (env : Env) (n : Nat) (t t' : Ty) (h : env.trace n t = some t') (ho : isOptLikeTy t' = true) :
    optLike env t = true := by
  unfold optLike
  rw [traceFull_of_trace env n t t' h]
  exact ho


/-- what a successful run of the checker establishes -/
structure Ok (env : Env) (g g' : Gamma) (a b : Ty) : Prop where
  mj : MJ env g g'
  der : ∃ k, Dk env g' k a b

theorem Ok.of_F {env : Env} {g g' : Gamma} {a b : Ty} (mj : MJ env g g') (k : Nat) (h : F env (Dk env g' k) a b) : Ok env g g' a b :=
  ⟨mj, k + 1, Dk_step env g' k a b h⟩

theorem mem_cons_MJ {env : Env} {g g' : Gamma} {a b : Ty} (h : MJ env ((a, b) :: g) g') (k : Nat)
    (hf : F env (Dk env g' k) a b) : MJ env g g' where
  mono := fun p hp => h.mono p (by simp [hp])
  just := fun p hp => by
    rcases h.just p hp with h' | h'
    · simp only [List.mem_cons] at h'
      rcases h' with rfl | h'
      · exact Or.inr ⟨k, hf⟩
      · exact Or.inl h'
    · exact Or.inr h'

theorem subAlg_sound (env : Env) (hse : SafeEnv env) : ∀ (n : Nat) (g g' : Gamma) (a b : Ty),
    safeTy env a = true → safeTy env b = true → subAlg env n g a b = .yes g' → Ok env g g' a b := by
  intro n
  induction n with
  | zero => intro g g' a b _ _ h; simp [subAlg] at h
  | succ n ih =>
    intro g g' a b ha hb h
    unfold subAlg at h
    split at h
    · -- a = b
      rename_i hab
      simp only [Res.yes.injEq] at h; subst h; subst hab
      exact Ok.of_F (MJ.refl env g) 0 (F.refl a)
    · split at h
      · -- a name on one side
        split at h
        · rename_i hmem
          simp only [Res.yes.injEq] at h; subst h
          exact ⟨MJ.refl env g, 0, hmem⟩
        · split at h
          · -- left is a name
            split at h
            · simp at h
            · rename_i d hd
              have hsd := safe_of_recFindFull env hse _ d hd
              obtain ⟨mj, k, hk⟩ := ih _ g' d b hsd hb h
              have hF : F env (Dk env g' k) (Ty.var _) b := F.varL _ d b hd hk
              exact ⟨mem_cons_MJ mj k hF, k + 1, Dk_step env g' k _ _ hF⟩
          · -- right is a name, left is not a `var`
            split at h
            · simp at h
            · rename_i x hnv d hd
              have hsd := safe_of_recFindFull env hse _ d hd
              obtain ⟨mj, k, hk⟩ := ih _ g' a d ha hsd h
              have hna : isName a = false := by
                cases a <;> simp_all [isName, safeTy]
              have hF : F env (Dk env g' k) a (Ty.var _) := F.varR a _ d hna hd hk
              exact ⟨mem_cons_MJ mj k hF, k + 1, Dk_step env g' k _ _ hF⟩
          · simp at h
      · -- structural rules
        rename_i hnames
        have hna : isName a = false := by
          cases hx : isName a with
          | false => rfl
          | true => exact absurd (Or.inl hx) hnames
        have hnb : isName b = false := by
          cases hx : isName b with
          | false => rfl
          | true => exact absurd (Or.inr hx) hnames
        split at h
        case h_1 => simp only [Res.yes.injEq] at h; subst h; exact Ok.of_F (MJ.refl env g) 0 (F.reserved _)
        case h_2 => simp only [Res.yes.injEq] at h; subst h; exact Ok.of_F (MJ.refl env g) 0 (F.empty _)
        case h_3 => simp only [Res.yes.injEq] at h; subst h; exact Ok.of_F (MJ.refl env g) 0 F.natInt
        case h_4 => simp only [Res.yes.injEq] at h; subst h; exact Ok.of_F (MJ.refl env g) 0 (F.servPrincipal _)
        case h_5 =>
          simp only [safeTy] at ha hb
          obtain ⟨mj, k, hk⟩ := ih _ _ _ _ ha hb h
          exact Ok.of_F mj k (F.vec _ _ hk)
        case h_6 => simp only [Res.yes.injEq] at h; subst h; exact Ok.of_F (MJ.refl env g) 0 (F.opt _ _ rfl)
        case h_7 =>
          simp only [safeTy] at ha hb
          generalize hp1 : probe _ g = p1 at h
          have mj1 : MJ env g p1.2 := by
            rw [← hp1]; exact probe_MJ env _ g (fun g1 hr => (ih g g1 _ _ ha hb hr).mj)
          obtain ⟨ok1, g1⟩ := p1
          simp only [] at h mj1
          split at h
          · simp only [Res.yes.injEq] at h; subst h
            exact Ok.of_F mj1 0 (F.opt _ _ rfl)
          · generalize hp2 : probe _ g1 = p2 at h
            have mj2 : MJ env g1 p2.2 := by
              rw [← hp2]
              exact probe_MJ env _ g1 (fun g2 hr => (ih g1 g2 _ _ (by simpa [safeTy] using ha) hb hr).mj)
            obtain ⟨ok2, g2⟩ := p2
            simp only [] at h mj2
            split at h
            · simp at h
            · simp only [Res.yes.injEq] at h; subst h
              exact Ok.of_F (mj1.trans mj2) 0 (F.opt _ _ rfl)
        case h_8 =>
          simp only [safeTy] at hb
          generalize hp1 : probe _ g = p1 at h
          have mj1 : MJ env g p1.2 := by
            rw [← hp1]; exact probe_MJ env _ g (fun g1 hr => (ih g g1 _ _ ha hb hr).mj)
          obtain ⟨ok1, g1⟩ := p1
          simp only [] at h mj1
          split at h
          · simp at h
          · simp only [Res.yes.injEq] at h; subst h
            exact Ok.of_F mj1 0 (F.opt _ _ hna)
        case h_9 =>
          -- records
          rename_i fs1 fs2 _
          simp only [safeTy] at ha hb
          have hspec := allM_spec env _
            (fun G (p : Label × Ty) => match lookupF fs1 p.1.getId with
              | some t1 => ∃ k, Dk env G k t1 p.2
              | none => optLike env p.2 = true)
            (by
              intro G G' x hGG hq
              split
              · rename_i t1 heq; rw [heq] at hq; obtain ⟨k, hk⟩ := hq; exact ⟨k, Dk_mono env G G' hGG k _ _ hk⟩
              · rename_i heq; rw [heq] at hq; exact hq)
            fs2.toList g g'
            (by
              intro g0 x g1 hx hfx
              have hxs := fields_mem_safe env fs2 x hb hx
              split at hfx
              · rename_i t1 heq
                obtain ⟨mj, hd⟩ := ih g0 g1 t1 x.2 (lookupF_safe env fs1 _ t1 ha heq) hxs hfx
                exact ⟨mj, by simp only [heq]; exact hd⟩
              · rename_i heq
                split at hfx
                · simp at hfx
                · rename_i t' htr
                  split at hfx
                  · rename_i hopt
                    simp only [Res.yes.injEq] at hfx; subst hfx
                    exact ⟨MJ.refl env g0, by simp only [heq]; unfold optLike; rw [htr]; exact hopt⟩
                  · simp at hfx)
            h
          obtain ⟨mj, hall⟩ := hspec
          -- a common bound for the derivations of the fields
          have hbound : ∃ K, ∀ p ∈ fs2.toList, match lookupF fs1 p.1.getId with
              | some t1 => Dk env g' K t1 p.2
              | none => optLike env p.2 = true := by
            apply uniform_bound env g' (fun K (p : Label × Ty) => match lookupF fs1 p.1.getId with
              | some t1 => Dk env g' K t1 p.2
              | none => optLike env p.2 = true)
            · intro k m x hkm hp
              split
              · rename_i t1 heq; rw [heq] at hp; exact Dk_le env g' k m hkm _ _ hp
              · rename_i heq; rw [heq] at hp; exact hp
            · intro x hx
              have := hall x hx
              split at this
              · rename_i t1 heq; obtain ⟨k, hk⟩ := this; exact ⟨k, hk⟩
              · rename_i heq; exact ⟨0, this⟩
          obtain ⟨K, hK⟩ := hbound
          exact Ok.of_F mj K (F.record fs1 fs2 hK)
        case h_10 =>
          -- variants
          rename_i fs1 fs2 _
          simp only [safeTy] at ha hb
          have hspec := allM_spec env _
            (fun G (p : Label × Ty) => match lookupF fs2 p.1.getId with
              | some t2 => ∃ k, Dk env G k p.2 t2
              | none => False)
            (by
              intro G G' x hGG hq
              split
              · rename_i t2 heq; rw [heq] at hq; obtain ⟨k, hk⟩ := hq; exact ⟨k, Dk_mono env G G' hGG k _ _ hk⟩
              · rename_i heq; rw [heq] at hq; exact hq)
            fs1.toList g g'
            (by
              intro g0 x g1 hx hfx
              have hxs := fields_mem_safe env fs1 x ha hx
              split at hfx
              · rename_i t2 heq
                obtain ⟨mj, hd⟩ := ih g0 g1 x.2 t2 hxs (lookupF_safe env fs2 _ t2 hb heq) hfx
                exact ⟨mj, by simp only [heq]; exact hd⟩
              · simp at hfx)
            h
          obtain ⟨mj, hall⟩ := hspec
          have hbound : ∃ K, ∀ p ∈ fs1.toList, match lookupF fs2 p.1.getId with
              | some t2 => Dk env g' K p.2 t2
              | none => False := by
            apply uniform_bound env g' (fun K (p : Label × Ty) => match lookupF fs2 p.1.getId with
              | some t2 => Dk env g' K p.2 t2
              | none => False)
            · intro k m x hkm hp
              split
              · rename_i t2 heq; rw [heq] at hp; exact Dk_le env g' k m hkm _ _ hp
              · rename_i heq; rw [heq] at hp; exact hp
            · intro x hx
              have := hall x hx
              split at this
              · obtain ⟨k, hk⟩ := this; exact ⟨k, hk⟩
              · exact absurd this id
          obtain ⟨K, hK⟩ := hbound
          exact Ok.of_F mj K (F.variant fs1 fs2 hK)
        case h_11 =>
          -- services
          rename_i ms1 ms2 _
          simp only [safeTy] at ha hb
          have hspec := allM_spec env _
            (fun G (p : String × Ty) => match lookupM ms1 p.1 with
              | some t1 => ∃ k, Dk env G k t1 p.2
              | none => False)
            (by
              intro G G' x hGG hq
              split
              · rename_i t1 heq; rw [heq] at hq; obtain ⟨k, hk⟩ := hq; exact ⟨k, Dk_mono env G G' hGG k _ _ hk⟩
              · rename_i heq; rw [heq] at hq; exact hq)
            ms2.toList g g'
            (by
              intro g0 x g1 hx hfx
              have hxs := meths_mem_safe env ms2 x hb hx
              split at hfx
              · rename_i t1 heq
                obtain ⟨mj, hd⟩ := ih g0 g1 t1 x.2 (lookupM_safe env ms1 _ t1 ha heq) hxs hfx
                exact ⟨mj, by simp only [heq]; exact hd⟩
              · simp at hfx)
            h
          obtain ⟨mj, hall⟩ := hspec
          have hbound : ∃ K, ∀ p ∈ ms2.toList, match lookupM ms1 p.1 with
              | some t1 => Dk env g' K t1 p.2
              | none => False := by
            apply uniform_bound env g' (fun K (p : String × Ty) => match lookupM ms1 p.1 with
              | some t1 => Dk env g' K t1 p.2
              | none => False)
            · intro k m x hkm hp
              split
              · rename_i t1 heq; rw [heq] at hp; exact Dk_le env g' k m hkm _ _ hp
              · rename_i heq; rw [heq] at hp; exact hp
            · intro x hx
              have := hall x hx
              split at this
              · obtain ⟨k, hk⟩ := this; exact ⟨k, hk⟩
              · exact absurd this id
          obtain ⟨K, hK⟩ := hbound
          exact Ok.of_F mj K (F.service ms1 ms2 hK)
        case h_12 =>
          -- functions
          rename_i a1 r1 m1 a2 r2 m2 _
          simp only [safeTy, Bool.and_eq_true] at ha hb
          split at h
          · simp at h
          · rename_i hm
            have hm' : m1 = m2 := by simpa using hm
            subst hm'
            split at h
            · rename_i g1 hargs
              obtain ⟨mj1, k1, hk1⟩ := ih g g1 _ _ (tupleTy_safe env _ hb.1) (tupleTy_safe env _ ha.1) hargs
              obtain ⟨mj2, k2, hk2⟩ := ih g1 g' _ _ (tupleTy_safe env _ ha.2) (tupleTy_safe env _ hb.2) h
              have hk1' := Dk_le env g' k1 (max k1 k2) (Nat.le_max_left _ _) _ _ (Dk_mono env g1 g' mj2.mono k1 _ _ hk1)
              have hk2' := Dk_le env g' k2 (max k1 k2) (Nat.le_max_right _ _) _ _ hk2
              exact Ok.of_F (mj1.trans mj2) (max k1 k2) (F.func a1 r1 m1 a2 r2 hk1' hk2')
            · rename_i r hne
              exact absurd h (by intro hc; exact hne _ hc)
        case h_13 =>
          simp only [safeTy, Bool.and_eq_true] at ha
          obtain ⟨mj, k, hk⟩ := ih _ _ _ _ ha.2 hb h
          exact Ok.of_F mj k (F.clsL _ _ _ hnb hk)
        case h_14 =>
          simp only [safeTy, Bool.and_eq_true] at hb
          obtain ⟨mj, k, hk⟩ := ih _ _ _ _ ha hb.2 h
          rename_i hncls _
          exact Ok.of_F mj k (F.clsR _ _ _ hna (fun args' t' hc => hncls args' t' hc) hk)
        all_goals simp at h


theorem justified_step (env : Env) (g g' : Gamma) (hj : Justified env g) (mj : MJ env g g') : Justified env g' := by
  intro p hp
  rcases mj.just p hp with h | h
  · obtain ⟨k, hk⟩ := hj p h
    exact ⟨k, F_mono (fun x y hxy => Dk_mono env g g' mj.mono k x y hxy) _ _ hk⟩
  · exact h

/-- a successful check, started from a memo in which every pair is justified, proves a subtyping of the
specification and leaves a memo in which every pair is justified -/
theorem subAlg_sound_history (env : Env) (hse : SafeEnv env) (n : Nat) (g g' : Gamma) (a b : Ty)
    (ha : safeTy env a = true) (hb : safeTy env b = true) (hj : Justified env g)
    (h : subAlg env n g a b = .yes g') : Sub env a b ∧ Justified env g' := by
  obtain ⟨mj, k, hk⟩ := subAlg_sound env hse n g g' a b ha hb h
  have hj' := justified_step env g g' hj mj
  exact ⟨sub_of_Dk env g' hj' k a b hk, hj'⟩

theorem justified_nil (env : Env) : Justified env [] := fun _ h => by simp at h

end Candid.Sub
