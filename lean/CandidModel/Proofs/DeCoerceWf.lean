import CandidModel.Proofs.DeCoerce
/-
  C02, the "if" half for EVERY well-formed input (not only what the value writer produces: padded LEB128 numbers,
  lengths and variant indices included).  A value is well formed at a wire type when the specification's reader `M⁻¹`
  (`Wire.decVal`) accepts it; for such an input the decoder mirror at an expected type returns exactly the
  specification's coercion of the value the reader returns, and leaves exactly what the reader leaves.
  Same structure as `Proofs/DeCoerce` (whose outcome relations `Skips`, `CoRel`, `ArgRel` and type conditions `OKW`,
  `OKE` are reused); the hypothesis "the bytes are `serVal v`" is replaced by "`decVal` reads `v`".
-/
namespace Candid.De
open Candid Candid.Wire Candid.Leb Candid.Sub Candid.Native

/-! ## the wire type may contain reference types -/

/-- what is asked of every type within reach of the *wire* type: no placeholder, fields in strictly ascending order of
id; function and service references are allowed (they are skipped, read as principals, or fail the expected type) -/
def headOKW : Ty → Bool
  | .future | .knot _ | .unknown | .cls _ _ => false
  | .record fs | .variant fs => strictlyAscending (fs.toList.map (·.1.getId))
  | _ => true

def OKWr (env : Env) (w : Ty) : Prop := ∀ t, Reach env w t → headOKW t = true ∧ unitLit env t = true

theorem OKWr.step {env : Env} {a b : Ty} (h : OKWr env a) (hr : Reach env a b) : OKWr env b :=
  fun t ht => h t (Reach.trans hr ht)

theorem okwr_prim (env : Env) (p : Prim) : OKWr env (.prim p) := by
  intro t ht
  have := reach_prim env p t ht
  subst this
  exact ⟨rfl, rfl⟩

theorem OKW.toR {env : Env} {w : Ty} (h : OKW env w) : OKWr env w := by
  intro t ht
  obtain ⟨h1, h2⟩ := h t ht
  refine ⟨?_, h2⟩
  cases t <;> simp [headOK] at h1 <;> simp [headOKW] <;> exact h1

/-! ## what the specification's reader consumes is a prefix -/

/-- `r` is what is left of `bs` after some prefix -/
def Suf (r bs : Bytes) : Prop := ∃ b, bs = b ++ r

theorem Suf.refl (bs : Bytes) : Suf bs bs := ⟨[], rfl⟩
theorem Suf.trans {a b c : Bytes} (h1 : Suf a b) (h2 : Suf b c) : Suf a c := by
  obtain ⟨x, hx⟩ := h1; obtain ⟨y, hy⟩ := h2
  exact ⟨y ++ x, by rw [hy, hx, List.append_assoc]⟩
theorem Suf.cons (b : UInt8) (r : Bytes) : Suf r (b :: r) := ⟨[b], rfl⟩
theorem Suf.len {r bs : Bytes} (h : Suf r bs) : r.length ≤ bs.length := by
  obtain ⟨b, hb⟩ := h; rw [hb, List.length_append]; omega

theorem splitLeb_suf {bs p r : Bytes} (h : splitLeb bs = some (p, r)) : Suf r bs :=
  ⟨p, (splitLeb_sound bs p r h).1⟩

theorem splitLeb_consumes' {bs p r : Bytes} (h : splitLeb bs = some (p, r)) : r.length < bs.length := by
  have h1 := (splitLeb_sound bs p r h).1
  have h2 := splitLeb_ne_nil bs p r h
  rw [h1, List.length_append]
  have : 0 < p.length := List.length_pos_iff.mpr h2
  omega

theorem readLenDe_suf {bs r : Bytes} {n : Nat} (h : readLenDe bs = .ok (n, r)) : Suf r bs ∧ r.length < bs.length := by
  unfold readLenDe at h
  cases hs : splitLeb bs with
  | none => rw [hs] at h; simp at h
  | some x =>
    obtain ⟨p, r'⟩ := x
    rw [hs] at h
    simp only [] at h
    split at h
    · simp only [Outcome.ok.injEq, Prod.mk.injEq] at h
      rw [← h.2]
      exact ⟨splitLeb_suf hs, splitLeb_consumes' hs⟩
    · simp at h

theorem readLebCrate_suf {bs r : Bytes} {n : Nat} (h : readLebCrate bs = .ok (n, r)) : Suf r bs ∧ r.length < bs.length := by
  unfold readLebCrate at h
  cases hs : splitLeb bs with
  | none => rw [hs] at h; simp at h
  | some x =>
    obtain ⟨p, r'⟩ := x
    rw [hs] at h
    simp only [] at h
    split at h
    · simp only [Outcome.ok.injEq, Prod.mk.injEq] at h
      rw [← h.2]
      exact ⟨splitLeb_suf hs, splitLeb_consumes' hs⟩
    · simp at h

theorem takeN_suf {n : Nat} {bs b r : Bytes} (h : takeN n bs = .ok (b, r)) : bs = b ++ r ∧ b.length = n := by
  unfold takeN at h
  split at h
  · rename_i hn
    simp only [Outcome.ok.injEq, Prod.mk.injEq] at h
    rw [← h.1, ← h.2]
    exact ⟨(List.take_append_drop n bs).symm, by simp [Nat.min_eq_left hn]⟩
  · simp at h

theorem omap_ok2 {α β : Type} {x : Outcome α} {f : α → β} {b : β} (h : x.map f = .ok b) : ∃ a, x = .ok a ∧ f a = b := by
  cases x with
  | ok a => exact ⟨a, rfl, by simpa [Outcome.map] using h⟩
  | err k => simp [Outcome.map] at h
  | panic p => simp [Outcome.map] at h

theorem readPrincipal_suf {bs b r : Bytes} (h : readPrincipal bs = .ok (b, r)) : Suf r bs := by
  unfold readPrincipal at h
  cases bs with
  | nil => simp at h
  | cons flag rest =>
    simp only [] at h
    split at h
    · simp at h
    · cases hl : readLebCrate rest with
      | ok x =>
        obtain ⟨n, r1⟩ := x
        rw [hl] at h
        simp only [] at h
        split at h
        · simp at h
        · have := takeN_suf h
          exact Suf.trans (Suf.trans ⟨b, this.1⟩ (readLebCrate_suf hl).1) (Suf.cons flag rest)
      | err k => rw [hl] at h; simp at h
      | panic p => rw [hl] at h; simp at h

theorem decPrim_suf {p : Prim} {bs r : Bytes} {v : Val} (h : decPrim p bs = .ok (v, r)) : Suf r bs := by
  cases p with
  | null => simp only [decPrim, Outcome.ok.injEq, Prod.mk.injEq] at h; rw [← h.2]; exact Suf.refl _
  | reserved => simp only [decPrim, Outcome.ok.injEq, Prod.mk.injEq] at h; rw [← h.2]; exact Suf.refl _
  | empty => simp [decPrim] at h
  | bool =>
    simp only [decPrim] at h
    cases bs with
    | nil => simp at h
    | cons b rest =>
      simp only [] at h
      split at h
      · simp only [Outcome.ok.injEq, Prod.mk.injEq] at h; rw [← h.2]; exact Suf.cons _ _
      · split at h
        · simp only [Outcome.ok.injEq, Prod.mk.injEq] at h; rw [← h.2]; exact Suf.cons _ _
        · simp at h
  | nat =>
    simp only [decPrim, specReadNat] at h
    cases hs : splitLeb bs with
    | none => rw [hs] at h; simp at h
    | some x => obtain ⟨q, r'⟩ := x; rw [hs] at h; simp at h; rw [← h.2]; exact splitLeb_suf hs
  | int =>
    simp only [decPrim, specReadInt] at h
    cases hs : splitLeb bs with
    | none => rw [hs] at h; simp at h
    | some x => obtain ⟨q, r'⟩ := x; rw [hs] at h; simp at h; rw [← h.2]; exact splitLeb_suf hs
  | text =>
    simp only [decPrim] at h
    cases hl : readLenDe bs with
    | ok x =>
      obtain ⟨n, r0⟩ := x
      rw [hl] at h
      simp only [] at h
      cases ht : takeN n r0 with
      | ok y =>
        obtain ⟨b, r'⟩ := y
        rw [ht] at h
        simp only [] at h
        cases hu : utf8 b with
        | none => rw [hu] at h; simp at h
        | some str =>
          rw [hu] at h
          simp only [Outcome.ok.injEq, Prod.mk.injEq] at h
          rw [← h.2]
          exact Suf.trans ⟨b, (takeN_suf ht).1⟩ (readLenDe_suf hl).1
      | err k => rw [ht] at h; simp at h
      | panic q => rw [ht] at h; simp at h
    | err k => rw [hl] at h; simp at h
    | panic q => rw [hl] at h; simp at h
  | _ =>
    simp only [decPrim, readFixed] at h
    obtain ⟨a, h1, h2⟩ := omap_ok2 h
    obtain ⟨a', h1', h2'⟩ := omap_ok2 h1
    obtain ⟨b, r'⟩ := a'
    have := takeN_suf h1'
    subst h2'
    simp only [Prod.mk.injEq] at h2
    rw [← h2.2]
    exact ⟨b, this.1⟩

theorem decMany_suf (D : Bytes → Outcome (Val × Bytes)) (hD : ∀ bs v r, D bs = .ok (v, r) → Suf r bs) :
    ∀ (n : Nat) (bs : Bytes) (vs : List Val) (r : Bytes), decMany D n bs = .ok (vs, r) → Suf r bs := by
  intro n
  induction n with
  | zero => intro bs vs r h; simp only [decMany, Outcome.ok.injEq, Prod.mk.injEq] at h; rw [← h.2]; exact Suf.refl _
  | succ n ih =>
    intro bs vs r h
    simp only [decMany] at h
    cases hd : D bs with
    | ok x =>
      obtain ⟨v, r1⟩ := x
      rw [hd] at h
      simp only [] at h
      cases hm : decMany D n r1 with
      | ok y =>
        obtain ⟨vs', r2⟩ := y
        rw [hm] at h
        simp only [Outcome.ok.injEq, Prod.mk.injEq] at h
        rw [← h.2]
        exact Suf.trans (ih r1 vs' r2 hm) (hD bs v r1 hd)
      | err k => rw [hm] at h; simp at h
      | panic q => rw [hm] at h; simp at h
    | err k => rw [hd] at h; simp at h
    | panic q => rw [hd] at h; simp at h

theorem decFields_suf (D : Ty → Bytes → Outcome (Val × Bytes)) (hD : ∀ t bs v r, D t bs = .ok (v, r) → Suf r bs) :
    ∀ (fs : List (Label × Ty)) (bs : Bytes) (vs : List (Label × Val)) (r : Bytes), decFields D fs bs = .ok (vs, r) → Suf r bs := by
  intro fs
  induction fs with
  | nil => intro bs vs r h; simp only [decFields, Outcome.ok.injEq, Prod.mk.injEq] at h; rw [← h.2]; exact Suf.refl _
  | cons p fs ih =>
    intro bs vs r h
    obtain ⟨l, t⟩ := p
    simp only [decFields] at h
    cases hd : D t bs with
    | ok x =>
      obtain ⟨v, r1⟩ := x
      rw [hd] at h
      simp only [] at h
      cases hm : decFields D fs r1 with
      | ok y =>
        obtain ⟨vs', r2⟩ := y
        rw [hm] at h
        simp only [Outcome.ok.injEq, Prod.mk.injEq] at h
        rw [← h.2]
        exact Suf.trans (ih r1 vs' r2 hm) (hD t bs v r1 hd)
      | err k => rw [hm] at h; simp at h
      | panic q => rw [hm] at h; simp at h
    | err k => rw [hd] at h; simp at h
    | panic q => rw [hd] at h; simp at h

/-- what the specification's reader leaves is a suffix of its input -/
theorem decVal_suf (env : Env) : ∀ (f : Nat) (t : Ty) (bs : Bytes) (v : Val) (r : Bytes), decVal env f t bs = .ok (v, r) → Suf r bs := by
  intro f
  induction f with
  | zero => intro t bs v r h; simp [decVal] at h
  | succ f ih =>
    intro t bs v r h
    cases t with
    | prim p => simp only [decVal] at h; exact decPrim_suf h
    | principal =>
      simp only [decVal] at h
      obtain ⟨a, h1, h2⟩ := omap_ok2 h
      obtain ⟨b, r'⟩ := a
      simp only [Prod.mk.injEq] at h2
      rw [← h2.2]; exact readPrincipal_suf h1
    | service ms =>
      simp only [decVal] at h
      obtain ⟨a, h1, h2⟩ := omap_ok2 h
      obtain ⟨b, r'⟩ := a
      simp only [Prod.mk.injEq] at h2
      rw [← h2.2]; exact readPrincipal_suf h1
    | var x =>
      simp only [decVal] at h
      cases hf : env.find x with
      | none => rw [hf] at h; simp at h
      | some d => rw [hf] at h; exact ih d bs v r h
    | opt t' =>
      simp only [decVal] at h
      cases bs with
      | nil => simp at h
      | cons b rest =>
        simp only [] at h
        split at h
        · simp only [Outcome.ok.injEq, Prod.mk.injEq] at h; rw [← h.2]; exact Suf.cons _ _
        · split at h
          · obtain ⟨a, h1, h2⟩ := omap_ok2 h
            obtain ⟨v', r'⟩ := a
            simp only [Prod.mk.injEq] at h2
            rw [← h2.2]
            exact Suf.trans (ih t' rest v' r' h1) (Suf.cons _ _)
          · simp at h
    | vec t' =>
      simp only [decVal] at h
      cases hl : readLenDe bs with
      | ok x =>
        obtain ⟨n, r0⟩ := x
        rw [hl] at h
        simp only [] at h
        obtain ⟨a, h1, h2⟩ := omap_ok2 h
        obtain ⟨vs, r'⟩ := a
        simp only [Prod.mk.injEq] at h2
        rw [← h2.2]
        exact Suf.trans (decMany_suf _ (fun bs v r => ih t' bs v r) n r0 vs r' h1) (readLenDe_suf hl).1
      | err k => rw [hl] at h; simp at h
      | panic q => rw [hl] at h; simp at h
    | record fs =>
      simp only [decVal] at h
      obtain ⟨a, h1, h2⟩ := omap_ok2 h
      obtain ⟨vs, r'⟩ := a
      simp only [Prod.mk.injEq] at h2
      rw [← h2.2]
      exact decFields_suf _ (fun t bs v r => ih t bs v r) fs.toList bs vs r' h1
    | variant fs =>
      simp only [decVal] at h
      cases hl : readLebCrate bs with
      | ok x =>
        obtain ⟨i, r0⟩ := x
        rw [hl] at h
        simp only [] at h
        cases hg : fs.toList[i]? with
        | none => rw [hg] at h; simp at h
        | some q =>
          obtain ⟨l, t'⟩ := q
          rw [hg] at h
          simp only [] at h
          obtain ⟨a, h1, h2⟩ := omap_ok2 h
          obtain ⟨v', r'⟩ := a
          simp only [Prod.mk.injEq] at h2
          rw [← h2.2]
          exact Suf.trans (ih t' r0 v' r' h1) (readLebCrate_suf hl).1
      | err k => rw [hl] at h; simp at h
      | panic q => rw [hl] at h; simp at h
    | func a b c =>
      simp only [decVal] at h
      cases bs with
      | nil => simp at h
      | cons b0 rest =>
        simp only [] at h
        split at h
        · simp at h
        · split at h
          · simp at h
          · cases hp : readPrincipal rest with
            | ok x =>
              obtain ⟨pid, r1⟩ := x
              rw [hp] at h
              simp only [] at h
              cases hl : readLenDe r1 with
              | ok y =>
                obtain ⟨n, r2⟩ := y
                rw [hl] at h
                simp only [] at h
                cases ht : takeN n r2 with
                | ok z =>
                  obtain ⟨mm, r3⟩ := z
                  rw [ht] at h
                  simp only [] at h
                  cases hu : utf8 mm with
                  | none => rw [hu] at h; simp at h
                  | some str =>
                    rw [hu] at h
                    simp only [Outcome.ok.injEq, Prod.mk.injEq] at h
                    rw [← h.2]
                    exact Suf.trans (Suf.trans (Suf.trans ⟨mm, (takeN_suf ht).1⟩ (readLenDe_suf hl).1) (readPrincipal_suf hp))
                      (Suf.cons _ _)
                | err k => rw [ht] at h; simp at h
                | panic q => rw [ht] at h; simp at h
              | err k => rw [hl] at h; simp at h
              | panic q => rw [hl] at h; simp at h
            | err k => rw [hp] at h; simp at h
            | panic q => rw [hp] at h; simp at h
    | future =>
      simp only [decVal] at h
      cases hl : readLenDe bs with
      | ok x =>
        obtain ⟨n, r0⟩ := x
        rw [hl] at h
        simp only [] at h
        cases hl2 : readLenDe r0 with
        | ok y =>
          obtain ⟨n2, r1⟩ := y
          rw [hl2] at h
          simp only [] at h
          obtain ⟨a, h1, h2⟩ := omap_ok2 h
          obtain ⟨b, r'⟩ := a
          simp only [Prod.mk.injEq] at h2
          rw [← h2.2]
          exact Suf.trans (Suf.trans ⟨b, (takeN_suf h1).1⟩ (readLenDe_suf hl2).1) (readLenDe_suf hl).1
        | err k => rw [hl2] at h; simp at h
        | panic q => rw [hl2] at h; simp at h
      | err k => rw [hl] at h; simp at h
      | panic q => rw [hl] at h; simp at h
    | _ => simp [decVal] at h

/-- the reader sees through names -/
theorem decVal_untrace (env : Env) : ∀ (k : Nat) (t t' : Ty) (f : Nat) (bs : Bytes) (x : Val × Bytes),
    env.trace k t = some t' → decVal env f t bs = .ok x → ∃ f', decVal env f' t' bs = .ok x := by
  intro k
  induction k with
  | zero => intro t t' f bs x h; simp [Env.trace] at h
  | succ k ih =>
    intro t t' f bs x h hd
    cases t with
    | var y =>
      simp only [Env.trace] at h
      cases f with
      | zero => simp [decVal] at hd
      | succ f =>
        simp only [decVal] at hd
        cases hf : env.find y with
        | none => rw [hf] at hd; simp at hd
        | some d => rw [hf] at h hd; exact ih d t' f bs x h hd
    | _ => simp only [Env.trace, Option.some.injEq] at h; subst h; exact ⟨f, hd⟩

theorem decVal_at_trace (env : Env) (k : Nat) (t t' : Ty) (f : Nat) (bs : Bytes) (x : Val × Bytes)
    (ht : traceAt env k t = some t') (hd : decVal env f t bs = .ok x) : ∃ f', decVal env f' t' bs = .ok x := by
  unfold traceAt at ht
  split at ht
  · exact decVal_untrace env k t t' f bs x ht hd
  · simp only [Option.some.injEq] at ht; subst ht; exact ⟨f, hd⟩

theorem small_suf (s : St) (r : Bytes) (_ : Small s) (_ : Suf r s.input) : Small (inp s r) := trivial

/-! ## leaves -/

theorem natAs_of_spec (mkv : Nat → Val) (bs : Bytes) (n : Nat) (r : Bytes) (h : specReadNat bs = some (n, r)) :
    natAs mkv bs = .ok (mkv n, r) := by
  unfold natAs
  rw [natDecode_spec, h]

theorem intAs_of_spec (bs : Bytes) (i : Int) (r : Bytes) (h : specReadInt bs = some (i, r)) :
    intAs bs = .ok (.int i, r) := by
  unfold intAs
  rw [intDecode_spec, h]

theorem decPrim_nat_inv {bs r : Bytes} {v : Val} (h : decPrim .nat bs = .ok (v, r)) :
    ∃ n, v = .nat n ∧ specReadNat bs = some (n, r) := by
  simp only [decPrim] at h
  cases hs : specReadNat bs with
  | none => rw [hs] at h; simp at h
  | some x =>
    obtain ⟨n, r'⟩ := x
    rw [hs] at h
    simp only [Outcome.ok.injEq, Prod.mk.injEq] at h
    exact ⟨n, h.1.symm, by rw [h.2]⟩

theorem decPrim_int_inv {bs r : Bytes} {v : Val} (h : decPrim .int bs = .ok (v, r)) :
    ∃ i, v = .int i ∧ specReadInt bs = some (i, r) := by
  simp only [decPrim] at h
  cases hs : specReadInt bs with
  | none => rw [hs] at h; simp at h
  | some x =>
    obtain ⟨n, r'⟩ := x
    rw [hs] at h
    simp only [Outcome.ok.injEq, Prod.mk.injEq] at h
    exact ⟨n, h.1.symm, by rw [h.2]⟩

theorem text_wf (s : St) (v : Val) (r : Bytes) (h : decPrim .text s.input = .ok (v, r)) (hu : Unmetered s) :
    ((lenBytes s).bind fun bb s' => match utf8 bb with | some str => R.ok (Val.text str) s' | none => .err .malformed) =
      .ok v (inp s r) := by
  simp only [decPrim] at h
  cases hl : readLenDe s.input with
  | ok x =>
    obtain ⟨n, r0⟩ := x
    rw [hl] at h
    simp only [] at h
    cases ht : takeN n r0 with
    | ok y =>
      obtain ⟨b, r'⟩ := y
      rw [ht] at h
      simp only [] at h
      cases hu8 : utf8 b with
      | none => rw [hu8] at h; simp at h
      | some str =>
        rw [hu8] at h
        simp only [Outcome.ok.injEq, Prod.mk.injEq] at h
        unfold lenBytes
        rw [rd_ok readLenDe s n r0 hl]
        simp only [rbind_ok]
        rw [addCost_unmetered_ok _ (inp_unmetered s _ hu)]
        simp only [rbind_ok]
        rw [rd_ok (takeN n) (inp s r0) b r' (by rw [inp_input]; exact ht)]
        simp only [rbind_ok, hu8, inp_inp]
        rw [h.1, h.2]
    | err k => rw [ht] at h; simp at h
    | panic q => rw [ht] at h; simp at h
  | err k => rw [hl] at h; simp at h
  | panic q => rw [hl] at h; simp at h

theorem principal_wf (s : St) (pb r : Bytes) (h : readPrincipal s.input = .ok (pb, r)) (hu : Unmetered s) :
    dePrincipalBytes s = .ok pb (inp s r) := by
  unfold dePrincipalBytes
  rw [rd_ok readPrincipal s pb r h]
  simp only [R.bind]
  rw [addCost_unmetered_ok _ (inp_unmetered s _ hu)]
  rfl

/-! ## sequences the reader accepts -/

/-- elements the reader accepts, read one after the other by an exact element reader -/
theorem iterV_of_decMany (g : St → R Val) (D : Bytes → Outcome (Val × Bytes))
    (hg : ∀ (s' : St) (v : Val) (r' : Bytes), D s'.input = .ok (v, r') → Unmetered s' → g s' = .ok v (inp s' r')) :
    ∀ (n : Nat) (s : St) (vs : List Val) (r : Bytes), decMany D n s.input = .ok (vs, r) → Unmetered s →
      iterV g n s = .ok vs (inp s r) := by
  intro n
  induction n with
  | zero =>
    intro s vs r h _
    simp only [decMany, Outcome.ok.injEq, Prod.mk.injEq] at h
    simp only [iterV]
    rw [← h.1, ← h.2, inp_self]
  | succ n ih =>
    intro s vs r h hu
    simp only [decMany] at h
    cases hd : D s.input with
    | ok x =>
      obtain ⟨v, r1⟩ := x
      rw [hd] at h
      simp only [] at h
      cases hm : decMany D n r1 with
      | ok y =>
        obtain ⟨vs', r2⟩ := y
        rw [hm] at h
        simp only [Outcome.ok.injEq, Prod.mk.injEq] at h
        simp only [iterV]
        rw [hg s v r1 hd hu]
        simp only [rbind_ok]
        rw [ih (inp s r1) vs' r2 (by rw [inp_input]; exact hm) (inp_unmetered s _ hu)]
        simp only [R.map, R.bind, inp_inp]
        rw [← h.1, ← h.2]
      | err k => rw [hm] at h; simp at h
      | panic q => rw [hm] at h; simp at h
    | err k => rw [hd] at h; simp at h
    | panic q => rw [hd] at h; simp at h

/-- each accepted element takes at least `c` bytes: `n` of them take at least `n * c` -/
theorem decMany_len (D : Bytes → Outcome (Val × Bytes)) (c : Nat)
    (hD : ∀ bs v r, D bs = .ok (v, r) → r.length + c ≤ bs.length) :
    ∀ (n : Nat) (bs : Bytes) (vs : List Val) (r : Bytes), decMany D n bs = .ok (vs, r) → r.length + n * c ≤ bs.length := by
  intro n
  induction n with
  | zero => intro bs vs r h; simp only [decMany, Outcome.ok.injEq, Prod.mk.injEq] at h; rw [← h.2]; omega
  | succ n ih =>
    intro bs vs r h
    simp only [decMany] at h
    cases hd : D bs with
    | ok x =>
      obtain ⟨v, r1⟩ := x
      rw [hd] at h
      simp only [] at h
      cases hm : decMany D n r1 with
      | ok y =>
        obtain ⟨vs', r2⟩ := y
        rw [hm] at h
        simp only [Outcome.ok.injEq, Prod.mk.injEq] at h
        have h1 := hD bs v r1 hd
        have h2 := ih r1 vs' r2 hm
        rw [← h.2, Nat.add_mul]
        omega
      | err k => rw [hm] at h; simp at h
      | panic q => rw [hm] at h; simp at h
    | err k => rw [hd] at h; simp at h
    | panic q => rw [hd] at h; simp at h

/-! ## skipping a well-formed value -/

def SKIw (env : Env) (m : Nat) : Prop :=
  ∀ (w : Ty) (v : Val) (f : Nat) (r : Bytes) (s : St), decVal env f w s.input = .ok (v, r) →
    Unmetered s → OKWr env w → Small s → Skips (deIgnored env m w s) s r

def SKAw (env : Env) (m : Nat) : Prop :=
  ∀ (w : Ty) (v : Val) (f : Nat) (r : Bytes) (s : St), decVal env f w s.input = .ok (v, r) →
    Unmetered s → OKWr env w → Small s → Skips (deAny env .ignored m w w s) s r

theorem skiw_of_skaw (env : Env) (m : Nat) (h : SKAw env m) : SKIw env (m + 1) := by
  intro w v f r s hd hu hok hsm
  rw [deIgnored_succ]
  rcases h w v f r { s with untyped := true } hd hu hok hsm with h1 | ⟨x, h1⟩
  · left; rw [h1]; rfl
  · right; rw [h1]; exact ⟨x, by cases s; rfl⟩

/-- elements skipped one after the other -/
theorem iterV_skips_w (g : St → R Val) (D : Bytes → Outcome (Val × Bytes)) (hsuf : ∀ bs v r, D bs = .ok (v, r) → Suf r bs)
    (hg : ∀ (s' : St) (v : Val) (r' : Bytes), D s'.input = .ok (v, r') → Unmetered s' → Small s' → Skips (g s') s' r') :
    ∀ (n : Nat) (s : St) (vs : List Val) (r : Bytes), decMany D n s.input = .ok (vs, r) → Unmetered s → Small s →
      iterV g n s = .err .limit ∨ ∃ xs, iterV g n s = .ok xs (inp s r) := by
  intro n
  induction n with
  | zero =>
    intro s vs r h _ _
    simp only [decMany, Outcome.ok.injEq, Prod.mk.injEq] at h
    right
    exact ⟨[], by simp only [iterV]; rw [← h.2, inp_self]⟩
  | succ n ih =>
    intro s vs r h hu hsm
    simp only [decMany] at h
    cases hd : D s.input with
    | ok x =>
      obtain ⟨v, r1⟩ := x
      rw [hd] at h
      simp only [] at h
      cases hm : decMany D n r1 with
      | ok y =>
        obtain ⟨vs', r2⟩ := y
        rw [hm] at h
        simp only [Outcome.ok.injEq, Prod.mk.injEq] at h
        simp only [iterV]
        rcases hg s v r1 hd hu hsm with h1 | ⟨x, h1⟩
        · left; rw [h1]; rfl
        · rw [h1]
          simp only [rbind_ok]
          rcases ih (inp s r1) vs' r2 (by rw [inp_input]; exact hm) (inp_unmetered s _ hu)
            (small_suf s r1 hsm (hsuf _ _ _ hd)) with h2 | ⟨xs, h2⟩
          · left; rw [h2]; rfl
          · right; rw [h2]; exact ⟨x :: xs, by simp only [R.map, R.bind, inp_inp]; rw [h.2]⟩
      | err k => rw [hm] at h; simp at h
      | panic q => rw [hm] at h; simp at h
    | err k => rw [hd] at h; simp at h
    | panic q => rw [hd] at h; simp at h

/-- the fields of a record skipped in wire order -/
theorem fields_skip_w (env : Env) (F : Nat) (hI : ∀ k < F, SKIw env k) (fr : Nat) : ∀ (wfs : List (Label × Ty))
    (f : Nat), f ≤ F → ∀ (vfs : List (Label × Val)) (r : Bytes) (s : St) (acc : List (Label × Val)),
    decFields (decVal env fr) wfs s.input = .ok (vfs, r) → Unmetered s → (∀ p ∈ wfs, OKWr env p.2) → Small s →
    Skips (deFields env .ignored f (wfs.map fun p => FieldStep.both p.1 p.2 p.2) s acc) s r := by
  intro wfs
  induction wfs with
  | nil =>
    intro f _ vfs r s acc h hu _ _
    simp only [decFields, Outcome.ok.injEq, Prod.mk.injEq] at h
    cases f with
    | zero => left; rfl
    | succ f =>
      right
      simp only [List.map_nil, deFields]
      rw [addCost_unmetered_ok s hu]
      exact ⟨_, by simp only [R.map, R.bind]; rw [← h.2, inp_self]⟩
  | cons p wfs ih =>
    intro f hf vfs r s acc h hu hok hsm
    obtain ⟨l, t⟩ := p
    simp only [decFields] at h
    cases hd : decVal env fr t s.input with
    | ok x =>
      obtain ⟨v, r1⟩ := x
      rw [hd] at h
      simp only [] at h
      cases hm : decFields (decVal env fr) wfs r1 with
      | ok y =>
        obtain ⟨vs', r2⟩ := y
        rw [hm] at h
        simp only [Outcome.ok.injEq, Prod.mk.injEq] at h
        cases f with
        | zero => left; rfl
        | succ f =>
          simp only [List.map_cons, deFields]
          rw [addCost_unmetered_ok s hu]
          simp only [rbind_ok]
          rw [addCost_unmetered_ok s hu]
          simp only [rbind_ok]
          rw [addCost_unmetered_ok s hu]
          simp only [rbind_ok, if_true]
          rcases hI f (by omega) t v fr r1 s hd hu (hok (l, t) (by simp)) hsm with h1 | ⟨x, h1⟩
          · left; rw [h1]; rfl
          · rw [h1]
            simp only [rbind_ok]
            have := ih f (by omega) vs' r2 (inp s r1) ((l, x) :: acc) (by rw [inp_input]; exact hm)
              (inp_unmetered s _ hu) (fun p hp => hok p (by simp [hp])) (small_suf s r1 hsm (decVal_suf env fr t _ v r1 hd))
            rw [← h.2]
            exact this.of_inp
      | err k => rw [hm] at h; simp at h
      | panic q => rw [hm] at h; simp at h
    | err k => rw [hd] at h; simp at h
    | panic q => rw [hd] at h; simp at h

theorem decVal_prim (env : Env) (fr : Nat) (p : Prim) (bs : Bytes) (x : Val × Bytes) (h : decVal env fr (.prim p) bs = .ok x) :
    decPrim p bs = .ok x := by
  cases fr with
  | zero => simp [decVal] at h
  | succ fr => simpa [decVal] using h

theorem decPrim_nat_len {bs r : Bytes} {v : Val} (h : decPrim .nat bs = .ok (v, r)) : r.length + 1 ≤ bs.length := by
  obtain ⟨n, _, hs⟩ := decPrim_nat_inv h
  simp only [specReadNat] at hs
  cases hsp : splitLeb bs with
  | none => rw [hsp] at hs; simp at hs
  | some x =>
    obtain ⟨q, r'⟩ := x
    rw [hsp] at hs
    simp only [Option.map_some, Option.some.injEq, Prod.mk.injEq] at hs
    have := splitLeb_consumes' hsp
    rw [hs.2] at this
    omega

theorem decPrim_int_len {bs r : Bytes} {v : Val} (h : decPrim .int bs = .ok (v, r)) : r.length + 1 ≤ bs.length := by
  obtain ⟨n, _, hs⟩ := decPrim_int_inv h
  simp only [specReadInt] at hs
  cases hsp : splitLeb bs with
  | none => rw [hsp] at hs; simp at hs
  | some x =>
    obtain ⟨q, r'⟩ := x
    rw [hsp] at hs
    simp only [Option.map_some, Option.some.injEq, Prod.mk.injEq] at hs
    have := splitLeb_consumes' hsp
    rw [hs.2] at this
    omega

/-- the elements of a vector skipped on each of the three paths -/
theorem vec_skip_w (env : Env) (m : Nat) (hI : SKIw env m) (ww : Ty) (fr n : Nat) (r0 r : Bytes) (vs : List Val) (s : St)
    (hl : readLenDe s.input = .ok (n, r0)) (hm : decMany (decVal env fr ww) n r0 = .ok (vs, r))
    (hu : Unmetered s) (hok : OKWr env ww) (hsm : Small s) :
    Skips (deVecCase env .ignored m (deAny env .ignored m) (deIgnored env m) (.vec ww) ww s) s r := by
  unfold deVecCase
  simp only []
  cases htr : env.trace m ww with
  | none => left; rfl
  | some wire =>
    simp only []
    rw [rd_ok readLenDe s n r0 hl]
    simp only [rbind_ok]
    have hu2 : Unmetered (inp s r0) := inp_unmetered s _ hu
    have hsm2 : Small (inp s r0) := small_suf s r0 hsm (readLenDe_suf hl).1
    have hokw : OKWr env wire := hok.step (reach_trace env m ww wire htr)
    have hm2 : decMany (decVal env fr ww) n (inp s r0).input = .ok (vs, r) := by rw [inp_input]; exact hm
    refine Skips.of_inp (a := r0) ?_
    cases hx : exactPrim ww wire with
    | some p =>
      simp only []
      obtain ⟨hee, hwire, sz, hsz⟩ : ww = .prim p ∧ wire = .prim p ∧ ∃ sz, primSize p = some sz := by
        unfold exactPrim at hx
        split at hx
        · split at hx
          · rename_i hc; simp only [Option.some.injEq] at hx; subst hx
            exact ⟨rfl, by rw [hc.1], Option.isSome_iff_exists.mp hc.2⟩
          · simp at hx
        · simp at hx
      subst hee hwire
      have hsz1 : 1 ≤ sz ∧ sz ≤ 8 := by cases p <;> simp [primSize] at hsz <;> omega
      simp only [hsz, Option.getD_some]
      have hlen := decMany_len (decVal env fr (.prim p)) sz (fun bs v r' h => by
        have := decPrim_consumes p sz hsz bs r' v (decVal_prim env fr p bs _ h); omega) n r0 vs r hm
      have hn : n ≤ r0.length := by
        have : n ≤ n * sz := Nat.le_mul_of_pos_right _ hsz1.1
        omega
      by_cases h1 : n * (3 + sz) > usizeMax
      · rw [if_pos h1]; first | exact Or.inl rfl | exact CoRel.starvedR _ _ _
      rw [if_neg h1, addCost_unmetered_ok _ hu2]
      simp only [rbind_ok]
      rw [if_neg (by rw [inp_input]; omega)]
      rw [iterV_of_decMany (fun st => rd (decPrim p) st) (decVal env fr (.prim p))
        (fun s' v r' h _ => rd_ok (decPrim p) s' v r' (decVal_prim env fr p _ _ h)) n (inp s r0) vs r hm2 hu2]
      right
      exact ⟨Val.vec vs, by simp only [R.map, R.bind]⟩
    | none =>
      simp only []
      cases hb : bigPrimOf ww wire with
      | some wp =>
        simp only []
        have hcases : (ww = .prim .nat ∧ wp = .nat) ∨ (ww = .prim .int ∧ wp = .int) := by
          unfold bigPrimOf at hb
          split at hb
          · left; simp only [Option.some.injEq] at hb; exact ⟨rfl, hb.symm⟩
          · right; simp only [Option.some.injEq] at hb; exact ⟨rfl, hb.symm⟩
          · exfalso
            cases m <;> simp [Env.trace] at htr
          · simp at hb
        have hlen : r.length + n * 1 ≤ r0.length := by
          rcases hcases with ⟨h1, _⟩ | ⟨h1, _⟩ <;> subst h1
          · exact decMany_len _ 1 (fun bs v r' h => decPrim_nat_len (decVal_prim env fr _ bs _ h)) n r0 vs r hm
          · exact decMany_len _ 1 (fun bs v r' h => decPrim_int_len (decVal_prim env fr _ bs _ h)) n r0 vs r hm
        have hn : n ≤ r0.length := by omega
        by_cases h1 : n * 3 > usizeMax
        · rw [if_pos h1]; first | exact Or.inl rfl | exact CoRel.starvedR _ _ _
        rw [if_neg h1, addCost_unmetered_ok _ hu2]
        simp only [rbind_ok]
        rcases hcases with ⟨h1, h3⟩ | ⟨h1, h3⟩ <;> subst h1 h3
        · simp only [if_true, show ((Ty.prim Prim.nat) = Ty.prim Prim.int) = False from by simp, if_false]
          rw [iterV_of_decMany (fun st => bigNum (natAs fun m => Val.nat m) st) (decVal env fr (.prim .nat))
            (fun s' v r' h hu' => by
              obtain ⟨k, hv, hsp⟩ := decPrim_nat_inv (decVal_prim env fr _ _ _ h)
              subst hv
              exact bigNum_ok _ s' hu' _ r' (natAs_of_spec _ _ _ _ hsp)) n (inp s r0) vs r hm2 hu2]
          right
          exact ⟨Val.vec vs, by simp only [R.map, R.bind]⟩
        · simp only [show (Prim.int = Prim.nat) = False from by simp, if_false]
          rw [iterV_of_decMany (fun st => bigNum intAs st) (decVal env fr (.prim .int))
            (fun s' v r' h hu' => by
              obtain ⟨k, hv, hsp⟩ := decPrim_int_inv (decVal_prim env fr _ _ _ h)
              subst hv
              exact bigNum_ok _ s' hu' _ r' (intAs_of_spec _ _ _ hsp)) n (inp s r0) vs r hm2 hu2]
          right
          exact ⟨Val.vec vs, by simp only [R.map, R.bind]⟩
      | none =>
        simp only [if_true]
        rcases iterV_skips_w (fun s => (addCost s 3).bind fun _ s' => deIgnored env m wire s') (decVal env fr ww)
          (fun bs v r' h => decVal_suf env fr ww bs v r' h)
          (fun s' v r' h hu' hsm' => by
            rw [addCost_unmetered_ok s' hu']
            simp only [rbind_ok]
            obtain ⟨f', hf'⟩ := decVal_untrace env m ww wire fr _ _ htr h
            exact hI wire v f' r' s' hf' hu' hokw hsm') n (inp s r0) vs r hm2 hu2 hsm2 with h | ⟨xs, h⟩
        · left; rw [h]; rfl
        · right; rw [h]; exact ⟨Val.vec xs, by simp only [R.map, R.bind]⟩

/-! ### references on the wire -/

/-- `check_subtype` of a type against itself: the checker's first test (`a = b`), the memo is left as it was -/
theorem checkSubtype_refl (env : Env) (t : Ty) (s : St) (hu : Unmetered s) : checkSubtype env t t s = .ok () s := by
  unfold checkSubtype
  rw [addCost_unmetered_ok s hu]
  simp only [rbind_ok]
  have : Sub.subAlg env Sub.defaultFuel s.gamma t t = .yes s.gamma := by
    unfold Sub.defaultFuel
    rw [show (4000 : Nat) = 3999 + 1 from rfl]
    simp [Sub.subAlg]
  rw [this]

/-- a function reference the reader accepts is read by `deserialize_function` -/
theorem deFuncCase_wf (env : Env) (fr : Nat) (a b : Tys) (c : List FuncMode) (s : St) (v : Val) (r : Bytes)
    (hd : decVal env (fr + 1) (.func a b c) s.input = .ok (v, r)) (hu : Unmetered s) :
    deFuncCase (.func a b c) s = .ok v (inp s r) := by
  simp only [decVal] at hd
  unfold deFuncCase
  simp only []
  cases hinp : s.input with
  | nil => rw [hinp] at hd; simp at hd
  | cons b0 rest =>
    rw [hinp] at hd
    simp only [] at hd ⊢
    by_cases hb0 : b0 = 0
    · simp [hb0] at hd
    · simp only [hb0, if_false] at hd ⊢
      by_cases hb1 : b0 ≠ 1
      · simp [hb1] at hd
      · simp only [hb1, if_false] at hd ⊢
        cases hp : readPrincipal rest with
        | ok x =>
          obtain ⟨pid, r1⟩ := x
          rw [hp] at hd
          simp only [] at hd
          cases hl : readLenDe r1 with
          | ok y =>
            obtain ⟨n, r2⟩ := y
            rw [hl] at hd
            simp only [] at hd
            cases ht : takeN n r2 with
            | ok z =>
              obtain ⟨mm, r3⟩ := z
              rw [ht] at hd
              simp only [] at hd
              cases hu8 : utf8 mm with
              | none => rw [hu8] at hd; simp at hd
              | some str =>
                rw [hu8] at hd
                simp only [Outcome.ok.injEq, Prod.mk.injEq] at hd
                rw [rd_ok readPrincipal { s with input := rest } pid r1 hp]
                simp only [rbind_ok]
                rw [rd_ok readLenDe _ n r2 (by rw [inp_input]; exact hl)]
                simp only [rbind_ok]
                rw [rd_ok (takeN n) _ mm r3 (by rw [inp_input]; exact ht)]
                simp only [rbind_ok]
                rw [addCost_unmetered_ok _ (by exact hu)]
                simp only [rbind_ok, hu8]
                rw [← hd.1, ← hd.2]
                rfl
            | err k => rw [ht] at hd; simp at hd
            | panic q => rw [ht] at hd; simp at hd
          | err k => rw [hl] at hd; simp at hd
          | panic q => rw [hl] at hd; simp at hd
        | err k => rw [hp] at hd; simp at hd
        | panic q => rw [hp] at hd; simp at hd

/-- one level of the skip on any input the reader accepts -/
theorem ska_step_w (env : Env) (m : Nat) (hI : ∀ k ≤ m, SKIw env k) : SKAw env (m + 1) := by
  intro w v f r s hd hu hok hsm
  rw [deAny_succ, unroll_char env m w w s hu]
  cases ht : traceAt env m w with
  | none => left; rfl
  | some w' =>
    simp only [rbind_ok]
    have hreach : Reach env w w' := reach_traceFull env w w' (traceAt_full env m w w' ht)
    have hok' := hok.step hreach
    obtain ⟨f', hd'⟩ := decVal_at_trace env m w w' f _ _ ht hd
    have hhead := (hok' w' (Reach.refl _)).1
    cases f' with
    | zero => simp [decVal] at hd'
    | succ fr =>
    cases w' with
    | prim p =>
      simp only [decVal] at hd'
      cases p with
      | nat =>
        obtain ⟨n, hv, hsp⟩ := decPrim_nat_inv hd'
        right
        simp only [deAnyBody, if_true]
        exact ⟨_, bigNum_ok _ s hu _ r (natAs_of_spec _ _ _ _ hsp)⟩
      | int =>
        obtain ⟨n, hv, hsp⟩ := decPrim_int_inv hd'
        right
        simp only [deAnyBody]
        exact ⟨_, bigNum_ok _ s hu _ r (intAs_of_spec _ _ _ hsp)⟩
      | text =>
        right
        simp only [deAnyBody, if_true]
        exact ⟨v, text_wf s v r hd' hu⟩
      | reserved =>
        simp only [decPrim, Outcome.ok.injEq, Prod.mk.injEq] at hd'
        right
        simp only [deAnyBody, ne_eq, not_true_eq_false, if_false, rbind_ok]
        rw [addCost_unmetered_ok s hu]
        exact ⟨.reserved, by simp only [R.map, R.bind]; rw [← hd'.2, inp_self]⟩
      | empty => simp [decPrim] at hd'
      | _ =>
        right
        simp only [deAnyBody, dePrimExact, and_self, if_true]
        rw [addCost_unmetered_ok s hu]
        simp only [rbind_ok]
        exact ⟨v, rd_ok _ s v r hd'⟩
    | principal =>
      simp only [decVal] at hd'
      obtain ⟨a, h1, h2⟩ := omap_ok2 hd'
      obtain ⟨pb, r'⟩ := a
      simp only [Prod.mk.injEq] at h2
      right
      simp only [deAnyBody]
      rw [principal_wf s pb r' h1 hu, ← h2.2]
      exact ⟨_, rfl⟩
    | opt w2 =>
      simp only [deAnyBody]
      rw [addCost_unmetered_ok s hu]
      simp only [rbind_ok, deOptCase]
      simp only [decVal] at hd'
      cases hinp : s.input with
      | nil => rw [hinp] at hd'; simp at hd'
      | cons b rest =>
        rw [hinp] at hd'
        simp only [] at hd' ⊢
        by_cases hb0 : b = 0
        · simp only [hb0, if_true, Outcome.ok.injEq, Prod.mk.injEq] at hd' ⊢
          right
          exact ⟨.none, by rw [← hd'.2]; rfl⟩
        · simp only [hb0, if_false] at hd' ⊢
          by_cases hb1 : b = 1
          · simp only [hb1, if_true] at hd' ⊢
            obtain ⟨a, h1, h2⟩ := omap_ok2 hd'
            obtain ⟨v2, r'⟩ := a
            simp only [Prod.mk.injEq] at h2
            cases m with
            | zero => left; rfl
            | succ m' =>
              rw [recoverable_succ]
              simp only [if_true]
              have hsm2 : Small ({ s with input := rest } : St) :=
                small_suf s rest hsm (by rw [hinp]; exact Suf.cons _ _)
              rcases hI m' (by omega) w2 v2 fr r' { s with input := rest } h1 hu
                (hok'.step (Reach.opt (Reach.refl _))) hsm2 with h | ⟨x, h⟩
              · left; rw [h]
              · right; rw [h]; exact ⟨.opt x, by rw [← h2.2]; rfl⟩
          · simp [hb1] at hd'
    | vec ww =>
      simp only [decVal] at hd'
      cases hl : readLenDe s.input with
      | ok x =>
        obtain ⟨n, r0⟩ := x
        rw [hl] at hd'
        simp only [] at hd'
        obtain ⟨a, hm, h2⟩ := omap_ok2 hd'
        obtain ⟨vs, r'⟩ := a
        simp only [Prod.mk.injEq] at h2
        rw [← h2.2]
        simp only [deAnyBody]
        by_cases hb : isBlobTy env (.vec ww) = true
        · simp only [hb, if_true, deBlobCase]
          -- a byte vector: the elements are one byte each
          have htw : traceFull env ww = some (.prim .nat8) := by
            simp only [isBlobTy] at hb
            cases h : traceFull env ww with
            | none => rw [h] at hb; simp at hb
            | some t =>
              rw [h] at hb
              cases t with
              | prim p => cases p <;> first | rfl | exact Bool.noConfusion hb
              | _ => exact Bool.noConfusion hb
          have helem : ∀ bs v r'', decVal env fr ww bs = .ok (v, r'') → decPrim .nat8 bs = .ok (v, r'') := by
            intro bs v r'' h
            obtain ⟨f2, hf2⟩ := decVal_untrace env _ ww _ fr bs _ htw h
            exact decVal_prim env f2 _ bs _ hf2
          have hlen := decMany_len (decVal env fr ww) 1 (fun bs v r'' h => by
            have := decPrim_consumes .nat8 1 rfl bs r'' v (helem bs v r'' h); omega) n r0 vs r' hm
          have hsufm := decMany_suf (decVal env fr ww) (fun bs v r'' h => decVal_suf env fr ww bs v r'' h) n r0 vs r' hm
          -- exactly `n` bytes
          have hexact : r0.length = n + r'.length := by
            have h1 := decMany_len (decVal env fr ww) 0 (fun bs v r'' h => by
              have := (decVal_suf env fr ww bs v r'' h).len; omega) n r0 vs r' hm
            -- upper bound: each element takes exactly one byte
            have h2 : ∀ (k : Nat) (bs : Bytes) (xs : List Val) (rr : Bytes), decMany (decVal env fr ww) k bs = .ok (xs, rr) →
                bs.length = k + rr.length := by
              intro k
              induction k with
              | zero => intro bs xs rr h; simp only [decMany, Outcome.ok.injEq, Prod.mk.injEq] at h; rw [← h.2]; omega
              | succ k ihk =>
                intro bs xs rr h
                simp only [decMany] at h
                cases hd0 : decVal env fr ww bs with
                | ok y =>
                  obtain ⟨v0, r1⟩ := y
                  rw [hd0] at h
                  simp only [] at h
                  cases hm0 : decMany (decVal env fr ww) k r1 with
                  | ok z =>
                    obtain ⟨xs', r2⟩ := z
                    rw [hm0] at h
                    simp only [Outcome.ok.injEq, Prod.mk.injEq] at h
                    have e1 := decPrim_consumes .nat8 1 rfl bs r1 v0 (helem bs v0 r1 hd0)
                    have e2 := ihk r1 xs' r2 hm0
                    rw [← h.2]; omega
                  | err _ => rw [hm0] at h; simp at h
                  | panic _ => rw [hm0] at h; simp at h
                | err _ => rw [hd0] at h; simp at h
                | panic _ => rw [hd0] at h; simp at h
            exact h2 n r0 vs r' hm
          obtain ⟨bpre, hbpre⟩ := hsufm
          have hbl : bpre.length = n := by
            have := congrArg List.length hbpre
            rw [List.length_append] at this
            omega
          right
          unfold lenBytes
          rw [rd_ok readLenDe s n r0 hl]
          simp only [rbind_ok]
          rw [addCost_unmetered_ok _ (inp_unmetered s _ hu)]
          simp only [rbind_ok]
          have htk : takeN n (inp s r0).input = .ok (bpre, r') := by
            rw [inp_input, hbpre]
            unfold takeN
            rw [if_pos (by rw [List.length_append]; omega)]
            rw [← hbl, List.take_left', List.drop_left']
            · rfl
            · rfl
          rw [rd_ok (takeN n) (inp s r0) bpre r' htk]
          exact ⟨Val.blob bpre, by simp only [R.map, R.bind, inp_inp]⟩
        · simp only [hb, Bool.false_eq_true, if_false]
          rw [addCost_unmetered_ok s hu]
          simp only [rbind_ok]
          exact vec_skip_w env m (hI m (Nat.le_refl _)) ww fr n r0 r' vs s hl hm hu
            (hok'.step (Reach.vec (Reach.refl _))) hsm
      | err k => rw [hl] at hd'; simp at hd'
      | panic q => rw [hl] at hd'; simp at hd'
    | record wfs =>
      simp only [deAnyBody]
      rw [addCost_unmetered_ok s hu]
      simp only [rbind_ok]
      rw [mergeFields_same _ wfs.toList (by omega)]
      simp only [decVal] at hd'
      obtain ⟨a, hm, h2⟩ := omap_ok2 hd'
      obtain ⟨vfs, r'⟩ := a
      simp only [Prod.mk.injEq] at h2
      rw [← h2.2]
      cases m with
      | zero => left; rfl
      | succ m' =>
        exact fields_skip_w env (m' + 1) (fun k hk => hI k (by omega)) fr wfs.toList (m' + 1) (Nat.le_refl _) vfs r' s []
          hm hu (fun p hp => hok'.step (Reach.field (Reach.refl _) hp)) hsm
    | variant wfs =>
      simp only [deAnyBody]
      rw [addCost_unmetered_ok s hu]
      simp only [rbind_ok, deVariantCase]
      simp only [decVal] at hd'
      cases hl : readLebCrate s.input with
      | ok x =>
        obtain ⟨i, r0⟩ := x
        rw [hl] at hd'
        simp only [] at hd'
        cases hget : wfs.toList[i]? with
        | none => rw [hget] at hd'; simp at hd'
        | some q =>
          obtain ⟨l, t'⟩ := q
          rw [hget] at hd'
          simp only [] at hd'
          obtain ⟨a, h1, h2⟩ := omap_ok2 hd'
          obtain ⟨v2, r'⟩ := a
          simp only [Prod.mk.injEq] at h2
          rw [rd_ok readLebCrate s i r0 hl]
          simp only [rbind_ok, hget]
          have hmem : (l, t') ∈ wfs.toList := List.mem_of_getElem? hget
          cases hfind : wfs.toList.find? (fun p => p.1.getId = l.getId) with
          | none =>
            exfalso
            have := List.find?_eq_none.mp hfind (l, t') hmem
            simp at this
          | some q =>
            obtain ⟨el, et⟩ := q
            simp only []
            have hu2 : Unmetered (inp s r0) := inp_unmetered s _ hu
            rw [addCost_unmetered_ok _ hu2]
            simp only [rbind_ok]
            rw [addCost_unmetered_ok _ hu2]
            simp only [rbind_ok, show (Visitor.ignored = Visitor.idl) = False from by simp, false_and, if_false, if_true]
            rw [addCost_unmetered_ok _ hu2]
            simp only [rbind_ok]
            rcases hI m (Nat.le_refl _) t' v2 fr r' (inp s r0) (by rw [inp_input]; exact h1) hu2
              (hok'.step (Reach.case (Reach.refl _) hmem)) (small_suf s r0 hsm (readLebCrate_suf hl).1) with h | ⟨x, h⟩
            · left; rw [h]; rfl
            · right; rw [h]; exact ⟨.null, by simp only [R.map, R.bind, inp_inp]; rw [h2.2]⟩
      | err k => rw [hl] at hd'; simp at hd'
      | panic q => rw [hl] at hd'; simp at hd'
    | func a b c =>
      right
      simp only [deAnyBody]
      rw [checkSubtype_refl env _ s hu]
      simp only [rbind_ok]
      exact ⟨v, deFuncCase_wf env fr a b c s v r hd' hu⟩
    | service ms =>
      simp only [decVal] at hd'
      obtain ⟨x, h1, h2⟩ := omap_ok2 hd'
      obtain ⟨pb, r'⟩ := x
      simp only [Prod.mk.injEq] at h2
      right
      simp only [deAnyBody]
      rw [checkSubtype_refl env _ s hu]
      simp only [rbind_ok]
      rw [principal_wf s pb r' h1 hu, ← h2.2]
      exact ⟨_, rfl⟩
    | future => simp [headOKW] at hhead
    | var x => exact absurd rfl (Wire.trace_not_var env _ w (.var x) (traceAt_full env m w _ ht) x)
    | knot x => simp [headOKW] at hhead
    | unknown => simp [headOKW] at hhead
    | cls a t => simp [headOKW] at hhead

/-- **skipping any value the specification's reader accepts consumes exactly what the reader consumes** -/
theorem skip_all_w (env : Env) : ∀ (m : Nat), SKIw env m ∧ SKAw env m := by
  intro m
  induction m using Nat.strongRecOn with
  | _ m ih =>
    cases m with
    | zero =>
      exact ⟨fun w v f r s _ _ _ _ => Or.inl rfl, fun w v f r s _ _ _ _ => Or.inl rfl⟩
    | succ m =>
      exact ⟨skiw_of_skaw env m (ih m (Nat.lt_succ_self m)).2, ska_step_w env m (fun k hk => (ih k (by omega)).1)⟩

/-! ## reading any accepted value at an expected type -/

def TRw (env : Env) (m : Nat) : Prop :=
  ∀ (n : Nat) (w e : Ty) (v : Val) (f : Nat) (r : Bytes) (s : St), decVal env f w s.input = .ok (v, r) →
    Unmetered s → OKWr env w → OKE env e → Small s →
    CoRel (coerce env false env n w e v) (deAny env .idl m w e s) s r

theorem decVal_traces (env : Env) : ∀ (f : Nat) (t : Ty) (bs : Bytes) (x : Val × Bytes), decVal env f t bs = .ok x →
    ∃ t', traceFull env t = some t' := by
  intro f
  induction f with
  | zero => intro t bs x h; simp [decVal] at h
  | succ f ih =>
    intro t bs x h
    cases t with
    | var y =>
      simp only [decVal] at h
      cases hf : env.find y with
      | none => rw [hf] at h; simp at h
      | some d =>
        rw [hf] at h
        obtain ⟨t', ht'⟩ := ih d bs x h
        refine ⟨t', Sub.traceFull_of_trace env (env.length + 3) (.var y) t' ?_⟩
        simp only [Env.trace, hf]
        exact ht'
    | _ => exact ⟨_, by unfold traceFull; exact Check.trace_nonvar env _ _ (by intro x hx; cases hx)⟩

/-- the expected type is a primitive with an exact check -/
theorem tr_prim_exact_w (env : Env) (p : Prim) (cost : Nat) (w' : Ty) (v : Val) (fr : Nat) (r : Bytes) (s : St)
    (hd : decVal env (fr + 1) w' s.input = .ok (v, r)) (hu : Unmetered s) :
    CoRel (if w' = .prim p then .ok v else .err .subtype) (dePrimExact p cost w' (.prim p) s) s r := by
  by_cases hw : w' = .prim p
  · subst hw
    simp only [decVal] at hd
    simp only [if_true, dePrimExact, and_self]
    rw [addCost_unmetered_ok s hu]
    simp only [rbind_ok]
    rw [rd_ok (decPrim p) s v r hd]
    exact CoRel.mkOk _ _ _
  · simp only [hw, if_false, dePrimExact, and_false]
    exact CoRel.mkSub s r hu

theorem tr_opt_other_w (env : Env) (m : Nat) (hT : ∀ k ≤ m, TRw env k) (n : Nat) (w' e2 : Ty) (v : Val) (f : Nat)
    (r : Bytes) (s : St) (hd : decVal env f w' s.input = .ok (v, r))
    (hu : Unmetered s) (hokw : OKWr env w') (hoke : OKE env e2) (hsm : Small s) :
    CoRel (if isOptCycle env e2 = true then (if false = true then .ok .none else .err .limit)
        else catchC (coerce env false env n w' e2 v))
      (match env.trace m e2 with
       | none => .err .limit
       | some e2' => recoverable env .idl m w' e2' s) s r := by
  by_cases hcyc : isOptCycle env e2 = true
  · simp only [hcyc, if_true, Bool.false_eq_true, if_false]; exact CoRel.starvedL _ _ _
  · simp only [hcyc, if_false]
    cases htr : env.trace m e2 with
    | none => exact CoRel.starvedR _ _ _
    | some e2' =>
      simp only []
      cases m with
      | zero => simp [Env.trace] at htr
      | succ k =>
        have hfull := Sub.traceFull_of_trace env _ e2 e2' htr
        refine recov_rel env k w' e2' s r _ hu ?_ ((skip_all_w env k).1 w' v f r s hd hu hokw hsm)
        rw [coerce_trace_e env n w' e2 e2' v hfull]
        exact hT k (by omega) n w' e2' v f r s hd hu hokw (hoke.step (reach_traceFull env e2 e2' hfull)) hsm

/-- the expected type is an option -/
theorem tr_opt_w (env : Env) (m : Nat) (hT : ∀ k ≤ m, TRw env k) (n : Nat) (w w' e e2 : Ty) (v : Val) (fr : Nat)
    (r : Bytes) (s : St) (hw : traceFull env w = some w') (he : traceFull env e = some (.opt e2))
    (hd : decVal env (fr + 1) w' s.input = .ok (v, r))
    (hu : Unmetered s) (hokw : OKWr env w') (hoke : OKE env (.opt e2)) (hsm : Small s) :
    CoRel (coerce env false env (n + 1) w e v)
      ((addCost s 1).bind fun _ s1 => deOptCase env m (recoverable env .idl m) w' e2 s1) s r := by
  unfold coerce
  rw [hw, he]
  simp only []
  rw [addCost_unmetered_ok s hu]
  simp only [rbind_ok]
  have hoke2 : OKE env e2 := hoke.step (Reach.opt (Reach.refl _))
  have other := tr_opt_other_w env m hT n w' e2 v (fr + 1) r s hd hu hokw hoke2 hsm
  cases w' with
  | prim p =>
    cases p with
    | null =>
      simp only [decVal, decPrim, Outcome.ok.injEq, Prod.mk.injEq] at hd
      simp only [deOptCase]
      have := CoRel.mkOk .none s s.input
      rw [inp_self, hd.2] at this
      exact this
    | reserved =>
      simp only [decVal, decPrim, Outcome.ok.injEq, Prod.mk.injEq] at hd
      simp only [deOptCase]
      have := CoRel.mkOk .none s s.input
      rw [inp_self, hd.2] at this
      exact this
    | _ => simp only [deOptCase, catchC_eq]; exact other
  | opt w2 =>
    simp only [decVal] at hd
    simp only [deOptCase]
    cases hinp : s.input with
    | nil => rw [hinp] at hd; simp at hd
    | cons b rest =>
      rw [hinp] at hd
      simp only [] at hd ⊢
      by_cases hb0 : b = 0
      · simp only [hb0, if_true, Outcome.ok.injEq, Prod.mk.injEq] at hd ⊢
        rw [← hd.1, ← hd.2]
        exact CoRel.mkOk _ _ _
      · simp only [hb0, if_false] at hd ⊢
        by_cases hb1 : b = 1
        · simp only [hb1, if_true] at hd ⊢
          obtain ⟨a, h1, h2⟩ := omap_ok2 hd
          obtain ⟨v2, r'⟩ := a
          simp only [Prod.mk.injEq] at h2
          rw [← h2.1, ← h2.2]
          simp only [catchC_eq]
          cases m with
          | zero => exact CoRel.starvedR _ _ _
          | succ k =>
            have hsm2 : Small ({ s with input := rest } : St) :=
              small_suf s rest hsm (by rw [hinp]; exact Suf.cons _ _)
            have hokw2 : OKWr env w2 := hokw.step (Reach.opt (Reach.refl _))
            have := recov_rel env k w2 e2 { s with input := rest } r' (coerce env false env n w2 e2 v2) hu
              (hT k (by omega) n w2 e2 v2 fr r' _ h1 hu hokw2 hoke2 hsm2)
              ((skip_all_w env k).1 w2 v2 fr r' _ h1 hu hokw2 hsm2)
            exact CoRel.of_inp (a := rest) this
        · simp [hb1] at hd
  | _ => first | (simp only [deOptCase, catchC_eq]; exact other) | skip

/-- the expected type is a variant -/
theorem tr_variant_w (env : Env) (m : Nat) (hT : TRw env m) (n : Nat) (w w' e : Ty) (efs : Fields) (v : Val) (fr : Nat)
    (r : Bytes) (s : St) (hw : traceFull env w = some w') (he : traceFull env e = some (.variant efs))
    (hd : decVal env (fr + 1) w' s.input = .ok (v, r))
    (hu : Unmetered s) (hokw : OKWr env w') (hoke : OKE env (.variant efs)) (hsm : Small s) :
    CoRel (coerce env false env (n + 1) w e v)
      ((addCost s 1).bind fun _ s1 => deVariantCase .idl (deAny env .idl m) (deIgnored env m) w' efs s1) s r := by
  unfold coerce
  rw [hw, he]
  simp only []
  rw [addCost_unmetered_ok s hu]
  simp only [rbind_ok]
  cases w' with
  | variant wfs =>
    simp only [decVal] at hd
    cases hl : readLebCrate s.input with
    | ok x =>
      obtain ⟨i, r0⟩ := x
      rw [hl] at hd
      simp only [] at hd
      cases hget : wfs.toList[i]? with
      | none => rw [hget] at hd; simp at hd
      | some q =>
        obtain ⟨l, t'⟩ := q
        rw [hget] at hd
        simp only [] at hd
        obtain ⟨a, h1, h2⟩ := omap_ok2 hd
        obtain ⟨v2, r'⟩ := a
        simp only [Prod.mk.injEq] at h2
        rw [← h2.1, ← h2.2]
        simp only [deVariantCase]
        rw [rd_ok readLebCrate s i r0 hl]
        simp only [rbind_ok, hget]
        have hmem : (l, t') ∈ wfs.toList := List.mem_of_getElem? hget
        have hhead := hokw _ (Reach.refl _)
        have hnd : (wfs.toList.map (·.1.getId)).Nodup := asc_nodup _ (by simpa [headOKW] using hhead.1)
        have hlook : lookupF wfs l.getId = some t' := lookupF_of_mem_nodup wfs (l, t') hnd hmem
        have hu2 : Unmetered (inp s r0) := inp_unmetered s _ hu
        have hsm2 : Small (inp s r0) := small_suf s r0 hsm (readLebCrate_suf hl).1
        rw [hlook]
        refine CoRel.of_inp (a := r0) ?_
        cases hfind : efs.toList.find? (fun p => p.1.getId = l.getId) with
        | none => simp only []; exact CoRel.mkSub _ _ hu2
        | some q =>
          obtain ⟨el, et⟩ := q
          simp only []
          rw [addCost_unmetered_ok _ hu2]
          simp only [rbind_ok]
          rw [addCost_unmetered_ok _ hu2]
          simp only [rbind_ok, true_and]
          have hokt : OKWr env t' := hokw.step (Reach.case (Reach.refl _) hmem)
          have hoket : OKE env et := hoke.step (Reach.case (Reach.refl _) (List.mem_of_find?_eq_some hfind))
          by_cases het : et = .prim .null
          · subst het
            simp only [if_true]
            cases n with
            | zero => exact CoRel.starvedL _ _ _
            | succ n' =>
              obtain ⟨t'', ht''⟩ := decVal_traces env fr t' r0 _ h1
              unfold coerce
              rw [ht'', traceFull_prim]
              simp only []
              by_cases hlit : t' = .prim .null
              · subst hlit
                rw [traceFull_prim] at ht''
                simp only [Option.some.injEq] at ht''
                subst ht''
                simp only [if_true]
                rw [addCost_unmetered_ok _ hu2]
                have hp := decVal_prim env fr .null r0 _ h1
                simp only [decPrim, Outcome.ok.injEq, Prod.mk.injEq] at hp
                rw [← hp.1, ← hp.2]
                have := CoRel.mkOk (.variant el .null i) (inp s r0) r0
                rw [inp_inp] at this
                simpa only [R.map, R.bind, Outcome.map] using this
              · have hne : t'' ≠ .prim .null := by
                  intro hx
                  subst hx
                  have hul := hhead.2
                  simp only [unitLit, List.all_eq_true, decide_eq_true_eq] at hul
                  exact hlit (hul (l, t') hmem ht'')
                simp only [hne, hlit, if_false]
                exact CoRel.mkSub _ _ hu2
          · have hnu : (match et with | .prim .null => true | _ => false) = false := by
              cases et with
              | prim p => cases p <;> first | rfl | exact absurd rfl het
              | _ => rfl
            simp only [hnu, Bool.false_eq_true, if_false, show (Visitor.idl = Visitor.ignored) = False from by simp]
            rw [addCost_unmetered_ok _ hu2]
            simp only [rbind_ok]
            exact (hT n t' et v2 fr r' (inp s r0) (by rw [inp_input]; exact h1) hu2 hokt hoket hsm2).map _
    | err k => rw [hl] at hd; simp at hd
    | panic q => rw [hl] at hd; simp at hd
  | _ =>
    simp only [deVariantCase]
    first
      | exact CoRel.mkSub s r hu
      | (cases v <;> exact CoRel.mkSub s r hu)

/-! ### vectors -/

theorem decMany_length (D : Bytes → Outcome (Val × Bytes)) : ∀ (n : Nat) (bs : Bytes) (vs : List Val) (r : Bytes),
    decMany D n bs = .ok (vs, r) → vs.length = n := by
  intro n
  induction n with
  | zero => intro bs vs r h; simp only [decMany, Outcome.ok.injEq, Prod.mk.injEq] at h; rw [← h.1]; rfl
  | succ n ih =>
    intro bs vs r h
    simp only [decMany] at h
    cases hd : D bs with
    | ok x =>
      obtain ⟨v, r1⟩ := x
      rw [hd] at h
      simp only [] at h
      cases hm : decMany D n r1 with
      | ok y =>
        obtain ⟨vs', r2⟩ := y
        rw [hm] at h
        simp only [Outcome.ok.injEq, Prod.mk.injEq] at h
        rw [← h.1, List.length_cons, ih r1 vs' r2 hm]
      | err k => rw [hm] at h; simp at h
      | panic q => rw [hm] at h; simp at h
    | err k => rw [hd] at h; simp at h
    | panic q => rw [hd] at h; simp at h

/-- a vector of bytes as the reader returns it: its values are the bytes it consumed -/
theorem bytes_of_decMany (D : Bytes → Outcome (Val × Bytes))
    (hD : ∀ bs v r, D bs = .ok (v, r) → decPrim .nat8 bs = .ok (v, r)) :
    ∀ (n : Nat) (bs : Bytes) (vs : List Val) (r : Bytes), decMany D n bs = .ok (vs, r) →
      ∃ b, bs = b ++ r ∧ b.length = n ∧ bytesOfVals vs = some b := by
  intro n
  induction n with
  | zero =>
    intro bs vs r h
    simp only [decMany, Outcome.ok.injEq, Prod.mk.injEq] at h
    exact ⟨[], by rw [h.2]; rfl, rfl, by rw [← h.1]; rfl⟩
  | succ n ih =>
    intro bs vs r h
    simp only [decMany] at h
    cases hd : D bs with
    | ok x =>
      obtain ⟨v, r1⟩ := x
      rw [hd] at h
      simp only [] at h
      cases hm : decMany D n r1 with
      | ok y =>
        obtain ⟨vs', r2⟩ := y
        rw [hm] at h
        simp only [Outcome.ok.injEq, Prod.mk.injEq] at h
        obtain ⟨b, hb1, hb2, hb3⟩ := ih r1 vs' r2 hm
        have hp := hD bs v r1 hd
        simp only [decPrim, readFixed] at hp
        obtain ⟨a, h1, h2⟩ := omap_ok2 hp
        obtain ⟨a', h1', h2'⟩ := omap_ok2 h1
        obtain ⟨b0, r0'⟩ := a'
        have ht := takeN_suf h1'
        subst h2'
        simp only [Prod.mk.injEq] at h2
        cases b0 with
        | nil => simp at ht
        | cons c cs =>
          cases cs with
          | cons _ _ => simp at ht
          | nil =>
            refine ⟨c :: b, ?_, by simp [hb2], ?_⟩
            · rw [ht.1, h2.2, hb1, ← h.2]; rfl
            · rw [← h.1, ← h2.1]
              simp [bytesOfVals, hb3, leVal]
      | err k => rw [hm] at h; simp at h
      | panic q => rw [hm] at h; simp at h
    | err k => rw [hd] at h; simp at h
    | panic q => rw [hd] at h; simp at h

/-- elements read one after the other against the element-wise coercion -/
theorem iterV_corel_w (g : St → R Val) (c : Val → Outcome Val) (D : Bytes → Outcome (Val × Bytes))
    (hsuf : ∀ bs v r, D bs = .ok (v, r) → Suf r bs)
    (hg : ∀ (s' : St) (x : Val) (r' : Bytes), D s'.input = .ok (x, r') → Unmetered s' → Small s' → CoRel (c x) (g s') s' r') :
    ∀ (n : Nat) (s : St) (vs : List Val) (r : Bytes), decMany D n s.input = .ok (vs, r) → Unmetered s → Small s →
    CoRelL (mapOutcomes c vs) (iterV g n s) s r := by
  intro n
  induction n with
  | zero =>
    intro s vs r h _ _
    simp only [decMany, Outcome.ok.injEq, Prod.mk.injEq] at h
    refine Or.inr (Or.inr ?_)
    rw [← h.1, ← h.2]
    simp only [mapOutcomes, iterV]
    exact ⟨trivial, (inp_self s).symm⟩
  | succ n ih =>
    intro s vs r h hu hsm
    simp only [decMany] at h
    cases hd : D s.input with
    | ok x0 =>
      obtain ⟨x, r1⟩ := x0
      rw [hd] at h
      simp only [] at h
      cases hm : decMany D n r1 with
      | ok y =>
        obtain ⟨vs', r2⟩ := y
        rw [hm] at h
        simp only [Outcome.ok.injEq, Prod.mk.injEq] at h
        rw [← h.1, ← h.2]
        simp only [mapOutcomes, iterV]
        rcases hg s x r1 hd hu hsm with h0 | h0 | h0
        · rw [h0]; exact Or.inl rfl
        · rw [h0]; exact Or.inr (Or.inl rfl)
        · cases hcx : c x with
          | ok v' =>
            cases hgs : g s with
            | ok v'' s1 =>
              rw [hcx, hgs] at h0
              obtain ⟨e1, e2⟩ := h0
              subst e1 e2
              simp only [rbind_ok]
              have := ih (inp s r1) vs' r2 (by rw [inp_input]; exact hm) (inp_unmetered s _ hu)
                (small_suf s r1 hsm (hsuf _ _ _ hd))
              refine CoRelL.of_inp (a := r1) ?_
              rcases this with h' | h' | h'
              · rw [h']; exact Or.inl rfl
              · rw [h']; exact Or.inr (Or.inl rfl)
              · refine Or.inr (Or.inr ?_)
                cases hm' : mapOutcomes c vs' <;> cases hi' : iterV g n (inp s r1) <;>
                  rw [hm', hi'] at h' <;> simp only [R.map, R.bind] at h' ⊢ <;> first | exact h' | skip
                exact ⟨by rw [h'.1], h'.2⟩
            | sub _ _ => rw [hcx, hgs] at h0; exact absurd h0 (by simp)
            | err _ => rw [hcx, hgs] at h0; exact absurd h0 (by simp)
            | panic _ => rw [hcx, hgs] at h0; exact absurd h0 (by simp)
          | err k =>
            cases hgs : g s with
            | ok _ _ => rw [hcx, hgs] at h0; exact absurd h0 (by simp)
            | sub dq sq => rw [hcx, hgs] at h0; exact Or.inr (Or.inr h0)
            | err k2 => rw [hcx, hgs] at h0; exact Or.inr (Or.inr h0)
            | panic _ => rw [hcx, hgs] at h0; exact absurd h0 (by simp)
          | panic p =>
            cases hgs : g s with
            | panic q => exact Or.inr (Or.inr trivial)
            | ok _ _ => rw [hcx, hgs] at h0; exact absurd h0 (by simp)
            | sub _ _ => rw [hcx, hgs] at h0; exact absurd h0 (by simp)
            | err _ => rw [hcx, hgs] at h0; exact absurd h0 (by simp)
      | err k => rw [hm] at h; simp at h
      | panic q => rw [hm] at h; simp at h
    | err k => rw [hd] at h; simp at h
    | panic q => rw [hd] at h; simp at h

/-- the elements of a vector on each of the three paths, against the element-wise coercion -/
theorem tr_vec_elems_w (env : Env) (m : Nat) (hT : TRw env m) (nn : Nat) (w2 e2 : Ty) (fr n : Nat) (r0 r : Bytes)
    (vs : List Val) (s : St) (hl : readLenDe s.input = .ok (n, r0)) (hm : decMany (decVal env fr w2) n r0 = .ok (vs, r))
    (hu : Unmetered s) (hokw : OKWr env w2) (hoke : OKE env e2) (hsm : Small s) :
    CoRel ((mapOutcomes (coerce env false env nn w2 e2) vs).map Val.vec)
      (deVecCase env .idl m (deAny env .idl m) (deIgnored env m) (.vec w2) e2 s) s r := by
  unfold deVecCase
  simp only []
  cases htr : env.trace m w2 with
  | none => exact CoRel.starvedR _ _ _
  | some wire =>
    simp only []
    rw [rd_ok readLenDe s n r0 hl]
    simp only [rbind_ok]
    have hu2 : Unmetered (inp s r0) := inp_unmetered s _ hu
    have hsm2 : Small (inp s r0) := small_suf s r0 hsm (readLenDe_suf hl).1
    have hfullw := Sub.traceFull_of_trace env m w2 wire htr
    have hokwire : OKWr env wire := hokw.step (reach_trace env m w2 wire htr)
    have hm2 : decMany (decVal env fr w2) n (inp s r0).input = .ok (vs, r) := by rw [inp_input]; exact hm
    have hsufD : ∀ bs v r', decVal env fr w2 bs = .ok (v, r') → Suf r' bs := fun bs v r' h => decVal_suf env fr w2 bs v r' h
    -- the element reader at the unfolded wire type
    have helemw : ∀ bs x, decVal env fr w2 bs = .ok x → ∃ f', decVal env f' wire bs = .ok x :=
      fun bs x h => decVal_untrace env m w2 wire fr bs x htr h
    refine CoRel.of_inp (a := r0) ?_
    cases hx : exactPrim e2 wire with
    | some p =>
      simp only []
      obtain ⟨hee, hwire, sz, hsz⟩ : e2 = .prim p ∧ wire = .prim p ∧ ∃ sz, primSize p = some sz := by
        unfold exactPrim at hx
        split at hx
        · split at hx
          · rename_i hc; simp only [Option.some.injEq] at hx; subst hx
            exact ⟨rfl, by rw [hc.1], Option.isSome_iff_exists.mp hc.2⟩
          · simp at hx
        · simp at hx
      subst hee hwire
      have hprim : ∀ bs x, decVal env fr w2 bs = .ok x → decPrim p bs = .ok x := by
        intro bs x h
        obtain ⟨f', hf'⟩ := helemw bs x h
        exact decVal_prim env f' p bs x hf'
      have hsz1 : 1 ≤ sz ∧ sz ≤ 8 := by cases p <;> simp [primSize] at hsz <;> omega
      simp only [hsz, Option.getD_some]
      have hlen := decMany_len (decVal env fr w2) sz (fun bs v r' h => by
        have := decPrim_consumes p sz hsz bs r' v (hprim bs _ h); omega) n r0 vs r hm
      have hn : n ≤ r0.length := by
        have : n ≤ n * sz := Nat.le_mul_of_pos_right _ hsz1.1
        omega
      by_cases h1 : n * (3 + sz) > usizeMax
      · rw [if_pos h1]; first | exact Or.inl rfl | exact CoRel.starvedR _ _ _
      rw [if_neg h1, addCost_unmetered_ok _ hu2]
      simp only [rbind_ok]
      rw [if_neg (by rw [inp_input]; omega)]
      refine (iterV_corel_w (fun st => rd (decPrim p) st) _ (decVal env fr w2) hsufD (fun s' x r' h _ _ => ?_) n (inp s r0) vs r
        hm2 hu2 hsm2).toVec
      cases nn with
      | zero => exact CoRel.starvedL _ _ _
      | succ n' =>
        have hcoe : coerce env false env (n' + 1) w2 (.prim p) x = .ok x := by
          unfold coerce
          rw [hfullw, traceFull_prim]
          cases p <;> simp [primSize] at hsz <;> simp
        rw [hcoe, rd_ok (decPrim p) s' x r' (hprim _ _ h)]
        exact CoRel.mkOk _ _ _
    | none =>
      simp only []
      cases hb : bigPrimOf e2 wire with
      | some wp =>
        simp only []
        have hcases : (e2 = .prim .nat ∧ wire = .prim .nat ∧ wp = .nat) ∨ (e2 = .prim .int ∧ wire = .prim .int ∧ wp = .int) ∨
            (e2 = .prim .int ∧ wire = .prim .nat ∧ wp = .nat) := by
          unfold bigPrimOf at hb
          split at hb
          · left; simp only [Option.some.injEq] at hb; exact ⟨rfl, rfl, hb.symm⟩
          · right; left; simp only [Option.some.injEq] at hb; exact ⟨rfl, rfl, hb.symm⟩
          · right; right; simp only [Option.some.injEq] at hb; exact ⟨rfl, rfl, hb.symm⟩
          · simp at hb
        have hwire2 : wire = .prim .nat ∨ wire = .prim .int := by
          rcases hcases with ⟨_, h, _⟩ | ⟨_, h, _⟩ | ⟨_, h, _⟩
          · exact Or.inl h
          · exact Or.inr h
          · exact Or.inl h
        have hlen : r.length + n * 1 ≤ r0.length := by
          rcases hwire2 with h | h <;> subst h
          · exact decMany_len _ 1 (fun bs v r' h => by
              obtain ⟨f', hf'⟩ := helemw bs _ h
              exact decPrim_nat_len (decVal_prim env f' _ bs _ hf')) n r0 vs r hm
          · exact decMany_len _ 1 (fun bs v r' h => by
              obtain ⟨f', hf'⟩ := helemw bs _ h
              exact decPrim_int_len (decVal_prim env f' _ bs _ hf')) n r0 vs r hm
        have hn : n ≤ r0.length := by omega
        by_cases h1 : n * 3 > usizeMax
        · rw [if_pos h1]; first | exact Or.inl rfl | exact CoRel.starvedR _ _ _
        rw [if_neg h1, addCost_unmetered_ok _ hu2]
        simp only [rbind_ok]
        refine (iterV_corel_w _ _ (decVal env fr w2) hsufD (fun s' x r' h hu' _ => ?_) n (inp s r0) vs r hm2 hu2 hsm2).toVec
        obtain ⟨f', hf'⟩ := helemw _ _ h
        cases nn with
        | zero => exact CoRel.starvedL _ _ _
        | succ n' =>
          rcases hcases with ⟨h1, h2, h3⟩ | ⟨h1, h2, h3⟩ | ⟨h1, h2, h3⟩ <;> subst h1 h2 h3
          · obtain ⟨k, hxk, hsp⟩ := decPrim_nat_inv (decVal_prim env f' _ _ _ hf')
            subst hxk
            have hcoe : coerce env false env (n' + 1) w2 (.prim .nat) (.nat k) = .ok (.nat k) := by
              unfold coerce; rw [hfullw, traceFull_prim]; simp
            rw [hcoe]
            simp only [if_true, show ((Ty.prim Prim.nat) = Ty.prim Prim.int) = False from by simp, if_false]
            rw [bigNum_ok _ s' hu' _ r' (natAs_of_spec _ _ _ _ hsp)]
            exact CoRel.mkOk _ _ _
          · obtain ⟨i, hxi, hsp⟩ := decPrim_int_inv (decVal_prim env f' _ _ _ hf')
            subst hxi
            have hcoe : coerce env false env (n' + 1) w2 (.prim .int) (.int i) = .ok (.int i) := by
              unfold coerce; rw [hfullw, traceFull_prim]
            rw [hcoe]
            simp only [show (Prim.int = Prim.nat) = False from by simp, if_false]
            rw [bigNum_ok _ s' hu' _ r' (intAs_of_spec _ _ _ hsp)]
            exact CoRel.mkOk _ _ _
          · obtain ⟨k, hxk, hsp⟩ := decPrim_nat_inv (decVal_prim env f' _ _ _ hf')
            subst hxk
            have hcoe : coerce env false env (n' + 1) w2 (.prim .int) (.nat k) = .ok (.int k) := by
              unfold coerce; rw [hfullw, traceFull_prim]
            rw [hcoe]
            simp only [if_true]
            rw [bigNum_ok _ s' hu' _ r' (natAs_of_spec _ _ _ _ hsp)]
            exact CoRel.mkOk _ _ _
      | none =>
        simp only [show (Visitor.idl = Visitor.ignored) = False from by simp, if_false]
        refine (iterV_corel_w _ _ (decVal env fr w2) hsufD (fun s' x r' h hu' hsm' => ?_) n (inp s r0) vs r hm2 hu2 hsm2).toVec
        rw [addCost_unmetered_ok s' hu']
        simp only [rbind_ok]
        obtain ⟨f', hf'⟩ := helemw _ _ h
        rw [coerce_trace_w env nn w2 wire e2 x hfullw]
        exact hT nn wire e2 x f' r' s' hf' hu' hokwire hoke hsm'

/-- the expected type is a vector -/
theorem tr_vec_w (env : Env) (m : Nat) (hT : TRw env m) (n : Nat) (w w' e e2 : Ty) (v : Val) (fr : Nat)
    (r : Bytes) (s : St) (hw : traceFull env w = some w') (he : traceFull env e = some (.vec e2))
    (hd : decVal env (fr + 1) w' s.input = .ok (v, r))
    (hu : Unmetered s) (hokw : OKWr env w') (hoke : OKE env (.vec e2)) (hsm : Small s) :
    CoRel (coerce env false env (n + 1) w e v)
      (if isBlobTy env (.vec e2) = true then deBlobCase env w' s
       else (addCost s 1).bind fun _ s1 => deVecCase env .idl m (deAny env .idl m) (deIgnored env m) w' e2 s1) s r := by
  unfold coerce
  rw [hw, he]
  simp only []
  cases w' with
  | vec w2 =>
    simp only [decVal] at hd
    cases hl : readLenDe s.input with
    | ok x =>
      obtain ⟨nlen, r0⟩ := x
      rw [hl] at hd
      simp only [] at hd
      obtain ⟨a, hm, h2⟩ := omap_ok2 hd
      obtain ⟨vs, r'⟩ := a
      simp only [Prod.mk.injEq] at h2
      rw [← h2.1, ← h2.2]
      simp only []
      have hokw2 : OKWr env w2 := hokw.step (Reach.vec (Reach.refl _))
      have hoke2 : OKE env e2 := hoke.step (Reach.vec (Reach.refl _))
      by_cases hbe : isBlobTy env (.vec e2) = true
      · simp only [hbe, if_true, deBlobCase]
        by_cases hbw : isBlobTy env (.vec w2) = true
        · simp only [hbw, if_true]
          have htw : traceFull env w2 = some (.prim .nat8) := by
            simp only [isBlobTy] at hbw
            cases h : traceFull env w2 with
            | none => rw [h] at hbw; simp at hbw
            | some t =>
              rw [h] at hbw
              cases t with
              | prim p => cases p <;> first | rfl | exact Bool.noConfusion hbw
              | _ => exact Bool.noConfusion hbw
          obtain ⟨bpre, hb1, hb2, hb3⟩ := bytes_of_decMany (decVal env fr w2) (fun bs v r'' h => by
            obtain ⟨f2, hf2⟩ := decVal_untrace env _ w2 _ fr bs _ htw h
            exact decVal_prim env f2 _ bs _ hf2) nlen r0 vs r' hm
          rw [hb3]
          unfold lenBytes
          rw [rd_ok readLenDe s nlen r0 hl]
          simp only [rbind_ok]
          rw [addCost_unmetered_ok _ (inp_unmetered s _ hu)]
          simp only [rbind_ok]
          have htk : takeN nlen (inp s r0).input = .ok (bpre, r') := by
            rw [inp_input, hb1]
            unfold takeN
            rw [if_pos (by rw [List.length_append]; omega)]
            rw [← hb2, List.take_left', List.drop_left']
            · rfl
            · rfl
          rw [rd_ok (takeN nlen) (inp s r0) bpre r' htk]
          simp only [R.map, R.bind, inp_inp]
          exact CoRel.mkOk _ _ _
        · simp only [hbw, Bool.false_eq_true, if_false]
          rw [rd_ok readLenDe s nlen r0 hl]
          simp only [rbind_ok]
          refine CoRel.of_inp (a := r0) ?_
          have hvl := decMany_length _ nlen r0 vs r' hm
          cases nlen with
          | zero =>
            simp only [decMany, Outcome.ok.injEq, Prod.mk.injEq] at hm
            rw [← hm.1, ← hm.2]
            simp only [ne_eq, not_true_eq_false, if_false, List.isEmpty_nil, if_true]
            rw [addCost_unmetered_ok _ (inp_unmetered s _ hu)]
            have := CoRel.mkOk (.blob []) (inp s r0) r0
            rw [inp_inp] at this
            exact this
          | succ k =>
            cases vs with
            | nil => simp at hvl
            | cons x xs =>
              simp only [ne_eq, Nat.add_one_ne_zero, not_false_eq_true, if_true, List.isEmpty_cons,
                Bool.false_eq_true, if_false]
              exact CoRel.mkSub _ _ (inp_unmetered s _ hu)
      · simp only [hbe, Bool.false_eq_true, if_false]
        rw [addCost_unmetered_ok s hu]
        simp only [rbind_ok]
        exact tr_vec_elems_w env m hT n w2 e2 fr nlen r0 r' vs s hl hm hu hokw2 hoke2 hsm
    | err k => rw [hl] at hd; simp at hd
    | panic q => rw [hl] at hd; simp at hd
  | _ =>
    split
    · exfalso
      rename_i h1 h2
      first | exact Ty.noConfusion h2 | exact Ty.noConfusion h1
    · by_cases hbe : isBlobTy env (.vec e2) = true
      · rw [if_pos hbe]
        simp only [deBlobCase, isBlobTy, Bool.false_eq_true, if_false]
        exact CoRel.mkSub s r hu
      · rw [if_neg hbe]
        simp only [deVecCase]
        rw [addCost_unmetered_ok s hu]
        exact CoRel.mkSub s r hu

/-! ### records -/

theorem null_rel_w (env : Env) (f : Nat) (hT : TRw env f) (et : Ty) (s : St) (hu : Unmetered s) (hoke : OKE env et)
    (hsm : Small s) : CoRel (nullC env et) (deAny env .idl f (.prim .null) et s) s s.input := by
  cases ht : traceFull env et with
  | none =>
    cases f with
    | zero => exact CoRel.starvedR _ _ _
    | succ k =>
      rw [deAny_succ, unroll_char env k _ et s hu, traceAt_none_of_full env k et ht]
      exact CoRel.starvedR _ _ _
  | some et' =>
    have hh : headOK et' = true := hoke et' (reach_traceFull env et et' ht)
    have := hT 1 (.prim .null) et .null 1 s.input s rfl hu (okwr_prim env .null) hoke hsm
    rw [coerce_null env 0 et et' ht hh] at this
    exact this

theorem wire_only_rel_w (env : Env) (f : Nat) (hT : TRw env f) (wt : Ty) (fv : Val) (fr : Nat) (r1 : Bytes) (s : St)
    (hd : decVal env fr wt s.input = .ok (fv, r1)) (hu : Unmetered s) (hokw : OKWr env wt) (hsm : Small s) :
    deAny env .idl f wt (.prim .reserved) s = .err .limit ∨ deAny env .idl f wt (.prim .reserved) s = .ok .reserved (inp s r1) := by
  have hoke : OKE env (.prim .reserved) := by
    intro t ht
    have := reach_prim env .reserved t ht
    subst this; rfl
  have := hT 1 wt (.prim .reserved) fv fr r1 s hd hu hokw hoke hsm
  obtain ⟨t', ht'⟩ := decVal_traces env fr wt _ _ hd
  have hco : coerce env false env 1 wt (.prim .reserved) fv = .ok .reserved := by
    unfold coerce
    rw [ht', traceFull_prim]
  rw [hco] at this
  rcases this with h | h | h
  · simp at h
  · exact Or.inl h
  · cases hd' : deAny env .idl f wt (.prim .reserved) s with
    | ok v'' s1 => rw [hd'] at h; right; rw [h.1, h.2]
    | sub _ _ => rw [hd'] at h; exact absurd h (by simp)
    | err _ => rw [hd'] at h; exact absurd h (by simp)
    | panic _ => rw [hd'] at h; exact absurd h (by simp)

theorem decFields_labels (D : Ty → Bytes → Outcome (Val × Bytes)) : ∀ (ws : List (Label × Ty)) (bs : Bytes)
    (vs : List (Label × Val)) (r : Bytes), decFields D ws bs = .ok (vs, r) → vs.map (·.1) = ws.map (·.1) := by
  intro ws
  induction ws with
  | nil => intro bs vs r h; simp only [decFields, Outcome.ok.injEq, Prod.mk.injEq] at h; rw [← h.1]; rfl
  | cons p ws ih =>
    intro bs vs r h
    obtain ⟨l, t⟩ := p
    simp only [decFields] at h
    cases hd : D t bs with
    | ok x =>
      obtain ⟨v, r1⟩ := x
      rw [hd] at h
      simp only [] at h
      cases hm : decFields D ws r1 with
      | ok y =>
        obtain ⟨vs', r2⟩ := y
        rw [hm] at h
        simp only [Outcome.ok.injEq, Prod.mk.injEq] at h
        rw [← h.1]
        simp only [List.map_cons, ih r1 vs' r2 hm]
      | err k => rw [hm] at h; simp at h
      | panic q => rw [hm] at h; simp at h
    | err k => rw [hd] at h; simp at h
    | panic q => rw [hd] at h; simp at h

theorem decFields_cons_inv (D : Ty → Bytes → Outcome (Val × Bytes)) (l : Label) (t : Ty) (ws : List (Label × Ty)) (bs : Bytes)
    (vs : List (Label × Val)) (r : Bytes) (h : decFields D ((l, t) :: ws) bs = .ok (vs, r)) :
    ∃ v r1 vs', D t bs = .ok (v, r1) ∧ decFields D ws r1 = .ok (vs', r) ∧ vs = (l, v) :: vs' := by
  simp only [decFields] at h
  cases hd : D t bs with
  | ok x =>
    obtain ⟨v, r1⟩ := x
    rw [hd] at h
    simp only [] at h
    cases hm : decFields D ws r1 with
    | ok y =>
      obtain ⟨vs', r2⟩ := y
      rw [hm] at h
      simp only [Outcome.ok.injEq, Prod.mk.injEq] at h
      exact ⟨v, r1, vs', rfl, by rw [← h.2, hm], h.1.symm⟩
    | err k => rw [hm] at h; simp at h
    | panic q => rw [hm] at h; simp at h
  | err k => rw [hd] at h; simp at h
  | panic q => rw [hd] at h; simp at h

/-- the merged fields of a record: the decoder's merge by ascending id against the coercion's lookups by id -/
theorem fields_rel_w (env : Env) (F : Nat) (hT : ∀ k < F, TRw env k) (n fr : Nat) :
    ∀ (N : Nat) (es ws : List (Label × Ty)) (vs : List (Label × Val)) (f : Nat), f ≤ F → es.length + ws.length < N →
    ∀ (r : Bytes) (s : St) (acc : List (Label × Val)),
    strictlyAscending (es.map (·.1.getId)) = true → strictlyAscending (ws.map (·.1.getId)) = true →
    decFields (decVal env fr) ws s.input = .ok (vs, r) → Unmetered s →
    (∀ p ∈ ws, OKWr env p.2) → (∀ p ∈ es, OKE env p.2) → Small s →
    CoRel ((mapOutcomes (GF env n ws vs) es).map fun fs => Val.record (acc.reverse ++ fs))
      (deFields env .idl f (mergeFields N es ws) s acc) s r := by
  intro N
  induction N with
  | zero => intro es ws vs f _ hN; omega
  | succ N ih =>
    intro es ws vs f hf hN r s acc hes hws hdf hu hokw hoke hsm
    cases f with
    | zero => rw [deFields_zero]; exact CoRel.starvedR _ _ _
    | succ f =>
    have hTf : TRw env f := hT f (by omega)
    cases es with
    | nil =>
      cases ws with
      | nil =>
        simp only [decFields, Outcome.ok.injEq, Prod.mk.injEq] at hdf
        rw [← hdf.1, ← hdf.2]
        simp only [mergeFields, deFields, mapOutcomes, Outcome.map, List.append_nil]
        rw [addCost_unmetered_ok s hu]
        have := CoRel.mkOk (.record acc.reverse) s s.input
        rw [inp_self] at this
        exact this
      | cons q ws' =>
        obtain ⟨wl, wt⟩ := q
        obtain ⟨fv, r1, vs', hd1, hd2, hvs⟩ := decFields_cons_inv _ wl wt ws' _ vs r hdf
        subst hvs
        simp only [mergeFields, deFields]
        rw [addCost_unmetered_ok s hu]
        simp only [rbind_ok]
        rw [addCost_unmetered_ok s hu]
        simp only [rbind_ok]
        rw [addCost_unmetered_ok s hu]
        simp only [rbind_ok]
        rcases wire_only_rel_w env f hTf wt fv fr r1 s hd1 hu (hokw (wl, wt) (by simp)) hsm with h | h
        · rw [h]; exact CoRel.starvedR _ _ _
        · rw [h]
          simp only [rbind_ok]
          refine CoRel.of_inp (a := r1) ?_
          have := ih [] ws' vs' f (by omega) (by simp at hN ⊢; omega) r (inp s r1) acc hes
            (asc_tail _ _ hws) (by rw [inp_input]; exact hd2) (inp_unmetered s _ hu) (fun p hp => hokw p (by simp [hp]))
            hoke (small_suf s r1 hsm (decVal_suf env fr wt _ fv r1 hd1))
          simpa only [mapOutcomes] using this
    | cons p es' =>
      obtain ⟨l, et⟩ := p
      have hes' := asc_tail _ _ hes
      have hgt : ∀ p ∈ es', l.getId < p.1.getId := by
        intro p hp
        exact asc_head_lt _ _ hes p.1.getId (List.mem_map.mpr ⟨p, hp, rfl⟩)
      have hoket : OKE env et := hoke (l, et) (by simp)
      have hoke' : ∀ p ∈ es', OKE env p.2 := fun p hp => hoke p (by simp [hp])
      cases ws with
      | nil =>
        have hdf0 := hdf
        simp only [decFields, Outcome.ok.injEq, Prod.mk.injEq] at hdf
        obtain ⟨hv0, hr0⟩ := hdf
        subst hv0
        simp only [mergeFields, deFields]
        rw [addCost_unmetered_ok s hu]
        simp only [rbind_ok]
        rw [addCost_unmetered_ok s hu]
        simp only [rbind_ok]
        rw [addCost_unmetered_ok s hu]
        simp only [rbind_ok]
        rw [mapOutcomes_cons_map]
        have hG : GF env n [] [] (l, et) = (nullC env et).map fun v' => (l, v') := by simp [GF, fieldVal]
        rw [hG, omap_bind]
        refine CoRel.bind (null_rel_w env f hTf et s hu hoket hsm) _ _ (fun v' => ?_)
        have := ih es' [] [] f (by omega) (by simp at hN ⊢; omega) r (inp s s.input) ((l, v') :: acc) hes' hws
          (by rw [inp_input]; exact hdf0) (inp_unmetered s _ hu) hokw hoke' (by rw [inp_self]; exact hsm)
        rw [rev_cons_append] at this
        exact this
      | cons q ws' =>
        obtain ⟨vl, wt⟩ := q
        obtain ⟨fv, r1, vs', hd1, hd2, hvs⟩ := decFields_cons_inv _ vl wt ws' _ vs r hdf
        subst hvs
        have hsm1 : Small (inp s r1) := small_suf s r1 hsm (decVal_suf env fr wt _ fv r1 hd1)
        by_cases heq : l.getId = vl.getId
        · simp only [mergeFields, heq, if_true, deFields]
          rw [addCost_unmetered_ok s hu]
          simp only [rbind_ok]
          rw [addCost_unmetered_ok s hu]
          simp only [rbind_ok]
          rw [addCost_unmetered_ok s hu]
          simp only [rbind_ok, show (Visitor.idl = Visitor.ignored) = False from by simp, if_false]
          rw [mapOutcomes_cons_map]
          have hG : GF env n ((vl, wt) :: ws') ((vl, fv) :: vs') (l, et) =
              (coerce env false env n wt et fv).map fun v' => (l, v') := by
            simp [GF, fieldVal, lookL, heq]
          rw [hG, omap_bind]
          refine CoRel.bind (hTf n wt et fv fr r1 s hd1 hu (hokw (vl, wt) (by simp)) hoket hsm) _ _ (fun v' => ?_)
          have hcongr : mapOutcomes (GF env n ((vl, wt) :: ws') ((vl, fv) :: vs')) es' = mapOutcomes (GF env n ws' vs') es' :=
            mapOutcomes_congr _ _ es' (fun p hp => GF_drop env n vl wt ws' vl fv vs' p
              (by have := hgt p hp; omega) (by have := hgt p hp; omega))
          rw [hcongr]
          have := ih es' ws' vs' f (by omega) (by simp at hN ⊢; omega) r (inp s r1) ((l, v') :: acc)
            hes' (asc_tail _ _ hws) (by rw [inp_input]; exact hd2) (inp_unmetered s _ hu) (fun p hp => hokw p (by simp [hp]))
            hoke' hsm1
          rw [rev_cons_append] at this
          exact this
        · by_cases hlt : l.getId < vl.getId
          · have hne : ¬ (l.getId = vl.getId) := heq
            simp only [mergeFields, hne, if_false, hlt, if_true, deFields]
            rw [addCost_unmetered_ok s hu]
            simp only [rbind_ok]
            have hnone : fieldVal ((vl, fv) :: vs') l.getId = none := by
              apply fieldVal_none
              intro p hp hpid
              have hlab := decFields_labels _ _ _ _ _ hdf
              have hmem : p.1 ∈ ((vl, wt) :: ws').map (·.1) := by
                rw [← hlab]; exact List.mem_map.mpr ⟨p, hp, rfl⟩
              simp only [List.map_cons, List.mem_cons] at hmem
              rcases hmem with h | h
              · rw [h] at hpid; omega
              · obtain ⟨q, hq, hq1⟩ := List.mem_map.mp h
                have hlt2 : vl.getId < q.1.getId := asc_head_lt _ _ hws q.1.getId (List.mem_map.mpr ⟨q, hq, rfl⟩)
                rw [hq1] at hlt2
                omega
            have hG : GF env n ((vl, wt) :: ws') ((vl, fv) :: vs') (l, et) = (nullC env et).map fun v' => (l, v') := by
              simp only [GF, hnone]
            rw [mapOutcomes_cons_map, hG, omap_bind]
            cases htr : env.trace f et with
            | none => exact CoRel.starvedR _ _ _
            | some et' =>
              simp only []
              have hfull := Sub.traceFull_of_trace env f et et' htr
              have hoket' : OKE env et' := hoket.step (reach_traceFull env et et' hfull)
              by_cases hopt : isOptLikeTy et' = true
              · simp only [hopt, Bool.not_true, Bool.false_eq_true, if_false]
                rw [addCost_unmetered_ok s hu]
                simp only [rbind_ok]
                rw [addCost_unmetered_ok s hu]
                simp only [rbind_ok]
                rw [nullC_trace env et et' hfull]
                refine CoRel.bind (null_rel_w env f hTf et' s hu hoket' hsm) _ _ (fun v' => ?_)
                have := ih es' ((vl, wt) :: ws') ((vl, fv) :: vs') f (by omega) (by simp at hN ⊢; omega) r
                  (inp s s.input) ((l, v') :: acc) hes' hws (by rw [inp_input]; exact hdf)
                  (inp_unmetered s _ hu) hokw hoke' (by rw [inp_self]; exact hsm)
                rw [rev_cons_append] at this
                exact this
              · have hno : isOptLikeTy et' = false := by
                  cases h : isOptLikeTy et' with
                  | true => exact absurd h hopt
                  | false => rfl
                simp only [hno, Bool.not_false, if_true]
                rw [nullC_not_optlike env et et' hfull hno]
                exact CoRel.mkSub s r hu
          · have hgt' : vl.getId < l.getId := by omega
            have hne : ¬ (l.getId = vl.getId) := heq
            simp only [mergeFields, hne, if_false, hlt, deFields]
            rw [addCost_unmetered_ok s hu]
            simp only [rbind_ok]
            rw [addCost_unmetered_ok s hu]
            simp only [rbind_ok]
            rw [addCost_unmetered_ok s hu]
            simp only [rbind_ok]
            rcases wire_only_rel_w env f hTf wt fv fr r1 s hd1 hu (hokw (vl, wt) (by simp)) hsm with h | h
            · rw [h]; exact CoRel.starvedR _ _ _
            · rw [h]
              simp only [rbind_ok]
              refine CoRel.of_inp (a := r1) ?_
              have hcongr : mapOutcomes (GF env n ((vl, wt) :: ws') ((vl, fv) :: vs')) ((l, et) :: es') =
                  mapOutcomes (GF env n ws' vs') ((l, et) :: es') :=
                mapOutcomes_congr _ _ _ (fun p hp => by
                  have hpid : vl.getId < p.1.getId := by
                    simp only [List.mem_cons] at hp
                    rcases hp with rfl | hp
                    · exact hgt'
                    · have := hgt p hp; omega
                  exact GF_drop env n vl wt ws' vl fv vs' p (by omega) (by omega))
              rw [hcongr]
              exact ih ((l, et) :: es') ws' vs' f (by omega) (by simp at hN ⊢; omega) r (inp s r1) acc
                hes (asc_tail _ _ hws) (by rw [inp_input]; exact hd2) (inp_unmetered s _ hu) (fun p hp => hokw p (by simp [hp]))
                hoke hsm1

/-- the expected type is a record -/
theorem tr_record_w (env : Env) (m : Nat) (hT : ∀ k < m, TRw env k) (n : Nat) (w w' e : Ty) (efs : Fields) (v : Val) (fr : Nat)
    (r : Bytes) (s : St) (hw : traceFull env w = some w') (he : traceFull env e = some (.record efs))
    (hd : decVal env (fr + 1) w' s.input = .ok (v, r))
    (hu : Unmetered s) (hokw : OKWr env w') (hoke : OKE env (.record efs)) (hsm : Small s) :
    CoRel (coerce env false env (n + 1) w e v)
      ((addCost s 1).bind fun _ s1 => recCase env m efs w' s1) s r := by
  unfold coerce
  rw [hw, he]
  simp only []
  rw [addCost_unmetered_ok s hu]
  simp only [rbind_ok]
  cases w' with
  | record wfs =>
    simp only [recCase]
    simp only [decVal] at hd
    obtain ⟨a, hm, h2⟩ := omap_ok2 hd
    obtain ⟨vfs, r'⟩ := a
    simp only [Prod.mk.injEq] at h2
    rw [← h2.1, ← h2.2]
    simp only []
    have hasc_w : strictlyAscending (wfs.toList.map (·.1.getId)) = true := by
      simpa [headOKW] using (hokw _ (Reach.refl _)).1
    have hasc_e : strictlyAscending (efs.toList.map (·.1.getId)) = true := by
      simpa [headOK] using hoke _ (Reach.refl _)
    have hnd := asc_nodup _ hasc_w
    rw [mapOutcomes_congr _ (GF env n wfs.toList vfs) efs.toList (fun p _ => by
      simp only [GF, lookupF_eq_lookL wfs _ hnd, nullC]
      cases fieldVal vfs p.1.getId <;> cases lookL wfs.toList p.1.getId <;> simp only [] <;>
        first
          | rfl
          | (cases Sub.traceFull env p.2 with
             | none => rfl
             | some t =>
               cases t with
               | prim q => cases q <;> rfl
               | _ => rfl))]
    have := fields_rel_w env m hT n fr (efs.toList.length + wfs.toList.length + 1) efs.toList wfs.toList vfs m (Nat.le_refl _)
      (by omega) r' s [] hasc_e hasc_w hm hu
      (fun p hp => hokw.step (Reach.field (Reach.refl _) hp)) (fun p hp => hoke.step (Reach.field (Reach.refl _) hp)) hsm
    have hid : (fun fs => Val.record (([] : List (Label × Val)).reverse ++ fs)) = Val.record := by
      funext fs; simp
    rw [hid] at this
    exact this
  | _ =>
    split
    · exfalso
      rename_i h1 h2
      first | exact Ty.noConfusion h2 | exact Ty.noConfusion h1
    · simp only [recCase]; exact CoRel.mkSub s r hu

/-! ## one level of the typed read, and the theorem -/

theorem tr_step_w (env : Env) (m : Nat) (hT : ∀ k ≤ m, TRw env k) : TRw env (m + 1) := by
  intro n w e v f r s hd hu hokw hoke hsm
  cases n with
  | zero => exact CoRel.starvedL _ _ _
  | succ n =>
  rw [deAny_succ, unroll_char env m w e s hu]
  cases hte : traceAt env m e with
  | none => exact CoRel.starvedR _ _ _
  | some e' =>
  cases htw : traceAt env m w with
  | none => exact CoRel.starvedR _ _ _
  | some w' =>
  simp only [rbind_ok]
  have hwf := traceAt_full env m w w' htw
  have hef := traceAt_full env m e e' hte
  obtain ⟨f', hd'⟩ := decVal_at_trace env m w w' f _ _ htw hd
  have hokw' : OKWr env w' := hokw.step (reach_traceFull env w w' hwf)
  have hoke' : OKE env e' := hoke.step (reach_traceFull env e e' hef)
  have hhe : headOK e' = true := hoke' e' (Reach.refl _)
  have hhw : headOKW w' = true := (hokw' w' (Reach.refl _)).1
  cases f' with
  | zero => simp [decVal] at hd'
  | succ fr =>
  have hTm : TRw env m := hT m (Nat.le_refl _)
  cases e' with
  | prim p =>
    cases p with
    | reserved =>
      unfold coerce
      rw [hwf, hef]
      simp only [deAnyBody]
      by_cases hwr : w' = .prim .reserved
      · subst hwr
        simp only [decVal, decPrim, Outcome.ok.injEq, Prod.mk.injEq] at hd'
        simp only [ne_eq, not_true_eq_false, if_false, rbind_ok]
        rw [addCost_unmetered_ok s hu]
        have := CoRel.mkOk .reserved s s.input
        rw [inp_self, hd'.2] at this
        exact this
      · simp only [ne_eq, hwr, not_false_eq_true, if_true]
        rcases (skip_all_w env m).1 w' v (fr + 1) r s hd' hu hokw' hsm with h | ⟨x, h⟩
        · rw [h]; exact CoRel.starvedR _ _ _
        · rw [h]
          simp only [rbind_ok]
          rw [addCost_unmetered_ok _ (inp_unmetered s _ hu)]
          exact CoRel.mkOk _ _ _
    | int =>
      unfold coerce
      rw [hwf, hef]
      simp only [deAnyBody]
      by_cases hwi : w' = .prim .int
      · subst hwi
        obtain ⟨i, hv, hsp⟩ := decPrim_int_inv (decVal_prim env _ _ _ _ hd')
        subst hv
        simp only []
        rw [bigNum_ok intAs s hu _ r (intAs_of_spec _ _ _ hsp)]
        exact CoRel.mkOk _ _ _
      · by_cases hwn : w' = .prim .nat
        · subst hwn
          obtain ⟨k, hv, hsp⟩ := decPrim_nat_inv (decVal_prim env _ _ _ _ hd')
          subst hv
          simp only []
          rw [bigNum_ok (natAs fun n => Val.int n) s hu _ r (natAs_of_spec _ _ _ _ hsp)]
          exact CoRel.mkOk _ _ _
        · split <;> first
            | exact absurd rfl hwi
            | exact absurd rfl hwn
            | (split <;> first
                | exact absurd rfl hwi
                | exact absurd rfl hwn
                | exact CoRel.mkSub s r hu)
    | empty =>
      unfold coerce
      rw [hwf, hef]
      simp only [deAnyBody]
      have hwe : w' ≠ .prim .empty := by
        intro h; subst h
        simp [decVal, decPrim] at hd'
      simp only [hwe, if_false]
      exact CoRel.mkSub s r hu
    | nat =>
      unfold coerce
      rw [hwf, hef]
      simp only [deAnyBody]
      by_cases hwn : w' = .prim .nat
      · subst hwn
        obtain ⟨k, hv, hsp⟩ := decPrim_nat_inv (decVal_prim env _ _ _ _ hd')
        subst hv
        simp only [if_true]
        rw [bigNum_ok _ s hu _ r (natAs_of_spec _ _ _ _ hsp)]
        exact CoRel.mkOk _ _ _
      · simp only [hwn, if_false]
        exact CoRel.mkSub s r hu
    | text =>
      unfold coerce
      rw [hwf, hef]
      simp only [deAnyBody]
      by_cases hwt : w' = .prim .text
      · subst hwt
        simp only [if_true]
        exact CoRel.of_eq (text_wf s v r (decVal_prim env _ _ _ _ hd') hu)
      · simp only [hwt, if_false]
        exact CoRel.mkSub s r hu
    | _ =>
      unfold coerce
      rw [hwf, hef]
      simp only [deAnyBody]
      exact tr_prim_exact_w env _ _ w' v fr r s hd' hu
  | principal =>
    unfold coerce
    rw [hwf, hef]
    simp only [deAnyBody]
    by_cases hwp : w' = .principal
    · subst hwp
      simp only [decVal] at hd'
      obtain ⟨a, h1, h2⟩ := omap_ok2 hd'
      obtain ⟨pb, r'⟩ := a
      simp only [Prod.mk.injEq] at h2
      rw [← h2.1, ← h2.2]
      simp only []
      rw [principal_wf s pb r' h1 hu]
      exact CoRel.mkOk _ _ _
    · by_cases hws : ∃ ms, w' = .service ms
      · -- a service reference read at `principal`
        obtain ⟨ms, hms⟩ := hws
        subst hms
        simp only [decVal] at hd'
        obtain ⟨a, h1, h2⟩ := omap_ok2 hd'
        obtain ⟨pb, r'⟩ := a
        simp only [Prod.mk.injEq] at h2
        rw [← h2.1, ← h2.2]
        simp only []
        rw [principal_wf s pb r' h1 hu]
        exact CoRel.mkOk _ _ _
      · split <;> first
          | exact absurd rfl hwp
          | (exfalso; exact hws ⟨_, rfl⟩)
          | (split <;> first
              | exact absurd rfl hwp
              | (exfalso; exact hws ⟨_, rfl⟩)
              | exact CoRel.mkSub s r hu)
  | opt e2 =>
    simp only [deAnyBody]
    exact tr_opt_w env m hT n w w' e e2 v fr r s hwf hef hd' hu hokw' hoke' hsm
  | vec e2 =>
    simp only [deAnyBody]
    exact tr_vec_w env m hTm n w w' e e2 v fr r s hwf hef hd' hu hokw' hoke' hsm
  | record efs =>
    simp only [deAnyBody]
    exact tr_record_w env m (fun k hk => hT k (by omega)) n w w' e efs v fr r s hwf hef hd' hu hokw' hoke' hsm
  | variant efs =>
    simp only [deAnyBody]
    exact tr_variant_w env m hTm n w w' e efs v fr r s hwf hef hd' hu hokw' hoke' hsm
  | func a b c => simp [headOK] at hhe
  | service ms => simp [headOK] at hhe
  | future => simp [headOK] at hhe
  | knot x => simp [headOK] at hhe
  | unknown => simp [headOK] at hhe
  | cls a t => simp [headOK] at hhe
  | var x => exact absurd rfl (Wire.trace_not_var env _ e (.var x) hef x)

/-- **reading any value the specification's reader accepts, at an expected type, is the specification's coercion** -/
theorem typed_read_w (env : Env) : ∀ (m : Nat), TRw env m := by
  intro m
  induction m using Nat.strongRecOn with
  | _ m ih =>
    cases m with
    | zero => intro n w e v f r s _ _ _ _ _; exact CoRel.starvedR _ _ _
    | succ m => exact tr_step_w env m (fun k hk => ih k (by omega))

/-! ## the argument sequence and whole messages -/

theorem decArgs_cons_inv (env : Env) (f : Nat) (w : Ty) (ws : List Ty) (bs : Bytes) (vs : List Val) (r : Bytes)
    (h : decArgs env f (w :: ws) bs = .ok (vs, r)) :
    ∃ v r1 vs', decVal env f w bs = .ok (v, r1) ∧ decArgs env f ws r1 = .ok (vs', r) ∧ vs = v :: vs' := by
  simp only [decArgs] at h
  cases hd : decVal env f w bs with
  | ok x =>
    obtain ⟨v, r1⟩ := x
    rw [hd] at h
    simp only [] at h
    cases hm : decArgs env f ws r1 with
    | ok y =>
      obtain ⟨vs', r2⟩ := y
      rw [hm] at h
      simp only [Outcome.ok.injEq, Prod.mk.injEq] at h
      exact ⟨v, r1, vs', rfl, by rw [← h.2, hm], h.1.symm⟩
    | err k => rw [hm] at h; simp at h
    | panic q => rw [hm] at h; simp at h
  | err k => rw [hd] at h; simp at h
  | panic q => rw [hd] at h; simp at h

theorem drain_skips_w (env : Env) : ∀ (ws : List Ty) (vs : List Val) (f : Nat) (r : Bytes) (s : St),
    decArgs env f ws s.input = .ok (vs, r) → Unmetered s → (∀ w ∈ ws, OKWr env w) → Small s →
    argLoop.drain env ws s = .err .limit ∨ ∃ s', argLoop.drain env ws s = .ok () s' ∧ s'.input = r ∧ Unmetered s' := by
  intro ws
  induction ws with
  | nil =>
    intro vs f r s h hu _ _
    simp only [decArgs, Outcome.ok.injEq, Prod.mk.injEq] at h
    right
    unfold argLoop.drain
    exact ⟨s, rfl, h.2, hu⟩
  | cons w ws ih =>
    intro vs f r s h hu hok hsm
    obtain ⟨v, r1, vs', hd1, hd2, _⟩ := decArgs_cons_inv env f w ws _ vs r h
    unfold argLoop.drain
    rcases (skip_all_w env De.defaultFuel).1 w v f r1 { s with untyped := false } hd1 hu (hok w (by simp)) hsm with h | ⟨x, h⟩
    · left; rw [h]; rfl
    · rw [h]
      simp only [rbind_ok]
      exact ih vs' f r _ (by rw [inp_input]; exact hd2) (inp_unmetered _ _ hu) (fun w' hw' => hok w' (by simp [hw']))
        (small_suf { s with untyped := false } r1 hsm (decVal_suf env f w _ v r1 hd1))

/-- **the argument sequence on any input the reader accepts** -/
theorem args_rel_w (env : Env) (hlen : env.length + 2 ≤ De.defaultFuel) (n : Nat) : ∀ (es ws : List Ty) (vs : List Val)
    (f : Nat) (s : St) (acc : List Val),
    decArgs env f ws s.input = .ok (vs, []) → Unmetered s → (∀ w ∈ ws, OKWr env w) → (∀ e ∈ es, OKE env e) → Small s →
    ArgRel ((coerceArgs env n false env ws vs es).map (acc.reverse ++ ·)) (argLoop env es ws s acc) := by
  intro es
  induction es with
  | nil =>
    intro ws vs f s acc hda hu hokw _ hsm
    unfold argLoop
    simp only [coerceArgs, Outcome.map, List.append_nil]
    rcases drain_skips_w env ws vs f [] s hda hu hokw hsm with h | ⟨s', h, hi, _⟩
    · rw [h]; exact Or.inr (Or.inl rfl)
    · rw [h]
      simp only [rbind_ok, hi, List.isEmpty_nil, if_true]
      exact Or.inr (Or.inr ⟨rfl, hi⟩)
  | cons e es ih =>
    intro ws vs f s acc hda hu hokw hoke hsm
    unfold argLoop
    simp only []
    have hoke1 : OKE env e := hoke e (by simp)
    have hokes : ∀ e' ∈ es, OKE env e' := fun e' he' => hoke e' (by simp [he'])
    have hu1 : Unmetered { s with untyped := true } := hu
    have hsm1 : Small { s with untyped := true } := hsm
    cases htr : env.trace De.defaultFuel e with
    | none =>
      simp only []
      have hnone : traceFull env e = none := by
        cases h : traceFull env e with
        | none => rfl
        | some t =>
          have := trace_ge env _ e t h (De.defaultFuel - (env.length + 2))
          rw [show env.length + 2 + (De.defaultFuel - (env.length + 2)) = De.defaultFuel from by omega, htr] at this
          exact absurd this (by simp)
      cases ws with
      | nil =>
        simp only [decArgs, Outcome.ok.injEq, Prod.mk.injEq] at hda
        rw [← hda.1]
        simp only [coerceArgs, hnone, Outcome.map]
        exact Or.inr (Or.inr trivial)
      | cons w ws =>
        obtain ⟨v, r1, vs', _, _, hvs⟩ := decArgs_cons_inv env f w ws _ vs [] hda
        subst hvs
        simp only [coerceArgs]
        cases n with
        | zero => exact Or.inl rfl
        | succ n =>
          have : coerce env false env (n + 1) w e v = .err .other := by
            unfold coerce
            rw [hnone]
            cases traceFull env w <;> rfl
          rw [this]
          exact Or.inr (Or.inr trivial)
    | some e' =>
      simp only []
      have hfull := Sub.traceFull_of_trace env _ e e' htr
      have hoke' : OKE env e' := hoke1.step (reach_traceFull env e e' hfull)
      cases ws with
      | nil =>
        have hda0 := hda
        simp only [decArgs, Outcome.ok.injEq, Prod.mk.injEq] at hda
        rw [← hda.1]
        rw [coerceArgs_nil, nullC_trace env e e' hfull]
        by_cases hopt : isOptLikeTy e' = true
        · simp only [hopt, if_true]
          rw [obind_map]
          refine ArgRel.bind (null_rel_w env De.defaultFuel (typed_read_w env _) e' { s with untyped := true } hu1 hoke' hsm1)
            _ _ (fun x => ?_)
          have := ih [] [] f (inp { s with untyped := true } ({ s with untyped := true } : St).input) (x :: acc)
            (by rw [inp_input]; simp only [decArgs]; rw [hda.2]) hu1 (by simp) hokes (by rw [inp_self]; exact hsm1)
          rw [omap_map]
          rw [rev_cons_append'] at this
          exact this
        · have hno : isOptLikeTy e' = false := by
            cases h : isOptLikeTy e' with
            | true => exact absurd h hopt
            | false => rfl
          have het' : traceFull env e' = some e' := by
            unfold traceFull
            exact Check.trace_nonvar env _ e' (Wire.trace_not_var env _ e e' hfull)
          simp only [hno, Bool.false_eq_true, if_false]
          rw [nullC_not_optlike env e' e' het' hno]
          exact Or.inr (Or.inr trivial)
      | cons w ws =>
        obtain ⟨v, r1, vs', hd1, hd2, hvs⟩ := decArgs_cons_inv env f w ws _ vs [] hda
        subst hvs
        have hco : coerceArgs env n false env (w :: ws) (v :: vs') (e :: es) =
            (coerce env false env n w e v).bind fun v' => (coerceArgs env n false env ws vs' es).map (v' :: ·) := by
          simp only [coerceArgs]
          cases coerce env false env n w e v <;> rfl
        rw [hco, obind_map, coerce_trace_e env n w e e' v hfull]
        refine ArgRel.bind (typed_read_w env De.defaultFuel n w e' v f r1 { s with untyped := true } hd1 hu1
          (hokw w (by simp)) hoke' hsm1) _ _ (fun x => ?_)
        have := ih ws vs' f (inp { s with untyped := true } r1) (x :: acc) (by rw [inp_input]; exact hd2) hu1
          (fun w' hw' => hokw w' (by simp [hw'])) hokes
          (small_suf { s with untyped := true } r1 hsm1 (decVal_suf env f w _ v r1 hd1))
        rw [omap_map]
        rw [rev_cons_append'] at this
        exact this

/-- **any message the specification's reader accepts, at an expected type sequence** -/
theorem message_rel_w (bs : Bytes) (env : Env) (expected : List Ty) (hd : Header) (body : Bytes) (vs : List Val)
    (f n : Nat) (hp : parseHeader bs = .ok (hd, body)) (hne : expected.isEmpty = false)
    (hda : decArgs (mergeEnv hd.table env expected).1 f hd.args body = .ok (vs, []))
    (hokw : ∀ w ∈ hd.args, OKWr (mergeEnv hd.table env expected).1 w)
    (hoke : ∀ e ∈ (mergeEnv hd.table env expected).2, OKE (mergeEnv hd.table env expected).1 e)
    (hlen : (mergeEnv hd.table env expected).1.length + 2 ≤ De.defaultFuel) :
    ArgRel (coerceArgs (mergeEnv hd.table env expected).1 n false (mergeEnv hd.table env expected).1 hd.args vs
        (mergeEnv hd.table env expected).2)
      (decodeWithConfig bs env expected ⟨none, none⟩) := by
  unfold decodeWithConfig
  rw [hp]
  simp only [hne, Bool.false_eq_true, if_false]
  have hu0 : Unmetered ({ input := body, gamma := [], dq := none, sq := none, untyped := false } : St) := ⟨rfl, rfl⟩
  rw [addCost_unmetered_ok _ hu0]
  simp only [rbind_ok]
  have := args_rel_w (mergeEnv hd.table env expected).1 hlen n (mergeEnv hd.table env expected).2 hd.args vs f
    { input := body, gamma := [], dq := none, sq := none, untyped := false } [] hda hu0 hokw hoke trivial
  have hid : (fun (x : List Val) => ([] : List Val).reverse ++ x) = id := by funext x; simp
  rw [hid] at this
  have hmap : ∀ (x : Outcome (List Val)), x.map id = x := by intro x; cases x <;> rfl
  rw [hmap] at this
  exact this

/-- the specification's decoder on a message whose values its reader accepts -/
theorem spec_decode_accepted (bs : Bytes) (env : Env) (expected : List Ty) (hd : Header) (body : Bytes) (vs : List Val)
    (hp : parseHeader bs = .ok (hd, body))
    (hda : decArgs (mergeEnv hd.table env expected).1 Wire.defaultFuel hd.args body = .ok (vs, [])) :
    decodeArgs bs env expected false false =
      coerceArgs (mergeEnv hd.table env expected).1 Wire.defaultFuel false (mergeEnv hd.table env expected).1 hd.args vs
        (mergeEnv hd.table env expected).2 := by
  unfold decodeArgs
  rw [hp]
  simp only []
  rw [hda]
  simp

theorem okwr_of_all (env : Env) (w : Ty) (henv : allEnv (fun t => headOKW t && unitLit env t) env = true)
    (hw : allTy (fun t => headOKW t && unitLit env t) w = true) : OKWr env w := by
  intro t ht
  have := allTy_head _ t (reach_all _ env env henv (fun _ _ h => h) w t hw ht)
  simpa using this

end Candid.De
