import CandidModel.Principal
/- helper lemmas for C16 -/
namespace Candid.Principal

theorem rev_ind {α : Type} {P : List α → Prop} (hnil : P []) (hsnoc : ∀ l a, P l → P (l ++ [a])) :
    ∀ l, P l := by
  intro l
  rw [← List.reverse_reverse l]
  induction l.reverse with
  | nil => exact hnil
  | cons a t ih => rw [List.reverse_cons]; exact hsnoc _ _ ih

/-! ### digits -/
theorem toDigitsBE_length (b k n : Nat) : (toDigitsBE b k n).length = k := by
  induction k generalizing n with
  | zero => rfl
  | succ k ih => simp [toDigitsBE, ih]

theorem ofDigitsBE_snoc (b : Nat) (ds : List Nat) (d : Nat) :
    ofDigitsBE b (ds ++ [d]) = ofDigitsBE b ds * b + d := by
  simp [ofDigitsBE, List.foldl_append]

theorem ofDigitsBE_toDigitsBE (b k n : Nat) (hb : 0 < b) :
    ofDigitsBE b (toDigitsBE b k n) = n % b ^ k := by
  induction k generalizing n with
  | zero => simp [toDigitsBE, ofDigitsBE, Nat.mod_one]
  | succ k ih =>
    rw [toDigitsBE, ofDigitsBE_snoc, ih, Nat.pow_succ]
    rw [Nat.mul_comm (b ^ k) b, Nat.mod_mul, Nat.mul_comm]
    omega

theorem toDigitsBE_lt (b k n : Nat) (hb : 0 < b) : ∀ d ∈ toDigitsBE b k n, d < b := by
  induction k generalizing n with
  | zero => simp [toDigitsBE]
  | succ k ih =>
    intro d hd
    rw [toDigitsBE, List.mem_append] at hd
    rcases hd with h | h
    · exact ih _ d h
    · simp at h; subst h; exact Nat.mod_lt _ hb

theorem ofDigitsBE_lt (b : Nat) (ds : List Nat) (h : ∀ d ∈ ds, d < b) : ofDigitsBE b ds < b ^ ds.length := by
  induction ds using rev_ind with
  | hnil => simp [ofDigitsBE]
  | hsnoc ds d ih =>
    rw [ofDigitsBE_snoc, List.length_append, List.length_singleton, Nat.pow_succ]
    have h1 := ih (fun x hx => h x (List.mem_append_left _ hx))
    have h2 := h d (by simp)
    calc ofDigitsBE b ds * b + d < ofDigitsBE b ds * b + b := by omega
      _ = (ofDigitsBE b ds + 1) * b := by rw [Nat.add_mul]; simp
      _ ≤ b ^ ds.length * b := Nat.mul_le_mul_right _ h1

theorem toDigitsBE_ofDigitsBE (b : Nat) (ds : List Nat) (h : ∀ d ∈ ds, d < b) :
    toDigitsBE b ds.length (ofDigitsBE b ds) = ds := by
  induction ds using rev_ind with
  | hnil => rfl
  | hsnoc ds d ih =>
    have hd := h d (by simp)
    have hb : 0 < b := by omega
    rw [List.length_append, List.length_singleton, toDigitsBE, ofDigitsBE_snoc]
    have e1 : (ofDigitsBE b ds * b + d) / b = ofDigitsBE b ds := by
      rw [Nat.mul_comm, Nat.mul_add_div hb, Nat.div_eq_of_lt hd]; simp
    have e2 : (ofDigitsBE b ds * b + d) % b = d := by
      rw [Nat.mul_comm, Nat.mul_add_mod, Nat.mod_eq_of_lt hd]
    rw [e1, e2, ih (fun x hx => h x (List.mem_append_left _ hx))]

/-! ### base32 round trip -/
theorem map_toUInt8_toNat (bs : Bytes) : (bs.map UInt8.toNat).map Nat.toUInt8 = bs := by
  induction bs with
  | nil => rfl
  | cons b t ih => simp [ih]

theorem b32Encode_length (bs : Bytes) : (b32Encode bs).length = (8 * bs.length + 4) / 5 := by
  simp [b32Encode, toDigitsBE_length]

theorem b32Encode_lt (bs : Bytes) : ∀ v ∈ b32Encode bs, v < 32 := by
  unfold b32Encode; exact toDigitsBE_lt 32 _ _ (by omega)

theorem b32_roundtrip (bs : Bytes) : b32Decode (b32Encode bs) = some bs := by
  have hN : ofDigitsBE 256 (bs.map UInt8.toNat) < 256 ^ bs.length := by
    have := ofDigitsBE_lt 256 (bs.map UInt8.toNat) (by
      intro d hd; simp at hd; obtain ⟨x, _, rfl⟩ := hd; exact x.toNat_lt)
    simpa using this
  unfold b32Decode
  rw [b32Encode_length]
  generalize hn : bs.length = n at *
  generalize hm : (8 * n + 4) / 5 = m
  have hm8 : ¬ (m % 8 = 1 ∨ m % 8 = 3 ∨ m % 8 = 6) := by omega
  have hn' : 5 * m / 8 = n := by omega
  simp only [hm8, if_false, hn']
  unfold b32Encode
  simp only [hn, hm]
  rw [ofDigitsBE_toDigitsBE 32 _ _ (by omega)]
  generalize hNN : ofDigitsBE 256 (bs.map UInt8.toNat) = N at *
  have hp : 5 * m - 8 * n ≤ 4 := by omega
  have h32 : (32 : Nat) ^ m = 2 ^ (8 * n) * 2 ^ (5 * m - 8 * n) := by
    rw [show (32 : Nat) = 2 ^ 5 by rfl, ← Nat.pow_mul, ← Nat.pow_add]; congr 1; omega
  have h256 : (256 : Nat) ^ n = 2 ^ (8 * n) := by
    rw [show (256 : Nat) = 2 ^ 8 by rfl, ← Nat.pow_mul]
  have hlt : N * 2 ^ (5 * m - 8 * n) < 32 ^ m := by
    rw [h32]; rw [h256] at hN
    exact Nat.mul_lt_mul_of_pos_right hN (Nat.two_pow_pos _)
  rw [Nat.mod_eq_of_lt hlt]
  have hz : N * 2 ^ (5 * m - 8 * n) % 2 ^ (5 * m - 8 * n) = 0 := Nat.mul_mod_left _ _
  simp only [hz, ne_eq, not_true_eq_false, if_false]
  rw [Nat.mul_div_cancel _ (Nat.two_pow_pos _)]
  have : toDigitsBE 256 n N = bs.map UInt8.toNat := by
    rw [← hNN]
    have := toDigitsBE_ofDigitsBE 256 (bs.map UInt8.toNat) (by
      intro d hd; simp at hd; obtain ⟨x, _, rfl⟩ := hd; exact x.toNat_lt)
    simpa [hn] using this
  rw [this, map_toUInt8_toNat]

/-! ### alphabet and grouping -/
theorem alpha_upper_val : ∀ v, v < 32 → valOfUpper (asciiUpper (alphaLower v)) = some v := by decide +kernel
theorem alpha_lower_fix : ∀ v, v < 32 → asciiLower (alphaLower v) = alphaLower v := by decide +kernel
theorem alpha_ne_dash : ∀ v, v < 32 → alphaLower v ≠ '-' ∧ asciiUpper (alphaLower v) ≠ '-' := by decide +kernel

theorem group5_map (f : Char → Char) (hf : f '-' = '-') : ∀ (n : Nat) (s : List Char), s.length ≤ n →
    (group5 s).map f = group5 (s.map f) := by
  intro n
  induction n using Nat.strongRecOn with
  | _ n ih =>
    intro s hs
    match s with
    | [] | [_] | [_, _] | [_, _, _] | [_, _, _, _] | [_, _, _, _, _] => simp [group5]
    | a :: b :: c :: d :: e :: f' :: rest =>
      simp only [group5, List.map_cons, hf]
      have := ih (n - 5) (by simp at hs; omega) (f' :: rest) (by simp at hs ⊢; omega)
      simp only [List.map_cons] at this
      rw [this]

theorem group5_filter : ∀ (n : Nat) (s : List Char), s.length ≤ n → (∀ c ∈ s, c ≠ '-') →
    (group5 s).filter (· ≠ '-') = s := by
  intro n
  induction n using Nat.strongRecOn with
  | _ n ih =>
    intro s hs hd
    match s with
    | [] => simp [group5]
    | [a] => simp [group5, hd a]
    | [a, b] => simp [group5, hd a, hd b]
    | [a, b, c] => simp [group5, hd a, hd b, hd c]
    | [a, b, c, d] => simp [group5, hd a, hd b, hd c, hd d]
    | [a, b, c, d, e] => simp [group5, hd a, hd b, hd c, hd d, hd e]
    | a :: b :: c :: d :: e :: f' :: rest =>
      have h6 := ih (n - 5) (by simp at hs; omega) (f' :: rest) (by simp at hs ⊢; omega)
        (fun x hx => hd x (List.mem_cons_of_mem _ (List.mem_cons_of_mem _ (List.mem_cons_of_mem _
          (List.mem_cons_of_mem _ (List.mem_cons_of_mem _ hx))))))
      simp only [group5]
      simp at h6
      simp [hd a, hd b, hd c, hd d, hd e, h6]

theorem allSome_map_some (vs : List Nat) : allSome (vs.map some) = some vs := by
  induction vs with
  | nil => rfl
  | cons v t ih => simp [allSome, ih]

theorem be32_length (n : Nat) : (be32 n).length = 4 := by simp [be32, toDigitsBE_length]

end Candid.Principal
