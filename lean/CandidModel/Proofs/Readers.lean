import CandidModel.De
import CandidModel.Proofs.Leb
/- helper lemmas: the leaf readers never yield the `panic` outcome -/
namespace Candid.Readers
open Candid Candid.Wire Candid.Leb

theorem readLebCrate_no_panic (bs : Bytes) : ∀ s, readLebCrate bs ≠ .panic s := by
  intro s; unfold readLebCrate; split <;> (try split) <;> simp

theorem readSlebCrate_no_panic (bs : Bytes) : ∀ s, readSlebCrate bs ≠ .panic s := by
  intro s; unfold readSlebCrate; split <;> (try split) <;> (try split) <;> simp

theorem readLenDe_no_panic (bs : Bytes) : ∀ s, readLenDe bs ≠ .panic s := by
  intro s; unfold readLenDe; split <;> (try split) <;> simp

theorem takeN_no_panic (n : Nat) (bs : Bytes) : ∀ s, takeN n bs ≠ .panic s := by
  intro s; unfold takeN; split <;> simp

theorem readPrincipal_no_panic (bs : Bytes) : ∀ s, readPrincipal bs ≠ .panic s := by
  intro s
  unfold readPrincipal
  split
  · simp
  · split
    · simp
    · have h := readLebCrate_no_panic
      split
      · split
        · simp
        · exact takeN_no_panic _ _ s
      · simp
      · rename_i p hp; exact absurd hp (h _ p)

theorem natDecode_no_panic (bs : Bytes) : ∀ s, Impl.natDecode bs ≠ .panic s := by
  intro s
  rw [natDecode_spec]
  split <;> simp


end Candid.Readers
