import CandidModel.Proofs.De
/- helper lemmas for C06: a header that parses yields a safe type table -/
namespace Candid.Wire
open Candid Candid.Leb Candid.Sub

/-- a reference inside a type-table entry: a primitive, or the name of a table entry below the table length -/
def idxOk (len : Nat) : Ty → Prop
  | .var x => ∃ i, i < len ∧ x = tableName i
  | .prim _ | .principal => True
  | _ => False

/-- a type-table entry: one constructor over references -/
def consOk (len : Nat) : Ty → Prop
  | .opt t | .vec t => idxOk len t
  | .record fs | .variant fs => ∀ p ∈ fs.toList, idxOk len p.2
  | .func a r _ => (∀ t ∈ a.toList, idxOk len t) ∧ (∀ t ∈ r.toList, idxOk len t)
  | .service ms => ∀ p ∈ ms.toList, idxOk len p.2
  | .future => True
  | _ => False

theorem primOfIndex_ok (len : Nat) (i : Int) (t : Ty) (h : primOfIndex i = some t) : idxOk len t := by
  unfold primOfIndex at h
  split at h <;> simp at h <;> subst h <;> simp [idxOk]

theorem readIndexType_ok (len : Nat) (bs : Bytes) (t : Ty) (r : Bytes) (h : readIndexType len bs = .ok (t, r)) :
    idxOk len t := by
  unfold readIndexType at h
  split at h
  · split at h
    · split at h
      · simp at h; obtain ⟨rfl, _⟩ := h; exact ⟨_, ‹_›, rfl⟩
      · simp at h
    · split at h
      · simp at h; obtain ⟨rfl, _⟩ := h; exact primOfIndex_ok len _ _ ‹_›
      · simp at h
  · simp at h
  · simp at h

theorem readMany_all {α : Type} (f : Bytes → Outcome (α × Bytes)) (P : α → Prop)
    (hf : ∀ bs a r, f bs = .ok (a, r) → P a) : ∀ (n : Nat) (bs : Bytes) (l : List α) (r : Bytes),
    readMany f n bs = .ok (l, r) → (∀ a ∈ l, P a) ∧ l.length = n := by
  intro n
  induction n with
  | zero => intro bs l r h; simp [readMany] at h; obtain ⟨rfl, _⟩ := h; simp
  | succ n ih =>
    intro bs l r h
    simp only [readMany] at h
    cases hfb : f bs with
    | ok x =>
      obtain ⟨a, r1⟩ := x
      rw [hfb] at h
      simp only [] at h
      cases hm : readMany f n r1 with
      | ok y =>
        obtain ⟨as, r2⟩ := y
        rw [hm] at h
        simp at h
        obtain ⟨rfl, _⟩ := h
        obtain ⟨h1, h2⟩ := ih r1 as r2 hm
        refine ⟨?_, by simp [h2]⟩
        intro x hx
        simp only [List.mem_cons] at hx
        rcases hx with rfl | hx
        · exact hf bs _ r1 hfb
        · exact h1 x hx
      | err k => rw [hm] at h; simp at h
      | panic q => rw [hm] at h; simp at h
    | err k => rw [hfb] at h; simp at h
    | panic q => rw [hfb] at h; simp at h

end Candid.Wire

namespace Candid.Wire
open Candid Candid.Leb Candid.Sub

theorem readField_ok (len : Nat) (bs : Bytes) (p : Nat × Ty) (r : Bytes) (h : readField len bs = .ok (p, r)) :
    idxOk len p.2 := by
  unfold readField at h
  repeat' split at h
  all_goals first
    | (simp at h; obtain ⟨rfl, _⟩ := h; exact readIndexType_ok len _ _ _ ‹_›)
    | (simp at h)

theorem readMeth_ok (len : Nat) (bs : Bytes) (p : String × Ty) (r : Bytes) (h : readMeth len bs = .ok (p, r)) :
    idxOk len p.2 := by
  unfold readMeth at h
  repeat' split at h
  all_goals first
    | (simp at h; obtain ⟨rfl, _⟩ := h; exact readIndexType_ok len _ _ _ ‹_›)
    | (simp at h)

theorem toList_ofList_fields (l : List (Label × Ty)) : (Fields.ofList l).toList = l := by
  induction l with
  | nil => rfl
  | cons p r ih => obtain ⟨a, b⟩ := p; simp [Fields.ofList, Fields.toList, ih]

theorem toList_ofList_tys (l : List Ty) : (Tys.ofList l).toList = l := by
  induction l with
  | nil => rfl
  | cons p r ih => simp [Tys.ofList, Tys.toList, ih]

theorem toList_ofList_meths (l : List (String × Ty)) : (Meths.ofList l).toList = l := by
  induction l with
  | nil => rfl
  | cons p r ih => obtain ⟨a, b⟩ := p; simp [Meths.ofList, Meths.toList, ih]

theorem outcome_map_ok {α β : Type} (x : Outcome α) (f : α → β) (b : β) (h : x.map f = .ok b) : ∃ a, x = .ok a ∧ f a = b := by
  cases x <;> simp [Outcome.map] at h
  exact ⟨_, rfl, h⟩

theorem readConsType_ok (len : Nat) (bs : Bytes) (t : Ty) (r : Bytes) (h : readConsType len bs = .ok (t, r)) :
    consOk len t := by
  unfold readConsType at h
  split at h
  · simp at h
  · split at h
    · obtain ⟨⟨t', r'⟩, h1, h2⟩ := outcome_map_ok _ _ _ h
      simp at h2; obtain ⟨rfl, _⟩ := h2
      exact readIndexType_ok len _ _ _ h1
    · split at h
      · obtain ⟨⟨t', r'⟩, h1, h2⟩ := outcome_map_ok _ _ _ h
        simp at h2; obtain ⟨rfl, _⟩ := h2
        exact readIndexType_ok len _ _ _ h1
      · split at h
        · -- record / variant
          repeat' split at h
          all_goals first
            | (simp at h; done)
            | (simp only [Outcome.ok.injEq, Prod.mk.injEq] at h
               obtain ⟨rfl, _⟩ := h
               have hall := (readMany_all (readField len) (fun p => idxOk len p.2) (readField_ok len) _ _ _ _ ‹readMany (readField len) _ _ = Outcome.ok _›).1
               first
                 | (simp only [consOk, toList_ofList_fields]
                    intro p hp
                    simp only [List.mem_map] at hp
                    obtain ⟨q, hq, rfl⟩ := hp
                    exact hall q hq)
                 | (split
                    all_goals (
                      simp only [consOk, toList_ofList_fields]
                      intro p hp
                      simp only [List.mem_map] at hp
                      obtain ⟨q, hq, rfl⟩ := hp
                      exact hall q hq)))
        · split at h
          · -- func
            repeat' split at h
            all_goals first
              | (simp at h; done)
              | (simp only [Outcome.ok.injEq, Prod.mk.injEq] at h
                 obtain ⟨rfl, _⟩ := h
                 simp only [consOk, toList_ofList_tys]
                 refine ⟨(readMany_all (readIndexType len) (idxOk len) (readIndexType_ok len) _ _ _ _ ‹_›).1,
                         (readMany_all (readIndexType len) (idxOk len) (readIndexType_ok len) _ _ _ _ ‹_›).1⟩)
          · split at h
            · -- service
              repeat' split at h
              all_goals first
                | (simp at h; done)
                | (simp only [Outcome.ok.injEq, Prod.mk.injEq] at h
                   obtain ⟨rfl, _⟩ := h
                   simp only [consOk, toList_ofList_meths]
                   exact (readMany_all (readMeth len) (fun p => idxOk len p.2) (readMeth_ok len) _ _ _ _ ‹_›).1)
            · -- future
              repeat' split at h
              all_goals first
                | (simp at h; done)
                | (obtain ⟨⟨_, r3⟩, _, h2⟩ := outcome_map_ok _ _ _ h
                   simp at h2; obtain ⟨rfl, _⟩ := h2
                   simp [consOk])

end Candid.Wire

namespace Candid.Wire
open Candid Candid.Leb Candid.Sub

theorem find_of_mem : ∀ (env : Env) (k : String) (v : Ty), (k, v) ∈ env → ∃ d, env.find k = some d ∧ (k, d) ∈ env := by
  intro env
  induction env with
  | nil => intro k v h; simp at h
  | cons p r ih =>
    intro k v h
    obtain ⟨k', t'⟩ := p
    simp only [Env.find]
    by_cases hk : k' = k
    · subst hk; exact ⟨t', by simp, by simp⟩
    · simp only [hk, if_false]
      simp only [List.mem_cons, Prod.mk.injEq] at h
      rcases h with ⟨rfl, _⟩ | h
      · exact absurd rfl hk
      · obtain ⟨d, h1, h2⟩ := ih k v h
        exact ⟨d, h1, by simp [h2]⟩

theorem find_mem' : ∀ (env : Env) (k : String) (d : Ty), env.find k = some d → (k, d) ∈ env := by
  intro env
  induction env with
  | nil => intro k d h; simp [Env.find] at h
  | cons p r ih =>
    intro k d h
    obtain ⟨k', t'⟩ := p
    simp only [Env.find] at h
    by_cases hk : k' = k
    · simp only [hk, if_true, Option.some.injEq] at h; subst h; simp [hk]
    · simp only [hk, if_false] at h; simp [ih k d h]

theorem find_map_val (f : String → Ty → Ty) : ∀ (env : Env) (x : String),
    Env.find (env.map fun p => (p.1, f p.1 p.2)) x = (env.find x).map (f x) := by
  intro env
  induction env with
  | nil => intro x; simp [Env.find]
  | cons p r ih =>
    intro x
    obtain ⟨k, t⟩ := p
    simp only [List.map_cons, Env.find]
    by_cases hk : k = x
    · subst hk; simp
    · simp [hk, ih]

mutual
theorem safeFields_of_forall (env : Env) : ∀ fs : Fields, (∀ p ∈ fs.toList, safeTy env p.2 = true) → safeFields env fs = true
  | .nil, _ => by simp [safeFields]
  | .cons l t r, h => by
    simp only [safeFields, Bool.and_eq_true]
    exact ⟨h (l, t) (by simp [Fields.toList]), safeFields_of_forall env r (fun p hp => h p (by simp [Fields.toList, hp]))⟩
end

theorem safeTys_of_forall (env : Env) : ∀ ts : Tys, (∀ t ∈ ts.toList, safeTy env t = true) → safeTys env ts = true
  | .nil, _ => by simp [safeTys]
  | .cons t r, h => by
    simp only [safeTys, Bool.and_eq_true]
    exact ⟨h t (by simp [Tys.toList]), safeTys_of_forall env r (fun p hp => h p (by simp [Tys.toList, hp]))⟩

theorem safeMeths_of_forall (env : Env) : ∀ ms : Meths, (∀ p ∈ ms.toList, safeTy env p.2 = true) → safeMeths env ms = true
  | .nil, _ => by simp [safeMeths]
  | .cons n t r, h => by
    simp only [safeMeths, Bool.and_eq_true]
    exact ⟨h (n, t) (by simp [Meths.toList]), safeMeths_of_forall env r (fun p hp => h p (by simp [Meths.toList, hp]))⟩

theorem consOk_not_var (len : Nat) (t : Ty) (h : consOk len t) : ∀ y, t ≠ .var y := by
  intro y hy; subst hy; simp [consOk] at h

/-- the keys of the table: every index below the length is bound to an entry that is not a bare name -/
def TableOk (len : Nat) (table : Env) : Prop :=
  ∀ i, i < len → ∃ d, table.find (tableName i) = some d ∧ ∀ y, d ≠ .var y

theorem idxOk_safe (len : Nat) (table : Env) (hk : TableOk len table) (t : Ty) (h : idxOk len t) : safeTy table t = true := by
  cases t with
  | var x =>
    obtain ⟨i, hi, rfl⟩ := h
    obtain ⟨d, hd, hnv⟩ := hk i hi
    simp only [safeTy, recFindFull]
    have : recFind table (table.length + 2) (tableName i) = some d := by
      cases d with
      | var y => exact absurd rfl (hnv y)
      | _ => simp [recFind, hd]
    rw [this]; rfl
  | prim p => simp [safeTy]
  | principal => simp [safeTy]
  | _ => simp [idxOk] at h

theorem consOk_safe (len : Nat) (table : Env) (hk : TableOk len table) (t : Ty) (h : consOk len t) : safeTy table t = true := by
  cases t with
  | opt t' => simp only [safeTy]; exact idxOk_safe len table hk t' h
  | vec t' => simp only [safeTy]; exact idxOk_safe len table hk t' h
  | record fs => simp only [safeTy]; exact safeFields_of_forall table fs (fun p hp => idxOk_safe len table hk _ (h p hp))
  | variant fs => simp only [safeTy]; exact safeFields_of_forall table fs (fun p hp => idxOk_safe len table hk _ (h p hp))
  | func a r m =>
    simp only [safeTy, Bool.and_eq_true]
    exact ⟨safeTys_of_forall table a (fun t ht => idxOk_safe len table hk _ (h.1 t ht)),
           safeTys_of_forall table r (fun t ht => idxOk_safe len table hk _ (h.2 t ht))⟩
  | service ms => simp only [safeTy]; exact safeMeths_of_forall table ms (fun p hp => idxOk_safe len table hk _ (h p hp))
  | future => simp [safeTy]
  | _ => simp [consOk] at h

end Candid.Wire

namespace Candid.Wire
open Candid Candid.Leb Candid.Sub

theorem replaceEmpty_find (env : Env) (x : String) :
    ∃ f : String → Ty → Ty, (∀ k t, f k t = t ∨ f k t = .prim .empty) ∧ (replaceEmpty env).find x = (env.find x).map (f x) := by
  unfold replaceEmpty
  simp only []
  generalize emptyIter env (env.length + 1) (env.map (·.1)) = E
  refine ⟨fun k t => if E.contains k then .prim .empty else t, ?_, ?_⟩
  · intro k t
    show (if E.contains k = true then Ty.prim Prim.empty else t) = t ∨ (if E.contains k = true then Ty.prim Prim.empty else t) = Ty.prim Prim.empty
    split
    · exact Or.inr rfl
    · exact Or.inl rfl
  · have := find_map_val (fun k t => if E.contains k then Ty.prim .empty else t) env x
    rw [← this]
    congr 1
    apply List.map_congr_left
    intro p _
    obtain ⟨k, t⟩ := p
    show (if E.contains k = true then (k, Ty.prim Prim.empty) else (k, t)) = (k, if E.contains k = true then Ty.prim Prim.empty else t)
    split <;> rfl

theorem zip_mem (n : Nat) (entries : List Ty) (hl : entries.length = n) (i : Nat) (hi : i < n) :
    ∃ t, t ∈ entries ∧ (tableName i, t) ∈ ((List.range n).zip entries).map (fun (p : Nat × Ty) => (tableName p.1, p.2)) := by
  have hi' : i < entries.length := by omega
  refine ⟨entries[i], List.getElem_mem hi', ?_⟩
  simp only [List.mem_map]
  refine ⟨(i, entries[i]), ?_, rfl⟩
  rw [List.mem_iff_getElem]
  refine ⟨i, by simp; omega, ?_⟩
  simp

/-- **a header that parses yields a safe type table**: every reference inside an entry names an entry, no entry
is a bare name, there are no placeholder types; the argument types refer into the table -/
theorem parseHeader_safe (bs : Bytes) (h : Header) (body : Bytes) (hp : parseHeader bs = .ok (h, body)) :
    SafeEnv h.table ∧ ∀ w ∈ h.args, safeTy h.table w = true := by
  unfold parseHeader at hp
  split at hp
  · simp at hp
  · split at hp
    · rename_i n r hn
      split at hp
      · simp at hp
      · split at hp
        · rename_i entries r1 hent
          simp only [] at hp
          split at hp
          · simp at hp
          · split at hp
            · rename_i na r2 hna
              split at hp
              · simp at hp
              · split at hp
                · rename_i args r3 hargs
                  simp only [Outcome.ok.injEq, Prod.mk.injEq] at hp
                  obtain ⟨rfl, _⟩ := hp
                  simp only []
                  obtain ⟨hcons, hlen⟩ := readMany_all (readConsType n) (consOk n) (readConsType_ok n) _ _ _ _ hent
                  obtain ⟨hidx, _⟩ := readMany_all (readIndexType n) (idxOk n) (readIndexType_ok n) _ _ _ _ hargs
                  generalize henv : (List.map (fun (x : Nat × Ty) => match x with | (i, t) => (tableName i, t)) ((List.range n).zip entries) : Env) = env0
                  have henv' : env0 = ((List.range n).zip entries).map (fun (p : Nat × Ty) => (tableName p.1, p.2)) := by
                    rw [← henv]
                  -- every value of env0 is an entry
                  have hvals : ∀ k d, (k, d) ∈ env0 → d ∈ entries := by
                    intro k d hkd
                    rw [henv'] at hkd
                    simp only [List.mem_map] at hkd
                    obtain ⟨⟨i, t⟩, hm, heq⟩ := hkd
                    simp only [Prod.mk.injEq] at heq
                    obtain ⟨_, rfl⟩ := heq
                    exact (List.of_mem_zip hm).2
                  have htab : TableOk n (replaceEmpty env0) := by
                    intro i hi
                    obtain ⟨t, _, hmem⟩ := zip_mem n entries hlen i hi
                    rw [← henv'] at hmem
                    obtain ⟨d, hd, hdm⟩ := find_of_mem env0 _ _ hmem
                    obtain ⟨f, hf, hfind⟩ := replaceEmpty_find env0 (tableName i)
                    refine ⟨f (tableName i) d, by rw [hfind, hd]; rfl, ?_⟩
                    rcases hf (tableName i) d with h1 | h1
                    · rw [h1]; exact consOk_not_var n d (hcons d (hvals _ _ hdm))
                    · rw [h1]; intro y hy; cases hy
                  refine ⟨?_, fun w hw => idxOk_safe n _ htab w (hidx w hw)⟩
                  intro x t hx
                  obtain ⟨f, hf, hfind⟩ := replaceEmpty_find env0 x
                  rw [hfind] at hx
                  cases hfx : Env.find env0 x with
                  | none => rw [hfx] at hx; simp at hx
                  | some d =>
                    rw [hfx] at hx
                    simp only [Option.map_some, Option.some.injEq] at hx
                    subst hx
                    rcases hf x d with h1 | h1
                    · rw [h1]; exact consOk_safe n _ htab d (hcons d (hvals _ _ (find_mem' env0 x d hfx)))
                    · rw [h1]; simp [safeTy]
                · simp at hp
                · simp at hp
            · simp at hp
            · simp at hp
        · simp at hp
        · simp at hp
    · simp at hp
    · simp at hp

end Candid.Wire

namespace Candid.De
open Candid Candid.Wire Candid.Leb Candid.Sub

/-- untyped decoding (no expected types): the working environment is the message's own type table, which is safe -/
theorem decodeUntyped_np (bs : Bytes) (env : Env) (cfg : Config) : NP (decodeWithConfig bs env [] cfg) := by
  apply decodeWithConfig_np
  intro h body hp
  have hs := parseHeader_safe bs h body hp
  have hw : workEnv h env [] = (h.table, []) := rfl
  rw [hw]
  exact ⟨hs.1, by simp, hs.2⟩

end Candid.De
