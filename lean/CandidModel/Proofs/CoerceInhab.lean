import CandidModel.Proofs.CoerceSound
/- helper lemmas for C04: what the coercion returns is a value of the supertype -/
namespace Candid.Wire
open Candid Candid.Leb Candid.Sub

/-- the values of a type as the coercion returns them: like the canonical values, except that a variant's position
index is not kept and a byte vector may come back as a blob -/
def inhab (env : Env) : Nat → Val → Ty → Bool
  | 0, _, _ => false
  | n + 1, v, t =>
    match t with
    | .prim p => canonPrim p v
    | .principal => (match v with | .principal b => decide (b.length ≤ 29) | _ => false)
    | .var x => (match env.find x with | some t' => inhab env n v t' | none => false)
    | .opt t' => (match v with | .none => true | .opt v' => inhab env n v' t' | _ => false)
    | .vec t' => (match v with
        | .vec vs => decide (vs.length < 2 ^ 63) && vs.all (fun e => inhab env n e t')
        | .blob b => decide (b.length < 2 ^ 63) && isBlobTy env (.vec t')
        | _ => false)
    | .record fs => (match v with | .record vfs => canonFieldsWith (inhab env n) vfs fs.toList | _ => false)
    | .variant fs => (match v with
        | .variant l v' _ => fs.toList.any (fun p => decide (p.1 = l) && inhab env n v' p.2)
        | _ => false)
    | .func _ _ _ => (match v with
        | .func pid m => decide (pid.length ≤ 29) && decide ((strBytes m).length < 2 ^ 63)
        | _ => false)
    | .service _ => (match v with | .service b => decide (b.length ≤ 29) | _ => false)
    | _ => false

theorem inhab_mono (env : Env) : ∀ (n : Nat) (v : Val) (t : Ty), inhab env n v t = true → inhab env (n + 1) v t = true := by
  intro n
  induction n with
  | zero => intro v t h; simp [inhab] at h
  | succ n ih =>
    intro v t h
    unfold inhab at h ⊢
    cases t with
    | prim p => exact h
    | principal => exact h
    | var x =>
      simp only [] at h ⊢
      cases hf : env.find x with
      | none => rw [hf] at h; exact Bool.noConfusion h
      | some t' => rw [hf] at h; simp only [] at h ⊢; exact ih v t' h
    | opt t' =>
      cases v <;> simp only [] at h ⊢ <;> first | exact Bool.noConfusion h | exact ih _ t' h
    | vec t' =>
      cases v <;> simp only [] at h ⊢ <;> try (exact Bool.noConfusion h)
      · exact h
      · simp only [Bool.and_eq_true, List.all_eq_true] at h ⊢
        exact ⟨h.1, fun e he => ih e t' (h.2 e he)⟩
    | record tfs =>
      cases v <;> simp only [] at h ⊢ <;> try (exact Bool.noConfusion h)
      exact canonFieldsWith_mono _ _ (fun v t hv => ih v t hv) _ _ h
    | variant tfs =>
      cases v <;> simp only [] at h ⊢ <;> try (exact Bool.noConfusion h)
      simp only [List.any_eq_true, Bool.and_eq_true] at h ⊢
      obtain ⟨p, hp, h1, h2⟩ := h
      exact ⟨p, hp, h1, ih _ p.2 h2⟩
    | func a r m => exact h
    | service ms => exact h
    | future => exact Bool.noConfusion h
    | knot k => exact Bool.noConfusion h
    | unknown => exact Bool.noConfusion h
    | cls a t => exact Bool.noConfusion h

theorem inhab_le (env : Env) (n m : Nat) (hnm : n ≤ m) (v : Val) (t : Ty) (h : inhab env n v t = true) :
    inhab env m v t = true := by
  induction hnm with
  | refl => exact h
  | step _ ih => exact inhab_mono env _ v t ih

theorem inhab_trace (env : Env) : ∀ (k : Nat) (e t' : Ty) (n : Nat) (v : Val),
    env.trace k e = some t' → inhab env n v t' = true → inhab env (n + k) v e = true := by
  intro k
  induction k with
  | zero => intro e t' n v h; simp [Env.trace] at h
  | succ k ih =>
    intro e t' n v h hc
    cases e with
    | var x =>
      simp only [Env.trace] at h
      have e1 : n + (k + 1) = (n + k) + 1 := by omega
      rw [e1]
      simp only [inhab]
      cases hf : env.find x with
      | none => rw [hf] at h; simp at h
      | some d => rw [hf] at h; simp only [] at h ⊢; exact ih d t' n v h hc
    | _ =>
      simp only [Env.trace, Option.some.injEq] at h
      subst h
      exact inhab_le env n _ (by omega) v _ hc

/-- canonical values are values -/
theorem canon_inhab (env : Env) : ∀ (n : Nat) (v : Val) (t : Ty), canon env n v t = true → inhab env n v t = true := by
  intro n
  induction n with
  | zero => intro v t h; simp [canon] at h
  | succ n ih =>
    intro v t h
    unfold canon at h
    unfold inhab
    cases t with
    | prim p => exact h
    | principal => exact h
    | var x =>
      simp only [] at h ⊢
      cases hf : env.find x with
      | none => rw [hf] at h; exact Bool.noConfusion h
      | some t' => rw [hf] at h; simp only [] at h ⊢; exact ih v t' h
    | opt t' =>
      cases v <;> simp only [] at h ⊢ <;> first | exact Bool.noConfusion h | exact ih _ t' h
    | vec t' =>
      cases v <;> simp only [] at h ⊢ <;> try (exact Bool.noConfusion h)
      simp only [Bool.and_eq_true, List.all_eq_true] at h ⊢
      exact ⟨h.1, fun e he => ih e t' (h.2 e he)⟩
    | record tfs =>
      cases v <;> simp only [] at h ⊢ <;> try (exact Bool.noConfusion h)
      exact canonFieldsWith_mono _ _ (fun v t hv => ih v t hv) _ _ h
    | variant tfs =>
      cases v <;> simp only [] at h ⊢ <;> try (exact Bool.noConfusion h)
      rename_i l v' i
      cases hg : tfs.toList[i]? with
      | none => rw [hg] at h; exact Bool.noConfusion h
      | some q =>
        rw [hg] at h
        simp only [Bool.and_eq_true, decide_eq_true_eq] at h
        simp only [List.any_eq_true, Bool.and_eq_true, decide_eq_true_eq]
        exact ⟨q, List.mem_of_getElem? hg, h.1.1.symm, ih v' q.2 h.2⟩
    | func a r m => exact h
    | service ms => exact h
    | future => exact Bool.noConfusion h
    | knot k => exact Bool.noConfusion h
    | unknown => exact Bool.noConfusion h
    | cls a t => exact Bool.noConfusion h

theorem canon_trace_inv_le (env : Env) : ∀ (k : Nat) (t t' : Ty) (n : Nat) (v : Val),
    env.trace k t = some t' → canon env n v t = true → ∃ m, m ≤ n ∧ canon env m v t' = true := by
  intro k
  induction k with
  | zero => intro t t' n v h; simp [Env.trace] at h
  | succ k ih =>
    intro t t' n v h hc
    cases t with
    | var x =>
      simp only [Env.trace] at h
      cases n with
      | zero => simp [canon] at hc
      | succ n =>
        simp only [canon] at hc
        cases hf : env.find x with
        | none => rw [hf] at hc; exact Bool.noConfusion hc
        | some d =>
          rw [hf] at h hc
          obtain ⟨m, hm, hcm⟩ := ih d t' n v h hc
          exact ⟨m, by omega, hcm⟩
    | _ => simp only [Env.trace, Option.some.injEq] at h; subst h; exact ⟨n, Nat.le_refl _, hc⟩


theorem omap_ok {α β : Type} (x : Outcome α) (f : α → β) (b : β) (h : x.map f = .ok b) : ∃ a, x = .ok a ∧ f a = b := by
  cases x <;> simp [Outcome.map] at h
  exact ⟨_, rfl, h⟩

theorem bytesOfVals_length : ∀ (vs : List Val) (b : Bytes), bytesOfVals vs = some b → b.length = vs.length := by
  intro vs
  induction vs with
  | nil => intro b h; simp only [bytesOfVals, Option.some.injEq] at h; subst h; rfl
  | cons v vs ih =>
    intro b h
    cases v <;> simp only [bytesOfVals] at h
    case nat8 k =>
      cases hr : bytesOfVals vs with
      | none => rw [hr] at h; simp at h
      | some b' =>
        rw [hr] at h
        simp only [Option.map_some, Option.some.injEq] at h
        subst h
        simp [ih b' hr]
    all_goals exact absurd h (by simp)

theorem fieldsWith_of_mapOutcomes (c : Val → Ty → Bool) (g : Label × Ty → Outcome (Label × Val)) :
    ∀ (tfs : List (Label × Ty)) (out : List (Label × Val)),
      (∀ p ∈ tfs, ∀ o, g p = .ok o → o.1 = p.1 ∧ c o.2 p.2 = true) → mapOutcomes g tfs = .ok out →
      canonFieldsWith c out tfs = true := by
  intro tfs
  induction tfs with
  | nil => intro out _ h; simp only [mapOutcomes, Outcome.ok.injEq] at h; subst h; rfl
  | cons p tfs ih =>
    intro out hg h
    obtain ⟨o, out', h1, h2, h3⟩ := mapOutcomes_cons_ok g p tfs out h
    subst h3
    obtain ⟨l, t⟩ := p
    obtain ⟨lo, vo⟩ := o
    obtain ⟨e1, e2⟩ := hg (l, t) (by simp) (lo, vo) h1
    simp only [canonFieldsWith, Bool.and_eq_true, decide_eq_true_eq]
    exact ⟨⟨e1, e2⟩, ih out' (fun q hq => hg q (by simp [hq])) h2⟩

/-- budget within which the result of `coerce` with budget `fuel` on a value canonical within `n` is a value -/
def ibound (env : Env) (n fuel : Nat) : Nat := n + (fuel + 1) * (env.length + 3)

theorem ibound_succ (env : Env) (n fuel : Nat) : ibound env n (fuel + 1) = ibound env n fuel + (env.length + 3) := by
  unfold ibound
  rw [Nat.add_mul]
  omega

theorem ibound_ge (env : Env) (n fuel : Nat) : env.length + 3 ≤ ibound env n fuel := by
  unfold ibound
  have : (env.length + 3) ≤ (fuel + 1) * (env.length + 3) := Nat.le_mul_of_pos_left _ (by omega)
  omega

theorem ibound_mono (env : Env) (n m fuel : Nat) (h : m ≤ n) : ibound env m fuel ≤ ibound env n fuel := by
  unfold ibound; omega

/-- **what the coercion returns is a value of the supertype** -/
theorem coerce_inhab (env : Env) (hg : GoodEnv env) : ∀ (fuel : Nat) (w e : Ty) (v : Val) (n : Nat) (v' : Val),
    goodTy env w = true → goodTy env e = true → canon env n v w = true →
    coerce env true env fuel w e v = .ok v' → inhab env (ibound env n fuel) v' e = true := by
  intro fuel
  induction fuel with
  | zero => intro w e v n v' _ _ _ h; simp [coerce] at h
  | succ fuel ih =>
    intro w e v n v' hw he hc h
    unfold coerce at h
    have hsw : safeTy env w = true := by simp only [goodTy, Bool.and_eq_true] at hw; exact hw.1
    have hse : safeTy env e = true := by simp only [goodTy, Bool.and_eq_true] at he; exact he.1
    obtain ⟨w', htw⟩ := traceFull_of_safe env w hsw
    obtain ⟨e', hte⟩ := traceFull_of_safe env e hse
    rw [htw, hte] at h
    simp only [] at h
    have hw' := good_trace env hg w w' hw htw
    have he' := good_trace env hg e e' he hte
    obtain ⟨m, hmn, hm⟩ := canon_trace_inv_le env _ w w' n v htw hc
    -- it is enough to be a value of the unfolded expected type, one level above the components
    suffices hnode : inhab env (ibound env n fuel + 1) v' e' = true by
      have := inhab_trace env (env.length + 2) e e' _ v' hte hnode
      rw [ibound_succ]
      exact inhab_le env _ _ (by omega) v' e this
    -- components: coerced at the smaller budget, from values canonical within `n`
    have hih : ∀ (w2 e2 : Ty) (v2 : Val) (k : Nat) (x : Val), k ≤ n → goodTy env w2 = true → goodTy env e2 = true →
        canon env k v2 w2 = true → coerce env true env fuel w2 e2 v2 = .ok x → inhab env (ibound env n fuel) x e2 = true := by
      intro w2 e2 v2 k x hk h1 h2 h3 h4
      exact inhab_le env _ _ (ibound_mono env n k fuel hk) x e2 (ih w2 e2 v2 k x h1 h2 h3 h4)
    cases m with
    | zero => simp [canon] at hm
    | succ m =>
    cases e' with
    | prim p =>
      cases p <;> simp only [] at h
      case reserved => simp only [Outcome.ok.injEq] at h; subst h; simp [inhab, canonPrim]
      case int =>
        split at h
        · simp only [Outcome.ok.injEq] at h; subst h; simp [inhab, canonPrim]
        · simp only [Outcome.ok.injEq] at h; subst h; simp [inhab, canonPrim]
        · simp at h
      case empty => simp at h
      all_goals (
        split at h
        · rename_i hwp
          simp only [Outcome.ok.injEq] at h
          subst h
          rw [hwp] at hm
          simp only [canon] at hm
          simpa [inhab] using hm
        · simp at h)
    | principal =>
      simp only [] at h
      split at h
      · simp only [Outcome.ok.injEq] at h; subst h
        simp only [canon] at hm
        simpa [inhab] using hm
      · simp only [Outcome.ok.injEq] at h; subst h
        simp only [canon] at hm
        simpa [inhab] using hm
      · simp at h
    | opt e2 =>
      simp only [] at h
      have he2 := good_opt he'
      have hcatch : ∀ (x : Outcome Val), (∀ y, x = .ok y → inhab env (ibound env n fuel) y e2 = true) →
          (match x with
            | .ok y => Outcome.ok (Val.opt y)
            | .err .subtype => .ok .none
            | .err k => .err k
            | .panic s => .panic s) = .ok v' → inhab env (ibound env n fuel + 1) v' (.opt e2) = true := by
        intro x hx hr
        cases x with
        | ok y => simp only [Outcome.ok.injEq] at hr; subst hr; simpa [inhab] using hx y rfl
        | err k => cases k <;> simp at hr <;> (subst hr; simp [inhab])
        | panic s => simp at hr
      split at h
      · simp only [Outcome.ok.injEq] at h; subst h; simp [inhab]
      · simp only [Outcome.ok.injEq] at h; subst h; simp [inhab]
      · simp only [Outcome.ok.injEq] at h; subst h; simp [inhab]
      · rename_i w2 v2
        have hw2 := good_opt hw'
        have hc2 : canon env m v2 w2 = true := by simpa [canon] using hm
        exact hcatch _ (fun y hy => hih w2 e2 v2 m y (by omega) hw2 he2 hc2 hy) h
      · simp at h
      · split at h
        · simp only [if_true, Outcome.ok.injEq] at h; subst h; simp [inhab]
        · exact hcatch _ (fun y hy => hih w' e2 v (m + 1) y hmn hw' he2 hm hy) h
    | vec e2 =>
      simp only [] at h
      split at h
      · rename_i w2 vs
        have hw2 := good_vec hw'
        have he2 := good_vec he'
        have hcs : vs.length < 2 ^ 63 ∧ ∀ x ∈ vs, canon env m x w2 = true := by
          simpa [canon, List.all_eq_true] using hm
        split at h
        · rename_i hbe
          split at h
          · split at h
            · rename_i b hb
              simp only [Outcome.ok.injEq] at h; subst h
              simp only [inhab, Bool.and_eq_true, decide_eq_true_eq]
              exact ⟨by rw [bytesOfVals_length vs b hb]; exact hcs.1, hbe⟩
            · simp at h
          · split at h
            · simp only [Outcome.ok.injEq] at h; subst h
              simp only [inhab, Bool.and_eq_true, decide_eq_true_eq]
              exact ⟨by simp, hbe⟩
            · simp at h
        · obtain ⟨xs, hxs, hv'⟩ := omap_ok _ _ _ h
          subst hv'
          simp only [inhab, Bool.and_eq_true, decide_eq_true_eq, List.all_eq_true]
          refine ⟨by rw [mapOutcomes_length _ vs xs hxs]; exact hcs.1, ?_⟩
          exact mapOutcomes_forall (coerce env true env fuel w2 e2) (fun x => inhab env (ibound env n fuel) x e2 = true) vs xs
            (fun a ha b hab => hih w2 e2 a m b (by omega) hw2 he2 (hcs.2 a ha) hab) hxs
      · simp at h
    | record efs =>
      simp only [] at h
      split at h
      · rename_i wfs vfs
        have hcf : canonFieldsWith (canon env m) vfs wfs.toList = true := by simpa [canon] using hm
        obtain ⟨out, hout, hv'⟩ := omap_ok _ _ _ h
        subst hv'
        simp only [inhab]
        apply fieldsWith_of_mapOutcomes (inhab env (ibound env n fuel)) _ efs.toList out _ hout
        intro p hp o hgo
        try simp only [] at hgo
        split at hgo
        · rename_i fv wt hfv hwt
          obtain ⟨lw, hmem, hid⟩ := lookupF_mem wfs _ wt hwt
          have hcv := fieldVal_canon (canon env m) vfs wfs.toList _ fv wt hcf (good_nodup (Or.inl hw')) hfv ⟨lw, hmem, hid⟩
          obtain ⟨x, hx, ho⟩ := omap_ok _ _ _ hgo
          subst ho
          exact ⟨rfl, hih wt p.2 fv m x (by omega) (good_field (Or.inl hw') hmem) (good_field (Or.inl he') hp) hcv hx⟩
        · -- a field missing on the wire: the default of an optional / null / reserved type
          have hdef : ∀ (d : Val) (t' : Ty), traceFull env p.2 = some t' → inhab env 1 d t' = true →
              inhab env (ibound env n fuel) d p.2 = true := by
            intro d t' ht hd
            have := inhab_trace env (env.length + 2) p.2 t' 1 d ht hd
            exact inhab_le env _ _ (by have := ibound_ge env n fuel; omega) d p.2 this
          split at hgo
          · rename_i t ht
            simp only [Outcome.ok.injEq] at hgo; subst hgo
            exact ⟨rfl, hdef _ _ ht (by simp [inhab])⟩
          · rename_i ht
            simp only [Outcome.ok.injEq] at hgo; subst hgo
            exact ⟨rfl, hdef _ _ ht (by simp [inhab, canonPrim])⟩
          · rename_i ht
            simp only [Outcome.ok.injEq] at hgo; subst hgo
            exact ⟨rfl, hdef _ _ ht (by simp [inhab, canonPrim])⟩
          · simp at hgo
      · simp at h
    | variant efs =>
      simp only [] at h
      split at h
      · rename_i wfs l v2 idx
        split at h
        · rename_i el et wt hfind hwt
          obtain ⟨m', hm'le, hm'⟩ : ∃ m', m' ≤ n ∧ canon env m' v2 wt = true := by
            simp only [canon] at hm
            cases hg' : wfs.toList[idx]? with
            | none => rw [hg'] at hm; exact Bool.noConfusion hm
            | some q =>
              obtain ⟨l', t'⟩ := q
              rw [hg'] at hm
              simp only [Bool.and_eq_true, decide_eq_true_eq] at hm
              obtain ⟨⟨hl', _⟩, hv2⟩ := hm
              subst hl'
              have := lookupF_of_mem_nodup wfs (l, t') (good_nodup (Or.inr hw')) (List.mem_of_getElem? hg')
              rw [hwt] at this
              simp only [Option.some.injEq] at this
              subst this
              exact ⟨m, by omega, hv2⟩
          obtain ⟨lw, hmem, _⟩ := lookupF_mem wfs _ wt hwt
          obtain ⟨x, hx, hv'⟩ := omap_ok _ _ _ h
          subst hv'
          have hmemE := List.mem_of_find?_eq_some hfind
          simp only [inhab, List.any_eq_true, Bool.and_eq_true, decide_eq_true_eq]
          exact ⟨(el, et), hmemE, rfl, hih wt et v2 m' x hm'le (good_field (Or.inr hw') hmem) (good_field (Or.inr he') hmemE) hm' hx⟩
        · simp at h
      · simp at h
    | func a r md =>
      simp only [] at h
      split at h
      · rename_i b mth
        -- the value is a function reference, so its wire type is a function type too: its lengths are the canonical ones
        have hv : inhab env (ibound env n fuel + 1) (.func b mth) (.func a r md) = true := by
          cases w' <;> simp only [canon] at hm <;> try (exact Bool.noConfusion hm)
          · rename_i p; cases p <;> simp [canonPrim] at hm
          · rename_i x; exact absurd rfl (trace_not_var env _ w _ htw x)
          · simpa [inhab] using hm
        split at h
        · simp only [Outcome.ok.injEq] at h; subst h; exact hv
        · simp at h
        · simp at h
        · simp at h
      · simp at h
    | service ms =>
      simp only [] at h
      split at h
      · rename_i b
        have hv : inhab env (ibound env n fuel + 1) (.service b) (.service ms) = true := by
          cases w' <;> simp only [canon] at hm <;> try (exact Bool.noConfusion hm)
          · rename_i p; cases p <;> simp [canonPrim] at hm
          · rename_i x; exact absurd rfl (trace_not_var env _ w _ htw x)
          · simpa [inhab] using hm
        split at h
        · simp only [Outcome.ok.injEq] at h; subst h; exact hv
        · simp at h
        · simp at h
        · simp at h
      · simp at h
    | future => simp [goodTy, shapeTy] at he'
    | var x => exact absurd rfl (trace_not_var env _ e _ hte x)
    | knot k => simp [goodTy, shapeTy] at he'
    | unknown => simp [goodTy, shapeTy] at he'
    | cls a t => simp [goodTy, shapeTy] at he'

end Candid.Wire
