import CandidModel.Proofs.Bindgen
/- helper lemmas for C17: what the statements of the JavaScript factory bind — every emitted name exactly once, to
   the definition the source environment gives it; every `IDL.Rec()` cell is filled; the root is returned -/
namespace Candid.Bindgen
open Candid

/-- names recorded as recursive come from the types walked -/
def ResFrom (st st' : St) (vars : List String) : Prop := ∀ v ∈ st'.res, v ∈ st.res ∨ v ∈ vars

theorem ResFrom.refl (st : St) : ResFrom st st [] := fun _ h => Or.inl h
theorem ResFrom.trans {a b c : St} {v1 v2 : List String} (h1 : ResFrom a b v1) (h2 : ResFrom b c v2) :
    ResFrom a c (v1 ++ v2) := fun v hv => by
  rcases h2 v hv with h | h
  · rcases h1 v h with h' | h'
    · exact Or.inl h'
    · exact Or.inr (List.mem_append.mpr (Or.inl h'))
  · exact Or.inr (List.mem_append.mpr (Or.inr h))

mutual
theorem recGo_from : ∀ (t : Ty) (st : St), ResFrom st (recGo st t) (varsOf t)
  | .var x, st => by
    simp only [recGo, varsOf]
    split
    · exact fun _ h => Or.inl h
    · intro v hv
      simp only [List.mem_cons] at hv
      rcases hv with rfl | hv
      · exact Or.inr (by simp)
      · exact Or.inl hv
  | .opt t, st => by simp only [recGo, varsOf]; exact recGo_from t st
  | .vec t, st => by simp only [recGo, varsOf]; exact recGo_from t st
  | .record fs, st => by simp only [recGo, varsOf]; exact recGoFields_from fs st
  | .variant fs, st => by simp only [recGo, varsOf]; exact recGoFields_from fs st
  | .func a r _, st => by simp only [recGo, varsOf]; exact (recGoTys_from a st).trans (recGoTys_from r _)
  | .service ms, st => by simp only [recGo, varsOf]; exact recGoMeths_from ms st
  | .cls a t, st => by simp only [recGo, varsOf]; exact (recGoTys_from a st).trans (recGo_from t _)
  | .prim _, st => by simp only [recGo, varsOf]; exact ResFrom.refl st
  | .principal, st => by simp only [recGo, varsOf]; exact ResFrom.refl st
  | .knot _, st => by simp only [recGo, varsOf]; exact ResFrom.refl st
  | .unknown, st => by simp only [recGo, varsOf]; exact ResFrom.refl st
  | .future, st => by simp only [recGo, varsOf]; exact ResFrom.refl st
theorem recGoFields_from : ∀ (fs : Fields) (st : St), ResFrom st (recGoFields st fs) (varsOfFields fs)
  | .nil, st => by simp only [recGoFields, varsOfFields]; exact ResFrom.refl st
  | .cons _ t r, st => by simp only [recGoFields, varsOfFields]; exact (recGo_from t st).trans (recGoFields_from r _)
theorem recGoTys_from : ∀ (ts : Tys) (st : St), ResFrom st (recGoTys st ts) (varsOfTys ts)
  | .nil, st => by simp only [recGoTys, varsOfTys]; exact ResFrom.refl st
  | .cons t r, st => by simp only [recGoTys, varsOfTys]; exact (recGo_from t st).trans (recGoTys_from r _)
theorem recGoMeths_from : ∀ (ms : Meths) (st : St), ResFrom st (recGoMeths st ms) (varsOfMeths ms)
  | .nil, st => by simp only [recGoMeths, varsOfMeths]; exact ResFrom.refl st
  | .cons _ t r, st => by simp only [recGoMeths, varsOfMeths]; exact (recGo_from t st).trans (recGoMeths_from r _)
end

/-- every name `infer_rec` reports is used by one of the listed definitions -/
theorem inferRecFrom_origin (env : Env) : ∀ (defs : List String) (st st' : St),
    inferRecFrom env st defs = .ok st' →
    ∀ v ∈ st'.res, v ∈ st.res ∨ ∃ x ∈ defs, ∃ t, env.find x = some t ∧ v ∈ varsOf t := by
  intro defs
  induction defs with
  | nil => intro st st' h v hv; simp only [inferRecFrom, Except.ok.injEq] at h; subst h; exact Or.inl hv
  | cons d rest ih =>
    intro st st' h v hv
    simp only [inferRecFrom] at h
    cases hf : env.find d with
    | none => simp [hf] at h
    | some t =>
      simp only [hf] at h
      rcases ih _ st' h v hv with h1 | ⟨x, hx, u, hu, hvu⟩
      · rcases recGo_from t st v h1 with h2 | h2
        · exact Or.inl h2
        · exact Or.inr ⟨d, by simp, t, hf, h2⟩
      · exact Or.inr ⟨x, by simp [hx], u, hu, hvu⟩

/-- what the statements bind: the right-hand sides of `const x = t` and `x.fill(t)`, in order -/
def bindings : List Stmt → Env
  | [] => []
  | .fill x t :: r => (x, t) :: bindings r
  | .const x t :: r => (x, t) :: bindings r
  | _ :: r => bindings r

/-- the `IDL.Rec()` cells created, and the cells filled -/
def cellsOf : List Stmt → List String
  | [] => []
  | .cell x :: r => x :: cellsOf r
  | _ :: r => cellsOf r
def filledOf : List Stmt → List String
  | [] => []
  | .fill x _ :: r => x :: filledOf r
  | _ :: r => filledOf r
def returnsOf : List Stmt → List (List Ty)
  | [] => []
  | .ret ts :: r => ts :: returnsOf r
  | _ :: r => returnsOf r

theorem bindings_append (a b : List Stmt) : bindings (a ++ b) = bindings a ++ bindings b := by
  induction a with
  | nil => rfl
  | cons s r ih => cases s <;> simp [bindings, ih]
theorem cellsOf_append (a b : List Stmt) : cellsOf (a ++ b) = cellsOf a ++ cellsOf b := by
  induction a with
  | nil => rfl
  | cons s r ih => cases s <;> simp [cellsOf, ih]
theorem filledOf_append (a b : List Stmt) : filledOf (a ++ b) = filledOf a ++ filledOf b := by
  induction a with
  | nil => rfl
  | cons s r ih => cases s <;> simp [filledOf, ih]
theorem returnsOf_append (a b : List Stmt) : returnsOf (a ++ b) = returnsOf a ++ returnsOf b := by
  induction a with
  | nil => rfl
  | cons s r ih => cases s <;> simp [returnsOf, ih]

theorem cells_only (recs : List String) :
    bindings (recs.map Stmt.cell) = [] ∧ cellsOf (recs.map Stmt.cell) = recs ∧
    filledOf (recs.map Stmt.cell) = [] ∧ returnsOf (recs.map Stmt.cell) = [] := by
  induction recs with
  | nil => exact ⟨rfl, rfl, rfl, rfl⟩
  | cons x r ih => simp [bindings, cellsOf, filledOf, returnsOf, ih.1, ih.2.1, ih.2.2.1, ih.2.2.2]

/-- the body of `pp_defs`: one binding per listed definition, to its definition in the environment; a `fill`
exactly for the recursive ones -/
theorem ppBody_bindings (env : Env) (recs : List String) : ∀ (defs : List String) (body : List Stmt),
    ppBody env recs defs = .ok body →
      (bindings body).map (·.1) = defs ∧ (∀ p ∈ bindings body, env.find p.1 = some p.2) ∧
      cellsOf body = [] ∧ returnsOf body = [] ∧ filledOf body = defs.filter recs.contains := by
  intro defs
  induction defs with
  | nil => intro body h; simp only [ppBody, Except.ok.injEq] at h; subst h; simp [bindings, cellsOf, returnsOf, filledOf]
  | cons x rest ih =>
    intro body h
    simp only [ppBody] at h
    cases hf : env.find x with
    | none => simp [hf] at h
    | some t =>
      simp only [hf] at h
      cases hr : ppBody env recs rest with
      | error e => rw [hr] at h; simp [Except.map] at h
      | ok r =>
        rw [hr] at h
        simp only [Except.map, Except.ok.injEq] at h
        subst h
        obtain ⟨h1, h2, h3, h4, h5⟩ := ih r hr
        by_cases hx : recs.contains x = true
        · simp only [hx, if_true, bindings, List.map_cons, h1, cellsOf, h3, returnsOf, h4, filledOf, h5,
            List.filter_cons, true_and, and_true]
          intro p hp
          simp only [List.mem_cons] at hp
          rcases hp with rfl | hp
          · exact hf
          · exact h2 p hp
        · have hx' : recs.contains x = false := by simpa using hx
          simp only [hx', Bool.false_eq_true, if_false, bindings, List.map_cons, h1, cellsOf, h3, returnsOf, h4,
            filledOf, h5, List.filter_cons, true_and, and_true]
          intro p hp
          simp only [List.mem_cons] at hp
          rcases hp with rfl | hp
          · exact hf
          · exact h2 p hp

/-- one factory denotes its root in the source environment -/
structure Denotes (env : Env) (stmts : List Stmt) (vars : List String) (ret : List Ty) : Prop where
  /-- the names bound are duplicate free, contain every name of the root and every name their definitions use -/
  closed : Closed env ((bindings stmts).map (·.1)) vars
  /-- each is bound to the definition the source environment gives it -/
  same : ∀ p ∈ bindings stmts, env.find p.1 = some p.2
  /-- every `IDL.Rec()` cell is filled, once -/
  filled : (∀ x ∈ cellsOf stmts, x ∈ filledOf stmts) ∧ (filledOf stmts).Nodup
  /-- exactly one `return`, of the root -/
  returns : returnsOf stmts = [ret]

theorem denotes_factory (env : Env) (defs recs : List String) (vars : List String) (stmts : List Stmt) (ret : List Ty)
    (hc : Closed env defs vars) (hr : inferRec env defs = .ok recs) (hp : ppDefs env defs recs = .ok stmts) :
    Denotes env (stmts ++ [.ret ret]) vars ret := by
  obtain ⟨st', hst, hres⟩ := (map_ok _ _ _).mp hr
  subst hres
  obtain ⟨body, hb, hs⟩ := (map_ok _ _ _).mp hp
  subst hs
  obtain ⟨h1, h2, h3, h4, h5⟩ := ppBody_bindings env st'.res defs body hb
  obtain ⟨c1, c2, c3, c4⟩ := cells_only st'.res
  have horigin := inferRecFrom_origin env defs ⟨[], []⟩ st' hst
  refine ⟨?_, ?_, ⟨?_, ?_⟩, ?_⟩
  · simp only [bindings_append, c1, List.nil_append, bindings, List.append_nil, h1]
    exact hc
  · simp only [bindings_append, c1, List.nil_append, bindings, List.append_nil]
    exact h2
  · simp only [cellsOf_append, c2, h3, cellsOf, List.append_nil, filledOf_append, c3, h5, filledOf, List.nil_append]
    intro x hx
    rcases horigin x hx with h | ⟨d, hd, t, ht, hv⟩
    · simp at h
    · obtain ⟨u, hu, hvars⟩ := hc.closed d hd
      rw [ht] at hu
      simp only [Option.some.injEq] at hu
      subst hu
      exact List.mem_filter.mpr ⟨hvars x hv, by simpa using hx⟩
  · simp only [filledOf_append, c3, h5, filledOf, List.nil_append, List.append_nil]
    exact hc.nodup.filter _
  · simp [returnsOf_append, c4, h4, returnsOf]

/-- **the factory denotes the source**: both statement lists bind every reachable name once, to its source
definition, fill every recursive cell, and return the service / the init arguments -/
theorem jsFactory_denotes (env : Env) (actor : Ty) (f i : List Stmt) (h : jsFactory env actor = .ok (f, i)) :
    Denotes env f (varsOf actor) [(splitActor actor).2] ∧
    Denotes env i (varsOfTys (splitActor actor).1) (splitActor actor).1.toList := by
  unfold jsFactory at h
  obtain ⟨defs, hdefs, h⟩ := (bind_ok _ _ _).mp h
  obtain ⟨recs, hrecs, h⟩ := (bind_ok _ _ _).mp h
  obtain ⟨body, hbody, h⟩ := (bind_ok _ _ _).mp h
  obtain ⟨idefs, hidefs, h⟩ := (bind_ok _ _ _).mp h
  obtain ⟨irecs, hirecs, h⟩ := (bind_ok _ _ _).mp h
  obtain ⟨ibody, hibody, h⟩ := (map_ok _ _ _).mp h
  simp only [Prod.mk.injEq] at h
  obtain ⟨rfl, rfl⟩ := h
  obtain ⟨st', hst, hres⟩ := (map_ok _ _ _).mp hdefs
  subst hres
  have hclosed := closed_of_spec env st' _ (chaseType_spec env _ actor _ st' hst)
  obtain ⟨ist, hist, hires⟩ := (map_ok _ _ _).mp hidefs
  subst hires
  have hiclosed := closed_of_spec env ist _ (chaseTys_spec env _ _ _ ist hist)
  exact ⟨denotes_factory env _ recs _ body _ hclosed hrecs hbody, denotes_factory env _ irecs _ ibody _ hiclosed hirecs hibody⟩


theorem find_of_mem_nodup : ∀ (l : Env) (x : String) (t : Ty), (l.map (·.1)).Nodup → (x, t) ∈ l → Env.find l x = some t := by
  intro l
  induction l with
  | nil => intro x t _ h; simp at h
  | cons p r ih =>
    intro x t hn h
    obtain ⟨k, u⟩ := p
    simp only [List.map_cons, List.nodup_cons] at hn
    simp only [List.mem_cons, Prod.mk.injEq] at h
    simp only [Env.find]
    rcases h with ⟨rfl, rfl⟩ | h
    · simp
    · have hne : k ≠ x := by
        intro e
        subst e
        exact hn.1 (List.mem_map.mpr ⟨(k, t), h, rfl⟩)
      simp only [hne, if_false]
      exact ih x t hn.2 h

/-- looking a bound name up in what the statements built gives what the source environment gives -/
theorem Denotes.find_eq {env : Env} {stmts : List Stmt} {vars : List String} {ret : List Ty}
    (h : Denotes env stmts vars ret) (x : String) (hx : x ∈ (bindings stmts).map (·.1)) :
    Env.find (bindings stmts) x = env.find x := by
  obtain ⟨p, hp, rfl⟩ := List.mem_map.mp hx
  rw [h.same p hp]
  exact find_of_mem_nodup _ p.1 p.2 h.closed.nodup hp

end Candid.Bindgen
