import CandidModel.Proofs.SubTrans
import CandidModel.Proofs.EqSubRef
/-
  C05: transitivity of subtyping with function and service references.  Argument lists are compared as tuple
  records the other way round, so the `null` obstruction of `Props/C05` also applies to an argument of type `null`
  in the *sub*type (`func (null) -> () <: func () -> () <: func (nat) -> ()`, but not the ends): the side condition
  is asked of both ends — no record and no argument / result list, anywhere written, has a member whose type unfolds
  to `null` (`nnTy`).
-/
namespace Candid.Wire
open Candid Candid.Sub Candid.De

def notNull (env : Env) (t : Ty) : Bool := decide (traceFull env t ≠ some (.prim .null))

mutual
def nnTy (env : Env) : Ty → Bool
  | .opt t | .vec t => nnTy env t
  | .record fs => nnFields env fs && fs.toList.all (fun p => notNull env p.2)
  | .variant fs => nnFields env fs
  | .func a r _ => nnTys env a && nnTys env r && a.toList.all (notNull env) && r.toList.all (notNull env)
  | .service ms => nnMeths env ms
  | _ => true
def nnFields (env : Env) : Fields → Bool
  | .nil => true
  | .cons _ t r => nnTy env t && nnFields env r
def nnTys (env : Env) : Tys → Bool
  | .nil => true
  | .cons t r => nnTy env t && nnTys env r
def nnMeths (env : Env) : Meths → Bool
  | .nil => true
  | .cons _ t r => nnTy env t && nnMeths env r
end

def NNEnv (env : Env) : Prop := ∀ x t, env.find x = some t → nnTy env t = true

theorem nn_def {env : Env} (h : NNEnv env) {x : String} {d : Ty} (hd : recFindFull env x = some d) : nnTy env d = true := by
  obtain ⟨y, hy⟩ := recFind_is_def env _ x d hd
  exact h y d hy

theorem nnFields_mem (env : Env) : ∀ (fs : Fields) (p : Label × Ty), nnFields env fs = true → p ∈ fs.toList → nnTy env p.2 = true
  | .nil, _, _, h => by simp [Fields.toList] at h
  | .cons l t r, p, hs, h => by
    simp only [nnFields, Bool.and_eq_true] at hs
    simp only [Fields.toList, List.mem_cons] at h
    rcases h with rfl | h
    · exact hs.1
    · exact nnFields_mem env r p hs.2 h

theorem nnMeths_mem (env : Env) : ∀ (ms : Meths) (p : String × Ty), nnMeths env ms = true → p ∈ ms.toList → nnTy env p.2 = true
  | .nil, _, _, h => by simp [Meths.toList] at h
  | .cons n t r, p, hs, h => by
    simp only [nnMeths, Bool.and_eq_true] at hs
    simp only [Meths.toList, List.mem_cons] at h
    rcases h with rfl | h
    · exact hs.1
    · exact nnMeths_mem env r p hs.2 h

theorem tupleFields_nn (env : Env) : ∀ (ts : Tys) (i : Nat), nnTys env ts = true → nnFields env (tupleFields i ts) = true
  | .nil, _, _ => by simp [tupleFields, nnFields]
  | .cons t r, i, h => by
    simp only [nnTys, Bool.and_eq_true] at h
    simp only [tupleFields, nnFields, Bool.and_eq_true]
    exact ⟨h.1, tupleFields_nn env r (i + 1) h.2⟩

theorem tupleFields_types : ∀ (ts : Tys) (i : Nat), (tupleFields i ts).toList.map (·.2) = ts.toList
  | .nil, _ => by simp [tupleFields, Fields.toList, Tys.toList]
  | .cons t r, i => by simp [tupleFields, Fields.toList, Tys.toList, tupleFields_types r (i + 1)]

theorem tupleTy_nn (env : Env) (ts : Tys) (h : nnTys env ts = true) (hn : ts.toList.all (notNull env) = true) :
    nnTy env (tupleTy ts) = true := by
  simp only [tupleTy, nnTy, Bool.and_eq_true]
  refine ⟨tupleFields_nn env ts 0 h, ?_⟩
  rw [List.all_eq_true] at hn ⊢
  intro p hp
  apply hn
  rw [← tupleFields_types ts 0]
  exact List.mem_map_of_mem hp

theorem lookupM_mem : ∀ (ms : Meths) (x : String) (t : Ty), lookupM ms x = some t → (x, t) ∈ ms.toList
  | .nil, _, _, h => by simp [lookupM] at h
  | .cons n t' r, x, t, h => by
    simp only [lookupM] at h
    simp only [Meths.toList, List.mem_cons]
    cases hr : lookupM r x with
    | some u =>
      rw [hr] at h
      simp only [Option.some.injEq] at h
      subst h
      exact Or.inr (lookupM_mem r x u hr)
    | none =>
      rw [hr] at h
      simp only [] at h
      split at h
      · rename_i heq
        simp only [Option.some.injEq] at h
        subst h; subst heq
        exact Or.inl rfl
      · simp at h

theorem sub_func_inv' {env : Env} {a1 r1 a2 r2 : Tys} {m1 m2 : List FuncMode} (h : Sub env (.func a1 r1 m1) (.func a2 r2 m2)) :
    m1 = m2 ∧ Sub env (tupleTy a2) (tupleTy a1) ∧ Sub env (tupleTy r1) (tupleTy r2) := by
  by_cases hne : (.func a1 r1 m1 : Ty) = .func a2 r2 m2
  · simp only [Ty.func.injEq] at hne
    obtain ⟨rfl, rfl, rfl⟩ := hne
    exact ⟨rfl, sub_refl' env _, sub_refl' env _⟩
  · exact sub_func_inv h hne

theorem sub_service_inv' {env : Env} {ms1 ms2 : Meths} (hn : (ms1.toList.map (·.1)).Nodup) (h : Sub env (.service ms1) (.service ms2)) :
    ∀ p ∈ ms2.toList, match lookupM ms1 p.1 with
      | some t1 => Sub env t1 p.2
      | none => False := by
  by_cases hne : (.service ms1 : Ty) = .service ms2
  · simp only [Ty.service.injEq] at hne
    subst hne
    intro p hp
    rw [lookupM_of_mem_nodup ms1 p hn hp]
    exact sub_refl' env _
  · exact sub_service_inv h hne

/-! ## the chain relation -/

/-- `a <: b <: c` through some `b`, with the side conditions on the ends -/
def TTd (env : Env) (a c : Ty) : Prop :=
  deepTy env a = true ∧ deepTy env c = true ∧ nnTy env a = true ∧ nnTy env c = true ∧
    ∃ b, deepTy env b = true ∧ Sub env a b ∧ Sub env b c

def TRd (env : Env) : Rel := fun x y => TTd env x y ∨ Sub env x y

theorem F_of_sub_d (env : Env) (a c : Ty) (h : Sub env a c) : F env (TRd env) a c :=
  F_mono (fun _ _ h => Or.inr h) a c (sub_unfold h)

theorem middle_not_name_d (env : Env) (hd : DeepEnv env) (a b c : Ty) (hna : isName a = false) (hnc : isName c = false)
    (hdb : deepTy env b = true) (h1 : Sub env a b) (h2 : Sub env b c) :
    ∃ b0, isName b0 = false ∧ deepTy env b0 = true ∧ Sub env a b0 ∧ Sub env b0 c := by
  have hg := deepEnv_good hd
  cases hb : b with
  | var z =>
    subst hb
    obtain ⟨dz, hdz⟩ := good_var env z (deep_good hdb)
    have hne1 : a ≠ .var z := by intro h; subst h; simp [isName] at hna
    have hne2 : (.var z : Ty) ≠ c := by intro h; subst h; simp [isName] at hnc
    exact ⟨dz, def_not_name env hg z dz hdz, deep_def hd hdz, sub_var_right h1 hne1 hna hdz, sub_var_left h2 hne2 hdz⟩
  | _ =>
    all_goals (
      refine ⟨b, ?_, hdb, h1, h2⟩
      rw [hb] at hdb ⊢
      first | rfl | (simp [deepTy] at hdb))

/-- the chain at three types none of which is a name -/
theorem trans_heads_d (env : Env) (hd : DeepEnv env) (a b c : Ty) (hna : isName a = false) (hnb : isName b = false)
    (hnc : isName c = false) (hda : deepTy env a = true) (hdb : deepTy env b = true) (hdc : deepTy env c = true)
    (hnna : nnTy env a = true) (hnnc : nnTy env c = true)
    (h1 : Sub env a b) (h2 : Sub env b c) : F env (TRd env) a c := by
  have hg := deepEnv_good hd
  have hga := deep_good hda
  have hgb := deep_good hdb
  have hgc := deep_good hdc
  by_cases hcres : c = .prim .reserved
  · unfold F; exact Or.inr (Or.inl hcres)
  by_cases hcopt : ∃ c', c = .opt c'
  · obtain ⟨c', hc'⟩ := hcopt
    unfold F; exact Or.inr (Or.inr (Or.inr (Or.inr (Or.inr (Or.inl ⟨c', hc', hna⟩)))))
  by_cases haemp : a = .prim .empty
  · unfold F; exact Or.inr (Or.inr (Or.inl haemp))
  have hcopt' : ∀ c', c ≠ .opt c' := fun c' h => hcopt ⟨c', h⟩
  have hsa := shape_of_good hga
  have hsb := shape_of_good hgb
  have hsc := shape_of_good hgc
  have hbemp : b ≠ .prim .empty := by
    intro hb
    subst hb
    have := sub_head h1 hna rfl haemp (by simp) (by intro b' h; cases h) hsa rfl
    cases this
    exact haemp rfl
  have hbc := sub_head h2 hnb hnc hbemp hcres hcopt' hsb hsc
  have hbres : b ≠ .prim .reserved := by
    intro hb; subst hb; cases hbc; exact hcres rfl
  have hbopt : ∀ b', b ≠ .opt b' := by
    intro b' hb; subst hb; cases hbc; exact hcopt' b' rfl
  have hab := sub_head h1 hna hnb haemp hbres hbopt hsa hsb
  cases hab with
  | same => exact F_of_sub_d env a c h2
  | natInt =>
    cases hbc with
    | same => exact F_of_sub_d env _ _ h1
  | servPrincipal ms =>
    cases hbc with
    | same => exact F_of_sub_d env _ _ h1
  | vec a' b' =>
    cases hbc with
    | same => exact F_of_sub_d env _ _ h1
    | vec _ c' =>
      have s1 := sub_vec_inv' h1
      have s2 := sub_vec_inv' h2
      simp only [deepTy] at hda hdb hdc
      simp only [nnTy] at hnna hnnc
      exact F.vec _ _ (Or.inl ⟨hda, hdc, hnna, hnnc, b', hdb, s1, s2⟩)
  | record f1 f2 =>
    cases hbc with
    | same => exact F_of_sub_d env _ _ h1
    | record _ f3 =>
      have s1 := sub_record_inv' (good_nodup (Or.inl hga)) h1
      have s2 := sub_record_inv' (good_nodup (Or.inl hgb)) h2
      simp only [deepTy, Bool.and_eq_true, decide_eq_true_eq] at hda hdb hdc
      simp only [nnTy, Bool.and_eq_true] at hnna hnnc
      refine F.record f1 f3 ?_
      intro p hp
      have hgp : goodTy env p.2 = true := good_field (Or.inl hgc) hp
      have hs2 := s2 p hp
      cases hl2 : lookupF f2 p.1.getId with
      | some tb =>
        rw [hl2] at hs2
        simp only [] at hs2
        obtain ⟨lb, hmb, hidb⟩ := lookupF_mem f2 _ tb hl2
        have hgtb : goodTy env tb = true := good_field (Or.inl hgb) hmb
        have hs1 := s1 (lb, tb) hmb
        simp only [hidb] at hs1
        cases hl1 : lookupF f1 p.1.getId with
        | some ta =>
          rw [hl1] at hs1
          simp only [] at hs1 ⊢
          obtain ⟨la, hma, _⟩ := lookupF_mem f1 _ ta hl1
          exact Or.inl ⟨deepFields_mem env f1 (la, ta) hda.1 hma, deepFields_mem env f3 p hdc.1 hp,
            nnFields_mem env f1 (la, ta) hnna.1 hma, nnFields_mem env f3 p hnnc.1 hp, tb,
            deepFields_mem env f2 (lb, tb) hdb.1 hmb, hs1, hs2⟩
        | none =>
          rw [hl1] at hs1
          simp only [] at hs1 ⊢
          exact optLike_up env hg tb p.2 hgtb hgp hs2 hs1
      | none =>
        rw [hl2] at hs2
        simp only [] at hs2
        cases hl1 : lookupF f1 p.1.getId with
        | none => simp only []; exact hs2
        | some ta =>
          simp only []
          obtain ⟨la, hma, _⟩ := lookupF_mem f1 _ ta hl1
          refine Or.inr ?_
          simp only [optLike] at hs2
          cases htp : traceFull env p.2 with
          | none => rw [htp] at hs2; simp at hs2
          | some tp =>
            rw [htp] at hs2
            have hne : traceFull env p.2 ≠ some (.prim .null) := by
              have := List.all_eq_true.mp hnnc.2 p hp
              simpa [notNull] using this
            refine sub_into_optlike env hg ta p.2 tp (good_field (Or.inl hga) hma) hgp htp ?_
            cases tp with
            | opt x => exact Or.inl ⟨x, rfl⟩
            | prim q =>
              cases q <;> simp [isOptLikeTy] at hs2
              · exact absurd htp hne
              · exact Or.inr rfl
            | _ => simp [isOptLikeTy] at hs2
  | variant f1 f2 =>
    cases hbc with
    | same => exact F_of_sub_d env _ _ h1
    | variant _ f3 =>
      have s1 := sub_variant_inv' (good_nodup (Or.inr hgb)) h1
      have s2 := sub_variant_inv' (good_nodup (Or.inr hgc)) h2
      simp only [deepTy, Bool.and_eq_true, decide_eq_true_eq] at hda hdb hdc
      simp only [nnTy] at hnna hnnc
      refine F.variant f1 f3 ?_
      intro p hp
      have hs1 := s1 p hp
      cases hl2 : lookupF f2 p.1.getId with
      | none => rw [hl2] at hs1; exact absurd hs1 (by simp)
      | some tb =>
        rw [hl2] at hs1
        simp only [] at hs1
        obtain ⟨lb, hmb, hidb⟩ := lookupF_mem f2 _ tb hl2
        have hs2 := s2 (lb, tb) hmb
        simp only [hidb] at hs2
        cases hl3 : lookupF f3 p.1.getId with
        | none => rw [hl3] at hs2; exact absurd hs2 (by simp)
        | some tc =>
          rw [hl3] at hs2
          simp only [] at hs2 ⊢
          obtain ⟨lc, hmc, _⟩ := lookupF_mem f3 _ tc hl3
          exact Or.inl ⟨deepFields_mem env f1 p hda.1 hp, deepFields_mem env f3 (lc, tc) hdc.1 hmc,
            nnFields_mem env f1 p hnna hp, nnFields_mem env f3 (lc, tc) hnnc hmc, tb,
            deepFields_mem env f2 (lb, tb) hdb.1 hmb, hs1, hs2⟩
  | func a1 r1 m a2 r2 =>
    cases hbc with
    | same => exact F_of_sub_d env _ _ h1
    | func _ _ _ a3 r3 =>
      obtain ⟨_, sa1, sr1⟩ := sub_func_inv' h1
      obtain ⟨_, sa2, sr2⟩ := sub_func_inv' h2
      simp only [deepTy, Bool.and_eq_true] at hda hdb hdc
      simp only [nnTy, Bool.and_eq_true] at hnna hnnc
      -- arguments the other way round: tuple a3 <: tuple a2 <: tuple a1
      exact F.func a1 r1 m a3 r3
        (Or.inl ⟨tupleTy_deep env a3 hdc.1, tupleTy_deep env a1 hda.1, tupleTy_nn env a3 hnnc.1.1.1 hnnc.1.2,
          tupleTy_nn env a1 hnna.1.1.1 hnna.1.2, tupleTy a2, tupleTy_deep env a2 hdb.1, sa2, sa1⟩)
        (Or.inl ⟨tupleTy_deep env r1 hda.2, tupleTy_deep env r3 hdc.2, tupleTy_nn env r1 hnna.1.1.2 hnna.2,
          tupleTy_nn env r3 hnnc.1.1.2 hnnc.2, tupleTy r2, tupleTy_deep env r2 hdb.2, sr1, sr2⟩)
  | service m1 m2 =>
    cases hbc with
    | same => exact F_of_sub_d env _ _ h1
    | servPrincipal _ => exact F.servPrincipal _
    | service _ m3 =>
      simp only [deepTy, Bool.and_eq_true, decide_eq_true_eq] at hda hdb hdc
      simp only [nnTy] at hnna hnnc
      have s1 := sub_service_inv' hda.2 h1
      have s2 := sub_service_inv' hdb.2 h2
      refine F.service m1 m3 ?_
      intro p hp
      have hs2 := s2 p hp
      cases hl2 : lookupM m2 p.1 with
      | none => rw [hl2] at hs2; exact absurd hs2 (by simp)
      | some tb =>
        rw [hl2] at hs2
        simp only [] at hs2
        have hmb := lookupM_mem m2 _ tb hl2
        have hs1 := s1 (p.1, tb) hmb
        simp only [] at hs1
        cases hl1 : lookupM m1 p.1 with
        | none => rw [hl1] at hs1; exact absurd hs1 (by simp)
        | some ta =>
          rw [hl1] at hs1
          simp only [] at hs1 ⊢
          have hma := lookupM_mem m1 _ ta hl1
          exact Or.inl ⟨deepMeths_mem env m1 (p.1, ta) hda.1 hma, deepMeths_mem env m3 p hdc.1 hp,
            nnMeths_mem env m1 (p.1, ta) hnna hma, nnMeths_mem env m3 p hnnc hp, tb,
            deepMeths_mem env m2 (p.1, tb) hdb.1 hmb, hs1, hs2⟩

/-- one step of the rules from a chain -/
theorem trans_core_d (env : Env) (hd : DeepEnv env) (hn : NNEnv env) (a c : Ty) (h : TTd env a c) : F env (TRd env) a c := by
  obtain ⟨hda, hdc, hnna, hnnc, b, hdb, h1, h2⟩ := h
  have hg := deepEnv_good hd
  have hga := deep_good hda
  have hgb := deep_good hdb
  have hgc := deep_good hdc
  by_cases hav : ∃ x, a = .var x
  · obtain ⟨x, hx⟩ := hav
    subst hx
    obtain ⟨d, hdx⟩ := good_var env x hga
    have hvarL : TRd env d c → F env (TRd env) (.var x) c := fun hr => F.varL x d c hdx hr
    by_cases hab : (.var x : Ty) = b
    · subst hab
      by_cases hac : (.var x : Ty) = c
      · unfold F; exact Or.inl hac
      · exact hvarL (Or.inr (sub_var_left h2 hac hdx))
    · exact hvarL (Or.inl ⟨deep_def hd hdx, hdc, nn_def hn hdx, hnnc, b, hdb, sub_var_left h1 hab hdx, h2⟩)
  · have hna : isName a = false := good_not_name env a hga (fun x hx => hav ⟨x, hx⟩)
    by_cases hcv : ∃ y, c = .var y
    · obtain ⟨y, hy⟩ := hcv
      subst hy
      obtain ⟨dc, hdcy⟩ := good_var env y hgc
      have hvarR : TRd env a dc → F env (TRd env) a (.var y) := fun hr => F.varR a y dc hna hdcy hr
      have hay : a ≠ .var y := by intro h; subst h; simp [isName] at hna
      by_cases hbc : b = .var y
      · subst hbc
        exact hvarR (Or.inr (sub_var_right h1 hay hna hdcy))
      · by_cases hbv : ∃ z, b = .var z
        · obtain ⟨z, hz⟩ := hbv
          subst hz
          obtain ⟨dz, hdz⟩ := good_var env z hgb
          have hnz := def_not_name env hg z dz hdz
          have haz : a ≠ .var z := by intro h; subst h; simp [isName] at hna
          have s1 : Sub env a dz := sub_var_right h1 haz hna hdz
          have s2 : Sub env dz (.var y) := sub_var_left h2 (by intro h; exact hbc h) hdz
          have hdzy : dz ≠ .var y := by intro h; subst h; simp [isName] at hnz
          exact hvarR (Or.inl ⟨hda, deep_def hd hdcy, hnna, nn_def hn hdcy, dz, deep_def hd hdz, s1,
            sub_var_right s2 hdzy hnz hdcy⟩)
        · have hnb : isName b = false := good_not_name env b hgb (fun z hz => hbv ⟨z, hz⟩)
          exact hvarR (Or.inl ⟨hda, deep_def hd hdcy, hnna, nn_def hn hdcy, b, hdb, h1,
            sub_var_right h2 hbc hnb hdcy⟩)
    · have hnc : isName c = false := good_not_name env c hgc (fun y hy => hcv ⟨y, hy⟩)
      obtain ⟨b0, hnb0, hdb0, s1, s2⟩ := middle_not_name_d env hd a b c hna hnc hdb h1 h2
      exact trans_heads_d env hd a b0 c hna hnb0 hnc hda hdb0 hdc hnna hnnc s1 s2

/-- **Subtyping is transitive away from `null`-typed members, reference types included** -/
theorem sub_trans_deep (env : Env) (hd : DeepEnv env) (hn : NNEnv env) (a b c : Ty)
    (hda : deepTy env a = true) (hdb : deepTy env b = true) (hdc : deepTy env c = true)
    (hnna : nnTy env a = true) (hnnc : nnTy env c = true)
    (h1 : Sub env a b) (h2 : Sub env b c) : Sub env a c := by
  refine sub_coind (TRd env) ?_ a c (Or.inl ⟨hda, hdc, hnna, hnnc, b, hdb, h1, h2⟩)
  intro x y hxy
  rcases hxy with h | h
  · exact trans_core_d env hd hn x y h
  · exact F_of_sub_d env x y h

def nnEnvB (env : Env) : Bool := env.all fun p => nnTy env p.2

theorem nnEnv_of_B (env : Env) (h : nnEnvB env = true) : NNEnv env := by
  intro x t hf
  simp only [nnEnvB, List.all_eq_true] at h
  have : ∀ (e : Env), e.find x = some t → ∃ p ∈ e, p.2 = t := by
    intro e
    induction e with
    | nil => intro h; simp [Env.find] at h
    | cons q e ih =>
      intro h
      obtain ⟨k, v⟩ := q
      simp only [Env.find] at h
      split at h
      · simp only [Option.some.injEq] at h; exact ⟨(k, v), by simp, h⟩
      · obtain ⟨p, hp, hpt⟩ := ih h; exact ⟨p, by simp [hp], hpt⟩
  obtain ⟨p, hp, hpt⟩ := this env hf
  rw [← hpt]; exact h p hp

end Candid.Wire
