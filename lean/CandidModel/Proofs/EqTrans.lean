import CandidModel.Proofs.EqSub
/- C05: type equality (`TyEq`) is transitive, hence an equivalence relation -/
namespace Candid.Wire
open Candid Candid.Sub Candid.De

/-- position by position through a middle list -/
theorem zip_through {α : Type} (P Q : α → α → Prop) : ∀ (l1 l2 l3 : List α), l1.length = l2.length → l2.length = l3.length →
    (∀ p ∈ l1.zip l2, P p.1 p.2) → (∀ p ∈ l2.zip l3, Q p.1 p.2) → ∀ p ∈ l1.zip l3, ∃ m, P p.1 m ∧ Q m p.2
  | [], _, _, _, _, _, _, p, hp => by simp at hp
  | _ :: _, [], _, h, _, _, _, _, _ => by simp at h
  | _ :: _, _ :: _, [], _, h, _, _, _, _ => by simp at h
  | x :: xs, y :: ys, z :: zs, h12, h23, hP, hQ, p, hp => by
    simp only [List.zip_cons_cons, List.mem_cons] at hp
    rcases hp with rfl | hp
    · exact ⟨y, hP (x, y) (by simp), hQ (y, z) (by simp)⟩
    · exact zip_through P Q xs ys zs (by simpa using h12) (by simpa using h23)
        (fun q hq => hP q (by simp [hq])) (fun q hq => hQ q (by simp [hq])) p hp

/-- the relation carried through the coinduction: equal through a middle type -/
def ETR (env : Env) (a c : Ty) : Prop := ∃ b, TyEq env a b ∧ TyEq env b c

theorem ETR.of_eq {env : Env} {a c : Ty} (h : TyEq env a c) : ETR env a c := ⟨a, tyeq_refl env a, h⟩

theorem FieldsEq_trans {env : Env} {f1 f2 f3 : Fields} (h1 : FieldsEq (TyEq env) f1 f2) (h2 : FieldsEq (TyEq env) f2 f3) :
    FieldsEq (ETR env) f1 f3 := by
  refine ⟨h1.1.trans h2.1, ?_⟩
  intro p hp
  obtain ⟨m, ⟨hid1, he1⟩, ⟨hid2, he2⟩⟩ := zip_through
    (fun (x y : Label × Ty) => x.1.getId = y.1.getId ∧ TyEq env x.2 y.2)
    (fun (x y : Label × Ty) => x.1.getId = y.1.getId ∧ TyEq env x.2 y.2)
    f1.toList f2.toList f3.toList h1.1 h2.1 (fun q hq => h1.2 q hq) (fun q hq => h2.2 q hq) p hp
  exact ⟨hid1.trans hid2, m.2, he1, he2⟩

theorem MethsEq_trans {env : Env} {m1 m2 m3 : Meths} (h1 : MethsEq (TyEq env) m1 m2) (h2 : MethsEq (TyEq env) m2 m3) :
    MethsEq (ETR env) m1 m3 := by
  refine ⟨h1.1.trans h2.1, ?_⟩
  intro p hp
  obtain ⟨m, ⟨hid1, he1⟩, ⟨hid2, he2⟩⟩ := zip_through
    (fun (x y : String × Ty) => x.1 = y.1 ∧ TyEq env x.2 y.2)
    (fun (x y : String × Ty) => x.1 = y.1 ∧ TyEq env x.2 y.2)
    m1.toList m2.toList m3.toList h1.1 h2.1 (fun q hq => h1.2 q hq) (fun q hq => h2.2 q hq) p hp
  exact ⟨hid1.trans hid2, m.2, he1, he2⟩

/-- the chain with a middle type that is not a name -/
theorem etr_step_nonvar (env : Env) (a b c : Ty) (hb : ∀ y, b ≠ .var y) (h1 : TyEq env a b) (h2 : TyEq env b c) :
    FE env (ETR env) a c := by
  have hF1 := tyeq_unfold h1
  unfold FE at hF1
  rcases hF1 with e | ⟨a', b', e1, e2, r⟩ | ⟨a', b', e1, e2, r⟩ | ⟨fs1, fs2, e1, e2, r⟩ | ⟨fs1, fs2, e1, e2, r⟩ |
    ⟨a1, r1, m, a2, r2, e1, e2, ra, rr⟩ | ⟨ms1, ms2, e1, e2, r⟩ | ⟨i1, t1, i2, t2, e1, e2, ri, rt⟩ |
    ⟨x, d, e1, e2, r⟩ | ⟨y, d, e1, e2, r⟩
  · subst e; exact FE_mono (fun _ _ h => ETR.of_eq h) _ _ (tyeq_unfold h2)
  all_goals first
    | (exact absurd e1 (hb y))   -- the middle type is a name
    | (subst e1; exact FE.varL x d c e2 ⟨b, r, h2⟩)   -- a name on the left is unfolded
    | skip
  all_goals (
    -- structural rule on the left pair: look at the right pair
    have hF2 := tyeq_unfold h2
    unfold FE at hF2
    rcases hF2 with e' | ⟨b'', c', e1', e2', r'⟩ | ⟨b'', c', e1', e2', r'⟩ | ⟨gs1, gs2, e1', e2', r'⟩ | ⟨gs1, gs2, e1', e2', r'⟩ |
      ⟨b1, s1, m', b2, s2, e1', e2', ra', rr'⟩ | ⟨ns1, ns2, e1', e2', r'⟩ | ⟨j1, u1, j2, u2, e1', e2', ri', rt'⟩ |
      ⟨x', d', e1', e2', r'⟩ | ⟨y', d', e1', e2', r'⟩)
  all_goals first
    | (subst e'; exact FE_mono (fun u v h => (⟨v, h, tyeq_refl env v⟩ : ETR env u v)) _ _ (tyeq_unfold h1))
    | (exact absurd e1' (hb x'))
    | (subst e1'; exact FE.varR a y' d' e2' ⟨b, h1, r'⟩)
    | skip
  all_goals (subst e1; subst e2)
  all_goals first
    | (cases e1'; subst e2'; exact FE.opt _ _ ⟨_, r, r'⟩)
    | (cases e1'; subst e2'; exact FE.vec _ _ ⟨_, r, r'⟩)
    | (cases e1'; subst e2'; exact FE.record _ _ (FieldsEq_trans r r'))
    | (cases e1'; subst e2'; exact FE.variant _ _ (FieldsEq_trans r r'))
    | (cases e1'; subst e2'; exact FE.func _ _ _ _ _ ⟨_, ra, ra'⟩ ⟨_, rr, rr'⟩)
    | (cases e1'; subst e2'; exact FE.service _ _ (MethsEq_trans r r'))
    | (cases e1'; subst e2'; exact FE.cls _ _ _ _ ⟨_, ri, ri'⟩ ⟨_, rt, rt'⟩)
    | (cases e1')

/-- **Type equality is transitive** -/
theorem tyeq_trans {env : Env} {a b c : Ty} (h1 : TyEq env a b) (h2 : TyEq env b c) : TyEq env a c := by
  refine tyeq_coind (ETR env) ?_ a c ⟨b, h1, h2⟩
  intro x z ⟨m, hxm, hmz⟩
  by_cases hv : ∃ y, m = .var y
  · obtain ⟨y, hy⟩ := hv
    subst hy
    -- a middle type that is a name: either it resolves, and is replaced by its definition, or nothing but
    -- reflexivity relates it to anything
    cases hd : recFindFull env y with
    | some d =>
      exact etr_step_nonvar env x d z (recFind_nonvar env _ y d hd) (tyeq_unfoldR hd hxm) (tyeq_unfoldL hd hmz)
    | none =>
      -- an unresolved name is only equal to itself, up to names that unfold to it — which cannot be, so: reflexivity
      have hF2 := tyeq_unfold hmz
      unfold FE at hF2
      rcases hF2 with e' | ⟨_, _, e1', _, _⟩ | ⟨_, _, e1', _, _⟩ | ⟨_, _, e1', _, _⟩ | ⟨_, _, e1', _, _⟩ |
        ⟨_, _, _, _, _, e1', _, _, _⟩ | ⟨_, _, e1', _, _⟩ | ⟨_, _, _, _, e1', _, _, _⟩ |
        ⟨x', d', e1', e2', r'⟩ | ⟨y', d', e1', e2', r'⟩
      · subst e'; exact FE_mono (fun u v h => (⟨v, h, tyeq_refl env v⟩ : ETR env u v)) _ _ (tyeq_unfold hxm)
      all_goals first
        | (cases e1'; rw [hd] at e2'; cases e2')
        | (subst e1'; exact FE.varR x y' d' e2' ⟨.var y, hxm, r'⟩)
        | (cases e1')
  · exact etr_step_nonvar env x m z (fun y hy => hv ⟨y, hy⟩) hxm hmz

end Candid.Wire
