import CandidModel.Proofs.DeWellFormed
/- helper lemmas for C07 / C06: the decoding quota spent by a successful run is at least the number of values it
   materialised (zero-sized elements are not free), so a quota bounds what a decode can allocate -/
namespace Candid.De
open Candid Candid.Wire Candid.Leb

mutual
/-- number of value nodes (a byte vector counts once) -/
def vcount : Val → Nat
  | .opt v => 1 + vcount v
  | .vec vs => 1 + vcountL vs
  | .record fs => 1 + vcountF fs
  | .variant _ v _ => 1 + vcount v
  | _ => 1
def vcountL : List Val → Nat
  | [] => 0
  | v :: r => vcount v + vcountL r
def vcountF : List (Label × Val) → Nat
  | [] => 0
  | (_, v) :: r => vcount v + vcountF r
end

/-- the decoding quota went down by at least `k` (and stays configured / unconfigured) -/
def SpentGE (k : Nat) (st st' : St) : Prop :=
  match st.dq, st'.dq with
  | some n, some r => r + k ≤ n
  | none, none => True
  | _, _ => False

/-- the quota a subtype failure carries is not above the one the step started with -/
def DLe (d : Option Nat) (st : St) : Prop :=
  match st.dq, d with
  | some n, some r => r ≤ n
  | none, none => True
  | _, _ => False

theorem SpentGE.refl (st : St) : SpentGE 0 st st := by
  unfold SpentGE; cases st.dq <;> simp

theorem SpentGE.trans {k1 k2 : Nat} {a b c : St} (h1 : SpentGE k1 a b) (h2 : SpentGE k2 b c) : SpentGE (k1 + k2) a c := by
  unfold SpentGE at *
  cases ha : a.dq <;> cases hb : b.dq <;> cases hc : c.dq <;> simp_all <;> omega

theorem SpentGE.weaken {k k' : Nat} {a b : St} (h : SpentGE k a b) (hk : k' ≤ k) : SpentGE k' a b := by
  unfold SpentGE at *
  cases ha : a.dq <;> cases hb : b.dq <;> simp_all <;> omega

theorem SpentGE.dle {k : Nat} {a b : St} (h : SpentGE k a b) : DLe b.dq a := by
  unfold SpentGE at h; unfold DLe
  cases ha : a.dq <;> cases hb : b.dq <;> simp_all <;> omega

theorem DLe.trans_spent {k : Nat} {a b : St} {d : Option Nat} (h1 : SpentGE k a b) (h2 : DLe d b) : DLe d a := by
  unfold SpentGE at h1; unfold DLe at *
  cases ha : a.dq <;> cases hb : b.dq <;> cases d <;> simp_all <;> omega

/-- states that differ only outside the decoding quota -/
theorem SpentGE.of_dq_eq {k : Nat} {a b a' b' : St} (h : SpentGE k a b) (ha : a'.dq = a.dq) (hb : b'.dq = b.dq) :
    SpentGE k a' b' := by
  unfold SpentGE at *; rw [ha, hb]; exact h

theorem chargeAmount_ge_one (st : St) (c : Nat) (hc : 1 ≤ c) : 1 ≤ chargeAmount st c := by
  unfold chargeAmount usizeMax
  split <;> omega

theorem chargeAmount_ge (st : St) (c : Nat) (hc : c ≤ usizeMax) : c ≤ chargeAmount st c := by
  unfold chargeAmount
  split
  · exact Nat.le_min.mpr ⟨by omega, hc⟩
  · omega

/-- `add_cost`: the quota goes down by the amount charged -/
theorem addCost_spent (st s : St) (c : Nat) (u : Unit) (h : addCost st c = .ok u s) : SpentGE (chargeAmount st c) st s := by
  unfold addCost at h
  cases hd : chargeD st c with
  | none => rw [hd] at h; simp at h
  | some sa =>
    rw [hd] at h
    simp only [] at h
    cases hs : chargeS sa c with
    | none => rw [hs] at h; simp at h
    | some sb =>
      rw [hs] at h
      simp only [R.ok.injEq, true_and] at h
      subst h
      have h1 : SpentGE (chargeAmount st c) st sa := by
        unfold chargeD at hd
        unfold SpentGE
        split at hd
        · rename_i n hn
          split at hd
          · simp at hd
          · simp only [Option.some.injEq] at hd; subst hd; rw [hn]; simp; omega
        · rename_i hn
          simp only [Option.some.injEq] at hd; subst hd
          cases hq : st.dq with
          | none => simp
          | some n => rw [hq] at hn; simp at hn
      have h2 : sb.dq = sa.dq := by
        unfold chargeS at hs
        split at hs
        · split at hs
          · split at hs
            · simp at hs
            · simp only [Option.some.injEq] at hs; subst hs; rfl
          · simp only [Option.some.injEq] at hs; subst hs; rfl
        · simp only [Option.some.injEq] at hs; subst hs; rfl
      exact h1.of_dq_eq rfl h2

theorem addCost_spent_one (st s : St) (c : Nat) (u : Unit) (hc : 1 ≤ c) (h : addCost st c = .ok u s) : SpentGE 1 st s :=
  (addCost_spent st s c u h).weaken (chargeAmount_ge_one st c hc)

theorem addCost_spent_zero (st s : St) (c : Nat) (u : Unit) (h : addCost st c = .ok u s) : SpentGE 0 st s :=
  (addCost_spent st s c u h).weaken (Nat.zero_le _)

theorem addCost_no_sub (st : St) (c : Nat) (d q : Option Nat) : addCost st c ≠ .sub d q := by
  unfold addCost
  repeat' split
  all_goals simp

theorem rd_spent {α : Type} {f : Bytes → Outcome (α × Bytes)} {st st' : St} {a : α} (h : rd f st = .ok a st') :
    SpentGE 0 st st' := by
  unfold rd at h
  cases hf : f st.input with
  | ok x =>
    rw [hf] at h
    simp only [R.ok.injEq] at h
    rw [← h.2]
    exact (SpentGE.refl st).of_dq_eq rfl rfl
  | err k => rw [hf] at h; simp at h
  | panic p => rw [hf] at h; simp at h

theorem rd_no_sub {α : Type} (f : Bytes → Outcome (α × Bytes)) (st : St) (d q : Option Nat) : rd f st ≠ .sub d q := by
  unfold rd; cases f st.input <;> simp

theorem bind_sub_inv {α β : Type} {x : R α} {f : α → St → R β} {d q : Option Nat} (h : x.bind f = .sub d q) :
    x = .sub d q ∨ ∃ a s, x = .ok a s ∧ f a s = .sub d q := by
  cases x with
  | ok a s => exact Or.inr ⟨a, s, rfl, h⟩
  | sub d' q' => simp only [R.bind, R.sub.injEq] at h; left; rw [h.1, h.2]
  | err k => simp [R.bind] at h
  | panic p => simp [R.bind] at h

theorem rmap_sub_inv {α β : Type} {x : R α} {f : α → β} {d q : Option Nat} (h : x.map f = .sub d q) : x = .sub d q := by
  rcases bind_sub_inv h with h1 | ⟨a, s, _, h2⟩
  · exact h1
  · simp at h2

theorem subErr_dle (st : St) : DLe st.dq st := by
  unfold DLe; cases st.dq <;> simp

theorem subErr_inv {α : Type} {st : St} {d q : Option Nat} (h : (subErr st : R α) = .sub d q) : d = st.dq := by
  simp only [subErr, R.sub.injEq] at h; exact h.1.symm


/-! ### the accounting invariant of one step -/

/-- a successful step spent at least `cnt` of its result; a subtype failure carries a quota not above the start -/
def Acc {α : Type} (cnt : α → Nat) (st : St) (x : R α) : Prop :=
  match x with
  | .ok a st' => SpentGE (cnt a) st st'
  | .sub d _ => DLe d st
  | _ => True

theorem Acc.err {α : Type} (cnt : α → Nat) (st : St) (k : ErrKind) : Acc cnt st (R.err k) := trivial
theorem Acc.subErr {α : Type} (cnt : α → Nat) (st : St) : Acc cnt st (De.subErr st : R α) := subErr_dle st
theorem Acc.ok0 {α : Type} (cnt : α → Nat) (st : St) (a : α) (h : cnt a = 0) : Acc cnt st (R.ok a st) := by
  simp only [Acc]; rw [h]; exact SpentGE.refl st

theorem Acc.weaken {α : Type} {c c' : α → Nat} {st : St} {x : R α} (h : Acc c st x) (hc : ∀ a, c' a ≤ c a) : Acc c' st x := by
  cases x with
  | ok a s => exact SpentGE.weaken h (hc a)
  | sub d q => exact h
  | err k => trivial
  | panic p => trivial

theorem Acc.bind' {α β : Type} {c1 : α → Nat} {c2 : α → β → Nat} {c : β → Nat} {st : St} {x : R α} {f : α → St → R β}
    (hx : Acc c1 st x) (hf : ∀ a s, x = .ok a s → Acc (c2 a) s (f a s)) (hc : ∀ a b, c b ≤ c1 a + c2 a b) :
    Acc c st (x.bind f) := by
  cases x with
  | ok a s =>
    have h2 := hf a s rfl
    simp only [R.bind]
    cases hfa : f a s with
    | ok b s' =>
      rw [hfa] at h2
      exact (SpentGE.trans hx h2).weaken (hc a b)
    | sub d q => rw [hfa] at h2; exact DLe.trans_spent hx h2
    | err k => trivial
    | panic p => trivial
  | sub d q => exact hx
  | err k => trivial
  | panic p => trivial

/-- the common case: the first step is only known to spend a fixed amount -/
theorem Acc.bind {α β : Type} (k1 : Nat) {c2 c : β → Nat} {st : St} {x : R α} {f : α → St → R β}
    (hx : Acc (fun _ => k1) st x) (hf : ∀ a s, x = .ok a s → Acc c2 s (f a s)) (hc : ∀ b, c b ≤ k1 + c2 b) :
    Acc c st (x.bind f) :=
  Acc.bind' (c2 := fun _ => c2) hx hf (fun _ b => hc b)

theorem Acc.map {α β : Type} {c : β → Nat} {st : St} {x : R α} (f : α → β) (h : Acc (fun a => c (f a)) st x) :
    Acc c st (x.map f) := by
  cases x with
  | ok a s => exact h
  | sub d q => exact h
  | err k => trivial
  | panic p => trivial

theorem Acc.of_dq {α : Type} {c : α → Nat} {a b : St} {x : R α} (hab : b.dq = a.dq) (h : Acc c a x) : Acc c b x := by
  cases x with
  | ok v s => exact SpentGE.of_dq_eq h hab rfl
  | sub d q => simp only [Acc, DLe] at h ⊢; rw [hab]; exact h
  | err k => trivial
  | panic p => trivial

theorem Acc.addCost1 (st : St) (c : Nat) (hc : 1 ≤ c) : Acc (fun _ => 1) st (addCost st c) := by
  cases h : addCost st c with
  | ok u s => exact addCost_spent_one st s c u hc h
  | sub d q => exact absurd h (addCost_no_sub st c d q)
  | err k => trivial
  | panic p => trivial

theorem Acc.addCost0 (st : St) (c : Nat) : Acc (fun _ => 0) st (addCost st c) := by
  cases h : addCost st c with
  | ok u s => exact addCost_spent_zero st s c u h
  | sub d q => exact absurd h (addCost_no_sub st c d q)
  | err k => trivial
  | panic p => trivial

/-- a charge that is known to fit a machine word counts in full -/
theorem Acc.addCostN (st : St) (c : Nat) (hc : c ≤ usizeMax) : Acc (fun _ => c) st (addCost st c) := by
  cases h : addCost st c with
  | ok u s => exact (addCost_spent st s c u h).weaken (chargeAmount_ge st c hc)
  | sub d q => exact absurd h (addCost_no_sub st c d q)
  | err k => trivial
  | panic p => trivial

theorem Acc.rd {α : Type} (f : Bytes → Outcome (α × Bytes)) (st : St) : Acc (fun _ => 0) st (rd f st) := by
  cases h : De.rd f st with
  | ok a s => exact rd_spent h
  | sub d q => exact absurd h (rd_no_sub f st d q)
  | err k => trivial
  | panic p => trivial

theorem Acc.ofOpt {α : Type} (o : Option α) (k : ErrKind) (st : St) : Acc (fun _ => 0) st (ofOpt o k st) := by
  cases o with
  | none => trivial
  | some a => exact SpentGE.refl st

theorem vcount_pos (v : Val) : 1 ≤ vcount v := by
  cases v <;> simp [vcount] <;> omega


/-! ### leaves -/

theorem unroll_acc (env : Env) (fuel : Nat) (w e : Ty) (st : St) : Acc (fun _ => 0) st (unroll env fuel w e st) := by
  unfold unroll
  simp only []
  apply Acc.bind 0 (c2 := fun _ => 0)
  · split
    · exact Acc.bind 0 (c2 := fun _ => 0) (Acc.addCost0 st 1) (fun _ s _ => Acc.ofOpt _ _ s) (fun _ => by omega)
    · exact SpentGE.refl st
  · intro e' s _
    split
    · exact Acc.bind 0 (c2 := fun _ => 0) (Acc.addCost0 s 1) (fun _ s2 _ => Acc.map _ (Acc.ofOpt _ _ s2)) (fun _ => by omega)
    · exact SpentGE.refl s
  · intro _; omega

theorem splitLeb_consumes {bs p r : Bytes} (h : splitLeb bs = some (p, r)) : r.length < bs.length := by
  have hs := (splitLeb_sound bs p r h).1
  have hne := splitLeb_ne_nil bs p r h
  rw [hs]
  cases p with
  | nil => exact absurd rfl hne
  | cons x xs => simp; omega

theorem natAs_consumes (mk : Nat → Val) (bs : Bytes) (a : Val) (r : Bytes) (h : natAs mk bs = .ok (a, r)) :
    r.length < bs.length := by
  unfold natAs at h
  rw [natDecode_spec] at h
  unfold specReadNat at h
  cases hs : splitLeb bs with
  | none => rw [hs] at h; simp at h
  | some x =>
    obtain ⟨p, r'⟩ := x
    rw [hs] at h
    simp only [Option.map_some, Outcome.ok.injEq, Prod.mk.injEq] at h
    rw [← h.2]
    exact splitLeb_consumes hs

theorem intAs_consumes (bs : Bytes) (a : Val) (r : Bytes) (h : intAs bs = .ok (a, r)) : r.length < bs.length := by
  unfold intAs at h
  rw [intDecode_spec] at h
  unfold specReadInt at h
  cases hs : splitLeb bs with
  | none => rw [hs] at h; simp at h
  | some x =>
    obtain ⟨p, r'⟩ := x
    rw [hs] at h
    simp only [Option.map_some, Outcome.ok.injEq, Prod.mk.injEq] at h
    rw [← h.2]
    exact splitLeb_consumes hs

theorem bigNum_acc (f : Bytes → Outcome (Val × Bytes)) (hf : ∀ bs a r, f bs = .ok (a, r) → r.length < bs.length)
    (st : St) : Acc (fun _ => 1) st (bigNum f st) := by
  unfold bigNum
  simp only []
  apply Acc.bind 0 (c2 := fun _ => 1) (Acc.rd f st)
  · intro v s hv
    have := hf _ _ _ (rd_ok_inv hv)
    exact Acc.map _ (Acc.addCost1 s _ (by omega))
  · intro _; omega

theorem dePrimExact_acc (p : Prim) (c : Nat) (hc : 1 ≤ c) (w e : Ty) (st : St) :
    Acc (fun _ => 1) st (dePrimExact p c w e st) := by
  unfold dePrimExact
  split
  · exact Acc.bind 1 (c2 := fun _ => 0) (Acc.addCost1 st c hc) (fun _ s _ => Acc.rd _ s) (fun _ => by omega)
  · exact Acc.subErr _ st

theorem lenBytes_acc (st : St) : Acc (fun _ => 1) st (lenBytes st) := by
  unfold lenBytes
  apply Acc.bind 0 (c2 := fun _ => 1) (Acc.rd _ st)
  · intro n s _
    exact Acc.bind 1 (c2 := fun _ => 0) (Acc.addCost1 s _ (by unfold usizeMax; omega)) (fun _ s' _ => Acc.rd _ s')
      (fun _ => by omega)
  · intro _; omega

theorem dePrincipalBytes_acc (st : St) : Acc (fun _ => 1) st (dePrincipalBytes st) := by
  unfold dePrincipalBytes
  apply Acc.bind 0 (c2 := fun _ => 1) (Acc.rd _ st)
  · intro b s _
    exact Acc.map _ (Acc.addCost1 s _ (by omega))
  · intro _; omega

theorem checkSubtype_acc (env : Env) (w e : Ty) (st : St) : Acc (fun _ => 0) st (checkSubtype env w e st) := by
  unfold checkSubtype
  apply Acc.bind 0 (c2 := fun _ => 0) (Acc.addCost0 st _)
  · intro _ s _
    split
    · exact (SpentGE.refl s).of_dq_eq rfl rfl
    · trivial
    · exact Acc.subErr _ s
  · intro _; omega

theorem iterV_acc (f : St → R Val) (hf : ∀ s, Acc vcount s (f s)) : ∀ (n : Nat) (st : St), Acc vcountL st (iterV f n st) := by
  intro n
  induction n with
  | zero => intro st; exact SpentGE.refl st
  | succ n ih =>
    intro st
    simp only [iterV]
    exact Acc.bind' (c1 := vcount) (c2 := fun v b => vcountL b - vcount v) (c := vcountL) (hf st)
      (fun v s _ => Acc.map _ ((ih s).weaken (fun vs => by simp [vcountL])))
      (fun a b => by omega)


/-! ### branches -/

theorem Acc.of_leaf {st : St} {x : R Val} (hl : ∀ a s, x = .ok a s → vcount a = 1) (h : Acc (fun _ => 1) st x) :
    Acc vcount st x := by
  cases x with
  | ok a s => simp only [Acc] at h ⊢; rw [hl a s rfl]; exact h
  | sub d q => exact h
  | err k => trivial
  | panic p => trivial

theorem decPrim_leaf (p : Prim) (bs : Bytes) (v : Val) (r : Bytes) (h : decPrim p bs = .ok (v, r)) : vcount v = 1 := by
  have hmap : ∀ (mk : Nat → Val) (k : Nat), (∀ n, vcount (mk n) = 1) →
      (readFixed k bs).map (fun x => (mk x.1, x.2)) = .ok (v, r) → vcount v = 1 := by
    intro mk k hmk hm
    obtain ⟨a, _, h2⟩ := (map_ok_iff _ _ _).mp hm
    simp only [Prod.mk.injEq] at h2
    rw [← h2.1]; exact hmk _
  cases p
  case null => simp only [decPrim, Outcome.ok.injEq, Prod.mk.injEq] at h; rw [← h.1]; rfl
  case reserved => simp only [decPrim, Outcome.ok.injEq, Prod.mk.injEq] at h; rw [← h.1]; rfl
  case empty => simp [decPrim] at h
  case bool =>
    simp only [decPrim] at h
    split at h
    · simp at h
    · split at h
      · simp only [Outcome.ok.injEq, Prod.mk.injEq] at h; rw [← h.1]; rfl
      · split at h
        · simp only [Outcome.ok.injEq, Prod.mk.injEq] at h; rw [← h.1]; rfl
        · simp at h
  case nat =>
    simp only [decPrim] at h
    split at h
    · simp only [Outcome.ok.injEq, Prod.mk.injEq] at h; rw [← h.1]; rfl
    · simp at h
  case int =>
    simp only [decPrim] at h
    split at h
    · simp only [Outcome.ok.injEq, Prod.mk.injEq] at h; rw [← h.1]; rfl
    · simp at h
  case nat8 => exact hmap Val.nat8 1 (fun _ => rfl) h
  case nat16 => exact hmap Val.nat16 2 (fun _ => rfl) h
  case nat32 => exact hmap Val.nat32 4 (fun _ => rfl) h
  case nat64 => exact hmap Val.nat64 8 (fun _ => rfl) h
  case int8 => exact hmap (fun n => Val.int8 (toSigned 8 n)) 1 (fun _ => rfl) h
  case int16 => exact hmap (fun n => Val.int16 (toSigned 16 n)) 2 (fun _ => rfl) h
  case int32 => exact hmap (fun n => Val.int32 (toSigned 32 n)) 4 (fun _ => rfl) h
  case int64 => exact hmap (fun n => Val.int64 (toSigned 64 n)) 8 (fun _ => rfl) h
  case float32 => exact hmap Val.float32 4 (fun _ => rfl) h
  case float64 => exact hmap Val.float64 8 (fun _ => rfl) h
  case text =>
    simp only [decPrim] at h
    repeat' split at h
    all_goals first
      | (simp only [Outcome.ok.injEq, Prod.mk.injEq] at h; rw [← h.1]; rfl)
      | (simp at h; done)

theorem rd_decPrim_leaf (p : Prim) (s : St) (a : Val) (s' : St) (h : rd (decPrim p) s = .ok a s') : vcount a = 1 :=
  decPrim_leaf p _ a _ (rd_ok_inv h)

theorem natAs_leaf (mk : Nat → Val) (hmk : ∀ n, vcount (mk n) = 1) (bs : Bytes) (a : Val) (r : Bytes)
    (h : natAs mk bs = .ok (a, r)) : vcount a = 1 := by
  unfold natAs at h
  split at h
  · simp only [Outcome.ok.injEq, Prod.mk.injEq] at h; rw [← h.1]; exact hmk _
  · simp at h
  · simp at h

theorem intAs_leaf (bs : Bytes) (a : Val) (r : Bytes) (h : intAs bs = .ok (a, r)) : vcount a = 1 := by
  unfold intAs at h
  split at h
  · simp only [Outcome.ok.injEq, Prod.mk.injEq] at h; rw [← h.1]; rfl
  · simp at h
  · simp at h

theorem bigNum_leaf (f : Bytes → Outcome (Val × Bytes)) (hf : ∀ bs a r, f bs = .ok (a, r) → vcount a = 1)
    (st : St) (a : Val) (s : St) (h : bigNum f st = .ok a s) : vcount a = 1 := by
  unfold bigNum at h
  obtain ⟨v, s1, h1, h2⟩ := bind_ok_inv h
  obtain ⟨_, _, h4⟩ := rmap_ok_inv h2
  subst h4
  exact hf _ _ _ (rd_ok_inv h1)

theorem bigNum_nat_acc (mk : Nat → Val) (hmk : ∀ n, vcount (mk n) = 1) (st : St) : Acc vcount st (bigNum (natAs mk) st) :=
  Acc.of_leaf (fun a s h => bigNum_leaf _ (natAs_leaf mk hmk) st a s h) (bigNum_acc _ (natAs_consumes mk) st)

theorem bigNum_int_acc (st : St) : Acc vcount st (bigNum intAs st) :=
  Acc.of_leaf (fun a s h => bigNum_leaf _ intAs_leaf st a s h) (bigNum_acc _ intAs_consumes st)

theorem dePrimExact_acc' (p : Prim) (c : Nat) (hc : 1 ≤ c) (w e : Ty) (st : St) : Acc vcount st (dePrimExact p c w e st) := by
  apply Acc.of_leaf _ (dePrimExact_acc p c hc w e st)
  intro a s h
  unfold dePrimExact at h
  split at h
  · obtain ⟨_, s1, _, h2⟩ := bind_ok_inv h
    exact rd_decPrim_leaf p s1 a s h2
  · exact absurd h (subErr_ne_ok _ _ _)

/-- `opt`, after the caller's `add_cost(1)` -/
theorem deOptCase_acc (env : Env) (fuel : Nat) (recv : Ty → Ty → St → R Val)
    (hr : ∀ w e s, Acc (fun v => vcount v - 1) s (recv w e s)) (w e2 : Ty) (s1 : St) :
    Acc (fun v => vcount v - 1) s1 (deOptCase env fuel recv w e2 s1) := by
  unfold deOptCase
  split
  · exact Acc.ok0 _ _ _ rfl
  · exact Acc.ok0 _ _ _ rfl
  · split
    · trivial
    · split
      · exact (Acc.ok0 (fun v => vcount v - 1) { s1 with input := _ } Val.none rfl).of_dq rfl
      · split
        · exact (hr _ _ _).of_dq rfl
        · trivial
  · split
    · trivial
    · exact hr _ _ _

theorem deBlobCase_acc (env : Env) (w : Ty) (st : St) : Acc vcount st (deBlobCase env w st) := by
  apply Acc.of_leaf
  · intro a s h
    unfold deBlobCase at h
    split at h
    · obtain ⟨b, _, h2⟩ := rmap_ok_inv h; rw [← h2]; rfl
    · split at h
      · obtain ⟨n, s1, _, h2⟩ := bind_ok_inv h
        split at h2
        · exact absurd h2 (subErr_ne_ok _ _ _)
        · obtain ⟨_, _, h4⟩ := rmap_ok_inv h2; rw [← h4]; rfl
      · exact absurd h (subErr_ne_ok _ _ _)
  · unfold deBlobCase
    split
    · exact Acc.map _ (lenBytes_acc st)
    · split
      · apply Acc.bind 0 (c2 := fun _ => 1) (Acc.rd _ st)
        · intro n s _
          split
          · exact Acc.subErr _ s
          · exact Acc.map _ (Acc.addCost1 s 1 (by omega))
        · intro _; omega
      · exact Acc.subErr _ st

theorem deFuncCase_acc (w : Ty) (s1 : St) : Acc vcount s1 (deFuncCase w s1) := by
  unfold deFuncCase
  split
  · split
    · trivial
    · split
      · trivial
      · split
        · trivial
        · apply Acc.of_dq (a := { s1 with input := _ }) rfl
          apply Acc.bind 0 (c2 := vcount) (Acc.rd _ _)
          · intro pid s2 _
            apply Acc.bind 0 (c2 := vcount) (Acc.rd _ _)
            · intro n s3 _
              apply Acc.bind 0 (c2 := vcount) (Acc.rd _ _)
              · intro m s4 _
                apply Acc.bind 1 (c2 := fun v => vcount v - 1) (Acc.addCost1 s4 _ (by unfold usizeMax; omega))
                · intro _ s5 _
                  split
                  · exact Acc.ok0 _ _ _ rfl
                  · trivial
                · intro b; have := vcount_pos b; omega
              · intro _; omega
            · intro _; omega
          · intro _; omega
  · exact Acc.subErr _ s1


theorem iterV_leaf_count (f : St → R Val) (hf : ∀ s a s', f s = .ok a s' → vcount a = 1) :
    ∀ (n : Nat) (st st' : St) (vs : List Val), iterV f n st = .ok vs st' → vcountL vs = n := by
  intro n
  induction n with
  | zero => intro st st' vs h; simp only [iterV, R.ok.injEq] at h; rw [← h.1]; rfl
  | succ n ih =>
    intro st st' vs h
    simp only [iterV] at h
    obtain ⟨v, s, h1, h2⟩ := bind_ok_inv h
    obtain ⟨vs', h3, h4⟩ := rmap_ok_inv h2
    subst h4
    simp only [vcountL, hf st v s h1, ih s st' vs' h3]
    omega

theorem iterV_spent0 (f : St → R Val) (hf : ∀ s, Acc (fun _ => 0) s (f s)) : ∀ (n : Nat) (st : St),
    Acc (fun _ => 0) st (iterV f n st) := by
  intro n
  induction n with
  | zero => intro st; exact SpentGE.refl st
  | succ n ih =>
    intro st
    simp only [iterV]
    exact Acc.bind 0 (c2 := fun _ => 0) (hf st) (fun v s _ => Acc.map _ (ih s)) (fun _ => by omega)

/-- `vec`, after the caller's `add_cost(1)` -/
theorem deVecCase_acc (env : Env) (vis : Visitor) (fuel : Nat) (dAny : Ty → Ty → St → R Val) (dIgn : Ty → St → R Val)
    (ha : ∀ w e s, Acc vcount s (dAny w e s)) (hi : ∀ w s, Acc vcount s (dIgn w s)) (w ee : Ty) (s1 : St) :
    Acc (fun v => vcount v - 1) s1 (deVecCase env vis fuel dAny dIgn w ee s1) := by
  unfold deVecCase
  split
  · split
    · trivial
    · apply Acc.bind 0 (c2 := fun v => vcount v - 1) (Acc.rd _ s1)
      · intro n s2 _
        split
        · rename_i p hp
          simp only []
          split
          · trivial
          · rename_i hle
            -- the whole vector is charged at once: n * (3 + size) ≥ n
            have hle' : n * (3 + (primSize p).getD 1) ≤ usizeMax := by omega
            cases hx : (addCost s2 (n * (3 + (primSize p).getD 1))).bind (fun _ s3 =>
                if n * (primSize p).getD 1 > s3.input.length then (.err .eof : R Val)
                else (iterV (fun s => rd (decPrim p) s) n s3).map Val.vec) with
            | ok v s' =>
              obtain ⟨_, s3, h1, h2⟩ := bind_ok_inv hx
              split at h2
              · simp at h2
              · obtain ⟨vs, h3, h4⟩ := rmap_ok_inv h2
                subst h4
                have hcount := iterV_leaf_count _ (fun s a s' h => rd_decPrim_leaf p s a s' h) n s3 s' vs h3
                have hsp1 := (addCost_spent s2 s3 _ _ h1).weaken (chargeAmount_ge s2 _ hle')
                have hsp2 : SpentGE 0 s3 s' := by
                  have := iterV_spent0 _ (fun s => Acc.rd (decPrim p) s) n s3
                  rw [h3] at this; exact this
                simp only [Acc, vcount, hcount]
                refine (SpentGE.trans hsp1 hsp2).weaken ?_
                have : n ≤ n * (3 + (primSize p).getD 1) := Nat.le_mul_of_pos_right _ (by omega)
                omega
            | sub d q =>
              rcases bind_sub_inv hx with h1 | ⟨_, s3, h1, h2⟩
              · exact absurd h1 (addCost_no_sub _ _ _ _)
              · split at h2
                · simp at h2
                · have h3 := rmap_sub_inv h2
                  have hsp1 := addCost_spent_zero s2 s3 _ _ h1
                  have := iterV_spent0 _ (fun s => Acc.rd (decPrim p) s) n s3
                  rw [h3] at this
                  exact DLe.trans_spent hsp1 this
            | err k => trivial
            | panic q => trivial
        · try simp only []
          split
          · rename_i wp hbig
            split
            · trivial
            · apply Acc.bind 0 (c2 := fun v => vcount v - 1) (Acc.addCost0 s2 _)
              · intro _ s3 _
                apply Acc.map
                refine Acc.weaken (iterV_acc _ (fun s => ?_) n s3) (fun vs => ?_)
                · split
                  · exact bigNum_nat_acc _ (fun m => by split <;> rfl) s
                  · exact bigNum_int_acc s
                · show vcount (Val.vec vs) - 1 ≤ vcountL vs
                  simp only [vcount]; omega
              · intro _; omega
          · apply Acc.map
            refine Acc.weaken (iterV_acc _ (fun s => ?_) n s2) (fun vs => ?_)
            · apply Acc.bind 0 (c2 := vcount) (Acc.addCost0 s 3)
              · intro _ s' _
                split
                · exact hi _ s'
                · exact ha _ _ s'
              · intro _; omega
            · show vcount (Val.vec vs) - 1 ≤ vcountL vs
              simp only [vcount]; omega
      · intro _; omega
  · exact Acc.subErr _ s1

/-- `variant`, after the caller's `add_cost(1)` -/
theorem deVariantCase_acc (vis : Visitor) (dAny : Ty → Ty → St → R Val) (dIgn : Ty → St → R Val)
    (ha : ∀ w e s, Acc vcount s (dAny w e s)) (hi : ∀ w s, Acc vcount s (dIgn w s)) (w : Ty) (efs : Fields) (s1 : St) :
    Acc (fun v => vcount v - 1) s1 (deVariantCase vis dAny dIgn w efs s1) := by
  unfold deVariantCase
  split
  · apply Acc.bind 0 (c2 := fun v => vcount v - 1) (Acc.rd _ s1)
    · intro idx s2 _
      split
      · trivial
      · split
        · exact Acc.subErr _ s2
        · apply Acc.bind 1 (c2 := fun v => vcount v - 2) (Acc.addCost1 s2 4 (by omega))
          · intro _ s3 _
            simp only []
            apply Acc.bind 0 (c2 := fun v => vcount v - 2) (Acc.addCost0 s3 _)
            · intro _ s4 _
              have hbind : ∀ (et' : Ty) (el' : Label) (wt' : Ty), Acc (fun v => vcount v - 2) s4
                  ((addCost s4 1).bind fun _ s5 =>
                    if vis = Visitor.ignored then (dIgn wt' s5).map fun _ => Val.null
                    else (dAny wt' et' s5).map fun v => Val.variant el' v idx) := by
                intro et' el' wt'
                apply Acc.bind 0 (c2 := fun v => vcount v - 2) (Acc.addCost0 s4 1)
                · intro _ s5 _
                  split
                  · apply Acc.map
                    exact (hi _ s5).weaken (fun _ => by simp [vcount])
                  · apply Acc.map
                    exact (ha _ _ s5).weaken (fun v => by show vcount (Val.variant el' v idx) - 2 ≤ vcount v; simp only [vcount]; omega)
                · intro _; omega
              split
              · split
                · split
                  · apply Acc.map
                    exact (Acc.addCost0 s4 1).weaken (fun _ => by simp [vcount])
                  · exact Acc.subErr _ s4
                · exact hbind _ _ _
              · rw [if_neg (by simp)]
                exact hbind _ _ _
            · intro _; omega
          · intro v; omega
    · intro _; omega
  · exact Acc.subErr _ s1


theorem vcountF_append : ∀ (a b : List (Label × Val)), vcountF (a ++ b) = vcountF a + vcountF b
  | [], b => by simp [vcountF]
  | (l, v) :: r, b => by simp [vcountF, vcountF_append r b]; omega
theorem vcountF_reverse : ∀ (a : List (Label × Val)), vcountF a.reverse = vcountF a
  | [] => rfl
  | (l, v) :: r => by simp [vcountF_append, vcountF, vcountF_reverse r]; omega
theorem vcountL_append : ∀ (a b : List Val), vcountL (a ++ b) = vcountL a + vcountL b
  | [], b => by simp [vcountL]
  | v :: r, b => by simp [vcountL, vcountL_append r b]; omega
theorem vcountL_reverse : ∀ (a : List Val), vcountL a.reverse = vcountL a
  | [] => rfl
  | v :: r => by simp [vcountL_append, vcountL, vcountL_reverse r]; omega

/-- what a run of `deFields` with accumulator `acc` still has to pay for: the fields it adds -/
def cntF (acc : List (Label × Val)) (v : Val) : Nat := vcount v - (1 + vcountF acc)

theorem deAnyBody_acc (env : Env) (vis : Visitor) (f : Nat)
    (dAny : Ty → Ty → St → R Val) (dIgn : Ty → St → R Val) (dRec : Ty → Ty → St → R Val)
    (dFld : List FieldStep → St → List (Label × Val) → R Val)
    (ha : ∀ w e s, Acc vcount s (dAny w e s)) (hi : ∀ w s, Acc vcount s (dIgn w s))
    (hr : ∀ w e s, Acc (fun v => vcount v - 1) s (dRec w e s))
    (hf : ∀ steps s acc, Acc (cntF acc) s (dFld steps s acc)) (w e : Ty) (st : St) :
    Acc vcount st (deAnyBody env vis f dAny dIgn dRec dFld w e st) := by
  unfold deAnyBody
  cases e with
  | prim p =>
    cases p <;> simp only []
    case int =>
      split
      · exact bigNum_int_acc st
      · exact bigNum_nat_acc _ (fun _ => rfl) st
      · exact Acc.subErr _ st
    case nat =>
      split
      · exact bigNum_nat_acc _ (fun _ => rfl) st
      · exact Acc.subErr _ st
    case text =>
      split
      · apply Acc.bind 1 (c2 := fun v => vcount v - 1) (lenBytes_acc st)
        · intro b s _
          split
          · exact Acc.ok0 _ _ _ rfl
          · trivial
        · intro v; have := vcount_pos v; omega
      · exact Acc.subErr _ st
    case reserved =>
      apply Acc.bind 0 (c2 := vcount)
      · split
        · exact (hi w st).weaken (fun _ => Nat.zero_le _)
        · exact SpentGE.refl st
      · intro _ s _
        exact Acc.map _ (Acc.addCost1 s 1 (by omega))
      · intro _; omega
    case empty =>
      split
      · trivial
      · exact Acc.subErr _ st
    all_goals exact dePrimExact_acc' _ _ (by omega) w _ st
  | principal =>
    simp only []
    split
    · exact Acc.map _ (dePrincipalBytes_acc st)
    · exact Acc.map _ (dePrincipalBytes_acc st)
    · exact Acc.subErr _ st
  | opt e2 =>
    simp only []
    apply Acc.bind 1 (c2 := fun v => vcount v - 1) (Acc.addCost1 st 1 (by omega))
    · intro _ s1 _; exact deOptCase_acc env f dRec hr w e2 s1
    · intro v; have := vcount_pos v; omega
  | vec ee =>
    simp only []
    split
    · exact deBlobCase_acc env w st
    · apply Acc.bind 1 (c2 := fun v => vcount v - 1) (Acc.addCost1 st 1 (by omega))
      · intro _ s1 _; exact deVecCase_acc env vis f dAny dIgn ha hi w ee s1
      · intro v; have := vcount_pos v; omega
  | record efs =>
    simp only []
    apply Acc.bind 1 (c2 := fun v => vcount v - 1) (Acc.addCost1 st 1 (by omega))
    · intro _ s1 _
      split
      · exact (hf _ s1 []).weaken (fun v => by simp [cntF, vcountF])
      · exact Acc.subErr _ s1
    · intro v; have := vcount_pos v; omega
  | variant efs =>
    simp only []
    apply Acc.bind 1 (c2 := fun v => vcount v - 1) (Acc.addCost1 st 1 (by omega))
    · intro _ s1 _; exact deVariantCase_acc vis dAny dIgn ha hi w efs s1
    · intro v; have := vcount_pos v; omega
  | service ms =>
    simp only []
    apply Acc.bind 0 (c2 := vcount) (checkSubtype_acc env w _ st)
    · intro _ s1 _
      split
      · exact Acc.map _ (dePrincipalBytes_acc s1)
      · exact Acc.subErr _ s1
    · intro _; omega
  | func a r m =>
    simp only []
    apply Acc.bind 0 (c2 := vcount) (checkSubtype_acc env w _ st)
    · intro _ s1 _; exact deFuncCase_acc w s1
    · intro _; omega
  | future =>
    simp only []
    apply Acc.bind 0 (c2 := vcount) (Acc.rd _ st)
    · intro n s1 _
      apply Acc.bind 1 (c2 := fun v => vcount v - 1) (Acc.addCost1 s1 _ (by unfold usizeMax; omega))
      · intro _ s2 _
        apply Acc.bind 0 (c2 := fun v => vcount v - 1) (Acc.rd _ s2)
        · intro _ s3 _
          exact Acc.map _ (Acc.rd _ s3)
        · intro _; omega
      · intro v; have := vcount_pos v; omega
    · intro _; omega
  | var x => trivial
  | knot k => trivial
  | unknown => trivial
  | cls a t => trivial


theorem cntF_step (acc : List (Label × Val)) (l : Label) (a b : Val) : cntF acc b ≤ vcount a + cntF ((l, a) :: acc) b := by
  simp only [cntF, vcountF]; omega

theorem deFields_step_acc (env : Env) (vis : Visitor) (f : Nat)
    (ha : ∀ vis w e s, Acc vcount s (deAny env vis f w e s)) (hi : ∀ w s, Acc vcount s (deIgnored env f w s))
    (hf : ∀ vis steps s acc, Acc (cntF acc) s (deFields env vis f steps s acc))
    (steps : List FieldStep) (st : St) (acc : List (Label × Val)) :
    Acc (cntF acc) st (deFields env vis (f + 1) steps st acc) := by
  cases steps with
  | nil =>
    unfold deFields
    apply Acc.map
    exact (Acc.addCost0 st 4).weaken (fun _ => by simp [cntF, vcount, vcountF_reverse])
  | cons step rest =>
    unfold deFields
    apply Acc.bind 0 (c2 := cntF acc) (Acc.addCost0 st 4)
    · intro _ s1 _
      cases step with
      | both l et wt =>
        simp only []
        apply Acc.bind 0 (c2 := cntF acc) (Acc.addCost0 s1 _)
        · intro _ s2 _
          apply Acc.bind 0 (c2 := cntF acc) (Acc.addCost0 s2 1)
          · intro _ s3 _
            apply Acc.bind' (c1 := vcount) (c2 := fun v b => cntF ((l, v) :: acc) b) (c := cntF acc)
            · split
              · exact hi _ s3
              · exact ha _ _ _ s3
            · intro v s4 _; exact hf _ _ s4 _
            · intro a b; exact cntF_step acc l a b
          · intro _; omega
        · intro _; omega
      | expectOnly l et =>
        simp only []
        split
        · trivial
        · split
          · exact Acc.subErr _ s1
          · apply Acc.bind 0 (c2 := cntF acc) (Acc.addCost0 s1 _)
            · intro _ s2 _
              apply Acc.bind 0 (c2 := cntF acc) (Acc.addCost0 s2 1)
              · intro _ s3 _
                apply Acc.bind' (c1 := vcount) (c2 := fun v b => cntF ((l, v) :: acc) b) (c := cntF acc) (ha _ _ _ s3)
                · intro v s4 _; exact hf _ _ s4 _
                · intro a b; exact cntF_step acc l a b
              · intro _; omega
            · intro _; omega
      | expectTail l et =>
        simp only []
        apply Acc.bind 0 (c2 := cntF acc) (Acc.addCost0 s1 _)
        · intro _ s2 _
          apply Acc.bind 0 (c2 := cntF acc) (Acc.addCost0 s2 1)
          · intro _ s3 _
            apply Acc.bind' (c1 := vcount) (c2 := fun v b => cntF ((l, v) :: acc) b) (c := cntF acc) (ha _ _ _ s3)
            · intro v s4 _; exact hf _ _ s4 _
            · intro a b; exact cntF_step acc l a b
          · intro _; omega
        · intro _; omega
      | wireOnly wt =>
        simp only []
        apply Acc.bind 0 (c2 := cntF acc) (Acc.addCost0 s1 1)
        · intro _ s2 _
          apply Acc.bind 0 (c2 := cntF acc) (Acc.addCost0 s2 1)
          · intro _ s3 _
            apply Acc.bind 0 (c2 := cntF acc) ((ha _ _ _ s3).weaken (fun _ => Nat.zero_le _))
            · intro v s4 _; exact hf _ _ s4 _
            · intro _; omega
          · intro _; omega
        · intro _; omega
    · intro _; omega

/-- **every entry point spends at least the number of values it materialises** -/
theorem de_acc (env : Env) : ∀ fuel : Nat,
    (∀ vis w e s, Acc vcount s (deAny env vis fuel w e s)) ∧ (∀ w s, Acc vcount s (deIgnored env fuel w s)) ∧
    (∀ vis w e s, Acc (fun v => vcount v - 1) s (recoverable env vis fuel w e s)) ∧
    (∀ vis steps s acc, Acc (cntF acc) s (deFields env vis fuel steps s acc)) := by
  intro fuel
  induction fuel with
  | zero =>
    refine ⟨?_, ?_, ?_, ?_⟩
    · intro vis w e s; rw [deAny_zero]; trivial
    · intro w s; rw [deIgnored_zero]; trivial
    · intro vis w e s; rw [recoverable_zero]; trivial
    · intro vis steps s acc; rw [deFields_zero]; trivial
  | succ f ih =>
    obtain ⟨ihAny, ihIgn, ihRec, ihFld⟩ := ih
    refine ⟨?_, ?_, ?_, ?_⟩
    · intro vis w0 e0 s
      rw [deAny_succ]
      apply Acc.bind 0 (c2 := vcount) (unroll_acc env f w0 e0 s)
      · intro we s1 _
        exact deAnyBody_acc env vis f _ _ _ _ (ihAny vis) ihIgn (ihRec vis) (ihFld vis) _ _ s1
      · intro _; omega
    · intro w s
      rw [deIgnored_succ]
      apply Acc.bind' (c1 := vcount) (c2 := fun v b => vcount b - vcount v) (c := vcount)
      · exact (ihAny .ignored w w { s with untyped := true }).of_dq rfl
      · intro v s1 _
        show Acc (fun b => vcount b - vcount v) s1 (R.ok v { s1 with untyped := s.untyped })
        simp only [Acc, Nat.sub_self]
        exact (SpentGE.refl s1).of_dq_eq rfl rfl
      · intro a b; omega
    · intro vis w e s
      rw [recoverable_succ]
      have hinner : Acc vcount s (if vis = Visitor.ignored then deIgnored env f w s else deAny env vis f w e s) := by
        split
        · exact ihIgn w s
        · exact ihAny vis w e s
      cases hx : (if vis = Visitor.ignored then deIgnored env f w s else deAny env vis f w e s) with
      | ok v s1 =>
        rw [hx] at hinner
        simp only [Acc] at hinner ⊢
        exact hinner.weaken (by simp [vcount])
      | sub dq sq =>
        rw [hx] at hinner
        simp only []
        -- the quota the failure carries is not above the start: continue from there
        have hd : DLe dq s := hinner
        have hstart : SpentGE 0 s { s with dq := dq, sq := sq } := by
          unfold DLe at hd; unfold SpentGE
          cases hs : s.dq <;> cases dq <;> simp_all
        have hrest : Acc (fun v => vcount v - 1) { s with dq := dq, sq := sq }
            ((addCost { s with dq := dq, sq := sq } 10).bind fun _ s1 => (deIgnored env f w s1).map fun _ => Val.none) := by
          apply Acc.bind 0 (c2 := fun v => vcount v - 1) (Acc.addCost0 _ 10)
          · intro _ s1 _
            apply Acc.map
            exact (ihIgn w s1).weaken (fun _ => by simp [vcount])
          · intro _; omega
        cases hy : ((addCost { s with dq := dq, sq := sq } 10).bind fun _ s1 => (deIgnored env f w s1).map fun _ => Val.none) with
        | ok v s2 =>
          rw [hy] at hrest
          simp only [Acc] at hrest ⊢
          exact (SpentGE.trans hstart hrest).weaken (by omega)
        | sub d2 q2 =>
          rw [hy] at hrest
          simp only [Acc] at hrest ⊢
          exact DLe.trans_spent hstart hrest
        | err k => trivial
        | panic p => trivial
      | err k => trivial
      | panic p => trivial
    · intro vis steps s acc
      exact deFields_step_acc env vis f ihAny ihIgn ihFld steps s acc

theorem drain_acc (env : Env) : ∀ (ws : List Ty) (st : St), Acc (fun _ => 0) st (argLoop.drain env ws st) := by
  intro ws
  induction ws with
  | nil => intro st; unfold argLoop.drain; exact SpentGE.refl st
  | cons w ws ih =>
    intro st
    unfold argLoop.drain
    apply Acc.bind 0 (c2 := fun _ => 0)
    · exact (((de_acc env defaultFuel).2.1 w { st with untyped := false }).weaken (fun _ => Nat.zero_le _)).of_dq rfl
    · intro _ s' _; exact ih s'
    · intro _; omega

theorem argLoop_acc (env : Env) : ∀ (es ws : List Ty) (st : St) (acc : List Val),
    Acc (fun vs => vcountL vs - vcountL acc) st (argLoop env es ws st acc) := by
  intro es
  induction es with
  | nil =>
    intro ws st acc
    unfold argLoop
    apply Acc.bind 0 (c2 := fun vs => vcountL vs - vcountL acc) (drain_acc env ws st)
    · intro _ s _
      split
      · simp only [Acc, vcountL_reverse, Nat.sub_self]; exact SpentGE.refl s
      · trivial
    · intro _; omega
  | cons e es ih =>
    intro ws st acc
    unfold argLoop
    simp only []
    split
    · trivial
    · split
      · split
        · apply Acc.bind' (c1 := vcount) (c2 := fun v b => vcountL b - vcountL (v :: acc)) (c := fun vs => vcountL vs - vcountL acc)
          · exact ((de_acc env defaultFuel).1 .idl _ _ { st with untyped := true }).of_dq rfl
          · intro v s _; exact ih [] s (v :: acc)
          · intro a b; simp only [vcountL]; omega
        · trivial
      · apply Acc.bind' (c1 := vcount) (c2 := fun v b => vcountL b - vcountL (v :: acc)) (c := fun vs => vcountL vs - vcountL acc)
        · exact ((de_acc env defaultFuel).1 .idl _ _ { st with untyped := true }).of_dq rfl
        · intro v s _; exact ih _ s (v :: acc)
        · intro a b; simp only [vcountL]; omega

/-- **The cost of a successful decode is at least the number of values it returns**: with a decoding quota `n`
configured, a run that returns `vs` leaves `r` with `r + (number of value nodes in vs) ≤ n`.  Zero-sized elements are
not free, and a quota bounds what a decode can materialise. -/
theorem decode_cost_ge_values (bs : Bytes) (env : Env) (expected : List Ty) (n : Nat) (sq : Option Nat)
    (vs : List Val) (st : St) (h : decodeWithConfig bs env expected ⟨some n, sq⟩ = .ok vs st) :
    ∃ r, st.dq = some r ∧ r + vcountL vs ≤ n := by
  unfold decodeWithConfig at h
  cases hp : parseHeader bs with
  | err k => rw [hp] at h; simp at h
  | panic q => rw [hp] at h; simp at h
  | ok x =>
    obtain ⟨hd, body⟩ := x
    rw [hp] at h
    simp only [] at h
    generalize (if expected.isEmpty = true then (hd.table, expected) else mergeEnv hd.table env expected) = we at h
    obtain ⟨full, expected'⟩ := we
    simp only [] at h
    have hacc : Acc (fun vs => vcountL vs) { input := body, gamma := [], dq := some n, sq := sq, untyped := false }
        ((addCost { input := body, gamma := [], dq := some n, sq := sq, untyped := false } ((bs.length - body.length) * 4)).bind
          fun _ st1 => argLoop full expected' hd.args st1 []) := by
      apply Acc.bind 0 (c2 := fun vs => vcountL vs) (Acc.addCost0 _ _)
      · intro _ s1 _
        exact (argLoop_acc full expected' hd.args s1 []).weaken (fun vs => by simp [vcountL])
      · intro _; omega
    rw [h] at hacc
    simp only [Acc, SpentGE] at hacc
    cases hq : st.dq with
    | none => rw [hq] at hacc; exact absurd hacc (by simp)
    | some r => rw [hq] at hacc; exact ⟨r, rfl, hacc⟩

end Candid.De
