import CandidModel.Proofs.SubSound
/- helper lemmas for C05: the subtype checker never answers "no" on a pair of the specification relation — what is
   left of completeness once the depth budget is set aside (it answers "yes", or runs out of budget) -/
namespace Candid.Sub
open Candid

theorem allM_ne_no {α : Type} (f : Gamma → α → Res) : ∀ (l : List α) (g : Gamma),
    (∀ g x, x ∈ l → f g x ≠ .no) → allM f g l ≠ .no := by
  intro l
  induction l with
  | nil => intro g _; simp [allM]
  | cons x xs ih =>
    intro g h
    simp only [allM]
    cases hx : f g x with
    | yes g' => simp only []; exact ih g' (fun g y hy => h g y (by simp [hy]))
    | no => exact absurd hx (h g x (by simp))
    | out => simp
    | panic p => simp

theorem trace_of_recFind (env : Env) : ∀ (k : Nat) (x : String) (d : Ty), recFind env k x = some d →
    ∃ t, env.trace (k + 1) (.var x) = some t := by
  intro k
  induction k with
  | zero => intro x d h; simp [recFind] at h
  | succ k ih =>
    intro x d h
    simp only [recFind] at h
    simp only [Env.trace]
    cases hf : env.find x with
    | none => rw [hf] at h; simp at h
    | some t =>
      rw [hf] at h
      simp only []
      cases t with
      | var y => simp only [] at h; exact ih y d h
      | _ => exact ⟨_, rfl⟩

theorem traceFull_of_safe (env : Env) (t : Ty) (h : safeTy env t = true) : ∃ t', traceFull env t = some t' := by
  cases t with
  | var x =>
    simp only [safeTy] at h
    cases hr : recFindFull env x with
    | none => rw [hr] at h; simp at h
    | some d =>
      obtain ⟨t', ht'⟩ := trace_of_recFind env _ x d hr
      exact ⟨t', traceFull_of_trace env _ _ t' ht'⟩
  | _ => exact ⟨_, rfl⟩


/-- a pair of the relation whose left side is a name unfolds through that name -/
theorem sub_var_left {env : Env} {x : String} {b d : Ty} (h : Sub env (.var x) b) (hne : (.var x : Ty) ≠ b)
    (hd : recFindFull env x = some d) : Sub env d b := by
  have hF := sub_unfold h
  unfold F at hF
  rcases hF with h1 | h1 | h1 | h1 | h1 | h1 | h1 | h1 | h1 | h1 | h1 | h1 | h1 | h1 | h1
  · exact absurd h1 hne
  · subst h1; exact sub_coind (fun _ b => b = .prim .reserved) (fun _ _ h => Or.inr (Or.inl h)) _ _ rfl
  · simp at h1
  · simp at h1
  · obtain ⟨_, h2, _⟩ := h1; simp at h2
  · obtain ⟨_, _, h2⟩ := h1; simp [isName] at h2
  · obtain ⟨_, _, h2, _⟩ := h1; simp at h2
  · obtain ⟨_, _, h2, _⟩ := h1; simp at h2
  · obtain ⟨_, _, h2, _⟩ := h1; simp at h2
  · obtain ⟨_, _, _, _, _, _, h2, _⟩ := h1; simp at h2
  · obtain ⟨_, _, h2, _⟩ := h1; simp at h2
  · obtain ⟨y, d', h2, h3, h4⟩ := h1
    simp only [Ty.var.injEq] at h2
    subst h2
    rw [hd] at h3
    simp only [Option.some.injEq] at h3
    subst h3
    exact h4
  · obtain ⟨_, _, _, h2, _⟩ := h1; simp [isName] at h2
  · obtain ⟨_, _, h2, _⟩ := h1; simp at h2
  · obtain ⟨_, _, _, h2, _⟩ := h1; simp [isName] at h2

/-- a pair of the relation whose right side is a name, and whose left side is not, unfolds through that name -/
theorem sub_var_right {env : Env} {a : Ty} {x : String} {d : Ty} (h : Sub env a (.var x)) (hne : a ≠ .var x)
    (hna : isName a = false) (hd : recFindFull env x = some d) : Sub env a d := by
  have hF := sub_unfold h
  unfold F at hF
  rcases hF with h1 | h1 | h1 | h1 | h1 | h1 | h1 | h1 | h1 | h1 | h1 | h1 | h1 | h1 | h1
  · exact absurd h1 hne
  · simp at h1
  · subst h1; exact sub_coind (fun a _ => a = .prim .empty) (fun _ _ h => Or.inr (Or.inr (Or.inl h))) _ _ rfl
  · simp at h1
  · obtain ⟨_, _, h2⟩ := h1; simp at h2
  · obtain ⟨_, h2, _⟩ := h1; simp at h2
  · obtain ⟨_, _, _, h2, _⟩ := h1; simp at h2
  · obtain ⟨_, _, _, h2, _⟩ := h1; simp at h2
  · obtain ⟨_, _, _, h2, _⟩ := h1; simp at h2
  · obtain ⟨_, _, _, _, _, _, _, h2, _⟩ := h1; simp at h2
  · obtain ⟨_, _, _, h2, _⟩ := h1; simp at h2
  · obtain ⟨_, _, h2, _⟩ := h1; subst h2; simp [isName] at hna
  · obtain ⟨y, d', h2, _, h3, h4⟩ := h1
    simp only [Ty.var.injEq] at h2
    subst h2
    rw [hd] at h3
    simp only [Option.some.injEq] at h3
    subst h3
    exact h4
  · obtain ⟨_, _, _, h2, _⟩ := h1; simp [isName] at h2
  · obtain ⟨_, _, h2, _⟩ := h1; simp at h2


theorem sub_vec_inv {env : Env} {a' b' : Ty} (h : Sub env (.vec a') (.vec b')) (hne : (.vec a' : Ty) ≠ .vec b') :
    Sub env a' b' := by
  have hF := sub_unfold h
  unfold F at hF
  rcases hF with h1 | h1 | h1 | h1 | h1 | h1 | h1 | h1 | h1 | h1 | h1 | h1 | h1 | h1 | h1
  · exact absurd h1 hne
  · simp at h1
  · simp at h1
  · simp at h1
  · obtain ⟨_, h2, _⟩ := h1; simp at h2
  · obtain ⟨_, h2, _⟩ := h1; simp at h2
  · obtain ⟨x, y, h2, h3, h4⟩ := h1
    simp only [Ty.vec.injEq] at h2 h3
    subst h2; subst h3; exact h4
  · obtain ⟨_, _, h2, _⟩ := h1; simp at h2
  · obtain ⟨_, _, h2, _⟩ := h1; simp at h2
  · obtain ⟨_, _, _, _, _, _, h2, _⟩ := h1; simp at h2
  · obtain ⟨_, _, h2, _⟩ := h1; simp at h2
  · obtain ⟨_, _, h2, _⟩ := h1; simp at h2
  · obtain ⟨_, _, h2, _⟩ := h1; simp at h2
  · obtain ⟨_, _, h2, _⟩ := h1; simp at h2
  · obtain ⟨_, _, h2, _⟩ := h1; simp at h2

theorem sub_record_inv {env : Env} {fs1 fs2 : Fields} (h : Sub env (.record fs1) (.record fs2))
    (hne : (.record fs1 : Ty) ≠ .record fs2) :
    ∀ p ∈ fs2.toList, match lookupF fs1 p.1.getId with
      | some t1 => Sub env t1 p.2
      | none => optLike env p.2 = true := by
  have hF := sub_unfold h
  unfold F at hF
  rcases hF with h1 | h1 | h1 | h1 | h1 | h1 | h1 | h1 | h1 | h1 | h1 | h1 | h1 | h1 | h1
  · exact absurd h1 hne
  · simp at h1
  · simp at h1
  · simp at h1
  · obtain ⟨_, h2, _⟩ := h1; simp at h2
  · obtain ⟨_, h2, _⟩ := h1; simp at h2
  · obtain ⟨_, _, h2, _⟩ := h1; simp at h2
  · obtain ⟨x, y, h2, h3, h4⟩ := h1
    simp only [Ty.record.injEq] at h2 h3
    subst h2; subst h3; exact h4
  · obtain ⟨_, _, h2, _⟩ := h1; simp at h2
  · obtain ⟨_, _, _, _, _, _, h2, _⟩ := h1; simp at h2
  · obtain ⟨_, _, h2, _⟩ := h1; simp at h2
  · obtain ⟨_, _, h2, _⟩ := h1; simp at h2
  · obtain ⟨_, _, h2, _⟩ := h1; simp at h2
  · obtain ⟨_, _, h2, _⟩ := h1; simp at h2
  · obtain ⟨_, _, h2, _⟩ := h1; simp at h2

theorem sub_variant_inv {env : Env} {fs1 fs2 : Fields} (h : Sub env (.variant fs1) (.variant fs2))
    (hne : (.variant fs1 : Ty) ≠ .variant fs2) :
    ∀ p ∈ fs1.toList, match lookupF fs2 p.1.getId with
      | some t2 => Sub env p.2 t2
      | none => False := by
  have hF := sub_unfold h
  unfold F at hF
  rcases hF with h1 | h1 | h1 | h1 | h1 | h1 | h1 | h1 | h1 | h1 | h1 | h1 | h1 | h1 | h1
  · exact absurd h1 hne
  · simp at h1
  · simp at h1
  · simp at h1
  · obtain ⟨_, h2, _⟩ := h1; simp at h2
  · obtain ⟨_, h2, _⟩ := h1; simp at h2
  · obtain ⟨_, _, h2, _⟩ := h1; simp at h2
  · obtain ⟨_, _, h2, _⟩ := h1; simp at h2
  · obtain ⟨x, y, h2, h3, h4⟩ := h1
    simp only [Ty.variant.injEq] at h2 h3
    subst h2; subst h3; exact h4
  · obtain ⟨_, _, _, _, _, _, h2, _⟩ := h1; simp at h2
  · obtain ⟨_, _, h2, _⟩ := h1; simp at h2
  · obtain ⟨_, _, h2, _⟩ := h1; simp at h2
  · obtain ⟨_, _, h2, _⟩ := h1; simp at h2
  · obtain ⟨_, _, h2, _⟩ := h1; simp at h2
  · obtain ⟨_, _, h2, _⟩ := h1; simp at h2

theorem sub_service_inv {env : Env} {ms1 ms2 : Meths} (h : Sub env (.service ms1) (.service ms2))
    (hne : (.service ms1 : Ty) ≠ .service ms2) :
    ∀ p ∈ ms2.toList, match lookupM ms1 p.1 with
      | some t1 => Sub env t1 p.2
      | none => False := by
  have hF := sub_unfold h
  unfold F at hF
  rcases hF with h1 | h1 | h1 | h1 | h1 | h1 | h1 | h1 | h1 | h1 | h1 | h1 | h1 | h1 | h1
  · exact absurd h1 hne
  · simp at h1
  · simp at h1
  · simp at h1
  · obtain ⟨_, _, h2⟩ := h1; simp at h2
  · obtain ⟨_, h2, _⟩ := h1; simp at h2
  · obtain ⟨_, _, h2, _⟩ := h1; simp at h2
  · obtain ⟨_, _, h2, _⟩ := h1; simp at h2
  · obtain ⟨_, _, h2, _⟩ := h1; simp at h2
  · obtain ⟨_, _, _, _, _, _, h2, _⟩ := h1; simp at h2
  · obtain ⟨x, y, h2, h3, h4⟩ := h1
    simp only [Ty.service.injEq] at h2 h3
    subst h2; subst h3; exact h4
  · obtain ⟨_, _, h2, _⟩ := h1; simp at h2
  · obtain ⟨_, _, h2, _⟩ := h1; simp at h2
  · obtain ⟨_, _, h2, _⟩ := h1; simp at h2
  · obtain ⟨_, _, h2, _⟩ := h1; simp at h2

theorem sub_func_inv {env : Env} {a1 r1 a2 r2 : Tys} {m1 m2 : List FuncMode} (h : Sub env (.func a1 r1 m1) (.func a2 r2 m2))
    (hne : (.func a1 r1 m1 : Ty) ≠ .func a2 r2 m2) :
    m1 = m2 ∧ Sub env (tupleTy a2) (tupleTy a1) ∧ Sub env (tupleTy r1) (tupleTy r2) := by
  have hF := sub_unfold h
  unfold F at hF
  rcases hF with h1 | h1 | h1 | h1 | h1 | h1 | h1 | h1 | h1 | h1 | h1 | h1 | h1 | h1 | h1
  · exact absurd h1 hne
  · simp at h1
  · simp at h1
  · simp at h1
  · obtain ⟨_, h2, _⟩ := h1; simp at h2
  · obtain ⟨_, h2, _⟩ := h1; simp at h2
  · obtain ⟨_, _, h2, _⟩ := h1; simp at h2
  · obtain ⟨_, _, h2, _⟩ := h1; simp at h2
  · obtain ⟨_, _, h2, _⟩ := h1; simp at h2
  · obtain ⟨x1, y1, z1, x2, y2, z2, h2, h3, h4, h5, h6⟩ := h1
    simp only [Ty.func.injEq] at h2 h3
    obtain ⟨rfl, rfl, rfl⟩ := h2
    obtain ⟨rfl, rfl, rfl⟩ := h3
    exact ⟨h4, h5, h6⟩
  · obtain ⟨_, _, h2, _⟩ := h1; simp at h2
  · obtain ⟨_, _, h2, _⟩ := h1; simp at h2
  · obtain ⟨_, _, h2, _⟩ := h1; simp at h2
  · obtain ⟨_, _, h2, _⟩ := h1; simp at h2
  · obtain ⟨_, _, h2, _⟩ := h1; simp at h2


theorem sub_cls_left {env : Env} {args : Tys} {t b : Ty} (h : Sub env (.cls args t) b) (hne : (.cls args t : Ty) ≠ b)
    (hres : b ≠ .prim .reserved) (hopt : ∀ b', b ≠ .opt b') (hnb : isName b = false) : Sub env t b := by
  have hF := sub_unfold h
  unfold F at hF
  rcases hF with h1 | h1 | h1 | h1 | h1 | h1 | h1 | h1 | h1 | h1 | h1 | h1 | h1 | h1 | h1
  · exact absurd h1 hne
  · exact absurd h1 hres
  · simp at h1
  · simp at h1
  · obtain ⟨_, h2, _⟩ := h1; simp at h2
  · obtain ⟨b', h2, _⟩ := h1; exact absurd h2 (hopt b')
  · obtain ⟨_, _, h2, _⟩ := h1; simp at h2
  · obtain ⟨_, _, h2, _⟩ := h1; simp at h2
  · obtain ⟨_, _, h2, _⟩ := h1; simp at h2
  · obtain ⟨_, _, _, _, _, _, h2, _⟩ := h1; simp at h2
  · obtain ⟨_, _, h2, _⟩ := h1; simp at h2
  · obtain ⟨_, _, h2, _⟩ := h1; simp at h2
  · obtain ⟨_, _, h2, _⟩ := h1; subst h2; simp [isName] at hnb
  · obtain ⟨x, y, h2, _, h3⟩ := h1
    simp only [Ty.cls.injEq] at h2
    obtain ⟨rfl, rfl⟩ := h2
    exact h3
  · obtain ⟨_, _, _, _, h2, _⟩ := h1; exact absurd rfl (h2 args t)

theorem sub_cls_right {env : Env} {a : Ty} {args : Tys} {t : Ty} (h : Sub env a (.cls args t)) (hne : a ≠ .cls args t)
    (hemp : a ≠ .prim .empty) (hncls : ∀ args' t', a ≠ .cls args' t') (hna : isName a = false) : Sub env a t := by
  have hF := sub_unfold h
  unfold F at hF
  rcases hF with h1 | h1 | h1 | h1 | h1 | h1 | h1 | h1 | h1 | h1 | h1 | h1 | h1 | h1 | h1
  · exact absurd h1 hne
  · simp at h1
  · exact absurd h1 hemp
  · simp at h1
  · obtain ⟨_, _, h2⟩ := h1; simp at h2
  · obtain ⟨_, h2, _⟩ := h1; simp at h2
  · obtain ⟨_, _, _, h2, _⟩ := h1; simp at h2
  · obtain ⟨_, _, _, h2, _⟩ := h1; simp at h2
  · obtain ⟨_, _, _, h2, _⟩ := h1; simp at h2
  · obtain ⟨_, _, _, _, _, _, _, h2, _⟩ := h1; simp at h2
  · obtain ⟨_, _, _, h2, _⟩ := h1; simp at h2
  · obtain ⟨_, _, h2, _⟩ := h1; subst h2; simp [isName] at hna
  · obtain ⟨_, _, h2, _⟩ := h1; simp at h2
  · obtain ⟨x, y, h2, _⟩ := h1; exact absurd h2 (hncls x y)
  · obtain ⟨x, y, h2, _, _, h3⟩ := h1
    simp only [Ty.cls.injEq] at h2
    obtain ⟨rfl, rfl⟩ := h2
    exact h3

/-- **the checker never rejects a pair of the specification relation**: on safe types it answers "yes", or runs out of
its depth budget — never "no" -/
theorem subAlg_never_rejects (env : Env) (hse : SafeEnv env) : ∀ (n : Nat) (g : Gamma) (a b : Ty),
    safeTy env a = true → safeTy env b = true → Sub env a b → subAlg env n g a b ≠ .no := by
  intro n
  induction n with
  | zero => intro g a b _ _ _; simp [subAlg]
  | succ n ih =>
    intro g a b ha hb hsub
    unfold subAlg
    split
    · simp
    · rename_i hab
      split
      · -- a name on one side
        split
        · simp
        · split
          · -- left is a name
            rename_i x
            split
            · simp
            · rename_i d hd
              exact ih _ d b (safe_of_recFindFull env hse _ d hd) hb (sub_var_left hsub hab hd)
          · -- right is a name, left is not a `var`
            rename_i x hnv
            split
            · simp
            · rename_i d hd
              have hna : isName a = false := by
                cases a <;> simp_all [isName, safeTy]
              exact ih _ a d ha (safe_of_recFindFull env hse _ d hd) (sub_var_right hsub hab hna hd)
          · simp
      · -- structural rules
        rename_i hnames
        have hna : isName a = false := by
          cases hx : isName a with
          | false => rfl
          | true => exact absurd (Or.inl hx) hnames
        have hnb : isName b = false := by
          cases hx : isName b with
          | false => rfl
          | true => exact absurd (Or.inr hx) hnames
        have hprobe : ∀ (r : Res) (g0 : Gamma) (t : Ty), safeTy env t = true →
            (match probe r g0 with
              | (ok, g') => if ok = true ∧ (traceFull env t).isNone = true then Res.no else Res.yes g') ≠ Res.no := by
          intro r g0 t ht
          obtain ⟨t', ht'⟩ := traceFull_of_safe env t ht
          rw [ht']
          cases r <;> simp [probe]
        split
        case h_1 => simp
        case h_2 => simp
        case h_3 => simp
        case h_4 => simp
        case h_5 =>
          simp only [safeTy] at ha hb
          exact ih _ _ _ ha hb (sub_vec_inv hsub hab)
        case h_6 => simp
        case h_7 =>
          simp only [safeTy] at hb
          rename_i a' b'
          cases h1 : probe (subAlg env n g a' b') g with
          | mk ok g' =>
            simp only []
            cases ok with
            | true => simp
            | false =>
              simp only [Bool.false_eq_true, if_false]
              exact hprobe _ _ _ hb
        case h_8 =>
          simp only [safeTy] at hb
          exact hprobe _ _ _ hb
        case h_9 =>
          rename_i fs1 fs2
          simp only [safeTy] at ha hb
          have hinv := sub_record_inv hsub hab
          apply allM_ne_no
          intro g0 p hp
          have hpi := hinv p hp
          cases hl : lookupF fs1 p.1.getId with
          | some t1 =>
            rw [hl] at hpi
            simp only [] at hpi ⊢
            exact ih _ _ _ (lookupF_safe env fs1 _ t1 ha hl) (fields_mem_safe env fs2 p hb hp) hpi
          | none =>
            rw [hl] at hpi
            simp only [] at hpi ⊢
            unfold optLike at hpi
            cases ht : traceFull env p.2 with
            | none => rw [ht] at hpi; simp at hpi
            | some t' => rw [ht] at hpi; simp only [] at hpi ⊢; rw [if_pos hpi]; simp
        case h_10 =>
          rename_i fs1 fs2
          simp only [safeTy] at ha hb
          have hinv := sub_variant_inv hsub hab
          apply allM_ne_no
          intro g0 p hp
          have hpi := hinv p hp
          cases hl : lookupF fs2 p.1.getId with
          | some t2 =>
            rw [hl] at hpi
            simp only [] at hpi ⊢
            exact ih _ _ _ (fields_mem_safe env fs1 p ha hp) (lookupF_safe env fs2 _ t2 hb hl) hpi
          | none => rw [hl] at hpi; exact absurd hpi (by simp)
        case h_11 =>
          rename_i ms1 ms2
          simp only [safeTy] at ha hb
          have hinv := sub_service_inv hsub hab
          apply allM_ne_no
          intro g0 p hp
          have hpi := hinv p hp
          cases hl : lookupM ms1 p.1 with
          | some t1 =>
            rw [hl] at hpi
            simp only [] at hpi ⊢
            exact ih _ _ _ (lookupM_safe env ms1 _ t1 ha hl) (meths_mem_safe env ms2 p hb hp) hpi
          | none => rw [hl] at hpi; exact absurd hpi (by simp)
        case h_12 =>
          simp only [safeTy, Bool.and_eq_true] at ha hb
          obtain ⟨hm, hargs, hrets⟩ := sub_func_inv hsub hab
          rw [if_neg (by simpa using hm)]
          have h1 := ih g _ _ (tupleTy_safe env _ hb.1) (tupleTy_safe env _ ha.1) hargs
          split
          · exact ih _ _ _ (tupleTy_safe env _ ha.2) (tupleTy_safe env _ hb.2) hrets
          · rename_i r hr
            intro hc
            exact h1 hc
        case h_13 =>
          rename_i hres hopt
          simp only [safeTy, Bool.and_eq_true] at ha
          exact ih _ _ _ ha.2 hb (sub_cls_left hsub hab (fun h => hres h) (fun b' h => hopt b' h) hnb)
        case h_14 =>
          rename_i hemp hncls
          simp only [safeTy, Bool.and_eq_true] at hb
          exact ih _ _ _ ha hb.2 (sub_cls_right hsub hab (fun h => hemp h) (fun x y h => hncls x y h) hna)
        case h_15 => simp
        case h_16 => simp
        case h_17 =>
          rename_i hemp hcls hunk hres hopt hclsb hunkb hnatint hservp hvec hnullopt hoptopt hrec hvar hserv hfunc
          exfalso
          have hF := sub_unfold hsub
          unfold F at hF
          rcases hF with h1 | h1 | h1 | h1 | h1 | h1 | h1 | h1 | h1 | h1 | h1 | h1 | h1 | h1 | h1
          · exact hab h1
          · exact hres h1
          · exact hemp h1
          · exact hnatint h1.1 h1.2
          · obtain ⟨ms, e1, e2⟩ := h1; exact hservp ms e1 e2
          · obtain ⟨b', e1, _⟩ := h1; exact hopt b' e1
          · obtain ⟨a', b', e1, e2, _⟩ := h1; exact hvec a' b' e1 e2
          · obtain ⟨f1, f2, e1, e2, _⟩ := h1; exact hrec f1 f2 e1 e2
          · obtain ⟨f1, f2, e1, e2, _⟩ := h1; exact hvar f1 f2 e1 e2
          · obtain ⟨a1, r1, m1, a2, r2, m2, e1, e2, _⟩ := h1; exact hfunc a1 r1 m1 a2 r2 m2 e1 e2
          · obtain ⟨m1, m2, e1, e2, _⟩ := h1; exact hserv m1 m2 e1 e2
          · obtain ⟨x, d, e1, _⟩ := h1; subst e1; simp [isName] at hna
          · obtain ⟨x, d, e1, _⟩ := h1; subst e1; simp [isName] at hnb
          · obtain ⟨x, t, e1, _⟩ := h1; exact hcls x t e1
          · obtain ⟨x, t, e1, _⟩ := h1; exact hclsb x t e1

end Candid.Sub
