import CandidModel.Proofs.EqSound
import CandidModel.Proofs.SubTrans
/-
  C05: type equality implies subtyping both ways.  `TyEq` (specification of equality, `CandidModel/TypeEq.lean`) is
  symmetric; on good first-order types over a good environment (no reference type within reach, ids of every record
  and variant distinct) `TyEq a b` gives `a <: b`; with `Proofs/EqSound` a successful `equal` check gives both
  subtypings.
-/
namespace Candid.Wire
open Candid Candid.Sub Candid.De

theorem zip_flip {α β : Type} (l1 : List α) (l2 : List β) (p : β × α) (h : p ∈ l2.zip l1) : (p.2, p.1) ∈ l1.zip l2 := by
  induction l1 generalizing l2 with
  | nil => cases l2 <;> simp at h
  | cons x xs ih =>
    cases l2 with
    | nil => simp at h
    | cons y ys =>
      simp only [List.zip_cons_cons, List.mem_cons] at h ⊢
      rcases h with h | h
      · left; subst h; rfl
      · right; exact ih ys h

theorem FieldsEq_symm {R S : Rel} (h : ∀ a b, R a b → S b a) {fs1 fs2 : Fields} (hf : FieldsEq R fs1 fs2) :
    FieldsEq S fs2 fs1 :=
  ⟨hf.1.symm, fun p hp => by
    have := hf.2 (p.2, p.1) (zip_flip _ _ p hp)
    exact ⟨this.1.symm, h _ _ this.2⟩⟩

theorem MethsEq_symm {R S : Rel} (h : ∀ a b, R a b → S b a) {ms1 ms2 : Meths} (hf : MethsEq R ms1 ms2) :
    MethsEq S ms2 ms1 :=
  ⟨hf.1.symm, fun p hp => by
    have := hf.2 (p.2, p.1) (zip_flip _ _ p hp)
    exact ⟨this.1.symm, h _ _ this.2⟩⟩

/-- the equality rules are symmetric -/
theorem FE_symm {env : Env} {R S : Rel} (h : ∀ a b, R a b → S b a) : ∀ a b, FE env R a b → FE env S b a := by
  intro a b hF
  unfold FE at hF
  rcases hF with h1 | ⟨a', b', e1, e2, r⟩ | ⟨a', b', e1, e2, r⟩ | ⟨fs1, fs2, e1, e2, r⟩ | ⟨fs1, fs2, e1, e2, r⟩ |
    ⟨a1, r1, m, a2, r2, e1, e2, ra, rr⟩ | ⟨ms1, ms2, e1, e2, r⟩ | ⟨i1, t1, i2, t2, e1, e2, ri, rt⟩ |
    ⟨x, d, e1, e2, r⟩ | ⟨x, d, e1, e2, r⟩
  · subst h1; exact FE.refl _
  · subst e1; subst e2; exact FE.opt _ _ (h _ _ r)
  · subst e1; subst e2; exact FE.vec _ _ (h _ _ r)
  · subst e1; subst e2; exact FE.record _ _ (FieldsEq_symm h r)
  · subst e1; subst e2; exact FE.variant _ _ (FieldsEq_symm h r)
  · subst e1; subst e2; exact FE.func _ _ _ _ _ (h _ _ ra) (h _ _ rr)
  · subst e1; subst e2; exact FE.service _ _ (MethsEq_symm h r)
  · subst e1; subst e2; exact FE.cls _ _ _ _ (h _ _ ri) (h _ _ rt)
  · subst e1; exact FE.varR _ _ d e2 (h _ _ r)
  · subst e1; exact FE.varL _ d _ e2 (h _ _ r)

/-- type equality is symmetric -/
theorem tyeq_symm {env : Env} {a b : Ty} (h : TyEq env a b) : TyEq env b a :=
  tyeq_coind (fun x y => TyEq env y x) (fun x y hxy => FE_symm (fun _ _ r => r) y x (tyeq_unfold hxy)) b a h

/-- a name can be replaced by its definition on the left, against a type that is not a name -/
theorem tyeq_unfoldL_nonvar {env : Env} {x : String} {d b : Ty} (hd : recFindFull env x = some d)
    (hb : ∀ y, b ≠ .var y) (h : TyEq env (.var x) b) : TyEq env d b := by
  have hF := tyeq_unfold h
  unfold FE at hF
  rcases hF with h1 | ⟨a', b', e1, e2, r⟩ | ⟨a', b', e1, e2, r⟩ | ⟨fs1, fs2, e1, e2, r⟩ | ⟨fs1, fs2, e1, e2, r⟩ |
    ⟨a1, r1, m, a2, r2, e1, e2, ra, rr⟩ | ⟨ms1, ms2, e1, e2, r⟩ | ⟨i1, t1, i2, t2, e1, e2, ri, rt⟩ |
    ⟨x', d', e1, e2, r⟩ | ⟨y, d', e1, e2, r⟩
  · exact absurd h1.symm (hb x)
  · cases e1
  · cases e1
  · cases e1
  · cases e1
  · cases e1
  · cases e1
  · cases e1
  · cases e1
    rw [hd] at e2
    cases e2
    exact r
  · exact absurd e1 (hb y)

/-- a name can be replaced by its definition on the left -/
theorem tyeq_unfoldL {env : Env} {x : String} {d b : Ty} (hd : recFindFull env x = some d)
    (h : TyEq env (.var x) b) : TyEq env d b := by
  have hF := tyeq_unfold h
  unfold FE at hF
  rcases hF with h1 | ⟨a', b', e1, e2, r⟩ | ⟨a', b', e1, e2, r⟩ | ⟨fs1, fs2, e1, e2, r⟩ | ⟨fs1, fs2, e1, e2, r⟩ |
    ⟨a1, r1, m, a2, r2, e1, e2, ra, rr⟩ | ⟨ms1, ms2, e1, e2, r⟩ | ⟨i1, t1, i2, t2, e1, e2, ri, rt⟩ |
    ⟨x', d', e1, e2, r⟩ | ⟨y, d', e1, e2, r⟩
  · subst h1; exact tyeq_fold (FE.varR d x d hd (tyeq_refl env d))
  · cases e1
  · cases e1
  · cases e1
  · cases e1
  · cases e1
  · cases e1
  · cases e1
  · cases e1
    rw [hd] at e2
    cases e2
    exact r
  · subst e1
    exact tyeq_fold (FE.varR d y d' e2 (tyeq_unfoldL_nonvar hd (recFind_nonvar env _ y d' e2) r))

theorem tyeq_unfoldR {env : Env} {y : String} {d a : Ty} (hd : recFindFull env y = some d)
    (h : TyEq env a (.var y)) : TyEq env a d :=
  tyeq_symm (tyeq_unfoldL hd (tyeq_symm h))

/-- position by position: every entry of the right list has a partner in the left one -/
theorem zip_partner_right {α β : Type} : ∀ (l1 : List α) (l2 : List β), l1.length = l2.length → ∀ p ∈ l2, ∃ q, (q, p) ∈ l1.zip l2
  | [], [], _, p, hp => by simp at hp
  | [], _ :: _, h, _, _ => by simp at h
  | _ :: _, [], h, _, _ => by simp at h
  | x :: xs, y :: ys, h, p, hp => by
    simp only [List.mem_cons] at hp
    rcases hp with rfl | hp
    · exact ⟨x, by simp⟩
    · obtain ⟨q, hq⟩ := zip_partner_right xs ys (by simpa using h) p hp
      exact ⟨q, by simp [hq]⟩

theorem zip_partner_left {α β : Type} : ∀ (l1 : List α) (l2 : List β), l1.length = l2.length → ∀ p ∈ l1, ∃ q, (p, q) ∈ l1.zip l2
  | [], [], _, p, hp => by simp at hp
  | [], _ :: _, h, _, _ => by simp at h
  | _ :: _, [], h, _, _ => by simp at h
  | x :: xs, y :: ys, h, p, hp => by
    simp only [List.mem_cons] at hp
    rcases hp with rfl | hp
    · exact ⟨y, by simp⟩
    · obtain ⟨q, hq⟩ := zip_partner_left xs ys (by simpa using h) p hp
      exact ⟨q, by simp [hq]⟩

/-- the relation carried through the coinduction -/
def EQR (env : Env) (a b : Ty) : Prop :=
  TyEq env a b ∧ goodTy env a = true ∧ goodTy env b = true ∧ FOT env a ∧ FOT env b

theorem eqr_step (env : Env) (hg : GoodEnv env) (a b : Ty) (h : EQR env a b) : F env (EQR env) a b := by
  obtain ⟨he, hga, hgb, hfa, hfb⟩ := h
  by_cases hav : ∃ x, a = .var x
  · obtain ⟨x, hx⟩ := hav
    subst hx
    obtain ⟨d, hd⟩ := good_var env x hga
    exact F.varL x d b hd ⟨tyeq_unfoldL hd he, good_def env hg x d hd, hgb, hfa.step (reach_def env x d hd), hfb⟩
  · have hna : isName a = false := good_not_name env a hga (fun x hx => hav ⟨x, hx⟩)
    by_cases hbv : ∃ y, b = .var y
    · obtain ⟨y, hy⟩ := hbv
      subst hy
      obtain ⟨d, hd⟩ := good_var env y hgb
      exact F.varR a y d hna hd ⟨tyeq_unfoldR hd he, hga, good_def env hg y d hd, hfa, hfb.step (reach_def env y d hd)⟩
    · have hF := tyeq_unfold he
      unfold FE at hF
      rcases hF with h1 | ⟨a', b', e1, e2, r⟩ | ⟨a', b', e1, e2, r⟩ | ⟨fs1, fs2, e1, e2, r⟩ | ⟨fs1, fs2, e1, e2, r⟩ |
        ⟨a1, r1, m, a2, r2, e1, e2, ra, rr⟩ | ⟨ms1, ms2, e1, e2, r⟩ | ⟨i1, t1, i2, t2, e1, e2, ri, rt⟩ |
        ⟨x', d', e1, e2, r⟩ | ⟨y, d', e1, e2, r⟩
      · subst h1; exact F.refl _
      · subst e2; exact F.opt a b' hna
      · subst e1; subst e2
        exact F.vec _ _ ⟨r, good_vec hga, good_vec hgb, hfa.step (Reach.vec (Reach.refl _)), hfb.step (Reach.vec (Reach.refl _))⟩
      · subst e1; subst e2
        refine F.record fs1 fs2 ?_
        intro p hp
        obtain ⟨q, hq⟩ := zip_partner_right _ _ r.1 p hp
        have hqm : q ∈ fs1.toList := (List.of_mem_zip hq).1
        obtain ⟨hid, hr⟩ := r.2 (q, p) hq
        simp only [] at hid hr
        have hl := lookupF_of_mem_nodup fs1 q (good_nodup (Or.inl hga)) hqm
        rw [← hid, hl]
        exact ⟨hr, good_field (Or.inl hga) hqm, good_field (Or.inl hgb) hp,
          hfa.step (Reach.field (Reach.refl _) hqm), hfb.step (Reach.field (Reach.refl _) hp)⟩
      · subst e1; subst e2
        refine F.variant fs1 fs2 ?_
        intro p hp
        obtain ⟨q, hq⟩ := zip_partner_left _ _ r.1 p hp
        have hqm : q ∈ fs2.toList := (List.of_mem_zip hq).2
        obtain ⟨hid, hr⟩ := r.2 (p, q) hq
        simp only [] at hid hr
        have hl := lookupF_of_mem_nodup fs2 q (good_nodup (Or.inr hgb)) hqm
        rw [hid, hl]
        exact ⟨hr, good_field (Or.inr hga) hp, good_field (Or.inr hgb) hqm,
          hfa.step (Reach.case (Reach.refl _) hp), hfb.step (Reach.case (Reach.refl _) hqm)⟩
      · subst e1; exact absurd (hfa _ (Reach.refl _)) (by simp [fo1])
      · subst e1; exact absurd (hfa _ (Reach.refl _)) (by simp [fo1])
      · subst e1; simp [goodTy, shapeTy] at hga
      · exact absurd ⟨x', e1⟩ hav
      · exact absurd ⟨y, e1⟩ hbv

/-- **Equal types are subtypes of each other** (specification level) -/
theorem tyeq_sub (env : Env) (hg : GoodEnv env) (a b : Ty) (hga : goodTy env a = true) (hgb : goodTy env b = true)
    (hfa : FOT env a) (hfb : FOT env b) (h : TyEq env a b) : Sub env a b ∧ Sub env b a :=
  ⟨sub_coind (EQR env) (eqr_step env hg) a b ⟨h, hga, hgb, hfa, hfb⟩,
   sub_coind (EQR env) (eqr_step env hg) b a ⟨tyeq_symm h, hgb, hga, hfb, hfa⟩⟩

/-- **A successful `equal` check implies subtyping both ways** -/
theorem equal_sub_both (env : Env) (hg : GoodEnv env) (n : Nat) (g' : Gamma) (a b : Ty)
    (hga : goodTy env a = true) (hgb : goodTy env b = true) (hfa : FOT env a) (hfb : FOT env b)
    (h : eqAlg env n [] a b = .yes g') : Sub env a b ∧ Sub env b a :=
  tyeq_sub env hg a b hga hgb hfa hfb (eqAlg_sound_history env n [] g' a b (Ejustified_nil env) h).1

end Candid.Wire
