import CandidModel.Wire
import CandidModel.Proofs.Leb
/- helper lemmas about the wire layer: readers invert writers -/
namespace Candid.Wire
open Candid Candid.Leb

theorem utf8_strBytes (s : String) : utf8 (strBytes s) = some s := by
  unfold utf8 strBytes
  have : ByteArray.mk (s.toUTF8.data.toList.toArray) = s.toUTF8 := by simp
  rw [this]
  unfold String.fromUTF8?
  simp
  exact ⟨s.isValidUTF8, rfl⟩

/-- the minimal encoding of `n < 128^k` has at most `k` bytes (k ≥ 1) -/
theorem uleb_length_le_of_lt : ∀ (k n : Nat), n < 128 ^ (k + 1) → (uleb n).length ≤ k + 1 := by
  intro k
  induction k with
  | zero =>
    intro n h
    rw [uleb]
    have : n < 128 := by simpa using h
    simp [this]
  | succ k ih =>
    intro n h
    rw [uleb]
    split
    · simp
    · have h2 : n / 128 < 128 ^ (k + 1) := by
        rw [Nat.pow_succ] at h
        exact Nat.div_lt_of_lt_mul (by rw [Nat.mul_comm]; exact h)
      have := ih (n / 128) h2
      simp only [List.length_cons]
      omega

theorem readLenDe_uleb (n : Nat) (r : Bytes) (h : n < 2 ^ 63) : readLenDe (uleb n ++ r) = .ok (n, r) := by
  unfold readLenDe
  rw [splitLeb_append _ _ (uleb_terminated n)]
  have hl : (uleb n).length ≤ 9 := uleb_length_le_of_lt 8 n (by
    have : (128 : Nat) ^ 9 = 2 ^ 63 := by decide
    rw [this]; exact h)
  simp [hl, uval_uleb]

theorem readLebCrate_uleb (n : Nat) (r : Bytes) (h : n < 2 ^ 64) : readLebCrate (uleb n ++ r) = .ok (n, r) := by
  unfold readLebCrate
  rw [splitLeb_append _ _ (uleb_terminated n)]
  have hl : (uleb n).length ≤ 10 := uleb_length_le_of_lt 9 n (by
    have : (2 : Nat) ^ 64 ≤ 128 ^ 10 := by decide
    omega)
  simp [hl, uval_uleb, h]

theorem leBytes_length (k n : Nat) : (leBytes k n).length = k := by
  induction k generalizing n with
  | zero => rfl
  | succ k ih => simp [leBytes, ih]

theorem leVal_leBytes (k n : Nat) : leVal (leBytes k n) = n % 256 ^ k := by
  induction k generalizing n with
  | zero => simp [leBytes, leVal, Nat.mod_one]
  | succ k ih =>
    simp only [leBytes, leVal, ih]
    have h1 : ((n % 256).toUInt8).toNat = n % 256 := by
      simp
    rw [h1, Nat.pow_succ, Nat.mul_comm (256 ^ k) 256, Nat.mod_mul]

theorem takeN_append (a r : Bytes) : takeN a.length (a ++ r) = .ok (a, r) := by
  unfold takeN
  simp

/-- fixed-width numbers: reading `k` little-endian bytes inverts writing them -/
theorem readFixed_leBytes (k n : Nat) (r : Bytes) (h : n < 256 ^ k) :
    readFixed k (leBytes k n ++ r) = .ok (n, r) := by
  unfold readFixed
  have := takeN_append (leBytes k n) r
  rw [leBytes_length] at this
  rw [this]
  simp [Outcome.map, leVal_leBytes, Nat.mod_eq_of_lt h]

/-- a principal of at most 29 bytes reads back -/
theorem readPrincipal_ser (b r : Bytes) (h : b.length ≤ 29) :
    readPrincipal (serPrincipal b ++ r) = .ok (b, r) := by
  unfold readPrincipal serPrincipal
  simp only [List.cons_append, List.append_assoc]
  rw [readLebCrate_uleb _ _ (by omega)]
  simp only [show ((1 : UInt8) ≠ 1) = False by simp, if_false]
  have h2 : ¬ b.length > Gen.wirePrincipalMax := by
    have : Gen.wirePrincipalMax = 29 := by decide
    omega
  simp only [h2, if_false]
  exact takeN_append b r

/-- signed fixed width: two's complement round trip -/
theorem toSigned_ofSigned (bits : Nat) (i : Int) (hb : 0 < bits)
    (h1 : -(2 : Int) ^ (bits - 1) ≤ i) (h2 : i < (2 : Int) ^ (bits - 1)) :
    toSigned bits (ofSigned bits i) = i := by
  unfold toSigned ofSigned
  have hp : (2 : Int) ^ bits = 2 * (2 : Int) ^ (bits - 1) := by
    have : bits = (bits - 1) + 1 := by omega
    rw [this, Int.pow_succ]
    simp
    omega
  have hpos : (0 : Int) < (2 : Int) ^ (bits - 1) := Int.pow_pos (by omega)
  by_cases hi : 0 ≤ i
  · have e : i % (2 : Int) ^ bits = i := Int.emod_eq_of_lt hi (by omega)
    rw [e]
    have hn : i.toNat < 2 ^ (bits - 1) := by
      have : (i.toNat : Int) = i := Int.toNat_of_nonneg hi
      have h3 : (i.toNat : Int) < ((2 ^ (bits - 1) : Nat) : Int) := by
        rw [this]; simpa using h2
      exact Int.ofNat_lt.mp h3
    simp [hn, Int.toNat_of_nonneg hi]
  · have hneg : i < 0 := by omega
    have e : i % (2 : Int) ^ bits = i + (2 : Int) ^ bits := by
      have : (i + (2 : Int) ^ bits) % (2 : Int) ^ bits = i % (2 : Int) ^ bits := Int.add_emod_right _ _
      rw [← this]
      exact Int.emod_eq_of_lt (by omega) (by omega)
    rw [e]
    have hnn : 0 ≤ i + (2 : Int) ^ bits := by omega
    have hge : ¬ (i + (2 : Int) ^ bits).toNat < 2 ^ (bits - 1) := by
      intro hlt
      have h3 : ((i + (2 : Int) ^ bits).toNat : Int) < ((2 ^ (bits - 1) : Nat) : Int) := Int.ofNat_lt.mpr hlt
      rw [Int.toNat_of_nonneg hnn] at h3
      have : ((2 ^ (bits - 1) : Nat) : Int) = (2 : Int) ^ (bits - 1) := by simp
      omega
    simp only [hge, if_false, Int.toNat_of_nonneg hnn]
    omega

end Candid.Wire
