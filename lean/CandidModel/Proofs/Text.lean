import CandidModel.Text
import CandidModel.Wire
import CandidModel.Proofs.Wire
/- helper lemmas about the text layer: the string sub-lexer inverts the printers' escaping -/
namespace Candid.Text
open Candid

/-! ## hex digits -/

theorem hexVal_hexDigitLower (k : Nat) (h : k < 16) : hexVal (hexDigitLower k) = k := by
  have : ∀ k : Fin 16, hexVal (hexDigitLower k.val) = k.val := by decide
  exact this ⟨k, h⟩

theorem isHex_hexDigitLower (k : Nat) (h : k < 16) : isHex (hexDigitLower k) = true := by
  have : ∀ k : Fin 16, isHex (hexDigitLower k.val) = true := by decide
  exact this ⟨k, h⟩

theorem hexDigitLower_ne_u (k : Nat) (h : k < 16) : hexDigitLower k ≠ 'u' := by
  have : ∀ k : Fin 16, hexDigitLower k.val ≠ 'u' := by decide
  exact this ⟨k, h⟩

theorem isHex_ne_underscore (c : Char) (h : isHex c = true) : c ≠ '_' := by
  intro hc; subst hc; revert h; decide

theorem toHexDigits_all_hex (n : Nat) : ∀ c ∈ toHexDigits n, isHex c = true := by
  fun_induction toHexDigits n with
  | case1 n h => intro c hc; simp at hc; subst hc; exact isHex_hexDigitLower n h
  | case2 n h ih =>
    intro c hc
    simp only [List.mem_append, List.mem_singleton] at hc
    rcases hc with hc | hc
    · exact ih c hc
    · subst hc; exact isHex_hexDigitLower _ (Nat.mod_lt _ (by decide))

theorem toHexDigits_ne_nil (n : Nat) : toHexDigits n ≠ [] := by
  fun_induction toHexDigits n <;> simp

theorem hexNum_append_single (a : List Char) (d : Char) : hexNum (a ++ [d]) = hexNum a * 16 + hexVal d := by
  simp [hexNum, List.foldl_append]

theorem hexNum_toHexDigits (n : Nat) : hexNum (toHexDigits n) = n := by
  fun_induction toHexDigits n with
  | case1 n h => simp [hexNum, hexVal_hexDigitLower n h]
  | case2 n h ih =>
    rw [hexNum_append_single, ih, hexVal_hexDigitLower _ (Nat.mod_lt _ (by decide))]
    omega

theorem spanHexUnderscore_hex (ds r : List Char) (h : ∀ c ∈ ds, isHex c = true) :
    spanHexUnderscore (ds ++ '}' :: r) = (ds, '}' :: r) := by
  induction ds with
  | nil => simp [spanHexUnderscore, isHex]
  | cons d ds ih =>
    have hd : isHex d = true := h d (by simp)
    have := ih (fun c hc => h c (by simp [hc]))
    simp [spanHexUnderscore, hd, this]

theorem filter_hex (ds : List Char) (h : ∀ c ∈ ds, isHex c = true) : ds.filter (· ≠ '_') = ds := by
  rw [List.filter_eq_self]
  intro c hc
  simpa using isHex_ne_underscore c (h c hc)

/-! ## single steps of the sub-lexer -/

private abbrev push (p : Piece) (x : Outcome (List Piece × List Char)) : Outcome (List Piece × List Char) :=
  x.map fun (ps, rest) => (p :: ps, rest)

theorem lex_quote (fuel : Nat) (r : List Char) : lexPieces (fuel + 1) ('"' :: r) = .ok ([], r) := by
  simp [lexPieces]

theorem lex_plain (fuel : Nat) (c : Char) (r : List Char) (h1 : c ≠ '"') (h2 : c ≠ '\\') :
    lexPieces (fuel + 1) (c :: r) = push (.ch c) (lexPieces fuel r) := by
  conv => lhs; unfold lexPieces
  split
  · rename_i h; cases h
  · rename_i h; simp at h; exact absurd h.1 h1
  · rename_i h; simp at h; exact absurd h.1 h2
  · rename_i h; simp at h; obtain ⟨rfl, rfl⟩ := h; rfl

theorem lex_unicode (fuel : Nat) (c : Char) (r : List Char) :
    lexPieces (fuel + 1) (unicodeEsc c ++ r) = push (.ch c) (lexPieces fuel r) := by
  have hall := toHexDigits_all_hex c.toNat
  obtain ⟨h, t, ht⟩ := List.exists_cons_of_ne_nil (toHexDigits_ne_nil c.toNat)
  have hh : isHex h = true := hall h (by simp [ht])
  have hspan := spanHexUnderscore_hex (toHexDigits c.toNat) r hall
  have hfil := filter_hex (toHexDigits c.toNat) hall
  have hnum := hexNum_toHexDigits c.toNat
  have hv : c.toNat < 0xd800 ∨ (0xdfff < c.toNat ∧ c.toNat < 0x110000) := c.valid
  have hlt : c.toNat < 2 ^ 32 := by omega
  have hsc : isScalar c.toNat = true := by
    unfold isScalar
    simp only [decide_eq_true_eq]
    omega
  have hlist : unicodeEsc c ++ r = '\\' :: 'u' :: '{' :: (h :: t ++ '}' :: r) := by
    simp [unicodeEsc, ht]
  rw [hlist]
  rw [ht] at hspan hfil hnum
  conv => lhs; unfold lexPieces
  simp only [List.cons_append] at hspan ⊢
  have hfil' : List.filter (fun x => !decide (x = '_')) (h :: t) = h :: t := by simpa using hfil
  have hlt' : c.toNat < 4294967296 := by omega
  simp [hh, hspan, hfil', hnum, hlt', hsc, push]


/-- the six fixed escapes -/
theorem lex_fixed (fuel : Nat) (e x : Char) (r : List Char)
    (h : (e, x) ∈ [('n', '\n'), ('r', '\r'), ('t', '\t'), ('\\', '\\'), ('"', '"'), ('\'', '\'')]) :
    lexPieces (fuel + 1) ('\\' :: e :: r) = push (.ch x) (lexPieces fuel r) := by
  simp only [List.mem_cons, Prod.mk.injEq, List.mem_nil_iff, or_false] at h
  rcases h with ⟨rfl, rfl⟩ | ⟨rfl, rfl⟩ | ⟨rfl, rfl⟩ | ⟨rfl, rfl⟩ | ⟨rfl, rfl⟩ | ⟨rfl, rfl⟩ <;>
    cases r <;> simp [lexPieces, lexPieces.escapeChar, isHex, push]

/-- a `\xx` byte escape written with lower-case digits -/
theorem lex_byte (fuel : Nat) (n : Nat) (hn : n < 256) (r : List Char) :
    lexPieces (fuel + 1) ('\\' :: hexDigitLower (n / 16) :: hexDigitLower (n % 16) :: r) =
      push (.byte n.toUInt8) (lexPieces fuel r) := by
  have h1 : n / 16 < 16 := by omega
  have h2 : n % 16 < 16 := by omega
  have hu := hexDigitLower_ne_u _ h1
  conv => lhs; unfold lexPieces
  simp only []
  split
  · rename_i hc; cases hc
  · rename_i hc; simp at hc; exact absurd hc.1 hu
  · rename_i hc; simp at hc
    obtain ⟨rfl, rfl⟩ := hc
    simp [isHex_hexDigitLower _ h1, isHex_hexDigitLower _ h2, hexVal_hexDigitLower _ h1,
      hexVal_hexDigitLower _ h2, push, Nat.div_add_mod']


theorem unicodeEsc_nul : unicodeEsc '\x00' = ['\\', 'u', '{', '0', '}'] := by
  simp [unicodeEsc, toHexDigits, hexDigitLower]

/-- one escaped character is read back as that character, whatever the Unicode tables say -/
theorem lex_escChar (pr ge : Char → Bool) (first : Bool) (fuel : Nat) (c : Char) (tail : List Char) :
    lexPieces (fuel + 1) (escChar pr ge first c ++ tail) = push (.ch c) (lexPieces fuel tail) := by
  unfold escChar
  split
  · rename_i h; subst h; rw [← unicodeEsc_nul]; exact lex_unicode fuel _ tail
  split
  · rename_i h; subst h; exact lex_fixed fuel 't' '\t' tail (by simp)
  split
  · rename_i h; subst h; exact lex_fixed fuel 'r' '\r' tail (by simp)
  split
  · rename_i h; subst h; exact lex_fixed fuel 'n' '\n' tail (by simp)
  split
  · rename_i h; subst h; exact lex_fixed fuel '\\' '\\' tail (by simp)
  split
  · rename_i h; subst h; exact lex_fixed fuel '"' '"' tail (by simp)
  split
  · rename_i h; subst h; exact lex_fixed fuel '\'' '\'' tail (by simp)
  split
  · exact lex_unicode fuel c tail
  split
  · rename_i hq _ hb _ _ _ _
    exact lex_plain fuel c tail (by assumption) (by assumption)
  · exact lex_unicode fuel c tail

theorem lexPieces_escapeTextFrom (pr ge : Char → Bool) :
    ∀ (s : List Char) (first : Bool) (fuel : Nat) (rest : List Char), s.length < fuel →
      lexPieces fuel (escapeTextFrom pr ge first s ++ '"' :: rest) = .ok (s.map .ch, rest) := by
  intro s
  induction s with
  | nil =>
    intro first fuel rest h
    obtain ⟨f, rfl⟩ : ∃ f, fuel = f + 1 := ⟨fuel - 1, by simp at h; omega⟩
    simp [escapeTextFrom, lex_quote]
  | cons c r ih =>
    intro first fuel rest h
    obtain ⟨f, rfl⟩ : ∃ f, fuel = f + 1 := ⟨fuel - 1, by simp at h; omega⟩
    simp only [escapeTextFrom, List.append_assoc]
    rw [lex_escChar, ih _ f rest (by simp at h; omega)]
    simp [push, Outcome.map]

theorem escChar_length_pos (pr ge : Char → Bool) (first : Bool) (c : Char) : 0 < (escChar pr ge first c).length := by
  unfold escChar unicodeEsc
  repeat' split
  all_goals simp

theorem escapeTextFrom_length (pr ge : Char → Bool) : ∀ (s : List Char) (first : Bool),
    s.length ≤ (escapeTextFrom pr ge first s).length := by
  intro s
  induction s with
  | nil => intro _; simp [escapeTextFrom]
  | cons c r ih =>
    intro first
    have := escChar_length_pos pr ge first c
    have := ih (c = '\x00')
    simp only [escapeTextFrom, List.length_append, List.length_cons]
    omega

/-! ## blobs -/

theorem toNat_ofNat_small (n : Nat) (h : n < 0xd800) : (Char.ofNat n).toNat = n := by
  have hv : n.isValidChar := Or.inl h
  simp [Char.ofNat, hv, Char.toNat, Char.ofNatAux]

theorem utf8Char_eq (c : Char) : utf8Char c = String.utf8EncodeChar c := by
  unfold utf8Char
  simp [String.toByteArray_singleton, List.utf8Encode_singleton, List.data_toByteArray]

theorem utf8Char_ascii (n : Nat) (h : n < 128) : utf8Char (Char.ofNat n) = [n.toUInt8] := by
  have hn : (Char.ofNat n).val.toNat = n := toNat_ofNat_small n (by omega)
  rw [utf8Char_eq, String.utf8EncodeChar_eq_singleton]
  · congr 1
    apply UInt8.toNat_inj.mp
    rw [UInt32.toNat_toUInt8, hn]; simp
  · rw [Char.utf8Size_eq_one_iff, UInt32.le_iff_toNat_le, hn]
    simp; omega

theorem ofNat_ne_of_toNat (n : Nat) (h : n < 0xd800) (c : Char) (hc : n ≠ c.toNat) : Char.ofNat n ≠ c := by
  intro he
  have := toNat_ofNat_small n h
  rw [he] at this
  exact hc this.symm

theorem lex_ppByte (fuel : Nat) (v : UInt8) (tail : List Char) :
    ∃ p, lexPieces (fuel + 1) (ppByte v ++ tail) = push p (lexPieces fuel tail) ∧ piecesBytes [p] = [v] := by
  unfold ppByte
  simp only []
  split
  · rename_i h
    refine ⟨.ch (Char.ofNat v.toNat), ?_, ?_⟩
    · apply lex_plain
      · exact ofNat_ne_of_toNat _ (by omega) '"' (by simpa using h.2.2.1)
      · exact ofNat_ne_of_toNat _ (by omega) '\\' (by simpa using h.2.2.2.2.2)
    · simp [piecesBytes, utf8Char_ascii v.toNat (by omega)]
  · refine ⟨.byte v, ?_, by simp [piecesBytes]⟩
    have := lex_byte fuel v.toNat (by have := v.toNat_lt; omega) tail
    simpa using this

theorem lexPieces_ppBytes (f : UInt8 → List Char)
    (hf : ∀ fuel v tail, ∃ p, lexPieces (fuel + 1) (f v ++ tail) = push p (lexPieces fuel tail) ∧ piecesBytes [p] = [v]) :
    ∀ (b : Bytes) (fuel : Nat) (rest : List Char), b.length < fuel →
      ∃ ps, lexPieces fuel (b.flatMap f ++ '"' :: rest) = .ok (ps, rest) ∧ piecesBytes ps = b := by
  intro b
  induction b with
  | nil =>
    intro fuel rest h
    obtain ⟨k, rfl⟩ : ∃ k, fuel = k + 1 := ⟨fuel - 1, by simp at h; omega⟩
    exact ⟨[], by simp [lex_quote], by simp [piecesBytes]⟩
  | cons v r ih =>
    intro fuel rest h
    obtain ⟨k, rfl⟩ : ∃ k, fuel = k + 1 := ⟨fuel - 1, by simp at h; omega⟩
    obtain ⟨ps, h1, h2⟩ := ih k rest (by simp at h; omega)
    obtain ⟨p, h3, h4⟩ := hf k v (r.flatMap f ++ '"' :: rest)
    refine ⟨p :: ps, ?_, ?_⟩
    · simp only [List.flatMap_cons, List.append_assoc]
      rw [h3, h1]; simp [push, Outcome.map]
    · simp only [piecesBytes, List.flatMap_cons, List.flatMap_nil, List.append_nil] at h4 h2 ⊢
      rw [h4, h2]; rfl


theorem lex_hexByte (fuel : Nat) (v : UInt8) (tail : List Char) :
    ∃ p, lexPieces (fuel + 1)
        (['\\', hexDigitLower (v.toNat / 16), hexDigitLower (v.toNat % 16)] ++ tail) = push p (lexPieces fuel tail) ∧
      piecesBytes [p] = [v] := by
  refine ⟨.byte v, ?_, by simp [piecesBytes]⟩
  have := lex_byte fuel v.toNat (by have := v.toNat_lt; omega) tail
  simpa using this

/-! ## numbers -/

def isDigit (c : Char) : Bool := '0' ≤ c ∧ c ≤ '9'

theorem isDigit_ne (c : Char) (h : isDigit c = true) : c ≠ '_' ∧ c ≠ 'x' ∧ c ≠ 'X' ∧ c ≠ '-' := by
  refine ⟨?_, ?_, ?_, ?_⟩ <;> (intro hc; subst hc; revert h; decide)

theorem groupRev_filter (l : List Char) : (groupRev l).filter (· ≠ '_') = l.filter (· ≠ '_') := by
  fun_induction groupRev l with
  | case1 a b c d r ih =>
    simp only [List.filter_cons]
    rw [ih]
    simp [List.filter_cons]
  | case2 s _ => rfl

theorem groupRev_getLast? (l : List Char) : (groupRev l).getLast? = l.getLast? := by
  fun_induction groupRev l with
  | case1 a b c d r ih =>
    have : groupRev (d :: r) ≠ [] := by
      unfold groupRev; split <;> simp
    simp only [List.getLast?_cons_cons]
    cases hg : groupRev (d :: r) with
    | nil => exact absurd hg this
    | cons x xs => rw [List.getLast?_cons_cons, ← hg, ih]
  | case2 s _ => rfl

theorem groupRev_mem (l : List Char) : ∀ c ∈ groupRev l, c ∈ l ∨ c = '_' := by
  fun_induction groupRev l with
  | case1 a b c d r ih =>
    intro x hx
    simp only [List.mem_cons] at hx ⊢
    rcases hx with h | h | h | h | h
    · simp [h]
    · simp [h]
    · simp [h]
    · simp [h]
    · rcases ih x h with h' | h'
      · simp only [List.mem_cons] at h'; rcases h' with h' | h' <;> simp [h']
      · simp [h']
  | case2 s _ => intro x hx; exact Or.inl hx

/-! ## numbering of record fields -/

/-- the Debug printer's abbreviation: the field at position `i` is written without its label exactly when
its id is `i` -/
def abbrevFields (i : Nat) : List Nat → List (Option Nat)
  | [] => []
  | id :: r => (if id = i then none else some id) :: abbrevFields (i + 1) r

theorem abbrevFields_explicit : ∀ (ids : List Nat) (i : Nat), (∀ x ∈ ids, i < x) → ids.Pairwise (· < ·) →
    abbrevFields i ids = ids.map some := by
  intro ids
  induction ids with
  | nil => intro _ _ _; rfl
  | cons id r ih =>
    intro i hgt hp
    have hid : i < id := hgt id (by simp)
    rw [List.pairwise_cons] at hp
    simp only [abbrevFields, List.map_cons]
    rw [if_neg (by omega), ih (i + 1) (fun x hx => by have := hp.1 x hx; omega) hp.2]

theorem numberFields_explicit : ∀ (ids : List Nat) (next : Nat), numberFields next (ids.map some) = .ok ids := by
  intro ids
  induction ids with
  | nil => intro _; rfl
  | cons id r ih => intro next; simp [numberFields, ih, Outcome.map]

theorem numberFields_abbrev : ∀ (ids : List Nat) (i : Nat), (∀ x ∈ ids, i ≤ x) → (∀ x ∈ ids, x < 2 ^ 32) →
    ids.Pairwise (· < ·) → numberFields i (abbrevFields i ids) = .ok ids := by
  intro ids
  induction ids with
  | nil => intro _ _ _ _; rfl
  | cons id r ih =>
    intro i hge hlt hp
    rw [List.pairwise_cons] at hp
    by_cases hid : id = i
    · subst hid
      have : id < 2 ^ 32 := hlt id (by simp)
      simp only [abbrevFields, if_pos, numberFields, this]
      rw [ih (id + 1) (fun x hx => by have := hp.1 x hx; omega) (fun x hx => hlt x (by simp [hx])) hp.2]
      simp [Outcome.map]
    · have hgt : i < id := by have := hge id (by simp); omega
      simp only [abbrevFields, if_neg hid, numberFields]
      rw [abbrevFields_explicit r (i + 1) (fun x hx => by have := hp.1 x hx; omega) hp.2,
        numberFields_explicit]
      simp [Outcome.map]

end Candid.Text
