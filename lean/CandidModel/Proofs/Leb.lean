import CandidModel.Leb
/-
  Helper lemmas for C09 (property theorems live in Props/C09.lean).
-/
namespace Candid.Leb
open Candid

/-! ### bit-level facts -/
theorem and7f (x : Nat) : x &&& 0x7f = x % 128 := Nat.and_two_pow_sub_one_eq_mod x 7
theorem shr7 (x : Nat) : x >>> 7 = x / 128 := by simp [Nat.shiftRight_eq_div_pow]
theorem and80_byte : ∀ x, x < 256 → ((x &&& 0x80 = 0) ↔ x < 128) := by decide +kernel
theorem and40_byte : ∀ x, x < 256 → ((x &&& 0x40 ≠ 0) ↔ 64 ≤ x % 128) := by decide +kernel
theorem or80_lt : ∀ x, x < 128 → x ||| 0x80 = x + 128 := by decide +kernel
theorem or_shl (a low s : Nat) (h : a < 2 ^ s) : a ||| (low <<< s) = a + low * 2 ^ s := by
  rw [Nat.or_comm, ← Nat.shiftLeft_add_eq_or_of_lt h, Nat.shiftLeft_eq, Nat.add_comm]

theorem and80 (b : UInt8) : (b.toNat &&& 0x80 = 0) ↔ b.toNat < 128 := and80_byte _ b.toNat_lt
theorem and40 (b : UInt8) : (b.toNat &&& 0x40 ≠ 0) ↔ 64 ≤ b.toNat % 128 := and40_byte _ b.toNat_lt

theorem toUInt8_toNat_of_lt {n : Nat} (h : n < 256) : (n.toUInt8).toNat = n := by
  simp; omega

/-! ### specification layer -/

theorem splitLeb_cons_lt (b : UInt8) (r : Bytes) (h : b.toNat < 128) : splitLeb (b :: r) = some ([b], r) := by
  simp [splitLeb, h]
theorem splitLeb_cons_ge (b : UInt8) (r : Bytes) (h : ¬ b.toNat < 128) :
    splitLeb (b :: r) = (match splitLeb r with | none => none | some (p, r') => some (b :: p, r')) := by
  rw [splitLeb, if_neg h]
  cases splitLeb r with
  | none => rfl
  | some x => rfl

theorem splitLeb_append (p r : Bytes) (h : Terminated p) : splitLeb (p ++ r) = some (p, r) := by
  induction p with
  | nil => simp [Terminated] at h
  | cons b t ih =>
    cases t with
    | nil =>
      simp only [Terminated] at h
      simp [splitLeb, h]
    | cons c t' =>
      simp only [Terminated] at h
      have hb : ¬ b.toNat < 128 := by omega
      rw [List.cons_append, splitLeb_cons_ge _ _ hb, ih h.2]

theorem splitLeb_sound : ∀ (bs p r : Bytes), splitLeb bs = some (p, r) → bs = p ++ r ∧ Terminated p := by
  intro bs
  induction bs with
  | nil => intro p r h; simp [splitLeb] at h
  | cons b t ih =>
    intro p r h
    simp only [splitLeb] at h
    split at h
    · rename_i hb
      simp only [Option.some.injEq, Prod.mk.injEq] at h
      obtain ⟨rfl, rfl⟩ := h
      exact ⟨rfl, by simpa [Terminated] using hb⟩
    · rename_i hb
      split at h
      · simp at h
      · rename_i p' r' heq
        simp only [Option.some.injEq, Prod.mk.injEq] at h
        obtain ⟨rfl, rfl⟩ := h
        obtain ⟨h1, h2⟩ := ih p' r' heq
        refine ⟨by rw [h1]; rfl, ?_⟩
        cases p' with
        | nil => simp [Terminated] at h2
        | cons c t' => exact ⟨by omega, h2⟩

theorem uleb_terminated (n : Nat) : Terminated (uleb n) := by
  induction n using Nat.strongRecOn with
  | _ n ih =>
    rw [uleb]
    split
    · rename_i h
      simp only [Terminated]
      rw [toUInt8_toNat_of_lt (by omega)]; exact h
    · rename_i h
      have ht := ih (n / 128) (by omega)
      have : uleb (n / 128) ≠ [] := by
        intro e; rw [e] at ht; exact ht
      match hm : uleb (n / 128), this with
      | c :: t', _ =>
        rw [hm] at ht
        refine ⟨?_, ht⟩
        rw [toUInt8_toNat_of_lt (by omega)]; omega

theorem uval_uleb (n : Nat) : uval (uleb n) = n := by
  induction n using Nat.strongRecOn with
  | _ n ih =>
    rw [uleb]
    split
    · rename_i h
      simp only [uval]
      rw [toUInt8_toNat_of_lt (by omega)]; omega
    · rename_i h
      simp only [uval]
      rw [ih (n / 128) (by omega), toUInt8_toNat_of_lt (by omega)]
      omega

theorem specReadNat_uleb (n : Nat) (r : Bytes) : specReadNat (uleb n ++ r) = some (n, r) := by
  simp [specReadNat, splitLeb_append _ _ (uleb_terminated n), uval_uleb]

theorem uval_lt (p : Bytes) : uval p < 2 ^ (7 * p.length) := by
  induction p with
  | nil => simp [uval]
  | cons b t ih =>
    simp only [uval, List.length_cons]
    have : 2 ^ (7 * (t.length + 1)) = 128 * 2 ^ (7 * t.length) := by
      rw [Nat.mul_add, Nat.pow_add]; simp [Nat.mul_comm]
    rw [this]
    have := Nat.mod_lt b.toNat (show 128 > 0 by omega)
    omega

/-- minimality: any terminated string with the same value is at least as long -/
theorem uleb_length_le (p : Bytes) (hp : Terminated p) : (uleb (uval p)).length ≤ p.length := by
  induction p with
  | nil => simp [Terminated] at hp
  | cons b t ih =>
    cases t with
    | nil =>
      simp only [Terminated] at hp
      simp only [uval]
      rw [uleb]
      have : b.toNat % 128 + 128 * 0 < 128 := by omega
      rw [if_pos this]; simp
    | cons c t' =>
      simp only [Terminated] at hp
      have := ih hp.2
      rw [uleb]
      split
      · simp
      · rename_i h
        have e : (uval (b :: c :: t')) / 128 = uval (c :: t') := by
          simp only [uval]
          have := Nat.mod_lt b.toNat (show 128 > 0 by omega)
          omega
        rw [e]
        simp only [List.length_cons] at *
        omega

end Candid.Leb

namespace Candid.Leb
open Candid Impl

/-! ### `Nat::decode` -/

theorem fromRadix_append (a b : List Nat) :
    fromRadixLE128 (a ++ b) = fromRadixLE128 a + 128 ^ a.length * fromRadixLE128 b := by
  induction a with
  | nil => simp [fromRadixLE128]
  | cons d t ih =>
    simp only [List.cons_append, fromRadixLE128, ih, List.length_cons, Nat.pow_succ]
    rw [Nat.mul_add, Nat.add_assoc, ← Nat.mul_assoc, Nat.mul_comm 128 (128 ^ t.length)]

theorem groupsOfSmall_length (small k : Nat) : (groupsOfSmall small (7 * k)).length = k := by
  simp [groupsOfSmall]

theorem shr_and7f (x i : Nat) : (x >>> (7 * i)) &&& 0x7f = x / 128 ^ i % 128 := by
  rw [and7f, Nat.shiftRight_eq_div_pow, Nat.pow_mul]

theorem fromRadix_range (small k : Nat) :
    fromRadixLE128 ((List.range k).map fun i => (small >>> (7 * i)) &&& 0x7f) = small % 128 ^ k := by
  induction k with
  | zero => simp [fromRadixLE128, Nat.mod_one]
  | succ k ih =>
    rw [List.range_succ, List.map_append, fromRadix_append, ih]
    simp only [List.map_cons, List.map_nil, fromRadixLE128, List.length_map, List.length_range]
    rw [shr_and7f, Nat.mod_pow_succ]
    simp

theorem pow128 (k : Nat) : 128 ^ k = 2 ^ (7 * k) := by
  rw [Nat.pow_mul]

theorem fromRadix_groupsOfSmall (small k : Nat) (h : small < 2 ^ (7 * k)) :
    fromRadixLE128 (groupsOfSmall small (7 * k)) = small := by
  unfold groupsOfSmall
  have : 7 * k / 7 = k := by omega
  rw [this, fromRadix_range, pow128, Nat.mod_eq_of_lt h]

theorem drainGroups_eq (bs : Bytes) :
    drainGroups bs = (splitLeb bs).map fun (p, r) => (p.map fun b => b.toNat % 128, r) := by
  induction bs with
  | nil => rfl
  | cons b t ih =>
    by_cases hb : b.toNat < 128
    · rw [splitLeb_cons_lt _ _ hb, drainGroups, if_pos ((and80 b).2 hb)]
      simp [and7f]
    · rw [splitLeb_cons_ge _ _ hb, drainGroups, if_neg (fun h => hb ((and80 b).1 h)), ih]
      cases splitLeb t with
      | none => rfl
      | some x => simp [and7f]

theorem fromRadix_map (p : Bytes) : fromRadixLE128 (p.map fun b => b.toNat % 128) = uval p := by
  induction p with
  | nil => rfl
  | cons b t ih => simp [fromRadixLE128, uval, ih]

theorem natDecodeLoop_spec : ∀ (bs : Bytes) (small shift k : Nat), shift = 7 * k → small < 2 ^ shift →
    natDecodeLoop small shift bs =
      (match splitLeb bs with
       | none => .err .eof
       | some (p, r) => .ok (small + 2 ^ shift * uval p, r)) := by
  intro bs
  induction bs with
  | nil => intro small shift k _ _; rfl
  | cons b t ih =>
    intro small shift k hk hs
    have hlow : b.toNat &&& 0x7f = b.toNat % 128 := and7f _
    have hlt : b.toNat % 128 < 128 := Nat.mod_lt _ (by omega)
    rw [natDecodeLoop]
    simp only [hlow, Gen.natDecodeGuard]
    split
    · -- fast path
      rename_i hg
      have hfit : (b.toNat % 128) * 2 ^ shift < 2 ^ 64 := by
        rcases hg with h0 | ⟨h1, h2⟩
        · subst h0; simp; omega
        · rw [Nat.shiftLeft_eq, Nat.one_mul] at h2
          calc (b.toNat % 128) * 2 ^ shift < 2 ^ (64 - shift) * 2 ^ shift :=
                Nat.mul_lt_mul_of_pos_right h2 (Nat.two_pow_pos _)
            _ = 2 ^ 64 := by rw [← Nat.pow_add]; congr 1; omega
      have hs' : small ||| ((b.toNat % 128) <<< shift % 2 ^ 64) = small + (b.toNat % 128) * 2 ^ shift := by
        rw [Nat.shiftLeft_eq, Nat.mod_eq_of_lt hfit, ← Nat.shiftLeft_eq, or_shl _ _ _ hs, Nat.shiftLeft_eq]
      rw [hs']
      by_cases hb : b.toNat < 128
      · rw [if_pos ((and80 b).2 hb), splitLeb_cons_lt _ _ hb]
        simp only [uval]
        congr 2
        rw [Nat.mul_comm]; simp
      · rw [if_neg (fun h => hb ((and80 b).1 h)), splitLeb_cons_ge _ _ hb]
        have hk' : shift + 7 = 7 * (k + 1) := by omega
        have hs2 : small + (b.toNat % 128) * 2 ^ shift < 2 ^ (shift + 7) := by
          rw [Nat.pow_add]
          have : (b.toNat % 128) * 2 ^ shift ≤ 127 * 2 ^ shift := Nat.mul_le_mul_right _ (by omega)
          omega
        rw [ih _ _ _ hk' hs2]
        cases splitLeb t with
        | none => rfl
        | some x =>
          obtain ⟨p, r⟩ := x
          simp only [uval]
          congr 2
          rw [Nat.pow_add, Nat.mul_add, Nat.mul_comm (2 ^ shift) (b.toNat % 128)]
          rw [Nat.add_assoc]
          congr 1
          congr 1
          rw [← Nat.mul_assoc]
    · -- big path
      rename_i hg
      subst hk
      have hlen : (groupsOfSmall small (7 * k) ++ [b.toNat % 128]).length = k + 1 := by
        simp [groupsOfSmall_length]
      have hval : fromRadixLE128 (groupsOfSmall small (7 * k) ++ [b.toNat % 128]) =
          small + 2 ^ (7 * k) * (b.toNat % 128) := by
        rw [fromRadix_append, fromRadix_groupsOfSmall _ _ hs, groupsOfSmall_length, pow128]
        simp [fromRadixLE128]
      by_cases hb : b.toNat < 128
      · rw [if_pos ((and80 b).2 hb), splitLeb_cons_lt _ _ hb, hval]
        simp [uval]
      · rw [if_neg (fun h => hb ((and80 b).1 h)), splitLeb_cons_ge _ _ hb, drainGroups_eq]
        cases splitLeb t with
        | none => rfl
        | some x =>
          obtain ⟨p, r⟩ := x
          simp only [Option.map_some, uval]
          rw [fromRadix_append, hval, hlen, fromRadix_map, pow128]
          congr 2
          have : 2 ^ (7 * (k + 1)) = 2 ^ (7 * k) * 128 := by rw [Nat.mul_add, Nat.pow_add]
          rw [this, Nat.mul_add, Nat.add_assoc, Nat.mul_assoc]

/-- `Nat::decode` computes exactly the specification's value and consumes exactly the terminated prefix. -/
theorem natDecode_spec (bs : Bytes) :
    natDecode bs = (match specReadNat bs with | none => .err .eof | some x => .ok x) := by
  unfold natDecode specReadNat
  rw [natDecodeLoop_spec bs 0 0 0 rfl (by simp)]
  cases splitLeb bs with
  | none => rfl
  | some x => obtain ⟨p, r⟩ := x; simp

end Candid.Leb

namespace Candid.Leb
open Candid Impl

/-! ### `leb128.rs::decode_nat` (u128) -/

theorem drainCont_eq (bs : Bytes) : drainCont bs = (splitLeb bs).map (·.2) := by
  induction bs with
  | nil => rfl
  | cons b t ih =>
    by_cases hb : b.toNat < 128
    · rw [splitLeb_cons_lt _ _ hb, drainCont, if_pos ((and80 b).2 hb)]; rfl
    · rw [splitLeb_cons_ge _ _ hb, drainCont, if_neg (fun h => hb ((and80 b).1 h)), ih]
      cases splitLeb t with
      | none => rfl
      | some x => rfl

/-- the shift counter either is `7k` or has left the 128-bit range together with `7k` -/
def ShiftInv (shift k : Nat) : Prop := shift = 7 * k ∨ (128 ≤ shift ∧ 128 ≤ 7 * k)

theorem shiftInv_step {shift k : Nat} (h : ShiftInv shift k) : ShiftInv (satAdd7 shift) (k + 1) := by
  unfold ShiftInv satAdd7 at *
  split <;> omega

theorem overflow_iff (shift k low : Nat) (hi : ShiftInv shift k) (hl : low < 128) :
    (natOverflow shift low = true) ↔ 2 ^ 128 ≤ low * 2 ^ (7 * k) := by
  unfold natOverflow
  by_cases h128 : shift ≥ 128
  · have hk : 128 ≤ 7 * k := by unfold ShiftInv at hi; omega
    rw [if_pos h128]
    simp only [decide_eq_true_eq]
    have hp : 2 ^ 128 ≤ 2 ^ (7 * k) := Nat.pow_le_pow_right (by omega) hk
    constructor
    · intro h0
      calc 2 ^ 128 ≤ 2 ^ (7 * k) := hp
        _ ≤ low * 2 ^ (7 * k) := Nat.le_mul_of_pos_left _ (by omega)
    · intro h0 h1
      subst h1
      simp at h0
  · have hk : shift = 7 * k := by unfold ShiftInv at hi; omega
    rw [if_neg h128]
    simp only [decide_eq_true_eq]
    subst hk
    rw [Nat.shiftRight_eq_div_pow]
    have hsplit : 2 ^ 128 = 2 ^ (128 - 7 * k) * 2 ^ (7 * k) := by
      rw [← Nat.pow_add]; congr 1; omega
    constructor
    · rintro ⟨_, h2⟩
      have : 2 ^ (128 - 7 * k) ≤ low := by
        rcases Nat.lt_or_ge low (2 ^ (128 - 7 * k)) with h | h
        · exact absurd (Nat.div_eq_of_lt h) h2
        · exact h
      rw [hsplit]
      exact Nat.mul_le_mul_right _ this
    · intro h0
      rw [hsplit] at h0
      have hle : 2 ^ (128 - 7 * k) ≤ low := Nat.le_of_mul_le_mul_right h0 (Nat.two_pow_pos _)
      constructor
      · rcases Nat.lt_or_ge 121 (7 * k) with h | h
        · exact h
        · have : 2 ^ 7 ≤ 2 ^ (128 - 7 * k) := Nat.pow_le_pow_right (by omega) (by omega)
          omega
      · intro hz
        have := (Nat.div_eq_zero_iff_lt (Nat.two_pow_pos _)).1 hz
        omega

theorem decodeNat128Loop_spec : ∀ (bs : Bytes) (result shift k : Nat), ShiftInv shift k →
    result < 2 ^ 128 → result < 2 ^ (7 * k) →
    decodeNat128Loop result shift bs =
      (match splitLeb bs with
       | none => .err .eof
       | some (p, r) =>
         if result + 2 ^ (7 * k) * uval p < 2 ^ 128 then .ok (result + 2 ^ (7 * k) * uval p, r)
         else .err .overflow) := by
  intro bs
  induction bs with
  | nil => intro _ _ _ _ _ _; rfl
  | cons b t ih =>
    intro result shift k hi hr hrk
    have hlt : b.toNat % 128 < 128 := Nat.mod_lt _ (by omega)
    rw [decodeNat128Loop]
    simp only [and7f]
    have hov := overflow_iff shift k (b.toNat % 128) hi hlt
    have hpk : 2 ^ (7 * (k + 1)) = 128 * 2 ^ (7 * k) := by
      rw [Nat.mul_add, Nat.pow_add]; simp [Nat.mul_comm]
    split
    · -- overflow detected
      rename_i hflag
      have hbig := hov.1 hflag
      by_cases hb : b.toNat < 128
      · rw [if_pos ((and80 b).2 hb), splitLeb_cons_lt _ _ hb]
        have hu : uval [b] = b.toNat % 128 := by simp [uval]
        dsimp only
        rw [if_neg]
        rw [hu, Nat.mul_comm]; omega
      · rw [if_neg (fun h => hb ((and80 b).1 h)), splitLeb_cons_ge _ _ hb, drainCont_eq]
        cases splitLeb t with
        | none => rfl
        | some x =>
          obtain ⟨p, r⟩ := x
          have hu : uval (b :: p) = b.toNat % 128 + 128 * uval p := rfl
          dsimp only [Option.map_some]
          rw [if_neg]
          rw [hu, Nat.mul_add, Nat.mul_comm]
          omega
    · -- no overflow at this group
      rename_i hflag
      have hsmall : (b.toNat % 128) * 2 ^ (7 * k) < 2 ^ 128 := by
        rcases Nat.lt_or_ge ((b.toNat % 128) * 2 ^ (7 * k)) (2 ^ 128) with h | h
        · exact h
        · exact absurd (hov.2 h) hflag
      have hres : (if shift < 128 then result ||| ((b.toNat % 128) <<< shift % 2 ^ 128) else result)
          = result + (b.toNat % 128) * 2 ^ (7 * k) := by
        by_cases h128 : shift < 128
        · have hk : shift = 7 * k := by unfold ShiftInv at hi; omega
          subst hk
          rw [if_pos h128, Nat.shiftLeft_eq, Nat.mod_eq_of_lt hsmall, ← Nat.shiftLeft_eq,
            or_shl _ _ _ hrk, Nat.shiftLeft_eq]
        · have hk : 128 ≤ 7 * k := by unfold ShiftInv at hi; omega
          rw [if_neg h128]
          have hp : 2 ^ 128 ≤ 2 ^ (7 * k) := Nat.pow_le_pow_right (by omega) hk
          have : b.toNat % 128 = 0 := by
            rcases Nat.eq_zero_or_pos (b.toNat % 128) with h | h
            · exact h
            · have : 2 ^ (7 * k) ≤ (b.toNat % 128) * 2 ^ (7 * k) := Nat.le_mul_of_pos_left _ h
              omega
          rw [this]; simp
      rw [hres]
      have hr' : result + (b.toNat % 128) * 2 ^ (7 * k) < 2 ^ 128 := by
        rcases Nat.lt_or_ge (7 * k) 128 with h | h
        · have hsplit : 2 ^ 128 = 2 ^ (128 - 7 * k) * 2 ^ (7 * k) := by
            rw [← Nat.pow_add]; congr 1; omega
          rw [hsplit] at hsmall ⊢
          have hl : b.toNat % 128 < 2 ^ (128 - 7 * k) := Nat.lt_of_mul_lt_mul_right hsmall
          calc result + (b.toNat % 128) * 2 ^ (7 * k) < 2 ^ (7 * k) + (b.toNat % 128) * 2 ^ (7 * k) := by omega
            _ = (b.toNat % 128 + 1) * 2 ^ (7 * k) := by rw [Nat.add_mul]; omega
            _ ≤ 2 ^ (128 - 7 * k) * 2 ^ (7 * k) := Nat.mul_le_mul_right _ hl
        · have hp : 2 ^ 128 ≤ 2 ^ (7 * k) := Nat.pow_le_pow_right (by omega) h
          have : b.toNat % 128 = 0 := by
            rcases Nat.eq_zero_or_pos (b.toNat % 128) with h | h
            · exact h
            · have : 2 ^ (7 * k) ≤ (b.toNat % 128) * 2 ^ (7 * k) := Nat.le_mul_of_pos_left _ h
              omega
          rw [this]; simpa using hr
      have hrk' : result + (b.toNat % 128) * 2 ^ (7 * k) < 2 ^ (7 * (k + 1)) := by
        rw [hpk]
        have : (b.toNat % 128) * 2 ^ (7 * k) ≤ 127 * 2 ^ (7 * k) := Nat.mul_le_mul_right _ (by omega)
        omega
      by_cases hb : b.toNat < 128
      · rw [if_pos ((and80 b).2 hb), splitLeb_cons_lt _ _ hb]
        have e : result + 2 ^ (7 * k) * uval [b] = result + (b.toNat % 128) * 2 ^ (7 * k) := by
          rw [Nat.mul_comm]; simp [uval]
        dsimp only
        rw [e, if_pos hr']
      · rw [if_neg (fun h => hb ((and80 b).1 h)), splitLeb_cons_ge _ _ hb,
          ih _ _ _ (shiftInv_step hi) hr' hrk']
        cases splitLeb t with
        | none => rfl
        | some x =>
          obtain ⟨p, r⟩ := x
          dsimp only
          have e : result + (b.toNat % 128) * 2 ^ (7 * k) + 2 ^ (7 * (k + 1)) * uval p
              = result + 2 ^ (7 * k) * uval (b :: p) := by
            show _ = result + 2 ^ (7 * k) * (b.toNat % 128 + 128 * uval p)
            rw [hpk, Nat.mul_add, Nat.mul_comm (2 ^ (7 * k)) (b.toNat % 128), Nat.add_assoc]
            congr 2
            rw [Nat.mul_comm 128, Nat.mul_assoc]
          rw [e]

/-- the u128 decoder accepts exactly the terminated strings whose value is below 2^128 -/
theorem decodeNat128_spec (bs : Bytes) :
    decodeNat128 bs =
      (match splitLeb bs with
       | none => .err .eof
       | some (p, r) => if uval p < 2 ^ 128 then .ok (uval p, r) else .err .overflow) := by
  unfold decodeNat128
  rw [decodeNat128Loop_spec bs 0 0 0 (Or.inl rfl) (by simp) (by simp)]
  cases splitLeb bs with
  | none => rfl
  | some x => obtain ⟨p, r⟩ := x; simp


/-! ## signed numbers and the encoders -/

theorem toUInt8_toNat_lt (n : Nat) (h : n < 256) : (n.toUInt8).toNat = n := toUInt8_toNat_of_lt h

/-! ### signed: the minimal encoding is terminated and denotes the number -/

theorem sleb_ne_nil (i : Int) : sleb i ≠ [] := by
  rw [sleb]; split <;> simp

theorem signBit_cons (b : UInt8) (r : Bytes) (h : r ≠ []) : signBit (b :: r) = signBit r := by
  cases r with
  | nil => exact absurd rfl h
  | cons c r' => rfl

theorem terminated_cons (b : UInt8) (r : Bytes) (h : r ≠ []) : Terminated (b :: r) ↔ (128 ≤ b.toNat ∧ Terminated r) := by
  cases r with
  | nil => exact absurd rfl h
  | cons c r' => simp [Terminated]

theorem sleb_terminated (i : Int) : Terminated (sleb i) := by
  induction i using sleb.induct with
  | case1 i h =>
    rw [sleb, if_pos h]
    simp only [Terminated]
    rw [toUInt8_toNat_lt _ (by omega)]
    omega
  | case2 i h ih =>
    rw [sleb, if_neg h]
    rw [terminated_cons _ _ (sleb_ne_nil _)]
    refine ⟨?_, ih⟩
    rw [toUInt8_toNat_lt _ (by omega)]
    omega

theorem sval_sleb (i : Int) : sval (sleb i) = i := by
  induction i using sleb.induct with
  | case1 i h =>
    rw [sleb, if_pos h]
    have hb : ((i % 128).toNat.toUInt8).toNat = (i % 128).toNat := toUInt8_toNat_lt _ (by omega)
    simp only [sval, uval, signBit, hb, List.length_cons, List.length_nil]
    by_cases hneg : i < 0
    · have : 64 ≤ (i % 128).toNat % 128 := by omega
      simp only [this, decide_true, if_true]
      omega
    · have : ¬ 64 ≤ (i % 128).toNat % 128 := by omega
      simp only [this, decide_false, Bool.false_eq_true, if_false]
      omega
  | case2 i h ih =>
    rw [sleb, if_neg h]
    have hb : (((i % 128).toNat + 128).toUInt8).toNat = (i % 128).toNat + 128 := toUInt8_toNat_lt _ (by omega)
    have hs := signBit_cons ((i % 128).toNat + 128).toUInt8 (sleb (i / 128)) (sleb_ne_nil _)
    unfold sval at ih ⊢
    rw [hs]
    simp only [uval, hb, List.length_cons]
    have hpow : (2 : Int) ^ (7 * ((sleb (i / 128)).length + 1)) = 128 * (2 : Int) ^ (7 * (sleb (i / 128)).length) := by
      rw [Nat.mul_add, Int.pow_add]; simp; omega
    rw [hpow]
    split
    · rename_i hsb
      simp only [hsb, if_true] at ih
      push_cast
      omega
    · rename_i hsb
      have hsb' : signBit (sleb (i / 128)) = false := by simpa using hsb
      simp only [hsb', Bool.false_eq_true, if_false] at ih
      push_cast
      omega

theorem specReadInt_sleb (i : Int) (r : Bytes) : specReadInt (sleb i ++ r) = some (i, r) := by
  unfold specReadInt
  rw [splitLeb_append _ _ (sleb_terminated i)]
  simp [sval_sleb]

open Candid.Leb.Impl

theorem or80_byte : ∀ x, x < 256 → x ||| 0x80 = x % 128 + 128 := by decide +kernel

/-- the encoder loop of `encode_nat` / `leb128::write::unsigned` produces the minimal encoding -/
theorem encodeNatLoop_eq_uleb (n : Nat) : encodeNatLoop n = uleb n := by
  induction n using uleb.induct with
  | case1 n h =>
    rw [uleb, if_pos h, encodeNatLoop]
    have : n >>> 7 = 0 := by rw [shr7]; omega
    simp only [this, ne_eq, not_true_eq_false, dite_false]
    rw [and7f, Nat.mod_eq_of_lt h]
  | case2 n h ih =>
    rw [uleb, if_neg h, encodeNatLoop]
    have hne : n >>> 7 ≠ 0 := by rw [shr7]; omega
    simp only [hne, ne_eq, not_false_eq_true, dite_true]
    rw [shr7, ih, and7f, or80_lt _ (Nat.mod_lt _ (by decide))]

/-- the encoder loop of `encode_int` / `leb128::write::signed` produces the minimal encoding -/
theorem encodeIntLoop_eq_sleb (i : Int) : encodeIntLoop i = sleb i := by
  induction i using sleb.induct with
  | case1 i h =>
    rw [sleb, if_pos h, encodeIntLoop]
    have e1 : i >>> 6 = i / 64 := by simp [Int.shiftRight_eq_div_pow]
    have : i / 64 = 0 ∨ i / 64 = -1 := by omega
    simp only [e1, this, if_true]
    rw [and7f]; congr 2; omega
  | case2 i h ih =>
    rw [sleb, if_neg h, encodeIntLoop]
    have e1 : i >>> 6 = i / 64 := by simp [Int.shiftRight_eq_div_pow]
    have e2 : (i / 64) >>> 1 = i / 128 := by simp [Int.shiftRight_eq_div_pow]; omega
    have : ¬ (i / 64 = 0 ∨ i / 64 = -1) := by omega
    simp only [e1, this, if_false, e2, ih]
    congr 2
    rw [or80_byte _ (by omega)]
    omega

open Candid.Leb.Impl

theorem toRadix_ne_nil (n : Nat) : toRadixLE128 n ≠ [] := by
  rw [toRadixLE128]; split <;> simp

theorem markCont_toRadix (n : Nat) : markCont (toRadixLE128 n) = uleb n := by
  induction n using uleb.induct with
  | case1 n h => rw [uleb, if_pos h, toRadixLE128, if_pos h]; rfl
  | case2 n h ih =>
    rw [uleb, if_neg h, toRadixLE128, if_neg h]
    cases hr : toRadixLE128 (n / 128) with
    | nil => exact absurd hr (toRadix_ne_nil _)
    | cons d r =>
      rw [hr] at ih
      simp only [markCont]
      rw [ih, or80_lt _ (Nat.mod_lt _ (by decide))]

/-- `Nat::encode`, both paths (u64 through the leb128 crate, larger through radix-128 groups) -/
theorem natEncode_eq_uleb (n : Nat) : natEncode n = uleb n := by
  unfold natEncode
  split
  · exact encodeNatLoop_eq_uleb n
  · exact markCont_toRadix n


end Candid.Leb
