import CandidModel.Proofs.Wire
import CandidModel.Proofs.LebBig
/- helper lemmas for C03 / C10: at every type the specification's value reader `decVal` (M⁻¹) inverts the
   value writer `serVal` (M) on the canonical values of the type, whatever follows in the input -/
namespace Candid.Wire
open Candid Candid.Leb

/-- canonical values of a primitive type: what the reader returns at that type -/
def canonPrim : Prim → Val → Bool
  | .null, .null => true
  | .reserved, .reserved => true
  | .bool, .bool _ => true
  | .nat, .nat _ => true
  | .int, .int _ => true
  | .nat8, .nat8 n => decide (n < 2 ^ 8)
  | .nat16, .nat16 n => decide (n < 2 ^ 16)
  | .nat32, .nat32 n => decide (n < 2 ^ 32)
  | .nat64, .nat64 n => decide (n < 2 ^ 64)
  | .int8, .int8 i => decide (-(2 : Int) ^ 7 ≤ i ∧ i < (2 : Int) ^ 7)
  | .int16, .int16 i => decide (-(2 : Int) ^ 15 ≤ i ∧ i < (2 : Int) ^ 15)
  | .int32, .int32 i => decide (-(2 : Int) ^ 31 ≤ i ∧ i < (2 : Int) ^ 31)
  | .int64, .int64 i => decide (-(2 : Int) ^ 63 ≤ i ∧ i < (2 : Int) ^ 63)
  | .float32, .float32 b => decide (b < 2 ^ 32)
  | .float64, .float64 b => decide (b < 2 ^ 64)
  | .text, .text s => decide ((strBytes s).length < 2 ^ 63)
  | _, _ => false

def canonFieldsWith (f : Val → Ty → Bool) : List (Label × Val) → List (Label × Ty) → Bool
  | [], [] => true
  | (l, v) :: r, (l', t) :: r' => decide (l = l') && f v t && canonFieldsWith f r r'
  | _, _ => false

/-- the values of type `t` in the form the reader returns them: labels and variant index taken from the type,
numbers within their width, lengths within what a length prefix can carry, nesting within `fuel` -/
def canon (env : Env) : Nat → Val → Ty → Bool
  | 0, _, _ => false
  | fuel + 1, v, t =>
    match t with
    | .prim p => canonPrim p v
    | .principal => (match v with | .principal b => decide (b.length ≤ 29) | _ => false)
    | .var x => (match env.find x with | some t' => canon env fuel v t' | none => false)
    | .opt t' => (match v with | .none => true | .opt v' => canon env fuel v' t' | _ => false)
    | .vec t' => (match v with
        | .vec vs => decide (vs.length < 2 ^ 63) && vs.all (fun e => canon env fuel e t')
        | _ => false)
    | .record fs => (match v with | .record vfs => canonFieldsWith (canon env fuel) vfs fs.toList | _ => false)
    | .variant fs => (match v with
        | .variant l v' i => (match fs.toList[i]? with
            | some (l', t') => decide (l = l') && decide (i < 2 ^ 64) && canon env fuel v' t'
            | none => false)
        | _ => false)
    | .func _ _ _ => (match v with
        | .func pid m => decide (pid.length ≤ 29) && decide ((strBytes m).length < 2 ^ 63)
        | _ => false)
    | .service _ => (match v with | .service b => decide (b.length ≤ 29) | _ => false)
    | _ => false

theorem ofSigned_lt (k : Nat) (i : Int) : ofSigned (8 * k) i < 256 ^ k := by
  unfold ofSigned
  have hp : (0 : Int) < (2 : Int) ^ (8 * k) := Int.pow_pos (by omega)
  have h1 : i % (2 : Int) ^ (8 * k) < (2 : Int) ^ (8 * k) := Int.emod_lt_of_pos _ hp
  have h0 : 0 ≤ i % (2 : Int) ^ (8 * k) := Int.emod_nonneg _ (by omega)
  have e : (256 : Nat) ^ k = 2 ^ (8 * k) := by
    rw [show (256 : Nat) = 2 ^ 8 by rfl, ← Nat.pow_mul]
  rw [e]
  have : ((i % (2 : Int) ^ (8 * k)).toNat : Int) < ((2 ^ (8 * k) : Nat) : Int) := by
    rw [Int.toNat_of_nonneg h0]; simpa using h1
  exact Int.ofNat_lt.mp this

/-- the reader inverts the writer at every primitive type -/
theorem decPrim_ser (p : Prim) (v : Val) (fs : Nat) (bs r : Bytes) (hc : canonPrim p v = true)
    (hs : serVal fs v = .ok bs) : decPrim p (bs ++ r) = .ok (v, r) := by
  cases fs with
  | zero => simp [serVal] at hs
  | succ fs =>
  cases p <;> cases v <;> simp only [canonPrim, decide_eq_true_eq] at hc <;> try (exact Bool.noConfusion hc)
  all_goals simp only [serVal, Outcome.ok.injEq] at hs
  all_goals subst hs
  case null.null => rfl
  case reserved.reserved => rfl
  case bool.bool b => cases b <;> simp [decPrim]
  case nat.nat n =>
    simp only [decPrim, natEncode_eq_uleb, specReadNat_uleb]
  case int.int i =>
    simp only [decPrim, intEncode_eq_sleb, specReadInt_sleb]
  case nat8.nat8 n => simp [decPrim, readFixed_leBytes 1 n r (by simpa using hc), Outcome.map]
  case nat16.nat16 n => simp [decPrim, readFixed_leBytes 2 n r (by simpa using hc), Outcome.map]
  case nat32.nat32 n => simp [decPrim, readFixed_leBytes 4 n r (by simpa using hc), Outcome.map]
  case nat64.nat64 n => simp [decPrim, readFixed_leBytes 8 n r (by simpa using hc), Outcome.map]
  case int8.int8 i =>
    simp [decPrim, readFixed_leBytes 1 _ r (ofSigned_lt 1 i), Outcome.map, toSigned_ofSigned 8 i (by omega) hc.1 hc.2]
  case int16.int16 i =>
    simp [decPrim, readFixed_leBytes 2 _ r (ofSigned_lt 2 i), Outcome.map, toSigned_ofSigned 16 i (by omega) hc.1 hc.2]
  case int32.int32 i =>
    simp [decPrim, readFixed_leBytes 4 _ r (ofSigned_lt 4 i), Outcome.map, toSigned_ofSigned 32 i (by omega) hc.1 hc.2]
  case int64.int64 i =>
    simp [decPrim, readFixed_leBytes 8 _ r (ofSigned_lt 8 i), Outcome.map, toSigned_ofSigned 64 i (by omega) hc.1 hc.2]
  case float32.float32 b => simp [decPrim, readFixed_leBytes 4 b r (by simpa using hc), Outcome.map]
  case float64.float64 b => simp [decPrim, readFixed_leBytes 8 b r (by simpa using hc), Outcome.map]
  case text.text s =>
    unfold decPrim serText
    simp only [List.append_assoc]
    rw [readLenDe_uleb _ _ hc]
    dsimp only
    rw [takeN_append]
    dsimp only
    rw [utf8_strBytes]


theorem mapOutcomes_cons_ok {α β : Type} (f : α → Outcome β) (a : α) (r : List α) (bs : List β)
    (h : mapOutcomes f (a :: r) = .ok bs) : ∃ b bs', f a = .ok b ∧ mapOutcomes f r = .ok bs' ∧ bs = b :: bs' := by
  simp only [mapOutcomes] at h
  cases hf : f a with
  | ok b =>
    rw [hf] at h
    simp only [] at h
    cases hr : mapOutcomes f r with
    | ok bs' => rw [hr] at h; simp only [Outcome.ok.injEq] at h; exact ⟨b, bs', rfl, rfl, h.symm⟩
    | err k => rw [hr] at h; simp at h
    | panic p => rw [hr] at h; simp at h
  | err k => rw [hf] at h; simp at h
  | panic p => rw [hf] at h; simp at h

theorem decMany_ser (f : Bytes → Outcome (Val × Bytes)) (g : Val → Outcome Bytes) :
    ∀ (vs : List Val) (bss : List Bytes) (r : Bytes),
      (∀ v ∈ vs, ∀ b r, g v = .ok b → f (b ++ r) = .ok (v, r)) →
      mapOutcomes g vs = .ok bss → decMany f vs.length (bss.flatten ++ r) = .ok (vs, r) := by
  intro vs
  induction vs with
  | nil =>
    intro bss r _ h
    simp only [mapOutcomes, Outcome.ok.injEq] at h
    subst h
    simp [decMany]
  | cons v vs ih =>
    intro bss r hf h
    obtain ⟨b, bs', h1, h2, h3⟩ := mapOutcomes_cons_ok g v vs bss h
    subst h3
    simp only [List.length_cons, decMany, List.flatten_cons, List.append_assoc]
    rw [hf v (by simp) b _ h1]
    simp only []
    rw [ih bs' r (fun x hx => hf x (by simp [hx])) h2]

theorem decFields_ser (f : Ty → Bytes → Outcome (Val × Bytes)) (g : Val → Outcome Bytes) (c : Val → Ty → Bool)
    (hfc : ∀ v t b r, c v t = true → g v = .ok b → f t (b ++ r) = .ok (v, r)) :
    ∀ (vfs : List (Label × Val)) (tfs : List (Label × Ty)) (bss : List Bytes) (r : Bytes),
      canonFieldsWith c vfs tfs = true →
      mapOutcomes (fun p => g p.2) vfs = .ok bss → decFields f tfs (bss.flatten ++ r) = .ok (vfs, r) := by
  intro vfs
  induction vfs with
  | nil =>
    intro tfs bss r hc h
    cases tfs with
    | nil =>
      simp only [mapOutcomes, Outcome.ok.injEq] at h
      subst h
      simp [decFields]
    | cons _ _ => simp [canonFieldsWith] at hc
  | cons p vfs ih =>
    intro tfs bss r hc h
    obtain ⟨l, v⟩ := p
    cases tfs with
    | nil => simp [canonFieldsWith] at hc
    | cons q tfs =>
      obtain ⟨l', t⟩ := q
      simp only [canonFieldsWith, Bool.and_eq_true, decide_eq_true_eq] at hc
      obtain ⟨⟨hl, hv⟩, hrest⟩ := hc
      subst hl
      obtain ⟨b, bs', h1, h2, h3⟩ := mapOutcomes_cons_ok _ _ _ _ h
      subst h3
      simp only [decFields, List.flatten_cons, List.append_assoc]
      rw [hfc v t b _ hv h1]
      simp only []
      rw [ih tfs bs' r hrest h2]

/-- **M⁻¹ ∘ M = id**: at every type, in every environment, the reader returns exactly the canonical value that
was written and leaves exactly what followed it -/
theorem decVal_ser (env : Env) : ∀ (fuel : Nat) (v : Val) (t : Ty) (fs : Nat) (bs r : Bytes),
    canon env fuel v t = true → serVal fs v = .ok bs → decVal env fuel t (bs ++ r) = .ok (v, r) := by
  intro fuel
  induction fuel with
  | zero => intro v t fs bs r hc; simp [canon] at hc
  | succ fuel ih =>
    intro v t fs bs r hc hs
    cases fs with
    | zero => simp [serVal] at hs
    | succ fs =>
    cases t with
    | prim p =>
      simp only [canon] at hc
      simp only [decVal]
      exact decPrim_ser p v (fs + 1) bs r hc hs
    | principal =>
      simp only [canon] at hc
      cases v <;> simp only [decide_eq_true_eq] at hc <;> try (exact Bool.noConfusion hc)
      simp only [serVal, Outcome.ok.injEq] at hs
      subst hs
      simp only [decVal]
      rw [readPrincipal_ser _ _ hc]
      rfl
    | var x =>
      simp only [canon] at hc
      simp only [decVal]
      cases hf : env.find x with
      | none => rw [hf] at hc; exact Bool.noConfusion hc
      | some t' =>
        rw [hf] at hc
        simp only [] at hc ⊢
        exact ih v t' (fs + 1) bs r hc hs
    | opt t' =>
      simp only [canon] at hc
      cases v <;> try (exact Bool.noConfusion hc)
      case none =>
        simp only [serVal, Outcome.ok.injEq] at hs
        subst hs
        simp [decVal]
      case opt v' =>
        simp only [] at hc
        simp only [serVal] at hs
        cases hv : serVal fs v' with
        | ok b =>
          rw [hv] at hs
          simp only [Outcome.map, Outcome.ok.injEq] at hs
          subst hs
          simp only [decVal, List.cons_append]
          rw [ih v' t' fs b r hc hv]
          simp [Outcome.map]
        | err k => rw [hv] at hs; simp [Outcome.map] at hs
        | panic p => rw [hv] at hs; simp [Outcome.map] at hs
    | vec t' =>
      simp only [canon] at hc
      cases v <;> try (exact Bool.noConfusion hc)
      case vec vs =>
        simp only [Bool.and_eq_true, decide_eq_true_eq, List.all_eq_true] at hc
        simp only [serVal] at hs
        cases hm : mapOutcomes (serVal fs) vs with
        | ok bss =>
          rw [hm] at hs
          simp only [Outcome.map, Outcome.ok.injEq] at hs
          subst hs
          simp only [decVal, List.append_assoc]
          rw [readLenDe_uleb _ _ hc.1]
          simp only []
          rw [decMany_ser (decVal env fuel t') (serVal fs) vs bss r
            (fun e he b r' hb => ih e t' fs b r' (hc.2 e he) hb) hm]
          simp [Outcome.map]
        | err k => rw [hm] at hs; simp [Outcome.map] at hs
        | panic p => rw [hm] at hs; simp [Outcome.map] at hs
    | record tfs =>
      simp only [canon] at hc
      cases v <;> try (exact Bool.noConfusion hc)
      case record vfs =>
        simp only [] at hc
        simp only [serVal] at hs
        cases hm : mapOutcomes (fun (p : Label × Val) => serVal fs p.2) vfs with
        | ok bss =>
          rw [hm] at hs
          simp only [Outcome.map, Outcome.ok.injEq] at hs
          subst hs
          simp only [decVal]
          rw [decFields_ser (decVal env fuel) (serVal fs) (canon env fuel)
            (fun v t b r' hcv hb => ih v t fs b r' hcv hb) vfs tfs.toList bss r hc hm]
          simp [Outcome.map]
        | err k => rw [hm] at hs; simp [Outcome.map] at hs
        | panic p => rw [hm] at hs; simp [Outcome.map] at hs
    | variant tfs =>
      simp only [canon] at hc
      cases v <;> try (exact Bool.noConfusion hc)
      case variant l v' i =>
        simp only [] at hc
        cases hg : tfs.toList[i]? with
        | none => rw [hg] at hc; exact Bool.noConfusion hc
        | some q =>
          obtain ⟨l', t'⟩ := q
          rw [hg] at hc
          simp only [Bool.and_eq_true, decide_eq_true_eq] at hc
          obtain ⟨⟨hl, hi⟩, hv'⟩ := hc
          subst hl
          simp only [serVal] at hs
          cases hv : serVal fs v' with
          | ok b =>
            rw [hv] at hs
            simp only [Outcome.map, Outcome.ok.injEq] at hs
            subst hs
            simp only [decVal, List.append_assoc]
            rw [readLebCrate_uleb _ _ hi]
            simp only [hg]
            rw [ih v' t' fs b r hv' hv]
            simp [Outcome.map]
          | err k => rw [hv] at hs; simp [Outcome.map] at hs
          | panic p => rw [hv] at hs; simp [Outcome.map] at hs
    | func a rr m =>
      simp only [canon] at hc
      cases v <;> try (exact Bool.noConfusion hc)
      case func pid mname =>
        simp only [Bool.and_eq_true, decide_eq_true_eq] at hc
        simp only [serVal, Outcome.ok.injEq] at hs
        subst hs
        simp only [decVal, List.cons_append, List.append_assoc]
        simp only [show ((1 : UInt8) = 0) = False by simp, show ((1 : UInt8) ≠ 1) = False by simp, if_false]
        rw [readPrincipal_ser _ _ hc.1]
        simp only [serText, List.append_assoc]
        rw [readLenDe_uleb _ _ hc.2]
        simp only []
        rw [takeN_append]
        simp only []
        rw [utf8_strBytes]
    | service ms =>
      simp only [canon] at hc
      cases v <;> simp only [decide_eq_true_eq] at hc <;> try (exact Bool.noConfusion hc)
      simp only [serVal, Outcome.ok.injEq] at hs
      subst hs
      simp only [decVal]
      rw [readPrincipal_ser _ _ hc]
      rfl
    | future => simp [canon] at hc
    | knot k => simp [canon] at hc
    | unknown => simp [canon] at hc
    | cls a t => simp [canon] at hc


theorem mapOutcomes_congr_ok {α β : Type} (f g : α → Outcome β) : ∀ (l : List α) (bs : List β),
    (∀ a ∈ l, ∀ b, f a = .ok b → g a = .ok b) → mapOutcomes f l = .ok bs → mapOutcomes g l = .ok bs := by
  intro l
  induction l with
  | nil => intro bs _ h; simpa [mapOutcomes] using h
  | cons a r ih =>
    intro bs hfg h
    obtain ⟨b, bs', h1, h2, h3⟩ := mapOutcomes_cons_ok f a r bs h
    subst h3
    simp only [mapOutcomes]
    rw [hfg a (by simp) b h1]
    simp only []
    rw [ih bs' (fun x hx => hfg x (by simp [hx])) h2]

/-- more nesting budget never changes what the writer produces -/
theorem serVal_mono : ∀ (n : Nat) (v : Val) (bs : Bytes), serVal n v = .ok bs → serVal (n + 1) v = .ok bs := by
  intro n
  induction n with
  | zero => intro v bs h; simp [serVal] at h
  | succ n ih =>
    intro v bs h
    cases v with
    | opt v' =>
      have e1 : serVal (n + 1) (.opt v') = (serVal n v').map fun b => 1 :: b := rfl
      have e2 : serVal (n + 1 + 1) (.opt v') = (serVal (n + 1) v').map fun b => 1 :: b := rfl
      rw [e1] at h; rw [e2]
      cases hv : serVal n v' with
      | ok b => rw [hv] at h; rw [ih v' b hv]; exact h
      | err k => rw [hv] at h; simp [Outcome.map] at h
      | panic p => rw [hv] at h; simp [Outcome.map] at h
    | variant l v' i =>
      have e1 : serVal (n + 1) (.variant l v' i) = (serVal n v').map fun b => uleb i ++ b := rfl
      have e2 : serVal (n + 1 + 1) (.variant l v' i) = (serVal (n + 1) v').map fun b => uleb i ++ b := rfl
      rw [e1] at h; rw [e2]
      cases hv : serVal n v' with
      | ok b => rw [hv] at h; rw [ih v' b hv]; exact h
      | err k => rw [hv] at h; simp [Outcome.map] at h
      | panic p => rw [hv] at h; simp [Outcome.map] at h
    | vec vs =>
      have e1 : serVal (n + 1) (.vec vs) = (mapOutcomes (serVal n) vs).map fun bs => uleb vs.length ++ bs.flatten := rfl
      have e2 : serVal (n + 1 + 1) (.vec vs) = (mapOutcomes (serVal (n + 1)) vs).map fun bs => uleb vs.length ++ bs.flatten := rfl
      rw [e1] at h; rw [e2]
      cases hm : mapOutcomes (serVal n) vs with
      | ok bss =>
        rw [hm] at h
        rw [mapOutcomes_congr_ok (serVal n) (serVal (n + 1)) vs bss (fun a _ b hb => ih a b hb) hm]
        exact h
      | err k => rw [hm] at h; simp [Outcome.map] at h
      | panic p => rw [hm] at h; simp [Outcome.map] at h
    | record fs =>
      have e1 : serVal (n + 1) (.record fs) = (mapOutcomes (fun (p : Label × Val) => serVal n p.2) fs).map List.flatten := rfl
      have e2 : serVal (n + 1 + 1) (.record fs) = (mapOutcomes (fun (p : Label × Val) => serVal (n + 1) p.2) fs).map List.flatten := rfl
      rw [e1] at h; rw [e2]
      cases hm : mapOutcomes (fun (p : Label × Val) => serVal n p.2) fs with
      | ok bss =>
        rw [hm] at h
        rw [mapOutcomes_congr_ok (fun (p : Label × Val) => serVal n p.2) (fun (p : Label × Val) => serVal (n + 1) p.2)
          fs bss (fun a _ b hb => ih a.2 b hb) hm]
        exact h
      | err k => rw [hm] at h; simp [Outcome.map] at h
      | panic p => rw [hm] at h; simp [Outcome.map] at h
    | _ => simpa [serVal] using h

theorem mapOutcomes_total {α β : Type} (f : α → Outcome β) : ∀ (l : List α),
    (∀ a ∈ l, ∃ b, f a = .ok b) → ∃ bs, mapOutcomes f l = .ok bs := by
  intro l
  induction l with
  | nil => intro _; exact ⟨[], rfl⟩
  | cons a r ih =>
    intro h
    obtain ⟨b, hb⟩ := h a (by simp)
    obtain ⟨bs, hbs⟩ := ih (fun x hx => h x (by simp [hx]))
    exact ⟨b :: bs, by simp [mapOutcomes, hb, hbs]⟩

theorem canonFields_total (c : Val → Ty → Bool) (g : Val → Outcome Bytes)
    (h : ∀ v t, c v t = true → ∃ b, g v = .ok b) : ∀ (vfs : List (Label × Val)) (tfs : List (Label × Ty)),
    canonFieldsWith c vfs tfs = true → ∀ p ∈ vfs, ∃ b, g p.2 = .ok b := by
  intro vfs
  induction vfs with
  | nil => intro _ _ p hp; simp at hp
  | cons q vfs ih =>
    intro tfs hc p hp
    obtain ⟨l, v⟩ := q
    cases tfs with
    | nil => simp [canonFieldsWith] at hc
    | cons q' tfs =>
      obtain ⟨l', t⟩ := q'
      simp only [canonFieldsWith, Bool.and_eq_true] at hc
      simp only [List.mem_cons] at hp
      rcases hp with rfl | hp
      · exact h v t hc.1.2
      · exact ih tfs hc.2 p hp

/-- the writer accepts every canonical value, within the nesting budget of its type derivation -/
theorem serVal_canon (env : Env) : ∀ (fuel : Nat) (v : Val) (t : Ty), canon env fuel v t = true →
    ∃ bs, serVal fuel v = .ok bs := by
  intro fuel
  induction fuel with
  | zero => intro v t hc; simp [canon] at hc
  | succ fuel ih =>
    intro v t hc
    cases t with
    | prim p =>
      simp only [canon] at hc
      cases p <;> cases v <;> simp only [canonPrim] at hc <;> try (exact Bool.noConfusion hc)
      all_goals simp [serVal]
    | principal =>
      simp only [canon] at hc
      cases v <;> try (exact Bool.noConfusion hc)
      simp [serVal]
    | var x =>
      simp only [canon] at hc
      cases hf : env.find x with
      | none => rw [hf] at hc; exact Bool.noConfusion hc
      | some t' =>
        rw [hf] at hc
        obtain ⟨bs, hb⟩ := ih v t' hc
        exact ⟨bs, serVal_mono fuel v bs hb⟩
    | opt t' =>
      simp only [canon] at hc
      cases v <;> try (exact Bool.noConfusion hc)
      case none => simp [serVal]
      case opt v' =>
        obtain ⟨b, hb⟩ := ih v' t' hc
        exact ⟨1 :: b, by simp [serVal, hb, Outcome.map]⟩
    | vec t' =>
      simp only [canon] at hc
      cases v <;> try (exact Bool.noConfusion hc)
      case vec vs =>
        simp only [Bool.and_eq_true, decide_eq_true_eq, List.all_eq_true] at hc
        obtain ⟨bss, hb⟩ := mapOutcomes_total (serVal fuel) vs (fun e he => ih e t' (hc.2 e he))
        exact ⟨uleb vs.length ++ bss.flatten, by simp [serVal, hb, Outcome.map]⟩
    | record tfs =>
      simp only [canon] at hc
      cases v <;> try (exact Bool.noConfusion hc)
      case record vfs =>
        obtain ⟨bss, hb⟩ := mapOutcomes_total (fun (p : Label × Val) => serVal fuel p.2) vfs
          (canonFields_total (canon env fuel) (serVal fuel) ih vfs tfs.toList hc)
        exact ⟨bss.flatten, by simp [serVal, hb, Outcome.map]⟩
    | variant tfs =>
      simp only [canon] at hc
      cases v <;> try (exact Bool.noConfusion hc)
      case variant l v' i =>
        simp only [] at hc
        cases hg : tfs.toList[i]? with
        | none => rw [hg] at hc; exact Bool.noConfusion hc
        | some q =>
          rw [hg] at hc
          simp only [Bool.and_eq_true] at hc
          obtain ⟨b, hb⟩ := ih v' q.2 hc.2
          exact ⟨uleb i ++ b, by simp [serVal, hb, Outcome.map]⟩
    | func a rr m =>
      simp only [canon] at hc
      cases v <;> try (exact Bool.noConfusion hc)
      simp [serVal]
    | service ms =>
      simp only [canon] at hc
      cases v <;> try (exact Bool.noConfusion hc)
      simp [serVal]
    | future => simp [canon] at hc
    | knot k => simp [canon] at hc
    | unknown => simp [canon] at hc
    | cls a t => simp [canon] at hc

/-- writer and reader together: every canonical value is written, and what is written reads back as that value -/
theorem value_roundtrip (env : Env) (fuel : Nat) (v : Val) (t : Ty) (hc : canon env fuel v t = true) :
    ∃ bs, serVal fuel v = .ok bs ∧ ∀ r, decVal env fuel t (bs ++ r) = .ok (v, r) := by
  obtain ⟨bs, hb⟩ := serVal_canon env fuel v t hc
  exact ⟨bs, hb, fun r => decVal_ser env fuel v t fuel bs r hc hb⟩

/-- the writer is injective on the canonical values of a type: equal bytes, equal values -/
theorem serVal_injective (env : Env) (fuel : Nat) (v1 v2 : Val) (t : Ty) (n1 n2 : Nat) (bs : Bytes)
    (h1 : canon env fuel v1 t = true) (h2 : canon env fuel v2 t = true)
    (s1 : serVal n1 v1 = .ok bs) (s2 : serVal n2 v2 = .ok bs) : v1 = v2 := by
  have a := decVal_ser env fuel v1 t n1 bs [] h1 s1
  have b := decVal_ser env fuel v2 t n2 bs [] h2 s2
  rw [a] at b
  simp only [Outcome.ok.injEq, Prod.mk.injEq] at b
  exact b.1

/-- a sequence of arguments: the values are read back one after the other -/
theorem decArgs_ser (env : Env) (fuel : Nat) : ∀ (ts : List Ty) (vs : List Val) (bss : List Bytes) (r : Bytes),
    vs.length = ts.length → (∀ p ∈ vs.zip ts, canon env fuel p.1 p.2 = true) →
    mapOutcomes (serVal fuel) vs = .ok bss → decArgs env fuel ts (bss.flatten ++ r) = .ok (vs, r) := by
  intro ts
  induction ts with
  | nil =>
    intro vs bss r hl _ h
    cases vs with
    | nil => simp only [mapOutcomes, Outcome.ok.injEq] at h; subst h; simp [decArgs]
    | cons _ _ => simp at hl
  | cons t ts ih =>
    intro vs bss r hl hc h
    cases vs with
    | nil => simp at hl
    | cons v vs =>
      obtain ⟨b, bs', h1, h2, h3⟩ := mapOutcomes_cons_ok _ _ _ _ h
      subst h3
      simp only [decArgs, List.flatten_cons, List.append_assoc]
      rw [decVal_ser env fuel v t fuel b _ (hc (v, t) (by simp)) h1]
      simp only []
      rw [ih vs bs' r (by simpa using hl) (fun p hp => hc p (by simp [hp])) h2]

end Candid.Wire
