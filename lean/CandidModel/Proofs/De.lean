import CandidModel.De
import CandidModel.Proofs.Readers
/- helper lemmas for C06: the subtype checker, the header parser and the decoder mirror return a value or an
error — never the `panic` outcome — on environments whose names all resolve and that hold no placeholder types -/

namespace Candid.Sub
open Candid

mutual
/-- every name resolves (through aliases) to a definition, no placeholder types -/
def safeTy (env : Env) : Ty → Bool
  | .var x => (recFindFull env x).isSome
  | .knot _ | .unknown => false
  | .opt t | .vec t => safeTy env t
  | .record fs | .variant fs => safeFields env fs
  | .func a r _ => safeTys env a && safeTys env r
  | .service ms => safeMeths env ms
  | .cls a t => safeTys env a && safeTy env t
  | _ => true
def safeFields (env : Env) : Fields → Bool
  | .nil => true
  | .cons _ t r => safeTy env t && safeFields env r
def safeTys (env : Env) : Tys → Bool
  | .nil => true
  | .cons t r => safeTy env t && safeTys env r
def safeMeths (env : Env) : Meths → Bool
  | .nil => true
  | .cons _ t r => safeTy env t && safeMeths env r
end

def SafeEnv (env : Env) : Prop := ∀ x t, env.find x = some t → safeTy env t = true

theorem recFind_is_def (env : Env) : ∀ (n : Nat) (x : String) (d : Ty), recFind env n x = some d → ∃ y, env.find y = some d := by
  intro n
  induction n with
  | zero => intro x d h; simp [recFind] at h
  | succ n ih =>
    intro x d h
    simp only [recFind] at h
    cases hf : env.find x with
    | none => simp [hf] at h
    | some t =>
      rw [hf] at h
      cases t with
      | var y => exact ih y d h
      | _ => simp at h; exact ⟨x, by rw [hf, h]⟩

theorem lookupF_safe (env : Env) : ∀ (fs : Fields) (i : Nat) (t : Ty), safeFields env fs = true → lookupF fs i = some t → safeTy env t = true
  | .nil, _, _, _, h => by simp [lookupF] at h
  | .cons l t' r, i, t, hs, h => by
    simp only [safeFields, Bool.and_eq_true] at hs
    simp only [lookupF] at h
    cases hr : lookupF r i with
    | some t'' => rw [hr] at h; simp at h; subst h; exact lookupF_safe env r i _ hs.2 hr
    | none =>
      rw [hr] at h
      simp only [] at h
      split at h
      · simp at h; subst h; exact hs.1
      · simp at h

theorem lookupM_safe (env : Env) : ∀ (ms : Meths) (x : String) (t : Ty), safeMeths env ms = true → lookupM ms x = some t → safeTy env t = true
  | .nil, _, _, _, h => by simp [lookupM] at h
  | .cons n t' r, x, t, hs, h => by
    simp only [safeMeths, Bool.and_eq_true] at hs
    simp only [lookupM] at h
    cases hr : lookupM r x with
    | some t'' => rw [hr] at h; simp at h; subst h; exact lookupM_safe env r x _ hs.2 hr
    | none =>
      rw [hr] at h
      simp only [] at h
      split at h
      · simp at h; subst h; exact hs.1
      · simp at h

theorem tupleFields_safe (env : Env) : ∀ (ts : Tys) (i : Nat), safeTys env ts = true → safeFields env (tupleFields i ts) = true
  | .nil, _, _ => by simp [tupleFields, safeFields]
  | .cons t r, i, h => by
    simp only [safeTys, Bool.and_eq_true] at h
    simp only [tupleFields, safeFields, Bool.and_eq_true]
    exact ⟨h.1, tupleFields_safe env r (i + 1) h.2⟩

theorem tupleTy_safe (env : Env) (ts : Tys) (h : safeTys env ts = true) : safeTy env (tupleTy ts) = true := by
  simp only [tupleTy, safeTy]; exact tupleFields_safe env ts 0 h

theorem fields_mem_safe (env : Env) : ∀ (fs : Fields) (p : Label × Ty), safeFields env fs = true → p ∈ fs.toList → safeTy env p.2 = true
  | .nil, _, _, h => by simp [Fields.toList] at h
  | .cons l t r, p, hs, h => by
    simp only [safeFields, Bool.and_eq_true] at hs
    simp only [Fields.toList, List.mem_cons] at h
    rcases h with rfl | h
    · exact hs.1
    · exact fields_mem_safe env r p hs.2 h

theorem meths_mem_safe (env : Env) : ∀ (ms : Meths) (p : String × Ty), safeMeths env ms = true → p ∈ ms.toList → safeTy env p.2 = true
  | .nil, _, _, h => by simp [Meths.toList] at h
  | .cons n t r, p, hs, h => by
    simp only [safeMeths, Bool.and_eq_true] at hs
    simp only [Meths.toList, List.mem_cons] at h
    rcases h with rfl | h
    · exact hs.1
    · exact meths_mem_safe env r p hs.2 h

def RNP (r : Res) : Prop := ∀ p, r ≠ .panic p

theorem allM_np {α : Type} (f : Gamma → α → Res) : ∀ (l : List α) (g : Gamma), (∀ g x, x ∈ l → RNP (f g x)) → RNP (allM f g l) := by
  intro l
  induction l with
  | nil => intro g _ p; simp [allM]
  | cons x xs ih =>
    intro g h p
    simp only [allM]
    cases hx : f g x with
    | yes g' => simp only []; exact ih g' (fun g y hy => h g y (by simp [hy])) p
    | no => simp
    | out => simp
    | panic q => exact absurd hx (h g x (by simp) q)


theorem safe_of_recFindFull (env : Env) (hse : SafeEnv env) (x : String) (d : Ty) (h : recFindFull env x = some d) :
    safeTy env d = true := by
  obtain ⟨y, hy⟩ := recFind_is_def env _ x d h
  exact hse y d hy

theorem probe_cases (r : Res) (g : Gamma) : (probe r g).1 = true ∨ (probe r g).1 = false := by
  cases (probe r g).1 <;> simp

theorem subAlg_np (env : Env) (hse : SafeEnv env) : ∀ (n : Nat) (g : Gamma) (a b : Ty),
    safeTy env a = true → safeTy env b = true → RNP (subAlg env n g a b) := by
  intro n
  induction n with
  | zero => intro g a b _ _ p; simp [subAlg]
  | succ n ih =>
    intro g a b ha hb p
    unfold subAlg
    split
    · simp
    · split
      · -- a name on one side
        split
        · simp
        · split
          · -- a = var x
            simp only [safeTy] at ha
            split
            · rename_i heq; rw [heq] at ha; simp at ha
            · rename_i d heq; exact ih _ d _ (safe_of_recFindFull env hse _ d heq) hb p
          · simp only [safeTy] at hb
            split
            · rename_i heq; rw [heq] at hb; simp at hb
            · rename_i d heq; exact ih _ _ d ha (safe_of_recFindFull env hse _ d heq) p
          · -- neither is `var`: one is a knot, which is not safe
            rename_i hname _ h1 h2
            exfalso
            cases a <;> cases b <;> simp_all [isName, safeTy]
      · split
        case h_7 =>
          -- opt / opt: two probes; the answer is `yes` or `no`
          repeat' split
          all_goals simp
        case h_8 =>
          repeat' split
          all_goals simp
        case h_9 =>
          -- records
          simp only [safeTy] at ha hb
          apply allM_np _ _ _ _ p
          intro g' q hq
          have hq2 := fields_mem_safe env _ q hb hq
          split
          · rename_i t1 heq; exact ih _ _ _ (lookupF_safe env _ _ _ ha heq) hq2
          · intro p'; repeat' split
            all_goals simp
        case h_10 =>
          simp only [safeTy] at ha hb
          apply allM_np _ _ _ _ p
          intro g' q hq
          have hq1 := fields_mem_safe env _ q ha hq
          split
          · rename_i t2 heq; exact ih _ _ _ hq1 (lookupF_safe env _ _ _ hb heq)
          · intro p'; simp
        case h_11 =>
          simp only [safeTy] at ha hb
          apply allM_np _ _ _ _ p
          intro g' q hq
          have hq2 := meths_mem_safe env _ q hb hq
          split
          · rename_i t1 heq; exact ih _ _ _ (lookupM_safe env _ _ _ ha heq) hq2
          · intro p'; simp
        case h_12 =>
          simp only [safeTy, Bool.and_eq_true] at ha hb
          split
          · simp
          · have h1 := ih g _ _ (tupleTy_safe env _ hb.1) (tupleTy_safe env _ ha.1)
            split
            · exact ih _ _ _ (tupleTy_safe env _ ha.2) (tupleTy_safe env _ hb.2) p
            · rename_i r hne
              intro hc
              exact h1 p hc
        case h_13 =>
          simp only [safeTy, Bool.and_eq_true] at ha
          exact ih _ _ _ ha.2 hb p
        case h_14 =>
          simp only [safeTy, Bool.and_eq_true] at hb
          exact ih _ _ _ ha hb.2 p
        case h_15 => simp [safeTy] at ha
        case h_16 => simp [safeTy] at hb
        all_goals first
          | (simp; done)
          | (simp only [safeTy] at ha hb; exact ih _ _ _ ha hb p)

end Candid.Sub

namespace Candid.Wire
open Candid Candid.Leb

def ONP {α : Type} (x : Outcome α) : Prop := ∀ p, x ≠ .panic p

theorem onp_map {α β : Type} (x : Outcome α) (f : α → β) (h : ONP x) : ONP (x.map f) := by
  intro p; cases x with
  | ok a => simp [Outcome.map]
  | err k => simp [Outcome.map]
  | panic q => exact absurd rfl (h q)

theorem takeN_onp' (n : Nat) (bs : Bytes) : ONP (takeN n bs) := Readers.takeN_no_panic n bs
theorem readLebCrate_onp' (bs : Bytes) : ONP (readLebCrate bs) := Readers.readLebCrate_no_panic bs
theorem readSlebCrate_onp' (bs : Bytes) : ONP (readSlebCrate bs) := Readers.readSlebCrate_no_panic bs

theorem readIndexType_onp (len : Nat) (bs : Bytes) : ONP (readIndexType len bs) := by
  intro p
  unfold readIndexType
  repeat' split
  all_goals first
    | exact absurd ‹readSlebCrate _ = Outcome.panic _› (readSlebCrate_onp' _ _)
    | simp

theorem readMany_onp {α : Type} (f : Bytes → Outcome (α × Bytes)) (hf : ∀ bs, ONP (f bs)) :
    ∀ (n : Nat) (bs : Bytes), ONP (readMany f n bs) := by
  intro n
  induction n with
  | zero => intro bs p; simp [readMany]
  | succ n ih =>
    intro bs p
    simp only [readMany]
    repeat' split
    all_goals first
      | exact absurd ‹readMany f n _ = Outcome.panic _› (ih _ _)
      | exact absurd ‹f _ = Outcome.panic _› (hf _ _)
      | simp

theorem readField_onp (len : Nat) (bs : Bytes) : ONP (readField len bs) := by
  intro p
  unfold readField
  repeat' split
  all_goals first
    | exact absurd ‹readIndexType _ _ = Outcome.panic _› (readIndexType_onp _ _ _)
    | exact absurd ‹readLebCrate _ = Outcome.panic _› (readLebCrate_onp' _ _)
    | simp

theorem readMeth_onp (len : Nat) (bs : Bytes) : ONP (readMeth len bs) := by
  intro p
  unfold readMeth
  repeat' split
  all_goals first
    | exact absurd ‹readIndexType _ _ = Outcome.panic _› (readIndexType_onp _ _ _)
    | exact absurd ‹readLebCrate _ = Outcome.panic _› (readLebCrate_onp' _ _)
    | exact absurd ‹takeN _ _ = Outcome.panic _› (takeN_onp' _ _ _)
    | simp

theorem readConsType_onp (len : Nat) (bs : Bytes) : ONP (readConsType len bs) := by
  intro p
  unfold readConsType
  repeat' split
  all_goals first
    | exact onp_map _ _ (readIndexType_onp _ _) p
    | exact onp_map _ _ (takeN_onp' _ _) p
    | exact absurd ‹readMany (readIndexType _) _ _ = Outcome.panic _› (readMany_onp _ (readIndexType_onp _) _ _ _)
    | exact absurd ‹readMany (readField _) _ _ = Outcome.panic _› (readMany_onp _ (readField_onp _) _ _ _)
    | exact absurd ‹readMany (readMeth _) _ _ = Outcome.panic _› (readMany_onp _ (readMeth_onp _) _ _ _)
    | exact absurd ‹readLebCrate _ = Outcome.panic _› (readLebCrate_onp' _ _)
    | exact absurd ‹readSlebCrate _ = Outcome.panic _› (readSlebCrate_onp' _ _)
    | simp

theorem parseHeader_onp (bs : Bytes) (maxLen : Nat) : ONP (parseHeader bs maxLen) := by
  intro p
  unfold parseHeader
  repeat' split
  all_goals first
    | exact absurd ‹readMany (readIndexType _) _ _ = Outcome.panic _› (readMany_onp _ (readIndexType_onp _) _ _ _)
    | exact absurd ‹readMany (readConsType _) _ _ = Outcome.panic _› (readMany_onp _ (readConsType_onp _) _ _ _)
    | exact absurd ‹readLebCrate _ = Outcome.panic _› (readLebCrate_onp' _ _)
    | (simp; done)
    | (simp only []; split <;> simp)
    | (intro h; simp only [] at h; split at h <;> simp at h)

end Candid.Wire

namespace Candid.De
open Candid Candid.Wire Candid.Leb

/-- the step neither panics nor needs more than it is given: value, subtype error, or error -/
def NP {α : Type} (x : R α) : Prop := ∀ p, x ≠ .panic p

theorem NP.ok {α : Type} (a : α) (st : St) : NP (R.ok a st) := by intro p; simp
theorem NP.err {α : Type} (k : ErrKind) : NP (R.err k : R α) := by intro p; simp
theorem NP.sub {α : Type} (d s : Option Nat) : NP (R.sub d s : R α) := by intro p; simp
theorem NP.subErr {α : Type} (st : St) : NP (subErr st : R α) := NP.sub _ _

theorem NP.bind {α β : Type} {x : R α} {f : α → St → R β} (hx : NP x) (hf : ∀ a st, NP (f a st)) : NP (x.bind f) := by
  intro p
  cases x with
  | ok a st => exact hf a st p
  | sub d s => simp [R.bind]
  | err k => simp [R.bind]
  | panic q => exact absurd rfl (hx q)

theorem NP.map {α β : Type} {x : R α} {f : α → β} (hx : NP x) : NP (x.map f) :=
  NP.bind hx (fun _ _ => NP.ok _ _)

theorem addCost_np (st : St) (c : Nat) : NP (addCost st c) := by
  intro p; unfold addCost; split
  · simp
  · split <;> simp

def ONP {α : Type} (x : Outcome α) : Prop := ∀ p, x ≠ .panic p

theorem rd_np {α : Type} (f : Bytes → Outcome (α × Bytes)) (hf : ∀ bs, ONP (f bs)) (st : St) : NP (rd f st) := by
  intro p; unfold rd
  cases h : f st.input with
  | ok x => simp
  | err k => simp
  | panic q => exact absurd h (hf _ q)

theorem ofOpt_np {α : Type} (o : Option α) (k : ErrKind) (st : St) : NP (ofOpt o k st) := by
  intro p; cases o <;> simp [ofOpt]

theorem unroll_np (env : Env) (fuel : Nat) (w e : Ty) (st : St) : NP (unroll env fuel w e st) := by
  unfold unroll
  simp only []
  apply NP.bind
  · split
    · exact NP.bind (addCost_np _ _) (fun _ _ => ofOpt_np _ _ _)
    · exact NP.ok _ _
  · intro e' s1
    split
    · exact NP.bind (addCost_np _ _) (fun _ _ => NP.map (ofOpt_np _ _ _))
    · exact NP.ok _ _

theorem outcome_map_onp {α β : Type} (x : Outcome α) (f : α → β) (h : ONP x) : ONP (x.map f) := by
  intro p; cases x with
  | ok a => simp [Outcome.map]
  | err k => simp [Outcome.map]
  | panic q => exact absurd rfl (h q)

theorem takeN_onp (n : Nat) (bs : Bytes) : ONP (takeN n bs) := Readers.takeN_no_panic n bs
theorem readLenDe_onp (bs : Bytes) : ONP (readLenDe bs) := Readers.readLenDe_no_panic bs
theorem readLebCrate_onp (bs : Bytes) : ONP (readLebCrate bs) := Readers.readLebCrate_no_panic bs
theorem readPrincipal_onp (bs : Bytes) : ONP (readPrincipal bs) := Readers.readPrincipal_no_panic bs
theorem readFixed_onp (k : Nat) (bs : Bytes) : ONP (readFixed k bs) := outcome_map_onp _ _ (takeN_onp k bs)

theorem decPrim_onp (p : Prim) (bs : Bytes) : ONP (decPrim p bs) := by
  intro q
  cases p <;> simp only [decPrim]
  case text =>
    cases h1 : readLenDe bs with
    | ok x =>
      obtain ⟨n, r⟩ := x
      simp only []
      cases h2 : takeN n r with
      | ok y => obtain ⟨b, r'⟩ := y; simp only []; split <;> simp
      | err k => simp
      | panic z => exact absurd h2 (takeN_onp _ _ z)
    | err k => simp
    | panic z => exact absurd h1 (readLenDe_onp _ z)
  case bool =>
    split
    · simp
    · split
      · simp
      · split <;> simp
  all_goals first
    | exact outcome_map_onp _ _ (readFixed_onp _ _) q
    | (split <;> simp)
    | simp


theorem intDecodeLoop_onp : ∀ (bs : Bytes) (small shift : Nat), ONP (Impl.intDecodeLoop small shift bs) := by
  intro bs
  induction bs with
  | nil => intro small shift p; simp [Impl.intDecodeLoop]
  | cons b r ih =>
    intro small shift p
    simp only [Impl.intDecodeLoop]
    repeat' split
    all_goals first
      | exact ih _ _ p
      | simp

theorem intAs_onp (bs : Bytes) : ONP (intAs bs) := by
  intro p; unfold intAs
  cases h : Impl.intDecode bs with
  | ok x => simp
  | err k => simp
  | panic q => exact absurd h (intDecodeLoop_onp bs 0 0 q)

theorem natAs_onp (mk : Nat → Val) (bs : Bytes) : ONP (natAs mk bs) := by
  intro p; unfold natAs
  cases h : Impl.natDecode bs with
  | ok x => simp
  | err k => simp
  | panic q => exact absurd h (Readers.natDecode_no_panic bs q)

theorem bigNum_np (f : Bytes → Outcome (Val × Bytes)) (hf : ∀ bs, ONP (f bs)) (st : St) : NP (bigNum f st) := by
  unfold bigNum
  exact NP.bind (rd_np f hf st) (fun _ _ => NP.map (addCost_np _ _))

theorem dePrimExact_np (p : Prim) (c : Nat) (w e : Ty) (st : St) : NP (dePrimExact p c w e st) := by
  unfold dePrimExact
  split
  · exact NP.bind (addCost_np _ _) (fun _ s => rd_np _ (decPrim_onp p) s)
  · exact NP.subErr st

theorem dePrincipalBytes_np (st : St) : NP (dePrincipalBytes st) := by
  unfold dePrincipalBytes
  exact NP.bind (rd_np _ readPrincipal_onp st) (fun _ _ => NP.map (addCost_np _ _))

theorem lenBytes_np (st : St) : NP (lenBytes st) := by
  unfold lenBytes
  exact NP.bind (rd_np _ readLenDe_onp st) (fun n _ => NP.bind (addCost_np _ _) (fun _ s => rd_np _ (takeN_onp n) s))

theorem iterV_np (f : St → R Val) (hf : ∀ s, NP (f s)) : ∀ (n : Nat) (st : St), NP (iterV f n st) := by
  intro n
  induction n with
  | zero => intro st; exact NP.ok _ _
  | succ n ih => intro st; exact NP.bind (hf st) (fun _ s => NP.map (ih s))


end Candid.De

namespace Candid.De
open Candid Candid.Wire Candid.Leb Candid.Sub

/-- the subtype checker does not panic on safe types of this environment -/
def SubSafe (env : Env) : Prop :=
  ∀ g w e p, safeTy env w = true → safeTy env e = true → Sub.subAlg env Sub.defaultFuel g w e ≠ .panic p

theorem subSafe_of_safeEnv (env : Env) (h : SafeEnv env) : SubSafe env :=
  fun g w e p hw he => subAlg_np env h _ g w e hw he p

theorem checkSubtype_np (env : Env) (hs : SubSafe env) (w e : Ty) (hw : safeTy env w = true) (he : safeTy env e = true)
    (st : St) : NP (checkSubtype env w e st) := by
  unfold checkSubtype
  apply NP.bind (addCost_np _ _)
  intro _ s
  cases h : Sub.subAlg env Sub.defaultFuel s.gamma w e with
  | yes g => exact NP.ok _ _
  | no => exact NP.subErr _
  | out => exact NP.subErr _
  | panic p => exact absurd h (hs _ _ _ p hw he)

/-- no panic, and a returned value satisfies `Q` -/
def RP {α : Type} (Q : α → Prop) (x : R α) : Prop := NP x ∧ ∀ a st, x = .ok a st → Q a

theorem RP.bind_np {α β : Type} {Q : α → Prop} {x : R α} {f : α → St → R β} (hx : RP Q x)
    (hf : ∀ a st, Q a → NP (f a st)) : NP (x.bind f) := by
  intro p
  cases hxx : x with
  | ok a st => exact hf a st (hx.2 a st hxx) p
  | sub d s => simp [R.bind]
  | err k => simp [R.bind]
  | panic q => exact absurd hxx (hx.1 q)

theorem trace_safe (env : Env) (hse : SafeEnv env) : ∀ (n : Nat) (t t' : Ty), safeTy env t = true →
    env.trace n t = some t' → safeTy env t' = true := by
  intro n
  induction n with
  | zero => intro t t' _ h; simp [Env.trace] at h
  | succ n ih =>
    intro t t' ht h
    cases t with
    | var x =>
      simp only [Env.trace] at h
      cases hf : env.find x with
      | none => simp [hf] at h
      | some d => rw [hf] at h; exact ih d t' (hse x d hf) h
    | _ => simp [Env.trace] at h; subst h; exact ht

theorem ofOpt_rp {α : Type} (Q : α → Prop) (o : Option α) (k : ErrKind) (st : St) (h : ∀ a, o = some a → Q a) :
    RP Q (ofOpt o k st) := by
  constructor
  · exact ofOpt_np o k st
  · intro a s hh
    cases o with
    | none => simp [ofOpt] at hh
    | some b => simp [ofOpt] at hh; exact hh.1 ▸ h b rfl

theorem unroll_rp (env : Env) (hse : SafeEnv env) (fuel : Nat) (w e : Ty) (hw : safeTy env w = true)
    (he : safeTy env e = true) (st : St) :
    RP (fun we => safeTy env we.1 = true ∧ safeTy env we.2 = true) (unroll env fuel w e st) := by
  refine ⟨unroll_np env fuel w e st, ?_⟩
  intro we s h
  unfold unroll at h
  simp only [] at h
  -- the expected side
  have hE : ∀ e' s1, (if Sub.isName e then (addCost st 1).bind fun _ s => ofOpt (env.trace fuel e) .limit s else .ok e st) = .ok e' s1 →
      safeTy env e' = true := by
    intro e' s1 h1
    split at h1
    · cases hc : addCost st 1 with
      | ok u s2 =>
        rw [hc] at h1; simp only [R.bind] at h1
        cases ht : env.trace fuel e with
        | none => simp [ht, ofOpt] at h1
        | some t => simp [ht, ofOpt] at h1; exact h1.1 ▸ trace_safe env hse fuel e t he ht
      | sub a b => rw [hc] at h1; simp [R.bind] at h1
      | err k => rw [hc] at h1; simp [R.bind] at h1
      | panic q => rw [hc] at h1; simp [R.bind] at h1
    · simp at h1; exact h1.1 ▸ he
  cases hstep : (if Sub.isName e then (addCost st 1).bind fun _ s => ofOpt (env.trace fuel e) .limit s else .ok e st) with
  | ok e' s1 =>
    rw [hstep] at h
    simp only [R.bind] at h
    have he' := hE e' s1 hstep
    split at h
    · cases hc : addCost s1 1 with
      | ok u s2 =>
        rw [hc] at h; simp only [R.bind, R.map] at h
        cases ht : env.trace fuel w with
        | none => simp [ht, ofOpt] at h
        | some t =>
          simp [ht, ofOpt] at h
          obtain ⟨rfl, _⟩ := h
          exact ⟨trace_safe env hse fuel w t hw ht, he'⟩
      | sub a b => rw [hc] at h; simp [R.bind] at h
      | err k => rw [hc] at h; simp [R.bind] at h
      | panic q => rw [hc] at h; simp [R.bind] at h
    · simp at h
      obtain ⟨rfl, _⟩ := h
      exact ⟨hw, he'⟩
  | sub a b => rw [hstep] at h; simp [R.bind] at h
  | err k => rw [hstep] at h; simp [R.bind] at h
  | panic q => rw [hstep] at h; simp [R.bind] at h


def safeStep (env : Env) : FieldStep → Bool
  | .both _ et wt => safeTy env et && safeTy env wt
  | .expectOnly _ et => safeTy env et
  | .wireOnly wt => safeTy env wt
  | .expectTail _ et => safeTy env et

theorem mergeFields_safe (env : Env) : ∀ (n : Nat) (es ws : List (Label × Ty)),
    (∀ p ∈ es, safeTy env p.2 = true) → (∀ p ∈ ws, safeTy env p.2 = true) →
    ∀ s ∈ mergeFields n es ws, safeStep env s = true := by
  intro n
  induction n with
  | zero => intro es ws _ _ s hs; simp [mergeFields] at hs
  | succ n ih =>
    intro es ws he hw s hs
    cases es with
    | nil =>
      cases ws with
      | nil => simp [mergeFields] at hs
      | cons w ws' =>
        obtain ⟨wl, wt⟩ := w
        simp only [mergeFields, List.mem_cons] at hs
        rcases hs with rfl | hs
        · simpa [safeStep] using hw (wl, wt) (by simp)
        · exact ih [] ws' (by simp) (fun p hp => hw p (by simp [hp])) s hs
    | cons e es' =>
      obtain ⟨l, et⟩ := e
      cases ws with
      | nil =>
        simp only [mergeFields, List.mem_cons] at hs
        rcases hs with rfl | hs
        · simpa [safeStep] using he (l, et) (by simp)
        · exact ih es' [] (fun p hp => he p (by simp [hp])) (by simp) s hs
      | cons w ws' =>
        obtain ⟨wl, wt⟩ := w
        simp only [mergeFields] at hs
        have het := he (l, et) (by simp)
        have hwt := hw (wl, wt) (by simp)
        split at hs
        · simp only [List.mem_cons] at hs
          rcases hs with rfl | hs
          · simp [safeStep, het, hwt]
          · exact ih es' ws' (fun p hp => he p (by simp [hp])) (fun p hp => hw p (by simp [hp])) s hs
        · split at hs
          · simp only [List.mem_cons] at hs
            rcases hs with rfl | hs
            · simpa [safeStep] using het
            · exact ih es' ((wl, wt) :: ws') (fun p hp => he p (by simp [hp])) hw s hs
          · simp only [List.mem_cons] at hs
            rcases hs with rfl | hs
            · simpa [safeStep] using hwt
            · exact ih ((l, et) :: es') ws' he (fun p hp => hw p (by simp [hp])) s hs

theorem deOptCase_np (env : Env) (hse : SafeEnv env) (fuel : Nat) (recv : Ty → Ty → St → R Val)
    (hr : ∀ w e st, safeTy env w = true → safeTy env e = true → NP (recv w e st))
    (w e2 : Ty) (hw : safeTy env w = true) (he : safeTy env e2 = true) (s1 : St) :
    NP (deOptCase env fuel recv w e2 s1) := by
  unfold deOptCase
  split
  · exact NP.ok _ _
  · exact NP.ok _ _
  · split
    · exact NP.err _
    · split
      · exact NP.ok _ _
      · split
        · exact hr _ _ _ (by simpa [safeTy] using hw) he
        · exact NP.err _
  · split
    · exact NP.err _
    · rename_i e2' heq
      exact hr _ _ _ hw (trace_safe env hse fuel e2 e2' he heq)

theorem deVariantCase_np (env : Env) (vis : Visitor) (dAny : Ty → Ty → St → R Val) (dIgn : Ty → St → R Val)
    (ha : ∀ w e st, safeTy env w = true → safeTy env e = true → NP (dAny w e st))
    (hi : ∀ w st, safeTy env w = true → NP (dIgn w st)) (w : Ty) (efs : Fields)
    (hw : safeTy env w = true) (he : safeFields env efs = true) (s1 : St) :
    NP (deVariantCase vis dAny dIgn w efs s1) := by
  unfold deVariantCase
  split
  · rename_i wfs
    simp only [safeTy] at hw
    apply NP.bind (rd_np _ readLebCrate_onp _)
    intro idx s2
    split
    · exact NP.err _
    · rename_i wl wt hget
      have hwt : safeTy env wt = true := fields_mem_safe env wfs (wl, wt) hw (List.mem_of_getElem? hget)
      split
      · exact NP.subErr _
      · rename_i el et hfind
        have het : safeTy env et = true := fields_mem_safe env efs (el, et) he (List.mem_of_find?_eq_some hfind)
        apply NP.bind (addCost_np _ _)
        intro _ s3
        simp only []
        apply NP.bind (addCost_np _ _)
        intro _ s4
        repeat' split
        all_goals first
          | exact NP.map (addCost_np _ _)
          | exact NP.subErr _
          | (apply NP.bind (addCost_np _ _)
             intro _ s5
             first
               | exact NP.map (hi _ _ hwt)
               | exact NP.map (ha _ _ _ hwt het)
               | (split
                  · exact NP.map (hi _ _ hwt)
                  · exact NP.map (ha _ _ _ hwt het)))
  · exact NP.subErr _

theorem deVecCase_np (env : Env) (hse : SafeEnv env) (vis : Visitor) (fuel : Nat) (dAny : Ty → Ty → St → R Val)
    (dIgn : Ty → St → R Val)
    (ha : ∀ w e st, safeTy env w = true → safeTy env e = true → NP (dAny w e st))
    (hi : ∀ w st, safeTy env w = true → NP (dIgn w st)) (w ee : Ty)
    (hw : safeTy env w = true) (he : safeTy env ee = true) (s1 : St) :
    NP (deVecCase env vis fuel dAny dIgn w ee s1) := by
  unfold deVecCase
  split
  · rename_i ww
    simp only [safeTy] at hw
    split
    · exact NP.err _
    · rename_i wire hwire
      have hws : safeTy env wire = true := trace_safe env hse fuel ww wire hw hwire
      apply NP.bind (rd_np _ readLenDe_onp _)
      intro n s2
      split
      · simp only []
        split
        · exact NP.err _
        · apply NP.bind (addCost_np _ _)
          intro _ s3
          split
          · exact NP.err _
          · exact NP.map (iterV_np _ (fun s => rd_np _ (decPrim_onp _) s) _ _)
      · try simp only []
        split
        · split
          · exact NP.err _
          · apply NP.bind (addCost_np _ _)
            intro _ s3
            apply NP.map
            apply iterV_np
            intro s
            split
            · exact bigNum_np _ (natAs_onp _) _
            · exact bigNum_np _ intAs_onp _
        · apply NP.map
          apply iterV_np
          intro s
          apply NP.bind (addCost_np _ _)
          intro _ s'
          split
          · exact hi _ _ hws
          · exact ha _ _ _ hws he
  · exact NP.subErr _


theorem deBlobCase_np (env : Env) (w : Ty) (st : St) : NP (deBlobCase env w st) := by
  unfold deBlobCase
  split
  · exact NP.map (lenBytes_np _)
  · split
    · apply NP.bind (rd_np _ readLenDe_onp _)
      intro n s
      split
      · exact NP.subErr _
      · exact NP.map (addCost_np _ _)
    · exact NP.subErr _

theorem deFuncCase_np (w : Ty) (s1 : St) : NP (deFuncCase w s1) := by
  unfold deFuncCase
  split
  · split
    · exact NP.err _
    · split
      · exact NP.err _
      · split
        · exact NP.err _
        · apply NP.bind (rd_np _ readPrincipal_onp _)
          intro pid s2
          apply NP.bind (rd_np _ readLenDe_onp _)
          intro n s3
          apply NP.bind (rd_np _ (takeN_onp n) _)
          intro m s4
          apply NP.bind (addCost_np _ _)
          intro _ s5
          split
          · exact NP.ok _ _
          · exact NP.err _
  · exact NP.subErr _


theorem find_mem_safe (env : Env) (fs : Fields) (hs : safeFields env fs = true) (p : Label × Ty) (h : p ∈ fs.toList) :
    safeTy env p.2 = true := fields_mem_safe env fs p hs h

theorem deAnyBody_np (env : Env) (hse : SafeEnv env) (vis : Visitor) (f : Nat)
    (dAny : Ty → Ty → St → R Val) (dIgn : Ty → St → R Val) (dRec : Ty → Ty → St → R Val)
    (dFld : List FieldStep → St → List (Label × Val) → R Val)
    (ha : ∀ w e st, safeTy env w = true → safeTy env e = true → NP (dAny w e st))
    (hi : ∀ w st, safeTy env w = true → NP (dIgn w st))
    (hr : ∀ w e st, safeTy env w = true → safeTy env e = true → NP (dRec w e st))
    (hf : ∀ steps st acc, (∀ s ∈ steps, safeStep env s = true) → NP (dFld steps st acc))
    (w e : Ty) (hw : safeTy env w = true) (he : safeTy env e = true) (st : St) :
    NP (deAnyBody env vis f dAny dIgn dRec dFld w e st) := by
  have hs := subSafe_of_safeEnv env hse
  unfold deAnyBody
  cases e with
  | prim p =>
    cases p <;> simp only []
    case int => repeat' split
                all_goals first | exact bigNum_np _ intAs_onp _ | exact bigNum_np _ (natAs_onp _) _ | exact NP.subErr _
    case nat => split
                · exact bigNum_np _ (natAs_onp _) _
                · exact NP.subErr _
    case text =>
      split
      · apply NP.bind (lenBytes_np _)
        intro b s
        split
        · exact NP.ok _ _
        · exact NP.err _
      · exact NP.subErr _
    case reserved =>
      apply NP.bind
      · split
        · exact hi _ _ hw
        · exact NP.ok _ _
      · intro _ s; exact NP.map (addCost_np _ _)
    case empty => split
                  · exact NP.err _
                  · exact NP.subErr _
    all_goals exact dePrimExact_np _ _ _ _ _
  | principal =>
    simp only []
    repeat' split
    all_goals first | exact NP.map (dePrincipalBytes_np _) | exact NP.subErr _
  | opt e2 =>
    simp only []
    apply NP.bind (addCost_np _ _)
    intro _ s1
    exact deOptCase_np env hse f _ hr _ _ hw (by simpa [safeTy] using he) _
  | vec ee =>
    simp only []
    split
    · exact deBlobCase_np _ _ _
    · apply NP.bind (addCost_np _ _)
      intro _ s1
      exact deVecCase_np env hse vis f _ _ ha hi _ _ hw (by simpa [safeTy] using he) _
  | record efs =>
    simp only []
    apply NP.bind (addCost_np _ _)
    intro _ s1
    split
    · rename_i wfs
      apply hf
      apply mergeFields_safe
      · intro p hp; exact fields_mem_safe env efs p (by simpa [safeTy] using he) hp
      · intro p hp; exact fields_mem_safe env wfs p (by simpa [safeTy] using hw) hp
    · exact NP.subErr _
  | variant efs =>
    simp only []
    apply NP.bind (addCost_np _ _)
    intro _ s1
    exact deVariantCase_np env vis _ _ ha hi _ _ hw (by simpa [safeTy] using he) _
  | service ms =>
    simp only []
    apply NP.bind (checkSubtype_np env hs _ _ hw he _)
    intro _ s1
    split
    · exact NP.map (dePrincipalBytes_np _)
    · exact NP.subErr _
  | func a r m =>
    simp only []
    apply NP.bind (checkSubtype_np env hs _ _ hw he _)
    intro _ s1
    exact deFuncCase_np _ _
  | future =>
    simp only []
    apply NP.bind (rd_np _ readLenDe_onp _)
    intro n s1
    apply NP.bind (addCost_np _ _)
    intro _ s2
    apply NP.bind (rd_np _ readLenDe_onp _)
    intro _ s3
    exact NP.map (rd_np _ (takeN_onp _) _)
  | var x => simp only []; exact NP.err _
  | knot k => simp only []; exact NP.err _
  | unknown => simp only []; exact NP.err _
  | cls a t => simp only []; exact NP.err _


theorem deAny_succ (env : Env) (vis : Visitor) (f : Nat) (w0 e0 : Ty) (st0 : St) :
    deAny env vis (f + 1) w0 e0 st0 = (unroll env f w0 e0 st0).bind fun we st =>
      deAnyBody env vis f (deAny env vis f) (deIgnored env f) (recoverable env vis f) (deFields env vis f) we.1 we.2 st := by
  rfl

theorem deAny_zero (env : Env) (vis : Visitor) (w e : Ty) (st : St) : deAny env vis 0 w e st = .err .limit := rfl
theorem deIgnored_zero (env : Env) (w : Ty) (st : St) : deIgnored env 0 w st = .err .limit := rfl
theorem recoverable_zero (env : Env) (vis : Visitor) (w e : Ty) (st : St) : recoverable env vis 0 w e st = .err .limit := rfl
theorem deFields_zero (env : Env) (vis : Visitor) (steps : List FieldStep) (st : St) (acc : List (Label × Val)) :
    deFields env vis 0 steps st acc = .err .limit := rfl

theorem deIgnored_succ (env : Env) (f : Nat) (w : Ty) (st : St) :
    deIgnored env (f + 1) w st =
      (deAny env .ignored f w w { st with untyped := true }).bind fun v s => .ok v { s with untyped := st.untyped } := rfl

theorem recoverable_succ (env : Env) (vis : Visitor) (f : Nat) (w e : Ty) (st : St) :
    recoverable env vis (f + 1) w e st =
      (match (if vis = .ignored then deIgnored env f w st else deAny env vis f w e st) with
       | .ok v s => .ok (.opt v) s
       | .sub dq sq =>
         (addCost { st with dq := dq, sq := sq } 10).bind fun _ s1 => (deIgnored env f w s1).map fun _ => .none
       | .err k => .err k
       | .panic p => .panic p) := rfl


theorem deFields_step_np (env : Env) (hse : SafeEnv env) (vis : Visitor) (f : Nat)
    (ha : ∀ vis w e st, safeTy env w = true → safeTy env e = true → NP (deAny env vis f w e st))
    (hi : ∀ w st, safeTy env w = true → NP (deIgnored env f w st))
    (hf : ∀ vis steps st acc, (∀ s ∈ steps, safeStep env s = true) → NP (deFields env vis f steps st acc))
    (steps : List FieldStep) (hsafe : ∀ s ∈ steps, safeStep env s = true) (st : St) (acc : List (Label × Val)) :
    NP (deFields env vis (f + 1) steps st acc) := by
  cases steps with
  | nil => unfold deFields; exact NP.map (addCost_np _ _)
  | cons step rest =>
    have hstep := hsafe step (by simp)
    have hrest : ∀ s ∈ rest, safeStep env s = true := fun s hs => hsafe s (by simp [hs])
    unfold deFields
    apply NP.bind (addCost_np _ _)
    intro _ s1
    cases step with
    | both l et wt =>
      simp only [safeStep, Bool.and_eq_true] at hstep
      simp only []
      apply NP.bind (addCost_np _ _); intro _ s2
      apply NP.bind (addCost_np _ _); intro _ s3
      apply NP.bind
      · split
        · exact hi _ _ hstep.2
        · exact ha _ _ _ _ hstep.2 hstep.1
      · intro v s4; exact hf _ _ _ _ hrest
    | expectOnly l et =>
      simp only [safeStep] at hstep
      simp only []
      split
      · exact NP.err _
      · rename_i et' heq
        split
        · exact NP.subErr _
        · apply NP.bind (addCost_np _ _); intro _ s2
          apply NP.bind (addCost_np _ _); intro _ s3
          apply NP.bind (ha _ _ _ _ (by simp [safeTy]) (trace_safe env hse f et et' hstep heq)); intro v s4
          exact hf _ _ _ _ hrest
    | expectTail l et =>
      simp only [safeStep] at hstep
      simp only []
      apply NP.bind (addCost_np _ _); intro _ s2
      apply NP.bind (addCost_np _ _); intro _ s3
      apply NP.bind (ha _ _ _ _ (by simp [safeTy]) hstep); intro v s4
      exact hf _ _ _ _ hrest
    | wireOnly wt =>
      simp only [safeStep] at hstep
      simp only []
      apply NP.bind (addCost_np _ _); intro _ s2
      apply NP.bind (addCost_np _ _); intro _ s3
      apply NP.bind (ha _ _ _ _ hstep (by simp [safeTy])); intro v s4
      exact hf _ _ _ _ hrest

/-- the four mutually recursive entry points of the decoder return a value, a subtype error or an error on
every input, at every depth, for types of a safe environment -/
theorem de_np (env : Env) (hse : SafeEnv env) : ∀ fuel : Nat,
    (∀ vis w e st, safeTy env w = true → safeTy env e = true → NP (deAny env vis fuel w e st)) ∧
    (∀ w st, safeTy env w = true → NP (deIgnored env fuel w st)) ∧
    (∀ vis w e st, safeTy env w = true → safeTy env e = true → NP (recoverable env vis fuel w e st)) ∧
    (∀ vis steps st acc, (∀ s ∈ steps, safeStep env s = true) → NP (deFields env vis fuel steps st acc)) := by
  intro fuel
  induction fuel with
  | zero =>
    refine ⟨?_, ?_, ?_, ?_⟩
    · intro vis w e st _ _; rw [deAny_zero]; exact NP.err _
    · intro w st _; rw [deIgnored_zero]; exact NP.err _
    · intro vis w e st _ _; rw [recoverable_zero]; exact NP.err _
    · intro vis steps st acc _; rw [deFields_zero]; exact NP.err _
  | succ f ih =>
    obtain ⟨ihAny, ihIgn, ihRec, ihFld⟩ := ih
    refine ⟨?_, ?_, ?_, ?_⟩
    · intro vis w0 e0 st0 hw he
      rw [deAny_succ]
      apply RP.bind_np (unroll_rp env hse f w0 e0 hw he st0)
      intro we st hsafe
      exact deAnyBody_np env hse vis f _ _ _ _ (ihAny vis) ihIgn (ihRec vis) (ihFld vis) _ _ hsafe.1 hsafe.2 _
    · intro w st hw
      rw [deIgnored_succ]
      exact NP.bind (ihAny _ _ _ _ hw hw) (fun _ _ => NP.ok _ _)
    · intro vis w e st hw he
      rw [recoverable_succ]
      have hinner : NP (if vis = Visitor.ignored then deIgnored env f w st else deAny env vis f w e st) := by
        split
        · exact ihIgn _ _ hw
        · exact ihAny _ _ _ _ hw he
      cases hx : (if vis = Visitor.ignored then deIgnored env f w st else deAny env vis f w e st) with
      | ok v s => exact NP.ok _ _
      | sub dq sq =>
        simp only []
        apply NP.bind (addCost_np _ _)
        intro _ s1
        exact NP.map (ihIgn _ _ hw)
      | err k => exact NP.err _
      | panic p => exact absurd hx (hinner p)
    · intro vis steps st acc hsafe
      exact deFields_step_np env hse vis f ihAny ihIgn ihFld steps hsafe st acc

theorem drain_np (env : Env) (hse : SafeEnv env) : ∀ (ws : List Ty) (st : St), (∀ w ∈ ws, safeTy env w = true) →
    NP (argLoop.drain env ws st) := by
  intro ws
  induction ws with
  | nil => intro st _; unfold argLoop.drain; exact NP.ok _ _
  | cons w ws ih =>
    intro st h
    unfold argLoop.drain
    apply NP.bind ((de_np env hse defaultFuel).2.1 _ _ (h w (by simp)))
    intro _ s'
    exact ih s' (fun x hx => h x (by simp [hx]))

theorem argLoop_np (env : Env) (hse : SafeEnv env) : ∀ (es ws : List Ty) (st : St) (acc : List Val),
    (∀ e ∈ es, safeTy env e = true) → (∀ w ∈ ws, safeTy env w = true) → NP (argLoop env es ws st acc) := by
  intro es
  induction es with
  | nil =>
    intro ws st acc _ hw
    unfold argLoop
    apply NP.bind (drain_np env hse ws st hw)
    intro _ s
    split
    · exact NP.ok _ _
    · exact NP.err _
  | cons e es ih =>
    intro ws st acc he hw
    unfold argLoop
    simp only []
    split
    · exact NP.err _
    · rename_i e' htr
      have he' : safeTy env e' = true := trace_safe env hse _ e e' (he e (by simp)) htr
      have hes : ∀ x ∈ es, safeTy env x = true := fun x hx => he x (by simp [hx])
      split
      · split
        · apply NP.bind ((de_np env hse defaultFuel).1 _ _ _ _ (by simp [safeTy]) he')
          intro v s; exact ih [] s _ hes (by simp)
        · exact NP.err _
      · rename_i w ws'
        apply NP.bind ((de_np env hse defaultFuel).1 _ _ _ _ (hw w (by simp)) he')
        intro v s; exact ih ws' s _ hes (fun x hx => hw x (by simp [hx]))


/-- the environment and the expected types the decoder works with after the header -/
def workEnv (h : Header) (env : Env) (expected : List Ty) : Env × List Ty :=
  if expected.isEmpty then (h.table, expected) else mergeEnv h.table env expected

/-- **decoding never reaches a panic** when the working environment is safe (all names resolve, no placeholder
types): every byte string yields values or an error, under every quota -/
theorem decodeWithConfig_np (bs : Bytes) (env : Env) (expected : List Ty) (cfg : Config)
    (hsafe : ∀ h body, parseHeader bs = .ok (h, body) →
      SafeEnv (workEnv h env expected).1 ∧ (∀ e ∈ (workEnv h env expected).2, safeTy (workEnv h env expected).1 e = true) ∧
      (∀ w ∈ h.args, safeTy (workEnv h env expected).1 w = true)) :
    NP (decodeWithConfig bs env expected cfg) := by
  unfold decodeWithConfig
  cases hp : parseHeader bs with
  | err k => exact NP.err _
  | panic q => exact absurd hp (parseHeader_onp bs _ q)
  | ok x =>
    obtain ⟨h, body⟩ := x
    obtain ⟨h1, h2, h3⟩ := hsafe h body hp
    simp only []
    have hw : (if expected.isEmpty = true then (h.table, expected) else mergeEnv h.table env expected) = workEnv h env expected := rfl
    rw [hw]
    cases hwe : workEnv h env expected with
    | mk full expected' =>
      rw [hwe] at h1 h2 h3
      simp only []
      apply NP.bind (addCost_np _ _)
      intro _ st1
      exact argLoop_np full h1 expected' h.args st1 [] h2 h3

end Candid.De
