import CandidModel.TypeEq
import CandidModel.Proofs.SubSound
/- helper lemmas for C05: the structural-equality algorithm (`equal_impl`, memo of assumed pairs) is sound for the
specification of type equality (`TyEq`, greatest fixed point of the congruence rules) -/
namespace Candid.Sub
open Candid

theorem FieldsEq_mono {R S : Rel} (h : ∀ a b, R a b → S a b) {fs1 fs2 : Fields} (hf : FieldsEq R fs1 fs2) :
    FieldsEq S fs1 fs2 :=
  ⟨hf.1, fun p hp => ⟨(hf.2 p hp).1, h _ _ (hf.2 p hp).2⟩⟩

theorem MethsEq_mono {R S : Rel} (h : ∀ a b, R a b → S a b) {ms1 ms2 : Meths} (hf : MethsEq R ms1 ms2) :
    MethsEq S ms1 ms2 :=
  ⟨hf.1, fun p hp => ⟨(hf.2 p hp).1, h _ _ (hf.2 p hp).2⟩⟩

section
variable {env : Env} {R : Rel}
theorem FE.refl (a : Ty) : FE env R a a := Or.inl rfl
theorem FE.opt (a' b' : Ty) (h : R a' b') : FE env R (.opt a') (.opt b') := Or.inr (Or.inl ⟨a', b', rfl, rfl, h⟩)
theorem FE.vec (a' b' : Ty) (h : R a' b') : FE env R (.vec a') (.vec b') := Or.inr (Or.inr (Or.inl ⟨a', b', rfl, rfl, h⟩))
theorem FE.record (fs1 fs2 : Fields) (h : FieldsEq R fs1 fs2) : FE env R (.record fs1) (.record fs2) :=
  Or.inr (Or.inr (Or.inr (Or.inl ⟨fs1, fs2, rfl, rfl, h⟩)))
theorem FE.variant (fs1 fs2 : Fields) (h : FieldsEq R fs1 fs2) : FE env R (.variant fs1) (.variant fs2) :=
  Or.inr (Or.inr (Or.inr (Or.inr (Or.inl ⟨fs1, fs2, rfl, rfl, h⟩))))
theorem FE.func (a1 r1 : Tys) (m : List FuncMode) (a2 r2 : Tys) (ha : R (tupleTy a1) (tupleTy a2)) (hr : R (tupleTy r1) (tupleTy r2)) :
    FE env R (.func a1 r1 m) (.func a2 r2 m) :=
  Or.inr (Or.inr (Or.inr (Or.inr (Or.inr (Or.inl ⟨a1, r1, m, a2, r2, rfl, rfl, ha, hr⟩)))))
theorem FE.service (ms1 ms2 : Meths) (h : MethsEq R ms1 ms2) : FE env R (.service ms1) (.service ms2) :=
  Or.inr (Or.inr (Or.inr (Or.inr (Or.inr (Or.inr (Or.inl ⟨ms1, ms2, rfl, rfl, h⟩))))))
theorem FE.cls (i1 : Tys) (t1 : Ty) (i2 : Tys) (t2 : Ty) (hi : R (tupleTy i1) (tupleTy i2)) (ht : R t1 t2) :
    FE env R (.cls i1 t1) (.cls i2 t2) :=
  Or.inr (Or.inr (Or.inr (Or.inr (Or.inr (Or.inr (Or.inr (Or.inl ⟨i1, t1, i2, t2, rfl, rfl, hi, ht⟩)))))))
theorem FE.varL (x : String) (d b : Ty) (hf : recFindFull env x = some d) (h : R d b) : FE env R (.var x) b :=
  Or.inr (Or.inr (Or.inr (Or.inr (Or.inr (Or.inr (Or.inr (Or.inr (Or.inl ⟨x, d, rfl, hf, h⟩))))))))
theorem FE.varR (a : Ty) (x : String) (d : Ty) (hf : recFindFull env x = some d) (h : R a d) : FE env R a (.var x) :=
  Or.inr (Or.inr (Or.inr (Or.inr (Or.inr (Or.inr (Or.inr (Or.inr (Or.inr ⟨x, d, rfl, hf, h⟩))))))))
end

/-- the rule functional is monotone -/
theorem FE_mono {env : Env} {R S : Rel} (h : ∀ a b, R a b → S a b) : ∀ a b, FE env R a b → FE env S a b := by
  intro a b hF
  unfold FE at hF
  rcases hF with h1 | ⟨a', b', e1, e2, r⟩ | ⟨a', b', e1, e2, r⟩ | ⟨fs1, fs2, e1, e2, r⟩ | ⟨fs1, fs2, e1, e2, r⟩ |
    ⟨a1, r1, m, a2, r2, e1, e2, ra, rr⟩ | ⟨ms1, ms2, e1, e2, r⟩ | ⟨i1, t1, i2, t2, e1, e2, ri, rt⟩ |
    ⟨x, d, e1, e2, r⟩ | ⟨x, d, e1, e2, r⟩
  · subst h1; exact FE.refl _
  · subst e1; subst e2; exact FE.opt _ _ (h _ _ r)
  · subst e1; subst e2; exact FE.vec _ _ (h _ _ r)
  · subst e1; subst e2; exact FE.record _ _ (FieldsEq_mono h r)
  · subst e1; subst e2; exact FE.variant _ _ (FieldsEq_mono h r)
  · subst e1; subst e2; exact FE.func _ _ _ _ _ (h _ _ ra) (h _ _ rr)
  · subst e1; subst e2; exact FE.service _ _ (MethsEq_mono h r)
  · subst e1; subst e2; exact FE.cls _ _ _ _ (h _ _ ri) (h _ _ rt)
  · subst e1; exact FE.varL _ d _ e2 (h _ _ r)
  · subst e1; exact FE.varR _ _ d e2 (h _ _ r)

theorem tyeq_unfold {env : Env} {a b : Ty} (h : TyEq env a b) : FE env (TyEq env) a b := by
  obtain ⟨R, hR, hab⟩ := h
  exact FE_mono (fun a b r => ⟨R, hR, r⟩) a b (hR a b hab)

theorem tyeq_coind {env : Env} (R : Rel) (hR : ∀ a b, R a b → FE env R a b) : ∀ a b, R a b → TyEq env a b :=
  fun _ _ r => ⟨R, hR, r⟩

/-- the greatest fixed point is closed under the rules -/
theorem tyeq_fold {env : Env} {a b : Ty} (h : FE env (TyEq env) a b) : TyEq env a b :=
  tyeq_coind (FE env (TyEq env)) (fun _ _ hxy => FE_mono (fun _ _ r => tyeq_unfold r) _ _ hxy) a b h

theorem tyeq_refl (env : Env) (a : Ty) : TyEq env a a := tyeq_fold (FE.refl a)

/-! ### derivations from a set of assumed pairs -/

def EDk (env : Env) (G : Gamma) : Nat → Rel
  | 0 => fun a b => (a, b) ∈ G
  | k + 1 => fun a b => (a, b) ∈ G ∨ FE env (EDk env G k) a b

theorem EDk_succ (env : Env) (G : Gamma) : ∀ (k : Nat) (a b : Ty), EDk env G k a b → EDk env G (k + 1) a b := by
  intro k
  induction k with
  | zero => intro a b h; exact Or.inl h
  | succ k ih =>
    intro a b h
    rcases h with h | h
    · exact Or.inl h
    · exact Or.inr (FE_mono (fun x y hxy => ih x y hxy) a b h)

theorem EDk_le (env : Env) (G : Gamma) (k m : Nat) (h : k ≤ m) (a b : Ty) (hd : EDk env G k a b) : EDk env G m a b := by
  induction m with
  | zero => have : k = 0 := by omega
            subst this; exact hd
  | succ m ih =>
    by_cases hk : k = m + 1
    · subst hk; exact hd
    · exact EDk_succ env G m a b (ih (by omega))

theorem EDk_mono (env : Env) (G G' : Gamma) (hG : ∀ p ∈ G, p ∈ G') : ∀ (k : Nat) (a b : Ty), EDk env G k a b → EDk env G' k a b := by
  intro k
  induction k with
  | zero => intro a b h; exact hG _ h
  | succ k ih =>
    intro a b h
    rcases h with h | h
    · exact Or.inl (hG _ h)
    · exact Or.inr (FE_mono (fun x y hxy => ih x y hxy) a b h)

theorem EDk_step (env : Env) (G : Gamma) (k : Nat) (a b : Ty) (h : FE env (EDk env G k) a b) : EDk env G (k + 1) a b := Or.inr h

def EJustified (env : Env) (G : Gamma) : Prop := ∀ p ∈ G, ∃ k, FE env (EDk env G k) p.1 p.2

theorem tyeq_of_EDk (env : Env) (G : Gamma) (hj : EJustified env G) (k : Nat) (a b : Ty) (h : EDk env G k a b) : TyEq env a b := by
  apply tyeq_coind (fun x y => ∃ k, EDk env G k x y) _ a b ⟨k, h⟩
  intro x y ⟨k, hk⟩
  have lift : ∀ j, ∀ u v, EDk env G j u v → ∃ k, EDk env G k u v := fun j u v h => ⟨j, h⟩
  cases k with
  | zero =>
    obtain ⟨j, hj'⟩ := hj (x, y) hk
    exact FE_mono (lift j) x y hj'
  | succ k =>
    rcases hk with hk | hk
    · obtain ⟨j, hj'⟩ := hj (x, y) hk
      exact FE_mono (lift j) x y hj'
    · exact FE_mono (lift k) x y hk

structure EMJ (env : Env) (g g' : Gamma) : Prop where
  mono : ∀ p ∈ g, p ∈ g'
  just : ∀ p ∈ g', p ∈ g ∨ ∃ k, FE env (EDk env g' k) p.1 p.2

theorem EMJ.refl (env : Env) (g : Gamma) : EMJ env g g := ⟨fun _ h => h, fun _ h => Or.inl h⟩

theorem EMJ.trans {env : Env} {g g1 g2 : Gamma} (h1 : EMJ env g g1) (h2 : EMJ env g1 g2) : EMJ env g g2 where
  mono := fun p hp => h2.mono p (h1.mono p hp)
  just := fun p hp => by
    rcases h2.just p hp with h | h
    · rcases h1.just p h with h' | ⟨k, hk⟩
      · exact Or.inl h'
      · exact Or.inr ⟨k, FE_mono (fun x y hxy => EDk_mono env g1 g2 h2.mono k x y hxy) _ _ hk⟩
    · exact Or.inr h

theorem EallM_spec {α : Type} (env : Env) (f : Gamma → α → Res) (Q : Gamma → α → Prop)
    (hQ : ∀ G G' x, (∀ p ∈ G, p ∈ G') → Q G x → Q G' x) :
    ∀ (l : List α) (g g' : Gamma), (∀ g0 x g1, x ∈ l → f g0 x = .yes g1 → EMJ env g0 g1 ∧ Q g1 x) →
      allM f g l = .yes g' → EMJ env g g' ∧ ∀ x ∈ l, Q g' x := by
  intro l
  induction l with
  | nil => intro g g' _ h; simp [allM] at h; subst h; exact ⟨EMJ.refl env g, fun _ hx => by simp at hx⟩
  | cons x xs ih =>
    intro g g' hf h
    simp only [allM] at h
    cases hx : f g x with
    | yes g1 =>
      rw [hx] at h
      simp only [] at h
      obtain ⟨hmj1, hq1⟩ := hf g x g1 (by simp) hx
      obtain ⟨hmj2, hq2⟩ := ih g1 g' (fun g0 y g2 hy => hf g0 y g2 (by simp [hy])) h
      refine ⟨hmj1.trans hmj2, ?_⟩
      intro y hy
      simp only [List.mem_cons] at hy
      rcases hy with rfl | hy
      · exact hQ g1 g' _ hmj2.mono hq1
      · exact hq2 y hy
    | no => rw [hx] at h; simp at h
    | out => rw [hx] at h; simp at h
    | panic s => rw [hx] at h; simp at h

structure EOk (env : Env) (g g' : Gamma) (a b : Ty) : Prop where
  mj : EMJ env g g'
  der : ∃ k, EDk env g' k a b

theorem EOk.of_F {env : Env} {g g' : Gamma} {a b : Ty} (mj : EMJ env g g') (k : Nat) (h : FE env (EDk env g' k) a b) : EOk env g g' a b :=
  ⟨mj, k + 1, EDk_step env g' k a b h⟩

theorem mem_cons_EMJ {env : Env} {g g' : Gamma} {a b : Ty} (h : EMJ env ((a, b) :: g) g') (k : Nat)
    (hf : FE env (EDk env g' k) a b) : EMJ env g g' where
  mono := fun p hp => h.mono p (by simp [hp])
  just := fun p hp => by
    rcases h.just p hp with h' | h'
    · simp only [List.mem_cons] at h'
      rcases h' with rfl | h'
      · exact Or.inr ⟨k, hf⟩
      · exact Or.inl h'
    · exact Or.inr h'

/-- the pairs checked position by position -/
theorem zip_checks {α : Type} (env : Env) (n : Nat) (key : α → α → Prop) [∀ x y, Decidable (key x y)]
    (l : List ((α × Ty) × (α × Ty))) (g g' : Gamma)
    (ih : ∀ (g g' : Gamma) (a b : Ty), eqAlg env n g a b = .yes g' → EOk env g g' a b)
    (h : allM (fun g (p : (α × Ty) × (α × Ty)) => if ¬ key p.1.1 p.2.1 then Res.no else eqAlg env n g p.1.2 p.2.2) g l = .yes g') :
    EMJ env g g' ∧ ∃ K, ∀ p ∈ l, key p.1.1 p.2.1 ∧ EDk env g' K p.1.2 p.2.2 := by
  have hspec := EallM_spec env _
    (fun G (p : (α × Ty) × (α × Ty)) => key p.1.1 p.2.1 ∧ ∃ k, EDk env G k p.1.2 p.2.2)
    (by
      intro G G' x hGG ⟨hk, k, hd⟩
      exact ⟨hk, k, EDk_mono env G G' hGG k _ _ hd⟩)
    l g g'
    (by
      intro g0 x g1 _ hfx
      split at hfx
      · simp at hfx
      · rename_i hk
        obtain ⟨mj, hd⟩ := ih g0 g1 _ _ hfx
        exact ⟨mj, Classical.not_not.mp hk, hd⟩)
    h
  obtain ⟨mj, hall⟩ := hspec
  refine ⟨mj, ?_⟩
  apply uniform_bound env g' (fun K (p : (α × Ty) × (α × Ty)) => key p.1.1 p.2.1 ∧ EDk env g' K p.1.2 p.2.2)
  · intro k m x hkm ⟨hk, hp⟩
    exact ⟨hk, EDk_le env g' k m hkm _ _ hp⟩
  · intro x hx
    obtain ⟨hk, k, hd⟩ := hall x hx
    exact ⟨k, hk, hd⟩

theorem eqAlg_sound (env : Env) : ∀ (n : Nat) (g g' : Gamma) (a b : Ty),
    eqAlg env n g a b = .yes g' → EOk env g g' a b := by
  intro n
  induction n with
  | zero => intro g g' a b h; simp [eqAlg] at h
  | succ n ih =>
    intro g g' a b h
    unfold eqAlg at h
    split at h
    · rename_i hab
      simp only [Res.yes.injEq] at h; subst h; subst hab
      exact EOk.of_F (EMJ.refl env g) 0 (FE.refl a)
    · split at h
      · split at h
        · rename_i hmem
          simp only [Res.yes.injEq] at h; subst h
          exact ⟨EMJ.refl env g, 0, hmem⟩
        · split at h
          · split at h
            · simp at h
            · rename_i d hd
              obtain ⟨mj, k, hk⟩ := ih _ g' d b h
              have hF : FE env (EDk env g' k) (Ty.var _) b := FE.varL _ d b hd hk
              exact ⟨mem_cons_EMJ mj k hF, k + 1, EDk_step env g' k _ _ hF⟩
          · split at h
            · simp at h
            · rename_i x hnv d hd
              obtain ⟨mj, k, hk⟩ := ih _ g' a d h
              have hF : FE env (EDk env g' k) a (Ty.var _) := FE.varR a _ d hd hk
              exact ⟨mem_cons_EMJ mj k hF, k + 1, EDk_step env g' k _ _ hF⟩
          · simp at h
      · split at h
        case h_1 =>
          obtain ⟨mj, k, hk⟩ := ih _ _ _ _ h
          exact EOk.of_F mj k (FE.opt _ _ hk)
        case h_2 =>
          obtain ⟨mj, k, hk⟩ := ih _ _ _ _ h
          exact EOk.of_F mj k (FE.vec _ _ hk)
        case h_3 =>
          rename_i fs1 fs2 _ _
          split at h
          · simp at h
          · rename_i hlen
            have hlen' : fs1.toList.length = fs2.toList.length := Classical.not_not.mp hlen
            obtain ⟨mj, K, hK⟩ := zip_checks env n (fun (x y : Label) => x.getId = y.getId) _ g g' ih h
            exact EOk.of_F mj K (FE.record fs1 fs2 ⟨hlen', hK⟩)
        case h_4 =>
          rename_i fs1 fs2 _ _
          split at h
          · simp at h
          · rename_i hlen
            have hlen' : fs1.toList.length = fs2.toList.length := Classical.not_not.mp hlen
            obtain ⟨mj, K, hK⟩ := zip_checks env n (fun (x y : Label) => x.getId = y.getId) _ g g' ih h
            exact EOk.of_F mj K (FE.variant fs1 fs2 ⟨hlen', hK⟩)
        case h_5 =>
          rename_i ms1 ms2 _ _
          split at h
          · simp at h
          · rename_i hlen
            have hlen' : ms1.toList.length = ms2.toList.length := Classical.not_not.mp hlen
            obtain ⟨mj, K, hK⟩ := zip_checks env n (fun (x y : String) => x = y) _ g g' ih h
            exact EOk.of_F mj K (FE.service ms1 ms2 ⟨hlen', hK⟩)
        case h_6 =>
          rename_i a1 r1 m1 a2 r2 m2 _ _
          split at h
          · simp at h
          · rename_i hm
            have hm' : m1 = m2 := Classical.not_not.mp hm
            subst hm'
            split at h
            · rename_i g1 hargs
              obtain ⟨mj1, k1, hk1⟩ := ih g g1 _ _ hargs
              obtain ⟨mj2, k2, hk2⟩ := ih g1 g' _ _ h
              have hk1' := EDk_le env g' k1 (max k1 k2) (Nat.le_max_left _ _) _ _ (EDk_mono env g1 g' mj2.mono k1 _ _ hk1)
              have hk2' := EDk_le env g' k2 (max k1 k2) (Nat.le_max_right _ _) _ _ hk2
              exact EOk.of_F (mj1.trans mj2) (max k1 k2) (FE.func a1 r1 m1 a2 r2 hk1' hk2')
            · rename_i r hne
              exact absurd h (by intro hc; exact hne _ hc)
        case h_7 =>
          rename_i i1 t1 i2 t2 _ _
          split at h
          · rename_i g1 hargs
            obtain ⟨mj1, k1, hk1⟩ := ih g g1 _ _ hargs
            obtain ⟨mj2, k2, hk2⟩ := ih g1 g' _ _ h
            have hk1' := EDk_le env g' k1 (max k1 k2) (Nat.le_max_left _ _) _ _ (EDk_mono env g1 g' mj2.mono k1 _ _ hk1)
            have hk2' := EDk_le env g' k2 (max k1 k2) (Nat.le_max_right _ _) _ _ hk2
            exact EOk.of_F (mj1.trans mj2) (max k1 k2) (FE.cls i1 t1 i2 t2 hk1' hk2')
          · rename_i r hne
            exact absurd h (by intro hc; exact hne _ hc)
        all_goals simp at h

theorem Ejustified_step (env : Env) (g g' : Gamma) (hj : EJustified env g) (mj : EMJ env g g') : EJustified env g' := by
  intro p hp
  rcases mj.just p hp with h | h
  · obtain ⟨k, hk⟩ := hj p h
    exact ⟨k, FE_mono (fun x y hxy => EDk_mono env g g' mj.mono k x y hxy) _ _ hk⟩
  · exact h

/-- a successful equality check, started from a memo in which every pair is justified, establishes equality of the
specification and leaves a memo in which every pair is justified -/
theorem eqAlg_sound_history (env : Env) (n : Nat) (g g' : Gamma) (a b : Ty) (hj : EJustified env g)
    (h : eqAlg env n g a b = .yes g') : TyEq env a b ∧ EJustified env g' := by
  obtain ⟨mj, k, hk⟩ := eqAlg_sound env n g g' a b h
  have hj' := Ejustified_step env g g' hj mj
  exact ⟨tyeq_of_EDk env g' hj' k a b hk, hj'⟩

theorem Ejustified_nil (env : Env) : EJustified env [] := fun _ h => by simp at h

end Candid.Sub
