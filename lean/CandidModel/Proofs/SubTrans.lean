import CandidModel.Proofs.CoerceSound
import CandidModel.Proofs.DeCoerce
/-
  C05: how far the subtype relation IS transitive.  `Props/C05` shows it is not in general
  (`record {x : nat} <: record {} <: record {x : null}`).  Here: on first-order types (no function or service
  reference within reach) over a good environment, `a <: b` and `b <: c` give `a <: c` whenever no record type within
  reach of `c` has a field whose type unfolds to `null` — the shape of the counterexample is the only obstruction.
-/
namespace Candid.Wire
open Candid Candid.Sub Candid.De

/-- no reference type -/
def fo1 : Ty → Bool
  | .func _ _ _ | .service _ => false
  | _ => true

/-- a record type none of whose fields has a type that unfolds to `null` -/
def nn1 (env : Env) : Ty → Bool
  | .record fs => fs.toList.all fun p => decide (traceFull env p.2 ≠ some (.prim .null))
  | _ => true

/-- first order, within reach -/
def FOT (env : Env) (t : Ty) : Prop := ∀ t', Reach env t t' → fo1 t' = true
/-- no `null`-typed record field, within reach -/
def NNT (env : Env) (t : Ty) : Prop := ∀ t', Reach env t t' → nn1 env t' = true

theorem FOT.step {env : Env} {a b : Ty} (h : FOT env a) (hr : Reach env a b) : FOT env b :=
  fun t ht => h t (Reach.trans hr ht)
theorem NNT.step {env : Env} {a b : Ty} (h : NNT env a) (hr : Reach env a b) : NNT env b :=
  fun t ht => h t (Reach.trans hr ht)

theorem good_def (env : Env) (hg : GoodEnv env) (x : String) (d : Ty) (h : recFindFull env x = some d) : goodTy env d = true := by
  obtain ⟨y, hy⟩ := recFind_is_def env _ x d h
  simp only [goodTy, Bool.and_eq_true]
  exact ⟨hg.1 y d hy, hg.2 y d hy⟩

theorem good_var (env : Env) (x : String) (h : goodTy env (.var x) = true) : ∃ d, recFindFull env x = some d := by
  simp only [goodTy, safeTy, Bool.and_eq_true] at h
  exact Option.isSome_iff_exists.mp h.1

theorem reach_def (env : Env) (x : String) (d : Ty) (h : recFindFull env x = some d) : Reach env (.var x) d :=
  reach_traceFull env (.var x) d (traceFull_var env x d h)

theorem recFind_nonvar (env : Env) : ∀ (n : Nat) (x : String) (d : Ty), recFind env n x = some d → ∀ y, d ≠ .var y := by
  intro n
  induction n with
  | zero => intro x d h; simp [recFind] at h
  | succ n ih =>
    intro x d h y
    simp only [recFind] at h
    cases hf : env.find x with
    | none => rw [hf] at h; simp at h
    | some t =>
      rw [hf] at h
      cases t with
      | var z => exact ih z d h y
      | _ => simp only [Option.some.injEq] at h; subst h; simp

theorem def_not_name (env : Env) (hg : GoodEnv env) (x : String) (d : Ty) (h : recFindFull env x = some d) : isName d = false := by
  have hgd := good_def env hg x d h
  cases d with
  | var y => exact absurd rfl (recFind_nonvar env _ x _ h y)
  | knot k => simp [goodTy, shapeTy] at hgd
  | _ => rfl

/-- a good type that is not a name is its own unfolding -/
theorem traceFull_self (env : Env) (t : Ty) (h : isName t = false) : traceFull env t = some t := by
  unfold traceFull
  exact Check.trace_nonvar env _ t (by intro x hx; subst hx; simp [isName] at h)

/-- every good type is a subtype of a type that unfolds to an option or to `reserved` -/
theorem sub_into_optlike (env : Env) (hg : GoodEnv env) (ta tc tc' : Ty) (hta : goodTy env ta = true)
    (htcg : goodTy env tc = true) (htc : traceFull env tc = some tc') (hopt : (∃ c', tc' = .opt c') ∨ tc' = .prim .reserved) : Sub env ta tc := by
  -- the two left sides (the type, and its definition when it is a name) and the two right sides
  let R : Rel := fun a b => (a = ta ∨ ∃ x, ta = .var x ∧ recFindFull env x = some a) ∧ (b = tc ∨ b = tc')
  refine sub_coind R ?_ ta tc ⟨Or.inl rfl, Or.inl rfl⟩
  intro a b ⟨ha, hb⟩
  have htc'n : isName tc' = false := by
    rcases hopt with ⟨c', h⟩ | h <;> subst h <;> rfl
  -- names on the left are unfolded first
  have hleft : ∀ x, a = .var x → F env R a b := by
    intro x hx
    subst hx
    rcases ha with ha | ⟨y, hy, hd⟩
    · obtain ⟨d, hd⟩ := good_var env x (ha ▸ hta)
      unfold F
      exact Or.inr (Or.inr (Or.inr (Or.inr (Or.inr (Or.inr (Or.inr (Or.inr (Or.inr (Or.inr (Or.inr (Or.inl
        ⟨x, d, rfl, hd, ⟨Or.inr ⟨x, ha.symm, hd⟩, hb⟩⟩)))))))))))
    · exact absurd rfl (recFind_nonvar env _ y _ hd x)
  cases ha' : a with
  | var x => rw [← ha']; exact hleft x ha'
  | _ =>
    -- a is not a variable; it is good, so it is no other kind of name either
    all_goals (
      have hga : goodTy env a = true := by
        rcases ha with ha | ⟨y, hy, hd⟩
        · rw [ha]; exact hta
        · exact good_def env hg y a hd
      have hna : isName a = false := by
        rw [ha'] at hga ⊢
        first | rfl | (simp [goodTy, shapeTy] at hga)
      rw [← ha']
      -- the right side: the type itself (perhaps a name) or its unfolding
      rcases hb with hb | hb
      · by_cases hnc : isName tc = true
        · -- a name on the right: unfold it
          cases htcv : tc with
          | var y =>
            have hd : recFindFull env y = some tc' := by
              cases hr : recFindFull env y with
              | none =>
                obtain ⟨d, hd⟩ := good_var env y (htcv ▸ htcg)
                rw [hr] at hd; simp at hd
              | some d =>
                have := traceFull_var env y d hr
                rw [htcv] at htc
                rw [htc] at this
                simp only [Option.some.injEq] at this
                rw [this]
            unfold F
            subst hb
            exact Or.inr (Or.inr (Or.inr (Or.inr (Or.inr (Or.inr (Or.inr (Or.inr (Or.inr (Or.inr (Or.inr (Or.inr (Or.inl
              ⟨y, tc', htcv, hna, hd, ⟨ha, Or.inr rfl⟩⟩))))))))))))
          | knot k =>
            rw [htcv] at htc
            simp [traceFull, Env.trace] at htc
            rw [← htc] at htc'n
            simp [isName] at htc'n
          | _ => rw [htcv] at hnc; simp [isName] at hnc
        · have hnc' : isName tc = false := by
            cases h : isName tc with
            | true => exact absurd h hnc
            | false => rfl
          have := traceFull_self env tc hnc'
          rw [htc] at this
          simp only [Option.some.injEq] at this
          subst hb
          rw [← this]
          unfold F
          rcases hopt with ⟨c', h⟩ | h
          · exact Or.inr (Or.inr (Or.inr (Or.inr (Or.inr (Or.inl ⟨c', h, hna⟩)))))
          · exact Or.inr (Or.inl h)
      · subst hb
        unfold F
        rcases hopt with ⟨c', h⟩ | h
        · exact Or.inr (Or.inr (Or.inr (Or.inr (Or.inr (Or.inl ⟨c', h, hna⟩)))))
        · exact Or.inr (Or.inl h))

/-- what `null` is a subtype of, its supertypes are supertypes of `null` too -/
theorem optLike_up (env : Env) (hg : GoodEnv env) (tb tc : Ty) (hgb : goodTy env tb = true) (hgc : goodTy env tc = true)
    (h : Sub env tb tc) (ho : optLike env tb = true) : optLike env tc = true := by
  have hsb : safeTy env tb = true := by simp only [goodTy, Bool.and_eq_true] at hgb; exact hgb.1
  have hsc : safeTy env tc = true := by simp only [goodTy, Bool.and_eq_true] at hgc; exact hgc.1
  obtain ⟨tb', htb⟩ := traceFull_of_safe env tb hsb
  obtain ⟨tc', htc⟩ := traceFull_of_safe env tc hsc
  have hsub := sub_traced env hg tb tc tb' tc' hgb hgc h htb htc
  have hgc' := good_trace env hg tc tc' hgc htc
  simp only [optLike, htb] at ho
  simp only [optLike, htc]
  have hF := sub_unfold hsub
  unfold F at hF
  rcases hF with h1 | h1 | h1 | h1 | h1 | h1 | h1 | h1 | h1 | h1 | h1 | h1 | h1 | h1 | h1
  · subst h1; exact ho
  · subst h1; rfl
  · subst h1; simp [isOptLikeTy] at ho
  · obtain ⟨e1, _⟩ := h1; subst e1; simp [isOptLikeTy] at ho
  · obtain ⟨ms, e1, _⟩ := h1; subst e1; simp [isOptLikeTy] at ho
  · obtain ⟨b', e1, _⟩ := h1; subst e1; rfl
  · obtain ⟨x, y, e1, _⟩ := h1; subst e1; simp [isOptLikeTy] at ho
  · obtain ⟨x, y, e1, _⟩ := h1; subst e1; simp [isOptLikeTy] at ho
  · obtain ⟨x, y, e1, _⟩ := h1; subst e1; simp [isOptLikeTy] at ho
  · obtain ⟨a1, r1, m1, a2, r2, m2, e1, _⟩ := h1; subst e1; simp [isOptLikeTy] at ho
  · obtain ⟨x, y, e1, _⟩ := h1; subst e1; simp [isOptLikeTy] at ho
  · obtain ⟨x, d, e1, _⟩ := h1; subst e1; simp [isOptLikeTy] at ho
  · obtain ⟨x, d, e1, _⟩ := h1; subst e1; exact absurd rfl (trace_not_var env _ tc _ htc x)
  · obtain ⟨x, t, e1, _⟩ := h1; subst e1; simp [isOptLikeTy] at ho
  · obtain ⟨x, t, e1, _⟩ := h1; subst e1; simp [goodTy, shapeTy] at hgc'

/-! ## the chain relation -/

/-- `a <: b <: c` through some good first-order `b`, with the side conditions on the ends -/
def TT (env : Env) (a c : Ty) : Prop :=
  goodTy env a = true ∧ goodTy env c = true ∧ FOT env a ∧ FOT env c ∧ NNT env c ∧
    ∃ b, goodTy env b = true ∧ FOT env b ∧ Sub env a b ∧ Sub env b c

def TR' (env : Env) : Rel := fun x y => TT env x y ∨ Sub env x y

theorem F_of_sub (env : Env) (a c : Ty) (h : Sub env a c) : F env (TR' env) a c :=
  F_mono (fun _ _ h => Or.inr h) a c (sub_unfold h)

theorem good_not_name (env : Env) (t : Ty) (hg : goodTy env t = true) (hv : ∀ x, t ≠ .var x) : isName t = false := by
  cases t with
  | var x => exact absurd rfl (hv x)
  | knot k => simp [goodTy, shapeTy] at hg
  | _ => rfl

/-- the middle type can be taken not to be a name, when the ends are not names -/
theorem middle_not_name (env : Env) (hg : GoodEnv env) (a b c : Ty) (hna : isName a = false) (hnc : isName c = false)
    (hgb : goodTy env b = true) (hfb : FOT env b) (h1 : Sub env a b) (h2 : Sub env b c) :
    ∃ b0, isName b0 = false ∧ goodTy env b0 = true ∧ FOT env b0 ∧ Sub env a b0 ∧ Sub env b0 c := by
  cases hb : b with
  | var z =>
    subst hb
    obtain ⟨dz, hdz⟩ := good_var env z hgb
    have hne1 : a ≠ .var z := by intro h; subst h; simp [isName] at hna
    have hne2 : (.var z : Ty) ≠ c := by intro h; subst h; simp [isName] at hnc
    exact ⟨dz, def_not_name env hg z dz hdz, good_def env hg z dz hdz, hfb.step (reach_def env z dz hdz),
      sub_var_right h1 hne1 hna hdz, sub_var_left h2 hne2 hdz⟩
  | _ =>
    all_goals (
      refine ⟨b, ?_, hgb, hfb, h1, h2⟩
      rw [hb] at hgb ⊢
      first | rfl | (simp [goodTy, shapeTy] at hgb))

theorem shape_of_good {env : Env} {t : Ty} (h : goodTy env t = true) : shapeTy t = true := by
  simp only [goodTy, Bool.and_eq_true] at h; exact h.2

/-- the chain at three types none of which is a name -/
theorem trans_heads (env : Env) (hg : GoodEnv env) (a b c : Ty) (hna : isName a = false) (hnb : isName b = false)
    (hnc : isName c = false) (hga : goodTy env a = true) (hgb : goodTy env b = true) (hgc : goodTy env c = true)
    (hfa : FOT env a) (hfb : FOT env b) (hfc : FOT env c) (hnn : NNT env c)
    (h1 : Sub env a b) (h2 : Sub env b c) : F env (TR' env) a c := by
  by_cases hcres : c = .prim .reserved
  · unfold F; exact Or.inr (Or.inl hcres)
  by_cases hcopt : ∃ c', c = .opt c'
  · obtain ⟨c', hc'⟩ := hcopt
    unfold F; exact Or.inr (Or.inr (Or.inr (Or.inr (Or.inr (Or.inl ⟨c', hc', hna⟩)))))
  by_cases haemp : a = .prim .empty
  · unfold F; exact Or.inr (Or.inr (Or.inl haemp))
  have hcopt' : ∀ c', c ≠ .opt c' := fun c' h => hcopt ⟨c', h⟩
  have hsa := shape_of_good hga
  have hsb := shape_of_good hgb
  have hsc := shape_of_good hgc
  -- the middle type is not `empty`
  have hbemp : b ≠ .prim .empty := by
    intro hb
    subst hb
    have := sub_head h1 hna rfl haemp (by simp) (by intro b' h; cases h) hsa rfl
    cases this
    exact haemp rfl
  have hbc := sub_head h2 hnb hnc hbemp hcres hcopt' hsb hsc
  have hbres : b ≠ .prim .reserved := by
    intro hb; subst hb; cases hbc; exact hcres rfl
  have hbopt : ∀ b', b ≠ .opt b' := by
    intro b' hb; subst hb; cases hbc; exact hcopt' b' rfl
  have hab := sub_head h1 hna hnb haemp hbres hbopt hsa hsb
  cases hab with
  | same => exact F_of_sub env a c h2
  | natInt =>
    cases hbc with
    | same => exact F_of_sub env _ _ h1
  | servPrincipal ms => exact absurd (hfa _ (Reach.refl _)) (by simp [fo1])
  | func a1 r1 m a2 r2 => exact absurd (hfa _ (Reach.refl _)) (by simp [fo1])
  | service m1 m2 => exact absurd (hfa _ (Reach.refl _)) (by simp [fo1])
  | vec a' b' =>
    cases hbc with
    | same => exact F_of_sub env _ _ h1
    | vec _ c' =>
      have s1 := sub_vec_inv' h1
      have s2 := sub_vec_inv' h2
      unfold F
      refine Or.inr (Or.inr (Or.inr (Or.inr (Or.inr (Or.inr (Or.inl ⟨a', c', rfl, rfl, Or.inl ?_⟩))))))
      exact ⟨good_vec hga, good_vec hgc, hfa.step (Reach.vec (Reach.refl _)), hfc.step (Reach.vec (Reach.refl _)),
        hnn.step (Reach.vec (Reach.refl _)), b', good_vec hgb, hfb.step (Reach.vec (Reach.refl _)), s1, s2⟩
  | record f1 f2 =>
    cases hbc with
    | same => exact F_of_sub env _ _ h1
    | record _ f3 =>
      have s1 := sub_record_inv' (good_nodup (Or.inl hga)) h1
      have s2 := sub_record_inv' (good_nodup (Or.inl hgb)) h2
      unfold F
      refine Or.inr (Or.inr (Or.inr (Or.inr (Or.inr (Or.inr (Or.inr (Or.inl ⟨f1, f3, rfl, rfl, ?_⟩)))))))
      intro p hp
      have hgp : goodTy env p.2 = true := good_field (Or.inl hgc) hp
      have hs2 := s2 p hp
      cases hl2 : lookupF f2 p.1.getId with
      | some tb =>
        rw [hl2] at hs2
        simp only [] at hs2
        obtain ⟨lb, hmb, hidb⟩ := lookupF_mem f2 _ tb hl2
        have hgtb : goodTy env tb = true := good_field (Or.inl hgb) hmb
        have hs1 := s1 (lb, tb) hmb
        simp only [hidb] at hs1
        cases hl1 : lookupF f1 p.1.getId with
        | some ta =>
          rw [hl1] at hs1
          simp only [] at hs1 ⊢
          obtain ⟨la, hma, _⟩ := lookupF_mem f1 _ ta hl1
          exact Or.inl ⟨good_field (Or.inl hga) hma, hgp, hfa.step (Reach.field (Reach.refl _) hma),
            hfc.step (Reach.field (Reach.refl _) hp), hnn.step (Reach.field (Reach.refl _) hp), tb, hgtb,
            hfb.step (Reach.field (Reach.refl _) hmb), hs1, hs2⟩
        | none =>
          rw [hl1] at hs1
          simp only [] at hs1 ⊢
          exact optLike_up env hg tb p.2 hgtb hgp hs2 hs1
      | none =>
        rw [hl2] at hs2
        simp only [] at hs2
        cases hl1 : lookupF f1 p.1.getId with
        | none => simp only []; exact hs2
        | some ta =>
          simp only []
          obtain ⟨la, hma, _⟩ := lookupF_mem f1 _ ta hl1
          -- the field comes back at a type `null` is a subtype of, and that type is not `null`
          refine Or.inr ?_
          simp only [optLike] at hs2
          cases htp : traceFull env p.2 with
          | none => rw [htp] at hs2; simp at hs2
          | some tp =>
            rw [htp] at hs2
            have hnnp := hnn _ (Reach.refl _)
            simp only [nn1, List.all_eq_true, decide_eq_true_eq] at hnnp
            have hne := hnnp p hp
            refine sub_into_optlike env hg ta p.2 tp (good_field (Or.inl hga) hma) hgp htp ?_
            cases tp with
            | opt x => exact Or.inl ⟨x, rfl⟩
            | prim q =>
              cases q <;> simp [isOptLikeTy] at hs2
              · exact absurd htp hne
              · exact Or.inr rfl
            | _ => simp [isOptLikeTy] at hs2
  | variant f1 f2 =>
    cases hbc with
    | same => exact F_of_sub env _ _ h1
    | variant _ f3 =>
      have s1 := sub_variant_inv' (good_nodup (Or.inr hgb)) h1
      have s2 := sub_variant_inv' (good_nodup (Or.inr hgc)) h2
      unfold F
      refine Or.inr (Or.inr (Or.inr (Or.inr (Or.inr (Or.inr (Or.inr (Or.inr (Or.inl ⟨f1, f3, rfl, rfl, ?_⟩))))))))
      intro p hp
      have hs1 := s1 p hp
      cases hl2 : lookupF f2 p.1.getId with
      | none => rw [hl2] at hs1; exact absurd hs1 (by simp)
      | some tb =>
        rw [hl2] at hs1
        simp only [] at hs1
        obtain ⟨lb, hmb, hidb⟩ := lookupF_mem f2 _ tb hl2
        have hs2 := s2 (lb, tb) hmb
        simp only [hidb] at hs2
        cases hl3 : lookupF f3 p.1.getId with
        | none => rw [hl3] at hs2; exact absurd hs2 (by simp)
        | some tc =>
          rw [hl3] at hs2
          simp only [] at hs2 ⊢
          obtain ⟨lc, hmc, _⟩ := lookupF_mem f3 _ tc hl3
          exact Or.inl ⟨good_field (Or.inr hga) hp, good_field (Or.inr hgc) hmc, hfa.step (Reach.case (Reach.refl _) hp),
            hfc.step (Reach.case (Reach.refl _) hmc), hnn.step (Reach.case (Reach.refl _) hmc), tb,
            good_field (Or.inr hgb) hmb, hfb.step (Reach.case (Reach.refl _) hmb), hs1, hs2⟩

/-- a definition is a subtype of its name -/
theorem sub_def_var (env : Env) (hg : GoodEnv env) (z : String) (d : Ty) (hd : recFindFull env z = some d) :
    Sub env d (.var z) := by
  refine sub_coind (fun a b => a = d ∧ (b = .var z ∨ b = d)) ?_ d (.var z) ⟨rfl, Or.inl rfl⟩
  intro a b ⟨ha, hb⟩
  subst ha
  rcases hb with hb | hb
  · subst hb
    unfold F
    exact Or.inr (Or.inr (Or.inr (Or.inr (Or.inr (Or.inr (Or.inr (Or.inr (Or.inr (Or.inr (Or.inr (Or.inr (Or.inl
      ⟨z, a, rfl, def_not_name env hg z a hd, hd, ⟨rfl, Or.inr rfl⟩⟩))))))))))))
  · subst hb; exact Or.inl rfl

/-- one step of the rules from a chain -/
theorem trans_core (env : Env) (hg : GoodEnv env) (a c : Ty) (h : TT env a c) : F env (TR' env) a c := by
  obtain ⟨hga, hgc, hfa, hfc, hnn, b, hgb, hfb, h1, h2⟩ := h
  -- a name on the left is unfolded
  by_cases hav : ∃ x, a = .var x
  · obtain ⟨x, hx⟩ := hav
    subst hx
    obtain ⟨d, hd⟩ := good_var env x hga
    have hvarL : TR' env d c → F env (TR' env) (.var x) c := by
      intro hr
      unfold F
      exact Or.inr (Or.inr (Or.inr (Or.inr (Or.inr (Or.inr (Or.inr (Or.inr (Or.inr (Or.inr (Or.inr (Or.inl
        ⟨x, d, rfl, hd, hr⟩)))))))))))
    by_cases hab : (.var x : Ty) = b
    · subst hab
      by_cases hac : (.var x : Ty) = c
      · unfold F; exact Or.inl hac
      · exact hvarL (Or.inr (sub_var_left h2 hac hd))
    · exact hvarL (Or.inl ⟨good_def env hg x d hd, hgc, hfa.step (reach_def env x d hd), hfc, hnn, b, hgb, hfb,
        sub_var_left h1 hab hd, h2⟩)
  · have hna : isName a = false := good_not_name env a hga (fun x hx => hav ⟨x, hx⟩)
    -- a name on the right is unfolded
    by_cases hcv : ∃ y, c = .var y
    · obtain ⟨y, hy⟩ := hcv
      subst hy
      obtain ⟨dc, hdc⟩ := good_var env y hgc
      have hgdc := good_def env hg y dc hdc
      have hreach := reach_def env y dc hdc
      have hvarR : TR' env a dc → F env (TR' env) a (.var y) := by
        intro hr
        unfold F
        exact Or.inr (Or.inr (Or.inr (Or.inr (Or.inr (Or.inr (Or.inr (Or.inr (Or.inr (Or.inr (Or.inr (Or.inr (Or.inl
          ⟨y, dc, rfl, hna, hdc, hr⟩))))))))))))
      have hay : a ≠ .var y := by intro h; subst h; simp [isName] at hna
      by_cases hbc : b = .var y
      · subst hbc
        exact hvarR (Or.inr (sub_var_right h1 hay hna hdc))
      · -- the middle type, unfolded if it is a name
        by_cases hbv : ∃ z, b = .var z
        · obtain ⟨z, hz⟩ := hbv
          subst hz
          obtain ⟨dz, hdz⟩ := good_var env z hgb
          have hnz := def_not_name env hg z dz hdz
          have haz : a ≠ .var z := by intro h; subst h; simp [isName] at hna
          have s1 : Sub env a dz := sub_var_right h1 haz hna hdz
          have s2 : Sub env dz (.var y) := sub_var_left h2 (by intro h; exact hbc h) hdz
          have hdzy : dz ≠ .var y := by intro h; subst h; simp [isName] at hnz
          exact hvarR (Or.inl ⟨hga, hgdc, hfa, hfc.step hreach, hnn.step hreach, dz, good_def env hg z dz hdz,
            hfb.step (reach_def env z dz hdz), s1, sub_var_right s2 hdzy hnz hdc⟩)
        · have hnb : isName b = false := good_not_name env b hgb (fun z hz => hbv ⟨z, hz⟩)
          exact hvarR (Or.inl ⟨hga, hgdc, hfa, hfc.step hreach, hnn.step hreach, b, hgb, hfb, h1,
            sub_var_right h2 hbc hnb hdc⟩)
    · have hnc : isName c = false := good_not_name env c hgc (fun y hy => hcv ⟨y, hy⟩)
      obtain ⟨b0, hnb0, hgb0, hfb0, s1, s2⟩ := middle_not_name env hg a b c hna hnc hgb hfb h1 h2
      exact trans_heads env hg a b0 c hna hnb0 hnc hga hgb0 hgc hfa hfb0 hfc hnn s1 s2

/-- **Subtyping is transitive away from `null`-typed record fields**: over a good environment, for good first-order
types, `a <: b` and `b <: c` give `a <: c` provided no record type within reach of `c` has a field whose type unfolds
to `null`. -/
theorem sub_trans_no_null_field (env : Env) (hg : GoodEnv env) (a b c : Ty)
    (hga : goodTy env a = true) (hgb : goodTy env b = true) (hgc : goodTy env c = true)
    (hfa : FOT env a) (hfb : FOT env b) (hfc : FOT env c) (hnn : NNT env c)
    (h1 : Sub env a b) (h2 : Sub env b c) : Sub env a c := by
  refine sub_coind (TR' env) ?_ a c (Or.inl ⟨hga, hgc, hfa, hfc, hnn, b, hgb, hfb, h1, h2⟩)
  intro x y hxy
  rcases hxy with h | h
  · exact trans_core env hg x y h
  · exact F_of_sub env x y h

theorem fot_of_all (env : Env) (t : Ty) (henv : allEnv fo1 env = true) (ht : allTy fo1 t = true) : FOT env t :=
  fun t' h => allTy_head _ t' (reach_all fo1 env env henv (fun _ _ h => h) t t' ht h)

theorem nnt_of_all (env : Env) (t : Ty) (henv : allEnv (nn1 env) env = true) (ht : allTy (nn1 env) t = true) : NNT env t :=
  fun t' h => allTy_head _ t' (reach_all (nn1 env) env env henv (fun _ _ h => h) t t' ht h)

end Candid.Wire
