import CandidModel.Check
/- helper lemmas about the type checker model: each phase of `check_prog` against its clause of `WF` -/
namespace Candid.Check
open Candid

/-! ### placeholders -/
theorem placeholders_ok_iff : ∀ (decs : List (String × Ty)) (seen : List String),
    (∃ e, placeholders seen decs = .ok e) ↔ ((decs.map (·.1)).Nodup ∧ ∀ n ∈ decs.map (·.1), n ∉ seen) := by
  intro decs
  induction decs with
  | nil => intro seen; simp [placeholders]
  | cons d r ih =>
    intro seen
    obtain ⟨n, t⟩ := d
    simp only [placeholders, List.map_cons, List.nodup_cons, List.mem_cons, forall_eq_or_imp]
    by_cases hn : seen.contains n = true
    · simp only [hn, if_true]
      have : n ∈ seen := by simpa using hn
      constructor
      · rintro ⟨e, he⟩; cases he
      · rintro ⟨_, h2, _⟩; exact absurd this h2
    · simp only [hn]
      have hns : n ∉ seen := by simpa using hn
      have := ih (n :: seen)
      constructor
      · rintro ⟨e, he⟩
        cases hp : placeholders (n :: seen) r with
        | ok e' =>
          have ⟨h1, h2⟩ := this.mp ⟨e', hp⟩
          refine ⟨⟨?_, h1⟩, hns, ?_⟩
          · intro hmem; exact absurd (List.mem_cons_self) (h2 n hmem)
          · intro m hm; exact fun hms => h2 m hm (List.mem_cons_of_mem _ hms)
        | error e' => rw [hp] at he; simp [Except.map] at he
      · rintro ⟨⟨h1, h2⟩, h3, h4⟩
        have ⟨e', he'⟩ := this.mpr ⟨h2, by
          intro m hm hms
          simp only [List.mem_cons] at hms
          rcases hms with rfl | hms
          · exact h1 hm
          · exact h4 m hm hms⟩
        exact ⟨_, by rw [he']; rfl⟩

def Bound (env : Env) (names : List String) : Prop := ∀ x, (env.find x).isSome ↔ x ∈ names

theorem findType_ok_iff (env : Env) (names : List String) (hb : Bound env names) (x : String) :
    (∃ t, findType env x = .ok t) ↔ names.contains x = true := by
  unfold findType
  have := hb x
  cases h : env.find x with
  | none => simp [h] at this ⊢; exact this
  | some t => simp [h] at this ⊢; exact this

theorem bind_ok_iff {α β : Type} (x : R α) (f : α → R β) (b : β) :
    x.bind f = .ok b ↔ ∃ a, x = .ok a ∧ f a = .ok b := by
  cases x with
  | ok a => simp [Except.bind]
  | error e => simp [Except.bind]

theorem modesOk_iff (r : Tys) (m : List FuncMode) :
    modesOk r m = .ok () ↔ (decide (m.length ≤ 1) && !(decide (m = [.oneway]) && decide (r ≠ .nil))) = true := by
  unfold modesOk
  by_cases h1 : m.length > 1
  · simp [h1]; omega
  · have hle : m.length ≤ 1 := by omega
    by_cases h2 : m = [.oneway] ∧ r ≠ .nil
    · simp [h1, h2]
    · simp only [h1, h2, if_false]
      by_cases h3 : m = [.oneway]
      · have h4 : ¬ (r ≠ .nil) := fun h => h2 ⟨h3, h⟩
        simp [hle, h4]
      · simp [hle, h3]

mutual
theorem checkType_pre_iff (env : Env) (names : List String) (hb : Bound env names) :
    ∀ t : Ty, checkType env true t = .ok () ↔ wfTy names t = true
  | .var x => by
    simp only [checkType, wfTy]
    rw [← findType_ok_iff env names hb x]
    cases findType env x <;> simp [Except.map]
  | .opt t => by simp only [checkType, wfTy]; exact checkType_pre_iff env names hb t
  | .vec t => by simp only [checkType, wfTy]; exact checkType_pre_iff env names hb t
  | .record fs => by simp only [checkType, wfTy]; exact checkFields_pre_iff env names hb fs
  | .variant fs => by simp only [checkType, wfTy]; exact checkFields_pre_iff env names hb fs
  | .func a r m => by
    simp only [checkType, wfTy, bind_ok_iff, Bool.and_eq_true]
    rw [← checkTys_pre_iff env names hb a, ← checkTys_pre_iff env names hb r]
    have := modesOk_iff r m
    simp only [Bool.and_eq_true] at this
    constructor
    · rintro ⟨_, h1, _, h2, h3⟩; exact ⟨⟨⟨h1, h2⟩, (this.mp h3).1⟩, (this.mp h3).2⟩
    · rintro ⟨⟨⟨h1, h2⟩, h3⟩, h4⟩; exact ⟨(), h1, (), h2, this.mpr ⟨h3, h4⟩⟩
  | .service ms => by simp only [checkType, wfTy]; exact checkMeths_pre_iff env names hb ms
  | .cls _ _ => by simp [checkType, wfTy]
  | .prim _ => by simp [checkType, wfTy]
  | .principal => by simp [checkType, wfTy]
  | .knot _ => by simp [checkType, wfTy]
  | .unknown => by simp [checkType, wfTy]
  | .future => by simp [checkType, wfTy]
theorem checkFields_pre_iff (env : Env) (names : List String) (hb : Bound env names) :
    ∀ fs : Fields, checkFields env true fs = .ok () ↔ wfFields names fs = true
  | .nil => by simp [checkFields, wfFields]
  | .cons _ t r => by
    simp only [checkFields, wfFields, bind_ok_iff, Bool.and_eq_true]
    rw [← checkType_pre_iff env names hb t, ← checkFields_pre_iff env names hb r]
    constructor
    · rintro ⟨_, h1, h2⟩; exact ⟨h1, h2⟩
    · rintro ⟨h1, h2⟩; exact ⟨(), h1, h2⟩
theorem checkTys_pre_iff (env : Env) (names : List String) (hb : Bound env names) :
    ∀ ts : Tys, checkTys env true ts = .ok () ↔ wfTys names ts = true
  | .nil => by simp [checkTys, wfTys]
  | .cons t r => by
    simp only [checkTys, wfTys, bind_ok_iff, Bool.and_eq_true]
    rw [← checkType_pre_iff env names hb t, ← checkTys_pre_iff env names hb r]
    constructor
    · rintro ⟨_, h1, h2⟩; exact ⟨h1, h2⟩
    · rintro ⟨h1, h2⟩; exact ⟨(), h1, h2⟩
theorem checkMeths_pre_iff (env : Env) (names : List String) (hb : Bound env names) :
    ∀ ms : Meths, checkMeths env true ms = .ok () ↔ wfMeths names ms = true
  | .nil => by simp [checkMeths, wfMeths]
  | .cons _ t r => by
    simp only [checkMeths, wfMeths, bind_ok_iff, Bool.and_eq_true, Bool.not_true, Bool.false_and]
    rw [← checkType_pre_iff env names hb t, ← checkMeths_pre_iff env names hb r]
    constructor
    · rintro ⟨_, h1, h2⟩; exact ⟨h1, by simpa using h2⟩
    · rintro ⟨h1, h2⟩; exact ⟨(), h1, by simpa using h2⟩
end

theorem find_isSome_mem : ∀ (env : Env) (x : String), (env.find x).isSome → x ∈ env.map (·.1) := by
  intro env
  induction env with
  | nil => intro x h; simp [Env.find] at h
  | cons d r ih =>
    intro x h
    obtain ⟨k, t⟩ := d
    simp only [Env.find] at h
    by_cases hk : k = x
    · simp [hk]
    · simp only [hk, if_false] at h
      simp [ih x h]

theorem nodup_subset_length {α : Type} [DecidableEq α] : ∀ (l m : List α), l.Nodup → (∀ a ∈ l, a ∈ m) → l.length ≤ m.length := by
  intro l
  induction l with
  | nil => intro m _ _; simp
  | cons a l ih =>
    intro m hnd hsub
    rw [List.nodup_cons] at hnd
    have ham : a ∈ m := hsub a (by simp)
    have := ih (m.erase a) hnd.2 (by
      intro b hb
      have hbm : b ∈ m := hsub b (by simp [hb])
      have hne : b ≠ a := fun h => hnd.1 (h ▸ hb)
      exact (List.mem_erase_of_ne hne).mpr hbm)
    rw [List.length_erase_of_mem ham] at this
    have : 0 < m.length := List.length_pos_of_mem ham
    simp only [List.length_cons]; omega

/-- a type denotes something after finitely many renamings -/
def Productive (env : Env) (t : Ty) : Prop := ∃ n, (env.trace n t).isSome

theorem trace_var (env : Env) (n : Nat) (x : String) :
    env.trace (n + 1) (.var x) = match env.find x with | none => none | some t => env.trace n t := by
  cases h : env.find x <;> simp [Env.trace, h]

theorem trace_nonvar (env : Env) (n : Nat) (t : Ty) (h : ∀ x, t ≠ .var x) : env.trace (n + 1) t = some t := by
  cases t <;> simp [Env.trace] at h ⊢

theorem hasCycle_false_trace (env : Env) : ∀ (fuel : Nat) (seen : List String) (t : Ty),
    hasCycle env fuel seen t = .ok false → (env.trace (fuel + 1) t).isSome := by
  intro fuel
  induction fuel with
  | zero =>
    intro seen t h
    cases t <;> simp [hasCycle] at h <;> simp [Env.trace]
  | succ f ih =>
    intro seen t h
    cases t with
    | var x =>
      simp only [hasCycle] at h
      split at h
      · simp at h
      · unfold findType at h
        cases hf : env.find x with
        | none => simp [hf, Except.bind] at h
        | some t' =>
          simp only [hf, Except.bind] at h
          rw [trace_var, hf]
          exact ih _ _ h
    | _ => simp [Env.trace]

theorem trace_none_of_closed (env : Env) (C : List String)
    (hC : ∀ v ∈ C, ∃ w ∈ C, env.find v = some (.var w)) : ∀ n, ∀ v ∈ C, env.trace n (.var v) = none := by
  intro n
  induction n with
  | zero => intro v _; simp [Env.trace]
  | succ n ih =>
    intro v hv
    obtain ⟨w, hw, hf⟩ := hC v hv
    rw [trace_var, hf]
    exact ih w hw

/-- the names passed so far form a chain of renamings ending at the current type -/
def chainOk (env : Env) : List String → Ty → Prop
  | [], _ => True
  | v :: rest, t => env.find v = some t ∧ chainOk env rest (.var v)

theorem chain_targets (env : Env) : ∀ (seen : List String) (t : Ty), chainOk env seen t →
    ∀ v ∈ seen, env.find v = some t ∨ ∃ w ∈ seen, env.find v = some (.var w) := by
  intro seen
  induction seen with
  | nil => intro t _ v hv; simp at hv
  | cons u rest ih =>
    intro t h v hv
    simp only [chainOk] at h
    simp only [List.mem_cons] at hv
    rcases hv with rfl | hv
    · exact Or.inl h.1
    · rcases ih (.var u) h.2 v hv with h' | ⟨w, hw, h'⟩
      · exact Or.inr ⟨u, by simp, h'⟩
      · exact Or.inr ⟨w, by simp [hw], h'⟩

theorem hasCycle_true_nonterm (env : Env) : ∀ (fuel : Nat) (seen : List String) (t : Ty),
    chainOk env seen t → hasCycle env fuel seen t = .ok true → ∀ n, env.trace n t = none := by
  intro fuel
  induction fuel with
  | zero => intro seen t _ h; cases t <;> simp [hasCycle] at h
  | succ f ih =>
    intro seen t hc h
    cases t with
    | var x =>
      simp only [hasCycle] at h
      split at h
      · rename_i hx
        have hx : x ∈ seen := by simpa using hx
        have hclosed : ∀ v ∈ seen, ∃ w ∈ seen, env.find v = some (.var w) := by
          intro v hv
          rcases chain_targets env seen (.var x) hc v hv with h' | h'
          · exact ⟨x, hx, h'⟩
          · exact h'
        intro n; exact trace_none_of_closed env seen hclosed n x hx
      · unfold findType at h
        cases hf : env.find x with
        | none => simp [hf, Except.bind] at h
        | some t' =>
          simp only [hf, Except.bind] at h
          have := ih (x :: seen) t' ⟨hf, hc⟩ h
          intro n
          cases n with
          | zero => simp [Env.trace]
          | succ n => rw [trace_var, hf]; exact this n
    | _ => simp [hasCycle] at h

theorem hasCycle_unbound_nonterm (env : Env) : ∀ (fuel : Nat) (seen : List String) (t : Ty),
    hasCycle env fuel seen t = .error .unbound → ∀ n, env.trace n t = none := by
  intro fuel
  induction fuel with
  | zero => intro seen t h; cases t <;> simp [hasCycle] at h
  | succ f ih =>
    intro seen t h
    cases t with
    | var x =>
      simp only [hasCycle] at h
      split at h
      · simp at h
      · unfold findType at h
        cases hf : env.find x with
        | none =>
          intro n
          cases n with
          | zero => simp [Env.trace]
          | succ n => rw [trace_var, hf]
        | some t' =>
          simp only [hf, Except.bind] at h
          have := ih _ _ h
          intro n
          cases n with
          | zero => simp [Env.trace]
          | succ n => rw [trace_var, hf]; exact this n
    | _ => simp [hasCycle] at h

theorem hasCycle_result (env : Env) : ∀ (fuel : Nat) (seen : List String) (t : Ty),
    seen.Nodup → (∀ v ∈ seen, (env.find v).isSome) → env.length < seen.length + fuel →
    hasCycle env fuel seen t = .ok false ∨ hasCycle env fuel seen t = .ok true ∨
      hasCycle env fuel seen t = .error .unbound := by
  intro fuel
  induction fuel with
  | zero =>
    intro seen t hnd hb hlen
    have := nodup_subset_length seen (env.map (·.1)) hnd (fun a ha => find_isSome_mem env a (hb a ha))
    simp at this hlen
    omega
  | succ f ih =>
    intro seen t hnd hb hlen
    cases t with
    | var x =>
      simp only [hasCycle]
      split
      · simp
      · rename_i hx
        have hx : x ∉ seen := by simpa using hx
        unfold findType
        cases hf : env.find x with
        | none => simp [Except.bind]
        | some t' =>
          simp only [Except.bind]
          apply ih (x :: seen) t' (List.nodup_cons.mpr ⟨hx, hnd⟩)
          · intro v hv
            simp only [List.mem_cons] at hv
            rcases hv with rfl | hv
            · simp [hf]
            · exact hb v hv
          · simp only [List.length_cons]; omega
    | _ => simp [hasCycle]

theorem hasCycle_iff_productive (env : Env) (t : Ty) :
    hasCycle env (env.length + 1) [] t = .ok false ↔ Productive env t := by
  constructor
  · intro h; exact ⟨_, hasCycle_false_trace env _ _ _ h⟩
  · rintro ⟨n, hn⟩
    rcases hasCycle_result env (env.length + 1) [] t (by simp) (by simp) (by simp) with h | h | h
    · exact h
    · have := hasCycle_true_nonterm env _ [] t trivial h n; rw [this] at hn; simp at hn
    · have := hasCycle_unbound_nonterm env _ [] t h n; rw [this] at hn; simp at hn

theorem checkCycle_iff (env : Env) : ∀ ds : List (String × Ty),
    checkCycle env ds = .ok () ↔ ∀ d ∈ ds, Productive env d.2 := by
  intro ds
  induction ds with
  | nil => simp [checkCycle]
  | cons d r ih =>
    obtain ⟨n, t⟩ := d
    simp only [checkCycle, List.mem_cons, forall_eq_or_imp]
    rw [← ih, ← hasCycle_iff_productive]
    cases h : hasCycle env (env.length + 1) [] t with
    | ok b => cases b <;> simp [Except.bind]
    | error e => simp [Except.bind]


/-- `as_func` and tracing agree, fuel for fuel -/
theorem asFunc_iff_trace (env : Env) : ∀ (fuel : Nat) (t : Ty) (a r : Tys) (m : List FuncMode),
    asFunc env fuel t = .ok (a, r, m) ↔ env.trace (fuel + 1) t = some (.func a r m) := by
  intro fuel
  induction fuel with
  | zero =>
    intro t a r m
    cases t with
    | var x => cases hf : env.find x <;> simp [asFunc, Env.trace, hf]
    | _ => simp [asFunc, Env.trace]
  | succ f ih =>
    intro t a r m
    cases t with
    | var x =>
      simp only [asFunc, findType]
      cases hf : env.find x with
      | none => simp [Except.bind, Env.trace, hf]
      | some t' => simp only [Except.bind]; rw [ih]; simp [Env.trace, hf]
    | func a' r' m' => simp [asFunc, Env.trace]
    | _ => simp [asFunc, Env.trace]

theorem asFunc_ok_iff_denotes (env : Env) (t : Ty) :
    (∃ f, asFunc env (env.length + 1) t = .ok f) ↔ denotesFunc env t = true := by
  unfold denotesFunc
  constructor
  · rintro ⟨⟨a, r, m⟩, h⟩
    rw [asFunc_iff_trace] at h
    rw [h]
  · intro h
    split at h
    · rename_i a r m heq
      exact ⟨(a, r, m), (asFunc_iff_trace env _ t a r m).mpr heq⟩
    · simp at h

/- soundness of `validate_decs`, whatever the visited set: a walk that succeeds has seen every service
type of the term it was started on -/
mutual
theorem validateType_sound (env : Env) : ∀ (t : Ty) (fuel : Nat) (seen s : List String),
    validateType env fuel seen t = .ok s → servicesOk env t = true
  | .var _, _, _, _, _ => by simp [servicesOk]
  | .opt t, fuel, seen, s, h => by
    rw [validateType] at h; simp only [servicesOk]; exact validateType_sound env t fuel seen s h
  | .vec t, fuel, seen, s, h => by
    rw [validateType] at h; simp only [servicesOk]; exact validateType_sound env t fuel seen s h
  | .record fs, fuel, seen, s, h => by
    rw [validateType] at h; simp only [servicesOk]; exact validateFields_sound env fs fuel seen s h
  | .variant fs, fuel, seen, s, h => by
    rw [validateType] at h; simp only [servicesOk]; exact validateFields_sound env fs fuel seen s h
  | .func a r _, fuel, seen, s, h => by
    rw [validateType] at h
    simp only [servicesOk, Bool.and_eq_true]
    obtain ⟨s1, h1, h2⟩ := (bind_ok_iff _ _ _).mp h
    exact ⟨validateTys_sound env a fuel seen s1 h1, validateTys_sound env r fuel s1 s h2⟩
  | .service ms, fuel, seen, s, h => by
    rw [validateType] at h; simp only [servicesOk]; exact validateMeths_sound env ms fuel seen s h
  | .cls a t, fuel, seen, s, h => by
    rw [validateType] at h
    simp only [servicesOk, Bool.and_eq_true]
    obtain ⟨s1, h1, h2⟩ := (bind_ok_iff _ _ _).mp h
    exact ⟨validateTys_sound env a fuel seen s1 h1, validateType_sound env t fuel s1 s h2⟩
  | .prim _, _, _, _, _ => by simp [servicesOk]
  | .principal, _, _, _, _ => by simp [servicesOk]
  | .knot _, _, _, _, _ => by simp [servicesOk]
  | .unknown, _, _, _, _ => by simp [servicesOk]
  | .future, _, _, _, _ => by simp [servicesOk]
theorem validateFields_sound (env : Env) : ∀ (fs : Fields) (fuel : Nat) (seen s : List String),
    validateFields env fuel seen fs = .ok s → servicesOkFields env fs = true
  | .nil, _, _, _, _ => by simp [servicesOkFields]
  | .cons _ t r, fuel, seen, s, h => by
    rw [validateFields] at h
    simp only [servicesOkFields, Bool.and_eq_true]
    obtain ⟨s1, h1, h2⟩ := (bind_ok_iff _ _ _).mp h
    exact ⟨validateType_sound env t fuel seen s1 h1, validateFields_sound env r fuel s1 s h2⟩
theorem validateTys_sound (env : Env) : ∀ (ts : Tys) (fuel : Nat) (seen s : List String),
    validateTys env fuel seen ts = .ok s → servicesOkTys env ts = true
  | .nil, _, _, _, _ => by simp [servicesOkTys]
  | .cons t r, fuel, seen, s, h => by
    rw [validateTys] at h
    simp only [servicesOkTys, Bool.and_eq_true]
    obtain ⟨s1, h1, h2⟩ := (bind_ok_iff _ _ _).mp h
    exact ⟨validateType_sound env t fuel seen s1 h1, validateTys_sound env r fuel s1 s h2⟩
theorem validateMeths_sound (env : Env) : ∀ (ms : Meths) (fuel : Nat) (seen s : List String),
    validateMeths env fuel seen ms = .ok s → servicesOkMeths env ms = true
  | .nil, _, _, _, _ => by simp [servicesOkMeths]
  | .cons _ t r, fuel, seen, s, h => by
    rw [validateMeths] at h
    simp only [servicesOkMeths, Bool.and_eq_true]
    split at h
    · simp at h
    · rename_i f hf
      obtain ⟨s1, h1, h2⟩ := (bind_ok_iff _ _ _).mp h
      exact ⟨⟨(asFunc_ok_iff_denotes env t).mp ⟨f, hf⟩, validateType_sound env t fuel seen s1 h1⟩,
        validateMeths_sound env r fuel s1 s h2⟩
end



/-- state of the walk: distinct bound names, and enough fuel left to enter every name not yet visited -/
structure Inv (env : Env) (fuel : Nat) (seen : List String) : Prop where
  nodup : seen.Nodup
  bound : ∀ v ∈ seen, (env.find v).isSome
  room : env.length < seen.length + fuel

theorem Inv.mono {env : Env} {fuel : Nat} {seen s : List String} (h : Inv env fuel s) (hl : seen.length ≤ s.length)
    (fuel' : Nat) (hf : fuel ≤ fuel') : Inv env fuel' s := ⟨h.nodup, h.bound, by have := h.room; omega⟩

def AllOk (env : Env) (names : List String) : Prop :=
  ∀ x t, env.find x = some t → wfTy names t = true ∧ servicesOk env t = true

mutual
theorem validateType_complete (env : Env) (names : List String) (hb : Bound env names) (hall : AllOk env names) :
    ∀ (fuel : Nat) (t : Ty) (seen : List String), wfTy names t = true → servicesOk env t = true → Inv env fuel seen →
      ∃ s, validateType env fuel seen t = .ok s ∧ Inv env fuel s ∧ seen.length ≤ s.length
  | fuel, .var x, seen, hw, _, hi => by
    unfold validateType
    split
    · exact ⟨seen, rfl, hi, Nat.le_refl _⟩
    · rename_i hx
      have hx : x ∉ seen := by simpa using hx
      cases fuel with
      | zero =>
        have := nodup_subset_length seen (env.map (·.1)) hi.nodup (fun a ha => find_isSome_mem env a (hi.bound a ha))
        have := hi.room
        simp at *; omega
      | succ f =>
        simp only [wfTy] at hw
        have hxn : x ∈ names := by simpa using hw
        have hsome := (hb x).mpr hxn
        cases hf : env.find x with
        | none => simp [hf] at hsome
        | some t' =>
          have hi' : Inv env f (x :: seen) := ⟨List.nodup_cons.mpr ⟨hx, hi.nodup⟩, by
            intro v hv
            simp only [List.mem_cons] at hv
            rcases hv with rfl | hv
            · simp [hf]
            · exact hi.bound v hv, by have := hi.room; simp only [List.length_cons]; omega⟩
          obtain ⟨s, h1, h2, h3⟩ := validateType_complete env names hb hall f t' (x :: seen) (hall x t' hf).1 (hall x t' hf).2 hi'
          refine ⟨s, ?_, ⟨h2.nodup, h2.bound, by have := h2.room; omega⟩, by simp only [List.length_cons] at h3; omega⟩
          simp only [findType, hf, Except.bind]
          exact h1
  | fuel, .opt t, seen, hw, hs, hi => by
    rw [validateType]; simp only [wfTy, servicesOk] at hw hs
    exact validateType_complete env names hb hall fuel t seen hw hs hi
  | fuel, .vec t, seen, hw, hs, hi => by
    rw [validateType]; simp only [wfTy, servicesOk] at hw hs
    exact validateType_complete env names hb hall fuel t seen hw hs hi
  | fuel, .record fs, seen, hw, hs, hi => by
    rw [validateType]; simp only [wfTy, servicesOk] at hw hs
    exact validateFields_complete env names hb hall fuel fs seen hw hs hi
  | fuel, .variant fs, seen, hw, hs, hi => by
    rw [validateType]; simp only [wfTy, servicesOk] at hw hs
    exact validateFields_complete env names hb hall fuel fs seen hw hs hi
  | fuel, .func a r m, seen, hw, hs, hi => by
    rw [validateType]; simp only [wfTy, servicesOk, Bool.and_eq_true] at hw hs
    obtain ⟨s1, h1, h2, h3⟩ := validateTys_complete env names hb hall fuel a seen hw.1.1.1 hs.1 hi
    obtain ⟨s2, h4, h5, h6⟩ := validateTys_complete env names hb hall fuel r s1 hw.1.1.2 hs.2 h2
    exact ⟨s2, by rw [h1]; simp only [Except.bind]; exact h4, h5, by omega⟩
  | fuel, .service ms, seen, hw, hs, hi => by
    rw [validateType]; simp only [wfTy, servicesOk] at hw hs
    exact validateMeths_complete env names hb hall fuel ms seen hw hs hi
  | _, .cls _ _, _, hw, _, _ => by simp [wfTy] at hw
  | _, .prim _, seen, _, _, hi => by simp only [validateType]; exact ⟨seen, rfl, hi, Nat.le_refl _⟩
  | _, .principal, seen, _, _, hi => by simp only [validateType]; exact ⟨seen, rfl, hi, Nat.le_refl _⟩
  | _, .knot _, seen, _, _, hi => by simp only [validateType]; exact ⟨seen, rfl, hi, Nat.le_refl _⟩
  | _, .unknown, seen, _, _, hi => by simp only [validateType]; exact ⟨seen, rfl, hi, Nat.le_refl _⟩
  | _, .future, seen, _, _, hi => by simp only [validateType]; exact ⟨seen, rfl, hi, Nat.le_refl _⟩
termination_by fuel t => (fuel, sizeOf t)
theorem validateFields_complete (env : Env) (names : List String) (hb : Bound env names) (hall : AllOk env names) :
    ∀ (fuel : Nat) (fs : Fields) (seen : List String), wfFields names fs = true → servicesOkFields env fs = true → Inv env fuel seen →
      ∃ s, validateFields env fuel seen fs = .ok s ∧ Inv env fuel s ∧ seen.length ≤ s.length
  | _, .nil, seen, _, _, hi => by rw [validateFields]; exact ⟨seen, rfl, hi, Nat.le_refl _⟩
  | fuel, .cons _ t r, seen, hw, hs, hi => by
    rw [validateFields]; simp only [wfFields, servicesOkFields, Bool.and_eq_true] at hw hs
    obtain ⟨s1, h1, h2, h3⟩ := validateType_complete env names hb hall fuel t seen hw.1 hs.1 hi
    obtain ⟨s2, h4, h5, h6⟩ := validateFields_complete env names hb hall fuel r s1 hw.2 hs.2 h2
    exact ⟨s2, by rw [h1]; simp only [Except.bind]; exact h4, h5, by omega⟩
termination_by fuel fs => (fuel, sizeOf fs)
theorem validateTys_complete (env : Env) (names : List String) (hb : Bound env names) (hall : AllOk env names) :
    ∀ (fuel : Nat) (ts : Tys) (seen : List String), wfTys names ts = true → servicesOkTys env ts = true → Inv env fuel seen →
      ∃ s, validateTys env fuel seen ts = .ok s ∧ Inv env fuel s ∧ seen.length ≤ s.length
  | _, .nil, seen, _, _, hi => by rw [validateTys]; exact ⟨seen, rfl, hi, Nat.le_refl _⟩
  | fuel, .cons t r, seen, hw, hs, hi => by
    rw [validateTys]; simp only [wfTys, servicesOkTys, Bool.and_eq_true] at hw hs
    obtain ⟨s1, h1, h2, h3⟩ := validateType_complete env names hb hall fuel t seen hw.1 hs.1 hi
    obtain ⟨s2, h4, h5, h6⟩ := validateTys_complete env names hb hall fuel r s1 hw.2 hs.2 h2
    exact ⟨s2, by rw [h1]; simp only [Except.bind]; exact h4, h5, by omega⟩
termination_by fuel ts => (fuel, sizeOf ts)
theorem validateMeths_complete (env : Env) (names : List String) (hb : Bound env names) (hall : AllOk env names) :
    ∀ (fuel : Nat) (ms : Meths) (seen : List String), wfMeths names ms = true → servicesOkMeths env ms = true → Inv env fuel seen →
      ∃ s, validateMeths env fuel seen ms = .ok s ∧ Inv env fuel s ∧ seen.length ≤ s.length
  | _, .nil, seen, _, _, hi => by rw [validateMeths]; exact ⟨seen, rfl, hi, Nat.le_refl _⟩
  | fuel, .cons _ t r, seen, hw, hs, hi => by
    rw [validateMeths]; simp only [wfMeths, servicesOkMeths, Bool.and_eq_true] at hw hs
    have hden := hs.1.1
    unfold denotesFunc at hden
    split at hden
    · rename_i a rr m heq
      have hf := (asFunc_iff_trace env _ t a rr m).mpr heq
      rw [hf]
      simp only []
      obtain ⟨s1, h1, h2, h3⟩ := validateType_complete env names hb hall fuel t seen hw.1 hs.1.2 hi
      obtain ⟨s2, h4, h5, h6⟩ := validateMeths_complete env names hb hall fuel r s1 hw.2 hs.2 h2
      exact ⟨s2, by rw [h1]; simp only [Except.bind]; exact h4, h5, by omega⟩
    · simp at hden
termination_by fuel ms => (fuel, sizeOf ms)
end


/-! ### the sorted environment holds exactly the declarations -/

theorem mem_insertSorted (d : String × Ty) : ∀ (e : Env) (x : String × Ty), x ∈ insertSorted d e ↔ x = d ∨ x ∈ e := by
  intro e
  induction e with
  | nil => intro x; simp [insertSorted]
  | cons h r ih =>
    intro x
    simp only [insertSorted]
    split
    · simp
    · simp only [List.mem_cons, ih]
      constructor
      · rintro (h1 | h1 | h1) <;> simp [h1]
      · rintro (h1 | h1 | h1) <;> simp [h1]

theorem mem_sortedEnv : ∀ (decs : List (String × Ty)) (x : String × Ty), x ∈ sortedEnv decs ↔ x ∈ decs := by
  intro decs
  induction decs with
  | nil => intro x; simp [sortedEnv]
  | cons d r ih =>
    intro x
    have : sortedEnv (d :: r) = insertSorted d (sortedEnv r) := rfl
    rw [this, mem_insertSorted, ih]; simp

theorem length_insertSorted (d : String × Ty) : ∀ e : Env, (insertSorted d e).length = e.length + 1 := by
  intro e
  induction e with
  | nil => simp [insertSorted]
  | cons h r ih => simp only [insertSorted]; split <;> simp [ih]

theorem length_sortedEnv : ∀ decs : List (String × Ty), (sortedEnv decs).length = decs.length := by
  intro decs
  induction decs with
  | nil => rfl
  | cons d r ih =>
    have : sortedEnv (d :: r) = insertSorted d (sortedEnv r) := rfl
    rw [this, length_insertSorted, ih]; simp

theorem find_some_mem : ∀ (env : Env) (x : String) (t : Ty), env.find x = some t → (x, t) ∈ env := by
  intro env
  induction env with
  | nil => intro x t h; simp [Env.find] at h
  | cons d r ih =>
    intro x t h
    obtain ⟨k, u⟩ := d
    simp only [Env.find] at h
    by_cases hk : k = x
    · simp only [hk, if_true, Option.some.injEq] at h; simp [hk, h]
    · simp only [hk, if_false] at h; simp [ih x t h]

theorem mem_find_isSome : ∀ (env : Env) (x : String), x ∈ env.map (·.1) → (env.find x).isSome := by
  intro env
  induction env with
  | nil => intro x h; simp at h
  | cons d r ih =>
    intro x h
    obtain ⟨k, u⟩ := d
    simp only [Env.find]
    by_cases hk : k = x
    · simp [hk]
    · simp only [hk, if_false]
      simp only [List.map_cons, List.mem_cons] at h
      rcases h with h | h
      · exact absurd h.symm hk
      · exact ih x h

theorem bound_sortedEnv (decs : List (String × Ty)) : Bound (sortedEnv decs) (decs.map (·.1)) := by
  intro x
  constructor
  · intro h
    have := find_isSome_mem _ x h
    simp only [List.mem_map] at this ⊢
    obtain ⟨d, hd, rfl⟩ := this
    exact ⟨d, (mem_sortedEnv decs d).mp hd, rfl⟩
  · intro h
    apply mem_find_isSome
    simp only [List.mem_map] at h ⊢
    obtain ⟨d, hd, rfl⟩ := h
    exact ⟨d, (mem_sortedEnv decs d).mpr hd, rfl⟩

theorem placeholders_bound : ∀ (decs : List (String × Ty)) (seen : List String) (pre : Env),
    placeholders seen decs = .ok pre → Bound pre (decs.map (·.1)) := by
  intro decs
  induction decs with
  | nil => intro seen pre h; simp [placeholders] at h; subst h; intro x; simp [Env.find]
  | cons d r ih =>
    intro seen pre h
    obtain ⟨n, t⟩ := d
    simp only [placeholders] at h
    split at h
    · simp at h
    · cases hp : placeholders (n :: seen) r with
      | error e => rw [hp] at h; simp [Except.map] at h
      | ok e =>
        rw [hp] at h; simp only [Except.map, Except.ok.injEq] at h; subst h
        intro x
        have := ih (n :: seen) e hp x
        simp only [Env.find, List.map_cons, List.mem_cons]
        by_cases hk : n = x
        · simp [hk]
        · simp only [hk, if_false, this]
          constructor
          · intro h; exact Or.inr h
          · rintro (h | h)
            · exact absurd h.symm hk
            · exact h

theorem checkDefs_iff (pre : Env) (names : List String) (hb : Bound pre names) : ∀ ds : List (String × Ty),
    checkDefs pre ds = .ok () ↔ ∀ d ∈ ds, wfTy names d.2 = true := by
  intro ds
  induction ds with
  | nil => simp [checkDefs]
  | cons d r ih =>
    obtain ⟨n, t⟩ := d
    simp only [checkDefs, bind_ok_iff, List.mem_cons, forall_eq_or_imp]
    rw [← ih, ← checkType_pre_iff pre names hb t]
    constructor
    · rintro ⟨_, h1, h2⟩; exact ⟨h1, h2⟩
    · rintro ⟨h1, h2⟩; exact ⟨(), h1, h2⟩


theorem productive_iff (env : Env) (t : Ty) : productive env t = true ↔ Productive env t := by
  constructor
  · intro h; exact ⟨_, h⟩
  · intro h
    have := (hasCycle_iff_productive env t).mpr h
    exact hasCycle_false_trace env _ _ _ this

mutual
theorem checkType_full_iff (env : Env) (names : List String) (hb : Bound env names) :
    ∀ t : Ty, checkType env false t = .ok () ↔ (wfTy names t = true ∧ servicesOk env t = true)
  | .var x => by
    simp only [checkType, wfTy, servicesOk, and_true]
    rw [← findType_ok_iff env names hb x]
    cases findType env x <;> simp [Except.map]
  | .opt t => by simp only [checkType, wfTy, servicesOk]; exact checkType_full_iff env names hb t
  | .vec t => by simp only [checkType, wfTy, servicesOk]; exact checkType_full_iff env names hb t
  | .record fs => by simp only [checkType, wfTy, servicesOk]; exact checkFields_full_iff env names hb fs
  | .variant fs => by simp only [checkType, wfTy, servicesOk]; exact checkFields_full_iff env names hb fs
  | .func a r m => by
    simp only [checkType, wfTy, servicesOk, bind_ok_iff, Bool.and_eq_true]
    have h1 := checkTys_full_iff env names hb a
    have h2 := checkTys_full_iff env names hb r
    have := modesOk_iff r m
    simp only [Bool.and_eq_true] at this
    constructor
    · rintro ⟨_, ha, _, hr, hm⟩
      exact ⟨⟨⟨⟨(h1.mp ha).1, (h2.mp hr).1⟩, (this.mp hm).1⟩, (this.mp hm).2⟩, (h1.mp ha).2, (h2.mp hr).2⟩
    · rintro ⟨⟨⟨⟨ha, hr⟩, hm1⟩, hm2⟩, sa, sr⟩
      exact ⟨(), h1.mpr ⟨ha, sa⟩, (), h2.mpr ⟨hr, sr⟩, this.mpr ⟨hm1, hm2⟩⟩
  | .service ms => by simp only [checkType, wfTy, servicesOk]; exact checkMeths_full_iff env names hb ms
  | .cls _ _ => by simp [checkType, wfTy]
  | .prim _ => by simp [checkType, wfTy, servicesOk]
  | .principal => by simp [checkType, wfTy, servicesOk]
  | .knot _ => by simp [checkType, wfTy, servicesOk]
  | .unknown => by simp [checkType, wfTy, servicesOk]
  | .future => by simp [checkType, wfTy, servicesOk]
theorem checkFields_full_iff (env : Env) (names : List String) (hb : Bound env names) :
    ∀ fs : Fields, checkFields env false fs = .ok () ↔ (wfFields names fs = true ∧ servicesOkFields env fs = true)
  | .nil => by simp [checkFields, wfFields, servicesOkFields]
  | .cons _ t r => by
    simp only [checkFields, wfFields, servicesOkFields, bind_ok_iff, Bool.and_eq_true]
    have h1 := checkType_full_iff env names hb t
    have h2 := checkFields_full_iff env names hb r
    constructor
    · rintro ⟨_, ht, hr⟩; exact ⟨⟨(h1.mp ht).1, (h2.mp hr).1⟩, (h1.mp ht).2, (h2.mp hr).2⟩
    · rintro ⟨⟨a, b⟩, c, d⟩; exact ⟨(), h1.mpr ⟨a, c⟩, h2.mpr ⟨b, d⟩⟩
theorem checkTys_full_iff (env : Env) (names : List String) (hb : Bound env names) :
    ∀ ts : Tys, checkTys env false ts = .ok () ↔ (wfTys names ts = true ∧ servicesOkTys env ts = true)
  | .nil => by simp [checkTys, wfTys, servicesOkTys]
  | .cons t r => by
    simp only [checkTys, wfTys, servicesOkTys, bind_ok_iff, Bool.and_eq_true]
    have h1 := checkType_full_iff env names hb t
    have h2 := checkTys_full_iff env names hb r
    constructor
    · rintro ⟨_, ht, hr⟩; exact ⟨⟨(h1.mp ht).1, (h2.mp hr).1⟩, (h1.mp ht).2, (h2.mp hr).2⟩
    · rintro ⟨⟨a, b⟩, c, d⟩; exact ⟨(), h1.mpr ⟨a, c⟩, h2.mpr ⟨b, d⟩⟩
theorem checkMeths_full_iff (env : Env) (names : List String) (hb : Bound env names) :
    ∀ ms : Meths, checkMeths env false ms = .ok () ↔ (wfMeths names ms = true ∧ servicesOkMeths env ms = true)
  | .nil => by simp [checkMeths, wfMeths, servicesOkMeths]
  | .cons _ t r => by
    simp only [checkMeths, wfMeths, servicesOkMeths, bind_ok_iff, Bool.and_eq_true, Bool.not_false, Bool.true_and]
    have h1 := checkType_full_iff env names hb t
    have h2 := checkMeths_full_iff env names hb r
    have h3 := asFunc_ok_iff_denotes env t
    constructor
    · rintro ⟨_, ht, hrest⟩
      cases hf : asFunc env (env.length + 1) t with
      | error e => simp [hf] at hrest
      | ok f =>
        simp only [hf] at hrest
        have hden : denotesFunc env t = true := h3.mp ⟨f, hf⟩
        have hrest' : checkMeths env false r = .ok () := by simpa using hrest
        exact ⟨⟨(h1.mp ht).1, (h2.mp hrest').1⟩, ⟨hden, (h1.mp ht).2⟩, (h2.mp hrest').2⟩
    · rintro ⟨⟨a, b⟩, ⟨c, d⟩, e⟩
      refine ⟨(), h1.mpr ⟨a, d⟩, ?_⟩
      obtain ⟨f, hf⟩ := h3.mpr c
      simp only [hf]
      exact h2.mpr ⟨b, e⟩
end

def isCls : Ty → Bool
  | .cls _ _ => true
  | _ => false

theorem asService_iff_trace (env : Env) (hno : ∀ x u, env.find x = some u → isCls u = false) :
    ∀ (fuel : Nat) (t : Ty) (ms : Meths), isCls t = false →
      (asService env fuel t = .ok ms ↔ env.trace (fuel + 1) t = some (.service ms)) := by
  intro fuel
  induction fuel with
  | zero =>
    intro t ms hc
    cases t with
    | var x => cases hf : env.find x <;> simp [asService, Env.trace, hf]
    | cls _ _ => simp [isCls] at hc
    | service ms' => simp [asService, Env.trace]
    | _ => simp [asService, Env.trace]
  | succ f ih =>
    intro t ms hc
    cases t with
    | var x =>
      simp only [asService, findType]
      cases hf : env.find x with
      | none => simp [Except.bind, Env.trace, hf]
      | some t' => simp only [Except.bind]; rw [ih t' ms (hno x t' hf)]; simp [Env.trace, hf]
    | cls _ _ => simp [isCls] at hc
    | service ms' => simp [asService, Env.trace]
    | _ => simp [asService, Env.trace]

theorem wfTy_not_cls (names : List String) (t : Ty) (h : wfTy names t = true) : isCls t = false := by
  cases t <;> simp [isCls, wfTy] at h ⊢

theorem asService_ok_iff_denotes (env : Env) (hno : ∀ x u, env.find x = some u → isCls u = false) (t : Ty)
    (hc : isCls t = false) : (∃ ms, asService env (env.length + 1) t = .ok ms) ↔ denotesService env t = true := by
  unfold denotesService
  constructor
  · rintro ⟨ms, h⟩
    rw [asService_iff_trace env hno _ t ms hc] at h
    rw [h]
  · intro h
    split at h
    · rename_i ms heq
      exact ⟨ms, (asService_iff_trace env hno _ t ms hc).mpr heq⟩
    · simp at h

theorem map_ok_iff {α β : Type} (x : R α) (f : α → β) (b : β) : x.map f = .ok b ↔ ∃ a, x = .ok a ∧ f a = b := by
  cases x <;> simp [Except.map]

theorem checkActor_noncls (env : Env) (t : Ty) (hc : isCls t = false) :
    checkActor env (some t) =
      (checkType env false t).bind fun _ => (asService env (env.length + 1) t).map fun _ => () := by
  cases t <;> simp [isCls] at hc <;> rfl

theorem actorOk_noncls (env : Env) (names : List String) (t : Ty) (hc : isCls t = false) :
    actorOk env names (some t) = (wfTy names t && servicesOk env t && denotesService env t) := by
  cases t <;> simp [isCls] at hc <;> rfl

theorem checkActor_iff (env : Env) (names : List String) (hb : Bound env names)
    (hno : ∀ x u, env.find x = some u → isCls u = false) (a : Option Ty) :
    checkActor env a = .ok () ↔ actorOk env names a = true := by
  cases a with
  | none => simp [checkActor, actorOk]
  | some t =>
    by_cases hc : isCls t = true
    · cases t with
      | cls args t =>
        simp only [checkActor, actorOk, bind_ok_iff, map_ok_iff, Bool.and_eq_true]
        have h1 := checkTys_full_iff env names hb args
        have h2 := checkType_full_iff env names hb t
        constructor
        · rintro ⟨_, ha, _, ht, ms, hs, _⟩
          have hc := wfTy_not_cls names t (h2.mp ht).1
          exact ⟨⟨⟨⟨(h1.mp ha).1, (h1.mp ha).2⟩, (h2.mp ht).1⟩, (h2.mp ht).2⟩,
            (asService_ok_iff_denotes env hno t hc).mp ⟨ms, hs⟩⟩
        · rintro ⟨⟨⟨⟨a1, a2⟩, a3⟩, a4⟩, a5⟩
          obtain ⟨ms, hs⟩ := (asService_ok_iff_denotes env hno t (wfTy_not_cls names t a3)).mpr a5
          exact ⟨(), h1.mpr ⟨a1, a2⟩, (), h2.mpr ⟨a3, a4⟩, ms, hs, trivial⟩
      | _ => simp [isCls] at hc
    · have hc : isCls t = false := by simpa using hc
      rw [checkActor_noncls env t hc, actorOk_noncls env names t hc]
      simp only [bind_ok_iff, map_ok_iff, Bool.and_eq_true]
      have h2 := checkType_full_iff env names hb t
      constructor
      · rintro ⟨_, ht, ms, hs, _⟩
        exact ⟨⟨(h2.mp ht).1, (h2.mp ht).2⟩, (asService_ok_iff_denotes env hno t hc).mp ⟨ms, hs⟩⟩
      · rintro ⟨⟨a3, a4⟩, a5⟩
        obtain ⟨ms, hs⟩ := (asService_ok_iff_denotes env hno t hc).mpr a5
        exact ⟨(), h2.mpr ⟨a3, a4⟩, ms, hs, trivial⟩


theorem validateDecs_sound (env : Env) : ∀ (ds : List (String × Ty)) (seen : List String),
    validateDecs env seen ds = .ok () → ∀ d ∈ ds, servicesOk env d.2 = true := by
  intro ds
  induction ds with
  | nil => intro _ _ d hd; simp at hd
  | cons d r ih =>
    intro seen h x hx
    obtain ⟨n, t⟩ := d
    simp only [validateDecs, bind_ok_iff] at h
    obtain ⟨s, h1, h2⟩ := h
    simp only [List.mem_cons] at hx
    rcases hx with rfl | hx
    · exact validateType_sound env t _ seen s h1
    · exact ih s h2 x hx

theorem validateDecs_complete (env : Env) (names : List String) (hb : Bound env names) (hall : AllOk env names) :
    ∀ (ds : List (String × Ty)) (seen : List String), (∀ d ∈ ds, wfTy names d.2 = true ∧ servicesOk env d.2 = true) →
      seen.Nodup → (∀ v ∈ seen, (env.find v).isSome) → validateDecs env seen ds = .ok () := by
  intro ds
  induction ds with
  | nil => intro _ _ _ _; rfl
  | cons d r ih =>
    intro seen hds hnd hbd
    obtain ⟨n, t⟩ := d
    have ht := hds (n, t) (by simp)
    obtain ⟨s, h1, h2, _⟩ := validateType_complete env names hb hall (env.length + 1) t seen ht.1 ht.2
      ⟨hnd, hbd, by omega⟩
    simp only [validateDecs, h1, Except.bind]
    exact ih s (fun d hd => hds d (by simp [hd])) h2.nodup h2.bound


end Candid.Check
