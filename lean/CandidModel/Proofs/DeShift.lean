import CandidModel.Proofs.DeNeutral
/- helper lemmas for C07: success of the decoder mirror is monotone in both quotas and the cost of a successful
   run does not depend on them (simulation between two metered runs whose quotas differ by fixed amounts) -/
namespace Candid.De
open Candid Candid.Wire Candid.Leb

/-- how the quota of the second run relates to that of the first -/
inductive Mode where
  | drop             -- the second run has no quota
  | both (d : Nat)   -- both configured, the second `d` larger
  | neither          -- neither configured
  deriving Repr

def qrel (δ : Mode) (a b : Option Nat) : Prop :=
  match δ with
  | .drop => b = none
  | .both d => ∃ n, a = some n ∧ b = some (n + d)
  | .neither => a = none ∧ b = none

/-- the same decoder state with both quotas raised by fixed amounts (or removed) -/
def Shift (δd δs : Mode) (s s' : St) : Prop := Same s s' ∧ qrel δd s.dq s'.dq ∧ qrel δs s.sq s'.sq

/-- what the run with the larger quotas does when the run with the smaller quotas returns -/
def SimS (δd δs : Mode) {α : Type} (x y : R α) : Prop :=
  match x with
  | .ok a s => ∃ s', y = .ok a s' ∧ Shift δd δs s s'
  | .sub d q => ∃ d' q', y = .sub d' q' ∧ qrel δd d d' ∧ qrel δs q q'
  | _ => True

variable {δd δs : Mode}

theorem SimS.ok {α : Type} (a : α) (s s' : St) (h : Shift δd δs s s') : SimS δd δs (R.ok a s) (R.ok a s') :=
  ⟨s', rfl, h⟩
theorem SimS.err {α : Type} (k : ErrKind) (y : R α) : SimS δd δs (R.err k) y := trivial
theorem SimS.subErr {α : Type} (s s' : St) (h : Shift δd δs s s') : SimS δd δs (subErr s : R α) (subErr s') :=
  ⟨s'.dq, s'.sq, rfl, h.2.1, h.2.2⟩

theorem SimS.bind {α β : Type} {x y : R α} {f g : α → St → R β} (hxy : SimS δd δs x y)
    (hf : ∀ a s s', Shift δd δs s s' → SimS δd δs (f a s) (g a s')) : SimS δd δs (x.bind f) (y.bind g) := by
  cases x with
  | ok a s =>
    obtain ⟨s', hy, hs⟩ := hxy
    subst hy
    exact hf a s s' hs
  | sub d q =>
    obtain ⟨d', q', hy, h1, h2⟩ := hxy
    subst hy
    exact ⟨d', q', rfl, h1, h2⟩
  | err k => simp [R.bind, SimS]
  | panic p => simp [R.bind, SimS]

theorem SimS.map {α β : Type} {x y : R α} (f : α → β) (hxy : SimS δd δs x y) : SimS δd δs (x.map f) (y.map f) :=
  SimS.bind hxy (fun a s s' hs => SimS.ok (f a) s s' hs)

theorem chargeAmount_same (s s' : St) (h : Same s s') (c : Nat) : chargeAmount s c = chargeAmount s' c := by
  unfold chargeAmount; rw [h.2.2]

theorem chargeD_mono (s s' : St) (h : Shift δd δs s s') (c : Nat) (s1 : St) (h1 : chargeD s c = some s1) :
    ∃ s1', chargeD s' c = some s1' ∧ Shift δd δs s1 s1' := by
  unfold chargeD at h1 ⊢
  rw [← chargeAmount_same s s' h.1 c]
  have hrel := h.2.1
  cases δd with
  | drop =>
    simp only [qrel] at hrel
    rw [hrel]
    refine ⟨s', rfl, ?_⟩
    split at h1
    · split at h1
      · simp at h1
      · simp at h1; subst h1
        exact ⟨⟨h.1.1, h.1.2.1, h.1.2.2⟩, hrel, h.2.2⟩
    · simp at h1; subst h1; exact h
  | neither =>
    simp only [qrel] at hrel
    rw [hrel.2]
    rw [hrel.1] at h1
    simp at h1; subst h1
    exact ⟨s', rfl, h⟩
  | both d =>
    simp only [qrel] at hrel
    obtain ⟨n, ha, hb⟩ := hrel
    rw [ha] at h1
    rw [hb]
    simp only [] at h1 ⊢
    split at h1
    · simp at h1
    · rename_i hlt
      simp at h1; subst h1
      have : ¬ (n + d < chargeAmount s c) := by omega
      rw [if_neg this]
      refine ⟨_, rfl, ⟨h.1.1, h.1.2.1, h.1.2.2⟩, ?_, h.2.2⟩
      refine ⟨n - chargeAmount s c, rfl, ?_⟩
      simp only []
      congr 1
      omega

theorem chargeS_mono (s s' : St) (h : Shift δd δs s s') (c : Nat) (s1 : St) (h1 : chargeS s c = some s1) :
    ∃ s1', chargeS s' c = some s1' ∧ Shift δd δs s1 s1' := by
  unfold chargeS at h1 ⊢
  rw [← h.1.2.2]
  split
  · rename_i hu
    rw [if_pos hu] at h1
    have hrel := h.2.2
    cases δs with
    | drop =>
      simp only [qrel] at hrel
      rw [hrel]
      refine ⟨s', rfl, ?_⟩
      split at h1
      · split at h1
        · simp at h1
        · simp at h1; subst h1
          exact ⟨⟨h.1.1, h.1.2.1, h.1.2.2⟩, h.2.1, hrel⟩
      · simp at h1; subst h1; exact h
    | neither =>
      simp only [qrel] at hrel
      rw [hrel.2]
      rw [hrel.1] at h1
      simp at h1; subst h1
      exact ⟨s', rfl, h⟩
    | both d =>
      simp only [qrel] at hrel
      obtain ⟨n, ha, hb⟩ := hrel
      rw [ha] at h1
      rw [hb]
      simp only [] at h1 ⊢
      split at h1
      · simp at h1
      · simp at h1; subst h1
        have : ¬ (n + d < c) := by omega
        rw [if_neg this]
        refine ⟨_, rfl, ⟨h.1.1, h.1.2.1, rfl⟩, h.2.1, ?_⟩
        refine ⟨n - c, rfl, ?_⟩
        simp only []
        congr 1
        omega
  · rename_i hu
    rw [if_neg hu] at h1
    simp at h1; subst h1
    exact ⟨s', rfl, h⟩

theorem addCost_mono (s s' : St) (hs : Shift δd δs s s') (c : Nat) : SimS δd δs (addCost s c) (addCost s' c) := by
  cases h : addCost s c with
  | ok u s1 =>
    cases u
    unfold addCost at h
    cases hd : chargeD s c with
    | none => rw [hd] at h; simp at h
    | some sa =>
      rw [hd] at h
      simp only [] at h
      cases hq : chargeS sa c with
      | none => rw [hq] at h; simp at h
      | some sb =>
        rw [hq] at h
        simp only [R.ok.injEq, true_and] at h
        subst h
        obtain ⟨sa', e1, r1⟩ := chargeD_mono s s' hs c sa hd
        obtain ⟨sb', e2, r2⟩ := chargeS_mono sa sa' r1 c sb hq
        unfold addCost
        rw [e1]; simp only []; rw [e2]
        exact SimS.ok () sb sb' r2
  | sub d q =>
    unfold addCost at h
    repeat' split at h
    all_goals simp at h
  | err k => exact SimS.err _ _
  | panic p => trivial

theorem rd_mono {α : Type} (f : Bytes → Outcome (α × Bytes)) (s s' : St) (hs : Shift δd δs s s') :
    SimS δd δs (rd f s) (rd f s') := by
  unfold rd
  rw [← hs.1.1]
  cases f s.input with
  | ok x => exact SimS.ok _ _ _ ⟨⟨rfl, hs.1.2.1, hs.1.2.2⟩, hs.2⟩
  | err k => exact SimS.err _ _
  | panic p => trivial

theorem ofOpt_mono {α : Type} (o : Option α) (k : ErrKind) (s s' : St) (hs : Shift δd δs s s') :
    SimS δd δs (ofOpt o k s) (ofOpt o k s') := by
  cases o with
  | none => exact SimS.err _ _
  | some a => exact SimS.ok a s s' hs

/-- a decoding step is monotone in the quotas -/
def Mono (δd δs : Mode) {α : Type} (f : St → R α) : Prop := ∀ s s', Shift δd δs s s' → SimS δd δs (f s) (f s')

end Candid.De

namespace Candid.De
open Candid Candid.Wire Candid.Leb

variable {δd δs : Mode}

theorem unroll_mono (env : Env) (fuel : Nat) (w e : Ty) : Mono δd δs (unroll env fuel w e) := by
  intro s s' hs
  unfold unroll
  simp only []
  apply SimS.bind
  · split
    · exact SimS.bind (addCost_mono s s' hs 1) (fun _ a b h1 => ofOpt_mono _ _ a b h1)
    · exact SimS.ok _ _ _ hs
  · intro e' a b h1
    split
    · exact SimS.bind (addCost_mono a b h1 1) (fun _ c d h3 => SimS.map _ (ofOpt_mono _ _ c d h3))
    · exact SimS.ok _ _ _ h1

theorem dePrimExact_mono (p : Prim) (c : Nat) (w e : Ty) : Mono δd δs (dePrimExact p c w e) := by
  intro s s' hs
  unfold dePrimExact
  split
  · exact SimS.bind (addCost_mono s s' hs c) (fun _ a b h1 => rd_mono _ a b h1)
  · exact SimS.subErr s s' hs

theorem bigNum_mono (f : Bytes → Outcome (Val × Bytes)) : Mono δd δs (bigNum f) := by
  intro s s' hs
  unfold bigNum
  simp only []
  rw [hs.1.1]
  apply SimS.bind (rd_mono f s s' hs)
  intro v a b h1
  rw [h1.1.1]
  exact SimS.map _ (addCost_mono a b h1 _)

theorem dePrincipalBytes_mono : Mono δd δs dePrincipalBytes := by
  intro s s' hs
  unfold dePrincipalBytes
  exact SimS.bind (rd_mono _ s s' hs) (fun b a c h1 => SimS.map _ (addCost_mono a c h1 _))

theorem lenBytes_mono : Mono δd δs lenBytes := by
  intro s s' hs
  unfold lenBytes
  exact SimS.bind (rd_mono _ s s' hs) (fun n a b h1 =>
    SimS.bind (addCost_mono a b h1 _) (fun _ c d h3 => rd_mono _ c d h3))

theorem checkSubtype_mono (env : Env) (w e : Ty) : Mono δd δs (checkSubtype env w e) := by
  intro s s' hs
  unfold checkSubtype
  apply SimS.bind (addCost_mono s s' hs _)
  intro _ a b h1
  rw [h1.1.2.1]
  cases Sub.subAlg env Sub.defaultFuel b.gamma w e with
  | yes g => exact SimS.ok () _ _ ⟨⟨h1.1.1, rfl, h1.1.2.2⟩, h1.2⟩
  | no => exact SimS.subErr a b h1
  | out => exact SimS.subErr a b h1
  | panic p => trivial

theorem iterV_mono (f : St → R Val) (hf : Mono δd δs f) : ∀ n : Nat, Mono δd δs (iterV f n) := by
  intro n
  induction n with
  | zero => intro s s' hs; exact SimS.ok _ _ _ hs
  | succ n ih =>
    intro s s' hs
    simp only [iterV]
    exact SimS.bind (hf s s' hs) (fun v a b h1 => SimS.map _ (ih a b h1))

end Candid.De

namespace Candid.De
open Candid Candid.Wire Candid.Leb
variable {δd δs : Mode}

theorem deOptCase_mono (env : Env) (fuel : Nat) (recv : Ty → Ty → St → R Val) (hr : ∀ w e, Mono δd δs (recv w e))
    (w e2 : Ty) : Mono δd δs (deOptCase env fuel recv w e2) := by
  intro s s' hs
  unfold deOptCase
  split
  · exact SimS.ok _ _ _ hs
  · exact SimS.ok _ _ _ hs
  · rw [← hs.1.1]
    split
    · exact SimS.err _ _
    · split
      · exact SimS.ok _ _ _ ⟨⟨rfl, hs.1.2.1, hs.1.2.2⟩, hs.2⟩
      · split
        · exact hr _ _ _ _ ⟨⟨rfl, hs.1.2.1, hs.1.2.2⟩, hs.2⟩
        · exact SimS.err _ _
  · split
    · exact SimS.err _ _
    · exact hr _ _ s s' hs

theorem deBlobCase_mono (env : Env) (w : Ty) : Mono δd δs (deBlobCase env w) := by
  intro s s' hs
  unfold deBlobCase
  split
  · exact SimS.map _ (lenBytes_mono s s' hs)
  · split
    · apply SimS.bind (rd_mono _ s s' hs)
      intro n a b h1
      split
      · exact SimS.subErr a b h1
      · exact SimS.map _ (addCost_mono a b h1 1)
    · exact SimS.subErr s s' hs

theorem deFuncCase_mono (w : Ty) : Mono δd δs (deFuncCase w) := by
  intro s s' hs
  unfold deFuncCase
  split
  · rw [← hs.1.1]
    split
    · exact SimS.err _ _
    · split
      · exact SimS.err _ _
      · split
        · exact SimS.err _ _
        · refine SimS.bind (rd_mono _ _ _ ?_) ?_
          · exact ⟨⟨rfl, hs.1.2.1, hs.1.2.2⟩, hs.2⟩
          intro pid a b h1
          apply SimS.bind (rd_mono _ a b h1)
          intro n c d h3
          apply SimS.bind (rd_mono _ c d h3)
          intro m e f h5
          apply SimS.bind (addCost_mono e f h5 _)
          intro _ x y h7
          split
          · exact SimS.ok _ _ _ h7
          · exact SimS.err _ _
  · exact SimS.subErr s s' hs

theorem deVariantCase_mono (vis : Visitor) (dAny : Ty → Ty → St → R Val) (dIgn : Ty → St → R Val)
    (ha : ∀ w e, Mono δd δs (dAny w e)) (hi : ∀ w, Mono δd δs (dIgn w)) (w : Ty) (efs : Fields) :
    Mono δd δs (deVariantCase vis dAny dIgn w efs) := by
  intro s s' hs
  unfold deVariantCase
  split
  · apply SimS.bind (rd_mono _ s s' hs)
    intro idx a b h1
    split
    · exact SimS.err _ _
    · split
      · exact SimS.subErr a b h1
      · apply SimS.bind (addCost_mono a b h1 4)
        intro _ c d h3
        simp only []
        rw [h3.1.2.2]
        apply SimS.bind (addCost_mono c d h3 _)
        intro _ e f h5
        repeat' split
        all_goals first
          | exact SimS.map _ (addCost_mono e f h5 1)
          | exact SimS.subErr e f h5
          | (apply SimS.bind (addCost_mono e f h5 1)
             intro _ x y h7
             first
               | exact SimS.map _ (hi _ x y h7)
               | exact SimS.map _ (ha _ _ x y h7)
               | (split
                  · exact SimS.map _ (hi _ x y h7)
                  · exact SimS.map _ (ha _ _ x y h7)))
  · exact SimS.subErr s s' hs

theorem deVecCase_mono (env : Env) (vis : Visitor) (fuel : Nat) (dAny : Ty → Ty → St → R Val) (dIgn : Ty → St → R Val)
    (ha : ∀ w e, Mono δd δs (dAny w e)) (hi : ∀ w, Mono δd δs (dIgn w)) (w ee : Ty) :
    Mono δd δs (deVecCase env vis fuel dAny dIgn w ee) := by
  intro s s' hs
  unfold deVecCase
  split
  · split
    · exact SimS.err _ _
    · apply SimS.bind (rd_mono _ s s' hs)
      intro n a b h1
      split
      · simp only []
        split
        · exact SimS.err _ _
        · apply SimS.bind (addCost_mono a b h1 _)
          intro _ c d h3
          rw [h3.1.1]
          split
          · exact SimS.err _ _
          · exact SimS.map _ (iterV_mono _ (fun x y h5 => rd_mono _ x y h5) _ c d h3)
      · try simp only []
        split
        · split
          · exact SimS.err _ _
          · apply SimS.bind (addCost_mono a b h1 _)
            intro _ c d h3
            apply SimS.map
            apply iterV_mono _ _ _ c d h3
            intro x y h5
            split
            · exact bigNum_mono _ x y h5
            · exact bigNum_mono _ x y h5
        · apply SimS.map
          apply iterV_mono _ _ _ a b h1
          intro x y h5
          apply SimS.bind (addCost_mono x y h5 3)
          intro _ p q h7
          split
          · exact hi _ p q h7
          · exact ha _ _ p q h7
  · exact SimS.subErr s s' hs

theorem deAnyBody_mono (env : Env) (vis : Visitor) (f : Nat)
    (dAny : Ty → Ty → St → R Val) (dIgn : Ty → St → R Val) (dRec : Ty → Ty → St → R Val)
    (dFld : List FieldStep → St → List (Label × Val) → R Val)
    (ha : ∀ w e, Mono δd δs (dAny w e)) (hi : ∀ w, Mono δd δs (dIgn w)) (hr : ∀ w e, Mono δd δs (dRec w e))
    (hf : ∀ steps acc, Mono δd δs (fun st => dFld steps st acc)) (w e : Ty) :
    Mono δd δs (deAnyBody env vis f dAny dIgn dRec dFld w e) := by
  intro s s' hs
  unfold deAnyBody
  cases e with
  | prim p =>
    cases p <;> simp only []
    case int => repeat' split
                all_goals first | exact bigNum_mono _ s s' hs | exact SimS.subErr s s' hs
    case nat => split
                · exact bigNum_mono _ s s' hs
                · exact SimS.subErr s s' hs
    case text =>
      split
      · apply SimS.bind (lenBytes_mono s s' hs)
        intro b a c h1
        split
        · exact SimS.ok _ _ _ h1
        · exact SimS.err _ _
      · exact SimS.subErr s s' hs
    case reserved =>
      apply SimS.bind
      · split
        · exact hi _ s s' hs
        · exact SimS.ok _ _ _ hs
      · intro _ a b h1; exact SimS.map _ (addCost_mono a b h1 1)
    case empty => split
                  · exact SimS.err _ _
                  · exact SimS.subErr s s' hs
    all_goals exact dePrimExact_mono _ _ _ _ s s' hs
  | principal =>
    simp only []
    repeat' split
    all_goals first | exact SimS.map _ (dePrincipalBytes_mono s s' hs) | exact SimS.subErr s s' hs
  | opt e2 =>
    simp only []
    apply SimS.bind (addCost_mono s s' hs 1)
    intro _ a b h1
    exact deOptCase_mono env f _ hr _ _ a b h1
  | vec ee =>
    simp only []
    split
    · exact deBlobCase_mono _ _ s s' hs
    · apply SimS.bind (addCost_mono s s' hs 1)
      intro _ a b h1
      exact deVecCase_mono env vis f _ _ ha hi _ _ a b h1
  | record efs =>
    simp only []
    apply SimS.bind (addCost_mono s s' hs 1)
    intro _ a b h1
    split
    · exact hf _ _ a b h1
    · exact SimS.subErr a b h1
  | variant efs =>
    simp only []
    apply SimS.bind (addCost_mono s s' hs 1)
    intro _ a b h1
    exact deVariantCase_mono vis _ _ ha hi _ _ a b h1
  | service ms =>
    simp only []
    apply SimS.bind (checkSubtype_mono env _ _ s s' hs)
    intro _ a b h1
    split
    · exact SimS.map _ (dePrincipalBytes_mono a b h1)
    · exact SimS.subErr a b h1
  | func a r m =>
    simp only []
    apply SimS.bind (checkSubtype_mono env _ _ s s' hs)
    intro _ c d h1
    exact deFuncCase_mono _ c d h1
  | future =>
    simp only []
    apply SimS.bind (rd_mono _ s s' hs)
    intro n a b h1
    apply SimS.bind (addCost_mono a b h1 _)
    intro _ c d h3
    apply SimS.bind (rd_mono _ c d h3)
    intro _ x y h5
    exact SimS.map _ (rd_mono _ x y h5)
  | var x => simp only []; exact SimS.err _ _
  | knot k => simp only []; exact SimS.err _ _
  | unknown => simp only []; exact SimS.err _ _
  | cls a t => simp only []; exact SimS.err _ _

end Candid.De

namespace Candid.De
open Candid Candid.Wire Candid.Leb
variable {δd δs : Mode}

theorem deFields_step_mono (env : Env) (vis : Visitor) (f : Nat)
    (ha : ∀ vis w e, Mono δd δs (deAny env vis f w e)) (hi : ∀ w, Mono δd δs (deIgnored env f w))
    (hf : ∀ vis steps acc, Mono δd δs (fun st => deFields env vis f steps st acc))
    (steps : List FieldStep) (acc : List (Label × Val)) : Mono δd δs (fun st => deFields env vis (f + 1) steps st acc) := by
  intro s s' hs
  simp only []
  cases steps with
  | nil => unfold deFields; exact SimS.map _ (addCost_mono s s' hs 4)
  | cons step rest =>
    unfold deFields
    apply SimS.bind (addCost_mono s s' hs 4)
    intro _ a b h1
    cases step with
    | both l et wt =>
      simp only []
      apply SimS.bind (addCost_mono a b h1 _); intro _ c d h3
      apply SimS.bind (addCost_mono c d h3 1); intro _ x y h5
      apply SimS.bind
      · split
        · exact hi _ x y h5
        · exact ha _ _ _ x y h5
      · intro v p q h7; exact hf _ _ _ p q h7
    | expectOnly l et =>
      simp only []
      split
      · exact SimS.err _ _
      · split
        · exact SimS.subErr a b h1
        · apply SimS.bind (addCost_mono a b h1 _); intro _ c d h3
          apply SimS.bind (addCost_mono c d h3 1); intro _ x y h5
          apply SimS.bind (ha _ _ _ x y h5); intro v p q h7
          exact hf _ _ _ p q h7
    | expectTail l et =>
      simp only []
      apply SimS.bind (addCost_mono a b h1 _); intro _ c d h3
      apply SimS.bind (addCost_mono c d h3 1); intro _ x y h5
      apply SimS.bind (ha _ _ _ x y h5); intro v p q h7
      exact hf _ _ _ p q h7
    | wireOnly wt =>
      simp only []
      apply SimS.bind (addCost_mono a b h1 1); intro _ c d h3
      apply SimS.bind (addCost_mono c d h3 1); intro _ x y h5
      apply SimS.bind (ha _ _ _ x y h5); intro v p q h7
      exact hf _ _ _ p q h7

/-- every entry point of the decoder is quota neutral, at every depth -/
theorem de_mono (env : Env) : ∀ fuel : Nat,
    (∀ vis w e, Mono δd δs (deAny env vis fuel w e)) ∧ (∀ w, Mono δd δs (deIgnored env fuel w)) ∧
    (∀ vis w e, Mono δd δs (recoverable env vis fuel w e)) ∧
    (∀ vis steps acc, Mono δd δs (fun st => deFields env vis fuel steps st acc)) := by
  intro fuel
  induction fuel with
  | zero =>
    refine ⟨?_, ?_, ?_, ?_⟩
    · intro vis w e s s' _; rw [deAny_zero]; exact SimS.err _ _
    · intro w s s' _; rw [deIgnored_zero]; exact SimS.err _ _
    · intro vis w e s s' _; rw [recoverable_zero]; exact SimS.err _ _
    · intro vis steps acc s s' _; simp only []; rw [deFields_zero]; exact SimS.err _ _
  | succ f ih =>
    obtain ⟨ihAny, ihIgn, ihRec, ihFld⟩ := ih
    refine ⟨?_, ?_, ?_, ?_⟩
    · intro vis w0 e0 s s' hs
      rw [deAny_succ, deAny_succ]
      apply SimS.bind (unroll_mono env f w0 e0 s s' hs)
      intro we a b h1
      exact deAnyBody_mono env vis f _ _ _ _ (ihAny vis) ihIgn (ihRec vis) (ihFld vis) _ _ a b h1
    · intro w s s' hs
      rw [deIgnored_succ, deIgnored_succ]
      rw [hs.1.2.2]
      refine SimS.bind (ihAny _ _ _ _ _ ?_) ?_
      · exact ⟨⟨hs.1.1, hs.1.2.1, rfl⟩, hs.2⟩
      intro v a b h1
      exact SimS.ok _ _ _ ⟨⟨h1.1.1, h1.1.2.1, rfl⟩, h1.2⟩
    · intro vis w e s s' hs
      rw [recoverable_succ, recoverable_succ]
      have hinner : SimS δd δs (if vis = Visitor.ignored then deIgnored env f w s else deAny env vis f w e s)
          (if vis = Visitor.ignored then deIgnored env f w s' else deAny env vis f w e s') := by
        split
        · exact ihIgn _ s s' hs
        · exact ihAny _ _ _ s s' hs
      cases hx : (if vis = Visitor.ignored then deIgnored env f w s else deAny env vis f w e s) with
      | ok v a =>
        rw [hx] at hinner
        obtain ⟨b, hy, h1⟩ := hinner
        rw [hy]
        exact SimS.ok _ _ _ h1
      | sub dq sq =>
        rw [hx] at hinner
        obtain ⟨d', q', hy, hd, hq⟩ := hinner
        rw [hy]
        simp only []
        refine SimS.bind (addCost_mono _ _ ?_ 10) ?_
        · exact ⟨⟨hs.1.1, hs.1.2.1, hs.1.2.2⟩, hd, hq⟩
        intro _ a b h1
        exact SimS.map _ (ihIgn _ a b h1)
      | err k => exact SimS.err _ _
      | panic p => trivial
    · intro vis steps acc
      exact deFields_step_mono env vis f ihAny ihIgn ihFld steps acc

theorem drain_mono (env : Env) : ∀ ws : List Ty, Mono δd δs (argLoop.drain env ws) := by
  intro ws
  induction ws with
  | nil => intro s s' hs; unfold argLoop.drain; exact SimS.ok _ _ _ hs
  | cons w ws ih =>
    intro s s' hs
    unfold argLoop.drain
    refine SimS.bind ((de_mono env defaultFuel).2.1 w _ _ ?_) ?_
    · exact ⟨⟨hs.1.1, hs.1.2.1, rfl⟩, hs.2⟩
    intro _ a b h1
    exact ih a b h1

theorem argLoop_mono (env : Env) : ∀ (es ws : List Ty) (acc : List Val), Mono δd δs (fun st => argLoop env es ws st acc) := by
  intro es
  induction es with
  | nil =>
    intro ws acc s s' hs
    simp only []
    unfold argLoop
    apply SimS.bind (drain_mono env ws s s' hs)
    intro _ a b h1
    rw [h1.1.1]
    split
    · exact SimS.ok _ _ _ h1
    · exact SimS.err _ _
  | cons e es ih =>
    intro ws acc s s' hs
    simp only []
    unfold argLoop
    simp only []
    split
    · exact SimS.err _ _
    · split
      · split
        · refine SimS.bind ((de_mono env defaultFuel).1 _ _ _ _ _ ?_) ?_
          · exact ⟨⟨hs.1.1, hs.1.2.1, rfl⟩, hs.2⟩
          intro v a b h1; exact ih [] _ a b h1
        · exact SimS.err _ _
      · refine SimS.bind ((de_mono env defaultFuel).1 _ _ _ _ _ ?_) ?_
        · exact ⟨⟨hs.1.1, hs.1.2.1, rfl⟩, hs.2⟩
        intro v a b h1; exact ih _ _ a b h1

/-- raising both quotas by fixed amounts: a run that returns values still returns them, and what is left of each
quota is raised by the same amount -/
theorem decode_shift (bs : Bytes) (env : Env) (expected : List Ty) (cfg cfg' : Config) (vs : List Val) (st : St)
    (hd : qrel δd cfg.decodingQuota cfg'.decodingQuota) (hq : qrel δs cfg.skippingQuota cfg'.skippingQuota)
    (h : decodeWithConfig bs env expected cfg = .ok vs st) :
    ∃ st', decodeWithConfig bs env expected cfg' = .ok vs st' ∧ qrel δd st.dq st'.dq ∧ qrel δs st.sq st'.sq := by
  unfold decodeWithConfig at h ⊢
  cases hp : parseHeader bs with
  | err k => rw [hp] at h; simp at h
  | panic q => rw [hp] at h; simp at h
  | ok x =>
    obtain ⟨hdr, body⟩ := x
    rw [hp] at h
    simp only [] at h ⊢
    generalize (if expected.isEmpty = true then (hdr.table, expected) else mergeEnv hdr.table env expected) = we at h ⊢
    obtain ⟨full, expected'⟩ := we
    simp only [] at h ⊢
    have hsim : SimS δd δs
        ((addCost { input := body, gamma := [], dq := cfg.decodingQuota, sq := cfg.skippingQuota, untyped := false }
            ((bs.length - body.length) * 4)).bind fun _ st1 => argLoop full expected' hdr.args st1 [])
        ((addCost { input := body, gamma := [], dq := cfg'.decodingQuota, sq := cfg'.skippingQuota, untyped := false }
            ((bs.length - body.length) * 4)).bind fun _ st1 => argLoop full expected' hdr.args st1 []) := by
      refine SimS.bind (addCost_mono _ _ ?_ _) ?_
      · exact ⟨⟨rfl, rfl, rfl⟩, hd, hq⟩
      intro _ a b h1
      exact argLoop_mono full expected' hdr.args [] a b h1
    rw [h] at hsim
    obtain ⟨st', hy, hs⟩ := hsim
    exact ⟨st', hy, hs.2.1, hs.2.2⟩

end Candid.De
