import CandidModel.Proofs.De
/- helper lemmas for C07: the decoder mirror is quota neutral (simulation between a metered and the unmetered run) -/
namespace Candid.De
open Candid Candid.Wire Candid.Leb

/-- the same decoder state, quotas aside -/
def Same (s s' : St) : Prop := s.input = s'.input ∧ s.gamma = s'.gamma ∧ s.untyped = s'.untyped
/-- no quota configured -/
def Unmetered (s : St) : Prop := s.dq = none ∧ s.sq = none

/-- `y` is what the unmetered run does when the metered run `x` returns: the same value in the same state
(quotas aside), or the same subtype failure -/
def Sim {α : Type} (x y : R α) : Prop :=
  match x with
  | .ok a s => ∃ s', y = .ok a s' ∧ Same s s' ∧ Unmetered s'
  | .sub _ _ => y = .sub none none
  | _ => True

theorem Same.refl (s : St) : Same s s := ⟨rfl, rfl, rfl⟩
theorem Same.trans {a b c : St} (h1 : Same a b) (h2 : Same b c) : Same a c :=
  ⟨h1.1.trans h2.1, h1.2.1.trans h2.2.1, h1.2.2.trans h2.2.2⟩
theorem Same.symm {a b : St} (h : Same a b) : Same b a := ⟨h.1.symm, h.2.1.symm, h.2.2.symm⟩

theorem Sim.ok {α : Type} (a : α) (s s' : St) (h : Same s s') (hu : Unmetered s') : Sim (R.ok a s) (R.ok a s') :=
  ⟨s', rfl, h, hu⟩
theorem Sim.err {α : Type} (k : ErrKind) (y : R α) : Sim (R.err k) y := trivial
theorem Sim.subErr {α : Type} (s s' : St) (hu : Unmetered s') : Sim (subErr s : R α) (subErr s') := by
  unfold De.subErr Sim; simp only []; rw [hu.1, hu.2]

theorem Sim.bind {α β : Type} {x y : R α} {f g : α → St → R β} (hxy : Sim x y)
    (hf : ∀ a s s', Same s s' → Unmetered s' → Sim (f a s) (g a s')) : Sim (x.bind f) (y.bind g) := by
  cases x with
  | ok a s =>
    obtain ⟨s', hy, hs, hu⟩ := hxy
    subst hy
    exact hf a s s' hs hu
  | sub d q => simp only [Sim] at hxy; subst hxy; simp [R.bind, Sim]
  | err k => simp [R.bind, Sim]
  | panic p => simp [R.bind, Sim]

theorem Sim.map {α β : Type} {x y : R α} (f : α → β) (hxy : Sim x y) : Sim (x.map f) (y.map f) :=
  Sim.bind hxy (fun a s s' hs hu => Sim.ok (f a) s s' hs hu)

theorem chargeD_unmetered (s' : St) (hu : Unmetered s') (c : Nat) : chargeD s' c = some s' := by
  unfold chargeD; rw [hu.1]

theorem chargeS_unmetered (s' : St) (hu : Unmetered s') (c : Nat) : chargeS s' c = some s' := by
  unfold chargeS
  split
  · rw [hu.2]
  · rfl

theorem addCost_unmetered_ok (s' : St) (hu : Unmetered s') (c : Nat) : addCost s' c = .ok () s' := by
  unfold addCost
  rw [chargeD_unmetered s' hu c]
  simp only []
  rw [chargeS_unmetered s' hu c]

theorem addCost_same (s : St) (c : Nat) (s1 : St) (h : addCost s c = .ok () s1) : Same s1 s := by
  unfold addCost at h
  cases hd : chargeD s c with
  | none => rw [hd] at h; simp at h
  | some sa =>
    rw [hd] at h
    simp only [] at h
    cases hs : chargeS sa c with
    | none => rw [hs] at h; simp at h
    | some sb =>
      rw [hs] at h
      simp only [R.ok.injEq, true_and] at h
      subst h
      have h1 : Same sa s := by
        unfold chargeD at hd
        split at hd
        · split at hd
          · simp at hd
          · simp at hd; subst hd; exact ⟨rfl, rfl, rfl⟩
        · simp at hd; subst hd; exact Same.refl _
      have h2 : Same sb sa := by
        unfold chargeS at hs
        split at hs
        · split at hs
          · split at hs
            · simp at hs
            · simp at hs; subst hs; exact ⟨rfl, rfl, rfl⟩
          · simp at hs; subst hs; exact Same.refl _
        · simp at hs; subst hs; exact Same.refl _
      exact h2.trans h1

theorem addCost_sim (s s' : St) (hs : Same s s') (hu : Unmetered s') (c : Nat) : Sim (addCost s c) (addCost s' c) := by
  rw [addCost_unmetered_ok s' hu c]
  cases h : addCost s c with
  | ok u s1 => cases u; exact Sim.ok () s1 s' ((addCost_same s c s1 h).trans hs) hu
  | sub d q =>
    -- addCost never returns a subtype error
    unfold addCost at h
    repeat' split at h
    all_goals simp at h
  | err k => exact Sim.err _ _
  | panic p => trivial

theorem rd_sim {α : Type} (f : Bytes → Outcome (α × Bytes)) (s s' : St) (hs : Same s s') (hu : Unmetered s') :
    Sim (rd f s) (rd f s') := by
  unfold rd
  rw [← hs.1]
  cases f s.input with
  | ok x => exact Sim.ok _ _ _ ⟨rfl, hs.2.1, hs.2.2⟩ ⟨hu.1, hu.2⟩
  | err k => exact Sim.err _ _
  | panic p => trivial

theorem ofOpt_sim {α : Type} (o : Option α) (k : ErrKind) (s s' : St) (hs : Same s s') (hu : Unmetered s') :
    Sim (ofOpt o k s) (ofOpt o k s') := by
  cases o with
  | none => exact Sim.err _ _
  | some a => exact Sim.ok a s s' hs hu

end Candid.De

namespace Candid.De
open Candid Candid.Wire Candid.Leb

/-- a decoding step is quota neutral: from the same state (quotas aside) the unmetered run reproduces what the
metered run returns -/
def Neutral {α : Type} (f : St → R α) : Prop := ∀ s s', Same s s' → Unmetered s' → Sim (f s) (f s')

theorem unroll_sim (env : Env) (fuel : Nat) (w e : Ty) : Neutral (unroll env fuel w e) := by
  intro s s' hs hu
  unfold unroll
  simp only []
  apply Sim.bind
  · split
    · exact Sim.bind (addCost_sim s s' hs hu 1) (fun _ a b h1 h2 => ofOpt_sim _ _ a b h1 h2)
    · exact Sim.ok _ _ _ hs hu
  · intro e' a b h1 h2
    split
    · exact Sim.bind (addCost_sim a b h1 h2 1) (fun _ c d h3 h4 => Sim.map _ (ofOpt_sim _ _ c d h3 h4))
    · exact Sim.ok _ _ _ h1 h2

theorem dePrimExact_sim (p : Prim) (c : Nat) (w e : Ty) : Neutral (dePrimExact p c w e) := by
  intro s s' hs hu
  unfold dePrimExact
  split
  · exact Sim.bind (addCost_sim s s' hs hu c) (fun _ a b h1 h2 => rd_sim _ a b h1 h2)
  · exact Sim.subErr s s' hu

theorem bigNum_sim (f : Bytes → Outcome (Val × Bytes)) : Neutral (bigNum f) := by
  intro s s' hs hu
  unfold bigNum
  simp only []
  rw [hs.1]
  apply Sim.bind (rd_sim f s s' hs hu)
  intro v a b h1 h2
  rw [h1.1]
  exact Sim.map _ (addCost_sim a b h1 h2 _)

theorem dePrincipalBytes_sim : Neutral dePrincipalBytes := by
  intro s s' hs hu
  unfold dePrincipalBytes
  exact Sim.bind (rd_sim _ s s' hs hu) (fun b a c h1 h2 => Sim.map _ (addCost_sim a c h1 h2 _))

theorem lenBytes_sim : Neutral lenBytes := by
  intro s s' hs hu
  unfold lenBytes
  exact Sim.bind (rd_sim _ s s' hs hu) (fun n a b h1 h2 =>
    Sim.bind (addCost_sim a b h1 h2 _) (fun _ c d h3 h4 => rd_sim _ c d h3 h4))

theorem checkSubtype_sim (env : Env) (w e : Ty) : Neutral (checkSubtype env w e) := by
  intro s s' hs hu
  unfold checkSubtype
  apply Sim.bind (addCost_sim s s' hs hu _)
  intro _ a b h1 h2
  rw [h1.2.1]
  cases Sub.subAlg env Sub.defaultFuel b.gamma w e with
  | yes g => exact Sim.ok () _ _ ⟨h1.1, rfl, h1.2.2⟩ ⟨h2.1, h2.2⟩
  | no => exact Sim.subErr a b h2
  | out => exact Sim.subErr a b h2
  | panic p => trivial

theorem iterV_sim (f : St → R Val) (hf : Neutral f) : ∀ n : Nat, Neutral (iterV f n) := by
  intro n
  induction n with
  | zero => intro s s' hs hu; exact Sim.ok _ _ _ hs hu
  | succ n ih =>
    intro s s' hs hu
    simp only [iterV]
    exact Sim.bind (hf s s' hs hu) (fun v a b h1 h2 => Sim.map _ (ih a b h1 h2))

end Candid.De

namespace Candid.De
open Candid Candid.Wire Candid.Leb

theorem deOptCase_sim (env : Env) (fuel : Nat) (recv : Ty → Ty → St → R Val) (hr : ∀ w e, Neutral (recv w e))
    (w e2 : Ty) : Neutral (deOptCase env fuel recv w e2) := by
  intro s s' hs hu
  unfold deOptCase
  split
  · exact Sim.ok _ _ _ hs hu
  · exact Sim.ok _ _ _ hs hu
  · rw [← hs.1]
    split
    · exact Sim.err _ _
    · split
      · exact Sim.ok _ _ _ ⟨rfl, hs.2.1, hs.2.2⟩ ⟨hu.1, hu.2⟩
      · split
        · exact hr _ _ _ _ ⟨rfl, hs.2.1, hs.2.2⟩ ⟨hu.1, hu.2⟩
        · exact Sim.err _ _
  · split
    · exact Sim.err _ _
    · exact hr _ _ s s' hs hu

theorem deBlobCase_sim (env : Env) (w : Ty) : Neutral (deBlobCase env w) := by
  intro s s' hs hu
  unfold deBlobCase
  split
  · exact Sim.map _ (lenBytes_sim s s' hs hu)
  · split
    · apply Sim.bind (rd_sim _ s s' hs hu)
      intro n a b h1 h2
      split
      · exact Sim.subErr a b h2
      · exact Sim.map _ (addCost_sim a b h1 h2 1)
    · exact Sim.subErr s s' hu

theorem deFuncCase_sim (w : Ty) : Neutral (deFuncCase w) := by
  intro s s' hs hu
  unfold deFuncCase
  split
  · rw [← hs.1]
    split
    · exact Sim.err _ _
    · split
      · exact Sim.err _ _
      · split
        · exact Sim.err _ _
        · refine Sim.bind (rd_sim _ _ _ ?_ ?_) ?_
          · exact ⟨rfl, hs.2.1, hs.2.2⟩
          · exact ⟨hu.1, hu.2⟩
          intro pid a b h1 h2
          apply Sim.bind (rd_sim _ a b h1 h2)
          intro n c d h3 h4
          apply Sim.bind (rd_sim _ c d h3 h4)
          intro m e f h5 h6
          apply Sim.bind (addCost_sim e f h5 h6 _)
          intro _ x y h7 h8
          split
          · exact Sim.ok _ _ _ h7 h8
          · exact Sim.err _ _
  · exact Sim.subErr s s' hu

theorem deVariantCase_sim (vis : Visitor) (dAny : Ty → Ty → St → R Val) (dIgn : Ty → St → R Val)
    (ha : ∀ w e, Neutral (dAny w e)) (hi : ∀ w, Neutral (dIgn w)) (w : Ty) (efs : Fields) :
    Neutral (deVariantCase vis dAny dIgn w efs) := by
  intro s s' hs hu
  unfold deVariantCase
  split
  · apply Sim.bind (rd_sim _ s s' hs hu)
    intro idx a b h1 h2
    split
    · exact Sim.err _ _
    · split
      · exact Sim.subErr a b h2
      · apply Sim.bind (addCost_sim a b h1 h2 4)
        intro _ c d h3 h4
        simp only []
        rw [h3.2.2]
        apply Sim.bind (addCost_sim c d h3 h4 _)
        intro _ e f h5 h6
        repeat' split
        all_goals first
          | exact Sim.map _ (addCost_sim e f h5 h6 1)
          | exact Sim.subErr e f h6
          | (apply Sim.bind (addCost_sim e f h5 h6 1)
             intro _ x y h7 h8
             first
               | exact Sim.map _ (hi _ x y h7 h8)
               | exact Sim.map _ (ha _ _ x y h7 h8)
               | (split
                  · exact Sim.map _ (hi _ x y h7 h8)
                  · exact Sim.map _ (ha _ _ x y h7 h8)))
  · exact Sim.subErr s s' hu

theorem deVecCase_sim (env : Env) (vis : Visitor) (fuel : Nat) (dAny : Ty → Ty → St → R Val) (dIgn : Ty → St → R Val)
    (ha : ∀ w e, Neutral (dAny w e)) (hi : ∀ w, Neutral (dIgn w)) (w ee : Ty) :
    Neutral (deVecCase env vis fuel dAny dIgn w ee) := by
  intro s s' hs hu
  unfold deVecCase
  split
  · split
    · exact Sim.err _ _
    · apply Sim.bind (rd_sim _ s s' hs hu)
      intro n a b h1 h2
      split
      · simp only []
        split
        · exact Sim.err _ _
        · apply Sim.bind (addCost_sim a b h1 h2 _)
          intro _ c d h3 h4
          rw [h3.1]
          split
          · exact Sim.err _ _
          · exact Sim.map _ (iterV_sim _ (fun x y h5 h6 => rd_sim _ x y h5 h6) _ c d h3 h4)
      · try simp only []
        split
        · split
          · exact Sim.err _ _
          · apply Sim.bind (addCost_sim a b h1 h2 _)
            intro _ c d h3 h4
            apply Sim.map
            apply iterV_sim _ _ _ c d h3 h4
            intro x y h5 h6
            split
            · exact bigNum_sim _ x y h5 h6
            · exact bigNum_sim _ x y h5 h6
        · apply Sim.map
          apply iterV_sim _ _ _ a b h1 h2
          intro x y h5 h6
          apply Sim.bind (addCost_sim x y h5 h6 3)
          intro _ p q h7 h8
          split
          · exact hi _ p q h7 h8
          · exact ha _ _ p q h7 h8
  · exact Sim.subErr s s' hu

theorem deAnyBody_sim (env : Env) (vis : Visitor) (f : Nat)
    (dAny : Ty → Ty → St → R Val) (dIgn : Ty → St → R Val) (dRec : Ty → Ty → St → R Val)
    (dFld : List FieldStep → St → List (Label × Val) → R Val)
    (ha : ∀ w e, Neutral (dAny w e)) (hi : ∀ w, Neutral (dIgn w)) (hr : ∀ w e, Neutral (dRec w e))
    (hf : ∀ steps acc, Neutral (fun st => dFld steps st acc)) (w e : Ty) :
    Neutral (deAnyBody env vis f dAny dIgn dRec dFld w e) := by
  intro s s' hs hu
  unfold deAnyBody
  cases e with
  | prim p =>
    cases p <;> simp only []
    case int => repeat' split
                all_goals first | exact bigNum_sim _ s s' hs hu | exact Sim.subErr s s' hu
    case nat => split
                · exact bigNum_sim _ s s' hs hu
                · exact Sim.subErr s s' hu
    case text =>
      split
      · apply Sim.bind (lenBytes_sim s s' hs hu)
        intro b a c h1 h2
        split
        · exact Sim.ok _ _ _ h1 h2
        · exact Sim.err _ _
      · exact Sim.subErr s s' hu
    case reserved =>
      apply Sim.bind
      · split
        · exact hi _ s s' hs hu
        · exact Sim.ok _ _ _ hs hu
      · intro _ a b h1 h2; exact Sim.map _ (addCost_sim a b h1 h2 1)
    case empty => split
                  · exact Sim.err _ _
                  · exact Sim.subErr s s' hu
    all_goals exact dePrimExact_sim _ _ _ _ s s' hs hu
  | principal =>
    simp only []
    repeat' split
    all_goals first | exact Sim.map _ (dePrincipalBytes_sim s s' hs hu) | exact Sim.subErr s s' hu
  | opt e2 =>
    simp only []
    apply Sim.bind (addCost_sim s s' hs hu 1)
    intro _ a b h1 h2
    exact deOptCase_sim env f _ hr _ _ a b h1 h2
  | vec ee =>
    simp only []
    split
    · exact deBlobCase_sim _ _ s s' hs hu
    · apply Sim.bind (addCost_sim s s' hs hu 1)
      intro _ a b h1 h2
      exact deVecCase_sim env vis f _ _ ha hi _ _ a b h1 h2
  | record efs =>
    simp only []
    apply Sim.bind (addCost_sim s s' hs hu 1)
    intro _ a b h1 h2
    split
    · exact hf _ _ a b h1 h2
    · exact Sim.subErr a b h2
  | variant efs =>
    simp only []
    apply Sim.bind (addCost_sim s s' hs hu 1)
    intro _ a b h1 h2
    exact deVariantCase_sim vis _ _ ha hi _ _ a b h1 h2
  | service ms =>
    simp only []
    apply Sim.bind (checkSubtype_sim env _ _ s s' hs hu)
    intro _ a b h1 h2
    split
    · exact Sim.map _ (dePrincipalBytes_sim a b h1 h2)
    · exact Sim.subErr a b h2
  | func a r m =>
    simp only []
    apply Sim.bind (checkSubtype_sim env _ _ s s' hs hu)
    intro _ c d h1 h2
    exact deFuncCase_sim _ c d h1 h2
  | future =>
    simp only []
    apply Sim.bind (rd_sim _ s s' hs hu)
    intro n a b h1 h2
    apply Sim.bind (addCost_sim a b h1 h2 _)
    intro _ c d h3 h4
    apply Sim.bind (rd_sim _ c d h3 h4)
    intro _ x y h5 h6
    exact Sim.map _ (rd_sim _ x y h5 h6)
  | var x => simp only []; exact Sim.err _ _
  | knot k => simp only []; exact Sim.err _ _
  | unknown => simp only []; exact Sim.err _ _
  | cls a t => simp only []; exact Sim.err _ _

end Candid.De

namespace Candid.De
open Candid Candid.Wire Candid.Leb

theorem deFields_step_sim (env : Env) (vis : Visitor) (f : Nat)
    (ha : ∀ vis w e, Neutral (deAny env vis f w e)) (hi : ∀ w, Neutral (deIgnored env f w))
    (hf : ∀ vis steps acc, Neutral (fun st => deFields env vis f steps st acc))
    (steps : List FieldStep) (acc : List (Label × Val)) : Neutral (fun st => deFields env vis (f + 1) steps st acc) := by
  intro s s' hs hu
  simp only []
  cases steps with
  | nil => unfold deFields; exact Sim.map _ (addCost_sim s s' hs hu 4)
  | cons step rest =>
    unfold deFields
    apply Sim.bind (addCost_sim s s' hs hu 4)
    intro _ a b h1 h2
    cases step with
    | both l et wt =>
      simp only []
      apply Sim.bind (addCost_sim a b h1 h2 _); intro _ c d h3 h4
      apply Sim.bind (addCost_sim c d h3 h4 1); intro _ x y h5 h6
      apply Sim.bind
      · split
        · exact hi _ x y h5 h6
        · exact ha _ _ _ x y h5 h6
      · intro v p q h7 h8; exact hf _ _ _ p q h7 h8
    | expectOnly l et =>
      simp only []
      split
      · exact Sim.err _ _
      · split
        · exact Sim.subErr a b h2
        · apply Sim.bind (addCost_sim a b h1 h2 _); intro _ c d h3 h4
          apply Sim.bind (addCost_sim c d h3 h4 1); intro _ x y h5 h6
          apply Sim.bind (ha _ _ _ x y h5 h6); intro v p q h7 h8
          exact hf _ _ _ p q h7 h8
    | expectTail l et =>
      simp only []
      apply Sim.bind (addCost_sim a b h1 h2 _); intro _ c d h3 h4
      apply Sim.bind (addCost_sim c d h3 h4 1); intro _ x y h5 h6
      apply Sim.bind (ha _ _ _ x y h5 h6); intro v p q h7 h8
      exact hf _ _ _ p q h7 h8
    | wireOnly wt =>
      simp only []
      apply Sim.bind (addCost_sim a b h1 h2 1); intro _ c d h3 h4
      apply Sim.bind (addCost_sim c d h3 h4 1); intro _ x y h5 h6
      apply Sim.bind (ha _ _ _ x y h5 h6); intro v p q h7 h8
      exact hf _ _ _ p q h7 h8

/-- every entry point of the decoder is quota neutral, at every depth -/
theorem de_sim (env : Env) : ∀ fuel : Nat,
    (∀ vis w e, Neutral (deAny env vis fuel w e)) ∧ (∀ w, Neutral (deIgnored env fuel w)) ∧
    (∀ vis w e, Neutral (recoverable env vis fuel w e)) ∧
    (∀ vis steps acc, Neutral (fun st => deFields env vis fuel steps st acc)) := by
  intro fuel
  induction fuel with
  | zero =>
    refine ⟨?_, ?_, ?_, ?_⟩
    · intro vis w e s s' _ _; rw [deAny_zero]; exact Sim.err _ _
    · intro w s s' _ _; rw [deIgnored_zero]; exact Sim.err _ _
    · intro vis w e s s' _ _; rw [recoverable_zero]; exact Sim.err _ _
    · intro vis steps acc s s' _ _; simp only []; rw [deFields_zero]; exact Sim.err _ _
  | succ f ih =>
    obtain ⟨ihAny, ihIgn, ihRec, ihFld⟩ := ih
    refine ⟨?_, ?_, ?_, ?_⟩
    · intro vis w0 e0 s s' hs hu
      rw [deAny_succ, deAny_succ]
      apply Sim.bind (unroll_sim env f w0 e0 s s' hs hu)
      intro we a b h1 h2
      exact deAnyBody_sim env vis f _ _ _ _ (ihAny vis) ihIgn (ihRec vis) (ihFld vis) _ _ a b h1 h2
    · intro w s s' hs hu
      rw [deIgnored_succ, deIgnored_succ]
      rw [hs.2.2]
      refine Sim.bind (ihAny _ _ _ _ _ ?_ ?_) ?_
      · exact ⟨hs.1, hs.2.1, rfl⟩
      · exact ⟨hu.1, hu.2⟩
      intro v a b h1 h2
      exact Sim.ok _ _ _ ⟨h1.1, h1.2.1, rfl⟩ ⟨h2.1, h2.2⟩
    · intro vis w e s s' hs hu
      rw [recoverable_succ, recoverable_succ]
      have hinner : Sim (if vis = Visitor.ignored then deIgnored env f w s else deAny env vis f w e s)
          (if vis = Visitor.ignored then deIgnored env f w s' else deAny env vis f w e s') := by
        split
        · exact ihIgn _ s s' hs hu
        · exact ihAny _ _ _ s s' hs hu
      cases hx : (if vis = Visitor.ignored then deIgnored env f w s else deAny env vis f w e s) with
      | ok v a =>
        rw [hx] at hinner
        obtain ⟨b, hy, h1, h2⟩ := hinner
        rw [hy]
        exact Sim.ok _ _ _ h1 h2
      | sub dq sq =>
        rw [hx] at hinner
        simp only [Sim] at hinner
        rw [hinner]
        simp only []
        refine Sim.bind (addCost_sim _ _ ?_ ?_ 10) ?_
        · exact ⟨hs.1, hs.2.1, hs.2.2⟩
        · exact ⟨rfl, rfl⟩
        intro _ a b h1 h2
        exact Sim.map _ (ihIgn _ a b h1 h2)
      | err k => exact Sim.err _ _
      | panic p => trivial
    · intro vis steps acc
      exact deFields_step_sim env vis f ihAny ihIgn ihFld steps acc

theorem drain_sim (env : Env) : ∀ ws : List Ty, Neutral (argLoop.drain env ws) := by
  intro ws
  induction ws with
  | nil => intro s s' hs hu; unfold argLoop.drain; exact Sim.ok _ _ _ hs hu
  | cons w ws ih =>
    intro s s' hs hu
    unfold argLoop.drain
    refine Sim.bind ((de_sim env defaultFuel).2.1 w _ _ ?_ ?_) ?_
    · exact ⟨hs.1, hs.2.1, rfl⟩
    · exact ⟨hu.1, hu.2⟩
    intro _ a b h1 h2
    exact ih a b h1 h2

theorem argLoop_sim (env : Env) : ∀ (es ws : List Ty) (acc : List Val), Neutral (fun st => argLoop env es ws st acc) := by
  intro es
  induction es with
  | nil =>
    intro ws acc s s' hs hu
    simp only []
    unfold argLoop
    apply Sim.bind (drain_sim env ws s s' hs hu)
    intro _ a b h1 h2
    rw [h1.1]
    split
    · exact Sim.ok _ _ _ h1 h2
    · exact Sim.err _ _
  | cons e es ih =>
    intro ws acc s s' hs hu
    simp only []
    unfold argLoop
    simp only []
    split
    · exact Sim.err _ _
    · split
      · split
        · refine Sim.bind ((de_sim env defaultFuel).1 _ _ _ _ _ ?_ ?_) ?_
          · exact ⟨hs.1, hs.2.1, rfl⟩
          · exact ⟨hu.1, hu.2⟩
          intro v a b h1 h2; exact ih [] _ a b h1 h2
        · exact Sim.err _ _
      · refine Sim.bind ((de_sim env defaultFuel).1 _ _ _ _ _ ?_ ?_) ?_
        · exact ⟨hs.1, hs.2.1, rfl⟩
        · exact ⟨hu.1, hu.2⟩
        intro v a b h1 h2; exact ih _ _ a b h1 h2

/-- **Quotas never change the result**: whenever decoding under some quota configuration returns values,
decoding the same bytes at the same types without quotas returns the same values. -/
theorem decode_quota_neutral (bs : Bytes) (env : Env) (expected : List Ty) (cfg : Config) (vs : List Val) (st : St)
    (h : decodeWithConfig bs env expected cfg = .ok vs st) :
    ∃ st', decodeWithConfig bs env expected ⟨none, none⟩ = .ok vs st' := by
  unfold decodeWithConfig at h ⊢
  cases hp : parseHeader bs with
  | err k => rw [hp] at h; simp at h
  | panic q => rw [hp] at h; simp at h
  | ok x =>
    obtain ⟨hd, body⟩ := x
    rw [hp] at h
    simp only [] at h ⊢
    generalize (if expected.isEmpty = true then (hd.table, expected) else mergeEnv hd.table env expected) = we at h ⊢
    obtain ⟨full, expected'⟩ := we
    simp only [] at h ⊢
    have hsim : Sim
        ((addCost { input := body, gamma := [], dq := cfg.decodingQuota, sq := cfg.skippingQuota, untyped := false }
            ((bs.length - body.length) * 4)).bind fun _ st1 => argLoop full expected' hd.args st1 [])
        ((addCost { input := body, gamma := [], dq := none, sq := none, untyped := false }
            ((bs.length - body.length) * 4)).bind fun _ st1 => argLoop full expected' hd.args st1 []) := by
      refine Sim.bind (addCost_sim _ _ ?_ ?_ _) ?_
      · exact ⟨rfl, rfl, rfl⟩
      · exact ⟨rfl, rfl⟩
      intro _ a b h1 h2
      exact argLoop_sim full expected' hd.args [] a b h1 h2
    rw [h] at hsim
    obtain ⟨st', hy, _, _⟩ := hsim
    exact ⟨st', hy⟩

end Candid.De
