import CandidModel.Proofs.Leb
/- helper lemmas for C09: the big-number path of `Int::encode` (two's-complement bytes of the big integer, re-packed
   seven bits at a time up to the highest bit that differs from the sign) emits the minimal signed LEB128 string -/
namespace Candid.Leb
open Candid Impl

/-- the low seven bits of a group: of `j` itself (sign 0) or of its complement (sign 1) -/
def gbyte (s j : Nat) : Nat := if s = 0 then j % 128 else 127 - j % 128

/-- minimal signed LEB128 in sign / magnitude form: `i = j` (sign 0) or `i = -j - 1` (sign 1) -/
def slebSJ (s : Nat) (j : Nat) : Bytes :=
  if j < 64 then [(gbyte s j).toUInt8] else (gbyte s j + 128).toUInt8 :: slebSJ s (j / 128)
termination_by j
decreasing_by omega

theorem sleb_nonneg : ∀ j : Nat, sleb (j : Int) = slebSJ 0 j := by
  intro j
  induction j using Nat.strongRecOn with
  | _ j ih =>
    rw [sleb, slebSJ]
    by_cases h : j < 64
    · have h1 : -64 ≤ (j : Int) ∧ (j : Int) < 64 := by omega
      rw [if_pos h1, if_pos h]
      simp only [gbyte, if_true]
      first | (congr 2; done) | (congr 2; omega)
    · have h1 : ¬ (-64 ≤ (j : Int) ∧ (j : Int) < 64) := by omega
      rw [if_neg h1, if_neg h]
      have e : (j : Int) / 128 = ((j / 128 : Nat) : Int) := by omega
      rw [e, ih (j / 128) (by omega)]
      simp only [gbyte, if_true]
      first | (congr 2; done) | (congr 2; omega)

theorem sleb_neg : ∀ j : Nat, sleb (-(j : Int) - 1) = slebSJ 1 j := by
  intro j
  induction j using Nat.strongRecOn with
  | _ j ih =>
    rw [sleb, slebSJ]
    by_cases h : j < 64
    · have h1 : -64 ≤ (-(j : Int) - 1) ∧ (-(j : Int) - 1) < 64 := by omega
      rw [if_pos h1, if_pos h]
      simp only [gbyte]
      congr 2
      simp
      omega
    · have h1 : ¬ (-64 ≤ (-(j : Int) - 1) ∧ (-(j : Int) - 1) < 64) := by omega
      rw [if_neg h1, if_neg h]
      have e : (-(j : Int) - 1) / 128 = -((j / 128 : Nat) : Int) - 1 := by omega
      rw [e, ih (j / 128) (by omega)]
      simp only [gbyte]
      congr 2
      simp
      omega


theorem group_spec : ∀ s, s < 2 → ∀ y, y < 128 →
    (List.range 7).foldl (fun g k => g ||| ((if y.testBit k then 1 - s else s) <<< k)) 0 = gbyte s y := by
  decide +kernel

theorem foldl_congr_mem {α β : Type} (f f' : β → α → β) : ∀ (l : List α) (a : β),
    (∀ g, ∀ k ∈ l, f g k = f' g k) → l.foldl f a = l.foldl f' a := by
  intro l
  induction l with
  | nil => intro a _; rfl
  | cons x r ih =>
    intro a h
    simp only [List.foldl_cons]
    rw [h a x (by simp)]
    exact ih _ (fun g k hk => h g k (by simp [hk]))

theorem gbyte_lt (s j : Nat) : gbyte s j < 128 := by
  unfold gbyte; split <;> omega

theorem gbyte_mod (s j : Nat) : gbyte s (j % 128) = gbyte s j := by
  unfold gbyte; simp

/-- the re-packing loop, given what the bits and the highest differing position are -/
theorem bigLoop_spec (bytes : List Nat) (s : Nat) (hd : Int) (j : Nat) (hs : s < 2)
    (hbit : ∀ p, (if p / 8 < bytes.length then (bytes.getD (p / 8) 0 >>> (p % 8)) &&& 1 else s) =
      if j.testBit p then 1 - s else s)
    (hhd : ∀ P : Nat, ((P : Int) > hd ↔ j < 2 ^ P)) :
    ∀ (fuel shift : Nat), 1 ≤ fuel → j >>> shift < 2 ^ (7 * fuel - 1) →
      intEncodeBigLoop bytes s hd shift fuel = slebSJ s (j >>> shift) := by
  intro fuel
  induction fuel with
  | zero => intro shift h; omega
  | succ fuel ih =>
    intro shift _ hlt
    have hg : (List.range 7).foldl (fun g k => g |||
        ((if (shift + k) / 8 < bytes.length then (bytes.getD ((shift + k) / 8) 0 >>> ((shift + k) % 8)) &&& 1 else s) <<< k)) 0
        = gbyte s (j >>> shift) := by
      rw [← gbyte_mod, ← group_spec s hs ((j >>> shift) % 128) (Nat.mod_lt _ (by omega))]
      apply foldl_congr_mem
      intro g k hk
      simp only [List.mem_range] at hk
      rw [hbit (shift + k)]
      have : ((j >>> shift) % 128).testBit k = j.testBit (shift + k) := by
        rw [show (128 : Nat) = 2 ^ 7 by rfl, Nat.testBit_mod_two_pow, Nat.testBit_shiftRight]
        simp [hk]
      rw [this]
    unfold intEncodeBigLoop
    simp only []
    rw [hg]
    have e1 : j < 2 ^ (shift + 7) ↔ j >>> shift < 128 := by
      rw [Nat.shiftRight_eq_div_pow, Nat.pow_add, Nat.div_lt_iff_lt_mul (Nat.two_pow_pos shift), Nat.mul_comm]
    have hcond : (((shift + 7 : Nat) : Int) > hd ∧ gbyte s (j >>> shift) >>> 6 = s) ↔ j >>> shift < 64 := by
      rw [hhd (shift + 7), e1]
      generalize j >>> shift = j'
      rw [Nat.shiftRight_eq_div_pow]
      unfold gbyte
      have : s = 0 ∨ s = 1 := by omega
      rcases this with rfl | rfl
      · simp only [if_true]; omega
      · simp only [show ¬ ((1 : Nat) = 0) by omega, if_false]; omega
    rw [slebSJ]
    by_cases hc : j >>> shift < 64
    · rw [if_pos hc]
      rw [if_pos (hcond.mpr hc)]
      rw [and7f, Nat.mod_eq_of_lt (gbyte_lt _ _)]
    · rw [if_neg hc]
      rw [if_neg (fun h => hc (hcond.mp h))]
      rw [or80_lt _ (gbyte_lt _ _)]
      have hf : 1 ≤ fuel := by
        cases fuel with
        | zero => simp at hlt; omega
        | succ f => omega
      have e2 : j >>> (shift + 7) = (j >>> shift) / 128 := by
        rw [Nat.shiftRight_add, Nat.shiftRight_eq_div_pow (j >>> shift) 7]
      have hlt' : j >>> (shift + 7) < 2 ^ (7 * fuel - 1) := by
        rw [e2]
        have e3 : 7 * (fuel + 1) - 1 = (7 * fuel - 1) + 7 := by omega
        rw [e3, Nat.pow_add] at hlt
        exact Nat.div_lt_of_lt_mul (by rw [Nat.mul_comm]; exact hlt)
      rw [ih (shift + 7) hf hlt', e2]


/-! ### `to_signed_bytes_le` -/

def inRangeK (i : Int) (k : Nat) : Prop := -(2 : Int) ^ (8 * k - 1) ≤ i ∧ i < (2 : Int) ^ (8 * k - 1)

theorem signedLenFrom_spec (i : Int) : ∀ (fuel k : Nat), inRangeK i (k + fuel) → inRangeK i (signedLenFrom i k fuel) := by
  intro fuel
  induction fuel with
  | zero => intro k h; simpa [signedLenFrom] using h
  | succ fuel ih =>
    intro k h
    simp only [signedLenFrom]
    split
    · rename_i hr; exact hr
    · exact ih (k + 1) (by rw [show k + 1 + fuel = k + (fuel + 1) by omega]; exact h)

theorem signedLenFrom_ge (i : Int) : ∀ (fuel k : Nat), k ≤ signedLenFrom i k fuel := by
  intro fuel
  induction fuel with
  | zero => intro k; simp [signedLenFrom]
  | succ fuel ih =>
    intro k
    simp only [signedLenFrom]
    split
    · omega
    · have := ih (k + 1); omega

theorem signedLen_spec (i : Int) : 1 ≤ signedLen i ∧ inRangeK i (signedLen i) := by
  unfold signedLen
  refine ⟨signedLenFrom_ge i _ 1, signedLenFrom_spec i _ 1 ?_⟩
  unfold inRangeK
  have h1 : i.natAbs < 2 ^ i.natAbs := Nat.lt_two_pow_self
  have h2 : 2 ^ i.natAbs ≤ 2 ^ (8 * (1 + (i.natAbs + 1)) - 1) := Nat.pow_le_pow_right (by omega) (by omega)
  have h3 : ((2 ^ (8 * (1 + (i.natAbs + 1)) - 1) : Nat) : Int) = (2 : Int) ^ (8 * (1 + (i.natAbs + 1)) - 1) := by simp
  have h4 : (i.natAbs : Int) < (2 : Int) ^ (8 * (1 + (i.natAbs + 1)) - 1) := by
    rw [← h3]; exact Int.ofNat_lt.mpr (Nat.lt_of_lt_of_le h1 h2)
  omega

/-- sign / magnitude view of an integer: `i = j` (s = 0) or `i = -j - 1` (s = 1) -/
def signOf (i : Int) : Nat := if i < 0 then 1 else 0
def magOf (i : Int) : Nat := if i < 0 then (-i - 1).toNat else i.toNat

theorem sleb_signMag (i : Int) : sleb i = slebSJ (signOf i) (magOf i) := by
  unfold signOf magOf
  by_cases h : i < 0
  · simp only [h, if_true]
    rw [← sleb_neg]
    congr 1
    omega
  · simp only [h, if_false]
    rw [← sleb_nonneg]
    congr 1
    omega

/-- the magnitude is below `2^(8k-1)` and the two's-complement word is the magnitude or its complement -/
theorem word_spec (i : Int) (k : Nat) (hk : 1 ≤ k) (hr : inRangeK i k) :
    magOf i < 2 ^ (8 * k - 1) ∧
    (i % (2 : Int) ^ (8 * k)).toNat = if signOf i = 0 then magOf i else 2 ^ (8 * k) - (magOf i + 1) := by
  unfold inRangeK at hr
  have hp : (2 : Int) ^ (8 * k) = 2 * (2 : Int) ^ (8 * k - 1) := by
    rw [show 8 * k = (8 * k - 1) + 1 by omega, Int.pow_succ]; simp; omega
  have hc : ((2 ^ (8 * k - 1) : Nat) : Int) = (2 : Int) ^ (8 * k - 1) := by simp
  have hc2 : ((2 ^ (8 * k) : Nat) : Int) = (2 : Int) ^ (8 * k) := by simp
  have hpos : (0 : Int) < (2 : Int) ^ (8 * k - 1) := Int.pow_pos (by omega)
  unfold signOf magOf
  by_cases h : i < 0
  · simp only [h, if_true, show ¬ ((1 : Nat) = 0) by omega, if_false]
    have hm : ((-i - 1).toNat : Int) = -i - 1 := Int.toNat_of_nonneg (by omega)
    constructor
    · have : ((-i - 1).toNat : Int) < ((2 ^ (8 * k - 1) : Nat) : Int) := by rw [hm, hc]; omega
      exact Int.ofNat_lt.mp this
    · have e : i % (2 : Int) ^ (8 * k) = i + (2 : Int) ^ (8 * k) := by
        have : (i + (2 : Int) ^ (8 * k)) % (2 : Int) ^ (8 * k) = i % (2 : Int) ^ (8 * k) := Int.add_emod_right _ _
        rw [← this]
        exact Int.emod_eq_of_lt (by omega) (by omega)
      rw [e]
      have hlt : (-i - 1).toNat + 1 ≤ 2 ^ (8 * k) := by
        have : (((-i - 1).toNat + 1 : Nat) : Int) ≤ ((2 ^ (8 * k) : Nat) : Int) := by
          rw [hc2]; push_cast; rw [hm]; omega
        exact Int.ofNat_le.mp this
      apply Int.ofNat_inj.mp
      rw [Int.toNat_of_nonneg (by omega)]
      rw [Int.ofNat_sub hlt, hc2]
      push_cast
      rw [hm]
      omega
  · simp only [h, if_false, if_true]
    have hm : (i.toNat : Int) = i := Int.toNat_of_nonneg (by omega)
    constructor
    · have : (i.toNat : Int) < ((2 ^ (8 * k - 1) : Nat) : Int) := by rw [hm, hc]; exact hr.2
      exact Int.ofNat_lt.mp this
    · rw [Int.emod_eq_of_lt (by omega) (by omega)]


theorem byte_bit (m a r : Nat) (hr : r < 8) : (((m >>> a) % 256) >>> r) &&& 1 = (m.testBit (a + r)).toNat := by
  have e : m.testBit (a + r) = ((m >>> a) % 2 ^ 8).testBit r := by
    rw [Nat.testBit_mod_two_pow, Nat.testBit_shiftRight]; simp [hr]
  rw [e, Nat.toNat_testBit, Nat.and_one_is_mod, Nat.shiftRight_eq_div_pow ((m >>> a) % 256)]

theorem bytes_getD (m k idx : Nat) (h : idx < k) :
    ((List.range k).map fun t => (m >>> (8 * t)) % 256).getD idx 0 = (m >>> (8 * idx)) % 256 := by
  simp [List.getD, List.getElem?_map, List.getElem?_range h]

/-- every bit of the sign-extended two's-complement word, in terms of the magnitude -/
theorem bit_spec (i : Int) (k : Nat) (hk : 1 ≤ k) (hr : inRangeK i k) (p : Nat) :
    (if p / 8 < ((List.range k).map fun t => ((i % (2 : Int) ^ (8 * k)).toNat >>> (8 * t)) % 256).length
      then (((List.range k).map fun t => ((i % (2 : Int) ^ (8 * k)).toNat >>> (8 * t)) % 256).getD (p / 8) 0 >>> (p % 8)) &&& 1
      else signOf i) = if (magOf i).testBit p then 1 - signOf i else signOf i := by
  obtain ⟨hj, hm⟩ := word_spec i k hk hr
  have hs : signOf i = 0 ∨ signOf i = 1 := by unfold signOf; split <;> simp
  simp only [List.length_map, List.length_range]
  by_cases hp : p / 8 < k
  · rw [if_pos hp, bytes_getD _ k _ hp, byte_bit _ _ _ (Nat.mod_lt _ (by omega))]
    have e : 8 * (p / 8) + p % 8 = p := Nat.div_add_mod p 8
    rw [e, hm]
    have hpk : p < 8 * k := by omega
    rcases hs with h0 | h1
    · rw [h0]; simp only [if_true]
      cases (magOf i).testBit p <;> simp
    · rw [h1]; simp only [show ¬ ((1 : Nat) = 0) by omega, if_false]
      have hj' : magOf i < 2 ^ (8 * k) := Nat.lt_of_lt_of_le hj (Nat.pow_le_pow_right (by omega) (by omega))
      rw [Nat.testBit_two_pow_sub_succ hj']
      simp only [hpk, decide_true, Bool.true_and]
      cases (magOf i).testBit p <;> simp
  · rw [if_neg hp]
    have hpk : 8 * k - 1 ≤ p := by omega
    have : (magOf i).testBit p = false :=
      Nat.testBit_lt_two_pow (Nat.lt_of_lt_of_le hj (Nat.pow_le_pow_right (by omega) hpk))
    rw [this]; simp

/-- the sign bit read off the last byte -/
theorem signBit_spec (i : Int) (k : Nat) (hk : 1 ≤ k) (hr : inRangeK i k) :
    ((List.range k).map fun t => ((i % (2 : Int) ^ (8 * k)).toNat >>> (8 * t)) % 256).getLastD 0 >>> 7 = signOf i := by
  have h := bit_spec i k hk hr (8 * k - 1)
  simp only [List.length_map, List.length_range] at h
  have h1 : (8 * k - 1) / 8 = k - 1 := by omega
  have h2 : (8 * k - 1) % 8 = 7 := by omega
  rw [h1, h2, if_pos (by omega)] at h
  obtain ⟨hj, _⟩ := word_spec i k hk hr
  have h3 : (magOf i).testBit (8 * k - 1) = false := Nat.testBit_lt_two_pow hj
  rw [h3] at h
  simp only [Bool.false_eq_true, if_false] at h
  have hl : ((List.range k).map fun t => ((i % (2 : Int) ^ (8 * k)).toNat >>> (8 * t)) % 256).getLastD 0 =
      ((List.range k).map fun t => ((i % (2 : Int) ^ (8 * k)).toNat >>> (8 * t)) % 256).getD (k - 1) 0 := by
    rw [List.getLastD_eq_getLast?, List.getLast?_eq_getElem?]
    simp [List.getD]
  rw [hl]
  rw [bytes_getD _ k _ (by omega)] at h ⊢
  have hlt : ((i % (2 : Int) ^ (8 * k)).toNat >>> (8 * (k - 1))) % 256 < 256 := Nat.mod_lt _ (by omega)
  generalize ((i % (2 : Int) ^ (8 * k)).toNat >>> (8 * (k - 1))) % 256 = y at h hlt ⊢
  rw [Nat.and_one_is_mod, Nat.shiftRight_eq_div_pow] at h
  rw [Nat.shiftRight_eq_div_pow]
  omega


theorem findLast_spec (f : Nat → Bool) : ∀ n : Nat,
    match (List.range n).reverse.find? f with
    | some p => p < n ∧ f p = true ∧ ∀ q, p < q → q < n → f q = false
    | none => ∀ q, q < n → f q = false := by
  intro n
  induction n with
  | zero => simp
  | succ n ih =>
    rw [List.range_succ, List.reverse_append]
    simp only [List.reverse_cons, List.reverse_nil, List.nil_append, List.cons_append, List.find?_cons]
    cases hf : f n with
    | true =>
      simp only []
      exact ⟨by omega, hf, fun q h1 h2 => by omega⟩
    | false =>
      simp only []
      cases hx : (List.range n).reverse.find? f with
      | some p =>
        rw [hx] at ih
        simp only [] at ih ⊢
        refine ⟨by omega, ih.2.1, fun q h1 h2 => ?_⟩
        by_cases hq : q = n
        · rw [hq]; exact hf
        · exact ih.2.2 q h1 (by omega)
      | none =>
        rw [hx] at ih
        simp only [] at ih ⊢
        intro q hq
        by_cases hq' : q = n
        · rw [hq']; exact hf
        · exact ih q (by omega)

/-- the highest position that differs from the sign, in terms of the magnitude -/
theorem highDiff_spec (i : Int) (k : Nat) (hk : 1 ≤ k) (hr : inRangeK i k) (P : Nat) :
    ((P : Int) > highDiffOf ((List.range k).map fun t => ((i % (2 : Int) ^ (8 * k)).toNat >>> (8 * t)) % 256) (signOf i)) ↔
      magOf i < 2 ^ P := by
  obtain ⟨hj, _⟩ := word_spec i k hk hr
  have hs : signOf i = 0 ∨ signOf i = 1 := by unfold signOf; split <;> simp
  unfold highDiffOf
  simp only [List.length_map, List.length_range]
  generalize hf : (fun (p : Nat) => decide ((((List.range k).map fun t => ((i % (2 : Int) ^ (8 * k)).toNat >>> (8 * t)) % 256).getD (p / 8) 0 >>> (p % 8)) &&& 1 ≠ signOf i)) = f
  have hfp : ∀ p, p < k * 8 → f p = (magOf i).testBit p := by
    intro p hp
    have hb := bit_spec i k hk hr p
    simp only [List.length_map, List.length_range] at hb
    rw [if_pos (by omega)] at hb
    rw [← hf]
    simp only []
    rw [hb]
    rcases hs with h0 | h1
    · rw [h0]; cases (magOf i).testBit p <;> simp
    · rw [h1]; cases (magOf i).testBit p <;> simp
  have hspec := findLast_spec f (k * 8)
  have hhigh : ∀ q, k * 8 ≤ q → (magOf i).testBit q = false := fun q hq =>
    Nat.testBit_lt_two_pow (Nat.lt_of_lt_of_le hj (Nat.pow_le_pow_right (by omega) (by omega)))
  cases hx : (List.range (k * 8)).reverse.find? f with
  | some p =>
    rw [hx] at hspec
    simp only [] at hspec ⊢
    obtain ⟨hpn, hfp1, hfq⟩ := hspec
    rw [hfp p hpn] at hfp1
    constructor
    · intro hP
      apply Nat.lt_pow_two_of_testBit
      intro q hq
      by_cases hqn : q < k * 8
      · rw [← hfp q hqn]; exact hfq q (by omega) hqn
      · exact hhigh q (by omega)
    · intro hlt
      by_cases hPp : P ≤ p
      · have := Nat.testBit_lt_two_pow (Nat.lt_of_lt_of_le hlt (Nat.pow_le_pow_right (by omega) hPp))
        rw [this] at hfp1
        exact absurd hfp1 (by simp)
      · omega
  | none =>
    rw [hx] at hspec
    simp only [] at hspec ⊢
    have h0 : magOf i < 2 ^ 0 := by
      apply Nat.lt_pow_two_of_testBit
      intro q _
      by_cases hqn : q < k * 8
      · rw [← hfp q hqn]; exact hspec q hqn
      · exact hhigh q (by omega)
    constructor
    · intro _
      exact Nat.lt_of_lt_of_le h0 (Nat.pow_le_pow_right (by omega) (by omega))
    · intro _; omega

/-- **`Int::encode` emits the minimal signed LEB128 string of every integer**, on the word path and on the
big-number path alike -/
theorem intEncode_eq_sleb (i : Int) : intEncode i = sleb i := by
  unfold intEncode
  split
  · exact encodeIntLoop_eq_sleb i
  · obtain ⟨hk, hr⟩ := signedLen_spec i
    simp only [toSignedBytesLE]
    rw [signBit_spec i (signedLen i) hk hr, sleb_signMag]
    have hs : signOf i < 2 := by unfold signOf; split <;> omega
    have h := bigLoop_spec _ (signOf i) _ (magOf i) hs (bit_spec i (signedLen i) hk hr)
      (highDiff_spec i (signedLen i) hk hr)
      (((List.range (signedLen i)).map fun t => ((i % (2 : Int) ^ (8 * signedLen i)).toNat >>> (8 * t)) % 256).length * 8 / 7 + 2) 0
      (by omega) (by
        simp only [List.length_map, List.length_range, Nat.shiftRight_zero]
        obtain ⟨hj, _⟩ := word_spec i (signedLen i) hk hr
        exact Nat.lt_of_lt_of_le hj (Nat.pow_le_pow_right (by omega) (by omega)))
    rw [Nat.shiftRight_zero] at h
    exact h

end Candid.Leb
