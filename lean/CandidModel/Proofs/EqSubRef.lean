import CandidModel.Proofs.EqSub
/-
  C05: type equality implies subtyping both ways, function and service references included.  `deepTy`: every name
  resolves, no placeholder or class type anywhere (inside argument lists too), ids of every record / variant and method
  names of every service distinct — what a type table or a checked program provides.
-/
namespace Candid.Wire
open Candid Candid.Sub Candid.De

mutual
def deepTy (env : Env) : Ty → Bool
  | .var x => (recFindFull env x).isSome
  | .knot _ | .unknown | .future | .cls _ _ => false
  | .opt t | .vec t => deepTy env t
  | .record fs | .variant fs => deepFields env fs && decide ((fs.toList.map (·.1.getId)).Nodup)
  | .func a r _ => deepTys env a && deepTys env r
  | .service ms => deepMeths env ms && decide ((ms.toList.map (·.1)).Nodup)
  | _ => true
def deepFields (env : Env) : Fields → Bool
  | .nil => true
  | .cons _ t r => deepTy env t && deepFields env r
def deepTys (env : Env) : Tys → Bool
  | .nil => true
  | .cons t r => deepTy env t && deepTys env r
def deepMeths (env : Env) : Meths → Bool
  | .nil => true
  | .cons _ t r => deepTy env t && deepMeths env r
end

def DeepEnv (env : Env) : Prop := ∀ x t, env.find x = some t → deepTy env t = true

mutual
theorem deep_safe (env : Env) : ∀ (t : Ty), deepTy env t = true → safeTy env t = true
  | .var x, h => by simpa [deepTy, safeTy] using h
  | .knot _, h => by simp [deepTy] at h
  | .unknown, h => by simp [deepTy] at h
  | .future, h => by simp [deepTy] at h
  | .cls _ _, h => by simp [deepTy] at h
  | .opt t, h => by simp only [deepTy] at h; simp only [safeTy]; exact deep_safe env t h
  | .vec t, h => by simp only [deepTy] at h; simp only [safeTy]; exact deep_safe env t h
  | .record fs, h => by
    simp only [deepTy, Bool.and_eq_true] at h; simp only [safeTy]; exact deepFields_safe env fs h.1
  | .variant fs, h => by
    simp only [deepTy, Bool.and_eq_true] at h; simp only [safeTy]; exact deepFields_safe env fs h.1
  | .func a r m, h => by
    simp only [deepTy, Bool.and_eq_true] at h; simp only [safeTy, Bool.and_eq_true]
    exact ⟨deepTys_safe env a h.1, deepTys_safe env r h.2⟩
  | .service ms, h => by
    simp only [deepTy, Bool.and_eq_true] at h; simp only [safeTy]; exact deepMeths_safe env ms h.1
  | .prim _, _ => by simp [safeTy]
  | .principal, _ => by simp [safeTy]
theorem deepFields_safe (env : Env) : ∀ (fs : Fields), deepFields env fs = true → safeFields env fs = true
  | .nil, _ => by simp [safeFields]
  | .cons _ t r, h => by
    simp only [deepFields, Bool.and_eq_true] at h; simp only [safeFields, Bool.and_eq_true]
    exact ⟨deep_safe env t h.1, deepFields_safe env r h.2⟩
theorem deepTys_safe (env : Env) : ∀ (ts : Tys), deepTys env ts = true → safeTys env ts = true
  | .nil, _ => by simp [safeTys]
  | .cons t r, h => by
    simp only [deepTys, Bool.and_eq_true] at h; simp only [safeTys, Bool.and_eq_true]
    exact ⟨deep_safe env t h.1, deepTys_safe env r h.2⟩
theorem deepMeths_safe (env : Env) : ∀ (ms : Meths), deepMeths env ms = true → safeMeths env ms = true
  | .nil, _ => by simp [safeMeths]
  | .cons _ t r, h => by
    simp only [deepMeths, Bool.and_eq_true] at h; simp only [safeMeths, Bool.and_eq_true]
    exact ⟨deep_safe env t h.1, deepMeths_safe env r h.2⟩
end

mutual
theorem deep_shape (env : Env) : ∀ (t : Ty), deepTy env t = true → shapeTy t = true
  | .var _, _ => by simp [shapeTy]
  | .knot _, h => by simp [deepTy] at h
  | .unknown, h => by simp [deepTy] at h
  | .future, h => by simp [deepTy] at h
  | .cls _ _, h => by simp [deepTy] at h
  | .opt t, h => by simp only [deepTy] at h; simp only [shapeTy]; exact deep_shape env t h
  | .vec t, h => by simp only [deepTy] at h; simp only [shapeTy]; exact deep_shape env t h
  | .record fs, h => by
    simp only [deepTy, Bool.and_eq_true] at h; simp only [shapeTy, Bool.and_eq_true]
    exact ⟨deepFields_shape env fs h.1, h.2⟩
  | .variant fs, h => by
    simp only [deepTy, Bool.and_eq_true] at h; simp only [shapeTy, Bool.and_eq_true]
    exact ⟨deepFields_shape env fs h.1, h.2⟩
  | .func _ _ _, _ => by simp [shapeTy]
  | .service _, _ => by simp [shapeTy]
  | .prim _, _ => by simp [shapeTy]
  | .principal, _ => by simp [shapeTy]
theorem deepFields_shape (env : Env) : ∀ (fs : Fields), deepFields env fs = true → shapeFields fs = true
  | .nil, _ => by simp [shapeFields]
  | .cons _ t r, h => by
    simp only [deepFields, Bool.and_eq_true] at h; simp only [shapeFields, Bool.and_eq_true]
    exact ⟨deep_shape env t h.1, deepFields_shape env r h.2⟩
end

theorem deep_good {env : Env} {t : Ty} (h : deepTy env t = true) : goodTy env t = true := by
  simp only [goodTy, Bool.and_eq_true]; exact ⟨deep_safe env t h, deep_shape env t h⟩

theorem deepEnv_good {env : Env} (h : DeepEnv env) : GoodEnv env :=
  ⟨fun x t hf => deep_safe env t (h x t hf), fun x t hf => deep_shape env t (h x t hf)⟩

theorem deep_def {env : Env} (h : DeepEnv env) {x : String} {d : Ty} (hd : recFindFull env x = some d) : deepTy env d = true := by
  obtain ⟨y, hy⟩ := recFind_is_def env _ x d hd
  exact h y d hy

theorem deepFields_mem (env : Env) : ∀ (fs : Fields) (p : Label × Ty), deepFields env fs = true → p ∈ fs.toList → deepTy env p.2 = true
  | .nil, _, _, h => by simp [Fields.toList] at h
  | .cons l t r, p, hs, h => by
    simp only [deepFields, Bool.and_eq_true] at hs
    simp only [Fields.toList, List.mem_cons] at h
    rcases h with rfl | h
    · exact hs.1
    · exact deepFields_mem env r p hs.2 h

theorem deepMeths_mem (env : Env) : ∀ (ms : Meths) (p : String × Ty), deepMeths env ms = true → p ∈ ms.toList → deepTy env p.2 = true
  | .nil, _, _, h => by simp [Meths.toList] at h
  | .cons n t r, p, hs, h => by
    simp only [deepMeths, Bool.and_eq_true] at hs
    simp only [Meths.toList, List.mem_cons] at h
    rcases h with rfl | h
    · exact hs.1
    · exact deepMeths_mem env r p hs.2 h

theorem tupleFields_deep (env : Env) : ∀ (ts : Tys) (i : Nat), deepTys env ts = true → deepFields env (tupleFields i ts) = true
  | .nil, _, _ => by simp [tupleFields, deepFields]
  | .cons t r, i, h => by
    simp only [deepTys, Bool.and_eq_true] at h
    simp only [tupleFields, deepFields, Bool.and_eq_true]
    exact ⟨h.1, tupleFields_deep env r (i + 1) h.2⟩

theorem tupleFields_ids : ∀ (ts : Tys) (i : Nat), ∀ x ∈ (tupleFields i ts).toList.map (·.1.getId), i ≤ x
  | .nil, _, x, h => by simp [tupleFields, Fields.toList] at h
  | .cons t r, i, x, h => by
    simp only [tupleFields, Fields.toList, List.map_cons, List.mem_cons] at h
    rcases h with rfl | h
    · simp [Label.getId]
    · have := tupleFields_ids r (i + 1) x h; omega

theorem tupleFields_nodup : ∀ (ts : Tys) (i : Nat), ((tupleFields i ts).toList.map (·.1.getId)).Nodup
  | .nil, _ => by simp [tupleFields, Fields.toList]
  | .cons t r, i => by
    simp only [tupleFields, Fields.toList, List.map_cons, List.nodup_cons]
    refine ⟨?_, tupleFields_nodup r (i + 1)⟩
    intro h
    have := tupleFields_ids r (i + 1) _ h
    simp only [Label.getId] at this
    omega

theorem tupleTy_deep (env : Env) (ts : Tys) (h : deepTys env ts = true) : deepTy env (tupleTy ts) = true := by
  simp only [tupleTy, deepTy, Bool.and_eq_true, decide_eq_true_eq]
  exact ⟨tupleFields_deep env ts 0 h, tupleFields_nodup ts 0⟩

theorem lookupM_name_mem : ∀ (ms : Meths) (x : String) (t : Ty), lookupM ms x = some t → x ∈ ms.toList.map (·.1)
  | .nil, _, _, h => by simp [lookupM] at h
  | .cons n' t'' r', x, t, h => by
    simp only [lookupM] at h
    simp only [Meths.toList, List.map_cons, List.mem_cons]
    cases hr : lookupM r' x with
    | some u => exact Or.inr (lookupM_name_mem r' x u hr)
    | none =>
      rw [hr] at h
      simp only [] at h
      split at h
      · rename_i heq; exact Or.inl heq.symm
      · simp at h

/-- with distinct names, looking a method up by its own name finds it -/
theorem lookupM_of_mem_nodup : ∀ (ms : Meths) (p : String × Ty), (ms.toList.map (·.1)).Nodup → p ∈ ms.toList →
    lookupM ms p.1 = some p.2
  | .nil, _, _, h => by simp [Meths.toList] at h
  | .cons n t r, p, hn, h => by
    simp only [Meths.toList, List.map_cons, List.nodup_cons] at hn
    simp only [Meths.toList, List.mem_cons] at h
    simp only [lookupM]
    rcases h with rfl | h
    · -- the head: no later method has its name
      have hnone : lookupM r n = none := by
        cases hl : lookupM r n with
        | none => rfl
        | some t' => exact absurd (lookupM_name_mem r n t' hl) hn.1
      simp [hnone]
    · rw [lookupM_of_mem_nodup r p hn.2 h]

/-- the relation carried through the coinduction -/
def EQD (env : Env) (a b : Ty) : Prop := TyEq env a b ∧ deepTy env a = true ∧ deepTy env b = true

theorem eqd_step (env : Env) (hd : DeepEnv env) (a b : Ty) (h : EQD env a b) : F env (EQD env) a b := by
  obtain ⟨he, hda, hdb⟩ := h
  have hg := deepEnv_good hd
  have hga := deep_good hda
  have hgb := deep_good hdb
  by_cases hav : ∃ x, a = .var x
  · obtain ⟨x, hx⟩ := hav
    subst hx
    obtain ⟨d, hdx⟩ := good_var env x hga
    exact F.varL x d b hdx ⟨tyeq_unfoldL hdx he, deep_def hd hdx, hdb⟩
  · have hna : isName a = false := good_not_name env a hga (fun x hx => hav ⟨x, hx⟩)
    by_cases hbv : ∃ y, b = .var y
    · obtain ⟨y, hy⟩ := hbv
      subst hy
      obtain ⟨d, hdy⟩ := good_var env y hgb
      exact F.varR a y d hna hdy ⟨tyeq_unfoldR hdy he, hda, deep_def hd hdy⟩
    · have hF := tyeq_unfold he
      unfold FE at hF
      rcases hF with h1 | ⟨a', b', e1, e2, r⟩ | ⟨a', b', e1, e2, r⟩ | ⟨fs1, fs2, e1, e2, r⟩ | ⟨fs1, fs2, e1, e2, r⟩ |
        ⟨a1, r1, m, a2, r2, e1, e2, ra, rr⟩ | ⟨ms1, ms2, e1, e2, r⟩ | ⟨i1, t1, i2, t2, e1, e2, ri, rt⟩ |
        ⟨x', d', e1, e2, r⟩ | ⟨y, d', e1, e2, r⟩
      · subst h1; exact F.refl _
      · subst e2; exact F.opt a b' hna
      · subst e1; subst e2
        simp only [deepTy] at hda hdb
        exact F.vec _ _ ⟨r, hda, hdb⟩
      · subst e1; subst e2
        simp only [deepTy, Bool.and_eq_true, decide_eq_true_eq] at hda hdb
        refine F.record fs1 fs2 ?_
        intro p hp
        obtain ⟨q, hq⟩ := zip_partner_right _ _ r.1 p hp
        have hqm : q ∈ fs1.toList := (List.of_mem_zip hq).1
        obtain ⟨hid, hr⟩ := r.2 (q, p) hq
        simp only [] at hid hr
        have hl := lookupF_of_mem_nodup fs1 q hda.2 hqm
        rw [← hid, hl]
        exact ⟨hr, deepFields_mem env fs1 q hda.1 hqm, deepFields_mem env fs2 p hdb.1 hp⟩
      · subst e1; subst e2
        simp only [deepTy, Bool.and_eq_true, decide_eq_true_eq] at hda hdb
        refine F.variant fs1 fs2 ?_
        intro p hp
        obtain ⟨q, hq⟩ := zip_partner_left _ _ r.1 p hp
        have hqm : q ∈ fs2.toList := (List.of_mem_zip hq).2
        obtain ⟨hid, hr⟩ := r.2 (p, q) hq
        simp only [] at hid hr
        have hl := lookupF_of_mem_nodup fs2 q hdb.2 hqm
        rw [hid, hl]
        exact ⟨hr, deepFields_mem env fs1 p hda.1 hp, deepFields_mem env fs2 q hdb.1 hqm⟩
      · -- functions: arguments the other way round
        subst e1; subst e2
        simp only [deepTy, Bool.and_eq_true] at hda hdb
        exact F.func a1 r1 m a2 r2
          ⟨tyeq_symm ra, tupleTy_deep env a2 hdb.1, tupleTy_deep env a1 hda.1⟩
          ⟨rr, tupleTy_deep env r1 hda.2, tupleTy_deep env r2 hdb.2⟩
      · -- services: every method of the right side has its partner on the left
        subst e1; subst e2
        simp only [deepTy, Bool.and_eq_true, decide_eq_true_eq] at hda hdb
        refine F.service ms1 ms2 ?_
        intro p hp
        obtain ⟨q, hq⟩ := zip_partner_right _ _ r.1 p hp
        have hqm : q ∈ ms1.toList := (List.of_mem_zip hq).1
        obtain ⟨hid, hr⟩ := r.2 (q, p) hq
        simp only [] at hid hr
        have hl := lookupM_of_mem_nodup ms1 q hda.2 hqm
        rw [← hid, hl]
        exact ⟨hr, deepMeths_mem env ms1 q hda.1 hqm, deepMeths_mem env ms2 p hdb.1 hp⟩
      · subst e1; simp [deepTy] at hda
      · exact absurd ⟨x', e1⟩ hav
      · exact absurd ⟨y, e1⟩ hbv

/-- **Equal types are subtypes of each other**, reference types included -/
theorem tyeq_sub_deep (env : Env) (hd : DeepEnv env) (a b : Ty) (hda : deepTy env a = true) (hdb : deepTy env b = true)
    (h : TyEq env a b) : Sub env a b ∧ Sub env b a :=
  ⟨sub_coind (EQD env) (eqd_step env hd) a b ⟨h, hda, hdb⟩,
   sub_coind (EQD env) (eqd_step env hd) b a ⟨tyeq_symm h, hdb, hda⟩⟩

theorem equal_sub_both_deep (env : Env) (hd : DeepEnv env) (n : Nat) (g' : Gamma) (a b : Ty)
    (hda : deepTy env a = true) (hdb : deepTy env b = true) (h : eqAlg env n [] a b = .yes g') : Sub env a b ∧ Sub env b a :=
  tyeq_sub_deep env hd a b hda hdb (eqAlg_sound_history env n [] g' a b (Ejustified_nil env) h).1

/-- the decidable form of `DeepEnv` -/
def deepEnvB (env : Env) : Bool := env.all fun p => deepTy env p.2

theorem deepEnv_of_B (env : Env) (h : deepEnvB env = true) : DeepEnv env := by
  intro x t hf
  simp only [deepEnvB, List.all_eq_true] at h
  have : ∀ (e : Env), e.find x = some t → ∃ p ∈ e, p.2 = t := by
    intro e
    induction e with
    | nil => intro h; simp [Env.find] at h
    | cons q e ih =>
      intro h
      obtain ⟨k, v⟩ := q
      simp only [Env.find] at h
      split at h
      · simp only [Option.some.injEq] at h; exact ⟨(k, v), by simp, h⟩
      · obtain ⟨p, hp, hpt⟩ := ih h; exact ⟨p, by simp [hp], hpt⟩
  obtain ⟨p, hp, hpt⟩ := this env hf
  rw [← hpt]; exact h p hp

end Candid.Wire
