import CandidModel.Native
import CandidModel.Proofs.DeNeutral
/-
  Local facts about the native decoder mirror: each specialised path against the generic path it replaces
  (C08: "the specialised paths never accept a wire type the generic path rejects, never read a value at the
  wrong type, and bounded vectors accept exactly the vectors within their limits").
-/
namespace Candid.Native
open Candid Candid.Wire Candid.Leb Candid.De

/-! ## bounded vectors -/

/-- the limits of a `BoundedVec`, as its visitor checks them element by element -/
def within (maxLen maxTotal maxElem : Nat) : Nat → Nat → List Val → Prop
  | _, _, [] => True
  | count, total, v :: vs =>
    count < maxLen ∧ dataSize v ≤ maxElem ∧ total + dataSize v ≤ maxTotal ∧
      within maxLen maxTotal maxElem (count + 1) (total + dataSize v) vs

/-- … which is: the length, every element's size and the total size are within the limits -/
theorem within_iff (a b c : Nat) : ∀ (vs : List Val) (count total : Nat),
    within a b c count total vs ↔
      (count + vs.length ≤ a ∧ (∀ v ∈ vs, dataSize v ≤ c) ∧ total + (vs.map dataSize).sum ≤ b) ∨ vs = [] := by
  intro vs
  induction vs with
  | nil => intro count total; simp [within]
  | cons v vs ih =>
    intro count total
    simp only [within, ih, List.length_cons, List.mem_cons, forall_eq_or_imp, List.map_cons, List.sum_cons,
      reduceCtorEq, or_false]
    constructor
    · rintro ⟨h1, h2, h3, h4⟩
      rcases h4 with ⟨h5, h6, h7⟩ | h4
      · exact ⟨by omega, ⟨h2, h6⟩, by omega⟩
      · subst h4
        simp
        omega
    · rintro ⟨h1, ⟨h2, h3⟩, h4⟩
      refine ⟨by omega, h2, by omega, ?_⟩
      cases vs with
      | nil => right; rfl
      | cons x xs =>
        left
        simp only [List.length_cons, List.map_cons, List.sum_cons] at h1 h4 ⊢
        exact ⟨by omega, h3, by omega⟩

theorem iterB_ok_iff (f : Flags → St → NR) (a b c : Nat) : ∀ (n count total : Nat) (fl : Flags) (st : St)
    (vs : List Val) (fl' : Flags) (s' : St),
    iterB f a b c n count total fl st = .ok (vs, fl') s' ↔
      (iterF f n fl st = .ok (vs, fl') s' ∧ within a b c count total vs) := by
  intro n
  induction n with
  | zero =>
    intro count total fl st vs fl' s'
    simp only [iterB, iterF, R.ok.injEq, Prod.mk.injEq]
    constructor
    · rintro ⟨⟨h1, h2⟩, h3⟩; subst h1; exact ⟨⟨⟨rfl, h2⟩, h3⟩, trivial⟩
    · rintro ⟨h, _⟩; exact h
  | succ n ih =>
    intro count total fl st vs fl' s'
    unfold iterB iterF
    cases hf : f fl st with
    | ok p s =>
      obtain ⟨v, fl1⟩ := p
      simp only [R.bind]
      by_cases h1 : count ≥ a
      · simp only [h1, if_true]
        constructor
        · intro h; exact absurd h (by simp)
        · rintro ⟨h, hw⟩
          cases hr : iterF f n fl1 s with
          | ok q s2 =>
            rw [hr] at h
            simp only [R.map, R.bind, R.ok.injEq, Prod.mk.injEq] at h
            obtain ⟨⟨h2, _⟩, _⟩ := h
            subst h2
            simp only [within] at hw
            omega
          | sub d q => rw [hr] at h; simp [R.map, R.bind] at h
          | err k => rw [hr] at h; simp [R.map, R.bind] at h
          | panic p => rw [hr] at h; simp [R.map, R.bind] at h
      · simp only [h1, if_false]
        by_cases h2 : dataSize v > c
        · simp only [h2, if_true]
          constructor
          · intro h; exact absurd h (by simp)
          · rintro ⟨h, hw⟩
            cases hr : iterF f n fl1 s with
            | ok q s2 =>
              rw [hr] at h
              simp only [R.map, R.bind, R.ok.injEq, Prod.mk.injEq] at h
              obtain ⟨⟨h3, _⟩, _⟩ := h
              subst h3
              simp only [within] at hw
              omega
            | sub d q => rw [hr] at h; simp [R.map, R.bind] at h
            | err k => rw [hr] at h; simp [R.map, R.bind] at h
            | panic p => rw [hr] at h; simp [R.map, R.bind] at h
        · simp only [h2, if_false]
          by_cases h3 : total + dataSize v > b
          · simp only [h3, if_true]
            constructor
            · intro h; exact absurd h (by simp)
            · rintro ⟨h, hw⟩
              cases hr : iterF f n fl1 s with
              | ok q s2 =>
                rw [hr] at h
                simp only [R.map, R.bind, R.ok.injEq, Prod.mk.injEq] at h
                obtain ⟨⟨h4, _⟩, _⟩ := h
                subst h4
                simp only [within] at hw
                omega
              | sub d q => rw [hr] at h; simp [R.map, R.bind] at h
              | err k => rw [hr] at h; simp [R.map, R.bind] at h
              | panic p => rw [hr] at h; simp [R.map, R.bind] at h
          · simp only [h3, if_false]
            cases hb : iterB f a b c n (count + 1) (total + dataSize v) fl1 s with
            | ok q s2 =>
              obtain ⟨ws, fl2⟩ := q
              have := (ih (count + 1) (total + dataSize v) fl1 s ws fl2 s2).mp hb
              rw [this.1]
              simp only [R.map, R.bind, R.ok.injEq, Prod.mk.injEq]
              constructor
              · rintro ⟨⟨e1, e2⟩, e3⟩
                subst e1 e2 e3
                exact ⟨⟨⟨rfl, rfl⟩, rfl⟩, by simp only [within]; exact ⟨by omega, by omega, by omega, this.2⟩⟩
              · rintro ⟨h, _⟩; exact h
            | sub d q =>
              simp only [R.map, R.bind]
              constructor
              · intro h; exact absurd h (by simp)
              · rintro ⟨h, hw⟩
                cases hr : iterF f n fl1 s with
                | ok q s2 =>
                  obtain ⟨ws, fl2⟩ := q
                  rw [hr] at h
                  simp only [R.map, R.bind, R.ok.injEq, Prod.mk.injEq] at h
                  obtain ⟨⟨e1, e2⟩, e3⟩ := h
                  subst e1
                  simp only [within] at hw
                  have := (ih (count + 1) (total + dataSize v) fl1 s ws fl2 s2).mpr ⟨hr, hw.2.2.2⟩
                  rw [hb] at this
                  exact absurd this (by simp)
                | sub d q => rw [hr] at h; simp [R.map, R.bind] at h
                | err k => rw [hr] at h; simp [R.map, R.bind] at h
                | panic p => rw [hr] at h; simp [R.map, R.bind] at h
            | err k =>
              simp only [R.map, R.bind]
              constructor
              · intro h; exact absurd h (by simp)
              · rintro ⟨h, hw⟩
                cases hr : iterF f n fl1 s with
                | ok q s2 =>
                  obtain ⟨ws, fl2⟩ := q
                  rw [hr] at h
                  simp only [R.map, R.bind, R.ok.injEq, Prod.mk.injEq] at h
                  obtain ⟨⟨e1, e2⟩, e3⟩ := h
                  subst e1
                  simp only [within] at hw
                  have := (ih (count + 1) (total + dataSize v) fl1 s ws fl2 s2).mpr ⟨hr, hw.2.2.2⟩
                  rw [hb] at this
                  exact absurd this (by simp)
                | sub d q => rw [hr] at h; simp [R.map, R.bind] at h
                | err k => rw [hr] at h; simp [R.map, R.bind] at h
                | panic p => rw [hr] at h; simp [R.map, R.bind] at h
            | panic p =>
              simp only [R.map, R.bind]
              constructor
              · intro h; exact absurd h (by simp)
              · rintro ⟨h, hw⟩
                cases hr : iterF f n fl1 s with
                | ok q s2 =>
                  obtain ⟨ws, fl2⟩ := q
                  rw [hr] at h
                  simp only [R.map, R.bind, R.ok.injEq, Prod.mk.injEq] at h
                  obtain ⟨⟨e1, e2⟩, e3⟩ := h
                  subst e1
                  simp only [within] at hw
                  have := (ih (count + 1) (total + dataSize v) fl1 s ws fl2 s2).mpr ⟨hr, hw.2.2.2⟩
                  rw [hb] at this
                  exact absurd this (by simp)
                | sub d q => rw [hr] at h; simp [R.map, R.bind] at h
                | err k => rw [hr] at h; simp [R.map, R.bind] at h
                | panic p => rw [hr] at h; simp [R.map, R.bind] at h
    | sub d q => simp [R.bind]
    | err k => simp [R.bind]
    | panic p => simp [R.bind]


/-! ## the shortcut flags against the checked paths -/

theorem unroll_plain (env : Env) (fuel : Nat) (w e : Ty) (st : St) (hw : Sub.isName w = false) (he : Sub.isName e = false) :
    unroll env fuel w e st = .ok (w, e) st := by
  simp [unroll, hw, he, R.bind]

theorem unroll_prim (env : Env) (fuel : Nat) (p q : Prim) (st : St) :
    unroll env fuel (.prim p) (.prim q) st = .ok (.prim p, .prim q) st := unroll_plain env fuel _ _ st rfl rfl

theorem withFlags_fst (fl : Flags) (x : R Val) : (withFlags fl x).map Prod.fst = x := by
  cases x <;> simp [withFlags, R.map, R.bind]

/-- the big-number shortcut is taken exactly at the three pairs of literal types it was written for -/
theorem bigOf_eq_some (ee wire : Ty) (b : Big) : bigOf ee wire = some b ↔
    (b = .nat ∧ ee = .prim .nat ∧ wire = .prim .nat) ∨ (b = .int ∧ ee = .prim .int ∧ wire = .prim .int) ∨
    (b = .natAsInt ∧ ee = .prim .int ∧ wire = .prim .nat) := by
  unfold bigOf
  split <;> simp_all <;> (cases b <;> simp)

/-- `Nat` under the big-number flag (no check of the types) reads what the checked path reads at `nat` / `nat` -/
theorem nat_shortcut_sound (mk : String → NR) (env : Env) (fuel : Nat) (tx : Bool) (st : St) :
    (nNat mk env fuel ⟨some .nat, tx⟩ (.prim .nat) (.prim .nat) st).map Prod.fst =
    (nNat mk env fuel ⟨none, tx⟩ (.prim .nat) (.prim .nat) st).map Prod.fst := by
  simp only [nNat, unroll_plain env fuel (.prim .nat) (.prim .nat) st rfl rfl, R.bind, if_true, withFlags_fst]

/-- `Int` under the flag at `int` / `int` -/
theorem int_shortcut_sound (mk : String → NR) (env : Env) (fuel : Nat) (tx : Bool) (st : St) :
    (nInt mk env fuel ⟨some .int, tx⟩ (.prim .int) (.prim .int) st).map Prod.fst =
    (nInt mk env fuel ⟨none, tx⟩ (.prim .int) (.prim .int) st).map Prod.fst := by
  simp only [nInt, unroll_plain env fuel (.prim .int) (.prim .int) st rfl rfl, R.bind, if_true, withFlags_fst]

/-- `Int` under the flag at a wire `nat` -/
theorem nat_as_int_shortcut_sound (mk : String → NR) (env : Env) (fuel : Nat) (tx : Bool) (st : St) :
    (nInt mk env fuel ⟨some .natAsInt, tx⟩ (.prim .nat) (.prim .int) st).map Prod.fst =
    (nInt mk env fuel ⟨none, tx⟩ (.prim .nat) (.prim .int) st).map Prod.fst := by
  simp only [nInt, unroll_plain env fuel (.prim .nat) (.prim .int) st rfl rfl, R.bind, if_true, withFlags_fst]

/-- `String` under the text-key flag reads what the checked path reads at `text` / `text` -/
theorem text_shortcut_sound (env : Env) (fuel : Nat) (b : Option Big) (st : St) :
    (nText env fuel ⟨b, true⟩ (.prim .text) (.prim .text) st).map Prod.fst =
    (nText env fuel ⟨b, false⟩ (.prim .text) (.prim .text) st).map Prod.fst := by
  simp only [nText, unroll_plain env fuel (.prim .text) (.prim .text) st rfl rfl, R.bind, if_true, and_self]
  cases hx : lenBytes st with
  | ok bts s => cases hu : utf8 bts <;> simp [R.bind, R.map, hu, hx]
  | sub d q => simp [R.bind, R.map, hx]
  | err k => simp [R.bind, R.map, hx]
  | panic p => simp [R.bind, R.map, hx]


/-! ## the three ways a vector's elements are read -/

/-- two element readers that return the flags they are given and read the same values, on every state an invariant
`P` holds for -/
def SameReads (P : St → Prop) (f g : Flags → St → NR) (fa fb : Flags) : Prop :=
  ∀ st, P st → ∃ r : R Val, f fa st = withFlags fa r ∧ g fb st = withFlags fb r ∧ ∀ v s, r = .ok v s → P s

theorem iterF_same (P : St → Prop) (f g : Flags → St → NR) (fa fb : Flags) (h : SameReads P f g fa fb) :
    ∀ (n : Nat) (st : St), P st → ∃ r : R (List Val),
      iterF f n fa st = r.map (fun vs => (vs, fa)) ∧ iterF g n fb st = r.map (fun vs => (vs, fb)) ∧
      ∀ vs s, r = .ok vs s → P s := by
  intro n
  induction n with
  | zero => intro st hp; exact ⟨.ok [] st, rfl, rfl, fun vs s e => by cases e; exact hp⟩
  | succ n ih =>
    intro st hp
    obtain ⟨r, h1, h2, h3⟩ := h st hp
    unfold iterF
    rw [h1, h2]
    cases r with
    | ok v s =>
      obtain ⟨r', e1, e2, e3⟩ := ih s (h3 v s rfl)
      refine ⟨r'.map (fun vs => v :: vs), ?_, ?_, ?_⟩
      · simp only [withFlags, R.map, R.bind]; rw [e1]; cases r' <;> rfl
      · simp only [withFlags, R.map, R.bind]; rw [e2]; cases r' <;> rfl
      · intro vs s' e
        cases r' with
        | ok ws s2 => simp only [R.map, R.bind, R.ok.injEq] at e; obtain ⟨_, e'⟩ := e; subst e'; exact e3 ws s2 rfl
        | sub d q => simp [R.map, R.bind] at e
        | err k => simp [R.map, R.bind] at e
        | panic p => simp [R.map, R.bind] at e
    | sub d q => exact ⟨.sub d q, rfl, rfl, fun vs s e => by cases e⟩
    | err k => exact ⟨.err k, rfl, rfl, fun vs s e => by cases e⟩
    | panic p => exact ⟨.panic p, rfl, rfl, fun vs s e => by cases e⟩

theorem iterB_same (P : St → Prop) (f g : Flags → St → NR) (fa fb : Flags) (h : SameReads P f g fa fb) (a b c : Nat) :
    ∀ (n count total : Nat) (st : St), P st → ∃ r : R (List Val),
      iterB f a b c n count total fa st = r.map (fun vs => (vs, fa)) ∧
      iterB g a b c n count total fb st = r.map (fun vs => (vs, fb)) := by
  intro n
  induction n with
  | zero => intro count total st hp; exact ⟨.ok [] st, rfl, rfl⟩
  | succ n ih =>
    intro count total st hp
    obtain ⟨r, h1, h2, h3⟩ := h st hp
    unfold iterB
    rw [h1, h2]
    cases r with
    | ok v s =>
      simp only [withFlags, R.map, R.bind]
      by_cases c1 : count ≥ a
      · exact ⟨.err .other, by simp [c1, R.map, R.bind], by simp [c1, R.map, R.bind]⟩
      · by_cases c2 : dataSize v > c
        · exact ⟨.err .other, by simp [c1, c2, R.map, R.bind], by simp [c1, c2, R.map, R.bind]⟩
        · by_cases c3 : total + dataSize v > b
          · exact ⟨.err .other, by simp [c1, c2, c3, R.map, R.bind], by simp [c1, c2, c3, R.map, R.bind]⟩
          · obtain ⟨r', e1, e2⟩ := ih (count + 1) (total + dataSize v) s (h3 v s rfl)
            refine ⟨r'.map (fun vs => v :: vs), ?_, ?_⟩
            · simp only [c1, c2, c3, if_false]; rw [e1]; cases r' <;> rfl
            · simp only [c1, c2, c3, if_false]; rw [e2]; cases r' <;> rfl
    | sub d q => exact ⟨.sub d q, rfl, rfl⟩
    | err k => exact ⟨.err k, rfl, rfl⟩
    | panic p => exact ⟨.panic p, rfl, rfl⟩

theorem runSeq_same (P : St → Prop) (f g : Flags → St → NR) (fa fb : Flags) (h : SameReads P f g fa fb)
    (vis : SeqVisitor) (n : Nat) (st : St) (hp : P st) : ∃ r : R (List Val),
      runSeq vis f n fa st = r.map (fun vs => (vs, fa)) ∧ runSeq vis g n fb st = r.map (fun vs => (vs, fb)) := by
  cases vis with
  | all =>
    obtain ⟨r, e1, e2, _⟩ := iterF_same P f g fa fb h n st hp
    exact ⟨r, e1, e2⟩
  | exactly m =>
    obtain ⟨r, e1, e2, _⟩ := iterF_same P f g fa fb h (min m n) st hp
    refine ⟨r.bind fun vs s => if n < m then .err .other else .ok vs s, ?_, ?_⟩
    · simp only [runSeq]; rw [e1]; cases r <;> simp [R.map, R.bind] <;> split <;> rfl
    · simp only [runSeq]; rw [e2]; cases r <;> simp [R.map, R.bind] <;> split <;> rfl
  | bounded a b c => exact iterB_same P f g fa fb h a b c n 0 0 st hp

theorem map_clear {fl : Flags} (r : R (List Val)) :
    ((r.map fun vs => (vs, fl)).map fun (p : List Val × Flags) => (p.1, Flags.clear)) = r.map fun vs => (vs, Flags.clear) := by
  cases r <;> rfl

theorem rd_unmetered {α : Type} (f : Bytes → Outcome (α × Bytes)) (st : St) (hu : Unmetered st) (a : α) (s : St)
    (h : rd f st = .ok a s) : Unmetered s := by
  unfold rd at h
  split at h <;> simp at h
  obtain ⟨_, e⟩ := h
  subst e
  exact hu

/-- one element of primitive type through its own entry point, when nothing is metered -/
theorem deN_prim_elem (mk : String → NR) (env : Env) (tl : Nat) (renv : REnv) (k : Nat) (p : Prim) (sz : Nat) (hs : primSize p = some sz)
    (f : Flags) (s : St) (hu : Unmetered s) :
    genericElem (deN mk env tl renv (k + 1)) (.prim p) (.prim p) (.prim p) f s = bulkElem p f s := by
  unfold genericElem bulkElem
  rw [addCost_unmetered_ok s hu 3]
  simp only [R.bind]
  unfold deN deNBody
  cases p <;> simp [primSize] at hs <;>
    simp only [nPrim, unroll_prim, R.bind, dePrimExact, and_self, if_true, addCost_unmetered_ok s hu]

/-- **the bulk reader of primitive vectors reads what the element-wise path reads**: with nothing metered and the
announced bytes present, for every sequence visitor (vectors, arrays, bounded vectors) -/
theorem bulk_reads_what_the_generic_path_reads (mk : String → NR) (env : Env) (tl : Nat) (renv : REnv) (k : Nat) (vis : SeqVisitor)
    (p : Prim) (sz : Nat) (hs : primSize p = some sz) (fl : Flags) (n : Nat) (s2 : St) (hu : Unmetered s2)
    (hfit : n * (3 + sz) ≤ usizeMax) (hbytes : n * sz ≤ s2.input.length) :
    (bulkElems renv vis (.prim p) fl p n s2).map (fun q => (q.1, Flags.clear)) =
      genericElems (deN mk env tl renv (k + 1)) vis (.prim p) fl (.prim p) (.prim p) n s2 := by
  have hacc : acceptsPrimitive renv (resolveDepth renv) (.prim p) p = some true := by simp [acceptsPrimitive, resolveDepth]
  unfold bulkElems genericElems
  simp only [hs, Option.getD_some, hacc]
  rw [if_neg (by omega), addCost_unmetered_ok s2 hu]
  simp only [R.bind]
  rw [if_neg (by omega)]
  have hsame : SameReads Unmetered (bulkElem p) (genericElem (deN mk env tl renv (k + 1)) (.prim p) (.prim p) (.prim p)) fl fl := by
    intro st hp
    exact ⟨rd (decPrim p) st, rfl, deN_prim_elem mk env tl renv k p sz hs fl st hp, fun v s e => rd_unmetered _ st hp v s e⟩
  obtain ⟨r, e1, e2⟩ := runSeq_same Unmetered _ _ fl fl hsame vis n s2 hu
  rw [e1, e2]

theorem readFixed_consumes (k : Nat) (bs r : Bytes) (n : Nat) (h : readFixed k bs = .ok (n, r)) :
    bs.length = k + r.length := by
  unfold readFixed takeN Outcome.map at h
  by_cases hk : k ≤ bs.length
  · simp only [hk, if_true, Outcome.ok.injEq, Prod.mk.injEq] at h
    rw [← h.2]
    simp only [List.length_drop]
    omega
  · simp [hk] at h

/-- a successful read of one primitive element consumed exactly its size -/
theorem decPrim_consumes (p : Prim) (sz : Nat) (hs : primSize p = some sz) (bs r : Bytes) (v : Val)
    (h : decPrim p bs = .ok (v, r)) : bs.length = sz + r.length := by
  cases p <;> simp [primSize] at hs <;> subst hs
  case bool =>
    simp only [decPrim] at h
    cases bs with
    | nil => simp at h
    | cons b t =>
      simp only [] at h
      split at h
      · simp only [Outcome.ok.injEq, Prod.mk.injEq] at h; rw [← h.2]; simp; omega
      · split at h
        · simp only [Outcome.ok.injEq, Prod.mk.injEq] at h; rw [← h.2]; simp; omega
        · simp at h
  all_goals (
    simp only [decPrim] at h
    cases hr : readFixed _ bs with
    | ok q =>
      obtain ⟨m, o⟩ := q
      rw [hr] at h
      simp only [Outcome.map, Outcome.ok.injEq, Prod.mk.injEq] at h
      rw [← h.2]
      exact readFixed_consumes _ bs o m hr
    | err k => rw [hr] at h; simp [Outcome.map] at h
    | panic s => rw [hr] at h; simp [Outcome.map] at h)


theorem iterF_bulk_consumes (p : Prim) (sz : Nat) (hs : primSize p = some sz) : ∀ (n : Nat) (fl : Flags) (st : St)
    (vs : List Val) (f : Flags) (s : St), iterF (bulkElem p) n fl st = .ok (vs, f) s →
    st.input.length = n * sz + s.input.length := by
  intro n
  induction n with
  | zero =>
    intro fl st vs f s h
    simp only [iterF, R.ok.injEq] at h
    rw [h.2]; omega
  | succ n ih =>
    intro fl st vs f s h
    unfold iterF at h
    cases hb : bulkElem p fl st with
    | ok q s1 =>
      obtain ⟨v, f1⟩ := q
      rw [hb] at h
      simp only [R.bind] at h
      cases hr : iterF (bulkElem p) n f1 s1 with
      | ok q2 s2 =>
        obtain ⟨ws, f2⟩ := q2
        rw [hr] at h
        simp only [R.map, R.bind, R.ok.injEq] at h
        have e2 := h.2
        subst e2
        have h1 := ih f1 s1 ws f2 s2 hr
        -- the first element
        unfold bulkElem withFlags rd at hb
        cases hd : decPrim p st.input with
        | ok q3 =>
          obtain ⟨v', r⟩ := q3
          rw [hd] at hb
          simp only [R.map, R.bind, R.ok.injEq] at hb
          have e3 := hb.2
          subst e3
          have := decPrim_consumes p sz hs st.input r v' hd
          simp only [] at h1
          rw [this, h1, Nat.add_mul]
          omega
        | err k => rw [hd] at hb; simp [R.map, R.bind] at hb
        | panic x => rw [hd] at hb; simp [R.map, R.bind] at hb
      | sub d q => rw [hr] at h; simp [R.map, R.bind] at h
      | err k => rw [hr] at h; simp [R.map, R.bind] at h
      | panic x => rw [hr] at h; simp [R.map, R.bind] at h
    | sub d q => rw [hb] at h; simp [R.bind] at h
    | err k => rw [hb] at h; simp [R.bind] at h
    | panic x => rw [hb] at h; simp [R.bind] at h

/-- **the bulk reader rejects nothing the element-wise path would accept**: whenever a vector visitor succeeds
element by element, the announced bytes were there (so the bulk reader's length check passes and, by the theorem
above, it returns the same elements) -/
theorem generic_success_needs_the_announced_bytes (mk : String → NR) (env : Env) (tl : Nat) (renv : REnv) (k : Nat)
    (p : Prim) (sz : Nat) (hs : primSize p = some sz) (fl : Flags) (n : Nat) (s2 : St) (hu : Unmetered s2)
    (vs : List Val) (f : Flags) (s' : St)
    (h : genericElems (deN mk env tl renv (k + 1)) .all (.prim p) fl (.prim p) (.prim p) n s2 = .ok (vs, f) s') :
    n * sz ≤ s2.input.length := by
  have hsame : SameReads Unmetered (bulkElem p) (genericElem (deN mk env tl renv (k + 1)) (.prim p) (.prim p) (.prim p)) fl fl := by
    intro st hp
    exact ⟨rd (decPrim p) st, rfl, deN_prim_elem mk env tl renv k p sz hs fl st hp, fun v s e => rd_unmetered _ st hp v s e⟩
  obtain ⟨r, e1, e2, _⟩ := iterF_same Unmetered _ _ fl fl hsame n s2 hu
  unfold genericElems runSeq at h
  simp only [] at h
  rw [e2] at h
  cases r with
  | ok ws s =>
    simp only [R.map, R.bind, R.ok.injEq] at h
    have e3 := h.2
    subst e3
    have := iterF_bulk_consumes p sz hs n fl s2 ws fl s (by rw [e1]; rfl)
    omega
  | sub d q => simp [R.map, R.bind] at h
  | err x => simp [R.map, R.bind] at h
  | panic x => simp [R.map, R.bind] at h

theorem bigNum_unmetered (f : Bytes → Outcome (Val × Bytes)) (st : St) (hu : Unmetered st) (v : Val) (s : St)
    (h : bigNum f st = .ok v s) : Unmetered s := by
  unfold bigNum at h
  cases hr : rd f st with
  | ok v1 s1 =>
    rw [hr] at h
    have hu1 := rd_unmetered f st hu v1 s1 hr
    simp only [R.bind] at h
    rw [addCost_unmetered_ok s1 hu1] at h
    simp only [R.map, R.bind, R.ok.injEq] at h
    rw [← h.2]; exact hu1
  | sub d q => rw [hr] at h; simp [R.bind] at h
  | err k => rw [hr] at h; simp [R.bind] at h
  | panic x => rw [hr] at h; simp [R.bind] at h

/-- the three situations in which the big-number shortcut is taken, with the Rust element type they belong to -/
inductive BigCase : RTy → Big → Ty → Ty → Prop
  | nat : BigCase .nat .nat (.prim .nat) (.prim .nat)
  | int : BigCase .int .int (.prim .int) (.prim .int)
  | natAsInt : BigCase .int .natAsInt (.prim .nat) (.prim .int)

/-- **the big-number shortcut reads what the checked element-wise path reads**, for vectors, arrays and bounded
vectors of `Nat` / `Int`, with nothing metered -/
theorem big_shortcut_reads_what_the_generic_path_reads (mk : String → NR) (env : Env) (tl : Nat) (renv : REnv) (k : Nat) (vis : SeqVisitor)
    (t : RTy) (b : Big) (wire ee : Ty) (hc : BigCase t b wire ee) (tx : Bool) (n : Nat) (s2 : St) (hu : Unmetered s2)
    (hfit : n * 3 ≤ usizeMax) :
    bigElems (deN mk env tl renv (k + 1)) vis t ⟨none, tx⟩ b wire ee n s2 =
      genericElems (deN mk env tl renv (k + 1)) vis t ⟨none, tx⟩ wire ee n s2 := by
  unfold bigElems genericElems
  rw [if_neg (by omega), addCost_unmetered_ok s2 hu]
  simp only [R.bind]
  have hsame : ∃ h : St → R Val, (∀ st v s, Unmetered st → h st = .ok v s → Unmetered s) ∧
      (∀ st, Unmetered st → deN mk env tl renv (k + 1) t ⟨some b, tx⟩ wire ee st = withFlags ⟨some b, tx⟩ (h st) ∧
        genericElem (deN mk env tl renv (k + 1)) t wire ee ⟨none, tx⟩ st = withFlags ⟨none, tx⟩ (h st)) := by
    cases hc with
    | nat =>
      refine ⟨bigNum (natFast Val.nat), fun st v s hp e => bigNum_unmetered _ st hp v s e, fun st hp => ⟨?_, ?_⟩⟩
      · unfold deN deNBody; simp only [nNat]
      · unfold genericElem; rw [addCost_unmetered_ok st hp]; simp only [R.bind]
        unfold deN deNBody; simp only [nNat, unroll_prim, R.bind, if_true]
    | int =>
      refine ⟨bigNum intFast, fun st v s hp e => bigNum_unmetered _ st hp v s e, fun st hp => ⟨?_, ?_⟩⟩
      · unfold deN deNBody; simp only [nInt]
      · unfold genericElem; rw [addCost_unmetered_ok st hp]; simp only [R.bind]
        unfold deN deNBody; simp only [nInt, unroll_prim, R.bind, if_true]
    | natAsInt =>
      refine ⟨bigNum (natFast fun n => .int n), fun st v s hp e => bigNum_unmetered _ st hp v s e, fun st hp => ⟨?_, ?_⟩⟩
      · unfold deN deNBody; simp only [nInt]
      · unfold genericElem; rw [addCost_unmetered_ok st hp]; simp only [R.bind]
        unfold deN deNBody; simp only [nInt, unroll_prim, R.bind, if_true]
  obtain ⟨h, hpres, hh⟩ := hsame
  have hs : SameReads Unmetered (fun f s => deN mk env tl renv (k + 1) t f wire ee s)
      (genericElem (deN mk env tl renv (k + 1)) t wire ee) ⟨some b, tx⟩ ⟨none, tx⟩ := by
    intro st hp
    exact ⟨h st, (hh st hp).1, (hh st hp).2, fun v s e => hpres st v s hp e⟩
  obtain ⟨r, e1, e2⟩ := runSeq_same Unmetered _ _ _ _ hs vis n s2 hu
  rw [e1, e2]
  cases r <;> rfl

end Candid.Native
