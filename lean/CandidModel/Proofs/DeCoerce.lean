import CandidModel.Proofs.NativeSim
import CandidModel.Proofs.CoerceInhab
/-
  C02, the "if" half, on the mirrors: untyped decoding of a WELL-FORMED value at an expected type is the
  specification's coercion.  For every environment, every first-order wire type `w` and expected type `e` (no function
  or service reference within reach, record and variant fields in ascending order of id), every canonical value `v` of
  `w`, the bytes the value writer produces for `v` followed by anything, with nothing metered: unless one side runs out
  of its depth budget, the decoder mirror `De.deAny` at (`w`, `e`) and `Wire.coerce` on (`w`, `e`, `v`) end the same
  way — the coerced value is returned and exactly what followed is left in the input, or both report a subtype failure
  (which an enclosing option turns into `null` on both sides), or both report an error.
-/
namespace Candid.De
open Candid Candid.Wire Candid.Leb Candid.Sub Candid.Native

/-! ## types within reach of a type -/

/-- the types met while descending into `a`: components, and definitions of names -/
inductive Reach (env : Env) : Ty → Ty → Prop
  | refl (t : Ty) : Reach env t t
  | opt {a t : Ty} : Reach env a (.opt t) → Reach env a t
  | vec {a t : Ty} : Reach env a (.vec t) → Reach env a t
  | field {a : Ty} {fs : Fields} {p : Label × Ty} : Reach env a (.record fs) → p ∈ fs.toList → Reach env a p.2
  | case {a : Ty} {fs : Fields} {p : Label × Ty} : Reach env a (.variant fs) → p ∈ fs.toList → Reach env a p.2
  | name {a : Ty} {x : String} {d : Ty} : Reach env a (.var x) → env.find x = some d → Reach env a d

theorem Reach.trans {env : Env} {a b c : Ty} (h1 : Reach env a b) (h2 : Reach env b c) : Reach env a c := by
  induction h2 with
  | refl => exact h1
  | opt _ ih => exact Reach.opt ih
  | vec _ ih => exact Reach.vec ih
  | field _ hp ih => exact Reach.field ih hp
  | case _ hp ih => exact Reach.case ih hp
  | name _ hf ih => exact Reach.name ih hf

theorem reach_trace (env : Env) : ∀ (k : Nat) (t t' : Ty), env.trace k t = some t' → Reach env t t' := by
  intro k
  induction k with
  | zero => intro t t' h; simp [Env.trace] at h
  | succ k ih =>
    intro t t' h
    cases t with
    | var x =>
      simp only [Env.trace] at h
      cases hf : env.find x with
      | none => rw [hf] at h; simp at h
      | some d => rw [hf] at h; exact Reach.trans (Reach.name (Reach.refl _) hf) (ih d t' h)
    | _ => simp only [Env.trace, Option.some.injEq] at h; subst h; exact Reach.refl _

theorem reach_traceFull (env : Env) (t t' : Ty) (h : traceFull env t = some t') : Reach env t t' :=
  reach_trace env _ t t' h

/-- what the theorem asks of every type within reach: no reference type, no `future` placeholder, fields in strictly
ascending order of id (what the header parser guarantees of a table, and the type checker of a program) -/
def headOK : Ty → Bool
  | .func _ _ _ | .service _ | .future | .knot _ | .unknown | .cls _ _ => false
  | .record fs | .variant fs => strictlyAscending (fs.toList.map (·.1.getId))
  | _ => true

/-- on the wire a variant case of type `null` is spelled `null` (table entries are never primitive) -/
def unitLit (env : Env) : Ty → Bool
  | .variant fs => fs.toList.all fun p => decide (traceFull env p.2 = some (.prim .null) → p.2 = .prim .null)
  | _ => true

def OKE (env : Env) (e : Ty) : Prop := ∀ t, Reach env e t → headOK t = true
def OKW (env : Env) (w : Ty) : Prop := ∀ t, Reach env w t → headOK t = true ∧ unitLit env t = true

theorem OKE.step {env : Env} {a b : Ty} (h : OKE env a) (hr : Reach env a b) : OKE env b :=
  fun t ht => h t (Reach.trans hr ht)
theorem OKW.step {env : Env} {a b : Ty} (h : OKW env a) (hr : Reach env a b) : OKW env b :=
  fun t ht => h t (Reach.trans hr ht)

/-- (no condition any more: an announced length whose per-element cost does not fit a machine word is reported by the
mirrors as a host limit, `err limit`, like an exhausted depth budget; the parameter is kept in the lemmas below) -/
def Small (_ : St) : Prop := True

/-! ## the outcomes compared -/

/-- a skip of a well-formed value: starved, or exactly the value's bytes are consumed -/
def Skips (d : R Val) (s : St) (r : Bytes) : Prop := d = .err .limit ∨ ∃ x, d = .ok x (inp s r)

/-- the coercion against the decoder -/
def CoRel (c : Outcome Val) (d : R Val) (s : St) (r : Bytes) : Prop :=
  c = .err .limit ∨ d = .err .limit ∨
  (match c, d with
   | .ok v', .ok v'' s1 => v'' = v' ∧ s1 = inp s r
   | .err k, .sub dq sq => k = .subtype ∧ dq = none ∧ sq = none
   | .err k, .err _ => k ≠ .subtype
   | .panic _, .panic _ => True
   | _, _ => False)

theorem Skips.of_inp {d : R Val} {s : St} {a r : Bytes} (h : Skips d (inp s a) r) : Skips d s r := by
  rcases h with h | ⟨x, h⟩
  · exact Or.inl h
  · exact Or.inr ⟨x, by rw [h, inp_inp]⟩

theorem inp_small (s : St) (b r : Bytes) (_ : Small s) (_ : s.input = b ++ r) : Small (inp s r) := trivial

theorem inp_untyped (s : St) (x : Bytes) (b : Bool) : ({ inp s x with untyped := b } : St) = inp { s with untyped := b } x := rfl

theorem subErr_unmetered {α : Type} (s : St) (hu : Unmetered s) : (subErr s : R α) = .sub none none := by
  simp only [subErr]; rw [hu.1, hu.2]

/-! ## leaves -/

theorem natAs_ser (mkv : Nat → Val) (n : Nat) (r : Bytes) : natAs mkv (Impl.natEncode n ++ r) = .ok (mkv n, r) := by
  unfold natAs
  rw [natDecode_spec, natEncode_eq_uleb, specReadNat_uleb]

theorem intAs_ser (i : Int) (r : Bytes) : intAs (Impl.intEncode i ++ r) = .ok (.int i, r) := by
  unfold intAs
  rw [intDecode_spec, intEncode_eq_sleb, specReadInt_sleb]

theorem dePrimExact_ser (p : Prim) (cost : Nat) (s : St) (v : Val) (sf : Nat) (b r : Bytes)
    (hc : canonPrim p v = true) (hs : serVal sf v = .ok b) (hu : Unmetered s) (hin : s.input = b ++ r) :
    dePrimExact p cost (.prim p) (.prim p) s = .ok v (inp s r) := by
  simp only [dePrimExact, and_self, if_true]
  rw [addCost_unmetered_ok s hu]
  simp only [R.bind]
  rw [rd_ok (decPrim p) s v r (by rw [hin]; exact decPrim_ser p v sf b r hc hs)]

theorem text_ser (s : St) (v : Val) (sf : Nat) (b r : Bytes)
    (hc : canonPrim .text v = true) (hs : serVal sf v = .ok b) (hu : Unmetered s) (hin : s.input = b ++ r) :
    ((lenBytes s).bind fun bb s' => match utf8 bb with | some str => R.ok (Val.text str) s' | none => .err .malformed) =
      .ok v (inp s r) := by
  cases v <;> simp only [canonPrim] at hc <;> try (exact Bool.noConfusion hc)
  rename_i str
  simp only [decide_eq_true_eq] at hc
  cases sf with
  | zero => simp [serVal] at hs
  | succ sf =>
    simp only [serVal, Outcome.ok.injEq] at hs
    subst hs
    rw [lenBytes_ser s hu (strBytes str) r hc (by rw [hin]; simp [serText])]
    simp only [R.bind, utf8_strBytes]

theorem principal_ser (s : St) (pb : Bytes) (r : Bytes) (hl : pb.length ≤ 29) (hu : Unmetered s)
    (hin : s.input = serPrincipal pb ++ r) : dePrincipalBytes s = .ok pb (inp s r) := by
  unfold dePrincipalBytes
  rw [rd_ok readPrincipal s pb r (by rw [hin]; exact readPrincipal_ser pb r hl)]
  simp only [R.bind]
  rw [addCost_unmetered_ok _ (inp_unmetered s _ hu)]
  rfl

/-! ## skipping a well-formed value -/

def SKI (env : Env) (m : Nat) : Prop :=
  ∀ (w : Ty) (v : Val) (cf sf : Nat) (bs r : Bytes) (s : St), canon env cf v w = true → serVal sf v = .ok bs →
    s.input = bs ++ r → Unmetered s → OKW env w → Small s → Skips (deIgnored env m w s) s r

def SKA (env : Env) (m : Nat) : Prop :=
  ∀ (w : Ty) (v : Val) (cf sf : Nat) (bs r : Bytes) (s : St), canon env cf v w = true → serVal sf v = .ok bs →
    s.input = bs ++ r → Unmetered s → OKW env w → Small s → Skips (deAny env .ignored m w w s) s r

theorem ski_of_ska (env : Env) (m : Nat) (h : SKA env m) : SKI env (m + 1) := by
  intro w v cf sf bs r s hc hs hin hu hok hsm
  rw [deIgnored_succ]
  rcases h w v cf sf bs r { s with untyped := true } hc hs hin hu hok hsm with h1 | ⟨x, h1⟩
  · left; rw [h1]; rfl
  · right; rw [h1]; exact ⟨x, by cases s; rfl⟩

/-- elements skipped one after the other -/
theorem iterV_skips (f : St → R Val) (sf : Nat) : ∀ (vs : List Val) (bss : List Bytes) (r : Bytes) (s : St),
    (∀ v ∈ vs, ∀ (b r' : Bytes) (s' : St), serVal sf v = .ok b → Unmetered s' → s'.input = b ++ r' → Small s' →
      Skips (f s') s' r') →
    mapOutcomes (serVal sf) vs = .ok bss → Unmetered s → s.input = bss.flatten ++ r → Small s →
    iterV f vs.length s = .err .limit ∨ ∃ xs, iterV f vs.length s = .ok xs (inp s r) := by
  intro vs
  induction vs with
  | nil =>
    intro bss r s _ hm _ hin _
    simp only [mapOutcomes, Outcome.ok.injEq] at hm
    subst hm
    right
    refine ⟨[], ?_⟩
    simp only [List.flatten_nil, List.nil_append] at hin
    simp only [List.length_nil, iterV]
    rw [← hin, inp_self]
  | cons v vs ih =>
    intro bss r s hf hm hu hin hsm
    obtain ⟨b, bss', h1, h2, h3⟩ := mapOutcomes_cons_ok _ v vs bss hm
    subst h3
    simp only [List.flatten_cons, List.append_assoc] at hin
    simp only [List.length_cons, iterV]
    rcases hf v (by simp) b (bss'.flatten ++ r) s h1 hu hin hsm with h | ⟨x, h⟩
    · left; rw [h]; rfl
    · rw [h]
      simp only [rbind_ok]
      rcases ih bss' r (inp s (bss'.flatten ++ r)) (fun v' hv' => hf v' (by simp [hv'])) h2 (inp_unmetered s _ hu)
        (by rw [inp_input]) (inp_small s b _ hsm hin) with h' | ⟨xs, h'⟩
      · left; rw [h']; rfl
      · right; rw [h']; exact ⟨x :: xs, by simp [R.map, R.bind, inp_inp]⟩

/-- the fields of a record skipped in wire order -/
theorem fields_skip (env : Env) (F : Nat) (hI : ∀ k < F, SKI env k) : ∀ (wfs : List (Label × Ty)) (vfs : List (Label × Val))
    (f : Nat), f ≤ F → ∀ (cf sf : Nat) (bss : List Bytes) (r : Bytes) (s : St) (acc : List (Label × Val)),
    canonFieldsWith (canon env cf) vfs wfs = true → mapOutcomes (fun (p : Label × Val) => serVal sf p.2) vfs = .ok bss →
    s.input = bss.flatten ++ r → Unmetered s → (∀ p ∈ wfs, OKW env p.2) → Small s →
    Skips (deFields env .ignored f (wfs.map fun p => FieldStep.both p.1 p.2 p.2) s acc) s r := by
  intro wfs
  induction wfs with
  | nil =>
    intro vfs f _ cf sf bss r s acc hc hm hin hu _ _
    cases vfs with
    | cons _ _ => simp [canonFieldsWith] at hc
    | nil =>
      simp only [mapOutcomes, Outcome.ok.injEq] at hm
      subst hm
      simp only [List.flatten_nil, List.nil_append] at hin
      cases f with
      | zero => left; rfl
      | succ f =>
        right
        simp only [List.map_nil, deFields]
        rw [addCost_unmetered_ok s hu]
        exact ⟨_, by simp only [R.map, R.bind]; rw [← hin, inp_self]⟩
  | cons p wfs ih =>
    intro vfs f hf cf sf bss r s acc hc hm hin hu hok hsm
    obtain ⟨l, t⟩ := p
    cases vfs with
    | nil => simp [canonFieldsWith] at hc
    | cons q vfs =>
      obtain ⟨l', v⟩ := q
      simp only [canonFieldsWith, Bool.and_eq_true, decide_eq_true_eq] at hc
      obtain ⟨⟨hl, hcv⟩, hcr⟩ := hc
      obtain ⟨b, bss', h1, h2, h3⟩ := mapOutcomes_cons_ok _ (l', v) vfs bss hm
      subst h3
      simp only [List.flatten_cons, List.append_assoc] at hin
      cases f with
      | zero => left; rfl
      | succ f =>
        simp only [List.map_cons, deFields]
        rw [addCost_unmetered_ok s hu]
        simp only [rbind_ok]
        rw [addCost_unmetered_ok s hu]
        simp only [rbind_ok]
        rw [addCost_unmetered_ok s hu]
        simp only [rbind_ok, if_true]
        rcases hI f (by omega) t v cf sf b (bss'.flatten ++ r) s hcv h1 hin hu (hok (l, t) (by simp)) hsm with h | ⟨x, h⟩
        · left; rw [h]; rfl
        · rw [h]
          simp only [rbind_ok]
          have := ih vfs f (by omega) cf sf bss' r (inp s (bss'.flatten ++ r)) ((l, x) :: acc) hcr h2 (by rw [inp_input])
            (inp_unmetered s _ hu) (fun p hp => hok p (by simp [hp])) (inp_small s b _ hsm hin)
          exact this.of_inp

/-! ### what a canonical vector is made of -/

theorem uleb_ne_nil (n : Nat) : uleb n ≠ [] := by
  unfold uleb
  split <;> simp

theorem len_le_flatten : ∀ (bss : List Bytes), (∀ b ∈ bss, 1 ≤ b.length) → bss.length ≤ bss.flatten.length := by
  intro bss
  induction bss with
  | nil => intro _; simp
  | cons b bss ih =>
    intro h
    have h1 := h b (by simp)
    have h2 := ih (fun b' hb' => h b' (by simp [hb']))
    simp only [List.length_cons, List.flatten_cons, List.length_append]
    omega

theorem vec_inv (env : Env) (n sf : Nat) (v : Val) (ww : Ty) (bs : Bytes) (hc : canon env (n + 1) v (.vec ww) = true)
    (hs : serVal (sf + 1) v = .ok bs) :
    ∃ vs bss, v = .vec vs ∧ vs.length < 2 ^ 63 ∧ (∀ e ∈ vs, canon env n e ww = true) ∧
      mapOutcomes (serVal sf) vs = .ok bss ∧ bs = uleb vs.length ++ bss.flatten := by
  simp only [canon] at hc
  cases v <;> try (exact Bool.noConfusion hc)
  rename_i vs
  simp only [Bool.and_eq_true, decide_eq_true_eq, List.all_eq_true] at hc
  simp only [serVal] at hs
  obtain ⟨bss, h1, h2⟩ := omap_ok _ _ _ hs
  exact ⟨vs, bss, rfl, hc.1, hc.2, h1, h2.symm⟩

/-- canonical elements of a fixed-width primitive type take `sz` bytes each -/
theorem prim_elems_len (p : Prim) (sz : Nat) (hsz : primSize p = some sz) (sf : Nat) (vs : List Val) (bss : List Bytes)
    (hcan : ∀ x ∈ vs, canonPrim p x = true) (hm : mapOutcomes (serVal sf) vs = .ok bss) :
    bss.flatten.length = vs.length * sz := by
  have hblen : ∀ b ∈ bss, b.length = sz := by
    intro b hb
    obtain ⟨x, hx', hsx⟩ := mapOutcomes_mem (serVal sf) vs bss hm b hb
    have := decPrim_consumes p sz hsz (b ++ []) [] x (decPrim_ser p x sf b [] (hcan x hx') hsx)
    simpa using this
  rw [flatten_length_of sz bss hblen, mapOutcomes_len (serVal sf) vs bss hm]

theorem canon_at_trace (env : Env) (k : Nat) (t t' : Ty) (n : Nat) (v : Val) (ht : traceAt env k t = some t')
    (hc : canon env n v t = true) : ∃ m, canon env m v t' = true := by
  unfold traceAt at ht
  split at ht
  · exact canon_trace_inv env k t t' n v ht hc
  · simp only [Option.some.injEq] at ht; subst ht; exact ⟨n, hc⟩

theorem iterV_rd_ser (p : Prim) (sf : Nat) : ∀ (vs : List Val) (bss : List Bytes) (r : Bytes) (s : St),
    (∀ x ∈ vs, canonPrim p x = true) → mapOutcomes (serVal sf) vs = .ok bss → Unmetered s → s.input = bss.flatten ++ r →
    iterV (fun st => rd (decPrim p) st) vs.length s = .ok vs (inp s r) := by
  intro vs
  induction vs with
  | nil =>
    intro bss r s _ hm _ hin
    simp only [mapOutcomes, Outcome.ok.injEq] at hm
    subst hm
    simp only [List.flatten_nil, List.nil_append] at hin
    simp only [List.length_nil, iterV]
    rw [← hin, inp_self]
  | cons v vs ih =>
    intro bss r s hc hm hu hin
    obtain ⟨b, bss', h1, h2, h3⟩ := mapOutcomes_cons_ok _ v vs bss hm
    subst h3
    simp only [List.flatten_cons, List.append_assoc] at hin
    simp only [List.length_cons, iterV]
    rw [rd_ok (decPrim p) s v (bss'.flatten ++ r) (by rw [hin]; exact decPrim_ser p v sf b _ (hc v (by simp)) h1)]
    simp only [rbind_ok]
    rw [ih bss' r (inp s (bss'.flatten ++ r)) (fun x hx => hc x (by simp [hx])) h2 (inp_unmetered s _ hu) (by rw [inp_input])]
    simp [R.map, R.bind, inp_inp]

/-- the elements of a vector skipped on each of the three paths -/
theorem vec_skip (env : Env) (m : Nat) (hI : SKI env m) (ww : Ty) (vs : List Val) (n sf : Nat) (bss : List Bytes) (r : Bytes)
    (s : St) (hlen : vs.length < 2 ^ 63) (hall : ∀ e ∈ vs, canon env n e ww = true)
    (hm : mapOutcomes (serVal sf) vs = .ok bss) (hin : s.input = uleb vs.length ++ bss.flatten ++ r) (hu : Unmetered s)
    (hok : OKW env ww) (hsm : Small s) :
    Skips (deVecCase env .ignored m (deAny env .ignored m) (deIgnored env m) (.vec ww) ww s) s r := by
  unfold deVecCase
  simp only []
  cases htr : env.trace m ww with
  | none => left; rfl
  | some wire =>
    simp only []
    rw [rd_ok readLenDe s vs.length (bss.flatten ++ r) (by rw [hin, List.append_assoc]; exact readLenDe_uleb _ _ hlen)]
    simp only [rbind_ok]
    have hu2 : Unmetered (inp s (bss.flatten ++ r)) := inp_unmetered s _ hu
    have hsm2 : Small (inp s (bss.flatten ++ r)) := inp_small s (uleb vs.length) _ hsm (by rw [hin, List.append_assoc])
    have hallw : ∀ e ∈ vs, ∃ k, canon env k e wire = true := fun e he => canon_trace_inv env m ww wire n e htr (hall e he)
    have hokw : OKW env wire := hok.step (reach_trace env m ww wire htr)
    cases hx : exactPrim ww wire with
    | some p =>
      simp only []
      obtain ⟨hee, hwire, sz, hsz⟩ : ww = .prim p ∧ wire = .prim p ∧ ∃ sz, primSize p = some sz := by
        unfold exactPrim at hx
        split at hx
        · split at hx
          · rename_i hc; simp only [Option.some.injEq] at hx; subst hx
            exact ⟨rfl, by rw [hc.1], Option.isSome_iff_exists.mp hc.2⟩
          · simp at hx
        · simp at hx
      subst hee hwire
      have hcan : ∀ x ∈ vs, canonPrim p x = true := by
        intro x hx'
        have := hall x hx'
        cases n with
        | zero => simp [canon] at this
        | succ n => simpa [canon] using this
      have hflat := prim_elems_len p sz hsz sf vs bss hcan hm
      have hsz1 : 1 ≤ sz ∧ sz ≤ 8 := by cases p <;> simp [primSize] at hsz <;> omega
      simp only [hsz, Option.getD_some]
      have hn : vs.length ≤ bss.flatten.length := by
        rw [hflat]; exact Nat.le_mul_of_pos_right _ hsz1.1
      by_cases h1 : vs.length * (3 + sz) > usizeMax
      · rw [if_pos h1]; first | exact Or.inl rfl | exact CoRel.starvedR _ _ _
      rw [if_neg h1, addCost_unmetered_ok _ hu2]
      simp only [rbind_ok]
      rw [if_neg (by rw [inp_input, List.length_append, hflat]; omega)]
      rw [iterV_rd_ser p sf vs bss r _ hcan hm hu2 (inp_input s _)]
      right
      exact ⟨Val.vec vs, by simp only [R.map, R.bind, inp_inp]⟩
    | none =>
      simp only []
      cases hb : bigPrimOf ww wire with
      | some wp =>
        simp only []
        -- nat or int, spelled out on both sides
        have hcases : (ww = .prim .nat ∧ wire = .prim .nat ∧ wp = .nat) ∨ (ww = .prim .int ∧ wire = .prim .int ∧ wp = .int) := by
          unfold bigPrimOf at hb
          split at hb
          · left; simp only [Option.some.injEq] at hb; exact ⟨rfl, rfl, hb.symm⟩
          · right; simp only [Option.some.injEq] at hb; exact ⟨rfl, rfl, hb.symm⟩
          · -- expected int, wire nat: the wire type is the unfolding of the expected type, so this cannot be
            exfalso
            cases m <;> simp [Env.trace] at htr
          · simp at hb
        have hne : ∀ b ∈ bss, 1 ≤ b.length := by
          intro b hb'
          obtain ⟨x, hx', hsx⟩ := mapOutcomes_mem (serVal sf) vs bss hm b hb'
          have hcx := hall x hx'
          cases n with
          | zero => simp [canon] at hcx
          | succ n =>
            cases sf with
            | zero => simp [serVal] at hsx
            | succ sf =>
              rcases hcases with ⟨h1, _, _⟩ | ⟨h1, _, _⟩ <;> subst h1 <;> simp only [canon] at hcx <;>
                cases x <;> simp only [canonPrim] at hcx <;> try (exact Bool.noConfusion hcx)
              · simp only [serVal, Outcome.ok.injEq] at hsx
                subst hsx
                rw [natEncode_eq_uleb]
                exact Nat.pos_of_ne_zero (fun h => uleb_ne_nil _ (List.length_eq_zero_iff.mp h))
              · simp only [serVal, Outcome.ok.injEq] at hsx
                subst hsx
                rw [intEncode_eq_sleb]
                exact Nat.pos_of_ne_zero (fun h => sleb_ne_nil _ (List.length_eq_zero_iff.mp h))
        have hn : vs.length ≤ bss.flatten.length := by
          have := len_le_flatten bss hne
          rw [mapOutcomes_len (serVal sf) vs bss hm] at this
          exact this
        by_cases h1 : vs.length * 3 > usizeMax
        · rw [if_pos h1]; first | exact Or.inl rfl | exact CoRel.starvedR _ _ _
        rw [if_neg h1, addCost_unmetered_ok _ hu2]
        simp only [rbind_ok]
        have hit := iterV_skips (fun s => if wp = .nat then bigNum (natAs fun m => if ww = .prim .int then .int m else .nat m) s
            else bigNum intAs s) sf vs bss r (inp s (bss.flatten ++ r))
          (fun x hx' b r' s' hsx hu' hin' _ => by
            right
            have hcx := hall x hx'
            cases n with
            | zero => simp [canon] at hcx
            | succ n =>
              cases sf with
              | zero => simp [serVal] at hsx
              | succ sf =>
                rcases hcases with ⟨h1, _, h3⟩ | ⟨h1, _, h3⟩ <;> subst h1 h3 <;> simp only [canon] at hcx <;>
                  cases x <;> simp only [canonPrim] at hcx <;> try (exact Bool.noConfusion hcx)
                · simp only [serVal, Outcome.ok.injEq] at hsx
                  subst hsx
                  simp only [if_true]
                  exact ⟨_, bigNum_ok _ s' hu' _ r' (by rw [hin']; exact natAs_ser _ _ _)⟩
                · simp only [serVal, Outcome.ok.injEq] at hsx
                  subst hsx
                  simp only [show (Prim.int = Prim.nat) = False from by simp, if_false]
                  exact ⟨_, bigNum_ok _ s' hu' _ r' (by rw [hin']; exact intAs_ser _ _)⟩)
          hm hu2 (inp_input s _) hsm2
        rcases hit with h | ⟨xs, h⟩
        · left; rw [h]; rfl
        · right; rw [h]; exact ⟨Val.vec xs, by simp only [R.map, R.bind, inp_inp]⟩
      | none =>
        simp only [if_true]
        have hit := iterV_skips (fun s => (addCost s 3).bind fun _ s' => deIgnored env m wire s') sf vs bss r
          (inp s (bss.flatten ++ r))
          (fun x hx' b r' s' hsx hu' hin' hsm' => by
            rw [addCost_unmetered_ok s' hu']
            simp only [rbind_ok]
            obtain ⟨k, hk⟩ := hallw x hx'
            exact hI wire x k sf b r' s' hk hsx hin' hu' hokw hsm')
          hm hu2 (inp_input s _) hsm2
        rcases hit with h | ⟨xs, h⟩
        · left; rw [h]; rfl
        · right; rw [h]; exact ⟨Val.vec xs, by simp only [R.map, R.bind, inp_inp]⟩

/-- one level of the skip: `deserialize_any` under `IgnoredAny` at wire type = expected type -/
theorem ska_step (env : Env) (m : Nat) (hI : ∀ k ≤ m, SKI env k) : SKA env (m + 1) := by
  intro w v cf sf bs r s hc hs hin hu hok hsm
  rw [deAny_succ, unroll_char env m w w s hu]
  cases ht : traceAt env m w with
  | none => left; rfl
  | some w' =>
    simp only [rbind_ok]
    have hreach : Reach env w w' := reach_traceFull env w w' (traceAt_full env m w w' ht)
    have hok' := hok.step hreach
    obtain ⟨cf', hc'⟩ := canon_at_trace env m w w' cf v ht hc
    have hhead := (hok' w' (Reach.refl _)).1
    cases cf' with
    | zero => simp [canon] at hc'
    | succ n =>
    cases sf with
    | zero => simp [serVal] at hs
    | succ sf =>
    cases w' with
    | prim p =>
      simp only [canon] at hc'
      cases p with
      | nat =>
        cases v <;> simp only [canonPrim] at hc' <;> try (exact Bool.noConfusion hc')
        simp only [serVal, Outcome.ok.injEq] at hs
        subst hs
        right
        simp only [deAnyBody, if_true]
        exact ⟨_, bigNum_ok _ s hu _ r (by rw [hin]; exact natAs_ser _ _ _)⟩
      | int =>
        cases v <;> simp only [canonPrim] at hc' <;> try (exact Bool.noConfusion hc')
        simp only [serVal, Outcome.ok.injEq] at hs
        subst hs
        right
        simp only [deAnyBody]
        exact ⟨_, bigNum_ok _ s hu _ r (by rw [hin]; exact intAs_ser _ _)⟩
      | text =>
        right
        simp only [deAnyBody, if_true]
        exact ⟨v, text_ser s v (sf + 1) bs r hc' hs hu hin⟩
      | reserved =>
        cases v <;> simp only [canonPrim] at hc' <;> try (exact Bool.noConfusion hc')
        simp only [serVal, Outcome.ok.injEq] at hs
        subst hs
        right
        simp only [deAnyBody, ne_eq, not_true_eq_false, if_false, rbind_ok]
        rw [addCost_unmetered_ok s hu]
        simp only [List.nil_append] at hin
        exact ⟨.reserved, by simp only [R.map, R.bind]; rw [← hin, inp_self]⟩
      | empty => simp [canonPrim] at hc'
      | _ =>
        right
        simp only [deAnyBody]
        exact ⟨v, dePrimExact_ser _ _ s v (sf + 1) bs r hc' hs hu hin⟩
    | principal =>
      simp only [canon] at hc'
      cases v <;> try (exact Bool.noConfusion hc')
      rename_i pb
      simp only [decide_eq_true_eq] at hc'
      simp only [serVal, Outcome.ok.injEq] at hs
      subst hs
      right
      simp only [deAnyBody]
      rw [principal_ser s pb r hc' hu hin]
      exact ⟨_, rfl⟩
    | opt w2 =>
      simp only [deAnyBody]
      rw [addCost_unmetered_ok s hu]
      simp only [rbind_ok, deOptCase]
      simp only [canon] at hc'
      cases v <;> try (exact Bool.noConfusion hc')
      · -- none
        simp only [serVal, Outcome.ok.injEq] at hs
        subst hs
        simp only [List.cons_append, List.nil_append] at hin
        rw [hin]
        right
        exact ⟨.none, rfl⟩
      · rename_i v2
        simp only [serVal] at hs
        obtain ⟨b2, h1, h2⟩ := omap_ok _ _ _ hs
        subst h2
        simp only [List.cons_append] at hin
        rw [hin]
        simp only [show ((1 : UInt8) = 0) = False from by decide, if_false, if_true]
        cases m with
        | zero => left; rfl
        | succ m' =>
          rw [recoverable_succ]
          simp only [if_true]
          have hs2 : ({ s with input := b2 ++ r } : St).input = b2 ++ r := rfl
          rcases hI m' (by omega) w2 v2 n sf b2 r { s with input := b2 ++ r } hc' h1 hs2 hu
            (hok'.step (Reach.opt (Reach.refl _))) (inp_small s [1] _ hsm (by rw [hin]; rfl)) with h | ⟨x, h⟩
          · left; rw [h]
          · right; rw [h]; exact ⟨.opt x, rfl⟩
    | vec ww =>
      obtain ⟨vs, bss, hv, hlen, hall, hm, hbs⟩ := vec_inv env n sf v ww bs hc' hs
      subst hv hbs
      simp only [deAnyBody]
      by_cases hb : isBlobTy env (.vec ww) = true
      · simp only [hb, if_true, deBlobCase]
        -- a byte vector: the elements are one byte each
        have htw : traceFull env ww = some (.prim .nat8) := by
          simp only [isBlobTy] at hb
          cases h : traceFull env ww with
          | none => rw [h] at hb; simp at hb
          | some t =>
            rw [h] at hb
            cases t with
            | prim p => cases p <;> first | rfl | exact Bool.noConfusion hb
            | _ => exact Bool.noConfusion hb
        have hcan : ∀ x ∈ vs, canonPrim .nat8 x = true := by
          intro x hx
          obtain ⟨k, hk⟩ := canon_trace_inv env _ ww _ n x htw (hall x hx)
          cases k with
          | zero => simp [canon] at hk
          | succ k => simpa [canon] using hk
        have hflat := prim_elems_len .nat8 1 rfl sf vs bss hcan hm
        rw [Nat.mul_one] at hflat
        right
        rw [lenBytes_ser s hu bss.flatten r (by omega) (by rw [hin, hflat])]
        exact ⟨_, rfl⟩
      · simp only [hb, Bool.false_eq_true, if_false]
        rw [addCost_unmetered_ok s hu]
        simp only [rbind_ok]
        exact vec_skip env m (hI m (Nat.le_refl _)) ww vs n sf bss r s hlen hall hm hin hu
          (hok'.step (Reach.vec (Reach.refl _))) hsm
    | record wfs =>
      simp only [deAnyBody]
      rw [addCost_unmetered_ok s hu]
      simp only [rbind_ok]
      rw [mergeFields_same _ wfs.toList (by omega)]
      simp only [canon] at hc'
      cases v <;> try (exact Bool.noConfusion hc')
      rename_i vfs
      simp only [serVal] at hs
      obtain ⟨bss, h1, h2⟩ := omap_ok _ _ _ hs
      subst h2
      cases m with
      | zero => left; rfl
      | succ m' =>
        exact fields_skip env (m' + 1) (fun k hk => hI k (by omega)) wfs.toList vfs (m' + 1) (Nat.le_refl _) n sf bss r s []
          hc' h1 hin hu (fun p hp => hok'.step (Reach.field (Reach.refl _) hp)) hsm
    | variant wfs =>
      simp only [deAnyBody]
      rw [addCost_unmetered_ok s hu]
      simp only [rbind_ok, deVariantCase]
      simp only [canon] at hc'
      cases v <;> try (exact Bool.noConfusion hc')
      rename_i l v2 i
      simp only [] at hc'
      cases hget : wfs.toList[i]? with
      | none => rw [hget] at hc'; exact Bool.noConfusion hc'
      | some q =>
        obtain ⟨l', t'⟩ := q
        rw [hget] at hc'
        simp only [Bool.and_eq_true, decide_eq_true_eq] at hc'
        obtain ⟨⟨hl, hi⟩, hcv⟩ := hc'
        subst hl
        simp only [serVal] at hs
        obtain ⟨b2, h1, h2⟩ := omap_ok _ _ _ hs
        subst h2
        rw [rd_ok readLebCrate s i (b2 ++ r) (by rw [hin, List.append_assoc]; exact readLebCrate_uleb _ _ hi)]
        simp only [rbind_ok, hget]
        have hmem : (l, t') ∈ wfs.toList := List.mem_of_getElem? hget
        cases hfind : wfs.toList.find? (fun p => p.1.getId = l.getId) with
        | none =>
          exfalso
          have := List.find?_eq_none.mp hfind (l, t') hmem
          simp at this
        | some q =>
          obtain ⟨el, et⟩ := q
          simp only []
          have hu2 : Unmetered (inp s (b2 ++ r)) := inp_unmetered s _ hu
          rw [addCost_unmetered_ok _ hu2]
          simp only [rbind_ok]
          rw [addCost_unmetered_ok _ hu2]
          simp only [rbind_ok, show (Visitor.ignored = Visitor.idl) = False from by simp, false_and, if_false, if_true]
          rw [addCost_unmetered_ok _ hu2]
          simp only [rbind_ok]
          rcases hI m (Nat.le_refl _) t' v2 n sf b2 r (inp s (b2 ++ r)) hcv h1 (inp_input s _) hu2
            (hok'.step (Reach.case (Reach.refl _) hmem)) (inp_small s (uleb i) _ hsm (by rw [hin, List.append_assoc])) with h | ⟨x, h⟩
          · left; rw [h]; rfl
          · right; rw [h]; exact ⟨.null, by simp only [R.map, R.bind, inp_inp]⟩
    | func a b c => simp [headOK] at hhead
    | service ms => simp [headOK] at hhead
    | future => simp [headOK] at hhead
    | var x => exact absurd rfl (Wire.trace_not_var env _ w (.var x) (traceAt_full env m w _ ht) x)
    | knot x => simp [canon] at hc'
    | unknown => simp [canon] at hc'
    | cls a t => simp [canon] at hc'

/-- **skipping a well-formed value consumes exactly its bytes** (or runs out of depth budget), at every depth -/
theorem skip_all (env : Env) : ∀ (m : Nat), SKI env m ∧ SKA env m := by
  intro m
  induction m using Nat.strongRecOn with
  | _ m ih =>
    cases m with
    | zero =>
      exact ⟨fun w v cf sf bs r s _ _ _ _ _ _ => Or.inl rfl, fun w v cf sf bs r s _ _ _ _ _ _ => Or.inl rfl⟩
    | succ m =>
      exact ⟨ski_of_ska env m (ih m (Nat.lt_succ_self m)).2, ska_step env m (fun k hk => (ih k (by omega)).1)⟩

/-! ## reading a well-formed value at an expected type -/

def TR (env : Env) (m : Nat) : Prop :=
  ∀ (n : Nat) (w e : Ty) (v : Val) (cf sf : Nat) (bs r : Bytes) (s : St), canon env cf v w = true → serVal sf v = .ok bs →
    s.input = bs ++ r → Unmetered s → OKW env w → OKE env e → Small s →
    CoRel (coerce env false env n w e v) (deAny env .idl m w e s) s r

theorem CoRel.mkOk (v : Val) (s : St) (r : Bytes) : CoRel (.ok v) (.ok v (inp s r)) s r := Or.inr (Or.inr ⟨rfl, rfl⟩)
theorem CoRel.mkSub (s : St) (r : Bytes) (hu : Unmetered s) : CoRel (.err .subtype) (subErr s) s r := by
  rw [subErr_unmetered s hu]; exact Or.inr (Or.inr ⟨rfl, rfl, rfl⟩)
theorem CoRel.of_eq {v : Val} {d : R Val} {s : St} {r : Bytes} (h : d = .ok v (inp s r)) : CoRel (.ok v) d s r := by
  rw [h]; exact CoRel.mkOk _ _ _
theorem CoRel.starvedL (d : R Val) (s : St) (r : Bytes) : CoRel (.err .limit) d s r := Or.inl rfl
theorem CoRel.starvedR (c : Outcome Val) (s : St) (r : Bytes) : CoRel c (.err .limit) s r := Or.inr (Or.inl rfl)

/-- the expected type is a primitive with an exact check (`check!(expect == T && wire == T)`) -/
theorem tr_prim_exact (env : Env) (p : Prim) (cost : Nat) (w' : Ty) (v : Val) (n sf : Nat) (bs r : Bytes) (s : St)
    (hc : canon env (n + 1) v w' = true) (hs : serVal sf v = .ok bs) (hin : s.input = bs ++ r) (hu : Unmetered s) :
    CoRel (if w' = .prim p then .ok v else .err .subtype) (dePrimExact p cost w' (.prim p) s) s r := by
  by_cases hw : w' = .prim p
  · subst hw
    simp only [canon] at hc
    simp only [if_true]
    rw [dePrimExact_ser p cost s v sf bs r hc hs hu hin]
    exact CoRel.mkOk _ _ _
  · simp only [hw, if_false, dePrimExact, and_false]
    exact CoRel.mkSub s r hu

/-! ### ascending ids -/

theorem asc_tail : ∀ (a : Nat) (l : List Nat), strictlyAscending (a :: l) = true → strictlyAscending l = true
  | _, [], _ => rfl
  | a, b :: l, h => by simp only [strictlyAscending, Bool.and_eq_true] at h; exact h.2

theorem asc_head_lt : ∀ (l : List Nat) (a : Nat), strictlyAscending (a :: l) = true → ∀ x ∈ l, a < x := by
  intro l
  induction l with
  | nil => intro a _ x hx; simp at hx
  | cons b l ih =>
    intro a h x hx
    simp only [strictlyAscending, Bool.and_eq_true, decide_eq_true_eq] at h
    simp only [List.mem_cons] at hx
    rcases hx with rfl | hx
    · exact h.1
    · exact Nat.lt_trans h.1 (ih b h.2 x hx)

theorem asc_nodup : ∀ (l : List Nat), strictlyAscending l = true → l.Nodup := by
  intro l
  induction l with
  | nil => intro _; exact List.nodup_nil
  | cons a l ih =>
    intro h
    refine List.nodup_cons.mpr ⟨fun hm => ?_, ih (asc_tail a l h)⟩
    exact Nat.lt_irrefl _ (asc_head_lt l a h a hm)

/-! ### options -/

/-- what the constituent rule of `opt` makes of the inner coercion -/
def catchC (c : Outcome Val) : Outcome Val :=
  match c with
  | .ok v' => .ok (.opt v')
  | .err .subtype => .ok .none
  | .err k => .err k
  | .panic s => .panic s

theorem CoRel.of_inp {c : Outcome Val} {d : R Val} {s : St} {a r : Bytes} (h : CoRel c d (inp s a) r) : CoRel c d s r := by
  rcases h with h | h | h
  · exact Or.inl h
  · exact Or.inr (Or.inl h)
  · refine Or.inr (Or.inr ?_)
    cases c <;> cases d <;> simp only [] at h ⊢ <;> first | exact h | (rw [inp_inp] at h; exact h)

theorem recov_rel (env : Env) (k : Nat) (w2 e2 : Ty) (s2 : St) (r : Bytes) (c : Outcome Val) (hu : Unmetered s2)
    (h : CoRel c (deAny env .idl k w2 e2 s2) s2 r) (hsk : Skips (deIgnored env k w2 s2) s2 r) :
    CoRel (catchC c) (recoverable env .idl (k + 1) w2 e2 s2) s2 r := by
  rw [recoverable_succ]
  simp only [show (Visitor.idl = Visitor.ignored) = False from by simp, if_false]
  rcases h with h | h | h
  · rw [h]; exact Or.inl rfl
  · rw [h]; exact Or.inr (Or.inl rfl)
  · cases c with
    | ok v' =>
      cases hd : deAny env .idl k w2 e2 s2 with
      | ok v'' s1 =>
        rw [hd] at h
        obtain ⟨h1, h2⟩ := h
        subst h1 h2
        exact CoRel.mkOk _ _ _
      | sub _ _ => rw [hd] at h; exact absurd h (by simp)
      | err _ => rw [hd] at h; exact absurd h (by simp)
      | panic _ => rw [hd] at h; exact absurd h (by simp)
    | err kk =>
      cases hd : deAny env .idl k w2 e2 s2 with
      | ok _ _ => rw [hd] at h; exact absurd h (by simp)
      | sub dq sq =>
        rw [hd] at h
        obtain ⟨h1, h2, h3⟩ := h
        subst h1 h2 h3
        simp only [catchC]
        have : ({ s2 with dq := none, sq := none } : St) = s2 := st_eta s2 hu
        rw [this, addCost_unmetered_ok s2 hu]
        simp only [rbind_ok]
        rcases hsk with h' | ⟨x, h'⟩
        · rw [h']; exact Or.inr (Or.inl rfl)
        · rw [h']; exact CoRel.mkOk _ _ _
      | err k2 =>
        rw [hd] at h
        simp only [] at h
        have : catchC (.err kk) = .err kk := by cases kk <;> first | rfl | exact absurd rfl h
        rw [this]
        exact Or.inr (Or.inr h)
      | panic _ => rw [hd] at h; exact absurd h (by simp)
    | panic p =>
      cases hd : deAny env .idl k w2 e2 s2 with
      | panic q => exact Or.inr (Or.inr trivial)
      | ok _ _ => rw [hd] at h; exact absurd h (by simp)
      | sub _ _ => rw [hd] at h; exact absurd h (by simp)
      | err _ => rw [hd] at h; exact absurd h (by simp)

/-- the coercion looks through the name of an expected type -/
theorem coerce_trace_e (env : Env) (n : Nat) (w e e' : Ty) (v : Val) (he : traceFull env e = some e') :
    coerce env false env n w e v = coerce env false env n w e' v := by
  cases n with
  | zero => rfl
  | succ n =>
    have he' : traceFull env e' = some e' := by
      unfold traceFull
      exact Check.trace_nonvar env _ e' (Wire.trace_not_var env _ e e' he)
    unfold coerce
    rw [he, he']

theorem coerce_trace_w (env : Env) (n : Nat) (w w' e : Ty) (v : Val) (hw : traceFull env w = some w') :
    coerce env false env n w e v = coerce env false env n w' e v := by
  cases n with
  | zero => rfl
  | succ n =>
    have hw' : traceFull env w' = some w' := by
      unfold traceFull
      exact Check.trace_nonvar env _ w' (Wire.trace_not_var env _ w w' hw)
    unfold coerce
    rw [hw, hw']

/-- a wire value that is no option, at an expected option: the constituent rule, or `null` -/
theorem tr_opt_other (env : Env) (m : Nat) (hT : ∀ k ≤ m, TR env k) (n : Nat) (w' e2 : Ty) (v : Val) (cf sf : Nat)
    (bs r : Bytes) (s : St) (hc : canon env cf v w' = true) (hs : serVal sf v = .ok bs) (hin : s.input = bs ++ r)
    (hu : Unmetered s) (hokw : OKW env w') (hoke : OKE env e2) (hsm : Small s) :
    CoRel (if isOptCycle env e2 = true then (if false = true then .ok .none else .err .limit)
        else catchC (coerce env false env n w' e2 v))
      (match env.trace m e2 with
       | none => .err .limit
       | some e2' => recoverable env .idl m w' e2' s) s r := by
  by_cases hcyc : isOptCycle env e2 = true
  · simp only [hcyc, if_true, Bool.false_eq_true, if_false]; exact CoRel.starvedL _ _ _
  · simp only [hcyc, if_false]
    cases htr : env.trace m e2 with
    | none => exact CoRel.starvedR _ _ _
    | some e2' =>
      simp only []
      cases m with
      | zero => simp [Env.trace] at htr
      | succ k =>
        have hfull := Sub.traceFull_of_trace env _ e2 e2' htr
        refine recov_rel env k w' e2' s r _ hu ?_ ((skip_all env k).1 w' v cf sf bs r s hc hs hin hu hokw hsm)
        rw [coerce_trace_e env n w' e2 e2' v hfull]
        exact hT k (by omega) n w' e2' v cf sf bs r s hc hs hin hu hokw (hoke.step (reach_traceFull env e2 e2' hfull)) hsm

theorem catchC_eq (c : Outcome Val) :
    (match c with
     | .ok v' => Outcome.ok (Val.opt v')
     | .err .subtype => .ok .none
     | .err k => .err k
     | .panic s => .panic s) = catchC c := rfl

/-- the expected type is an option -/
theorem tr_opt (env : Env) (m : Nat) (hT : ∀ k ≤ m, TR env k) (n : Nat) (w w' e e2 : Ty) (v : Val) (cf sf : Nat)
    (bs r : Bytes) (s : St) (hw : traceFull env w = some w') (he : traceFull env e = some (.opt e2))
    (hc : canon env (cf + 1) v w' = true) (hs : serVal (sf + 1) v = .ok bs) (hin : s.input = bs ++ r)
    (hu : Unmetered s) (hokw : OKW env w') (hoke : OKE env (.opt e2)) (hsm : Small s) :
    CoRel (coerce env false env (n + 1) w e v)
      ((addCost s 1).bind fun _ s1 => deOptCase env m (recoverable env .idl m) w' e2 s1) s r := by
  unfold coerce
  rw [hw, he]
  simp only []
  rw [addCost_unmetered_ok s hu]
  simp only [rbind_ok]
  have hoke2 : OKE env e2 := hoke.step (Reach.opt (Reach.refl _))
  have other := tr_opt_other env m hT n w' e2 v (cf + 1) (sf + 1) bs r s hc hs hin hu hokw hoke2 hsm
  cases w' with
  | prim p =>
    cases p with
    | null =>
      simp only [canon] at hc
      cases v <;> simp only [canonPrim] at hc <;> try (exact Bool.noConfusion hc)
      simp only [serVal, Outcome.ok.injEq] at hs
      subst hs
      simp only [List.nil_append] at hin
      simp only [deOptCase]
      subst hin
      have := CoRel.mkOk .none s s.input
      rw [inp_self] at this
      exact this
    | reserved =>
      simp only [canon] at hc
      cases v <;> simp only [canonPrim] at hc <;> try (exact Bool.noConfusion hc)
      simp only [serVal, Outcome.ok.injEq] at hs
      subst hs
      simp only [List.nil_append] at hin
      simp only [deOptCase]
      subst hin
      have := CoRel.mkOk .none s s.input
      rw [inp_self] at this
      exact this
    | _ => simp only [deOptCase, catchC_eq]; exact other
  | opt w2 =>
    simp only [canon] at hc
    cases v <;> try (exact Bool.noConfusion hc)
    · simp only [serVal, Outcome.ok.injEq] at hs
      subst hs
      simp only [List.cons_append, List.nil_append] at hin
      simp only [deOptCase]
      rw [hin]
      exact CoRel.mkOk _ _ _
    · rename_i v2
      simp only [serVal] at hs
      obtain ⟨b2, h1, h2⟩ := omap_ok _ _ _ hs
      subst h2
      simp only [List.cons_append] at hin
      simp only [deOptCase, catchC_eq]
      rw [hin]
      simp only [show ((1 : UInt8) = 0) = False from by decide, if_false, if_true]
      cases m with
      | zero => exact CoRel.starvedR _ _ _
      | succ k =>
        have hs2 : ({ s with input := b2 ++ r } : St).input = b2 ++ r := rfl
        have hsm2 : Small ({ s with input := b2 ++ r } : St) := inp_small s [1] _ hsm (by rw [hin]; rfl)
        have hokw2 : OKW env w2 := hokw.step (Reach.opt (Reach.refl _))
        have := recov_rel env k w2 e2 { s with input := b2 ++ r } r (coerce env false env n w2 e2 v2) hu
          (hT k (by omega) n w2 e2 v2 cf sf b2 r _ hc h1 hs2 hu hokw2 hoke2 hsm2)
          ((skip_all env k).1 w2 v2 cf sf b2 r _ hc h1 hs2 hu hokw2 hsm2)
        exact CoRel.of_inp (a := b2 ++ r) this
  | _ => first | (simp only [deOptCase, catchC_eq]; exact other) | skip

/-! ### variants -/

theorem CoRel.map {c : Outcome Val} {d : R Val} {s : St} {r : Bytes} (h : CoRel c d s r) (f : Val → Val) :
    CoRel (c.map f) (d.map f) s r := by
  rcases h with h | h | h
  · rw [h]; exact Or.inl rfl
  · rw [h]; exact Or.inr (Or.inl rfl)
  · refine Or.inr (Or.inr ?_)
    cases c <;> cases d <;> simp only [Outcome.map, R.map, R.bind] at h ⊢ <;> first | exact h | skip
    rename_i v' v'' s1
    exact ⟨by rw [h.1], h.2⟩

/-- a type that has a canonical value unfolds -/
theorem canon_traces (env : Env) : ∀ (k : Nat) (v : Val) (t : Ty), canon env k v t = true → ∃ t', traceFull env t = some t' := by
  intro k
  induction k with
  | zero => intro v t h; simp [canon] at h
  | succ k ih =>
    intro v t h
    cases t with
    | var x =>
      simp only [canon] at h
      cases hf : env.find x with
      | none => rw [hf] at h; exact Bool.noConfusion h
      | some d =>
        rw [hf] at h
        obtain ⟨t', ht'⟩ := ih v d h
        refine ⟨t', Sub.traceFull_of_trace env (env.length + 3) (.var x) t' ?_⟩
        simp only [Env.trace, hf]
        exact ht'
    | _ => exact ⟨_, by unfold traceFull; exact Check.trace_nonvar env _ _ (by intro x hx; cases hx)⟩

/-- the expected type is a variant -/
theorem tr_variant (env : Env) (m : Nat) (hT : TR env m) (n : Nat) (w w' e : Ty) (efs : Fields) (v : Val) (cf sf : Nat)
    (bs r : Bytes) (s : St) (hw : traceFull env w = some w') (he : traceFull env e = some (.variant efs))
    (hc : canon env (cf + 1) v w' = true) (hs : serVal (sf + 1) v = .ok bs) (hin : s.input = bs ++ r)
    (hu : Unmetered s) (hokw : OKW env w') (hoke : OKE env (.variant efs)) (hsm : Small s) :
    CoRel (coerce env false env (n + 1) w e v)
      ((addCost s 1).bind fun _ s1 => deVariantCase .idl (deAny env .idl m) (deIgnored env m) w' efs s1) s r := by
  unfold coerce
  rw [hw, he]
  simp only []
  rw [addCost_unmetered_ok s hu]
  simp only [rbind_ok]
  cases w' with
  | variant wfs =>
    simp only [canon] at hc
    cases v <;> try (exact Bool.noConfusion hc)
    rename_i l v2 i
    simp only [] at hc
    cases hget : wfs.toList[i]? with
    | none => rw [hget] at hc; exact Bool.noConfusion hc
    | some q =>
      obtain ⟨l', t'⟩ := q
      rw [hget] at hc
      simp only [Bool.and_eq_true, decide_eq_true_eq] at hc
      obtain ⟨⟨hl, hi⟩, hcv⟩ := hc
      subst hl
      simp only [serVal] at hs
      obtain ⟨b2, h1, h2⟩ := omap_ok _ _ _ hs
      subst h2
      simp only [deVariantCase]
      rw [rd_ok readLebCrate s i (b2 ++ r) (by rw [hin, List.append_assoc]; exact readLebCrate_uleb _ _ hi)]
      simp only [rbind_ok, hget]
      have hmem : (l, t') ∈ wfs.toList := List.mem_of_getElem? hget
      have hhead := hokw _ (Reach.refl _)
      have hnd : (wfs.toList.map (·.1.getId)).Nodup := asc_nodup _ (by simpa [headOK] using hhead.1)
      have hlook : lookupF wfs l.getId = some t' := lookupF_of_mem_nodup wfs (l, t') hnd hmem
      have hu2 : Unmetered (inp s (b2 ++ r)) := inp_unmetered s _ hu
      have hsm2 : Small (inp s (b2 ++ r)) := inp_small s (uleb i) _ hsm (by rw [hin, List.append_assoc])
      rw [hlook]
      refine CoRel.of_inp (a := b2 ++ r) ?_
      cases hfind : efs.toList.find? (fun p => p.1.getId = l.getId) with
      | none => simp only []; exact CoRel.mkSub _ _ hu2
      | some q =>
        obtain ⟨el, et⟩ := q
        simp only []
        rw [addCost_unmetered_ok _ hu2]
        simp only [rbind_ok]
        rw [addCost_unmetered_ok _ hu2]
        simp only [rbind_ok, true_and]
        have hokt : OKW env t' := hokw.step (Reach.case (Reach.refl _) hmem)
        have hoket : OKE env et := hoke.step (Reach.case (Reach.refl _) (List.mem_of_find?_eq_some hfind))
        by_cases het : et = .prim .null
        · subst het
          simp only [if_true]
          cases n with
          | zero => exact CoRel.starvedL _ _ _
          | succ n' =>
            obtain ⟨t'', ht''⟩ := canon_traces env cf v2 t' hcv
            unfold coerce
            rw [ht'', traceFull_prim]
            simp only []
            by_cases hlit : t' = .prim .null
            · subst hlit
              rw [traceFull_prim] at ht''
              simp only [Option.some.injEq] at ht''
              subst ht''
              simp only [if_true]
              rw [addCost_unmetered_ok _ hu2]
              cases cf with
              | zero => simp [canon] at hcv
              | succ cf =>
                simp only [canon] at hcv
                cases v2 <;> simp only [canonPrim] at hcv <;> try (exact Bool.noConfusion hcv)
                cases sf with
                | zero => simp [serVal] at h1
                | succ sf =>
                  simp only [serVal, Outcome.ok.injEq] at h1
                  subst h1
                  simp only [List.nil_append]
                  have := CoRel.mkOk (.variant el .null i) (inp s r) r
                  rw [inp_inp] at this
                  exact this
            · have hne : t'' ≠ .prim .null := by
                intro hx
                subst hx
                have hul := hhead.2
                simp only [unitLit, List.all_eq_true, decide_eq_true_eq] at hul
                exact hlit (hul (l, t') hmem ht'')
              simp only [hne, hlit, if_false]
              exact CoRel.mkSub _ _ hu2
        · have hnu : (match et with | .prim .null => true | _ => false) = false := by
            cases et with
            | prim p => cases p <;> first | rfl | exact absurd rfl het
            | _ => rfl
          simp only [hnu, Bool.false_eq_true, if_false, show (Visitor.idl = Visitor.ignored) = False from by simp]
          rw [addCost_unmetered_ok _ hu2]
          simp only [rbind_ok]
          exact (hT n t' et v2 cf sf b2 r (inp s (b2 ++ r)) hcv h1 (inp_input s _) hu2 hokt hoket hsm2).map _
  | _ =>
    simp only [deVariantCase]
    first
      | exact CoRel.mkSub s r hu
      | (cases v <;> exact CoRel.mkSub s r hu)

/-! ### vectors -/

def CoRelL (c : Outcome (List Val)) (d : R (List Val)) (s : St) (r : Bytes) : Prop :=
  c = .err .limit ∨ d = .err .limit ∨
  (match c, d with
   | .ok vs', .ok vs'' s1 => vs'' = vs' ∧ s1 = inp s r
   | .err k, .sub dq sq => k = .subtype ∧ dq = none ∧ sq = none
   | .err k, .err _ => k ≠ .subtype
   | .panic _, .panic _ => True
   | _, _ => False)

theorem CoRelL.toVec {c : Outcome (List Val)} {d : R (List Val)} {s : St} {r : Bytes} (h : CoRelL c d s r) :
    CoRel (c.map Val.vec) (d.map Val.vec) s r := by
  rcases h with h | h | h
  · rw [h]; exact Or.inl rfl
  · rw [h]; exact Or.inr (Or.inl rfl)
  · refine Or.inr (Or.inr ?_)
    cases c <;> cases d <;> simp only [Outcome.map, R.map, R.bind] at h ⊢ <;> first | exact h | skip
    exact ⟨by rw [h.1], h.2⟩

theorem CoRelL.of_inp {c : Outcome (List Val)} {d : R (List Val)} {s : St} {a r : Bytes} (h : CoRelL c d (inp s a) r) :
    CoRelL c d s r := by
  rcases h with h | h | h
  · exact Or.inl h
  · exact Or.inr (Or.inl h)
  · refine Or.inr (Or.inr ?_)
    cases c <;> cases d <;> simp only [] at h ⊢ <;> first | exact h | (rw [inp_inp] at h; exact h)

/-- elements read one after the other against the element-wise coercion -/
theorem iterV_corel (g : St → R Val) (c : Val → Outcome Val) (sf : Nat) : ∀ (vs : List Val) (bss : List Bytes) (r : Bytes) (s : St),
    (∀ x ∈ vs, ∀ (b r' : Bytes) (s' : St), serVal sf x = .ok b → Unmetered s' → s'.input = b ++ r' → Small s' →
      CoRel (c x) (g s') s' r') →
    mapOutcomes (serVal sf) vs = .ok bss → Unmetered s → s.input = bss.flatten ++ r → Small s →
    CoRelL (mapOutcomes c vs) (iterV g vs.length s) s r := by
  intro vs
  induction vs with
  | nil =>
    intro bss r s _ hm _ hin _
    simp only [mapOutcomes, Outcome.ok.injEq] at hm
    subst hm
    simp only [List.flatten_nil, List.nil_append] at hin
    subst hin
    refine Or.inr (Or.inr ?_)
    simp only [mapOutcomes, List.length_nil, iterV]
    exact ⟨trivial, (inp_self s).symm⟩
  | cons x vs ih =>
    intro bss r s hf hm hu hin hsm
    obtain ⟨b, bss', h1, h2, h3⟩ := mapOutcomes_cons_ok _ x vs bss hm
    subst h3
    simp only [List.flatten_cons, List.append_assoc] at hin
    simp only [mapOutcomes, List.length_cons, iterV]
    rcases hf x (by simp) b (bss'.flatten ++ r) s h1 hu hin hsm with h | h | h
    · rw [h]; exact Or.inl rfl
    · rw [h]; exact Or.inr (Or.inl rfl)
    · cases hcx : c x with
      | ok v' =>
        cases hgs : g s with
        | ok v'' s1 =>
          rw [hcx, hgs] at h
          obtain ⟨e1, e2⟩ := h
          subst e1 e2
          simp only [rbind_ok]
          have := ih bss' r (inp s (bss'.flatten ++ r)) (fun y hy => hf y (by simp [hy])) h2 (inp_unmetered s _ hu)
            (by rw [inp_input]) (inp_small s b _ hsm hin)
          refine CoRelL.of_inp (a := bss'.flatten ++ r) ?_
          rcases this with h' | h' | h'
          · rw [h']; exact Or.inl rfl
          · rw [h']; exact Or.inr (Or.inl rfl)
          · refine Or.inr (Or.inr ?_)
            cases hm' : mapOutcomes c vs <;> cases hi' : iterV g vs.length (inp s (bss'.flatten ++ r)) <;>
              rw [hm', hi'] at h' <;> simp only [R.map, R.bind] at h' ⊢ <;> first | exact h' | skip
            exact ⟨by rw [h'.1], h'.2⟩
        | sub _ _ => rw [hcx, hgs] at h; exact absurd h (by simp)
        | err _ => rw [hcx, hgs] at h; exact absurd h (by simp)
        | panic _ => rw [hcx, hgs] at h; exact absurd h (by simp)
      | err k =>
        cases hgs : g s with
        | ok _ _ => rw [hcx, hgs] at h; exact absurd h (by simp)
        | sub dq sq => rw [hcx, hgs] at h; exact Or.inr (Or.inr h)
        | err k2 => rw [hcx, hgs] at h; exact Or.inr (Or.inr h)
        | panic _ => rw [hcx, hgs] at h; exact absurd h (by simp)
      | panic p =>
        cases hgs : g s with
        | panic q => exact Or.inr (Or.inr trivial)
        | ok _ _ => rw [hcx, hgs] at h; exact absurd h (by simp)
        | sub _ _ => rw [hcx, hgs] at h; exact absurd h (by simp)
        | err _ => rw [hcx, hgs] at h; exact absurd h (by simp)

theorem bytesOfVals_ser (sf : Nat) : ∀ (vs : List Val) (bss : List Bytes), (∀ x ∈ vs, canonPrim .nat8 x = true) →
    mapOutcomes (serVal sf) vs = .ok bss → bytesOfVals vs = some bss.flatten := by
  intro vs
  induction vs with
  | nil =>
    intro bss _ hm
    simp only [mapOutcomes, Outcome.ok.injEq] at hm
    subst hm; rfl
  | cons x vs ih =>
    intro bss hc hm
    obtain ⟨b, bss', h1, h2, h3⟩ := mapOutcomes_cons_ok _ x vs bss hm
    subst h3
    have hx := hc x (by simp)
    cases x <;> simp only [canonPrim] at hx <;> try (exact Bool.noConfusion hx)
    rename_i k
    simp only [decide_eq_true_eq] at hx
    cases sf with
    | zero => simp [serVal] at h1
    | succ sf =>
      simp only [serVal, Outcome.ok.injEq] at h1
      subst h1
      have hk : k < 256 := by omega
      simp only [bytesOfVals, ih bss' (fun y hy => hc y (by simp [hy])) h2, Option.map_some, List.flatten_cons]
      simp [leBytes, Nat.mod_eq_of_lt hk]

/-- the elements of a vector on each of the three paths, against the element-wise coercion -/
theorem tr_vec_elems (env : Env) (m : Nat) (hT : TR env m) (n : Nat) (w2 e2 : Ty) (vs : List Val) (cf sf : Nat)
    (bss : List Bytes) (r : Bytes) (s : St) (hlen : vs.length < 2 ^ 63) (hall : ∀ x ∈ vs, canon env cf x w2 = true)
    (hm : mapOutcomes (serVal sf) vs = .ok bss) (hin : s.input = uleb vs.length ++ bss.flatten ++ r) (hu : Unmetered s)
    (hokw : OKW env w2) (hoke : OKE env e2) (hsm : Small s) :
    CoRel ((mapOutcomes (coerce env false env n w2 e2) vs).map Val.vec)
      (deVecCase env .idl m (deAny env .idl m) (deIgnored env m) (.vec w2) e2 s) s r := by
  unfold deVecCase
  simp only []
  cases htr : env.trace m w2 with
  | none => exact CoRel.starvedR _ _ _
  | some wire =>
    simp only []
    rw [rd_ok readLenDe s vs.length (bss.flatten ++ r) (by rw [hin, List.append_assoc]; exact readLenDe_uleb _ _ hlen)]
    simp only [rbind_ok]
    have hu2 : Unmetered (inp s (bss.flatten ++ r)) := inp_unmetered s _ hu
    have hsm2 : Small (inp s (bss.flatten ++ r)) := inp_small s (uleb vs.length) _ hsm (by rw [hin, List.append_assoc])
    have hfullw := Sub.traceFull_of_trace env m w2 wire htr
    have hwirefull : traceFull env wire = some wire := by
      unfold traceFull
      exact Check.trace_nonvar env _ wire (Wire.trace_not_var env _ w2 wire hfullw)
    have hallw : ∀ x ∈ vs, ∃ k, canon env k x wire = true := fun x hx => canon_trace_inv env m w2 wire cf x htr (hall x hx)
    have hokwire : OKW env wire := hokw.step (reach_trace env m w2 wire htr)
    refine CoRel.of_inp (a := bss.flatten ++ r) ?_
    cases hx : exactPrim e2 wire with
    | some p =>
      simp only []
      obtain ⟨hee, hwire, sz, hsz⟩ : e2 = .prim p ∧ wire = .prim p ∧ ∃ sz, primSize p = some sz := by
        unfold exactPrim at hx
        split at hx
        · split at hx
          · rename_i hc; simp only [Option.some.injEq] at hx; subst hx
            exact ⟨rfl, by rw [hc.1], Option.isSome_iff_exists.mp hc.2⟩
          · simp at hx
        · simp at hx
      subst hee hwire
      have hcan : ∀ x ∈ vs, canonPrim p x = true := by
        intro x hx'
        obtain ⟨k, hk⟩ := hallw x hx'
        cases k with
        | zero => simp [canon] at hk
        | succ k => simpa [canon] using hk
      have hflat := prim_elems_len p sz hsz sf vs bss hcan hm
      have hsz1 : 1 ≤ sz ∧ sz ≤ 8 := by cases p <;> simp [primSize] at hsz <;> omega
      simp only [hsz, Option.getD_some]
      have hn : vs.length ≤ bss.flatten.length := by
        rw [hflat]; exact Nat.le_mul_of_pos_right _ hsz1.1
      by_cases h1 : vs.length * (3 + sz) > usizeMax
      · rw [if_pos h1]; first | exact Or.inl rfl | exact CoRel.starvedR _ _ _
      rw [if_neg h1, addCost_unmetered_ok _ hu2]
      simp only [rbind_ok]
      rw [if_neg (by rw [inp_input, List.length_append, hflat]; omega)]
      refine (iterV_corel (fun st => rd (decPrim p) st) _ sf vs bss r _ (fun x hx' b r' s' hsx hu' hin' _ => ?_) hm hu2
        (inp_input s _) hsm2).toVec
      cases n with
      | zero => exact CoRel.starvedL _ _ _
      | succ n' =>
        have hcoe : coerce env false env (n' + 1) w2 (.prim p) x = .ok x := by
          unfold coerce
          rw [hfullw, traceFull_prim]
          cases p <;> simp [primSize] at hsz <;> simp
        rw [hcoe, rd_ok (decPrim p) s' x r' (by rw [hin']; exact decPrim_ser p x sf b r' (hcan x hx') hsx)]
        exact CoRel.mkOk _ _ _
    | none =>
      simp only []
      cases hb : bigPrimOf e2 wire with
      | some wp =>
        simp only []
        have hcases : (e2 = .prim .nat ∧ wire = .prim .nat ∧ wp = .nat) ∨ (e2 = .prim .int ∧ wire = .prim .int ∧ wp = .int) ∨
            (e2 = .prim .int ∧ wire = .prim .nat ∧ wp = .nat) := by
          unfold bigPrimOf at hb
          split at hb
          · left; simp only [Option.some.injEq] at hb; exact ⟨rfl, rfl, hb.symm⟩
          · right; left; simp only [Option.some.injEq] at hb; exact ⟨rfl, rfl, hb.symm⟩
          · right; right; simp only [Option.some.injEq] at hb; exact ⟨rfl, rfl, hb.symm⟩
          · simp at hb
        -- what the elements are, and that each takes at least a byte
        have hshape : ∀ x ∈ vs, ∀ b, serVal sf x = .ok b →
            (wire = .prim .nat → ∃ k, x = .nat k ∧ b = Impl.natEncode k) ∧
            (wire = .prim .int → ∃ i, x = .int i ∧ b = Impl.intEncode i) := by
          intro x hx' b hsx
          obtain ⟨k, hk⟩ := hallw x hx'
          cases k with
          | zero => simp [canon] at hk
          | succ k =>
            cases sf with
            | zero => simp [serVal] at hsx
            | succ sf =>
              refine ⟨fun hwn => ?_, fun hwi => ?_⟩
              · subst hwn
                simp only [canon] at hk
                cases x <;> simp only [canonPrim] at hk <;> try (exact Bool.noConfusion hk)
                simp only [serVal, Outcome.ok.injEq] at hsx
                exact ⟨_, rfl, hsx.symm⟩
              · subst hwi
                simp only [canon] at hk
                cases x <;> simp only [canonPrim] at hk <;> try (exact Bool.noConfusion hk)
                simp only [serVal, Outcome.ok.injEq] at hsx
                exact ⟨_, rfl, hsx.symm⟩
        have hwire2 : wire = .prim .nat ∨ wire = .prim .int := by
          rcases hcases with ⟨_, h, _⟩ | ⟨_, h, _⟩ | ⟨_, h, _⟩
          · exact Or.inl h
          · exact Or.inr h
          · exact Or.inl h
        have hne : ∀ b ∈ bss, 1 ≤ b.length := by
          intro b hb'
          obtain ⟨x, hx', hsx⟩ := mapOutcomes_mem (serVal sf) vs bss hm b hb'
          rcases hwire2 with h | h
          · obtain ⟨k, _, hbk⟩ := (hshape x hx' b hsx).1 h
            rw [hbk, natEncode_eq_uleb]
            exact Nat.pos_of_ne_zero (fun h => uleb_ne_nil _ (List.length_eq_zero_iff.mp h))
          · obtain ⟨k, _, hbk⟩ := (hshape x hx' b hsx).2 h
            rw [hbk, intEncode_eq_sleb]
            exact Nat.pos_of_ne_zero (fun h => sleb_ne_nil _ (List.length_eq_zero_iff.mp h))
        have hn : vs.length ≤ bss.flatten.length := by
          have := len_le_flatten bss hne
          rw [mapOutcomes_len (serVal sf) vs bss hm] at this
          exact this
        by_cases h1 : vs.length * 3 > usizeMax
        · rw [if_pos h1]; first | exact Or.inl rfl | exact CoRel.starvedR _ _ _
        rw [if_neg h1, addCost_unmetered_ok _ hu2]
        simp only [rbind_ok]
        refine (iterV_corel _ _ sf vs bss r _ (fun x hx' b r' s' hsx hu' hin' _ => ?_) hm hu2 (inp_input s _) hsm2).toVec
        cases n with
        | zero => exact CoRel.starvedL _ _ _
        | succ n' =>
          rcases hcases with ⟨h1, h2, h3⟩ | ⟨h1, h2, h3⟩ | ⟨h1, h2, h3⟩ <;> subst h1 h2 h3
          · obtain ⟨k, hxk, hbk⟩ := (hshape x hx' b hsx).1 rfl
            subst hxk hbk
            have hcoe : coerce env false env (n' + 1) w2 (.prim .nat) (.nat k) = .ok (.nat k) := by
              unfold coerce; rw [hfullw, traceFull_prim]; simp
            rw [hcoe]
            simp only [if_true, show ((Ty.prim Prim.nat) = Ty.prim Prim.int) = False from by simp, if_false]
            rw [bigNum_ok _ s' hu' _ r' (by rw [hin']; exact natAs_ser _ _ _)]
            exact CoRel.mkOk _ _ _
          · obtain ⟨i, hxi, hbi⟩ := (hshape x hx' b hsx).2 rfl
            subst hxi hbi
            have hcoe : coerce env false env (n' + 1) w2 (.prim .int) (.int i) = .ok (.int i) := by
              unfold coerce; rw [hfullw, traceFull_prim]
            rw [hcoe]
            simp only [show (Prim.int = Prim.nat) = False from by simp, if_false]
            rw [bigNum_ok _ s' hu' _ r' (by rw [hin']; exact intAs_ser _ _)]
            exact CoRel.mkOk _ _ _
          · obtain ⟨k, hxk, hbk⟩ := (hshape x hx' b hsx).1 rfl
            subst hxk hbk
            have hcoe : coerce env false env (n' + 1) w2 (.prim .int) (.nat k) = .ok (.int k) := by
              unfold coerce; rw [hfullw, traceFull_prim]
            rw [hcoe]
            simp only [if_true]
            rw [bigNum_ok _ s' hu' _ r' (by rw [hin']; exact natAs_ser _ _ _)]
            exact CoRel.mkOk _ _ _
      | none =>
        simp only [show (Visitor.idl = Visitor.ignored) = False from by simp, if_false]
        refine (iterV_corel _ _ sf vs bss r _ (fun x hx' b r' s' hsx hu' hin' hsm' => ?_) hm hu2 (inp_input s _) hsm2).toVec
        rw [addCost_unmetered_ok s' hu']
        simp only [rbind_ok]
        obtain ⟨k, hk⟩ := hallw x hx'
        rw [coerce_trace_w env n w2 wire e2 x hfullw]
        exact hT n wire e2 x k sf b r' s' hk hsx hin' hu' hokwire hoke hsm'

/-- the expected type is a vector -/
theorem tr_vec (env : Env) (m : Nat) (hT : TR env m) (n : Nat) (w w' e e2 : Ty) (v : Val) (cf sf : Nat)
    (bs r : Bytes) (s : St) (hw : traceFull env w = some w') (he : traceFull env e = some (.vec e2))
    (hc : canon env (cf + 1) v w' = true) (hs : serVal (sf + 1) v = .ok bs) (hin : s.input = bs ++ r)
    (hu : Unmetered s) (hokw : OKW env w') (hoke : OKE env (.vec e2)) (hsm : Small s) :
    CoRel (coerce env false env (n + 1) w e v)
      (if isBlobTy env (.vec e2) = true then deBlobCase env w' s
       else (addCost s 1).bind fun _ s1 => deVecCase env .idl m (deAny env .idl m) (deIgnored env m) w' e2 s1) s r := by
  unfold coerce
  rw [hw, he]
  simp only []
  cases w' with
  | vec w2 =>
    obtain ⟨vs, bss, hv, hlen, hall, hm, hbs⟩ := vec_inv env cf sf v w2 bs hc hs
    subst hv hbs
    simp only []
    have hokw2 : OKW env w2 := hokw.step (Reach.vec (Reach.refl _))
    have hoke2 : OKE env e2 := hoke.step (Reach.vec (Reach.refl _))
    by_cases hbe : isBlobTy env (.vec e2) = true
    · simp only [hbe, if_true, deBlobCase]
      by_cases hbw : isBlobTy env (.vec w2) = true
      · simp only [hbw, if_true]
        have htw : traceFull env w2 = some (.prim .nat8) := by
          simp only [isBlobTy] at hbw
          cases h : traceFull env w2 with
          | none => rw [h] at hbw; simp at hbw
          | some t =>
            rw [h] at hbw
            cases t with
            | prim p => cases p <;> first | rfl | exact Bool.noConfusion hbw
            | _ => exact Bool.noConfusion hbw
        have hcan : ∀ x ∈ vs, canonPrim .nat8 x = true := by
          intro x hx
          obtain ⟨k, hk⟩ := canon_trace_inv env _ w2 _ cf x htw (hall x hx)
          cases k with
          | zero => simp [canon] at hk
          | succ k => simpa [canon] using hk
        have hflat := prim_elems_len .nat8 1 rfl sf vs bss hcan hm
        rw [Nat.mul_one] at hflat
        rw [lenBytes_ser s hu bss.flatten r (by omega) (by rw [hin, hflat]), bytesOfVals_ser sf vs bss hcan hm]
        exact CoRel.mkOk _ _ _
      · simp only [hbw, Bool.false_eq_true, if_false]
        rw [rd_ok readLenDe s vs.length (bss.flatten ++ r) (by rw [hin, List.append_assoc]; exact readLenDe_uleb _ _ hlen)]
        simp only [rbind_ok]
        refine CoRel.of_inp (a := bss.flatten ++ r) ?_
        cases vs with
        | nil =>
          simp only [mapOutcomes, Outcome.ok.injEq] at hm
          subst hm
          simp only [List.length_nil, ne_eq, not_true_eq_false, if_false, List.isEmpty_nil, if_true, List.flatten_nil,
            List.nil_append]
          rw [addCost_unmetered_ok _ (inp_unmetered s _ hu)]
          have := CoRel.mkOk (.blob []) (inp s r) r
          rw [inp_inp] at this
          exact this
        | cons x vs =>
          simp only [List.length_cons, ne_eq, Nat.add_one_ne_zero, not_false_eq_true, if_true, List.isEmpty_cons,
            Bool.false_eq_true, if_false]
          exact CoRel.mkSub _ _ (inp_unmetered s _ hu)
    · simp only [hbe, Bool.false_eq_true, if_false]
      rw [addCost_unmetered_ok s hu]
      simp only [rbind_ok]
      exact tr_vec_elems env m hT n w2 e2 vs cf sf bss r s hlen hall hm hin hu hokw2 hoke2 hsm
  | _ =>
    split
    · exfalso
      rename_i h1 h2
      first | exact Ty.noConfusion h2 | exact Ty.noConfusion h1
    · by_cases hbe : isBlobTy env (.vec e2) = true
      · rw [if_pos hbe]
        simp only [deBlobCase, isBlobTy, Bool.false_eq_true, if_false]
        exact CoRel.mkSub s r hu
      · rw [if_neg hbe]
        simp only [deVecCase]
        rw [addCost_unmetered_ok s hu]
        exact CoRel.mkSub s r hu

/-! ### records -/

theorem CoRel.bind {c : Outcome Val} {d : R Val} {s : St} {r1 r : Bytes} (h : CoRel c d s r1)
    (fc : Val → Outcome Val) (fd : Val → St → R Val)
    (hk : ∀ v', CoRel (fc v') (fd v' (inp s r1)) (inp s r1) r) :
    CoRel (c.bind fc) (d.bind fd) s r := by
  rcases h with h | h | h
  · rw [h]; exact Or.inl rfl
  · rw [h]; exact Or.inr (Or.inl rfl)
  · cases c with
    | ok v' =>
      cases d with
      | ok v'' s1 =>
        obtain ⟨e1, e2⟩ := h
        subst e1 e2
        exact CoRel.of_inp (a := r1) (hk v'')
      | sub _ _ => exact absurd h (by simp)
      | err _ => exact absurd h (by simp)
      | panic _ => exact absurd h (by simp)
    | err k =>
      cases d with
      | ok _ _ => exact absurd h (by simp)
      | sub dq sq => exact Or.inr (Or.inr h)
      | err k2 => exact Or.inr (Or.inr h)
      | panic _ => exact absurd h (by simp)
    | panic p =>
      cases d with
      | panic q => exact Or.inr (Or.inr trivial)
      | ok _ _ => exact absurd h (by simp)
      | sub _ _ => exact absurd h (by simp)
      | err _ => exact absurd h (by simp)

theorem mapOutcomes_congr {α β : Type} (f g : α → Outcome β) : ∀ (l : List α), (∀ a ∈ l, f a = g a) →
    mapOutcomes f l = mapOutcomes g l := by
  intro l
  induction l with
  | nil => intro _; rfl
  | cons a l ih =>
    intro h
    simp only [mapOutcomes, h a (by simp), ih (fun b hb => h b (by simp [hb]))]

/-- first field type with the id -/
def lookL (ws : List (Label × Ty)) (i : Nat) : Option Ty :=
  match ws with
  | [] => none
  | (l, t) :: r => if l.getId = i then some t else lookL r i

theorem lookL_none : ∀ (ws : List (Label × Ty)) (i : Nat), (∀ p ∈ ws, p.1.getId ≠ i) → lookL ws i = none := by
  intro ws
  induction ws with
  | nil => intro _ _; rfl
  | cons p ws ih =>
    intro i h
    obtain ⟨l, t⟩ := p
    simp only [lookL, h (l, t) (by simp), if_false]
    exact ih i (fun q hq => h q (by simp [hq]))

theorem fieldVal_none : ∀ (vs : List (Label × Val)) (i : Nat), (∀ p ∈ vs, p.1.getId ≠ i) → fieldVal vs i = none := by
  intro vs
  induction vs with
  | nil => intro _ _; rfl
  | cons p vs ih =>
    intro i h
    obtain ⟨l, t⟩ := p
    simp only [fieldVal, h (l, t) (by simp), if_false]
    exact ih i (fun q hq => h q (by simp [hq]))

theorem lookupF_eq_lookL : ∀ (fs : Fields) (i : Nat), (fs.toList.map (·.1.getId)).Nodup → lookupF fs i = lookL fs.toList i
  | .nil, _, _ => rfl
  | .cons l t r, i, hn => by
    simp only [Fields.toList, List.map_cons, List.nodup_cons] at hn
    simp only [Fields.toList, lookL, lookupF]
    rw [lookupF_eq_lookL r i hn.2]
    by_cases hl : l.getId = i
    · have : lookL r.toList i = none := by
        apply lookL_none
        intro p hp hpi
        exact hn.1 (List.mem_map.mpr ⟨p, hp, by rw [hpi, hl]⟩)
      simp [this, hl]
    · simp only [hl, if_false]
      cases lookL r.toList i <;> rfl

/-- what a missing field reads as -/
def nullC (env : Env) (et : Ty) : Outcome Val :=
  match traceFull env et with
  | some (.opt _) => .ok .none
  | some (.prim .null) => .ok .null
  | some (.prim .reserved) => .ok .reserved
  | _ => .err .subtype

/-- the coercion of one expected field, with lookups in the lists at hand -/
def GF (env : Env) (n : Nat) (ws : List (Label × Ty)) (vs : List (Label × Val)) (p : Label × Ty) : Outcome (Label × Val) :=
  match fieldVal vs p.1.getId, lookL ws p.1.getId with
  | some fv, some wt => (coerce env false env n wt p.2 fv).map fun v' => (p.1, v')
  | _, _ => (nullC env p.2).map fun v' => (p.1, v')

theorem GF_drop (env : Env) (n : Nat) (wl : Label) (wt : Ty) (ws : List (Label × Ty)) (vl : Label) (fv : Val)
    (vs : List (Label × Val)) (p : Label × Ty) (h1 : wl.getId ≠ p.1.getId) (h2 : vl.getId ≠ p.1.getId) :
    GF env n ((wl, wt) :: ws) ((vl, fv) :: vs) p = GF env n ws vs p := by
  simp only [GF, fieldVal, lookL, h1, h2, if_false]

theorem mapOutcomes_cons_map {α β γ : Type} (f : α → Outcome β) (a : α) (l : List α) (F : List β → γ) :
    (mapOutcomes f (a :: l)).map F = (f a).bind fun b => (mapOutcomes f l).map fun bs => F (b :: bs) := by
  simp only [mapOutcomes]
  cases f a with
  | ok b => cases mapOutcomes f l <;> rfl
  | err k => rfl
  | panic p => rfl

theorem reach_prim (env : Env) (p : Prim) (t : Ty) (h : Reach env (.prim p) t) : t = .prim p := by
  generalize ha : Ty.prim p = a at h
  induction h with
  | refl => rfl
  | opt _ ih => subst ha; cases ih
  | vec _ ih => subst ha; cases ih
  | field _ _ ih => subst ha; cases ih
  | case _ _ ih => subst ha; cases ih
  | name _ _ ih => subst ha; cases ih

theorem okw_prim (env : Env) (p : Prim) : OKW env (.prim p) := by
  intro t ht
  have := reach_prim env p t ht
  subst this
  exact ⟨rfl, rfl⟩

/-- `null` on the wire at an expected type: what a missing field reads as -/
theorem coerce_null (env : Env) (n : Nat) (et et' : Ty) (ht : traceFull env et = some et') (hh : headOK et' = true) :
    coerce env false env (n + 1) (.prim .null) et .null = nullC env et := by
  unfold coerce nullC
  rw [traceFull_prim, ht]
  cases et' with
  | prim p => cases p <;> simp
  | var x => exact absurd rfl (Wire.trace_not_var env _ et (.var x) ht x)
  | _ => first | rfl | simp [headOK] at hh | simp

theorem traceAt_none_of_full (env : Env) (k : Nat) (t : Ty) (h : traceFull env t = none) : traceAt env k t = none := by
  unfold traceAt
  split
  · cases hx : env.trace k t with
    | none => rfl
    | some x => rw [Sub.traceFull_of_trace env k t x hx] at h; exact absurd h (by simp)
  · rename_i hn
    have : traceFull env t = some t := by
      unfold traceFull
      exact Check.trace_nonvar env _ t (by intro x hx; subst hx; simp [Sub.isName] at hn)
    rw [this] at h; exact absurd h (by simp)

/-- a field missing on the wire is read as `null` at its expected type -/
theorem null_rel (env : Env) (f : Nat) (hT : TR env f) (et : Ty) (s : St) (hu : Unmetered s) (hoke : OKE env et)
    (hsm : Small s) : CoRel (nullC env et) (deAny env .idl f (.prim .null) et s) s s.input := by
  cases ht : traceFull env et with
  | none =>
    cases f with
    | zero => exact CoRel.starvedR _ _ _
    | succ k =>
      rw [deAny_succ, unroll_char env k _ et s hu, traceAt_none_of_full env k et ht]
      exact CoRel.starvedR _ _ _
  | some et' =>
    have hh : headOK et' = true := hoke et' (reach_traceFull env et et' ht)
    have := hT 1 (.prim .null) et .null 1 1 [] s.input s rfl rfl (by simp) hu (okw_prim env .null) hoke hsm
    rw [coerce_null env 0 et et' ht hh] at this
    exact this

/-- a field that is only on the wire is skipped -/
theorem wire_only_rel (env : Env) (f : Nat) (hT : TR env f) (wt : Ty) (fv : Val) (cf sf : Nat) (b r1 : Bytes) (s : St)
    (hc : canon env cf fv wt = true) (hs : serVal sf fv = .ok b) (hin : s.input = b ++ r1) (hu : Unmetered s)
    (hokw : OKW env wt) (hsm : Small s) :
    deAny env .idl f wt (.prim .reserved) s = .err .limit ∨ deAny env .idl f wt (.prim .reserved) s = .ok .reserved (inp s r1) := by
  have hoke : OKE env (.prim .reserved) := by
    intro t ht
    have := reach_prim env .reserved t ht
    subst this; rfl
  have := hT 1 wt (.prim .reserved) fv cf sf b r1 s hc hs hin hu hokw hoke hsm
  obtain ⟨t', ht'⟩ := canon_traces env cf fv wt hc
  have hco : coerce env false env 1 wt (.prim .reserved) fv = .ok .reserved := by
    unfold coerce
    rw [ht', traceFull_prim]
  rw [hco] at this
  rcases this with h | h | h
  · simp at h
  · exact Or.inl h
  · cases hd : deAny env .idl f wt (.prim .reserved) s with
    | ok v'' s1 => rw [hd] at h; right; rw [h.1, h.2]
    | sub _ _ => rw [hd] at h; exact absurd h (by simp)
    | err _ => rw [hd] at h; exact absurd h (by simp)
    | panic _ => rw [hd] at h; exact absurd h (by simp)

theorem omap_bind {α β γ : Type} (x : Outcome α) (g : α → β) (h : β → Outcome γ) :
    (x.map g).bind h = x.bind fun a => h (g a) := by
  cases x <;> rfl

theorem nullC_not_optlike (env : Env) (et et' : Ty) (ht : traceFull env et = some et') (h : isOptLikeTy et' = false) :
    nullC env et = .err .subtype := by
  unfold nullC
  rw [ht]
  cases et' with
  | prim p => cases p <;> first | rfl | simp [isOptLikeTy] at h
  | opt _ => simp [isOptLikeTy] at h
  | _ => rfl

theorem nullC_trace (env : Env) (et et' : Ty) (ht : traceFull env et = some et') : nullC env et = nullC env et' := by
  have het' : traceFull env et' = some et' := by
    unfold traceFull
    exact Check.trace_nonvar env _ et' (Wire.trace_not_var env _ et et' ht)
  unfold nullC
  rw [ht, het']

theorem rev_cons_append (acc : List (Label × Val)) (q : Label × Val) :
    (fun fs => Val.record ((q :: acc).reverse ++ fs)) = fun fs => Val.record (acc.reverse ++ q :: fs) := by
  funext fs
  simp

theorem canonFields_labels (c : Val → Ty → Bool) : ∀ (vs : List (Label × Val)) (ws : List (Label × Ty)),
    canonFieldsWith c vs ws = true → vs.map (·.1) = ws.map (·.1) := by
  intro vs
  induction vs with
  | nil => intro ws h; cases ws with | nil => rfl | cons _ _ => simp [canonFieldsWith] at h
  | cons q vs ih =>
    intro ws h
    obtain ⟨l, v⟩ := q
    cases ws with
    | nil => simp [canonFieldsWith] at h
    | cons p ws =>
      obtain ⟨l', t⟩ := p
      simp only [canonFieldsWith, Bool.and_eq_true, decide_eq_true_eq] at h
      simp only [List.map_cons, h.1.1, ih ws h.2]

/-- the merged fields of a record: the decoder's merge by ascending id against the coercion's lookups by id -/
theorem fields_rel (env : Env) (F : Nat) (hT : ∀ k < F, TR env k) (n : Nat) :
    ∀ (N : Nat) (es ws : List (Label × Ty)) (vs : List (Label × Val)) (f : Nat), f ≤ F → es.length + ws.length < N →
    ∀ (cf sf : Nat) (bss : List Bytes) (r : Bytes) (s : St) (acc : List (Label × Val)),
    strictlyAscending (es.map (·.1.getId)) = true → strictlyAscending (ws.map (·.1.getId)) = true →
    canonFieldsWith (canon env cf) vs ws = true → mapOutcomes (fun (p : Label × Val) => serVal sf p.2) vs = .ok bss →
    s.input = bss.flatten ++ r → Unmetered s → (∀ p ∈ ws, OKW env p.2) → (∀ p ∈ es, OKE env p.2) → Small s →
    CoRel ((mapOutcomes (GF env n ws vs) es).map fun fs => Val.record (acc.reverse ++ fs))
      (deFields env .idl f (mergeFields N es ws) s acc) s r := by
  intro N
  induction N with
  | zero => intro es ws vs f _ hN; omega
  | succ N ih =>
    intro es ws vs f hf hN cf sf bss r s acc hes hws hcan hm hin hu hokw hoke hsm
    cases f with
    | zero => rw [deFields_zero]; exact CoRel.starvedR _ _ _
    | succ f =>
    have hTf : TR env f := hT f (by omega)
    cases es with
    | nil =>
      cases ws with
      | nil =>
        cases vs with
        | cons _ _ => simp [canonFieldsWith] at hcan
        | nil =>
          simp only [mapOutcomes, Outcome.ok.injEq] at hm
          subst hm
          simp only [List.flatten_nil, List.nil_append] at hin
          subst hin
          simp only [mergeFields, deFields, mapOutcomes, Outcome.map, List.append_nil]
          rw [addCost_unmetered_ok s hu]
          have := CoRel.mkOk (.record acc.reverse) s s.input
          rw [inp_self] at this
          exact this
      | cons q ws' =>
        obtain ⟨wl, wt⟩ := q
        cases vs with
        | nil => simp [canonFieldsWith] at hcan
        | cons qv vs' =>
          obtain ⟨vl, fv⟩ := qv
          simp only [canonFieldsWith, Bool.and_eq_true, decide_eq_true_eq] at hcan
          obtain ⟨⟨hl, hcv⟩, hcr⟩ := hcan
          obtain ⟨b, bss', h1, h2, h3⟩ := mapOutcomes_cons_ok _ (vl, fv) vs' bss hm
          subst h3
          simp only [List.flatten_cons, List.append_assoc] at hin
          simp only [mergeFields, deFields]
          rw [addCost_unmetered_ok s hu]
          simp only [rbind_ok]
          rw [addCost_unmetered_ok s hu]
          simp only [rbind_ok]
          rw [addCost_unmetered_ok s hu]
          simp only [rbind_ok]
          rcases wire_only_rel env f hTf wt fv cf sf b (bss'.flatten ++ r) s hcv h1 hin hu (hokw (wl, wt) (by simp)) hsm with h | h
          · rw [h]; exact CoRel.starvedR _ _ _
          · rw [h]
            simp only [rbind_ok]
            refine CoRel.of_inp (a := bss'.flatten ++ r) ?_
            have := ih [] ws' vs' f (by omega) (by simp at hN ⊢; omega) cf sf bss' r (inp s (bss'.flatten ++ r)) acc hes
              (asc_tail _ _ hws) hcr h2 (inp_input s _) (inp_unmetered s _ hu) (fun p hp => hokw p (by simp [hp]))
              hoke (inp_small s b _ hsm hin)
            simpa only [mapOutcomes] using this
    | cons p es' =>
      obtain ⟨l, et⟩ := p
      have hes' := asc_tail _ _ hes
      have hgt : ∀ p ∈ es', l.getId < p.1.getId := by
        intro p hp
        exact asc_head_lt _ _ hes p.1.getId (List.mem_map.mpr ⟨p, hp, rfl⟩)
      have hoket : OKE env et := hoke (l, et) (by simp)
      have hoke' : ∀ p ∈ es', OKE env p.2 := fun p hp => hoke p (by simp [hp])
      cases ws with
      | nil =>
        cases vs with
        | cons _ _ => simp [canonFieldsWith] at hcan
        | nil =>
          simp only [mergeFields, deFields]
          rw [addCost_unmetered_ok s hu]
          simp only [rbind_ok]
          rw [addCost_unmetered_ok s hu]
          simp only [rbind_ok]
          rw [addCost_unmetered_ok s hu]
          simp only [rbind_ok]
          rw [mapOutcomes_cons_map]
          have hG : GF env n [] [] (l, et) = (nullC env et).map fun v' => (l, v') := by simp [GF, fieldVal]
          rw [hG, omap_bind]
          refine CoRel.bind (null_rel env f hTf et s hu hoket hsm) _ _ (fun v' => ?_)
          have := ih es' [] [] f (by omega) (by simp at hN ⊢; omega) cf sf bss r (inp s s.input) ((l, v') :: acc) hes' hws
            hcan hm (by rw [inp_input]; exact hin) (inp_unmetered s _ hu) hokw hoke' (by rw [inp_self]; exact hsm)
          rw [rev_cons_append] at this
          exact this
      | cons q ws' =>
        obtain ⟨wl, wt⟩ := q
        cases vs with
        | nil => simp [canonFieldsWith] at hcan
        | cons qv vs' =>
          obtain ⟨vl, fv⟩ := qv
          have hcan0 := hcan
          simp only [canonFieldsWith, Bool.and_eq_true, decide_eq_true_eq] at hcan
          obtain ⟨⟨hl, hcv⟩, hcr⟩ := hcan
          subst hl
          obtain ⟨b, bss', h1, h2, h3⟩ := mapOutcomes_cons_ok _ (vl, fv) vs' bss hm
          have hm0 := hm
          subst h3
          have hin0 := hin
          simp only [List.flatten_cons, List.append_assoc] at hin
          by_cases heq : l.getId = vl.getId
          · -- the field is on both sides
            simp only [mergeFields, heq, if_true, deFields]
            rw [addCost_unmetered_ok s hu]
            simp only [rbind_ok]
            rw [addCost_unmetered_ok s hu]
            simp only [rbind_ok]
            rw [addCost_unmetered_ok s hu]
            simp only [rbind_ok, show (Visitor.idl = Visitor.ignored) = False from by simp, if_false]
            rw [mapOutcomes_cons_map]
            have hG : GF env n ((vl, wt) :: ws') ((vl, fv) :: vs') (l, et) =
                (coerce env false env n wt et fv).map fun v' => (l, v') := by
              simp [GF, fieldVal, lookL, heq]
            rw [hG, omap_bind]
            refine CoRel.bind (hTf n wt et fv cf sf b (bss'.flatten ++ r) s hcv h1 hin hu (hokw (vl, wt) (by simp)) hoket hsm)
              _ _ (fun v' => ?_)
            have hcongr : mapOutcomes (GF env n ((vl, wt) :: ws') ((vl, fv) :: vs')) es' = mapOutcomes (GF env n ws' vs') es' :=
              mapOutcomes_congr _ _ es' (fun p hp => GF_drop env n vl wt ws' vl fv vs' p
                (by have := hgt p hp; omega) (by have := hgt p hp; omega))
            rw [hcongr]
            have := ih es' ws' vs' f (by omega) (by simp at hN ⊢; omega) cf sf bss' r (inp s (bss'.flatten ++ r)) ((l, v') :: acc)
              hes' (asc_tail _ _ hws) hcr h2 (inp_input s _) (inp_unmetered s _ hu) (fun p hp => hokw p (by simp [hp]))
              hoke' (inp_small s b _ hsm hin)
            rw [rev_cons_append] at this
            exact this
          · by_cases hlt : l.getId < vl.getId
            · -- the expected field is missing on the wire
              have hne : ¬ (l.getId = vl.getId) := heq
              simp only [mergeFields, hne, if_false, hlt, if_true, deFields]
              rw [addCost_unmetered_ok s hu]
              simp only [rbind_ok]
              have hnone : fieldVal ((vl, fv) :: vs') l.getId = none := by
                apply fieldVal_none
                intro p hp hpid
                -- the labels of the values are the labels of the wire fields, all above `l`
                have hlab := canonFields_labels _ _ _ hcan0
                have hmem : p.1 ∈ ((vl, wt) :: ws').map (·.1) := by
                  rw [← hlab]; exact List.mem_map.mpr ⟨p, hp, rfl⟩
                simp only [List.map_cons, List.mem_cons] at hmem
                rcases hmem with h | h
                · rw [h] at hpid; omega
                · obtain ⟨q, hq, hq1⟩ := List.mem_map.mp h
                  have hlt2 : vl.getId < q.1.getId := asc_head_lt _ _ hws q.1.getId (List.mem_map.mpr ⟨q, hq, rfl⟩)
                  rw [hq1] at hlt2
                  omega
              have hG : GF env n ((vl, wt) :: ws') ((vl, fv) :: vs') (l, et) = (nullC env et).map fun v' => (l, v') := by
                simp only [GF, hnone]
              rw [mapOutcomes_cons_map, hG, omap_bind]
              cases htr : env.trace f et with
              | none => exact CoRel.starvedR _ _ _
              | some et' =>
                simp only []
                have hfull := Sub.traceFull_of_trace env f et et' htr
                have hoket' : OKE env et' := hoket.step (reach_traceFull env et et' hfull)
                by_cases hopt : isOptLikeTy et' = true
                · simp only [hopt, Bool.not_true, Bool.false_eq_true, if_false]
                  rw [addCost_unmetered_ok s hu]
                  simp only [rbind_ok]
                  rw [addCost_unmetered_ok s hu]
                  simp only [rbind_ok]
                  rw [nullC_trace env et et' hfull]
                  refine CoRel.bind (null_rel env f hTf et' s hu hoket' hsm) _ _ (fun v' => ?_)
                  have := ih es' ((vl, wt) :: ws') ((vl, fv) :: vs') f (by omega) (by simp at hN ⊢; omega) cf sf (b :: bss') r
                    (inp s s.input) ((l, v') :: acc) hes' hws hcan0 hm0 (by rw [inp_input]; exact hin0)
                    (inp_unmetered s _ hu) hokw hoke' (by rw [inp_self]; exact hsm)
                  rw [rev_cons_append] at this
                  exact this
                · have hno : isOptLikeTy et' = false := by
                    cases h : isOptLikeTy et' with
                    | true => exact absurd h hopt
                    | false => rfl
                  simp only [hno, Bool.not_false, if_true]
                  rw [nullC_not_optlike env et et' hfull hno]
                  exact CoRel.mkSub s r hu
            · -- a wire field the expected type does not have: skipped
              have hgt' : vl.getId < l.getId := by omega
              have hne : ¬ (l.getId = vl.getId) := heq
              simp only [mergeFields, hne, if_false, hlt, deFields]
              rw [addCost_unmetered_ok s hu]
              simp only [rbind_ok]
              rw [addCost_unmetered_ok s hu]
              simp only [rbind_ok]
              rw [addCost_unmetered_ok s hu]
              simp only [rbind_ok]
              rcases wire_only_rel env f hTf wt fv cf sf b (bss'.flatten ++ r) s hcv h1 hin hu (hokw (vl, wt) (by simp)) hsm with h | h
              · rw [h]; exact CoRel.starvedR _ _ _
              · rw [h]
                simp only [rbind_ok]
                refine CoRel.of_inp (a := bss'.flatten ++ r) ?_
                have hcongr : mapOutcomes (GF env n ((vl, wt) :: ws') ((vl, fv) :: vs')) ((l, et) :: es') =
                    mapOutcomes (GF env n ws' vs') ((l, et) :: es') :=
                  mapOutcomes_congr _ _ _ (fun p hp => by
                    have hpid : vl.getId < p.1.getId := by
                      simp only [List.mem_cons] at hp
                      rcases hp with rfl | hp
                      · exact hgt'
                      · have := hgt p hp; omega
                    exact GF_drop env n vl wt ws' vl fv vs' p (by omega) (by omega))
                rw [hcongr]
                exact ih ((l, et) :: es') ws' vs' f (by omega) (by simp at hN ⊢; omega) cf sf bss' r (inp s (bss'.flatten ++ r)) acc
                  hes (asc_tail _ _ hws) hcr h2 (inp_input s _) (inp_unmetered s _ hu) (fun p hp => hokw p (by simp [hp]))
                  hoke (inp_small s b _ hsm hin)

/-- the record branch of `deserialize_any` -/
def recCase (env : Env) (m : Nat) (efs : Fields) (w' : Ty) (s1 : St) : R Val :=
  match w' with
  | .record wfs =>
    deFields env .idl m (mergeFields (efs.toList.length + wfs.toList.length + 1) efs.toList wfs.toList) s1 []
  | _ => subErr s1

/-- the expected type is a record -/
theorem tr_record (env : Env) (m : Nat) (hT : ∀ k < m, TR env k) (n : Nat) (w w' e : Ty) (efs : Fields) (v : Val) (cf sf : Nat)
    (bs r : Bytes) (s : St) (hw : traceFull env w = some w') (he : traceFull env e = some (.record efs))
    (hc : canon env (cf + 1) v w' = true) (hs : serVal (sf + 1) v = .ok bs) (hin : s.input = bs ++ r)
    (hu : Unmetered s) (hokw : OKW env w') (hoke : OKE env (.record efs)) (hsm : Small s) :
    CoRel (coerce env false env (n + 1) w e v)
      ((addCost s 1).bind fun _ s1 => recCase env m efs w' s1) s r := by
  unfold coerce
  rw [hw, he]
  simp only []
  rw [addCost_unmetered_ok s hu]
  simp only [rbind_ok]
  cases w' with
  | record wfs =>
    simp only [recCase]
    simp only [canon] at hc
    cases v <;> try (exact Bool.noConfusion hc)
    rename_i vfs
    simp only [serVal] at hs
    obtain ⟨bss, h1, h2⟩ := omap_ok _ _ _ hs
    subst h2
    simp only []
    have hasc_w : strictlyAscending (wfs.toList.map (·.1.getId)) = true := by
      simpa [headOK] using (hokw _ (Reach.refl _)).1
    have hasc_e : strictlyAscending (efs.toList.map (·.1.getId)) = true := by
      simpa [headOK] using hoke _ (Reach.refl _)
    have hnd := asc_nodup _ hasc_w
    rw [mapOutcomes_congr _ (GF env n wfs.toList vfs) efs.toList (fun p _ => by
      simp only [GF, lookupF_eq_lookL wfs _ hnd, nullC]
      cases fieldVal vfs p.1.getId <;> cases lookL wfs.toList p.1.getId <;> simp only [] <;>
        first
          | rfl
          | (cases Sub.traceFull env p.2 with
             | none => rfl
             | some t =>
               cases t with
               | prim q => cases q <;> rfl
               | _ => rfl))]
    have := fields_rel env m hT n (efs.toList.length + wfs.toList.length + 1) efs.toList wfs.toList vfs m (Nat.le_refl _)
      (by omega) cf sf bss r s [] hasc_e hasc_w hc h1 hin hu
      (fun p hp => hokw.step (Reach.field (Reach.refl _) hp)) (fun p hp => hoke.step (Reach.field (Reach.refl _) hp)) hsm
    have hid : (fun fs => Val.record (([] : List (Label × Val)).reverse ++ fs)) = Val.record := by
      funext fs; simp
    rw [hid] at this
    exact this
  | _ =>
    split
    · exfalso
      rename_i h1 h2
      first | exact Ty.noConfusion h2 | exact Ty.noConfusion h1
    · simp only [recCase]; exact CoRel.mkSub s r hu

/-! ## one level of the typed read, and the theorem -/

theorem tr_step (env : Env) (m : Nat) (hT : ∀ k ≤ m, TR env k) : TR env (m + 1) := by
  intro n w e v cf sf bs r s hc hs hin hu hokw hoke hsm
  cases n with
  | zero => exact CoRel.starvedL _ _ _
  | succ n =>
  rw [deAny_succ, unroll_char env m w e s hu]
  cases hte : traceAt env m e with
  | none => exact CoRel.starvedR _ _ _
  | some e' =>
  cases htw : traceAt env m w with
  | none => exact CoRel.starvedR _ _ _
  | some w' =>
  simp only [rbind_ok]
  have hwf := traceAt_full env m w w' htw
  have hef := traceAt_full env m e e' hte
  obtain ⟨cf', hc'⟩ := canon_at_trace env m w w' cf v htw hc
  have hokw' : OKW env w' := hokw.step (reach_traceFull env w w' hwf)
  have hoke' : OKE env e' := hoke.step (reach_traceFull env e e' hef)
  have hhe : headOK e' = true := hoke' e' (Reach.refl _)
  have hhw : headOK w' = true := (hokw' w' (Reach.refl _)).1
  cases cf' with
  | zero => simp [canon] at hc'
  | succ cf' =>
  cases sf with
  | zero => simp [serVal] at hs
  | succ sf =>
  have hTm : TR env m := hT m (Nat.le_refl _)
  cases e' with
  | prim p =>
    cases p with
    | reserved =>
      unfold coerce
      rw [hwf, hef]
      simp only [deAnyBody]
      by_cases hwr : w' = .prim .reserved
      · subst hwr
        simp only [canon] at hc'
        cases v <;> simp only [canonPrim] at hc' <;> try (exact Bool.noConfusion hc')
        simp only [serVal, Outcome.ok.injEq] at hs
        subst hs
        simp only [List.nil_append] at hin
        subst hin
        simp only [ne_eq, not_true_eq_false, if_false, rbind_ok]
        rw [addCost_unmetered_ok s hu]
        have := CoRel.mkOk .reserved s s.input
        rw [inp_self] at this
        exact this
      · simp only [ne_eq, hwr, not_false_eq_true, if_true]
        rcases (skip_all env m).1 w' v (cf' + 1) (sf + 1) bs r s hc' hs hin hu hokw' hsm with h | ⟨x, h⟩
        · rw [h]; exact CoRel.starvedR _ _ _
        · rw [h]
          simp only [rbind_ok]
          rw [addCost_unmetered_ok _ (inp_unmetered s _ hu)]
          exact CoRel.mkOk _ _ _
    | int =>
      unfold coerce
      rw [hwf, hef]
      simp only [deAnyBody]
      by_cases hwi : w' = .prim .int
      · subst hwi
        simp only [canon] at hc'
        cases v <;> simp only [canonPrim] at hc' <;> try (exact Bool.noConfusion hc')
        simp only [serVal, Outcome.ok.injEq] at hs
        subst hs
        simp only []
        rw [bigNum_ok intAs s hu _ r (by rw [hin]; exact intAs_ser _ _)]
        exact CoRel.mkOk _ _ _
      · by_cases hwn : w' = .prim .nat
        · subst hwn
          simp only [canon] at hc'
          cases v <;> simp only [canonPrim] at hc' <;> try (exact Bool.noConfusion hc')
          simp only [serVal, Outcome.ok.injEq] at hs
          subst hs
          simp only []
          rw [bigNum_ok (natAs fun n => Val.int n) s hu _ r (by rw [hin]; exact natAs_ser _ _ _)]
          exact CoRel.mkOk _ _ _
        · split <;> first
            | exact absurd rfl hwi
            | exact absurd rfl hwn
            | (split <;> first
                | exact absurd rfl hwi
                | exact absurd rfl hwn
                | exact CoRel.mkSub s r hu)
    | empty =>
      unfold coerce
      rw [hwf, hef]
      simp only [deAnyBody]
      have hwe : w' ≠ .prim .empty := by
        intro h; subst h
        rw [canon_empty_false] at hc'; exact Bool.noConfusion hc'
      simp only [hwe, if_false]
      exact CoRel.mkSub s r hu
    | nat =>
      unfold coerce
      rw [hwf, hef]
      simp only [deAnyBody]
      by_cases hwn : w' = .prim .nat
      · subst hwn
        simp only [canon] at hc'
        cases v <;> simp only [canonPrim] at hc' <;> try (exact Bool.noConfusion hc')
        simp only [serVal, Outcome.ok.injEq] at hs
        subst hs
        simp only [if_true]
        rw [bigNum_ok _ s hu _ r (by rw [hin]; exact natAs_ser _ _ _)]
        exact CoRel.mkOk _ _ _
      · simp only [hwn, if_false]
        exact CoRel.mkSub s r hu
    | text =>
      unfold coerce
      rw [hwf, hef]
      simp only [deAnyBody]
      by_cases hwt : w' = .prim .text
      · subst hwt
        simp only [canon] at hc'
        simp only [if_true]
        exact CoRel.of_eq (text_ser s v (sf + 1) bs r hc' hs hu hin)
      · simp only [hwt, if_false]
        exact CoRel.mkSub s r hu
    | _ =>
      unfold coerce
      rw [hwf, hef]
      simp only [deAnyBody]
      exact tr_prim_exact env _ _ w' v cf' (sf + 1) bs r s hc' hs hin hu
  | principal =>
    unfold coerce
    rw [hwf, hef]
    simp only [deAnyBody]
    by_cases hwp : w' = .principal
    · subst hwp
      simp only [canon] at hc'
      cases v <;> try (exact Bool.noConfusion hc')
      rename_i pb
      simp only [decide_eq_true_eq] at hc'
      simp only [serVal, Outcome.ok.injEq] at hs
      subst hs
      rw [principal_ser s pb r hc' hu hin]
      exact CoRel.mkOk _ _ _
    · split <;> first
        | exact absurd rfl hwp
        | (exfalso; simp [headOK] at hhw; done)
        | (split <;> first
            | exact absurd rfl hwp
            | (exfalso; simp [headOK] at hhw; done)
            | exact CoRel.mkSub s r hu)
  | opt e2 =>
    simp only [deAnyBody]
    exact tr_opt env m hT n w w' e e2 v cf' sf bs r s hwf hef hc' hs hin hu hokw' hoke' hsm
  | vec e2 =>
    simp only [deAnyBody]
    exact tr_vec env m hTm n w w' e e2 v cf' sf bs r s hwf hef hc' hs hin hu hokw' hoke' hsm
  | record efs =>
    simp only [deAnyBody]
    exact tr_record env m (fun k hk => hT k (by omega)) n w w' e efs v cf' sf bs r s hwf hef hc' hs hin hu hokw' hoke' hsm
  | variant efs =>
    simp only [deAnyBody]
    exact tr_variant env m hTm n w w' e efs v cf' sf bs r s hwf hef hc' hs hin hu hokw' hoke' hsm
  | func a b c => simp [headOK] at hhe
  | service ms => simp [headOK] at hhe
  | future => simp [headOK] at hhe
  | knot x => simp [headOK] at hhe
  | unknown => simp [headOK] at hhe
  | cls a t => simp [headOK] at hhe
  | var x => exact absurd rfl (Wire.trace_not_var env _ e (.var x) hef x)

/-- **reading a well-formed value at an expected type is the specification's coercion**, at every pair of budgets -/
theorem typed_read (env : Env) : ∀ (m : Nat), TR env m := by
  intro m
  induction m using Nat.strongRecOn with
  | _ m ih =>
    cases m with
    | zero => intro n w e v cf sf bs r s _ _ _ _ _ _ _; exact CoRel.starvedR _ _ _
    | succ m => exact tr_step env m (fun k hk => ih k (by omega))

/-! ## a decidable way to meet the hypotheses -/

mutual
/-- `P` at the type and at every type written inside it -/
def allTy (P : Ty → Bool) : Ty → Bool
  | .opt t => P (.opt t) && allTy P t
  | .vec t => P (.vec t) && allTy P t
  | .record fs => P (.record fs) && allFields P fs
  | .variant fs => P (.variant fs) && allFields P fs
  | t => P t
def allFields (P : Ty → Bool) : Fields → Bool
  | .nil => true
  | .cons _ t r => allTy P t && allFields P r
end

def allEnv (P : Ty → Bool) (env : Env) : Bool := env.all fun p => allTy P p.2

theorem allTy_head (P : Ty → Bool) (t : Ty) (h : allTy P t = true) : P t = true := by
  cases t <;> simp only [allTy, Bool.and_eq_true] at h <;> first | exact h | exact h.1

theorem allFields_mem (P : Ty → Bool) : ∀ (fs : Fields) (p : Label × Ty), allFields P fs = true → p ∈ fs.toList →
    allTy P p.2 = true
  | .nil, _, _, h => by simp [Fields.toList] at h
  | .cons l t r, p, hs, h => by
    simp only [allFields, Bool.and_eq_true] at hs
    simp only [Fields.toList, List.mem_cons] at h
    rcases h with rfl | h
    · exact hs.1
    · exact allFields_mem P r p hs.2 h

theorem allEnv_find (P : Ty → Bool) : ∀ (env : Env) (x : String) (d : Ty), allEnv P env = true → env.find x = some d →
    allTy P d = true := by
  intro env
  induction env with
  | nil => intro x d _ h; simp [Env.find] at h
  | cons q env ih =>
    intro x d ha h
    obtain ⟨k, t⟩ := q
    simp only [allEnv, List.all_cons, Bool.and_eq_true] at ha
    simp only [Env.find] at h
    split at h
    · simp only [Option.some.injEq] at h; subst h; exact ha.1
    · exact ih x d ha.2 h

/-- what holds of everything written in a type and in the definitions holds of everything within reach -/
theorem reach_all (P : Ty → Bool) (env env0 : Env) (henv : allEnv P env0 = true)
    (hfind : ∀ x d, env.find x = some d → env0.find x = some d) (a t : Ty) (ha : allTy P a = true)
    (h : Reach env a t) : allTy P t = true := by
  induction h with
  | refl => exact ha
  | opt _ ih => have := ih; simp only [allTy, Bool.and_eq_true] at this; exact this.2
  | vec _ ih => have := ih; simp only [allTy, Bool.and_eq_true] at this; exact this.2
  | field _ hp ih =>
    have := ih; simp only [allTy, Bool.and_eq_true] at this
    exact allFields_mem P _ _ this.2 hp
  | case _ hp ih =>
    have := ih; simp only [allTy, Bool.and_eq_true] at this
    exact allFields_mem P _ _ this.2 hp
  | name _ hf _ => exact allEnv_find P env0 _ _ henv (hfind _ _ hf)

theorem oke_of_all (env : Env) (e : Ty) (henv : allEnv headOK env = true) (he : allTy headOK e = true) : OKE env e :=
  fun t ht => allTy_head _ t (reach_all headOK env env henv (fun _ _ h => h) e t he ht)

theorem okw_of_all (env : Env) (w : Ty) (henv : allEnv (fun t => headOK t && unitLit env t) env = true)
    (hw : allTy (fun t => headOK t && unitLit env t) w = true) : OKW env w := by
  intro t ht
  have := allTy_head _ t (reach_all _ env env henv (fun _ _ h => h) w t hw ht)
  simpa using this

/-! ## the argument sequence -/

/-- the argument-level outcomes: the same values with nothing left over, or a failure on both sides (at the top level
no option is left to catch a subtype failure, so the kinds of failure are not told apart) -/
def ArgRel (c : Outcome (List Val)) (d : R (List Val)) : Prop :=
  c = .err .limit ∨ d = .err .limit ∨
  (match c, d with
   | .ok vs', .ok vs'' s1 => vs'' = vs' ∧ s1.input = []
   | .err _, .sub _ _ => True
   | .err _, .err _ => True
   | .panic _, .panic _ => True
   | _, _ => False)

/-- `done()`: the wire arguments the caller did not ask for are skipped -/
theorem drain_skips (env : Env) : ∀ (ws : List Ty) (vs : List Val) (cf sf : Nat) (bss : List Bytes) (r : Bytes) (s : St),
    vs.length = ws.length → (∀ p ∈ vs.zip ws, canon env cf p.1 p.2 = true) → mapOutcomes (serVal sf) vs = .ok bss →
    s.input = bss.flatten ++ r → Unmetered s → (∀ w ∈ ws, OKW env w) → Small s →
    argLoop.drain env ws s = .err .limit ∨ ∃ s', argLoop.drain env ws s = .ok () s' ∧ s'.input = r ∧ Unmetered s' := by
  intro ws
  induction ws with
  | nil =>
    intro vs cf sf bss r s hl _ hm hin hu _ _
    cases vs with
    | cons _ _ => simp at hl
    | nil =>
      simp only [mapOutcomes, Outcome.ok.injEq] at hm
      subst hm
      right
      unfold argLoop.drain
      exact ⟨s, rfl, by simpa using hin, hu⟩
  | cons w ws ih =>
    intro vs cf sf bss r s hl hc hm hin hu hok hsm
    cases vs with
    | nil => simp at hl
    | cons v vs =>
      obtain ⟨b, bss', h1, h2, h3⟩ := mapOutcomes_cons_ok _ v vs bss hm
      subst h3
      simp only [List.flatten_cons, List.append_assoc] at hin
      unfold argLoop.drain
      rcases (skip_all env De.defaultFuel).1 w v cf sf b (bss'.flatten ++ r) { s with untyped := false }
        (hc (v, w) (by simp)) h1 hin hu (hok w (by simp)) hsm with h | ⟨x, h⟩
      · left; rw [h]; rfl
      · rw [h]
        simp only [rbind_ok]
        exact ih vs cf sf bss' r _ (by simpa using hl) (fun p hp => hc p (by simp [hp])) h2 (inp_input _ _)
          (inp_unmetered _ _ hu) (fun w' hw' => hok w' (by simp [hw'])) (inp_small { s with untyped := false } b _ hsm hin)

theorem ArgRel.bind {c : Outcome Val} {d : R Val} {s : St} {r1 : Bytes} (h : CoRel c d s r1)
    (fc : Val → Outcome (List Val)) (fd : Val → St → R (List Val))
    (hk : ∀ v', ArgRel (fc v') (fd v' (inp s r1))) : ArgRel (c.bind fc) (d.bind fd) := by
  rcases h with h | h | h
  · rw [h]; exact Or.inl rfl
  · rw [h]; exact Or.inr (Or.inl rfl)
  · cases c with
    | ok v' =>
      cases d with
      | ok v'' s1 =>
        obtain ⟨e1, e2⟩ := h
        subst e1 e2
        exact hk v''
      | sub _ _ => exact absurd h (by simp)
      | err _ => exact absurd h (by simp)
      | panic _ => exact absurd h (by simp)
    | err k =>
      cases d with
      | ok _ _ => exact absurd h (by simp)
      | sub dq sq => exact Or.inr (Or.inr trivial)
      | err k2 => exact Or.inr (Or.inr trivial)
      | panic _ => exact absurd h (by simp)
    | panic p =>
      cases d with
      | panic q => exact Or.inr (Or.inr trivial)
      | ok _ _ => exact absurd h (by simp)
      | sub _ _ => exact absurd h (by simp)
      | err _ => exact absurd h (by simp)

theorem coerceArgs_nil (env : Env) (n : Nat) (e : Ty) (es : List Ty) :
    coerceArgs env n false env [] [] (e :: es) =
      (nullC env e).bind fun x => (coerceArgs env n false env [] [] es).map (x :: ·) := by
  simp only [coerceArgs, nullC]
  cases traceFull env e with
  | none => rfl
  | some t =>
    cases t with
    | prim q => cases q <;> rfl
    | _ => rfl

theorem omap_map {α β γ : Type} (x : Outcome α) (g : α → β) (h : β → γ) : (x.map g).map h = x.map fun a => h (g a) := by
  cases x <;> rfl

theorem obind_map {α β γ : Type} (x : Outcome α) (g : α → Outcome β) (h : β → γ) :
    (x.bind g).map h = x.bind fun a => (g a).map h := by
  cases x <;> rfl

theorem rev_cons_append' (acc : List Val) (x : Val) :
    (fun vs => (x :: acc).reverse ++ vs) = fun vs => acc.reverse ++ x :: vs := by
  funext vs; simp

/-- **the argument sequence** (`IDLDeserialize`: `get_value_with_type` for each expected type, then `done()`) against
the specification's coercion of an argument sequence: the values the writer produced, one per wire type, nothing
following -/
theorem args_rel (env : Env) (hlen : env.length + 2 ≤ De.defaultFuel) (n : Nat) : ∀ (es ws : List Ty) (vs : List Val)
    (cf sf : Nat) (bss : List Bytes) (s : St) (acc : List Val),
    vs.length = ws.length → (∀ p ∈ vs.zip ws, canon env cf p.1 p.2 = true) → mapOutcomes (serVal sf) vs = .ok bss →
    s.input = bss.flatten → Unmetered s → (∀ w ∈ ws, OKW env w) → (∀ e ∈ es, OKE env e) → Small s →
    ArgRel ((coerceArgs env n false env ws vs es).map (acc.reverse ++ ·)) (argLoop env es ws s acc) := by
  intro es
  induction es with
  | nil =>
    intro ws vs cf sf bss s acc hl hc hm hin hu hokw _ hsm
    unfold argLoop
    simp only [coerceArgs, Outcome.map, List.append_nil]
    rcases drain_skips env ws vs cf sf bss [] s hl hc hm (by simpa using hin) hu hokw hsm with h | ⟨s', h, hi, _⟩
    · rw [h]; exact Or.inr (Or.inl rfl)
    · rw [h]
      simp only [rbind_ok, hi, List.isEmpty_nil, if_true]
      exact Or.inr (Or.inr ⟨rfl, hi⟩)
  | cons e es ih =>
    intro ws vs cf sf bss s acc hl hc hm hin hu hokw hoke hsm
    unfold argLoop
    simp only []
    have hoke1 : OKE env e := hoke e (by simp)
    have hokes : ∀ e' ∈ es, OKE env e' := fun e' he' => hoke e' (by simp [he'])
    have hu1 : Unmetered { s with untyped := true } := hu
    have hsm1 : Small { s with untyped := true } := hsm
    cases htr : env.trace De.defaultFuel e with
    | none =>
      simp only []
      have hnone : traceFull env e = none := by
        cases h : traceFull env e with
        | none => rfl
        | some t =>
          have := trace_ge env _ e t h (De.defaultFuel - (env.length + 2))
          rw [show env.length + 2 + (De.defaultFuel - (env.length + 2)) = De.defaultFuel from by omega, htr] at this
          exact absurd this (by simp)
      cases ws with
      | nil =>
        cases vs with
        | cons _ _ => simp at hl
        | nil =>
          simp only [coerceArgs, hnone, Outcome.map]
          exact Or.inr (Or.inr trivial)
      | cons w ws =>
        cases vs with
        | nil => simp at hl
        | cons v vs =>
          simp only [coerceArgs]
          cases n with
          | zero => exact Or.inl rfl
          | succ n =>
            have : coerce env false env (n + 1) w e v = .err .other := by
              unfold coerce
              rw [hnone]
              cases traceFull env w <;> rfl
            rw [this]
            exact Or.inr (Or.inr trivial)
    | some e' =>
      simp only []
      have hfull := Sub.traceFull_of_trace env _ e e' htr
      have hoke' : OKE env e' := hoke1.step (reach_traceFull env e e' hfull)
      cases ws with
      | nil =>
        cases vs with
        | cons _ _ => simp at hl
        | nil =>
          rw [coerceArgs_nil, nullC_trace env e e' hfull]
          by_cases hopt : isOptLikeTy e' = true
          · simp only [hopt, if_true]
            rw [obind_map]
            refine ArgRel.bind (null_rel env De.defaultFuel (typed_read env _) e' { s with untyped := true } hu1 hoke' hsm1)
              _ _ (fun x => ?_)
            have := ih [] [] cf sf bss (inp { s with untyped := true } ({ s with untyped := true } : St).input) (x :: acc)
              rfl (by simp) hm (by rw [inp_input]; exact hin) hu1 (by simp) hokes (by rw [inp_self]; exact hsm1)
            rw [omap_map]
            rw [rev_cons_append'] at this
            exact this
          · have hno : isOptLikeTy e' = false := by
              cases h : isOptLikeTy e' with
              | true => exact absurd h hopt
              | false => rfl
            have het' : traceFull env e' = some e' := by
              unfold traceFull
              exact Check.trace_nonvar env _ e' (Wire.trace_not_var env _ e e' hfull)
            simp only [hno, Bool.false_eq_true, if_false]
            rw [nullC_not_optlike env e' e' het' hno]
            exact Or.inr (Or.inr trivial)
      | cons w ws =>
        cases vs with
        | nil => simp at hl
        | cons v vs =>
          obtain ⟨b, bss', h1, h2, h3⟩ := mapOutcomes_cons_ok _ v vs bss hm
          subst h3
          simp only [List.flatten_cons] at hin
          have hco : coerceArgs env n false env (w :: ws) (v :: vs) (e :: es) =
              (coerce env false env n w e v).bind fun v' => (coerceArgs env n false env ws vs es).map (v' :: ·) := by
            simp only [coerceArgs]
            cases coerce env false env n w e v <;> rfl
          rw [hco, obind_map, coerce_trace_e env n w e e' v hfull]
          refine ArgRel.bind (typed_read env De.defaultFuel n w e' v cf sf b bss'.flatten { s with untyped := true }
            (hc (v, w) (by simp)) h1 hin hu1 (hokw w (by simp)) hoke' hsm1) _ _ (fun x => ?_)
          have := ih ws vs cf sf bss' (inp { s with untyped := true } bss'.flatten) (x :: acc) (by simpa using hl)
            (fun p hp => hc p (by simp [hp])) h2 (inp_input _ _) hu1 (fun w' hw' => hokw w' (by simp [hw'])) hokes
            (inp_small { s with untyped := true } b _ hsm1 hin)
          rw [omap_map]
          rw [rev_cons_append'] at this
          exact this

/-! ## whole messages -/

theorem serVal_le (n m : Nat) (h : n ≤ m) (v : Val) (bs : Bytes) (hs : serVal n v = .ok bs) : serVal m v = .ok bs := by
  induction h with
  | refl => exact hs
  | step _ ih => exact serVal_mono _ v bs ih

/-- a written message at an expected type sequence: the decoder mirror against the coercion of the arguments -/
theorem message_rel (bs : Bytes) (env : Env) (expected : List Ty) (hd : Header) (body : Bytes) (vs : List Val)
    (cf sf n : Nat) (bss : List Bytes) (hp : parseHeader bs = .ok (hd, body)) (hne : expected.isEmpty = false)
    (hl : vs.length = hd.args.length)
    (hc : ∀ p ∈ vs.zip hd.args, canon (mergeEnv hd.table env expected).1 cf p.1 p.2 = true)
    (hm : mapOutcomes (serVal sf) vs = .ok bss) (hb : body = bss.flatten)
    (hokw : ∀ w ∈ hd.args, OKW (mergeEnv hd.table env expected).1 w)
    (hoke : ∀ e ∈ (mergeEnv hd.table env expected).2, OKE (mergeEnv hd.table env expected).1 e)
    (hlen : (mergeEnv hd.table env expected).1.length + 2 ≤ De.defaultFuel) :
    ArgRel (coerceArgs (mergeEnv hd.table env expected).1 n false (mergeEnv hd.table env expected).1 hd.args vs
        (mergeEnv hd.table env expected).2)
      (decodeWithConfig bs env expected ⟨none, none⟩) := by
  unfold decodeWithConfig
  rw [hp]
  simp only [hne, Bool.false_eq_true, if_false]
  have hu0 : Unmetered ({ input := body, gamma := [], dq := none, sq := none, untyped := false } : St) := ⟨rfl, rfl⟩
  rw [addCost_unmetered_ok _ hu0]
  simp only [rbind_ok]
  have := args_rel (mergeEnv hd.table env expected).1 hlen n (mergeEnv hd.table env expected).2 hd.args vs cf sf bss
    { input := body, gamma := [], dq := none, sq := none, untyped := false } [] hl hc hm hb hu0 hokw hoke trivial
  have hid : (fun (x : List Val) => ([] : List Val).reverse ++ x) = id := by funext x; simp
  rw [hid] at this
  have hmap : ∀ (x : Outcome (List Val)), x.map id = x := by intro x; cases x <;> rfl
  rw [hmap] at this
  exact this

/-- the specification's decoder (`Wire.decodeArgs`: parse the header, read the values with `M⁻¹`, coerce them) on a
written message: it reads back the values and coerces them -/
theorem spec_decode_written (bs : Bytes) (env : Env) (expected : List Ty) (hd : Header) (body : Bytes) (vs : List Val)
    (cf sf : Nat) (bss : List Bytes) (hp : parseHeader bs = .ok (hd, body))
    (hl : vs.length = hd.args.length)
    (hc : ∀ p ∈ vs.zip hd.args, canon (mergeEnv hd.table env expected).1 cf p.1 p.2 = true)
    (hm : mapOutcomes (serVal sf) vs = .ok bss) (hb : body = bss.flatten)
    (hcf : cf ≤ Wire.defaultFuel) (hsf : sf ≤ Wire.defaultFuel) :
    decodeArgs bs env expected false false =
      coerceArgs (mergeEnv hd.table env expected).1 Wire.defaultFuel false (mergeEnv hd.table env expected).1 hd.args vs
        (mergeEnv hd.table env expected).2 := by
  unfold decodeArgs
  rw [hp]
  simp only []
  have hm' : mapOutcomes (serVal Wire.defaultFuel) vs = .ok bss :=
    mapOutcomes_congr_ok _ _ vs bss (fun a _ b hab => serVal_le sf _ hsf a b hab) hm
  have := decArgs_ser (mergeEnv hd.table env expected).1 Wire.defaultFuel hd.args vs bss [] hl
    (fun p hp' => canon_le _ cf _ hcf p.1 p.2 (hc p hp')) hm'
  rw [List.append_nil] at this
  rw [hb, this]
  simp

end Candid.De
