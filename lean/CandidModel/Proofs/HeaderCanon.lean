import CandidModel.Proofs.DeHeader
/- helper lemmas for C03: every header the specification's parser accepts is in the canonical form of the binary
   grammar — only composite entries, references that are primitives or indices below the table length, record and
   variant ids strictly ascending, service methods strictly ascending by name -/
namespace Candid.Wire
open Candid Candid.Leb Candid.Sub

/-- the order conditions of a type-table entry -/
def consSorted : Ty → Prop
  | .record fs | .variant fs => strictlyAscending (fs.toList.map (·.1.getId)) = true
  | .service ms => strictlyAscendingStr (ms.toList.map (·.1)) = true
  | _ => True

theorem ids_of_fields (fs : List (Nat × Ty)) :
    ((Fields.ofList (fs.map fun x => (Label.id x.1, x.2))).toList.map (·.1.getId)) = fs.map (·.1) := by
  rw [toList_ofList_fields, List.map_map]
  apply List.map_congr_left
  intro a _
  rfl

theorem readConsType_sorted (len : Nat) (bs : Bytes) (t : Ty) (r : Bytes) (h : readConsType len bs = .ok (t, r)) :
    consSorted t := by
  unfold readConsType at h
  split at h
  · simp at h
  · split at h
    · obtain ⟨⟨t', r'⟩, _, h2⟩ := outcome_map_ok _ _ _ h
      simp at h2; obtain ⟨rfl, _⟩ := h2; trivial
    · split at h
      · obtain ⟨⟨t', r'⟩, _, h2⟩ := outcome_map_ok _ _ _ h
        simp at h2; obtain ⟨rfl, _⟩ := h2; trivial
      · split at h
        · -- record / variant
          repeat' split at h
          all_goals first
            | (simp at h; done)
            | (simp only [Outcome.ok.injEq, Prod.mk.injEq] at h
               obtain ⟨rfl, _⟩ := h
               rename_i hasc _ _
               simp only [consSorted]
               rw [ids_of_fields]
               exact hasc)
        · split at h
          · -- func
            repeat' split at h
            all_goals first
              | (simp at h; done)
              | (simp only [Outcome.ok.injEq, Prod.mk.injEq] at h
                 obtain ⟨rfl, _⟩ := h
                 trivial)
          · split at h
            · -- service
              repeat' split at h
              all_goals first
                | (simp at h; done)
                | (simp only [Outcome.ok.injEq, Prod.mk.injEq] at h
                   obtain ⟨rfl, _⟩ := h
                   simp only [consSorted, toList_ofList_meths]
                   assumption)
            · -- future
              repeat' split at h
              all_goals first
                | (simp at h; done)
                | (obtain ⟨⟨_, r3⟩, _, h2⟩ := outcome_map_ok _ _ _ h
                   simp at h2; obtain ⟨rfl, _⟩ := h2
                   trivial)

/-- **every accepted header is canonical**: the table as written has exactly the announced number of entries, each
a composite constructor over primitives and indices below that number, with ascending ids / method names; the
argument types are primitives or such indices -/
theorem parseHeader_canonical (bs : Bytes) (h : Header) (body : Bytes) (hp : parseHeader bs = .ok (h, body)) :
    (∀ p ∈ h.rawTable, consOk h.rawTable.length p.2 ∧ consSorted p.2) ∧
    (∀ i, i < h.rawTable.length → (h.rawTable.map (·.1))[i]? = some (tableName i)) ∧
    (∀ a ∈ h.args, idxOk h.rawTable.length a) := by
  unfold parseHeader at hp
  split at hp
  · simp at hp
  · split at hp
    · rename_i n r hn
      split at hp
      · simp at hp
      · split at hp
        · rename_i entries r1 hent
          simp only [] at hp
          split at hp
          · simp at hp
          · split at hp
            · rename_i na r2 hna
              split at hp
              · simp at hp
              · split at hp
                · rename_i args r3 hargs
                  simp only [Outcome.ok.injEq, Prod.mk.injEq] at hp
                  obtain ⟨rfl, _⟩ := hp
                  simp only []
                  obtain ⟨hcons, hlen⟩ := readMany_all (readConsType n) (fun t => consOk n t ∧ consSorted t)
                    (fun bs t r ht => ⟨readConsType_ok n bs t r ht, readConsType_sorted n bs t r ht⟩) _ _ _ _ hent
                  obtain ⟨hidx, _⟩ := readMany_all (readIndexType n) (idxOk n) (readIndexType_ok n) _ _ _ _ hargs
                  have hlen' : (List.map (fun (x : Nat × Ty) => match x with | (i, t) => (tableName i, t))
                      ((List.range n).zip entries) : Env).length = n := by
                    simp [hlen]
                  rw [hlen']
                  refine ⟨?_, ?_, hidx⟩
                  · intro p hp'
                    simp only [List.mem_map] at hp'
                    obtain ⟨⟨i, t⟩, hm, rfl⟩ := hp'
                    exact hcons t (List.of_mem_zip hm).2
                  · intro i hi
                    simp [hlen, hi]
                · simp at hp
                · simp at hp
            · simp at hp
            · simp at hp
        · simp at hp
        · simp at hp
    · simp at hp
    · simp at hp

end Candid.Wire
