import CandidModel.Proofs.Annotate
import CandidModel.Proofs.CoerceSound
/- helper lemmas for C10: annotating a value of the type with the type succeeds and keeps it (a byte vector comes back
   in its `blob` spelling) -/
namespace Candid.Wire
open Candid Candid.Leb Candid.Sub

/-- through the aliases of a named type to its definition -/
theorem canon_var_inv (env : Env) : ∀ (n : Nat) (x : String) (v : Val), canon env n v (.var x) = true →
    ∀ k, n ≤ k → ∃ d m, Sub.recFind env k x = some d ∧ canon env m v d = true ∧ m < n ∧ ∃ y, env.find y = some d := by
  intro n
  induction n with
  | zero => intro x v h; simp [canon] at h
  | succ n ih =>
    intro x v h k hk
    simp only [canon] at h
    cases hf : env.find x with
    | none => rw [hf] at h; exact Bool.noConfusion h
    | some t0 =>
      rw [hf] at h
      obtain ⟨k', rfl⟩ : ∃ k', k = k' + 1 := ⟨k - 1, by omega⟩
      cases t0 with
      | var y =>
        obtain ⟨d, m, h1, h2, h3, h4⟩ := ih y v h k' (by omega)
        exact ⟨d, m, by simp only [Sub.recFind, hf]; exact h1, h2, by omega, h4⟩
      | _ => exact ⟨_, n, by simp only [Sub.recFind, hf], h, by omega, x, hf⟩

theorem find_last_of_labels (c : Val → Ty → Bool) : ∀ (vfs : List (Label × Val)) (fs : List (Label × Ty)),
    canonFieldsWith c vfs fs = true → (fs.map (·.1.getId)).Nodup → ∀ p ∈ fs,
    ∃ x, (vfs.reverse.find? fun q => q.1.getId = p.1.getId) = some (p.1, x) ∧ (p.1, x) ∈ vfs ∧ c x p.2 = true := by
  intro vfs
  induction vfs with
  | nil =>
    intro fs h _ p hp
    cases fs with
    | nil => simp at hp
    | cons _ _ => simp [canonFieldsWith] at h
  | cons q vfs ih =>
    intro fs h hnd p hp
    obtain ⟨l, v⟩ := q
    cases fs with
    | nil => simp [canonFieldsWith] at h
    | cons p0 fs' =>
      obtain ⟨l0, t0⟩ := p0
      simp only [canonFieldsWith, Bool.and_eq_true, decide_eq_true_eq] at h
      obtain ⟨⟨hl, hc0⟩, hrest⟩ := h
      subst hl
      simp only [List.map_cons, List.nodup_cons] at hnd
      simp only [List.mem_cons] at hp
      simp only [List.reverse_cons, List.find?_append]
      rcases hp with rfl | hp
      · -- the head: no later field has this id
        have hnone : (vfs.reverse.find? fun q => q.1.getId = l.getId) = none := by
          apply List.find?_eq_none.mpr
          intro q hq
          simp only [decide_eq_true_eq]
          intro hqid
          have hq' : q ∈ vfs := List.mem_reverse.mp hq
          -- the labels of `vfs` are those of `fs'`
          have hlab : vfs.map (·.1) = fs'.map (·.1) := by
            clear ih hq hq' hqid hnd hc0
            induction vfs generalizing fs' with
            | nil => cases fs' with | nil => rfl | cons _ _ => simp [canonFieldsWith] at hrest
            | cons a vfs ih2 =>
              obtain ⟨la, va⟩ := a
              cases fs' with
              | nil => simp [canonFieldsWith] at hrest
              | cons b fs'' =>
                obtain ⟨lb, tb⟩ := b
                simp only [canonFieldsWith, Bool.and_eq_true, decide_eq_true_eq] at hrest
                simp only [List.map_cons, hrest.1.1, ih2 fs'' hrest.2]
          have : q.1 ∈ fs'.map (·.1) := by rw [← hlab]; exact List.mem_map.mpr ⟨q, hq', rfl⟩
          obtain ⟨r, hr, hr1⟩ := List.mem_map.mp this
          exact hnd.1 (List.mem_map.mpr ⟨r, hr, by rw [hr1, hqid]⟩)
        rw [hnone]
        simp only [Option.none_or, List.find?_cons, decide_true, List.find?_nil]
        exact ⟨v, rfl, by simp, hc0⟩
      · obtain ⟨x, h1, h2, h3⟩ := ih fs' hrest hnd.2 p hp
        rw [h1]
        exact ⟨x, rfl, by simp [h2], h3⟩

theorem zipIdx_find (L : List (Label × Ty)) : ∀ (k i : Nat) (p : Label × Ty), L[i]? = some p → (L.map (·.1.getId)).Nodup →
    (L.zipIdx k).find? (fun q => q.1.1.getId = p.1.getId) = some (p, k + i) := by
  induction L with
  | nil => intro k i p h; simp at h
  | cons a L ih =>
    intro k i p h hnd
    simp only [List.map_cons, List.nodup_cons] at hnd
    cases i with
    | zero =>
      simp only [List.getElem?_cons_zero, Option.some.injEq] at h
      subst h
      simp [List.zipIdx_cons]
    | succ i =>
      simp only [List.getElem?_cons_succ] at h
      have hmem : p ∈ L := List.mem_of_getElem? h
      have hne : ¬ (a.1.getId = p.1.getId) := by
        intro he
        exact hnd.1 (List.mem_map.mpr ⟨p, hmem, he.symm⟩)
      simp only [List.zipIdx_cons, List.find?_cons, hne, decide_false]
      rw [ih (k + 1) i p h hnd.2]
      congr 2
      omega

theorem unblob_nat8s (g : Val → Outcome Nat) (hg : ∀ k, g (.nat8 k) = .ok k) : ∀ (vs : List Val) (ns : List Nat),
    (∀ e ∈ vs, canonPrim .nat8 e = true) → mapOutcomes g vs = .ok ns →
    (ns.map Nat.toUInt8).map (fun x => Val.nat8 x.toNat) = vs := by
  intro vs
  induction vs with
  | nil => intro ns _ h; simp only [mapOutcomes, Outcome.ok.injEq] at h; subst h; rfl
  | cons e vs ih =>
    intro ns hc h
    obtain ⟨n, ns', h1, h2, h3⟩ := mapOutcomes_cons_ok _ e vs ns h
    subst h3
    have he := hc e (by simp)
    cases e <;> simp only [canonPrim] at he <;> try (exact Bool.noConfusion he)
    rename_i k
    simp only [decide_eq_true_eq] at he
    rw [hg k] at h1
    simp only [Outcome.ok.injEq] at h1
    subst h1
    have hk : k < 256 := by omega
    simp only [List.map_cons, ih ns' (fun x hx => hc x (by simp [hx])) h2]
    congr 2
    simp [Nat.toUInt8, UInt8.toNat_ofNat', Nat.mod_eq_of_lt hk]

theorem nat8s_total (g : Val → Outcome Nat) (hg : ∀ k, g (.nat8 k) = .ok k) : ∀ (vs : List Val),
    (∀ e ∈ vs, canonPrim .nat8 e = true) → ∃ ns, mapOutcomes g vs = .ok ns := by
  intro vs
  induction vs with
  | nil => intro _; exact ⟨[], rfl⟩
  | cons e vs ih =>
    intro hc
    obtain ⟨ns, hns⟩ := ih (fun x hx => hc x (by simp [hx]))
    have he := hc e (by simp)
    cases e <;> simp only [canonPrim] at he <;> try (exact Bool.noConfusion he)
    rename_i k
    exact ⟨k :: ns, by simp only [mapOutcomes, hg k, hns]⟩

theorem mapOutcomes_exists {α β : Type} (f : α → Outcome β) (g : β → α) : ∀ (l : List α),
    (∀ a ∈ l, ∃ b, f a = .ok b ∧ g b = a) → ∃ bs, mapOutcomes f l = .ok bs ∧ bs.map g = l := by
  intro l
  induction l with
  | nil => intro _; exact ⟨[], rfl, rfl⟩
  | cons a l ih =>
    intro h
    obtain ⟨b, hb, hp⟩ := h a (by simp)
    obtain ⟨bs, hbs, hps⟩ := ih (fun x hx => h x (by simp [hx]))
    exact ⟨b :: bs, by simp only [mapOutcomes, hb, hbs], by simp only [List.map_cons, hp, hps]⟩

theorem annotate_prim_id (fp : Bool) (env : Env) (f : Nat) (p : Prim) (v : Val) (hc : canonPrim p v = true) :
    annotate fp env (f + 1) v (.prim p) = .ok v := by
  cases p <;> cases v <;> simp only [canonPrim] at hc <;> (try (exact Bool.noConfusion hc)) <;> simp [annotate]

theorem labels_eq (c : Val → Ty → Bool) : ∀ (vs : List (Label × Val)) (ws : List (Label × Ty)),
    canonFieldsWith c vs ws = true → vs.map (·.1) = ws.map (·.1) := by
  intro vs
  induction vs with
  | nil => intro ws h; cases ws with | nil => rfl | cons _ _ => simp [canonFieldsWith] at h
  | cons q vs ih =>
    intro ws h
    obtain ⟨l, v⟩ := q
    cases ws with
    | nil => simp [canonFieldsWith] at h
    | cons p ws =>
      obtain ⟨l', t⟩ := p
      simp only [canonFieldsWith, Bool.and_eq_true, decide_eq_true_eq] at h
      simp only [List.map_cons, h.1.1, ih ws h.2]

/-- the fields of a canonical record, annotated one by one in the order of the type, give the record back -/
theorem record_id (c : Val → Ty → Bool) (Q : Label × Ty → Prop) (H : List (Label × Val) → Label × Ty → Outcome (Label × Val))
    (hH : ∀ (vfs : List (Label × Val)) (p : Label × Ty) (x : Val), Q p →
      (vfs.reverse.find? fun q => q.1.getId = p.1.getId) = some (p.1, x) → c x p.2 = true →
      ∃ y, H vfs p = .ok (p.1, y) ∧ unblob y = x)
    (hmono : ∀ (vfs : List (Label × Val)) (q : Label × Val) (p : Label × Ty) (x : Val),
      (vfs.reverse.find? fun r => r.1.getId = p.1.getId) = some (p.1, x) → H (q :: vfs) p = H vfs p) :
    ∀ (vfs : List (Label × Val)) (fs : List (Label × Ty)), canonFieldsWith c vfs fs = true →
      (fs.map (·.1.getId)).Nodup → (∀ p ∈ fs, Q p) → ∃ res, mapOutcomes (H vfs) fs = .ok res ∧ unblobF res = vfs := by
  intro vfs
  induction vfs with
  | nil =>
    intro fs h _ _
    cases fs with
    | nil => exact ⟨[], rfl, rfl⟩
    | cons _ _ => simp [canonFieldsWith] at h
  | cons q vfs ih =>
    intro fs h hnd hQ
    obtain ⟨l, v⟩ := q
    cases fs with
    | nil => simp [canonFieldsWith] at h
    | cons p0 fs' =>
      obtain ⟨l0, t0⟩ := p0
      have h0 := h
      simp only [canonFieldsWith, Bool.and_eq_true, decide_eq_true_eq] at h
      obtain ⟨⟨hl, hc0⟩, hrest⟩ := h
      subst hl
      simp only [List.map_cons, List.nodup_cons] at hnd
      have hlab := labels_eq c vfs fs' hrest
      -- the head is found last
      have hnone : (vfs.reverse.find? fun q => q.1.getId = l.getId) = none := by
        apply List.find?_eq_none.mpr
        intro q hq
        simp only [decide_eq_true_eq]
        intro hqid
        have hq' : q ∈ vfs := List.mem_reverse.mp hq
        have : q.1 ∈ fs'.map (·.1) := by rw [← hlab]; exact List.mem_map.mpr ⟨q, hq', rfl⟩
        obtain ⟨r, hr, hr1⟩ := List.mem_map.mp this
        exact hnd.1 (List.mem_map.mpr ⟨r, hr, by rw [hr1, hqid]⟩)
      have hhead : (((l, v) :: vfs).reverse.find? fun q => q.1.getId = l.getId) = some (l, v) := by
        simp only [List.reverse_cons, List.find?_append, hnone, Option.none_or, List.find?_cons, decide_true]
      obtain ⟨y0, hy0, hu0⟩ := hH ((l, v) :: vfs) (l, t0) v (hQ (l, t0) (by simp)) hhead hc0
      obtain ⟨res, hres, hures⟩ := ih fs' hrest hnd.2 (fun p hp => hQ p (by simp [hp]))
      -- the tail is annotated as in the shorter record
      have htail : mapOutcomes (H ((l, v) :: vfs)) fs' = mapOutcomes (H vfs) fs' := by
        have : ∀ (L : List (Label × Ty)), (∀ p ∈ L, p ∈ fs') → mapOutcomes (H ((l, v) :: vfs)) L = mapOutcomes (H vfs) L := by
          intro L
          induction L with
          | nil => intro _; rfl
          | cons p L ihL =>
            intro hsub
            obtain ⟨x, hx, _, _⟩ := find_last_of_labels c vfs fs' hrest hnd.2 p (hsub p (by simp))
            simp only [mapOutcomes, hmono vfs (l, v) p x hx, ihL (fun r hr => hsub r (by simp [hr]))]
        exact this fs' (fun p hp => hp)
      refine ⟨(l, y0) :: res, ?_, ?_⟩
      · simp only [mapOutcomes, hy0, htail, hres]
      · simp only [unblobF, hu0, hures]

/-- the record clause of `annotate_type`, one expected field -/
def annField (fp : Bool) (env : Env) (fuel : Nat) (vfs : List (Label × Val)) (p : Label × Ty) : Outcome (Label × Val) :=
  let found := (vfs.reverse.find? fun q => q.1.getId = p.1.getId).map (·.2)
  let val : Option Val := match found with
    | some x => some x
    | none => match env.trace fuel p.2 with
      | some (.prim .null) => some .null
      | some (.opt _) => some .none
      | some (.prim .reserved) => some .reserved
      | _ => none
  match val with
  | none => .err .other
  | some x => (annotate fp env fuel x p.2).map fun x' => (p.1, x')

theorem annotate_record (fp : Bool) (env : Env) (f : Nat) (vfs : List (Label × Val)) (fs : Fields) :
    annotate fp env (f + 1) (.record vfs) (.record fs) =
      (mapOutcomes (annField fp env f vfs) fs.toList).map Val.record := by
  unfold annotate
  rfl

/-- **annotating a value of the type with the type succeeds and returns it** (a byte vector in its `blob` spelling):
for every environment and type whose records and variants have distinct field ids, every canonical value of the type
and every budget above the value's nesting -/
theorem annotate_of_canon (env : Env) (hsh : ∀ x d, env.find x = some d → shapeTy d = true) (fp : Bool) :
    ∀ (n : Nat) (v : Val) (t : Ty), canon env n v t = true → shapeTy t = true → ∀ fuel, n < fuel →
      ∃ v', annotate fp env fuel v t = .ok v' ∧ unblob v' = v := by
  intro n
  induction n with
  | zero => intro v t h; simp [canon] at h
  | succ n ih =>
    intro v t hc hs fuel hf
    obtain ⟨f, rfl⟩ : ∃ f, fuel = f + 1 := ⟨fuel - 1, by omega⟩
    have hnf : n < f + 1 := by omega
    cases t with
    | var x =>
      obtain ⟨d, m, h1, h2, h3, y, hy⟩ := canon_var_inv env (n + 1) x v hc f (by omega)
      simp only [annotate, h1]
      cases m with
      | zero => simp [canon] at h2
      | succ m => exact ih v d (canon_le env (m + 1) n (by omega) v d h2) (hsh y d hy) f (by omega)
    | knot k => simp [shapeTy] at hs
    | prim p =>
      simp only [canon] at hc
      exact ⟨v, annotate_prim_id fp env f p v hc, unblob_canonPrim p v hc⟩
    | principal =>
      simp only [canon] at hc
      cases v <;> try (exact Bool.noConfusion hc)
      rename_i pb
      exact ⟨.principal pb, by simp [annotate], rfl⟩
    | service ms =>
      simp only [canon] at hc
      cases v <;> try (exact Bool.noConfusion hc)
      rename_i pb
      exact ⟨.service pb, by simp [annotate], rfl⟩
    | func a b c =>
      simp only [canon] at hc
      cases v <;> try (exact Bool.noConfusion hc)
      rename_i pb mm
      exact ⟨.func pb mm, by simp [annotate], rfl⟩
    | opt t' =>
      simp only [canon] at hc
      have hs' : shapeTy t' = true := by simpa [shapeTy] using hs
      cases v <;> try (exact Bool.noConfusion hc)
      · exact ⟨.none, by simp [annotate], rfl⟩
      · rename_i v'
        cases f with
        | zero => omega
        | succ f' =>
          obtain ⟨x, hx1, hx2⟩ := ih v' t' hc hs' (f' + 1) (by omega)
          refine ⟨.opt x, ?_, by simp [unblob, hx2]⟩
          unfold annotate
          cases fp <;> simp [hx1, Outcome.map]
    | vec t' =>
      simp only [canon] at hc
      have hs' : shapeTy t' = true := by simpa [shapeTy] using hs
      cases v <;> try (exact Bool.noConfusion hc)
      rename_i vs
      simp only [Bool.and_eq_true, decide_eq_true_eq, List.all_eq_true] at hc
      by_cases hb : isBlobTy env (.vec t') = true
      · have htw : traceFull env t' = some (.prim .nat8) := by
          simp only [isBlobTy] at hb
          cases h : traceFull env t' with
          | none => rw [h] at hb; simp at hb
          | some t =>
            rw [h] at hb
            cases t with
            | prim p => cases p <;> first | rfl | exact Bool.noConfusion hb
            | _ => exact Bool.noConfusion hb
        have hcan : ∀ e ∈ vs, canonPrim .nat8 e = true := by
          intro e he
          obtain ⟨k, hk⟩ := canon_trace_inv env _ t' _ n e htw (hc.2 e he)
          cases k with
          | zero => simp [canon] at hk
          | succ k => simpa [canon] using hk
        unfold annotate
        simp only [hb, if_true]
        refine (fun (G : Val → Outcome Nat) (hG : ∀ k, G (.nat8 k) = .ok k) =>
          (?_ : ∃ v', Outcome.map (fun ns => Val.blob (List.map Nat.toUInt8 ns)) (mapOutcomes G vs) = .ok v' ∧
            unblob v' = .vec vs)) _ (fun k => rfl)
        obtain ⟨ns, hns⟩ := nat8s_total G hG vs hcan
        rw [hns]
        exact ⟨.blob (ns.map Nat.toUInt8), rfl, by simp only [unblob, unblob_nat8s G hG vs ns hcan hns]⟩
      · cases f with
        | zero =>
          -- no element fits under this budget: the vector is empty
          cases vs with
          | nil => exact ⟨.vec [], by unfold annotate; simp [hb, mapOutcomes, Outcome.map], rfl⟩
          | cons e es =>
            have := hc.2 e (by simp)
            cases n with
            | zero => simp [canon] at this
            | succ n => omega
        | succ f' =>
          obtain ⟨xs, hxs, hall⟩ := mapOutcomes_exists (fun e => annotate fp env (f' + 1) e t') unblob vs
            (fun e he => ih e t' (hc.2 e he) hs' (f' + 1) (by omega))
          refine ⟨.vec xs, ?_, ?_⟩
          · unfold annotate
            simp only [hb, Bool.false_eq_true, if_false, hxs, Outcome.map]
          · simp only [unblob, unblobL_eq_map, hall]
    | record fs =>
      simp only [canon] at hc
      cases v <;> try (exact Bool.noConfusion hc)
      rename_i vfs
      have hnd : (fs.toList.map (·.1.getId)).Nodup := by
        simp only [shapeTy, Bool.and_eq_true, decide_eq_true_eq] at hs; exact hs.2
      have hsf : ∀ p ∈ fs.toList, shapeTy p.2 = true := by
        intro p hp
        simp only [shapeTy, Bool.and_eq_true] at hs
        exact shapeFields_mem fs p hs.1 hp
      cases f with
      | zero =>
        -- no field fits under this budget: the record is empty
        cases hfl : fs.toList with
        | nil =>
          rw [hfl] at hc
          cases vfs with
          | nil => exact ⟨.record [], by unfold annotate; simp [hfl, mapOutcomes, Outcome.map], rfl⟩
          | cons _ _ => simp [canonFieldsWith] at hc
        | cons p ps =>
          rw [hfl] at hc
          cases vfs with
          | nil => simp [canonFieldsWith] at hc
          | cons q qs =>
            obtain ⟨l, t⟩ := p; obtain ⟨l', x⟩ := q
            simp only [canonFieldsWith, Bool.and_eq_true] at hc
            cases n with
            | zero => simp [canon] at hc
            | succ n => omega
      | succ f' =>
        rw [annotate_record]
        have hH : ∀ (vfs0 : List (Label × Val)) (p : Label × Ty) (x : Val), shapeTy p.2 = true →
            (vfs0.reverse.find? fun q => q.1.getId = p.1.getId) = some (p.1, x) → canon env n x p.2 = true →
            ∃ y, annField fp env (f' + 1) vfs0 p = .ok (p.1, y) ∧ unblob y = x := by
          intro vfs0 p x hsp hfind hcx
          obtain ⟨y, hy1, hy2⟩ := ih x p.2 hcx hsp (f' + 1) (by omega)
          refine ⟨y, ?_, hy2⟩
          simp only [annField, hfind, Option.map_some, hy1, Outcome.map]
        have hmono : ∀ (vfs0 : List (Label × Val)) (q : Label × Val) (p : Label × Ty) (x : Val),
            (vfs0.reverse.find? fun r => r.1.getId = p.1.getId) = some (p.1, x) →
            annField fp env (f' + 1) (q :: vfs0) p = annField fp env (f' + 1) vfs0 p := by
          intro vfs0 q p x hfind
          simp only [annField, List.reverse_cons, List.find?_append, hfind, Option.some_or]
        obtain ⟨res, hres, hures⟩ := record_id (canon env n) (fun p => shapeTy p.2 = true) (annField fp env (f' + 1)) hH hmono
          vfs fs.toList hc hnd hsf
        rw [hres]
        exact ⟨.record res, rfl, by simp only [unblob, hures]⟩
    | variant fs =>
      simp only [canon] at hc
      cases v <;> try (exact Bool.noConfusion hc)
      rename_i l v2 i
      simp only [] at hc
      cases hget : fs.toList[i]? with
      | none => rw [hget] at hc; exact Bool.noConfusion hc
      | some q =>
        obtain ⟨l', t'⟩ := q
        rw [hget] at hc
        simp only [Bool.and_eq_true, decide_eq_true_eq] at hc
        obtain ⟨⟨hl, _⟩, hcv⟩ := hc
        subst hl
        have hnd : (fs.toList.map (·.1.getId)).Nodup := by
          simp only [shapeTy, Bool.and_eq_true, decide_eq_true_eq] at hs; exact hs.2
        have hs' : shapeTy t' = true := by
          simp only [shapeTy, Bool.and_eq_true] at hs
          exact shapeFields_mem fs (l, t') hs.1 (List.mem_of_getElem? hget)
        have hz := zipIdx_find fs.toList 0 i (l, t') hget hnd
        simp only [Nat.zero_add] at hz
        cases f with
        | zero =>
          cases n with
          | zero => simp [canon] at hcv
          | succ n => omega
        | succ f' =>
          obtain ⟨x, hx1, hx2⟩ := ih v2 t' hcv hs' (f' + 1) (by omega)
          refine ⟨.variant l x i, ?_, by simp [unblob, hx2]⟩
          unfold annotate
          simp only [hz, hx1, Outcome.map]
    | _ => simp [canon] at hc

end Candid.Wire
