import CandidModel.Proofs.ValRound
/- helper lemmas for C10: what `annotate_type` returns is a canonical value of the type (labels and variant index
   of the type, numbers within their width), so encoding it and reading it back at the type returns it -/
set_option linter.unnecessarySimpa false
namespace Candid.Wire
open Candid Candid.Leb

mutual
/-- a byte vector written as a vector of `nat8` values (how the reader returns it) -/
def unblob : Val → Val
  | .blob b => .vec (b.map fun x => .nat8 x.toNat)
  | .opt v => .opt (unblob v)
  | .vec vs => .vec (unblobL vs)
  | .record fs => .record (unblobF fs)
  | .variant l v i => .variant l (unblob v) i
  | v => v
def unblobL : List Val → List Val
  | [] => []
  | v :: r => unblob v :: unblobL r
def unblobF : List (Label × Val) → List (Label × Val)
  | [] => []
  | (l, v) :: r => (l, unblob v) :: unblobF r
end

mutual
/-- what the Rust representation guarantees by construction: machine integers within their width, lengths below
`2^63`, principals of at most 29 bytes -/
def wfVal : Val → Bool
  | .nat8 n => decide (n < 2 ^ 8)
  | .nat16 n => decide (n < 2 ^ 16)
  | .nat32 n => decide (n < 2 ^ 32)
  | .nat64 n => decide (n < 2 ^ 64)
  | .int8 i => decide (-(2 : Int) ^ 7 ≤ i ∧ i < (2 : Int) ^ 7)
  | .int16 i => decide (-(2 : Int) ^ 15 ≤ i ∧ i < (2 : Int) ^ 15)
  | .int32 i => decide (-(2 : Int) ^ 31 ≤ i ∧ i < (2 : Int) ^ 31)
  | .int64 i => decide (-(2 : Int) ^ 63 ≤ i ∧ i < (2 : Int) ^ 63)
  | .float32 b => decide (b < 2 ^ 32)
  | .float64 b => decide (b < 2 ^ 64)
  | .text s => decide ((strBytes s).length < 2 ^ 63)
  | .principal b => decide (b.length ≤ 29)
  | .service b => decide (b.length ≤ 29)
  | .func b m => decide (b.length ≤ 29) && decide ((strBytes m).length < 2 ^ 63)
  | .blob b => decide (b.length < 2 ^ 63)
  | .opt v => wfVal v
  | .vec vs => decide (vs.length < 2 ^ 63) && wfVals vs
  | .record fs => wfFields fs
  | .variant _ v _ => wfVal v
  | _ => true
def wfVals : List Val → Bool
  | [] => true
  | v :: r => wfVal v && wfVals r
def wfFields : List (Label × Val) → Bool
  | [] => true
  | (_, v) :: r => wfVal v && wfFields r
end

mutual
/-- variants have fewer than `2^64` alternatives (an index is a `u64` on the wire) -/
def smallTy : Ty → Bool
  | .opt t | .vec t => smallTy t
  | .record fs => smallFields fs
  | .variant fs => decide (fs.toList.length < 2 ^ 64) && smallFields fs
  | _ => true
def smallFields : Fields → Bool
  | .nil => true
  | .cons _ t r => smallTy t && smallFields r
end

def SmallEnv (env : Env) : Prop := ∀ x t, env.find x = some t → smallTy t = true

/-- nesting budget of the canonical form of what `annotate` returns with budget `fuel` -/
def bound (env : Env) (fuel : Nat) : Nat := (fuel + 1) * (fuel + 1) + env.length + 4

theorem annotate_prim (env : Env) (f : Nat) (p : Prim) (v v' : Val) (hw : wfVal v = true)
    (h : annotate true env (f + 1) v (.prim p) = .ok v') : canonPrim p v' = true := by
  cases p <;> cases v <;> simp [annotate] at h
  case nat.number s =>
    cases hp : parseNumber s with
    | none => simp [hp] at h
    | some i =>
      simp only [hp] at h
      split at h
      · simp only [Outcome.ok.injEq] at h
        subst h
        rfl
      · simp at h
  case int.number s =>
    cases hp : parseNumber s with
    | none => simp [hp] at h
    | some i =>
      simp only [hp, Outcome.ok.injEq] at h
      subst h
      simpa [canonPrim, wfVal, hp] using hw
  case nat8.number s =>
    cases hp : parseNumber s with
    | none => simp [hp] at h
    | some i =>
      simp only [hp] at h
      split at h
      · rename_i hr
        simp only [Outcome.ok.injEq] at h
        subst h
        simp only [inRangeU, decide_eq_true_eq] at hr
        simp only [canonPrim, decide_eq_true_eq]
        omega
      · simp at h
  case nat16.number s =>
    cases hp : parseNumber s with
    | none => simp [hp] at h
    | some i =>
      simp only [hp] at h
      split at h
      · rename_i hr
        simp only [Outcome.ok.injEq] at h
        subst h
        simp only [inRangeU, decide_eq_true_eq] at hr
        simp only [canonPrim, decide_eq_true_eq]
        omega
      · simp at h
  case nat32.number s =>
    cases hp : parseNumber s with
    | none => simp [hp] at h
    | some i =>
      simp only [hp] at h
      split at h
      · rename_i hr
        simp only [Outcome.ok.injEq] at h
        subst h
        simp only [inRangeU, decide_eq_true_eq] at hr
        simp only [canonPrim, decide_eq_true_eq]
        omega
      · simp at h
  case nat64.number s =>
    cases hp : parseNumber s with
    | none => simp [hp] at h
    | some i =>
      simp only [hp] at h
      split at h
      · rename_i hr
        simp only [Outcome.ok.injEq] at h
        subst h
        simp only [inRangeU, decide_eq_true_eq] at hr
        simp only [canonPrim, decide_eq_true_eq]
        omega
      · simp at h
  case int8.number s =>
    cases hp : parseNumber s with
    | none => simp [hp] at h
    | some i =>
      simp only [hp] at h
      split at h
      · rename_i hr
        simp only [Outcome.ok.injEq] at h
        subst h
        simp only [inRangeS, decide_eq_true_eq] at hr
        simp only [canonPrim, decide_eq_true_eq]
        omega
      · simp at h
  case int16.number s =>
    cases hp : parseNumber s with
    | none => simp [hp] at h
    | some i =>
      simp only [hp] at h
      split at h
      · rename_i hr
        simp only [Outcome.ok.injEq] at h
        subst h
        simp only [inRangeS, decide_eq_true_eq] at hr
        simp only [canonPrim, decide_eq_true_eq]
        omega
      · simp at h
  case int32.number s =>
    cases hp : parseNumber s with
    | none => simp [hp] at h
    | some i =>
      simp only [hp] at h
      split at h
      · rename_i hr
        simp only [Outcome.ok.injEq] at h
        subst h
        simp only [inRangeS, decide_eq_true_eq] at hr
        simp only [canonPrim, decide_eq_true_eq]
        omega
      · simp at h
  case int64.number s =>
    cases hp : parseNumber s with
    | none => simp [hp] at h
    | some i =>
      simp only [hp] at h
      split at h
      · rename_i hr
        simp only [Outcome.ok.injEq] at h
        subst h
        simp only [inRangeS, decide_eq_true_eq] at hr
        simp only [canonPrim, decide_eq_true_eq]
        omega
      · simp at h
  all_goals first
    | (subst h; simpa [canonPrim, wfVal] using hw)
    | (simp [isBlobTy] at h)
    | (cases hp : parseNumber _ <;> simp [hp] at h)


theorem canonFieldsWith_mono (c c' : Val → Ty → Bool) (h : ∀ v t, c v t = true → c' v t = true) :
    ∀ (vfs : List (Label × Val)) (tfs : List (Label × Ty)), canonFieldsWith c vfs tfs = true → canonFieldsWith c' vfs tfs = true := by
  intro vfs
  induction vfs with
  | nil => intro tfs hc; cases tfs <;> simp_all [canonFieldsWith]
  | cons p vfs ih =>
    intro tfs hc
    obtain ⟨l, v⟩ := p
    cases tfs with
    | nil => simp [canonFieldsWith] at hc
    | cons q tfs =>
      obtain ⟨l', t⟩ := q
      simp only [canonFieldsWith, Bool.and_eq_true] at hc ⊢
      exact ⟨⟨hc.1.1, h v t hc.1.2⟩, ih tfs hc.2⟩

theorem canon_mono (env : Env) : ∀ (n : Nat) (v : Val) (t : Ty), canon env n v t = true → canon env (n + 1) v t = true := by
  intro n
  induction n with
  | zero => intro v t h; simp [canon] at h
  | succ n ih =>
    intro v t h
    unfold canon at h ⊢
    cases t with
    | prim p => exact h
    | principal => exact h
    | var x =>
      simp only [] at h ⊢
      cases hf : env.find x with
      | none => rw [hf] at h; exact Bool.noConfusion h
      | some t' => rw [hf] at h; simp only [] at h ⊢; exact ih v t' h
    | opt t' =>
      cases v <;> simp only [] at h ⊢ <;> first | exact Bool.noConfusion h | exact ih _ t' h
    | vec t' =>
      cases v <;> simp only [] at h ⊢ <;> try (exact Bool.noConfusion h)
      simp only [Bool.and_eq_true, List.all_eq_true] at h ⊢
      exact ⟨h.1, fun e he => ih e t' (h.2 e he)⟩
    | record tfs =>
      cases v <;> simp only [] at h ⊢ <;> try (exact Bool.noConfusion h)
      exact canonFieldsWith_mono _ _ (fun v t hv => ih v t hv) _ _ h
    | variant tfs =>
      cases v <;> simp only [] at h ⊢ <;> try (exact Bool.noConfusion h)
      rename_i l v' i
      cases hg : tfs.toList[i]? with
      | none => rw [hg] at h; exact Bool.noConfusion h
      | some q =>
        rw [hg] at h
        simp only [Bool.and_eq_true] at h ⊢
        exact ⟨h.1, ih v' q.2 h.2⟩
    | func a r m => exact h
    | service ms => exact h
    | future => exact Bool.noConfusion h
    | knot k => exact Bool.noConfusion h
    | unknown => exact Bool.noConfusion h
    | cls a t => exact Bool.noConfusion h

theorem canon_le (env : Env) (n m : Nat) (hnm : n ≤ m) (v : Val) (t : Ty) (h : canon env n v t = true) :
    canon env m v t = true := by
  induction hnm with
  | refl => exact h
  | step _ ih => exact canon_mono env _ v t ih

/-- through a chain of aliases (`rec_find_type`) -/
theorem canon_recFind (env : Env) : ∀ (k : Nat) (x : String) (t' : Ty) (n : Nat) (v : Val),
    Sub.recFind env k x = some t' → canon env n v t' = true → canon env (n + k) v (.var x) = true := by
  intro k
  induction k with
  | zero => intro x t' n v h; simp [Sub.recFind] at h
  | succ k ih =>
    intro x t' n v h hc
    simp only [Sub.recFind] at h
    have e : n + (k + 1) = (n + k) + 1 := by omega
    rw [e]
    simp only [canon]
    cases hf : env.find x with
    | none => rw [hf] at h; simp at h
    | some d =>
      rw [hf] at h
      simp only []
      cases d with
      | var y => simp only [] at h; exact ih y t' n v h hc
      | _ =>
        simp only [Option.some.injEq] at h
        subst h
        exact canon_le env n (n + k) (by omega) v _ hc

/-- through a chain of aliases (`trace_type`) -/
theorem canon_trace (env : Env) : ∀ (k : Nat) (e t' : Ty) (n : Nat) (v : Val),
    env.trace k e = some t' → canon env n v t' = true → canon env (n + k) v e = true := by
  intro k
  induction k with
  | zero => intro e t' n v h; simp [Env.trace] at h
  | succ k ih =>
    intro e t' n v h hc
    cases e with
    | var x =>
      simp only [Env.trace] at h
      have e1 : n + (k + 1) = (n + k) + 1 := by omega
      rw [e1]
      simp only [canon]
      cases hf : env.find x with
      | none => rw [hf] at h; simp at h
      | some d => rw [hf] at h; simp only [] at h ⊢; exact ih d t' n v h hc
    | _ =>
      simp only [Env.trace, Option.some.injEq] at h
      subst h
      exact canon_le env n _ (by omega) v _ hc


theorem unblobL_eq_map : ∀ vs : List Val, unblobL vs = vs.map unblob
  | [] => rfl
  | v :: r => by simp [unblobL, unblobL_eq_map r]

theorem unblobF_eq_map : ∀ fs : List (Label × Val), unblobF fs = fs.map fun p => (p.1, unblob p.2)
  | [] => rfl
  | (l, v) :: r => by simp [unblobF, unblobF_eq_map r]

theorem wfVals_iff : ∀ vs : List Val, wfVals vs = true ↔ ∀ v ∈ vs, wfVal v = true
  | [] => by simp [wfVals]
  | v :: r => by simp [wfVals, wfVals_iff r]

theorem wfFields_iff : ∀ fs : List (Label × Val), wfFields fs = true ↔ ∀ p ∈ fs, wfVal p.2 = true
  | [] => by simp [wfFields]
  | (l, v) :: r => by simp [wfFields, wfFields_iff r]

theorem smallFields_mem : ∀ (fs : Fields) (p : Label × Ty), smallFields fs = true → p ∈ fs.toList → smallTy p.2 = true
  | .nil, _, _, h => by simp [Fields.toList] at h
  | .cons l t r, p, hs, h => by
    simp only [smallFields, Bool.and_eq_true] at hs
    simp only [Fields.toList, List.mem_cons] at h
    rcases h with rfl | h
    · exact hs.1
    · exact smallFields_mem r p hs.2 h

theorem recFind_def (env : Env) : ∀ (n : Nat) (x : String) (d : Ty), Sub.recFind env n x = some d → ∃ y, env.find y = some d := by
  intro n
  induction n with
  | zero => intro x d h; simp [Sub.recFind] at h
  | succ n ih =>
    intro x d h
    simp only [Sub.recFind] at h
    cases hf : env.find x with
    | none => simp [hf] at h
    | some t =>
      rw [hf] at h
      cases t with
      | var y => exact ih y d h
      | _ => simp at h; exact ⟨x, by rw [hf, h]⟩

theorem mapOutcomes_length {α β : Type} (f : α → Outcome β) : ∀ (l : List α) (bs : List β),
    mapOutcomes f l = .ok bs → bs.length = l.length := by
  intro l
  induction l with
  | nil => intro bs h; simp only [mapOutcomes, Outcome.ok.injEq] at h; subst h; rfl
  | cons a r ih =>
    intro bs h
    obtain ⟨b, bs', _, h2, h3⟩ := mapOutcomes_cons_ok f a r bs h
    subst h3
    simp [ih bs' h2]

theorem mapOutcomes_forall {α β : Type} (f : α → Outcome β) (P : β → Prop) : ∀ (l : List α) (bs : List β),
    (∀ a ∈ l, ∀ b, f a = .ok b → P b) → mapOutcomes f l = .ok bs → ∀ b ∈ bs, P b := by
  intro l
  induction l with
  | nil => intro bs _ h; simp only [mapOutcomes, Outcome.ok.injEq] at h; subst h; simp
  | cons a r ih =>
    intro bs hP h
    obtain ⟨b, bs', h1, h2, h3⟩ := mapOutcomes_cons_ok f a r bs h
    subst h3
    intro x hx
    simp only [List.mem_cons] at hx
    rcases hx with rfl | hx
    · exact hP a (by simp) _ h1
    · exact ih bs' (fun y hy => hP y (by simp [hy])) h2 x hx

theorem bound_succ (env : Env) (f : Nat) : bound env (f + 1) = bound env f + 2 * f + 3 := by
  simp only [bound, Nat.add_mul, Nat.mul_add]
  omega

theorem bound_pos (env : Env) (f : Nat) : ∃ m, bound env f = m + 1 := ⟨(f + 1) * (f + 1) + env.length + 3, rfl⟩

theorem unblob_canonPrim (p : Prim) (v : Val) (h : canonPrim p v = true) : unblob v = v := by
  cases p <;> cases v <;> simp [canonPrim] at h <;> simp [unblob]

theorem canon_prim_of (env : Env) (n : Nat) (p : Prim) (v : Val) (h : canonPrim p v = true) :
    canon env (n + 1) v (.prim p) = true := by
  simpa [canon] using h

theorem canon_nat8_at (env : Env) (e : Ty) (h : isBlobTy env (.vec e) = true) (x : Nat) (hx : x < 256) (n : Nat)
    (hn : env.length + 3 ≤ n) : canon env n (.nat8 x) e = true := by
  simp only [isBlobTy] at h
  cases ht : Sub.traceFull env e with
  | none => rw [ht] at h; simp at h
  | some t =>
    rw [ht] at h
    have : t = .prim .nat8 := by
      cases t with
      | prim p => cases p <;> first | rfl | exact Bool.noConfusion h
      | _ => exact Bool.noConfusion h
    subst this
    have h1 : canon env 1 (.nat8 x) (.prim .nat8) = true := by simp [canon, canonPrim, hx]
    have h2 := canon_trace env (env.length + 2) e _ 1 (.nat8 x) ht h1
    exact canon_le env _ _ (by omega) _ _ h2

theorem bound_ge (env : Env) (f : Nat) : env.length + 3 ≤ bound env f := by unfold bound; omega

theorem canonFields_of_mapOutcomes (c : Val → Ty → Bool) (g : Label × Ty → Outcome (Label × Val)) :
    ∀ (tfs : List (Label × Ty)) (out : List (Label × Val)),
      (∀ p ∈ tfs, ∀ o, g p = .ok o → o.1 = p.1 ∧ c (unblob o.2) p.2 = true) → mapOutcomes g tfs = .ok out →
      canonFieldsWith c (out.map fun p => (p.1, unblob p.2)) tfs = true := by
  intro tfs
  induction tfs with
  | nil => intro out _ h; simp only [mapOutcomes, Outcome.ok.injEq] at h; subst h; rfl
  | cons p tfs ih =>
    intro out hg h
    obtain ⟨o, out', h1, h2, h3⟩ := mapOutcomes_cons_ok g p tfs out h
    subst h3
    obtain ⟨l, t⟩ := p
    obtain ⟨e1, e2⟩ := hg (l, t) (by simp) o h1
    simp only [List.map_cons, canonFieldsWith, Bool.and_eq_true, decide_eq_true_eq]
    exact ⟨⟨e1, e2⟩, ih out' (fun q hq => hg q (by simp [hq])) h2⟩

/-- **what `annotate_type` returns is canonical at the type** -/
theorem annotate_canon (env : Env) (hse : SmallEnv env) : ∀ (fuel : Nat) (v : Val) (t : Ty) (v' : Val),
    wfVal v = true → smallTy t = true → annotate true env fuel v t = .ok v' →
    canon env (bound env fuel) (unblob v') t = true := by
  intro fuel
  induction fuel with
  | zero => intro v t v' _ _ h; simp [annotate] at h
  | succ f ih =>
    intro v t v' hw hst h
    obtain ⟨m, hm⟩ := bound_pos env f
    have hb : bound env f ≤ bound env (f + 1) := by rw [bound_succ]; omega
    obtain ⟨B, hB, hBle⟩ : ∃ B, bound env (f + 1) = B + 1 ∧ bound env f ≤ B := ⟨bound env f + 2 * f + 2, by rw [bound_succ], by omega⟩
    cases t with
    | var x =>
      simp only [annotate] at h
      cases hr : Sub.recFind env f x with
      | none => rw [hr] at h; simp at h
      | some t' =>
        rw [hr] at h
        simp only [] at h
        obtain ⟨y, hy⟩ := recFind_def env f x t' hr
        have h1 := ih v t' v' hw (hse y t' hy) h
        have h2 := canon_recFind env f x t' _ _ hr h1
        exact canon_le env _ _ (by rw [bound_succ]; omega) _ _ h2
    | knot k => simp [annotate] at h
    | prim p =>
      have h1 := annotate_prim env f p v v' hw h
      rw [unblob_canonPrim p v' h1]
      rw [bound_succ]
      exact canon_prim_of env _ p v' h1
    | principal =>
      cases v <;> simp [annotate, isBlobTy] at h
      subst h; rw [hB]; simpa [canon, unblob, wfVal] using hw
    | opt t' =>
      cases v <;> simp [annotate] at h
      case null => subst h; rw [hB]; simp [canon, unblob]
      case none => subst h; rw [hB]; simp [canon, unblob]
      case reserved => subst h; rw [hB]; simp [canon, unblob]
      case opt w =>
        cases ha : annotate true env f w t' with
        | ok w' =>
          rw [ha] at h
          simp only [Outcome.map, Outcome.ok.injEq] at h
          subst h
          rw [hB]
          simp only [unblob, canon]
          simp only [wfVal] at hw
          simp only [smallTy] at hst
          exact canon_le env _ _ hBle _ _ (ih w t' w' hw hst ha)
        | err k => rw [ha] at h; simp [Outcome.map] at h
        | panic q => rw [ha] at h; simp [Outcome.map] at h
    | vec t' =>
      cases v <;> simp [annotate] at h
      case blob b =>
        split at h
        · rename_i hbl
          simp only [Outcome.ok.injEq] at h
          subst h
          rw [hB]
          simp only [unblob, canon, Bool.and_eq_true, decide_eq_true_eq, List.all_eq_true, List.length_map, List.mem_map]
          refine ⟨by simpa [wfVal] using hw, ?_⟩
          rintro e ⟨x, _, rfl⟩
          exact canon_nat8_at env t' hbl _ x.toNat_lt B (by have := bound_ge env f; omega)
        · simp at h
      case vec vs =>
        simp only [wfVal, Bool.and_eq_true, decide_eq_true_eq] at hw
        split at h
        · rename_i hbl
          generalize hg : (fun (e : Val) => match e with
            | Val.nat8 n => (Outcome.ok n : Outcome Nat)
            | Val.number s =>
              match parseNumber s with
              | some i => if inRangeU 8 i = true then Outcome.ok i.toNat else Outcome.err ErrKind.other
              | none => Outcome.err ErrKind.other
            | x => Outcome.err ErrKind.other) = g at h
          cases hmo : mapOutcomes g vs with
          | ok ns =>
            rw [hmo] at h
            simp only [Outcome.map, Outcome.ok.injEq] at h
            subst h
            rw [hB]
            simp only [unblob, canon, Bool.and_eq_true, decide_eq_true_eq, List.all_eq_true, List.length_map, List.mem_map]
            refine ⟨by rw [mapOutcomes_length g vs ns hmo]; exact hw.1, ?_⟩
            rintro e ⟨x, _, rfl⟩
            exact canon_nat8_at env t' hbl _ x.toNat_lt B (by have := bound_ge env f; omega)
          | err k => rw [hmo] at h; simp [Outcome.map] at h
          | panic q => rw [hmo] at h; simp [Outcome.map] at h
        · cases hmo : mapOutcomes (fun e => annotate true env f e t') vs with
          | ok out =>
            rw [hmo] at h
            simp only [Outcome.map, Outcome.ok.injEq] at h
            subst h
            rw [hB]
            simp only [unblob, unblobL_eq_map, canon, Bool.and_eq_true, decide_eq_true_eq, List.all_eq_true,
              List.length_map, List.mem_map]
            refine ⟨by rw [mapOutcomes_length _ vs out hmo]; exact hw.1, ?_⟩
            rintro e ⟨o, ho, rfl⟩
            simp only [smallTy] at hst
            have := mapOutcomes_forall (fun e => annotate true env f e t') (fun o => canon env (bound env f) (unblob o) t' = true)
              vs out (fun a ha b hab => ih a t' b ((wfVals_iff vs).mp hw.2 a ha) hst hab) hmo o ho
            exact canon_le env _ _ hBle _ _ this
          | err k => rw [hmo] at h; simp [Outcome.map] at h
          | panic q => rw [hmo] at h; simp [Outcome.map] at h
    | record tfs =>
      cases v <;> simp [annotate, isBlobTy] at h
      case record vfs =>
        simp only [wfVal] at hw
        simp only [smallTy] at hst
        generalize hg : (fun (p : Label × Ty) =>
          match
            match
              Option.map (fun x => x.snd) (List.find? (fun q => decide (q.fst.getId = p.fst.getId)) vfs.reverse) with
            | some x => some x
            | none =>
              match env.trace f p.snd with
              | some (Ty.prim Prim.null) => some Val.null
              | some (Ty.opt t) => some Val.none
              | some (Ty.prim Prim.reserved) => some Val.reserved
              | x => none with
          | none => Outcome.err ErrKind.other
          | some x => Outcome.map (fun x' => (p.fst, x')) (annotate true env f x p.snd)) = g at h
        cases hmo : mapOutcomes g tfs.toList with
        | ok out =>
          rw [hmo] at h
          simp only [Outcome.map, Outcome.ok.injEq] at h
          subst h
          rw [hB]
          simp only [unblob, unblobF_eq_map, canon]
          apply canonFields_of_mapOutcomes (canon env B) g tfs.toList out _ hmo
          intro p hp o hgo
          subst hg
          simp only [] at hgo
          split at hgo
          · simp at hgo
          · rename_i x hx
            have hwx : wfVal x = true := by
              split at hx
              · rename_i x' hfound
                simp only [Option.some.injEq] at hx
                subst hx
                simp only [Option.map_eq_some_iff] at hfound
                obtain ⟨q, hq, rfl⟩ := hfound
                have := List.mem_of_find?_eq_some hq
                exact (wfFields_iff vfs).mp hw q (by simpa using this)
              · split at hx <;> simp at hx <;> subst hx <;> rfl
            cases ha : annotate true env f x p.2 with
            | ok x' =>
              rw [ha] at hgo
              simp only [Outcome.map, Outcome.ok.injEq] at hgo
              subst hgo
              exact ⟨rfl, canon_le env _ _ hBle _ _ (ih x p.2 x' hwx (smallFields_mem tfs p hst hp) ha)⟩
            | err k => rw [ha] at hgo; simp [Outcome.map] at hgo
            | panic q => rw [ha] at hgo; simp [Outcome.map] at hgo
        | err k => rw [hmo] at h; simp [Outcome.map] at h
        | panic q => rw [hmo] at h; simp [Outcome.map] at h
    | variant tfs =>
      cases v <;> simp [annotate, isBlobTy] at h
      case variant l w idx =>
        simp only [wfVal] at hw
        simp only [smallTy, Bool.and_eq_true, decide_eq_true_eq] at hst
        split at h
        · rename_i fl ft i hfind
          have hmem := List.mem_of_find?_eq_some hfind
          have hget : tfs.toList[i]? = some (fl, ft) := List.mk_mem_zipIdx_iff_getElem?.mp hmem
          have hi : i < tfs.toList.length := by
            have := List.getElem?_eq_some_iff.mp hget
            exact this.1
          cases ha : annotate true env f w ft with
          | ok x =>
            rw [ha] at h
            simp only [Outcome.map, Outcome.ok.injEq] at h
            subst h
            rw [hB]
            simp only [unblob, canon, hget, Bool.and_eq_true, decide_eq_true_eq]
            have hft : smallTy ft = true := smallFields_mem tfs (fl, ft) hst.2 (List.mem_of_getElem? hget)
            exact ⟨⟨trivial, by omega⟩, canon_le env _ _ hBle _ _ (ih w ft x hw hft ha)⟩
          | err k => rw [ha] at h; simp [Outcome.map] at h
          | panic q => rw [ha] at h; simp [Outcome.map] at h
        · simp at h
    | func a r m =>
      cases v <;> simp [annotate, isBlobTy] at h
      subst h; rw [hB]; simpa [canon, unblob, wfVal] using hw
    | service ms =>
      cases v <;> simp [annotate, isBlobTy] at h
      subst h; rw [hB]; simpa [canon, unblob, wfVal] using hw
    | future => cases v <;> simp [annotate, isBlobTy] at h
    | unknown => cases v <;> simp [annotate, isBlobTy] at h
    | cls a t => cases v <;> simp [annotate, isBlobTy] at h


theorem serBytes_as_nat8 (n : Nat) : ∀ b : Bytes,
    mapOutcomes (serVal (n + 1)) (b.map fun x => Val.nat8 x.toNat) = .ok (b.map fun x => [x]) := by
  intro b
  induction b with
  | nil => rfl
  | cons x r ih =>
    simp only [List.map_cons, mapOutcomes, ih]
    have : serVal (n + 1) (.nat8 x.toNat) = .ok [x] := by
      simp [serVal, leBytes]
    rw [this]

theorem flatten_singletons : ∀ b : Bytes, (b.map fun x => [x]).flatten = b
  | [] => rfl
  | x :: r => by simp [flatten_singletons r]

/-- a byte vector and the vector of its `nat8` elements are written identically -/
theorem serVal_unblob : ∀ (n : Nat) (v : Val) (bs : Bytes), serVal n v = .ok bs → serVal (n + 1) (unblob v) = .ok bs := by
  intro n
  induction n with
  | zero => intro v bs h; simp [serVal] at h
  | succ n ih =>
    intro v bs h
    cases v with
    | blob b =>
      simp only [serVal, Outcome.ok.injEq] at h
      subst h
      have e : serVal (n + 1 + 1) (.vec (b.map fun x => Val.nat8 x.toNat)) =
          (mapOutcomes (serVal (n + 1)) (b.map fun x => Val.nat8 x.toNat)).map fun bs =>
            uleb (b.map fun x => Val.nat8 x.toNat).length ++ bs.flatten := rfl
      simp only [unblob]
      rw [e, serBytes_as_nat8]
      simp [Outcome.map, flatten_singletons]
    | opt v' =>
      have e1 : serVal (n + 1) (.opt v') = (serVal n v').map fun b => 1 :: b := rfl
      have e2 : serVal (n + 1 + 1) (.opt (unblob v')) = (serVal (n + 1) (unblob v')).map fun b => 1 :: b := rfl
      rw [e1] at h
      simp only [unblob]
      rw [e2]
      cases hv : serVal n v' with
      | ok b => rw [hv] at h; rw [ih v' b hv]; exact h
      | err k => rw [hv] at h; simp [Outcome.map] at h
      | panic p => rw [hv] at h; simp [Outcome.map] at h
    | variant l v' i =>
      have e1 : serVal (n + 1) (.variant l v' i) = (serVal n v').map fun b => uleb i ++ b := rfl
      have e2 : serVal (n + 1 + 1) (.variant l (unblob v') i) = (serVal (n + 1) (unblob v')).map fun b => uleb i ++ b := rfl
      rw [e1] at h
      simp only [unblob]
      rw [e2]
      cases hv : serVal n v' with
      | ok b => rw [hv] at h; rw [ih v' b hv]; exact h
      | err k => rw [hv] at h; simp [Outcome.map] at h
      | panic p => rw [hv] at h; simp [Outcome.map] at h
    | vec vs =>
      have e1 : serVal (n + 1) (.vec vs) = (mapOutcomes (serVal n) vs).map fun bs => uleb vs.length ++ bs.flatten := rfl
      have e2 : serVal (n + 1 + 1) (.vec (vs.map unblob)) =
          (mapOutcomes (serVal (n + 1)) (vs.map unblob)).map fun bs => uleb (vs.map unblob).length ++ bs.flatten := rfl
      rw [e1] at h
      simp only [unblob, unblobL_eq_map]
      rw [e2]
      cases hm : mapOutcomes (serVal n) vs with
      | ok bss =>
        rw [hm] at h
        have : mapOutcomes (serVal (n + 1)) (vs.map unblob) = .ok bss := by
          clear h e1 e2
          induction vs generalizing bss with
          | nil => simpa [mapOutcomes] using hm
          | cons a r ihl =>
            obtain ⟨b, bs', h1, h2, h3⟩ := mapOutcomes_cons_ok _ _ _ _ hm
            subst h3
            simp only [List.map_cons, mapOutcomes]
            rw [ih a b h1, ihl bs' h2]
        rw [this]
        simpa using h
      | err k => rw [hm] at h; simp [Outcome.map] at h
      | panic p => rw [hm] at h; simp [Outcome.map] at h
    | record fs =>
      have e1 : serVal (n + 1) (.record fs) = (mapOutcomes (fun (p : Label × Val) => serVal n p.2) fs).map List.flatten := rfl
      have e2 : serVal (n + 1 + 1) (.record (fs.map fun p => (p.1, unblob p.2))) =
          (mapOutcomes (fun (p : Label × Val) => serVal (n + 1) p.2) (fs.map fun p => (p.1, unblob p.2))).map List.flatten := rfl
      rw [e1] at h
      simp only [unblob, unblobF_eq_map]
      rw [e2]
      cases hm : mapOutcomes (fun (p : Label × Val) => serVal n p.2) fs with
      | ok bss =>
        rw [hm] at h
        have : mapOutcomes (fun (p : Label × Val) => serVal (n + 1) p.2) (fs.map fun p => (p.1, unblob p.2)) = .ok bss := by
          clear h e1 e2
          induction fs generalizing bss with
          | nil => simpa [mapOutcomes] using hm
          | cons a r ihl =>
            obtain ⟨b, bs', h1, h2, h3⟩ := mapOutcomes_cons_ok _ _ _ _ hm
            subst h3
            simp only [List.map_cons, mapOutcomes]
            rw [ih a.2 b h1, ihl bs' h2]
        rw [this]
        exact h
      | err k => rw [hm] at h; simp [Outcome.map] at h
      | panic p => rw [hm] at h; simp [Outcome.map] at h
    | _ => simp only [unblob]; exact serVal_mono _ _ _ h

theorem mapOutcomes_ok_mem {α β : Type} (f : α → Outcome β) : ∀ (l : List α) (bs : List β),
    mapOutcomes f l = .ok bs → ∀ a ∈ l, ∃ b, f a = .ok b := by
  intro l
  induction l with
  | nil => intro _ _ a ha; simp at ha
  | cons x r ih =>
    intro bs h a ha
    obtain ⟨b, bs', h1, h2, _⟩ := mapOutcomes_cons_ok f x r bs h
    simp only [List.mem_cons] at ha
    rcases ha with rfl | ha
    · exact ⟨b, h1⟩
    · exact ih bs' h2 a ha

/-- if the vector-of-`nat8` form is written, so is the value itself -/
theorem serVal_of_unblob : ∀ (n : Nat) (v : Val) (bs : Bytes), serVal n (unblob v) = .ok bs → ∃ bs', serVal n v = .ok bs' := by
  intro n
  induction n with
  | zero => intro v bs h; simp [serVal] at h
  | succ n ih =>
    intro v bs h
    cases v with
    | blob b => exact ⟨_, rfl⟩
    | opt v' =>
      simp only [unblob] at h
      have e1 : serVal (n + 1) (.opt (unblob v')) = (serVal n (unblob v')).map fun b => 1 :: b := rfl
      have e2 : serVal (n + 1) (.opt v') = (serVal n v').map fun b => 1 :: b := rfl
      rw [e1] at h; rw [e2]
      cases hv : serVal n (unblob v') with
      | ok b => obtain ⟨b', hb'⟩ := ih v' b hv; rw [hb']; exact ⟨_, rfl⟩
      | err k => rw [hv] at h; simp [Outcome.map] at h
      | panic p => rw [hv] at h; simp [Outcome.map] at h
    | variant l v' i =>
      simp only [unblob] at h
      have e1 : serVal (n + 1) (.variant l (unblob v') i) = (serVal n (unblob v')).map fun b => uleb i ++ b := rfl
      have e2 : serVal (n + 1) (.variant l v' i) = (serVal n v').map fun b => uleb i ++ b := rfl
      rw [e1] at h; rw [e2]
      cases hv : serVal n (unblob v') with
      | ok b => obtain ⟨b', hb'⟩ := ih v' b hv; rw [hb']; exact ⟨_, rfl⟩
      | err k => rw [hv] at h; simp [Outcome.map] at h
      | panic p => rw [hv] at h; simp [Outcome.map] at h
    | vec vs =>
      simp only [unblob, unblobL_eq_map] at h
      have e1 : serVal (n + 1) (.vec (vs.map unblob)) =
          (mapOutcomes (serVal n) (vs.map unblob)).map fun bs => uleb (vs.map unblob).length ++ bs.flatten := rfl
      have e2 : serVal (n + 1) (.vec vs) = (mapOutcomes (serVal n) vs).map fun bs => uleb vs.length ++ bs.flatten := rfl
      rw [e1] at h; rw [e2]
      cases hm : mapOutcomes (serVal n) (vs.map unblob) with
      | ok bss =>
        obtain ⟨bss', hb'⟩ := mapOutcomes_total (serVal n) vs (fun a ha => by
          obtain ⟨b, hb⟩ := mapOutcomes_ok_mem _ _ _ hm (unblob a) (List.mem_map_of_mem ha)
          exact ih a b hb)
        rw [hb']; exact ⟨_, rfl⟩
      | err k => rw [hm] at h; simp [Outcome.map] at h
      | panic p => rw [hm] at h; simp [Outcome.map] at h
    | record fs =>
      simp only [unblob, unblobF_eq_map] at h
      have e1 : serVal (n + 1) (.record (fs.map fun p => (p.1, unblob p.2))) =
          (mapOutcomes (fun (p : Label × Val) => serVal n p.2) (fs.map fun p => (p.1, unblob p.2))).map List.flatten := rfl
      have e2 : serVal (n + 1) (.record fs) = (mapOutcomes (fun (p : Label × Val) => serVal n p.2) fs).map List.flatten := rfl
      rw [e1] at h; rw [e2]
      cases hm : mapOutcomes (fun (p : Label × Val) => serVal n p.2) (fs.map fun p => (p.1, unblob p.2)) with
      | ok bss =>
        obtain ⟨bss', hb'⟩ := mapOutcomes_total (fun (p : Label × Val) => serVal n p.2) fs (fun a ha => by
          obtain ⟨b, hb⟩ := mapOutcomes_ok_mem _ _ _ hm (a.1, unblob a.2) (List.mem_map_of_mem (f := fun p => (p.1, unblob p.2)) ha)
          exact ih a.2 b hb)
        rw [hb']; exact ⟨_, rfl⟩
      | err k => rw [hm] at h; simp [Outcome.map] at h
      | panic p => rw [hm] at h; simp [Outcome.map] at h
    | _ => simp only [unblob] at h; exact ⟨bs, h⟩

/-- **annotate, encode, decode**: whatever `annotate_type` returns for a well-formed value at a type is written by
the encoder, and the specification's reader at that type returns it from those bytes (byte vectors as vectors of
`nat8`), leaving exactly what followed -/
theorem annotate_encode_decode (env : Env) (hse : SmallEnv env) (fuel : Nat) (v : Val) (t : Ty) (v' : Val)
    (hw : wfVal v = true) (hst : smallTy t = true) (h : annotate true env fuel v t = .ok v') :
    (∃ n bs, serVal n v' = .ok bs) ∧
      ∀ n bs r, serVal n v' = .ok bs → decVal env (bound env fuel) t (bs ++ r) = .ok (unblob v', r) := by
  have hc := annotate_canon env hse fuel v t v' hw hst h
  constructor
  · obtain ⟨bs, hb⟩ := serVal_canon env _ _ _ hc
    obtain ⟨bs', hb'⟩ := serVal_of_unblob _ _ _ hb
    exact ⟨_, bs', hb'⟩
  · intro n bs r hs
    exact decVal_ser env _ _ t (n + 1) bs r hc (serVal_unblob n v' bs hs)

end Candid.Wire
