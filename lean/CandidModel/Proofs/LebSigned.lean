import CandidModel.Proofs.Leb
/- helper lemmas for C09: the signed decoders (`Int::decode`, the `i64` fast path of the deserializer) compute the
   two's-complement value of every terminated signed LEB128 string, minimal or padded, of any length -/
namespace Candid.Leb
open Candid Impl

/-- value of the whole string when `small < 2^shift` holds the groups already read and `p` is what follows -/
def sAcc (small shift : Nat) (p : Bytes) : Int :=
  (small : Int) + (2 : Int) ^ shift * (uval p : Int) - (if signBit p then (2 : Int) ^ (shift + 7 * p.length) else 0)

theorem splitLeb_ne_nil (bs p r : Bytes) (h : splitLeb bs = some (p, r)) : p ≠ [] := by
  have := (splitLeb_sound bs p r h).2
  intro e; subst e; exact this

theorem sAcc_cons (small shift : Nat) (b : UInt8) (p : Bytes) (hp : p ≠ []) :
    sAcc (small + (b.toNat % 128) * 2 ^ shift) (shift + 7) p = sAcc small shift (b :: p) := by
  unfold sAcc
  rw [signBit_cons b p hp]
  simp only [uval, List.length_cons]
  have e1 : shift + 7 + 7 * p.length = shift + 7 * (p.length + 1) := by omega
  rw [e1]
  have e2 : (2 : Int) ^ (shift + 7) = 128 * (2 : Int) ^ shift := by rw [Int.pow_add]; omega
  rw [e2]
  push_cast
  generalize (2 : Int) ^ shift = A
  generalize ((uval p : Nat) : Int) = U
  generalize (if signBit p = true then (2 : Int) ^ (shift + 7 * (p.length + 1)) else 0) = S
  rw [Int.mul_add]
  have : A * (128 * U) = 128 * A * U := by rw [← Int.mul_assoc, Int.mul_comm A 128]
  rw [this, Int.mul_comm A]
  omega

theorem allOnes_shl : ∀ s, s ≤ 64 → ((2 ^ 64 - 1) <<< s) % 2 ^ 64 = (2 ^ (64 - s) - 1) <<< s := by decide +kernel
theorem allOnes_val : ∀ s, s ≤ 64 → (2 ^ (64 - s) - 1) * 2 ^ s = 2 ^ 64 - 2 ^ s := by decide +kernel

theorem signBit_last : ∀ p : Bytes, p ≠ [] → signBit p = decide (64 ≤ (p.getLastD 0).toNat % 128) := by
  intro p
  induction p with
  | nil => intro h; exact absurd rfl h
  | cons b t ih =>
    intro _
    cases t with
    | nil => simp [signBit]
    | cons c u =>
      rw [signBit_cons b (c :: u) (by simp), ih (by simp)]
      rfl


theorem toI64_small (x : Nat) (h : x < 2 ^ 63) : toI64 x = (x : Int) := by
  unfold toI64; rw [if_pos h]
theorem toI64_big (x : Nat) (h : 2 ^ 63 ≤ x) : toI64 x = (x : Int) - (2 : Int) ^ 64 := by
  unfold toI64; rw [if_neg (by omega)]

theorem getLastD_append_map (g : List Nat) (p : Bytes) (hp : p ≠ []) :
    (g ++ p.map fun (b : UInt8) => b.toNat % 128).getLastD 0 = (p.getLastD 0).toNat % 128 := by
  obtain ⟨x, hx⟩ : ∃ x, p.getLast? = some x := by
    cases h : p.getLast? with
    | none => exact absurd (List.getLast?_eq_none_iff.mp h) hp
    | some x => exact ⟨x, rfl⟩
  simp [List.getLastD_eq_getLast?, List.getLast?_append, List.getLast?_map, hx]

theorem sAcc_single (small shift : Nat) (b : UInt8) :
    sAcc small shift [b] = (small : Int) + (2 : Int) ^ shift * ((b.toNat % 128 : Nat) : Int) -
      (if 64 ≤ b.toNat % 128 then (2 : Int) ^ (shift + 7) else 0) := by
  unfold sAcc
  have e1 : uval [b] = b.toNat % 128 := by simp [uval]
  have e2 : signBit [b] = decide (64 ≤ b.toNat % 128) := rfl
  rw [e1, e2]
  simp

/-- the big-number finish of `Int::decode` -/
theorem finish_val (small k : Nat) (hs : small < 2 ^ (7 * k)) (b : UInt8) (p : Bytes) (_hp : Terminated (b :: p)) :
    let gs := (groupsOfSmall small (7 * k) ++ [b.toNat % 128]) ++ p.map fun c => c.toNat % 128
    (if gs.getLastD 0 &&& 0x40 ≠ 0 then ((fromRadixLE128 gs : Nat) : Int) - (1 : Int) <<< (7 * gs.length)
      else ((fromRadixLE128 gs : Nat) : Int)) = sAcc small (7 * k) (b :: p) := by
  intro gs
  have hlen : gs.length = k + (p.length + 1) := by simp [gs, groupsOfSmall_length]
  have hval : fromRadixLE128 gs = small + 2 ^ (7 * k) * uval (b :: p) := by
    simp only [gs]
    rw [List.append_assoc, fromRadix_append, fromRadix_groupsOfSmall _ _ hs, groupsOfSmall_length, pow128]
    have : ([b.toNat % 128] ++ p.map fun c => c.toNat % 128) = (b :: p).map fun c => c.toNat % 128 := by simp
    rw [this, fromRadix_map]
  have hlast : (gs.getLastD 0 &&& 0x40 ≠ 0) ↔ signBit (b :: p) = true := by
    have hl : gs.getLastD 0 = ((b :: p).getLastD 0).toNat % 128 := by
      simp only [gs]
      rw [List.append_assoc]
      have : ([b.toNat % 128] ++ p.map fun c => c.toNat % 128) = (b :: p).map fun c => c.toNat % 128 := by simp
      rw [this]
      exact getLastD_append_map _ (b :: p) (by simp)
    rw [hl, signBit_last (b :: p) (by simp)]
    have := and40_byte (((b :: p).getLastD 0).toNat % 128) (by omega)
    rw [this]
    simp
  unfold sAcc
  rw [hval, hlen]
  by_cases hsb : signBit (b :: p) = true
  · rw [if_pos (hlast.mpr hsb), if_pos hsb, Int.shiftLeft_eq]
    simp only [List.length_cons]
    have : 7 * (k + (p.length + 1)) = 7 * k + 7 * (p.length + 1) := by omega
    rw [this]
    push_cast
    omega
  · rw [if_neg (fun h => hsb (hlast.mp h)), if_neg hsb]
    push_cast
    omega

theorem intDecodeLoop_spec : ∀ (bs : Bytes) (small shift k : Nat), shift = 7 * k → small < 2 ^ shift →
    intDecodeLoop small shift bs =
      (match splitLeb bs with
       | none => .err .eof
       | some (p, r) => .ok (sAcc small shift p, r)) := by
  intro bs
  induction bs with
  | nil => intro small shift k _ _; rfl
  | cons b t ih =>
    intro small shift k hk hs
    have hlow : b.toNat &&& 0x7f = b.toNat % 128 := and7f _
    have hlt : b.toNat % 128 < 128 := Nat.mod_lt _ (by omega)
    have h80 : (b.toNat &&& 0x80 = 0) ↔ b.toNat < 128 := and80 b
    have h40 : (b.toNat &&& 0x40 ≠ 0) ↔ 64 ≤ b.toNat % 128 := and40 b
    rw [intDecodeLoop]
    simp only [hlow, Gen.intDecodeGuard]
    by_cases h57 : shift < 57
    · -- the accumulator has room for seven more bits
      simp only [h57, if_true]
      have hfit : (b.toNat % 128) * 2 ^ shift < 2 ^ 64 := by
        have h1 : 2 ^ shift ≤ 2 ^ 56 := Nat.pow_le_pow_right (by omega) (by omega)
        have h2 : (b.toNat % 128) * 2 ^ shift ≤ 127 * 2 ^ 56 := Nat.mul_le_mul (by omega) h1
        omega
      have hs' : small ||| ((b.toNat % 128) <<< shift % 2 ^ 64) = small + (b.toNat % 128) * 2 ^ shift := by
        rw [Nat.shiftLeft_eq, Nat.mod_eq_of_lt hfit, ← Nat.shiftLeft_eq, or_shl _ _ _ hs, Nat.shiftLeft_eq]
      rw [hs']
      have hpow : 2 ^ (shift + 7) = 128 * 2 ^ shift := by rw [Nat.pow_add]; omega
      have hs2 : small + (b.toNat % 128) * 2 ^ shift < 2 ^ (shift + 7) := by
        rw [hpow]
        have : (b.toNat % 128) * 2 ^ shift ≤ 127 * 2 ^ shift := Nat.mul_le_mul_right _ (by omega)
        omega
      by_cases hb : b.toNat < 128
      · rw [if_pos (h80.2 hb), splitLeb_cons_lt _ _ hb]
        simp only []
        have hs63 : shift + 7 < 64 := by omega
        have hle : 2 ^ (shift + 7) ≤ 2 ^ 63 := Nat.pow_le_pow_right (by omega) (by omega)
        congr 2
        rw [sAcc_single]
        by_cases h6 : 64 ≤ b.toNat % 128
        · have hc : shift + 7 < 64 ∧ b.toNat &&& 0x40 ≠ 0 := ⟨hs63, h40.2 h6⟩
          rw [if_pos hc, allOnes_shl _ (by omega), or_shl _ _ _ hs2, allOnes_val _ (by omega)]
          have hp64 : 2 ^ (shift + 7) ≤ 2 ^ 64 := Nat.pow_le_pow_right (by omega) (by omega)
          rw [toI64_big _ (by omega)]
          rw [if_pos h6]
          have eR : (2 : Int) ^ shift * ((b.toNat % 128 : Nat) : Int) = (((b.toNat % 128) * 2 ^ shift : Nat) : Int) := by
            push_cast; rw [Int.mul_comm]
          have eP : (2 : Int) ^ (shift + 7) = ((2 ^ (shift + 7) : Nat) : Int) := by push_cast; rfl
          rw [eR, eP]
          generalize (b.toNat % 128) * 2 ^ shift = M at *
          generalize 2 ^ (shift + 7) = P at *
          omega
        · have hc : ¬ (shift + 7 < 64 ∧ b.toNat &&& 0x40 ≠ 0) := fun h => h6 (h40.1 h.2)
          rw [if_neg hc]
          have hlt6 : small + (b.toNat % 128) * 2 ^ shift < 2 ^ 63 := by
            have : (b.toNat % 128) * 2 ^ shift ≤ 63 * 2 ^ shift := Nat.mul_le_mul_right _ (by omega)
            omega
          rw [toI64_small _ hlt6]
          rw [if_neg h6]
          have eR : (2 : Int) ^ shift * ((b.toNat % 128 : Nat) : Int) = (((b.toNat % 128) * 2 ^ shift : Nat) : Int) := by
            push_cast; rw [Int.mul_comm]
          rw [eR]
          generalize (b.toNat % 128) * 2 ^ shift = M at *
          omega
      · rw [if_neg (fun h => hb (h80.1 h)), splitLeb_cons_ge _ _ hb]
        rw [ih _ _ (k + 1) (by omega) hs2]
        cases hsp : splitLeb t with
        | none => rfl
        | some x =>
          obtain ⟨p, r⟩ := x
          simp only []
          rw [sAcc_cons small shift b p (splitLeb_ne_nil t p r hsp)]
    · -- the accumulator is full (shift ≥ 63): only a final byte of all zeros or all ones still fits
      have h63 : 63 ≤ shift := by omega
      simp only [h57, if_false]
      have hg : (b.toNat &&& 0x40 ≠ 0) ↔ (b.toNat % 128 &&& 0x40 ≠ 0) := by
        rw [h40]; have := and40_byte (b.toNat % 128) (by omega); rw [this]; simp
      -- the big-number finish on a final byte
      have hfinish : b.toNat < 128 →
          (Outcome.ok
            (if b.toNat &&& 64 ≠ 0 then
                ((fromRadixLE128 (groupsOfSmall small shift ++ [b.toNat % 128]) : Nat) : Int) -
                  (1 : Int) <<< (7 * (groupsOfSmall small shift ++ [b.toNat % 128]).length)
              else ((fromRadixLE128 (groupsOfSmall small shift ++ [b.toNat % 128]) : Nat) : Int),
              t) : Outcome (Int × Bytes)) = Outcome.ok (sAcc small shift [b], t) := by
        intro hb
        subst hk
        have := finish_val small k hs b [] (by simpa [Terminated] using hb)
        simp only [List.map_nil, List.append_nil] at this
        rw [← this]
        simp only [List.getLastD_eq_getLast?, List.getLast?_append, List.getLast?_singleton,
          Option.some_or, Option.getD_some]
        by_cases hq : b.toNat &&& 0x40 ≠ 0
        · rw [if_pos hq, if_pos (hg.mp hq)]
        · rw [if_neg hq, if_neg (fun h => hq (hg.mpr h))]
      by_cases hb : b.toNat < 128
      · rw [splitLeb_cons_lt _ _ hb]
        simp only [if_pos (h80.2 hb)]
        by_cases h64 : shift < 64
        · have hsh : shift = 63 := by omega
          have hc : shift < 64 ∧ b.toNat &&& 0x80 = 0 := ⟨h64, h80.2 hb⟩
          simp only [if_pos hc]
          by_cases hq : b.toNat &&& 0x40 ≠ 0
          · simp only [if_pos hq]
            by_cases hall : b.toNat % 128 = 127
            · have hdec : decide ((((b.toNat % 128 : Nat) : Int) - 128) >>> (64 - shift - 1) = -1) = true := by
                rw [hsh, hall]; decide
              simp only [hdec, if_true]
              have hnot : ¬ (shift + 7 < 64) := by omega
              simp only [hnot, false_and, if_false]
              subst hsh
              congr 2
              rw [sAcc_single, hall]
              have e : (127 <<< 63) % 2 ^ 64 = 1 <<< 63 := by decide
              rw [e, or_shl _ _ _ hs, toI64_big _ (by omega)]
              simp
              omega
            · have hdec : decide ((((b.toNat % 128 : Nat) : Int) - 128) >>> (64 - shift - 1) = -1) = false := by
                rw [hsh]
                simp only [show 64 - 63 - 1 = 0 by rfl, Int.shiftRight_zero, decide_eq_false_iff_not]
                omega
              simp only [hdec, Bool.false_eq_true, if_false]
              have := hfinish hb
              simp only [if_pos hq] at this
              exact this
          · simp only [if_neg hq]
            by_cases hz : b.toNat % 128 = 0
            · have hdec : decide ((b.toNat % 128) >>> (64 - shift - 1) = 0) = true := by
                rw [hsh, hz]; decide
              simp only [hdec, if_true]
              subst hsh
              congr 2
              rw [sAcc_single, hz]
              simp only [Nat.zero_shiftLeft, Nat.zero_mod, Nat.or_zero]
              rw [toI64_small _ (by simpa using hs)]
              simp
            · have hdec : decide ((b.toNat % 128) >>> (64 - shift - 1) = 0) = false := by
                rw [hsh]
                simp only [show 64 - 63 - 1 = 0 by rfl, Nat.shiftRight_zero, decide_eq_false_iff_not]
                exact hz
              simp only [hdec, Bool.false_eq_true, if_false]
              have := hfinish hb
              simp only [if_neg hq] at this
              exact this
        · have hc : ¬ (shift < 64 ∧ b.toNat &&& 0x80 = 0) := fun h => h64 h.1
          simp only [if_neg hc, Bool.false_eq_true, if_false]
          exact hfinish hb
      · -- a continuation byte: the rest goes through the big-number path
        have hn80 : ¬ (b.toNat &&& 0x80 = 0) := fun h => hb (h80.1 h)
        have hc : ¬ (shift < 64 ∧ b.toNat &&& 0x80 = 0) := fun h => hn80 h.2
        simp only [if_neg hc, Bool.false_eq_true, if_false, if_neg hn80]
        rw [splitLeb_cons_ge _ _ hb, drainGroups_eq]
        subst hk
        cases hsp : splitLeb t with
        | none => rfl
        | some x =>
          obtain ⟨p, r⟩ := x
          simp only [Option.map_some]
          have hterm : Terminated (b :: p) := by
            have hp := (splitLeb_sound t p r hsp).2
            have hne := splitLeb_ne_nil t p r hsp
            rw [terminated_cons b p hne]
            exact ⟨by omega, hp⟩
          have := finish_val small k hs b p hterm
          simp only [] at this
          rw [← this]

/-- `Int::decode` computes exactly the two's-complement value of the terminated prefix and consumes exactly it -/
theorem intDecode_spec (bs : Bytes) :
    intDecode bs = (match specReadInt bs with | none => .err .eof | some x => .ok x) := by
  unfold intDecode specReadInt
  rw [intDecodeLoop_spec bs 0 0 0 rfl (by simp)]
  cases splitLeb bs with
  | none => rfl
  | some x =>
    obtain ⟨p, r⟩ := x
    simp only [Option.map_some, sAcc, sval]
    congr 2
    simp


/-! ### the 64-bit fast paths of the deserializer (`try_read_leb_u64`, `try_read_leb_i64`) and their fallback -/

theorem tryReadLebU64Loop_spec : ∀ (bs : Bytes) (result shift k : Nat), shift = 7 * k → k ≤ 8 → result < 2 ^ shift →
    match tryReadLebU64Loop result shift bs with
    | .ok (some (v, r)) => ∃ p, splitLeb bs = some (p, r) ∧ v = result + 2 ^ shift * uval p
    | .ok none => True
    | .err e => e = .eof ∧ splitLeb bs = none
    | .panic _ => False := by
  intro bs
  induction bs with
  | nil => intro result shift k _ _ _; simp [tryReadLebU64Loop, splitLeb]
  | cons b t ih =>
    intro result shift k hk hk8 hs
    have hlow : b.toNat &&& 0x7f = b.toNat % 128 := and7f _
    have hlt : b.toNat % 128 < 128 := Nat.mod_lt _ (by omega)
    have h80 : (b.toNat &&& 0x80 = 0) ↔ b.toNat < 128 := and80 b
    rw [tryReadLebU64Loop]
    simp only [hlow, Gen.tryReadLebU64Bound]
    have hfit : (b.toNat % 128) * 2 ^ shift < 2 ^ 64 := by
      have h1 : 2 ^ shift ≤ 2 ^ 56 := Nat.pow_le_pow_right (by omega) (by omega)
      have h2 : (b.toNat % 128) * 2 ^ shift ≤ 127 * 2 ^ 56 := Nat.mul_le_mul (by omega) h1
      omega
    have hs' : result ||| ((b.toNat % 128) <<< shift % 2 ^ 64) = result + (b.toNat % 128) * 2 ^ shift := by
      rw [Nat.shiftLeft_eq, Nat.mod_eq_of_lt hfit, ← Nat.shiftLeft_eq, or_shl _ _ _ hs, Nat.shiftLeft_eq]
    rw [hs']
    have hpow : 2 ^ (shift + 7) = 128 * 2 ^ shift := by rw [Nat.pow_add]; omega
    by_cases hb : b.toNat < 128
    · rw [if_pos (h80.2 hb), splitLeb_cons_lt _ _ hb]
      refine ⟨[b], rfl, ?_⟩
      simp only [uval]
      rw [Nat.mul_comm]; simp
    · rw [if_neg (fun h => hb (h80.1 h)), splitLeb_cons_ge _ _ hb]
      by_cases h63 : shift + 7 ≥ 63
      · rw [if_pos h63]; trivial
      · rw [if_neg h63]
        have hs2 : result + (b.toNat % 128) * 2 ^ shift < 2 ^ (shift + 7) := by
          rw [hpow]
          have : (b.toNat % 128) * 2 ^ shift ≤ 127 * 2 ^ shift := Nat.mul_le_mul_right _ (by omega)
          omega
        have := ih (result + (b.toNat % 128) * 2 ^ shift) (shift + 7) (k + 1) (by omega) (by omega) hs2
        cases hx : tryReadLebU64Loop (result + (b.toNat % 128) * 2 ^ shift) (shift + 7) t with
        | ok o =>
          rw [hx] at this
          cases o with
          | none => trivial
          | some vr =>
            obtain ⟨v, r⟩ := vr
            simp only [] at this ⊢
            obtain ⟨p, hp, hv⟩ := this
            refine ⟨b :: p, by rw [hp], ?_⟩
            rw [hv]
            simp only [uval]
            rw [hpow, Nat.mul_add, Nat.mul_comm (2 ^ shift) (b.toNat % 128), Nat.add_assoc]
            congr 1
            congr 1
            rw [← Nat.mul_assoc, Nat.mul_comm 128]
        | err e =>
          rw [hx] at this
          simp only [] at this ⊢
          exact ⟨this.1, by rw [this.2]⟩
        | panic q => rw [hx] at this; exact this

/-- `deserialize_nat` for a typed visitor (fast path, else rewind and `Nat::decode`) computes the specification's value -/
theorem deNat_spec (bs : Bytes) : deNat bs = (match specReadNat bs with | none => .err .eof | some x => .ok x) := by
  unfold deNat
  have h := tryReadLebU64Loop_spec bs 0 0 0 rfl (by omega) (by simp)
  cases hx : tryReadLebU64Loop 0 0 bs with
  | ok o =>
    rw [hx] at h
    cases o with
    | none => simp only []; exact natDecode_spec bs
    | some vr =>
      obtain ⟨v, r⟩ := vr
      simp only [] at h ⊢
      obtain ⟨p, hp, hv⟩ := h
      unfold specReadNat
      rw [hp, hv]
      simp
  | err e =>
    rw [hx] at h
    simp only [] at h ⊢
    unfold specReadNat
    rw [h.1, h.2]
    rfl
  | panic q => rw [hx] at h; exact absurd h (by simp)

theorem tryReadLebI64Loop_spec : ∀ (bs : Bytes) (result shift k : Nat), shift = 7 * k → k ≤ 8 → result < 2 ^ shift →
    match tryReadLebI64Loop result shift bs with
    | .ok (some (v, r)) => ∃ p, splitLeb bs = some (p, r) ∧ v = sAcc result shift p
    | .ok none => True
    | .err e => e = .eof ∧ splitLeb bs = none
    | .panic _ => False := by
  intro bs
  induction bs with
  | nil => intro result shift k _ _ _; simp [tryReadLebI64Loop, splitLeb]
  | cons b t ih =>
    intro result shift k hk hk8 hs
    have hlow : b.toNat &&& 0x7f = b.toNat % 128 := and7f _
    have hlt : b.toNat % 128 < 128 := Nat.mod_lt _ (by omega)
    have h80 : (b.toNat &&& 0x80 = 0) ↔ b.toNat < 128 := and80 b
    have h40 : (b.toNat &&& 0x40 ≠ 0) ↔ 64 ≤ b.toNat % 128 := and40 b
    rw [tryReadLebI64Loop]
    simp only [hlow, Gen.tryReadLebI64Bound]
    have hfit : (b.toNat % 128) * 2 ^ shift < 2 ^ 64 := by
      have h1 : 2 ^ shift ≤ 2 ^ 56 := Nat.pow_le_pow_right (by omega) (by omega)
      have h2 : (b.toNat % 128) * 2 ^ shift ≤ 127 * 2 ^ 56 := Nat.mul_le_mul (by omega) h1
      omega
    have hs' : result ||| ((b.toNat % 128) <<< shift % 2 ^ 64) = result + (b.toNat % 128) * 2 ^ shift := by
      rw [Nat.shiftLeft_eq, Nat.mod_eq_of_lt hfit, ← Nat.shiftLeft_eq, or_shl _ _ _ hs, Nat.shiftLeft_eq]
    rw [hs']
    have hpow : 2 ^ (shift + 7) = 128 * 2 ^ shift := by rw [Nat.pow_add]; omega
    have hs2 : result + (b.toNat % 128) * 2 ^ shift < 2 ^ (shift + 7) := by
      rw [hpow]
      have : (b.toNat % 128) * 2 ^ shift ≤ 127 * 2 ^ shift := Nat.mul_le_mul_right _ (by omega)
      omega
    by_cases hb : b.toNat < 128
    · rw [if_pos (h80.2 hb), splitLeb_cons_lt _ _ hb]
      have h64 : ¬ (shift + 7 ≥ 64) := by omega
      rw [if_neg h64]
      refine ⟨[b], rfl, ?_⟩
      rw [sAcc_single]
      have hle : 2 ^ (shift + 7) ≤ 2 ^ 63 := Nat.pow_le_pow_right (by omega) (by omega)
      have eR : (2 : Int) ^ shift * ((b.toNat % 128 : Nat) : Int) = (((b.toNat % 128) * 2 ^ shift : Nat) : Int) := by
        push_cast; rw [Int.mul_comm]
      have eP : (2 : Int) ^ (shift + 7) = ((2 ^ (shift + 7) : Nat) : Int) := by push_cast; rfl
      by_cases h6 : 64 ≤ b.toNat % 128
      · rw [if_pos (h40.2 h6), allOnes_shl _ (by omega), or_shl _ _ _ hs2, allOnes_val _ (by omega)]
        have hp64 : 2 ^ (shift + 7) ≤ 2 ^ 64 := Nat.pow_le_pow_right (by omega) (by omega)
        rw [toI64_big _ (by omega), if_pos h6, eR, eP]
        generalize (b.toNat % 128) * 2 ^ shift = M at *
        generalize 2 ^ (shift + 7) = P at *
        omega
      · rw [if_neg (fun h => h6 (h40.1 h))]
        have hlt6 : result + (b.toNat % 128) * 2 ^ shift < 2 ^ 63 := by
          have : (b.toNat % 128) * 2 ^ shift ≤ 63 * 2 ^ shift := Nat.mul_le_mul_right _ (by omega)
          omega
        rw [toI64_small _ hlt6, if_neg h6, eR]
        generalize (b.toNat % 128) * 2 ^ shift = M at *
        omega
    · rw [if_neg (fun h => hb (h80.1 h)), splitLeb_cons_ge _ _ hb]
      by_cases h63 : shift + 7 ≥ 63
      · rw [if_pos h63]; trivial
      · rw [if_neg h63]
        have := ih (result + (b.toNat % 128) * 2 ^ shift) (shift + 7) (k + 1) (by omega) (by omega) hs2
        cases hx : tryReadLebI64Loop (result + (b.toNat % 128) * 2 ^ shift) (shift + 7) t with
        | ok o =>
          rw [hx] at this
          cases o with
          | none => trivial
          | some vr =>
            obtain ⟨v, r⟩ := vr
            simp only [] at this ⊢
            obtain ⟨p, hp, hv⟩ := this
            refine ⟨b :: p, by rw [hp], ?_⟩
            rw [hv]
            exact sAcc_cons result shift b p (splitLeb_ne_nil t p r hp)
        | err e =>
          rw [hx] at this
          simp only [] at this ⊢
          exact ⟨this.1, by rw [this.2]⟩
        | panic q => rw [hx] at this; exact this

/-- `deserialize_int` at wire type `int` for a typed visitor computes the specification's value -/
theorem deInt_spec (bs : Bytes) : deInt bs = (match specReadInt bs with | none => .err .eof | some x => .ok x) := by
  unfold deInt
  have h := tryReadLebI64Loop_spec bs 0 0 0 rfl (by omega) (by simp)
  cases hx : tryReadLebI64Loop 0 0 bs with
  | ok o =>
    rw [hx] at h
    cases o with
    | none => simp only []; exact intDecode_spec bs
    | some vr =>
      obtain ⟨v, r⟩ := vr
      simp only [] at h ⊢
      obtain ⟨p, hp, hv⟩ := h
      unfold specReadInt
      rw [hp, hv]
      simp only [Option.map_some, sAcc, sval]
      congr 2
      simp
  | err e =>
    rw [hx] at h
    simp only [] at h ⊢
    unfold specReadInt
    rw [h.1, h.2]
    rfl
  | panic q => rw [hx] at h; exact absurd h (by simp)


/-! ### `leb128.rs::decode_int` (i128): accepts exactly the strings whose value is in range -/

/-- the state update of one group -/
def step128 (result shift : Nat) (hz ho : Bool) (low : Nat) : Nat × Bool × Bool :=
  if shift < 128 then
    let res := result ||| ((low <<< shift) % 2 ^ 128)
    if shift > 121 then
      let beyond := low >>> (128 - shift)
      let width := shift + 7 - 128
      (res, hz && decide (beyond = 0), ho && decide (beyond = (1 <<< width) - 1))
    else (res, hz, ho)
  else (result, hz && decide (low = 0), ho && decide (low = 0x7f))

theorem decodeInt128Loop_cons (result shift : Nat) (hz ho : Bool) (b : UInt8) (r : Bytes) :
    decodeInt128Loop result shift hz ho (b :: r) =
      (let s := step128 result shift hz ho (b.toNat &&& 0x7f)
       let shift' := satAdd7 shift
       if b.toNat &&& 0x80 = 0 then
         let negative := b.toNat &&& 0x40 ≠ 0
         if shift' < 128 then
           let res := if negative then s.1 ||| (((2 ^ 128 - 1) <<< shift') % 2 ^ 128) else s.1
           .ok (toI128 res, r)
         else
           let signSet := s.1 >>> 127 = 1
           let fitsB : Bool := if negative then s.2.2 && decide signSet else s.2.1 && !decide signSet
           if fitsB then .ok (toI128 s.1, r) else .err .overflow
       else decodeInt128Loop s.1 shift' s.2.1 s.2.2 r) := by
  rw [decodeInt128Loop]
  rfl

/-- invariant of `decode_int` after `k` groups whose unsigned value is `U` -/
structure Inv128 (result shift : Nat) (hz ho : Bool) (U k : Nat) : Prop where
  sh : ShiftInv shift k
  lt : U < 2 ^ (7 * k)
  res : result = U % 2 ^ 128
  hz : hz = decide (U < 2 ^ 128)
  ho : ho = decide (7 * k ≤ 128 ∨ U / 2 ^ 128 + 1 = 2 ^ (7 * k - 128))

theorem shl126 : ∀ low, low < 128 → (low <<< 126) % 2 ^ 128 = (low % 4) <<< 126 := by decide +kernel

set_option maxRecDepth 8000 in
theorem step128_inv (result shift : Nat) (hz ho : Bool) (U k low : Nat) (hl : low < 128)
    (inv : Inv128 result shift hz ho U k) :
    Inv128 (step128 result shift hz ho low).1 (satAdd7 shift) (step128 result shift hz ho low).2.1
      (step128 result shift hz ho low).2.2 (U + low * 2 ^ (7 * k)) (k + 1) := by
  obtain ⟨hsh, hlt, hres, hhz, hho⟩ := inv
  have hpk : 2 ^ (7 * (k + 1)) = 128 * 2 ^ (7 * k) := by rw [Nat.mul_add, Nat.pow_add]; simp [Nat.mul_comm]
  have hlt' : U + low * 2 ^ (7 * k) < 2 ^ (7 * (k + 1)) := by
    rw [hpk]
    have : low * 2 ^ (7 * k) ≤ 127 * 2 ^ (7 * k) := Nat.mul_le_mul_right _ (by omega)
    omega
  have hPpos : 0 < 2 ^ 128 := Nat.two_pow_pos 128
  by_cases h128 : shift < 128
  · have hk : shift = 7 * k := by unfold ShiftInv at hsh; omega
    subst hk
    by_cases h121 : 7 * k > 121
    · -- the group that crosses bit 128
      have hk18 : k = 18 := by omega
      subst hk18
      have e126 : 7 * 18 = 126 := rfl
      rw [e126] at hlt hlt' hho h128 h121 ⊢
      have hstep : step128 result 126 hz ho low =
          (result ||| ((low <<< 126) % 2 ^ 128), hz && decide (low >>> 2 = 0), ho && decide (low >>> 2 = 31)) := rfl
      rw [hstep]
      have h4 : (2 : Nat) ^ 128 = 4 * 2 ^ 126 := by rw [show 128 = 2 + 126 from rfl, Nat.pow_add]
      have hshr : low >>> 2 = low / 4 := by rw [Nat.shiftRight_eq_div_pow]
      have hl4 : low = low % 4 + 4 * (low / 4) := by omega
      have hor : result ||| ((low <<< 126) % 2 ^ 128) = U + (low % 4) * 2 ^ 126 := by
        have hU : U % 2 ^ 128 = U := Nat.mod_eq_of_lt (Nat.lt_of_lt_of_le hlt (Nat.pow_le_pow_right (by omega) (by omega)))
        rw [hres, hU, shl126 low hl, or_shl _ _ _ hlt]
      have hdecomp : low * 2 ^ 126 = (low % 4) * 2 ^ 126 + (low / 4) * 2 ^ 128 :=
        calc low * 2 ^ 126 = (low % 4 + 4 * (low / 4)) * 2 ^ 126 := by rw [← hl4]
          _ = (low % 4) * 2 ^ 126 + 4 * (low / 4) * 2 ^ 126 := Nat.add_mul _ _ _
          _ = (low % 4) * 2 ^ 126 + (low / 4) * 2 ^ 128 := by rw [h4, Nat.mul_comm 4 (low / 4), Nat.mul_assoc]
      have hm3 : (low % 4) * 2 ^ 126 ≤ 3 * 2 ^ 126 := Nat.mul_le_mul_right _ (by omega)
      have hUP : U < 2 ^ 128 := Nat.lt_of_lt_of_le hlt (Nat.pow_le_pow_right (by omega) (by omega))
      have e5 : 2 ^ (7 * (18 + 1) - 128) = 32 := rfl
      -- from here on the two powers are opaque: P = 4 Q
      generalize hQ : (2 : Nat) ^ 126 = Q at *
      generalize hP : (2 : Nat) ^ 128 = P at *
      generalize hM : (low % 4) * Q = M at *
      have hsum : U + M < P := by omega
      have hdiv : (U + low * Q) / P = low / 4 := by
        rw [hdecomp, ← Nat.add_assoc, Nat.add_mul_div_right _ _ hPpos, Nat.div_eq_of_lt hsum]
        omega
      have hmod : (U + low * Q) % P = U + M := by
        rw [hdecomp, ← Nat.add_assoc, Nat.add_mul_mod_self_right, Nat.mod_eq_of_lt hsum]
      refine ⟨shiftInv_step (Or.inl rfl), hlt', ?_, ?_, ?_⟩
      · show result ||| ((low <<< 126) % P) = (U + low * Q) % 2 ^ 128
        rw [hP, hor, hmod]
      · show (hz && decide (low >>> 2 = 0)) = decide (U + low * Q < 2 ^ 128)
        rw [hP]
        have h1 : hz = true := by rw [hhz]; simp only [decide_eq_true_eq]; exact hUP
        rw [h1, Bool.true_and, hshr, decide_eq_decide]
        constructor
        · intro h0
          rw [hdecomp, h0]
          omega
        · intro h0
          rcases Nat.eq_zero_or_pos (low / 4) with h | h
          · exact h
          · exfalso
            have : P ≤ (low / 4) * P := Nat.le_mul_of_pos_left _ h
            rw [hdecomp] at h0
            omega
      · show (ho && decide (low >>> 2 = 31)) = decide (7 * (18 + 1) ≤ 128 ∨ (U + low * Q) / 2 ^ 128 + 1 = 2 ^ (7 * (18 + 1) - 128))
        rw [hP, e5]
        have h1 : ho = true := by rw [hho]; simp only [decide_eq_true_eq]; omega
        rw [h1, Bool.true_and, hshr, hdiv, decide_eq_decide]
        omega
    · -- still inside the low 128 bits
      have hstep : step128 result (7 * k) hz ho low = (result ||| ((low <<< (7 * k)) % 2 ^ 128), hz, ho) := by
        unfold step128; rw [if_pos h128, if_neg h121]
      rw [hstep]
      have hp119 : 2 ^ (7 * k) ≤ 2 ^ 119 := Nat.pow_le_pow_right (by omega) (by omega)
      have hU : U % 2 ^ 128 = U := Nat.mod_eq_of_lt (by omega)
      have hfit : low * 2 ^ (7 * k) < 2 ^ 128 := by
        have : low * 2 ^ (7 * k) ≤ 127 * 2 ^ 119 := Nat.mul_le_mul (by omega) hp119
        omega
      have hp126 : 2 ^ (7 * (k + 1)) ≤ 2 ^ 126 := Nat.pow_le_pow_right (by omega) (by omega)
      refine ⟨shiftInv_step (Or.inl rfl), hlt', ?_, ?_, ?_⟩
      · show result ||| ((low <<< (7 * k)) % 2 ^ 128) = (U + low * 2 ^ (7 * k)) % 2 ^ 128
        have hm : (U + low * 2 ^ (7 * k)) % 2 ^ 128 = U + low * 2 ^ (7 * k) := Nat.mod_eq_of_lt (by omega)
        rw [hm, hres, hU, Nat.shiftLeft_eq, Nat.mod_eq_of_lt hfit, ← Nat.shiftLeft_eq, or_shl _ _ _ hlt, Nat.shiftLeft_eq]
      · show hz = decide (U + low * 2 ^ (7 * k) < 2 ^ 128)
        rw [hhz, decide_eq_decide]
        omega
      · show ho = decide (7 * (k + 1) ≤ 128 ∨ (U + low * 2 ^ (7 * k)) / 2 ^ 128 + 1 = 2 ^ (7 * (k + 1) - 128))
        rw [hho, decide_eq_decide]
        omega
  · -- beyond bit 128: the result is complete, only the overflow flags change
    have hk : 128 ≤ 7 * k := by unfold ShiftInv at hsh; omega
    have hk' : 128 < 7 * k := by omega
    have hstep : step128 result shift hz ho low = (result, hz && decide (low = 0), ho && decide (low = 0x7f)) := by
      unfold step128; rw [if_neg h128]
    rw [hstep]
    have hE : 2 ^ (7 * k) = 2 ^ (7 * k - 128) * 2 ^ 128 := by rw [← Nat.pow_add]; congr 1; omega
    have hE1 : 2 ^ (7 * (k + 1) - 128) = 128 * 2 ^ (7 * k - 128) := by
      rw [show 7 * (k + 1) - 128 = 7 + (7 * k - 128) by omega, Nat.pow_add]
    generalize hEdef : 2 ^ (7 * k - 128) = E at *
    have hEpos : 1 ≤ E := by rw [← hEdef]; exact Nat.two_pow_pos _
    have hmul : low * 2 ^ (7 * k) = (low * E) * 2 ^ 128 := by rw [hE, Nat.mul_assoc]
    have hdiv : (U + low * 2 ^ (7 * k)) / 2 ^ 128 = U / 2 ^ 128 + low * E := by
      rw [hmul, Nat.add_mul_div_right _ _ hPpos]
    have hmod : (U + low * 2 ^ (7 * k)) % 2 ^ 128 = U % 2 ^ 128 := by
      rw [hmul, Nat.add_mul_mod_self_right]
    have hH : U / 2 ^ 128 < E := by
      rw [Nat.div_lt_iff_lt_mul hPpos, ← hE]; exact hlt
    refine ⟨shiftInv_step hsh, hlt', ?_, ?_, ?_⟩
    · show result = (U + low * 2 ^ (7 * k)) % 2 ^ 128
      rw [hres, hmod]
    · show (hz && decide (low = 0)) = decide (U + low * 2 ^ (7 * k) < 2 ^ 128)
      rw [hhz]
      rcases Nat.eq_zero_or_pos low with h0 | h0
      · subst h0; simp
      · have hge : 2 ^ 128 ≤ low * 2 ^ (7 * k) := by
          rw [hmul]
          exact Nat.le_mul_of_pos_left _ (Nat.mul_pos h0 hEpos)
        have h1 : decide (low = 0) = false := by rw [decide_eq_false_iff_not]; omega
        have h2 : decide (U + low * 2 ^ (7 * k) < 2 ^ 128) = false := by rw [decide_eq_false_iff_not]; omega
        rw [h1, h2, Bool.and_false]
    · show (ho && decide (low = 0x7f)) =
        decide (7 * (k + 1) ≤ 128 ∨ (U + low * 2 ^ (7 * k)) / 2 ^ 128 + 1 = 2 ^ (7 * (k + 1) - 128))
      rw [hho, hdiv, hE1]
      generalize U / 2 ^ 128 = H at *
      by_cases h127 : low = 127
      · subst h127
        have : decide ((127 : Nat) = 0x7f) = true := by decide
        rw [this, Bool.and_true, decide_eq_decide]
        omega
      · have hle : low * E ≤ 126 * E := Nat.mul_le_mul_right _ (by omega)
        have h3 : decide (low = 0x7f) = false := by rw [decide_eq_false_iff_not]; exact h127
        have h4 : decide (7 * (k + 1) ≤ 128 ∨ H + low * E + 1 = 128 * E) = false := by
          rw [decide_eq_false_iff_not]; omega
        rw [h3, h4, Bool.and_false]


theorem allOnes128_shl : ∀ s, s ≤ 128 → ((2 ^ 128 - 1) <<< s) % 2 ^ 128 = (2 ^ (128 - s) - 1) <<< s := by decide +kernel
theorem allOnes128_val : ∀ s, s ≤ 128 → (2 ^ (128 - s) - 1) * 2 ^ s = 2 ^ 128 - 2 ^ s := by decide +kernel

theorem toI128_small (x : Nat) (h : x < 2 ^ 127) : toI128 x = (x : Int) := by
  unfold toI128; rw [if_pos h]
theorem toI128_big (x : Nat) (h : 2 ^ 127 ≤ x) : toI128 x = (x : Int) - (2 : Int) ^ 128 := by
  unfold toI128; rw [if_neg (by omega)]

theorem cast_mul_pow128 (a : Nat) : ((a * 2 ^ 128 : Nat) : Int) = (a : Int) * (2 : Int) ^ 128 := by
  rw [Int.natCast_mul, Int.natCast_pow]; rfl

set_option maxRecDepth 8000 in
/-- what the final byte does with the accumulated state: accept exactly the values of the `i128` range -/
theorem final128 (R s' : Nat) (hz' ho' : Bool) (U' k' : Nat) (r : Bytes) (inv : Inv128 R s' hz' ho' U' k')
    (neg : Prop) [Decidable neg] :
    (if s' < 128 then
        (Outcome.ok (toI128 (if neg then R ||| (((2 ^ 128 - 1) <<< s') % 2 ^ 128) else R), r) : Outcome (Int × Bytes))
      else if (if neg then ho' && decide (R >>> 127 = 1) else hz' && !decide (R >>> 127 = 1)) = true
        then .ok (toI128 R, r) else .err .overflow) =
      (if -(2 : Int) ^ 127 ≤ (U' : Int) - (if neg then (2 : Int) ^ (7 * k') else 0) ∧
          (U' : Int) - (if neg then (2 : Int) ^ (7 * k') else 0) < (2 : Int) ^ 127
        then .ok ((U' : Int) - (if neg then (2 : Int) ^ (7 * k') else 0), r) else .err .overflow) := by
  obtain ⟨hsh, hlt, hres, hhz, hho⟩ := inv
  have hc : ((2 ^ (7 * k') : Nat) : Int) = (2 : Int) ^ (7 * k') := by simp
  by_cases h128 : s' < 128
  · have hk : s' = 7 * k' := by unfold ShiftInv at hsh; omega
    subst hk
    rw [if_pos h128]
    have hp : 2 ^ (7 * k') ≤ 2 ^ 126 := Nat.pow_le_pow_right (by omega) (by omega)
    have hR : R = U' := by rw [hres]; exact Nat.mod_eq_of_lt (by omega)
    subst hR
    by_cases hn : neg
    · simp only [hn, if_true]
      rw [allOnes128_shl _ (by omega), or_shl _ _ _ hlt, allOnes128_val _ (by omega)]
      have hp128 : 2 ^ (7 * k') ≤ 2 ^ 128 := Nat.pow_le_pow_right (by omega) (by omega)
      rw [toI128_big _ (by omega), ← hc]
      generalize 2 ^ (7 * k') = T at *
      have e : ((R + (2 ^ 128 - T) : Nat) : Int) - (2 : Int) ^ 128 = (R : Int) - (T : Int) := by omega
      rw [e, if_pos (by omega)]
    · simp only [hn, if_false]
      rw [toI128_small _ (by omega)]
      rw [if_pos (by omega)]
      simp
  · have hk : 128 ≤ 7 * k' := by unfold ShiftInv at hsh; omega
    have hk' : 128 < 7 * k' := by omega
    rw [if_neg h128]
    have hPpos : 0 < 2 ^ 128 := Nat.two_pow_pos 128
    have hE : 2 ^ (7 * k') = 2 ^ (7 * k' - 128) * 2 ^ 128 := by rw [← Nat.pow_add]; congr 1; omega
    have hdm : U' = (U' / 2 ^ 128) * 2 ^ 128 + U' % 2 ^ 128 := by
      rw [Nat.mul_comm]; exact (Nat.div_add_mod U' (2 ^ 128)).symm
    have hRlt : U' % 2 ^ 128 < 2 ^ 128 := Nat.mod_lt _ hPpos
    have hH : U' / 2 ^ 128 < 2 ^ (7 * k' - 128) := by
      rw [Nat.div_lt_iff_lt_mul hPpos, ← hE]; exact hlt
    have hsign : (R >>> 127 = 1) ↔ 2 ^ 127 ≤ R := by
      rw [Nat.shiftRight_eq_div_pow, hres]
      constructor
      · intro h
        have := Nat.div_add_mod (U' % 2 ^ 128) (2 ^ 127)
        rw [h] at this
        omega
      · intro h
        have h2 : (U' % 2 ^ 128) / 2 ^ 127 < 2 := by
          rw [Nat.div_lt_iff_lt_mul (Nat.two_pow_pos 127)]; omega
        have h1 : 1 ≤ (U' % 2 ^ 128) / 2 ^ 127 := by
          rw [Nat.le_div_iff_mul_le (Nat.two_pow_pos 127)]; omega
        omega
    have hhz' : hz' = decide (U' / 2 ^ 128 = 0) := by
      rw [hhz, decide_eq_decide, Nat.div_eq_zero_iff_lt hPpos]
    have hho' : ho' = decide (U' / 2 ^ 128 + 1 = 2 ^ (7 * k' - 128)) := by
      rw [hho, decide_eq_decide]
      constructor
      · rintro (h | h); omega; exact h
      · intro h; exact Or.inr h
    rw [← hc, hE]
    rw [hres] at hsign ⊢
    generalize U' / 2 ^ 128 = H at *
    generalize U' % 2 ^ 128 = Q at *
    generalize 2 ^ (7 * k' - 128) = E at *
    subst hdm
    by_cases hn : neg
    · simp only [hn, if_true]
      rw [hho']
      by_cases hfit : H + 1 = E ∧ 2 ^ 127 ≤ Q
      · have : (decide (H + 1 = E) && decide (Q >>> 127 = 1)) = true := by
          simp only [Bool.and_eq_true, decide_eq_true_eq]; exact ⟨hfit.1, hsign.mpr hfit.2⟩
        rw [this, if_pos rfl, toI128_big _ hfit.2]
        have hE' : E = H + 1 := hfit.1.symm
        subst hE'
        rw [Int.natCast_add, cast_mul_pow128, cast_mul_pow128]
        rw [if_pos (by omega)]
        congr 2
        omega
      · have : (decide (H + 1 = E) && decide (Q >>> 127 = 1)) = false := by
          rw [Bool.and_eq_false_iff]
          by_cases h1 : H + 1 = E
          · right; rw [decide_eq_false_iff_not, hsign]; exact fun h => hfit ⟨h1, h⟩
          · left; rw [decide_eq_false_iff_not]; exact h1
        rw [this, if_neg Bool.false_ne_true, if_neg]
        intro hr
        apply hfit
        rw [Int.natCast_add, cast_mul_pow128, cast_mul_pow128] at hr
        have hEH : H + 1 ≤ E := hH
        by_cases h1 : H + 1 = E
        · refine ⟨h1, ?_⟩
          subst h1
          omega
        · exfalso
          have h2 : H + 2 ≤ E := by omega
          omega
    · simp only [hn, if_false]
      rw [hhz']
      by_cases hfit : H = 0 ∧ Q < 2 ^ 127
      · have : (decide (H = 0) && !decide (Q >>> 127 = 1)) = true := by
          simp only [Bool.and_eq_true, decide_eq_true_eq, Bool.not_eq_true', decide_eq_false_iff_not]
          exact ⟨hfit.1, fun h => by have := hsign.mp h; omega⟩
        rw [this, if_pos rfl, toI128_small _ hfit.2]
        obtain ⟨h0, _⟩ := hfit
        subst h0
        rw [if_pos (by omega)]
        simp
      · have : (decide (H = 0) && !decide (Q >>> 127 = 1)) = false := by
          rw [Bool.and_eq_false_iff]
          by_cases h1 : H = 0
          · right
            simp only [Bool.not_eq_false', decide_eq_true_eq]
            exact hsign.mpr (by omega)
          · left; rw [decide_eq_false_iff_not]; exact h1
        rw [this, if_neg Bool.false_ne_true, if_neg]
        intro hr
        apply hfit
        by_cases h1 : H = 0
        · subst h1; refine ⟨rfl, ?_⟩; omega
        · exfalso
          have : 2 ^ 128 ≤ H * 2 ^ 128 := Nat.le_mul_of_pos_left _ (by omega)
          omega


theorem decodeInt128Loop_spec : ∀ (bs : Bytes) (result shift : Nat) (hz ho : Bool) (U k : Nat),
    Inv128 result shift hz ho U k →
    decodeInt128Loop result shift hz ho bs =
      (match splitLeb bs with
       | none => .err .eof
       | some (p, r) =>
         if -(2 : Int) ^ 127 ≤ sAcc U (7 * k) p ∧ sAcc U (7 * k) p < (2 : Int) ^ 127
         then .ok (sAcc U (7 * k) p, r) else .err .overflow) := by
  intro bs
  induction bs with
  | nil => intro _ _ _ _ _ _ _; rfl
  | cons b t ih =>
    intro result shift hz ho U k inv
    have hlt : b.toNat % 128 < 128 := Nat.mod_lt _ (by omega)
    have h80 : (b.toNat &&& 0x80 = 0) ↔ b.toNat < 128 := and80 b
    have h40 : (b.toNat &&& 0x40 ≠ 0) ↔ 64 ≤ b.toNat % 128 := and40 b
    have inv' := step128_inv result shift hz ho U k (b.toNat % 128) hlt inv
    rw [decodeInt128Loop_cons]
    simp only [and7f]
    have e7 : 7 * (k + 1) = 7 * k + 7 := by omega
    by_cases hb : b.toNat < 128
    · rw [if_pos (h80.2 hb), splitLeb_cons_lt _ _ hb]
      have hfin := final128 _ _ _ _ _ _ t inv' (b.toNat &&& 0x40 ≠ 0)
      simp only [] at hfin ⊢
      rw [hfin]
      have hv : ((U + b.toNat % 128 * 2 ^ (7 * k) : Nat) : Int) -
            (if b.toNat &&& 0x40 ≠ 0 then (2 : Int) ^ (7 * (k + 1)) else 0) = sAcc U (7 * k) [b] := by
        rw [sAcc_single, e7, Int.natCast_add, Int.natCast_mul, Int.natCast_pow, Int.mul_comm]
        by_cases h6 : 64 ≤ b.toNat % 128
        · rw [if_pos (h40.2 h6), if_pos h6]; rfl
        · rw [if_neg (fun h => h6 (h40.1 h)), if_neg h6]; rfl
      rw [hv]
    · rw [if_neg (fun h => hb (h80.1 h)), splitLeb_cons_ge _ _ hb, ih _ _ _ _ _ _ inv']
      cases hsp : splitLeb t with
      | none => rfl
      | some x =>
        obtain ⟨p, r⟩ := x
        simp only []
        rw [e7, sAcc_cons U (7 * k) b p (splitLeb_ne_nil t p r hsp)]

/-- **the i128 decoder accepts exactly the terminated strings whose two's-complement value is in range, and returns
that value** -/
theorem decodeInt128_spec (bs : Bytes) :
    decodeInt128 bs = (match specReadI128 bs with
      | some x => .ok x
      | none => match splitLeb bs with | none => .err .eof | some _ => .err .overflow) := by
  unfold decodeInt128
  have inv0 : Inv128 0 0 true true 0 0 := ⟨Or.inl rfl, by simp, by simp, by simp, by simp⟩
  rw [decodeInt128Loop_spec bs 0 0 true true 0 0 inv0]
  unfold specReadI128 specReadInt
  cases splitLeb bs with
  | none => rfl
  | some x =>
    obtain ⟨p, r⟩ := x
    have e : sAcc 0 (7 * 0) p = sval p := by simp [sAcc, sval]
    simp only [Option.map_some, e]
    split <;> rfl


theorem decodeInt128_exact (bs : Bytes) :
    decodeInt128 bs = (match splitLeb bs with
      | none => .err .eof
      | some (p, r) =>
        if -(2 : Int) ^ 127 ≤ sval p ∧ sval p < (2 : Int) ^ 127 then .ok (sval p, r) else .err .overflow) := by
  unfold decodeInt128
  have inv0 : Inv128 0 0 true true 0 0 := ⟨Or.inl rfl, by simp, by simp, by simp, by simp⟩
  rw [decodeInt128Loop_spec bs 0 0 true true 0 0 inv0]
  cases splitLeb bs with
  | none => rfl
  | some x =>
    obtain ⟨p, r⟩ := x
    have e : sAcc 0 (7 * 0) p = sval p := by simp [sAcc, sval]
    simp only [e]

end Candid.Leb
