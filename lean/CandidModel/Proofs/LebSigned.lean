import CandidModel.Proofs.Leb
/- helper lemmas for C09: the signed decoders (`Int::decode`, the `i64` fast path of the deserializer) compute the
   two's-complement value of every terminated signed LEB128 string, minimal or padded, of any length -/
namespace Candid.Leb
open Candid Impl

/-- value of the whole string when `small < 2^shift` holds the groups already read and `p` is what follows -/
def sAcc (small shift : Nat) (p : Bytes) : Int :=
  (small : Int) + (2 : Int) ^ shift * (uval p : Int) - (if signBit p then (2 : Int) ^ (shift + 7 * p.length) else 0)

theorem splitLeb_ne_nil (bs p r : Bytes) (h : splitLeb bs = some (p, r)) : p ≠ [] := by
  have := (splitLeb_sound bs p r h).2
  intro e; subst e; exact this

theorem sAcc_cons (small shift : Nat) (b : UInt8) (p : Bytes) (hp : p ≠ []) :
    sAcc (small + (b.toNat % 128) * 2 ^ shift) (shift + 7) p = sAcc small shift (b :: p) := by
  unfold sAcc
  rw [signBit_cons b p hp]
  simp only [uval, List.length_cons]
  have e1 : shift + 7 + 7 * p.length = shift + 7 * (p.length + 1) := by omega
  rw [e1]
  have e2 : (2 : Int) ^ (shift + 7) = 128 * (2 : Int) ^ shift := by rw [Int.pow_add]; omega
  rw [e2]
  push_cast
  generalize (2 : Int) ^ shift = A
  generalize ((uval p : Nat) : Int) = U
  generalize (if signBit p = true then (2 : Int) ^ (shift + 7 * (p.length + 1)) else 0) = S
  rw [Int.mul_add]
  have : A * (128 * U) = 128 * A * U := by rw [← Int.mul_assoc, Int.mul_comm A 128]
  rw [this, Int.mul_comm A]
  omega

theorem allOnes_shl : ∀ s, s ≤ 64 → ((2 ^ 64 - 1) <<< s) % 2 ^ 64 = (2 ^ (64 - s) - 1) <<< s := by decide +kernel
theorem allOnes_val : ∀ s, s ≤ 64 → (2 ^ (64 - s) - 1) * 2 ^ s = 2 ^ 64 - 2 ^ s := by decide +kernel

theorem signBit_last : ∀ p : Bytes, p ≠ [] → signBit p = decide (64 ≤ (p.getLastD 0).toNat % 128) := by
  intro p
  induction p with
  | nil => intro h; exact absurd rfl h
  | cons b t ih =>
    intro _
    cases t with
    | nil => simp [signBit]
    | cons c u =>
      rw [signBit_cons b (c :: u) (by simp), ih (by simp)]
      rfl


theorem toI64_small (x : Nat) (h : x < 2 ^ 63) : toI64 x = (x : Int) := by
  unfold toI64; rw [if_pos h]
theorem toI64_big (x : Nat) (h : 2 ^ 63 ≤ x) : toI64 x = (x : Int) - (2 : Int) ^ 64 := by
  unfold toI64; rw [if_neg (by omega)]

theorem getLastD_append_map (g : List Nat) (p : Bytes) (hp : p ≠ []) :
    (g ++ p.map fun (b : UInt8) => b.toNat % 128).getLastD 0 = (p.getLastD 0).toNat % 128 := by
  obtain ⟨x, hx⟩ : ∃ x, p.getLast? = some x := by
    cases h : p.getLast? with
    | none => exact absurd (List.getLast?_eq_none_iff.mp h) hp
    | some x => exact ⟨x, rfl⟩
  simp [List.getLastD_eq_getLast?, List.getLast?_append, List.getLast?_map, hx]

theorem sAcc_single (small shift : Nat) (b : UInt8) :
    sAcc small shift [b] = (small : Int) + (2 : Int) ^ shift * ((b.toNat % 128 : Nat) : Int) -
      (if 64 ≤ b.toNat % 128 then (2 : Int) ^ (shift + 7) else 0) := by
  unfold sAcc
  have e1 : uval [b] = b.toNat % 128 := by simp [uval]
  have e2 : signBit [b] = decide (64 ≤ b.toNat % 128) := rfl
  rw [e1, e2]
  simp

/-- the big-number finish of `Int::decode` -/
theorem finish_val (small k : Nat) (hs : small < 2 ^ (7 * k)) (b : UInt8) (p : Bytes) (_hp : Terminated (b :: p)) :
    let gs := (groupsOfSmall small (7 * k) ++ [b.toNat % 128]) ++ p.map fun c => c.toNat % 128
    (if gs.getLastD 0 &&& 0x40 ≠ 0 then ((fromRadixLE128 gs : Nat) : Int) - (1 : Int) <<< (7 * gs.length)
      else ((fromRadixLE128 gs : Nat) : Int)) = sAcc small (7 * k) (b :: p) := by
  intro gs
  have hlen : gs.length = k + (p.length + 1) := by simp [gs, groupsOfSmall_length]
  have hval : fromRadixLE128 gs = small + 2 ^ (7 * k) * uval (b :: p) := by
    simp only [gs]
    rw [List.append_assoc, fromRadix_append, fromRadix_groupsOfSmall _ _ hs, groupsOfSmall_length, pow128]
    have : ([b.toNat % 128] ++ p.map fun c => c.toNat % 128) = (b :: p).map fun c => c.toNat % 128 := by simp
    rw [this, fromRadix_map]
  have hlast : (gs.getLastD 0 &&& 0x40 ≠ 0) ↔ signBit (b :: p) = true := by
    have hl : gs.getLastD 0 = ((b :: p).getLastD 0).toNat % 128 := by
      simp only [gs]
      rw [List.append_assoc]
      have : ([b.toNat % 128] ++ p.map fun c => c.toNat % 128) = (b :: p).map fun c => c.toNat % 128 := by simp
      rw [this]
      exact getLastD_append_map _ (b :: p) (by simp)
    rw [hl, signBit_last (b :: p) (by simp)]
    have := and40_byte (((b :: p).getLastD 0).toNat % 128) (by omega)
    rw [this]
    simp
  unfold sAcc
  rw [hval, hlen]
  by_cases hsb : signBit (b :: p) = true
  · rw [if_pos (hlast.mpr hsb), if_pos hsb, Int.shiftLeft_eq]
    simp only [List.length_cons]
    have : 7 * (k + (p.length + 1)) = 7 * k + 7 * (p.length + 1) := by omega
    rw [this]
    push_cast
    omega
  · rw [if_neg (fun h => hsb (hlast.mp h)), if_neg hsb]
    push_cast
    omega

theorem intDecodeLoop_spec : ∀ (bs : Bytes) (small shift k : Nat), shift = 7 * k → small < 2 ^ shift →
    intDecodeLoop small shift bs =
      (match splitLeb bs with
       | none => .err .eof
       | some (p, r) => .ok (sAcc small shift p, r)) := by
  intro bs
  induction bs with
  | nil => intro small shift k _ _; rfl
  | cons b t ih =>
    intro small shift k hk hs
    have hlow : b.toNat &&& 0x7f = b.toNat % 128 := and7f _
    have hlt : b.toNat % 128 < 128 := Nat.mod_lt _ (by omega)
    have h80 : (b.toNat &&& 0x80 = 0) ↔ b.toNat < 128 := and80 b
    have h40 : (b.toNat &&& 0x40 ≠ 0) ↔ 64 ≤ b.toNat % 128 := and40 b
    rw [intDecodeLoop]
    simp only [hlow, Gen.intDecodeGuard]
    by_cases h57 : shift < 57
    · -- the accumulator has room for seven more bits
      simp only [h57, if_true]
      have hfit : (b.toNat % 128) * 2 ^ shift < 2 ^ 64 := by
        have h1 : 2 ^ shift ≤ 2 ^ 56 := Nat.pow_le_pow_right (by omega) (by omega)
        have h2 : (b.toNat % 128) * 2 ^ shift ≤ 127 * 2 ^ 56 := Nat.mul_le_mul (by omega) h1
        omega
      have hs' : small ||| ((b.toNat % 128) <<< shift % 2 ^ 64) = small + (b.toNat % 128) * 2 ^ shift := by
        rw [Nat.shiftLeft_eq, Nat.mod_eq_of_lt hfit, ← Nat.shiftLeft_eq, or_shl _ _ _ hs, Nat.shiftLeft_eq]
      rw [hs']
      have hpow : 2 ^ (shift + 7) = 128 * 2 ^ shift := by rw [Nat.pow_add]; omega
      have hs2 : small + (b.toNat % 128) * 2 ^ shift < 2 ^ (shift + 7) := by
        rw [hpow]
        have : (b.toNat % 128) * 2 ^ shift ≤ 127 * 2 ^ shift := Nat.mul_le_mul_right _ (by omega)
        omega
      by_cases hb : b.toNat < 128
      · rw [if_pos (h80.2 hb), splitLeb_cons_lt _ _ hb]
        simp only []
        have hs63 : shift + 7 < 64 := by omega
        have hle : 2 ^ (shift + 7) ≤ 2 ^ 63 := Nat.pow_le_pow_right (by omega) (by omega)
        congr 2
        rw [sAcc_single]
        by_cases h6 : 64 ≤ b.toNat % 128
        · have hc : shift + 7 < 64 ∧ b.toNat &&& 0x40 ≠ 0 := ⟨hs63, h40.2 h6⟩
          rw [if_pos hc, allOnes_shl _ (by omega), or_shl _ _ _ hs2, allOnes_val _ (by omega)]
          have hp64 : 2 ^ (shift + 7) ≤ 2 ^ 64 := Nat.pow_le_pow_right (by omega) (by omega)
          rw [toI64_big _ (by omega)]
          rw [if_pos h6]
          have eR : (2 : Int) ^ shift * ((b.toNat % 128 : Nat) : Int) = (((b.toNat % 128) * 2 ^ shift : Nat) : Int) := by
            push_cast; rw [Int.mul_comm]
          have eP : (2 : Int) ^ (shift + 7) = ((2 ^ (shift + 7) : Nat) : Int) := by push_cast; rfl
          rw [eR, eP]
          generalize (b.toNat % 128) * 2 ^ shift = M at *
          generalize 2 ^ (shift + 7) = P at *
          omega
        · have hc : ¬ (shift + 7 < 64 ∧ b.toNat &&& 0x40 ≠ 0) := fun h => h6 (h40.1 h.2)
          rw [if_neg hc]
          have hlt6 : small + (b.toNat % 128) * 2 ^ shift < 2 ^ 63 := by
            have : (b.toNat % 128) * 2 ^ shift ≤ 63 * 2 ^ shift := Nat.mul_le_mul_right _ (by omega)
            omega
          rw [toI64_small _ hlt6]
          rw [if_neg h6]
          have eR : (2 : Int) ^ shift * ((b.toNat % 128 : Nat) : Int) = (((b.toNat % 128) * 2 ^ shift : Nat) : Int) := by
            push_cast; rw [Int.mul_comm]
          rw [eR]
          generalize (b.toNat % 128) * 2 ^ shift = M at *
          omega
      · rw [if_neg (fun h => hb (h80.1 h)), splitLeb_cons_ge _ _ hb]
        rw [ih _ _ (k + 1) (by omega) hs2]
        cases hsp : splitLeb t with
        | none => rfl
        | some x =>
          obtain ⟨p, r⟩ := x
          simp only []
          rw [sAcc_cons small shift b p (splitLeb_ne_nil t p r hsp)]
    · -- the accumulator is full (shift ≥ 63): only a final byte of all zeros or all ones still fits
      have h63 : 63 ≤ shift := by omega
      simp only [h57, if_false]
      have hg : (b.toNat &&& 0x40 ≠ 0) ↔ (b.toNat % 128 &&& 0x40 ≠ 0) := by
        rw [h40]; have := and40_byte (b.toNat % 128) (by omega); rw [this]; simp
      -- the big-number finish on a final byte
      have hfinish : b.toNat < 128 →
          (Outcome.ok
            (if b.toNat &&& 64 ≠ 0 then
                ((fromRadixLE128 (groupsOfSmall small shift ++ [b.toNat % 128]) : Nat) : Int) -
                  (1 : Int) <<< (7 * (groupsOfSmall small shift ++ [b.toNat % 128]).length)
              else ((fromRadixLE128 (groupsOfSmall small shift ++ [b.toNat % 128]) : Nat) : Int),
              t) : Outcome (Int × Bytes)) = Outcome.ok (sAcc small shift [b], t) := by
        intro hb
        subst hk
        have := finish_val small k hs b [] (by simpa [Terminated] using hb)
        simp only [List.map_nil, List.append_nil] at this
        rw [← this]
        simp only [List.getLastD_eq_getLast?, List.getLast?_append, List.getLast?_singleton,
          Option.some_or, Option.getD_some]
        by_cases hq : b.toNat &&& 0x40 ≠ 0
        · rw [if_pos hq, if_pos (hg.mp hq)]
        · rw [if_neg hq, if_neg (fun h => hq (hg.mpr h))]
      by_cases hb : b.toNat < 128
      · rw [splitLeb_cons_lt _ _ hb]
        simp only [if_pos (h80.2 hb)]
        by_cases h64 : shift < 64
        · have hsh : shift = 63 := by omega
          have hc : shift < 64 ∧ b.toNat &&& 0x80 = 0 := ⟨h64, h80.2 hb⟩
          simp only [if_pos hc]
          by_cases hq : b.toNat &&& 0x40 ≠ 0
          · simp only [if_pos hq]
            by_cases hall : b.toNat % 128 = 127
            · have hdec : decide ((((b.toNat % 128 : Nat) : Int) - 128) >>> (64 - shift - 1) = -1) = true := by
                rw [hsh, hall]; decide
              simp only [hdec, if_true]
              have hnot : ¬ (shift + 7 < 64) := by omega
              simp only [hnot, false_and, if_false]
              subst hsh
              congr 2
              rw [sAcc_single, hall]
              have e : (127 <<< 63) % 2 ^ 64 = 1 <<< 63 := by decide
              rw [e, or_shl _ _ _ hs, toI64_big _ (by omega)]
              simp
              omega
            · have hdec : decide ((((b.toNat % 128 : Nat) : Int) - 128) >>> (64 - shift - 1) = -1) = false := by
                rw [hsh]
                simp only [show 64 - 63 - 1 = 0 by rfl, Int.shiftRight_zero, decide_eq_false_iff_not]
                omega
              simp only [hdec, Bool.false_eq_true, if_false]
              have := hfinish hb
              simp only [if_pos hq] at this
              exact this
          · simp only [if_neg hq]
            by_cases hz : b.toNat % 128 = 0
            · have hdec : decide ((b.toNat % 128) >>> (64 - shift - 1) = 0) = true := by
                rw [hsh, hz]; decide
              simp only [hdec, if_true]
              subst hsh
              congr 2
              rw [sAcc_single, hz]
              simp only [Nat.zero_shiftLeft, Nat.zero_mod, Nat.or_zero]
              rw [toI64_small _ (by simpa using hs)]
              simp
            · have hdec : decide ((b.toNat % 128) >>> (64 - shift - 1) = 0) = false := by
                rw [hsh]
                simp only [show 64 - 63 - 1 = 0 by rfl, Nat.shiftRight_zero, decide_eq_false_iff_not]
                exact hz
              simp only [hdec, Bool.false_eq_true, if_false]
              have := hfinish hb
              simp only [if_neg hq] at this
              exact this
        · have hc : ¬ (shift < 64 ∧ b.toNat &&& 0x80 = 0) := fun h => h64 h.1
          simp only [if_neg hc, Bool.false_eq_true, if_false]
          exact hfinish hb
      · -- a continuation byte: the rest goes through the big-number path
        have hn80 : ¬ (b.toNat &&& 0x80 = 0) := fun h => hb (h80.1 h)
        have hc : ¬ (shift < 64 ∧ b.toNat &&& 0x80 = 0) := fun h => hn80 h.2
        simp only [if_neg hc, Bool.false_eq_true, if_false, if_neg hn80]
        rw [splitLeb_cons_ge _ _ hb, drainGroups_eq]
        subst hk
        cases hsp : splitLeb t with
        | none => rfl
        | some x =>
          obtain ⟨p, r⟩ := x
          simp only [Option.map_some]
          have hterm : Terminated (b :: p) := by
            have hp := (splitLeb_sound t p r hsp).2
            have hne := splitLeb_ne_nil t p r hsp
            rw [terminated_cons b p hne]
            exact ⟨by omega, hp⟩
          have := finish_val small k hs b p hterm
          simp only [] at this
          rw [← this]

/-- `Int::decode` computes exactly the two's-complement value of the terminated prefix and consumes exactly it -/
theorem intDecode_spec (bs : Bytes) :
    intDecode bs = (match specReadInt bs with | none => .err .eof | some x => .ok x) := by
  unfold intDecode specReadInt
  rw [intDecodeLoop_spec bs 0 0 0 rfl (by simp)]
  cases splitLeb bs with
  | none => rfl
  | some x =>
    obtain ⟨p, r⟩ := x
    simp only [Option.map_some, sAcc, sval]
    congr 2
    simp


/-! ### the 64-bit fast paths of the deserializer (`try_read_leb_u64`, `try_read_leb_i64`) and their fallback -/

theorem tryReadLebU64Loop_spec : ∀ (bs : Bytes) (result shift k : Nat), shift = 7 * k → k ≤ 8 → result < 2 ^ shift →
    match tryReadLebU64Loop result shift bs with
    | .ok (some (v, r)) => ∃ p, splitLeb bs = some (p, r) ∧ v = result + 2 ^ shift * uval p
    | .ok none => True
    | .err e => e = .eof ∧ splitLeb bs = none
    | .panic _ => False := by
  intro bs
  induction bs with
  | nil => intro result shift k _ _ _; simp [tryReadLebU64Loop, splitLeb]
  | cons b t ih =>
    intro result shift k hk hk8 hs
    have hlow : b.toNat &&& 0x7f = b.toNat % 128 := and7f _
    have hlt : b.toNat % 128 < 128 := Nat.mod_lt _ (by omega)
    have h80 : (b.toNat &&& 0x80 = 0) ↔ b.toNat < 128 := and80 b
    rw [tryReadLebU64Loop]
    simp only [hlow, Gen.tryReadLebU64Bound]
    have hfit : (b.toNat % 128) * 2 ^ shift < 2 ^ 64 := by
      have h1 : 2 ^ shift ≤ 2 ^ 56 := Nat.pow_le_pow_right (by omega) (by omega)
      have h2 : (b.toNat % 128) * 2 ^ shift ≤ 127 * 2 ^ 56 := Nat.mul_le_mul (by omega) h1
      omega
    have hs' : result ||| ((b.toNat % 128) <<< shift % 2 ^ 64) = result + (b.toNat % 128) * 2 ^ shift := by
      rw [Nat.shiftLeft_eq, Nat.mod_eq_of_lt hfit, ← Nat.shiftLeft_eq, or_shl _ _ _ hs, Nat.shiftLeft_eq]
    rw [hs']
    have hpow : 2 ^ (shift + 7) = 128 * 2 ^ shift := by rw [Nat.pow_add]; omega
    by_cases hb : b.toNat < 128
    · rw [if_pos (h80.2 hb), splitLeb_cons_lt _ _ hb]
      refine ⟨[b], rfl, ?_⟩
      simp only [uval]
      rw [Nat.mul_comm]; simp
    · rw [if_neg (fun h => hb (h80.1 h)), splitLeb_cons_ge _ _ hb]
      by_cases h63 : shift + 7 ≥ 63
      · rw [if_pos h63]; trivial
      · rw [if_neg h63]
        have hs2 : result + (b.toNat % 128) * 2 ^ shift < 2 ^ (shift + 7) := by
          rw [hpow]
          have : (b.toNat % 128) * 2 ^ shift ≤ 127 * 2 ^ shift := Nat.mul_le_mul_right _ (by omega)
          omega
        have := ih (result + (b.toNat % 128) * 2 ^ shift) (shift + 7) (k + 1) (by omega) (by omega) hs2
        cases hx : tryReadLebU64Loop (result + (b.toNat % 128) * 2 ^ shift) (shift + 7) t with
        | ok o =>
          rw [hx] at this
          cases o with
          | none => trivial
          | some vr =>
            obtain ⟨v, r⟩ := vr
            simp only [] at this ⊢
            obtain ⟨p, hp, hv⟩ := this
            refine ⟨b :: p, by rw [hp], ?_⟩
            rw [hv]
            simp only [uval]
            rw [hpow, Nat.mul_add, Nat.mul_comm (2 ^ shift) (b.toNat % 128), Nat.add_assoc]
            congr 1
            congr 1
            rw [← Nat.mul_assoc, Nat.mul_comm 128]
        | err e =>
          rw [hx] at this
          simp only [] at this ⊢
          exact ⟨this.1, by rw [this.2]⟩
        | panic q => rw [hx] at this; exact this

/-- `deserialize_nat` for a typed visitor (fast path, else rewind and `Nat::decode`) computes the specification's value -/
theorem deNat_spec (bs : Bytes) : deNat bs = (match specReadNat bs with | none => .err .eof | some x => .ok x) := by
  unfold deNat
  have h := tryReadLebU64Loop_spec bs 0 0 0 rfl (by omega) (by simp)
  cases hx : tryReadLebU64Loop 0 0 bs with
  | ok o =>
    rw [hx] at h
    cases o with
    | none => simp only []; exact natDecode_spec bs
    | some vr =>
      obtain ⟨v, r⟩ := vr
      simp only [] at h ⊢
      obtain ⟨p, hp, hv⟩ := h
      unfold specReadNat
      rw [hp, hv]
      simp
  | err e =>
    rw [hx] at h
    simp only [] at h ⊢
    unfold specReadNat
    rw [h.1, h.2]
    rfl
  | panic q => rw [hx] at h; exact absurd h (by simp)

theorem tryReadLebI64Loop_spec : ∀ (bs : Bytes) (result shift k : Nat), shift = 7 * k → k ≤ 8 → result < 2 ^ shift →
    match tryReadLebI64Loop result shift bs with
    | .ok (some (v, r)) => ∃ p, splitLeb bs = some (p, r) ∧ v = sAcc result shift p
    | .ok none => True
    | .err e => e = .eof ∧ splitLeb bs = none
    | .panic _ => False := by
  intro bs
  induction bs with
  | nil => intro result shift k _ _ _; simp [tryReadLebI64Loop, splitLeb]
  | cons b t ih =>
    intro result shift k hk hk8 hs
    have hlow : b.toNat &&& 0x7f = b.toNat % 128 := and7f _
    have hlt : b.toNat % 128 < 128 := Nat.mod_lt _ (by omega)
    have h80 : (b.toNat &&& 0x80 = 0) ↔ b.toNat < 128 := and80 b
    have h40 : (b.toNat &&& 0x40 ≠ 0) ↔ 64 ≤ b.toNat % 128 := and40 b
    rw [tryReadLebI64Loop]
    simp only [hlow, Gen.tryReadLebI64Bound]
    have hfit : (b.toNat % 128) * 2 ^ shift < 2 ^ 64 := by
      have h1 : 2 ^ shift ≤ 2 ^ 56 := Nat.pow_le_pow_right (by omega) (by omega)
      have h2 : (b.toNat % 128) * 2 ^ shift ≤ 127 * 2 ^ 56 := Nat.mul_le_mul (by omega) h1
      omega
    have hs' : result ||| ((b.toNat % 128) <<< shift % 2 ^ 64) = result + (b.toNat % 128) * 2 ^ shift := by
      rw [Nat.shiftLeft_eq, Nat.mod_eq_of_lt hfit, ← Nat.shiftLeft_eq, or_shl _ _ _ hs, Nat.shiftLeft_eq]
    rw [hs']
    have hpow : 2 ^ (shift + 7) = 128 * 2 ^ shift := by rw [Nat.pow_add]; omega
    have hs2 : result + (b.toNat % 128) * 2 ^ shift < 2 ^ (shift + 7) := by
      rw [hpow]
      have : (b.toNat % 128) * 2 ^ shift ≤ 127 * 2 ^ shift := Nat.mul_le_mul_right _ (by omega)
      omega
    by_cases hb : b.toNat < 128
    · rw [if_pos (h80.2 hb), splitLeb_cons_lt _ _ hb]
      have h64 : ¬ (shift + 7 ≥ 64) := by omega
      rw [if_neg h64]
      refine ⟨[b], rfl, ?_⟩
      rw [sAcc_single]
      have hle : 2 ^ (shift + 7) ≤ 2 ^ 63 := Nat.pow_le_pow_right (by omega) (by omega)
      have eR : (2 : Int) ^ shift * ((b.toNat % 128 : Nat) : Int) = (((b.toNat % 128) * 2 ^ shift : Nat) : Int) := by
        push_cast; rw [Int.mul_comm]
      have eP : (2 : Int) ^ (shift + 7) = ((2 ^ (shift + 7) : Nat) : Int) := by push_cast; rfl
      by_cases h6 : 64 ≤ b.toNat % 128
      · rw [if_pos (h40.2 h6), allOnes_shl _ (by omega), or_shl _ _ _ hs2, allOnes_val _ (by omega)]
        have hp64 : 2 ^ (shift + 7) ≤ 2 ^ 64 := Nat.pow_le_pow_right (by omega) (by omega)
        rw [toI64_big _ (by omega), if_pos h6, eR, eP]
        generalize (b.toNat % 128) * 2 ^ shift = M at *
        generalize 2 ^ (shift + 7) = P at *
        omega
      · rw [if_neg (fun h => h6 (h40.1 h))]
        have hlt6 : result + (b.toNat % 128) * 2 ^ shift < 2 ^ 63 := by
          have : (b.toNat % 128) * 2 ^ shift ≤ 63 * 2 ^ shift := Nat.mul_le_mul_right _ (by omega)
          omega
        rw [toI64_small _ hlt6, if_neg h6, eR]
        generalize (b.toNat % 128) * 2 ^ shift = M at *
        omega
    · rw [if_neg (fun h => hb (h80.1 h)), splitLeb_cons_ge _ _ hb]
      by_cases h63 : shift + 7 ≥ 63
      · rw [if_pos h63]; trivial
      · rw [if_neg h63]
        have := ih (result + (b.toNat % 128) * 2 ^ shift) (shift + 7) (k + 1) (by omega) (by omega) hs2
        cases hx : tryReadLebI64Loop (result + (b.toNat % 128) * 2 ^ shift) (shift + 7) t with
        | ok o =>
          rw [hx] at this
          cases o with
          | none => trivial
          | some vr =>
            obtain ⟨v, r⟩ := vr
            simp only [] at this ⊢
            obtain ⟨p, hp, hv⟩ := this
            refine ⟨b :: p, by rw [hp], ?_⟩
            rw [hv]
            exact sAcc_cons result shift b p (splitLeb_ne_nil t p r hp)
        | err e =>
          rw [hx] at this
          simp only [] at this ⊢
          exact ⟨this.1, by rw [this.2]⟩
        | panic q => rw [hx] at this; exact this

/-- `deserialize_int` at wire type `int` for a typed visitor computes the specification's value -/
theorem deInt_spec (bs : Bytes) : deInt bs = (match specReadInt bs with | none => .err .eof | some x => .ok x) := by
  unfold deInt
  have h := tryReadLebI64Loop_spec bs 0 0 0 rfl (by omega) (by simp)
  cases hx : tryReadLebI64Loop 0 0 bs with
  | ok o =>
    rw [hx] at h
    cases o with
    | none => simp only []; exact intDecode_spec bs
    | some vr =>
      obtain ⟨v, r⟩ := vr
      simp only [] at h ⊢
      obtain ⟨p, hp, hv⟩ := h
      unfold specReadInt
      rw [hp, hv]
      simp only [Option.map_some, sAcc, sval]
      congr 2
      simp
  | err e =>
    rw [hx] at h
    simp only [] at h ⊢
    unfold specReadInt
    rw [h.1, h.2]
    rfl
  | panic q => rw [hx] at h; exact absurd h (by simp)

end Candid.Leb
